(* C05: multi-part transactions, and the ring operations stated on the abstraction. *)
From Coq Require Import ZArith Znumtheory List Bool Lia ZifyBool.
From Zix Require Import RingSpec RingModel RingProofsNpot RingProofsBase RingProofs RingProofsSim
  RingProofsHist.
Import ListNotations.
Local Open Scope Z_scope.

(* amend_write called once per part, whatever the outcomes *)
Fixpoint amend_all (rg : ring) (t : tx) (parts : list (list Z)) : ring * tx * list Z :=
  match parts with
  | [] => (rg, t, [])
  | b :: bs =>
      let '(rg1, t1, s) := ring_amend_write rg t b in
      let '(rg2, t2, ss) := amend_all rg1 t1 bs in
      (rg2, t2, s :: ss)
  end.

(* what the property says the statuses are: a part is refused exactly when the bytes accepted
   so far plus this part exceed the room the transaction started with *)
Fixpoint amend_statuses (room total : Z) (parts : list (list Z)) : list Z :=
  match parts with
  | [] => []
  | b :: bs =>
      if total + len b <=? room
      then ST_SUCCESS :: amend_statuses room (total + len b) bs
      else ST_NO_MEM :: amend_statuses room total bs
  end.

Fixpoint amend_accepted (room total : Z) (parts : list (list Z)) : list Z :=
  match parts with
  | [] => []
  | b :: bs =>
      if total + len b <=? room
      then b ++ amend_accepted room (total + len b) bs
      else amend_accepted room total bs
  end.

Lemma amend_accepted_all room total parts :
  total + len (concat parts) <= room -> amend_accepted room total parts = concat parts.
Proof.
  revert total. induction parts as [|b bs IH]; intros total H; cbn [amend_accepted concat]; [reflexivity|].
  cbn [concat] in H. rewrite len_app in H. pose proof (len_nonneg (concat bs)).
  destruct (total + len b <=? room) eqn:E; [|lia]. f_equal. apply IH. lia.
Qed.

Lemma amend_statuses_all room total parts :
  total + len (concat parts) <= room ->
  amend_statuses room total parts = map (fun _ => ST_SUCCESS) parts.
Proof.
  revert total. induction parts as [|b bs IH]; intros total H; cbn [amend_statuses map]; [reflexivity|].
  cbn [concat] in H. rewrite len_app in H. pose proof (len_nonneg (concat bs)).
  destruct (total + len b <=? room) eqn:E; [|lia]. f_equal. apply IH. lia.
Qed.

Lemma amend_accepted_fits room total parts :
  0 <= total <= room -> total + len (amend_accepted room total parts) <= room.
Proof.
  revert total. induction parts as [|b bs IH]; intros total H; cbn [amend_accepted].
  - change (len []) with 0. lia.
  - pose proof (len_nonneg b). destruct (total + len b <=? room) eqn:E.
    + rewrite len_app. specialize (IH (total + len b)). lia.
    + apply IH. lia.
Qed.

Lemma R_of_inv rg t :
  inv rg -> 0 <= tx_write_head t < size rg -> R (ring_capacity rg) (rg, t) (mkS (abs rg) None).
Proof.
  intros H Ht. unfold R. cbn [fst snd sq stx].
  split; [exact H|]. split; [exact Ht|]. split; [reflexivity|]. split; [reflexivity|exact I].
Qed.

Lemma amend_all_R cap parts : forall rg t q p room,
  R cap (rg, t) (mkS q (Some (p, room))) ->
  exists rg1 t1,
    amend_all rg t parts = (rg1, t1, amend_statuses room (len p) parts) /\
    R cap (rg1, t1) (mkS q (Some (p ++ amend_accepted room (len p) parts, room))) /\
    read_head rg1 = read_head rg /\ write_head rg1 = write_head rg /\ size rg1 = size rg.
Proof.
  induction parts as [|b bs IH]; intros rg t q p room HR; cbn [amend_all amend_statuses amend_accepted].
  - exists rg, t. rewrite app_nil_r. split; [reflexivity|]. split; [exact HR|]. auto.
  - pose proof (R_amend _ _ _ _ _ _ b HR) as A.
    destruct (len p + len b <=? room) eqn:E.
    + destruct A as (rg' & t' & Eq & HR' & Hr & Hw & Hs & _). rewrite Eq.
      destruct (IH _ _ _ _ _ HR') as (rg1 & t1 & Eq1 & HR1 & Hr1 & Hw1 & Hs1).
      rewrite len_app in Eq1, HR1. rewrite Eq1. exists rg1, t1.
      rewrite <- app_assoc in HR1. split; [reflexivity|]. split; [exact HR1|].
      split; [congruence|]. split; congruence.
    + rewrite A. destruct (IH _ _ _ _ _ HR) as (rg1 & t1 & Eq1 & HR1 & Hr1 & Hw1 & Hs1).
      rewrite Eq1. exists rg1, t1. split; [reflexivity|]. split; [exact HR1|]. auto.
Qed.

(* same stored bytes and same read head => same write head *)
Lemma write_head_from_abs rg1 rg2 :
  inv rg1 -> inv rg2 -> size rg1 = size rg2 -> read_head rg1 = read_head rg2 ->
  len (abs rg1) = len (abs rg2) -> write_head rg1 = write_head rg2.
Proof.
  intros H1 H2 Hs Hr Hl. rewrite !abs_len in Hl by assumption.
  rewrite <- (w_after_r rg1 H1), <- (w_after_r rg2 H2). congruence.
Qed.

Lemma amend_frame rg t src :
  let rg1 := fst (fst (ring_amend_write rg t src)) in
  read_head rg1 = read_head rg /\ write_head rg1 = write_head rg /\ size rg1 = size rg.
Proof.
  unfold ring_amend_write.
  destruct (write_space_internal rg (tx_read_head t) (tx_write_head t) <? Z.of_nat (length src));
    [cbn; auto|].
  destruct (u32 (tx_write_head t + Z.of_nat (length src)) <=? size rg); cbn; auto.
Qed.

Lemma write_frame rg src :
  read_head (fst (ring_write rg src)) = read_head rg /\ size (fst (ring_write rg src)) = size rg.
Proof.
  unfold ring_write. pose proof (amend_frame rg (ring_begin_write rg) src) as F. cbv zeta in F.
  destruct (ring_amend_write rg (ring_begin_write rg) src) as [[rg1 t1] st1]. cbn [fst] in F.
  destruct (negb (st1 =? 0)); cbn; tauto.
Qed.

(* the stored bytes only change at the front (reads) and at the back (writes, commits) *)
Lemma ring_write_abs rg src :
  inv rg ->
  if len src <=? ring_write_space rg
  then exists rg', ring_write rg src = (rg', len src) /\ inv rg' /\ abs rg' = abs rg ++ src /\
                   read_head rg' = read_head rg /\ size rg' = size rg
  else ring_write rg src = (rg, 0).
Proof.
  intros H. pose proof (R_of_inv rg (ring_begin_write rg) H (inv_w rg H)) as HR.
  pose proof (R_write _ _ _ _ src HR) as W. rewrite (R_free _ _ _ _ HR) in W.
  destruct (len src <=? ring_write_space rg) eqn:E; [|exact W].
  destruct W as (rg' & Eq & (I' & _ & Hc & Ha & _)). cbn [fst snd sq stx] in *.
  pose proof (write_frame rg src) as [F1 F2]. rewrite Eq in F1, F2. cbn [fst] in F1, F2.
  exists rg'. split; [exact Eq|]. split; [exact I'|]. split; [exact Ha|]. split; assumption.
Qed.

Lemma ring_read_abs rg n :
  inv rg -> 0 <= n ->
  if n <=? len (abs rg)
  then exists rg', ring_read rg n = (rg', (n, ztake n (abs rg))) /\ inv rg' /\
                   abs rg' = zdrop n (abs rg) /\ write_head rg' = write_head rg
  else ring_read rg n = (rg, (0, [])).
Proof.
  intros H Hn. rewrite ring_read_spec by assumption.
  destruct (n <=? len (abs rg)) eqn:E; [|reflexivity].
  eexists. split; [reflexivity|].
  rewrite abs_len in E by exact H.
  destruct (read_head_advance rg n H ltac:(lia)) as (I' & _ & _ & AB). auto.
Qed.

(* the whole transaction *)
Lemma tx_lemma rg parts :
  inv rg ->
  let room := ring_write_space rg in
  let acc := amend_accepted room 0 parts in
  exists rg1 t1,
    amend_all rg (ring_begin_write rg) parts = (rg1, t1, amend_statuses room 0 parts) /\
    (* before commit: nothing visible *)
    inv rg1 /\ abs rg1 = abs rg /\ read_head rg1 = read_head rg /\ write_head rg1 = write_head rg /\
    ring_read_space rg1 = ring_read_space rg /\ ring_write_space rg1 = ring_write_space rg /\
    (* after commit: exactly one write of the accepted bytes *)
    let rg2 := fst (ring_commit_write rg1 t1) in
    inv rg2 /\ abs rg2 = abs rg ++ acc /\
    exists rgw, ring_write rg acc = (rgw, len acc) /\ abs rgw = abs rg2 /\
                read_head rgw = read_head rg2 /\ write_head rgw = write_head rg2 /\
                size rgw = size rg2.
Proof.
  intros H room acc.
  pose proof (R_of_inv rg (ring_begin_write rg) H (inv_w rg H)) as HR0.
  pose proof (R_begin _ _ _ _ HR0) as HB. pose proof (R_free _ _ _ _ HR0) as Hf.
  cbn [sq] in HB, Hf. rewrite Hf in HB. fold room in HB.
  destruct (amend_all_R _ parts _ _ _ _ _ HB) as (rg1 & t1 & Eq & HR1 & Hr & Hw & Hs).
  change (len []) with 0 in *. cbn [app] in HR1. fold acc in HR1.
  exists rg1, t1. split; [exact Eq|].
  pose proof HR1 as (I1 & _ & _ & Ha1 & _). cbn [fst snd sq stx] in *.
  split; [exact I1|]. split; [exact Ha1|]. split; [exact Hr|]. split; [exact Hw|].
  assert (RS : ring_read_space rg1 = ring_read_space rg).
  { rewrite <- !abs_len by assumption. now rewrite Ha1. }
  split; [exact RS|]. split.
  { pose proof (space_sum_lemma rg H). pose proof (space_sum_lemma rg1 I1).
    rewrite !capacity_spec in * by assumption. lia. }
  pose proof (R_commit _ _ _ _ _ _ HR1) as [(I2 & _ & _ & Ha2 & _) _]. cbn [fst snd sq stx] in *.
  split; [exact I2|]. split; [exact Ha2|].
  pose proof (ring_write_abs rg acc H) as W.
  pose proof (amend_accepted_fits room 0 parts) as F. fold acc in F.
  pose proof (ws_range rg H) as WSr. fold room in WSr.
  destruct (len acc <=? ring_write_space rg) eqn:E; [|fold room in E; lia].
  destruct W as (rgw & Eqw & Iw & Haw & Hrw & Hsw).
  exists rgw. split; [exact Eqw|].
  assert (A : abs rgw = abs (fst (ring_commit_write rg1 t1))) by (now rewrite Haw, Ha2).
  assert (Rr : read_head rgw = read_head (fst (ring_commit_write rg1 t1))) by (cbn; congruence).
  assert (Sz : size rgw = size (fst (ring_commit_write rg1 t1))) by (cbn; congruence).
  split; [exact A|]. split; [exact Rr|]. split; [|exact Sz].
  apply write_head_from_abs; auto. now rewrite A.
Qed.

(* ---------- a request that does not fit changes nothing at all ---------- *)

Lemma refused_unchanged rg :
  inv rg ->
  (forall src, ring_write_space rg < len src -> ring_write rg src = (rg, 0)) /\
  (forall n, ring_read_space rg < n ->
     ring_read rg n = (rg, (0, [])) /\ ring_peek rg n = (0, []) /\ ring_skip rg n = (rg, 0)) /\
  (forall t src, 0 <= tx_write_head t < size rg ->
     write_space_internal rg (tx_read_head t) (tx_write_head t) < len src ->
     ring_amend_write rg t src = (rg, t, ST_NO_MEM)).
Proof.
  intros H. pose proof (rs_range rg H) as RSr. split; [|split].
  - intros src Hlt. pose proof (ring_write_abs rg src H) as W.
    destruct (len src <=? ring_write_space rg) eqn:E; [lia|exact W].
  - intros n Hlt. assert (Hn : 0 <= n) by lia.
    rewrite ring_read_spec, ring_peek_spec, ring_skip_spec by assumption.
    rewrite abs_len by exact H.
    destruct (n <=? ring_read_space rg) eqn:E; [lia|]. auto.
  - intros t src Ht Hlt. pose proof (amend_spec rg t src H Ht) as A. cbv zeta in A.
    rewrite wsi_spec in Hlt by exact H.
    destruct (len src <=? (tx_read_head t - tx_write_head t - 1) mod size rg) eqn:E; [lia|exact A].
Qed.

(* served requests, on the abstraction *)
Lemma served rg :
  inv rg ->
  (forall src, len src <= ring_write_space rg ->
     exists rg', ring_write rg src = (rg', len src) /\ inv rg' /\ abs rg' = abs rg ++ src) /\
  (forall n, 0 <= n <= ring_read_space rg ->
     (exists rg', ring_read rg n = (rg', (n, ztake n (abs rg))) /\ inv rg' /\
                  abs rg' = zdrop n (abs rg)) /\
     ring_peek rg n = (n, ztake n (abs rg)) /\
     (exists rg', ring_skip rg n = (rg', n) /\ inv rg' /\ abs rg' = zdrop n (abs rg))).
Proof.
  intros H. split.
  - intros src Hle. pose proof (ring_write_abs rg src H) as W.
    destruct (len src <=? ring_write_space rg) eqn:E; [|lia].
    destruct W as (rg' & Eq & I' & Ha & _). exists rg'. auto.
  - intros n Hn.
    rewrite ring_read_spec, ring_peek_spec, ring_skip_spec by (auto; lia).
    rewrite abs_len by exact H.
    destruct (n <=? ring_read_space rg) eqn:E; [|lia].
    destruct (read_head_advance rg n H Hn) as (I' & _ & _ & AB).
    split; [|split]; [eexists; split; [reflexivity|auto] | reflexivity | eexists; split; [reflexivity|auto]].
Qed.

Lemma peek_pure rg n : inv rg -> 0 <= n -> ring_peek rg n = snd (ring_read rg n).
Proof.
  intros H Hn. rewrite ring_read_spec, ring_peek_spec by assumption.
  destruct (n <=? len (abs rg)); reflexivity.
Qed.

Lemma reset_empty rg :
  inv rg ->
  inv (ring_reset rg) /\ abs (ring_reset rg) = [] /\ ring_read_space (ring_reset rg) = 0 /\
  ring_write_space (ring_reset rg) = ring_capacity rg.
Proof.
  intros H. pose proof (inv_N rg H) as HN.
  assert (I' : inv (ring_reset rg)).
  { destruct H as [Hk Hm _ _ Hl]. constructor; cbn; auto; lia. }
  assert (RS : ring_read_space (ring_reset rg) = 0).
  { unfold ring_read_space. rewrite rsi_spec by exact I'. cbn. rewrite ?Z.mod_0_l by lia. reflexivity. }
  split; [exact I'|]. split; [|split; [exact RS|]].
  - unfold abs. rewrite RS. reflexivity.
  - pose proof (space_sum_lemma _ I'). rewrite RS in *.
    rewrite capacity_spec in * by assumption. cbn [size ring_reset] in *. lia.
Qed.
