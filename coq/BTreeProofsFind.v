(* BTreeProofsFind — zix_btree_find and zix_btree_lower_bound of the model against the sorted-list spec. *)
From Coq Require Import ZArith List Bool Arith Lia ZifyBool ZifyNat.
From Zix Require Import BTreeSpec BTreeModel BTreeProofsBase.
Import ListNotations.
Ltac Zify.zify_post_hook ::= Z.div_mod_to_equations.
Set Default Proof Using "All".

Section Find.
  Variable elt : Type.  Variable rank : elt -> Z.  Variable dflt : elt.  Variables L I : nat.
  Hypothesis HI : I = L / 2.  Hypothesis HI3 : 3 <= I.
  Notation node := (node elt).  Notation tree := (tree elt).  Notation dnode := (@dnode elt).
  Notation asc := (@asc elt rank).  Notation mono := (@monotone elt).

  (* ---------------------------------------------------------------- paths *)
  (* what iter_get reads through the path p *)
  Definition getp (n : node) (p : list nat) : elt :=
    nth (last p 0) (vals (subnode n (removelast p))) dflt.

  Lemma iter_get_getp : forall (r : node) p, iter_get dflt r (IAt p) = getp r p.
  Proof. reflexivity. Qed.

  Lemma getp_one : forall (n : node) i, getp n [i] = nth i (vals n) dflt.
  Proof. reflexivity. Qed.

  Lemma getp_cons : forall (n : node) i p, p <> [] -> getp n (i :: p) = getp (child n i) p.
  Proof. intros n i [|j q] H; [congruence|]. reflexivity. Qed.

  Lemma valid_one : forall (n : node) i, valid n [i] = (i < n_vals n).
  Proof. reflexivity. Qed.

  Lemma valid_cons : forall (n : node) i p, p <> [] ->
    valid n (i :: p) = (is_leaf n = false /\ i <= n_vals n /\ valid (child n i) p).
  Proof. intros n i [|j q] H; [congruence|]. reflexivity. Qed.

  Lemma valid_nonnil : forall (n : node) p, valid n p -> p <> [].
  Proof. intros n [|i q] H; [destruct H|discriminate]. Qed.

  Lemma pos_one_leaf : forall (vs : list elt) i, pos (Leaf vs) [i] = i.
  Proof. reflexivity. Qed.

  Lemma pos_one_inode : forall (vs : list elt) cs i,
    pos (Inode vs cs) [i] = length (pre vs cs i) + length (elements (nth i cs dnode)).
  Proof. reflexivity. Qed.

  Lemma pos_cons_inode : forall (vs : list elt) cs i p, p <> [] ->
    pos (Inode vs cs) (i :: p) = length (pre vs cs i) + pos (nth i cs dnode) p.
  Proof. intros vs cs i [|j q] H; [congruence|]. reflexivity. Qed.

  (* ---------------------------------------------------------------- structure *)
  Lemma max_vals_le_L : forall n : node, max_vals L I n <= L.
  Proof. intros [vs|vs cs]; unfold max_vals; cbn [is_leaf]; lia. Qed.

  Lemma kid_ok : forall h (vs : list elt) cs i, kids_ok L I (S h) (Inode vs cs) -> i <= length vs ->
    kids_ok L I h (nth i cs dnode) /\ n_vals (nth i cs dnode) <= max_vals L I (nth i cs dnode).
  Proof.
    intros h vs cs i Hk Hi.
    pose proof (kids_ok_child _ rank dflt L I HI HI3 h vs cs i Hk Hi) as Hw.
    apply (wfn_iff _ rank dflt L I HI HI3) in Hw. split; [tauto|lia].
  Qed.

  Lemma kids_len : forall h (vs : list elt) cs, kids_ok L I h (Inode vs cs) -> length cs = S (length vs).
  Proof. intros [|h] vs cs H; [destruct H|]. destruct H as (_ & H & _). exact H. Qed.

  (* ---------------------------------------------------------------- positions in the listing *)
  Lemma nth_sep : forall (vs : list elt) cs i, length cs = S (length vs) -> i < length vs ->
    length (pre vs cs i) + length (elements (nth i cs dnode)) < length (elements (Inode vs cs)) /\
    nth (length (pre vs cs i) + length (elements (nth i cs dnode))) (elements (Inode vs cs)) dflt = nth i vs dflt.
  Proof.
    intros vs cs i Hl Hi.
    rewrite (elements_split _ rank dflt vs cs i) by lia.
    rewrite (post_step _ rank dflt vs cs i) by lia.
    rewrite app_assoc. rewrite <- app_length. split.
    - rewrite (app_length (_ ++ _)). cbn [length]. lia.
    - apply nth_middle.
  Qed.

  Lemma nth_in_child : forall (vs : list elt) cs i k, length cs = S (length vs) -> i <= length vs ->
    k < length (elements (nth i cs dnode)) ->
    length (pre vs cs i) + k < length (elements (Inode vs cs)) /\
    nth (length (pre vs cs i) + k) (elements (Inode vs cs)) dflt = nth k (elements (nth i cs dnode)) dflt.
  Proof.
    intros vs cs i k Hl Hi Hk.
    rewrite (elements_split _ rank dflt vs cs i) by lia. split.
    - rewrite !app_length. lia.
    - rewrite app_nth2_plus. apply app_nth1. exact Hk.
  Qed.

  (* one page costs at most log2 L + 1 comparisons *)
  Lemma page_cost : forall (lg : list elt) count, count <= L ->
    (count = 0 -> lg = []) -> (1 <= count -> 2 ^ length lg <= 2 * count) ->
    length lg <= Nat.log2 L + 1.
  Proof.
    intros lg count Hc H0 H1. destruct (Nat.eq_dec count 0) as [E|E].
    - rewrite (H0 E). cbn [length]. lia.
    - specialize (H1 ltac:(lia)).
      assert (H2 : 2 ^ length lg <= 2 * L) by lia.
      apply Nat.log2_le_pow2 in H2; [|lia].
      rewrite Nat.log2_double in H2 by lia. lia.
  Qed.

  (* ---------------------------------------------------------------- zix_btree_find *)
  Definition fd_post (n : node) (e : elt) (r : option (list nat)) : Prop :=
    match r with
    | Some p => valid n p /\ pos n p < length (elements n) /\
                rank (nth (pos n p) (elements n) dflt) = rank e /\
                getp n p = nth (pos n p) (elements n) dflt
    | None => forall x, In x (elements n) -> rank x <> rank e
    end.

  Lemma find_down_spec : forall h (n : node) e,
    kids_ok L I h n -> n_vals n <= max_vals L I n -> asc (elements n) ->
    fd_post n e (fst (find_down rank dflt h n e)) /\
    (forall x, In x (snd (find_down rank dflt h n e)) -> In x (elements n)) /\
    length (snd (find_down rank dflt h n e)) <= h * (Nat.log2 L + 1).
  Proof.
    induction h as [|h IH]; intros n e Hk Hb Ha; [destruct Hk|].
    destruct n as [vs|vs cs].
    - (* leaf *)
      cbn [find_down].
      pose proof (find_value_spec _ rank dflt (cmpk rank e) vs (cmpk_mono _ rank dflt e vs Ha)) as Hs.
      destruct (find_value dflt (cmpk rank e) vs) as [[i eq] lg] eqn:E.
      destruct Hs as (H1 & H2 & H3 & H4 & H5 & H6). cbn [fst snd].
      split; [|split].
      + destruct eq.
        * destruct (H2 eq_refl) as [Hi Hc]. unfold fd_post.
          rewrite valid_one, pos_one_leaf, getp_one. cbn [elements vals]. unfold n_vals. cbn [vals].
          repeat split; auto. apply (cmpk_Eq _ rank dflt). exact Hc.
        * destruct (H3 eq_refl) as [Hlo Hhi]. intros x Hx Hr. cbn [elements] in Hx.
          destruct (In_nth _ _ dflt Hx) as (j & Hj & <-).
          apply (cmpk_Eq _ rank dflt) in Hr.
          destruct (Nat.lt_ge_cases j i) as [Hji|Hji].
          -- rewrite Hlo in Hr by assumption. discriminate.
          -- rewrite Hhi in Hr by lia. discriminate.
      + exact H4.
      + assert (length lg <= Nat.log2 L + 1).
        { assert (length vs <= L).
          { pose proof (max_vals_le_L (Leaf vs)). unfold n_vals in Hb. cbn [vals] in Hb. lia. }
          apply (page_cost lg (length vs)); auto. }
        lia.
    - (* inode *)
      pose proof (kids_len _ _ _ Hk) as Hl.
      pose proof (cmpk_mono _ rank dflt e _ Ha) as Hm.
      cbn [find_down].
      pose proof (find_value_spec _ rank dflt (cmpk rank e) vs
                    (mono_vals _ rank dflt _ vs cs Hl Hm)) as Hs.
      destruct (find_value dflt (cmpk rank e) vs) as [[i eq] lg] eqn:E.
      destruct Hs as (H1 & H2 & H3 & H4 & H5 & H6).
      assert (Hpg : length lg <= Nat.log2 L + 1).
      { assert (length vs <= L).
        { pose proof (max_vals_le_L (Inode vs cs)). unfold n_vals in Hb. cbn [vals] in Hb. lia. }
        apply (page_cost lg (length vs)); auto. }
      destruct eq.
      + destruct (H2 eq_refl) as [Hi Hc]. cbn [fst snd]. split; [|split].
        * unfold fd_post. rewrite valid_one, pos_one_inode, getp_one. cbn [vals]. unfold n_vals. cbn [vals].
          destruct (nth_sep vs cs i Hl Hi) as [Hlt Hnth]. rewrite Hnth.
          repeat split; auto. apply (cmpk_Eq _ rank dflt). exact Hc.
        * intros x Hx. apply (in_vals_elements _ rank dflt); auto.
        * lia.
      + destruct (H3 eq_refl) as [Hlo Hhi].
        destruct (kid_ok h vs cs i Hk H1) as [Hkc Hbc].
        pose proof (asc_child _ rank dflt vs cs i Hl H1 Ha) as Hac.
        destruct (IH (nth i cs dnode) e Hkc Hbc Hac) as (Hr & Hlg & Hcost).
        destruct (find_down rank dflt h (nth i cs dnode) e) as [r lg2] eqn:E2. cbn [fst snd] in *.
        split; [|split].
        * destruct r as [p|]; unfold fd_post in *.
          -- destruct Hr as (Hv & Hp & Hrk & Hg).
             pose proof (valid_nonnil _ _ Hv) as Hne.
             rewrite valid_cons, pos_cons_inode, getp_cons by assumption.
             destruct (nth_in_child vs cs i _ Hl H1 Hp) as [Hlt Hnth]. rewrite Hnth.
             unfold child. cbn [children is_leaf]. unfold n_vals. cbn [vals].
             repeat split; auto.
          -- intros x Hx. rewrite (elements_split _ rank dflt vs cs i) in Hx by lia.
             apply in_app_or in Hx as [Hx|Hx]; [|apply in_app_or in Hx as [Hx|Hx]].
             ++ pose proof (sep_pre _ rank dflt _ vs cs i Hl H1 Hm Hlo x Hx) as Hc.
                intros Hr'. apply (cmpk_Eq _ rank dflt) in Hr'. congruence.
             ++ apply Hr. exact Hx.
             ++ pose proof (sep_post_gt _ rank dflt _ vs cs i Hl H1 Hm Hhi x Hx) as Hc.
                intros Hr'. apply (cmpk_Eq _ rank dflt) in Hr'. congruence.
        * intros x Hx. apply in_app_or in Hx as [Hx|Hx].
          -- apply (in_vals_elements _ rank dflt); auto.
          -- apply (in_child_elements _ rank dflt vs cs i); auto.
        * rewrite app_length. lia.
  Qed.
  Lemma set_find_some : forall l x k, asc l -> In x l -> rank x = k -> set_find elt rank l k = Some x.
  Proof.
    unfold set_find. induction l as [|a l IH]; intros x k Ha Hx Hk; [destruct Hx|].
    destruct Ha as [Ha1 Ha2]. cbn [List.find]. destruct Hx as [->|Hx].
    - replace (rank x =? k)%Z with true by lia. reflexivity.
    - specialize (Ha1 _ Hx). replace (rank a =? k)%Z with false by lia. apply IH; auto.
  Qed.

  Lemma set_find_none : forall l k, (forall x, In x l -> rank x <> k) -> set_find elt rank l k = None.
  Proof.
    unfold set_find. induction l as [|a l IH]; intros k H; [reflexivity|].
    cbn [List.find]. pose proof (H a (or_introl eq_refl)).
    replace (rank a =? k)%Z with false by lia. apply IH. intros x Hx. apply H. right. exact Hx.
  Qed.

  Lemma Inv_root : forall t : tree, Inv rank L I t ->
    kids_ok L I (height (root t)) (root t) /\ n_vals (root t) <= max_vals L I (root t) /\
    asc (elements (root t)).
  Proof.
    intros t [[h [Hk [Hb _]]] [Ha _]].
    rewrite (kids_ok_height _ rank dflt L I HI HI3 h _ Hk). auto.
  Qed.

  Theorem find_refines : forall (t : tree) e, Inv rank L I t ->
    let '(st, it, lg) := find rank dflt t e in
    match set_find elt rank (elements (root t)) (rank e) with
    | Some x => st = SUCCESS /\ exists p, it = IAt p /\ valid (root t) p /\
                  nth_error (elements (root t)) (pos (root t) p) = Some x /\ iter_get dflt (root t) it = x
    | None => st = NOT_FOUND /\ it = IEnd
    end.
  Proof.
    intros t e Hinv. destruct (Inv_root t Hinv) as (Hk & Hb & Ha).
    destruct (find_down_spec _ _ e Hk Hb Ha) as (Hr & _ & _).
    unfold find. destruct (find_down rank dflt (height (root t)) (root t) e) as [[p|] lg].
    - cbn [fst] in Hr. destruct Hr as (Hv & Hp & Hrk & Hg).
      rewrite (set_find_some _ (nth (pos (root t) p) (elements (root t)) dflt) (rank e) Ha); auto.
      + split; [reflexivity|]. exists p. repeat split; auto.
        apply nth_error_nth'. exact Hp.
      + apply nth_In. exact Hp.
    - cbn [fst] in Hr. rewrite (set_find_none _ _ Hr). auto.
  Qed.

  Theorem find_log_stored : forall (t : tree) e, Inv rank L I t ->
    forall x, In x (snd (find rank dflt t e)) -> In x (elements (root t)).
  Proof.
    intros t e Hinv x. destruct (Inv_root t Hinv) as (Hk & Hb & Ha).
    destruct (find_down_spec _ _ e Hk Hb Ha) as (_ & Hlg & _).
    unfold find. destruct (find_down rank dflt (height (root t)) (root t) e) as [[p|] lg];
      cbn [snd] in *; apply Hlg.
  Qed.

  Theorem find_cost : forall (t : tree) e, Inv rank L I t ->
    length (snd (find rank dflt t e)) <= height (root t) * (Nat.log2 L + 1).
  Proof.
    intros t e Hinv. destruct (Inv_root t Hinv) as (Hk & Hb & Ha).
    destruct (find_down_spec _ _ e Hk Hb Ha) as (_ & _ & Hc).
    unfold find. destruct (find_down rank dflt (height (root t)) (root t) e) as [[p|] lg];
      cbn [snd] in *; exact Hc.
  Qed.
  (* ---------------------------------------------------------------- iter_get at a valid path *)
  Lemma getp_pos : forall p h (n : node), kids_ok L I h n -> valid n p ->
    pos n p < length (elements n) /\ getp n p = nth (pos n p) (elements n) dflt.
  Proof.
    induction p as [|i q IH]; intros h n Hk Hv; [destruct Hv|].
    destruct h as [|h]; [destruct Hk|].
    destruct q as [|j q'].
    - rewrite valid_one in Hv. rewrite getp_one. destruct n as [vs|vs cs].
      + rewrite pos_one_leaf. cbn [elements vals]. unfold n_vals in Hv; cbn [vals] in Hv. auto.
      + rewrite pos_one_inode. unfold n_vals in Hv; cbn [vals] in Hv. cbn [vals].
        destruct (nth_sep vs cs i (kids_len _ _ _ Hk) Hv) as [H1 H2]. rewrite H2. auto.
    - rewrite valid_cons in Hv by discriminate. destruct Hv as (Hleaf & Hi & Hv).
      destruct n as [vs|vs cs]; [discriminate|].
      rewrite pos_cons_inode, getp_cons by discriminate.
      unfold child in *; cbn [children] in *. unfold n_vals in Hi; cbn [vals] in Hi.
      destruct (kid_ok h vs cs i Hk Hi) as [Hkc _].
      destruct (IH h _ Hkc Hv) as [H1 H2].
      destruct (nth_in_child vs cs i _ (kids_len _ _ _ Hk) Hi H1) as [H3 H4]. rewrite H4. auto.
  Qed.

  (* local version of get_pos (BTreeProofsIter) *)
  Lemma get_pos_local : forall (r : node) p, shape_ok L I r -> valid r p ->
    pos r p < length (elements r) /\ iter_get dflt r (IAt p) = nth (pos r p) (elements r) dflt.
  Proof. intros r p [h [Hk _]] Hv. rewrite iter_get_getp. apply (getp_pos p h r Hk Hv). Qed.

  (* ---------------------------------------------------------------- counting the elements below the key *)
  Definition isLt (c : comparison) : bool := match c with Lt => true | _ => false end.
  Definition cntLt (ck : elt -> comparison) (l : list elt) : nat :=
    length (filter (fun x => isLt (ck x)) l).

  Lemma cnt_app : forall ck l1 l2, cntLt ck (l1 ++ l2) = cntLt ck l1 + cntLt ck l2.
  Proof. intros. unfold cntLt. rewrite filter_app, app_length. reflexivity. Qed.

  Lemma cnt_cons : forall ck a l, cntLt ck (a :: l) = (if isLt (ck a) then 1 else 0) + cntLt ck l.
  Proof. intros. unfold cntLt. cbn [filter]. destruct (isLt (ck a)); reflexivity. Qed.

  Lemma cnt_all : forall ck l, (forall x, In x l -> ck x = Lt) -> cntLt ck l = length l.
  Proof.
    intros ck. induction l as [|a l IH]; intros H; [reflexivity|].
    rewrite cnt_cons, (H a (or_introl eq_refl)). cbn [isLt length].
    rewrite IH; [lia|]. intros x Hx. apply H. right. exact Hx.
  Qed.

  Lemma cnt_none : forall ck l, (forall x, In x l -> ck x <> Lt) -> cntLt ck l = 0.
  Proof.
    intros ck. induction l as [|a l IH]; intros H; [reflexivity|].
    rewrite cnt_cons. pose proof (H a (or_introl eq_refl)) as Ha.
    rewrite IH; [|intros x Hx; apply H; right; exact Hx].
    destruct (ck a); [reflexivity|congruence|reflexivity].
  Qed.

  Lemma cnt_le : forall ck l, cntLt ck l <= length l.
  Proof.
    intros ck. induction l as [|a l IH]; [reflexivity|].
    rewrite cnt_cons. cbn [length]. destruct (isLt (ck a)); lia.
  Qed.

  Lemma cnt_split : forall ck vs i, i <= length vs ->
    (forall j, j < i -> ck (nth j vs dflt) = Lt) ->
    (forall j, i <= j < length vs -> ck (nth j vs dflt) <> Lt) ->
    cntLt ck vs = i.
  Proof.
    intros ck. induction vs as [|a vs IH]; intros i Hi Hlo Hhi.
    - cbn [length] in Hi. assert (i = 0) by lia. subst. reflexivity.
    - destruct i as [|i].
      + apply cnt_none. intros x Hx. destruct (In_nth _ _ dflt Hx) as (j & Hj & <-). apply Hhi. lia.
      + rewrite cnt_cons. pose proof (Hlo 0 ltac:(lia)) as H0. cbn [nth] in H0. rewrite H0. cbn [isLt].
        rewrite (IH i).
        * lia.
        * cbn [length] in Hi. lia.
        * intros j Hj. apply (Hlo (S j)). lia.
        * intros j Hj. apply (Hhi (S j)). cbn [length]. lia.
  Qed.

  Lemma cnt_inode : forall ck (vs : list elt) cs i, length cs = S (length vs) -> i <= length vs ->
    mono ck (elements (Inode vs cs)) ->
    (forall j, j < i -> ck (nth j vs dflt) = Lt) ->
    (forall j, i <= j < length vs -> ck (nth j vs dflt) <> Lt) ->
    cntLt ck (elements (Inode vs cs)) = length (pre vs cs i) + cntLt ck (elements (nth i cs dnode)) /\
    length (elements (Inode vs cs)) =
      length (pre vs cs i) + length (elements (nth i cs dnode)) + length (post vs cs i).
  Proof.
    intros ck vs cs i Hl Hi Hm Hlo Hhi.
    pose proof (sep_pre _ rank dflt ck vs cs i Hl Hi Hm Hlo) as Hpre.
    pose proof (sep_post_nlt _ rank dflt ck vs cs i Hl Hi Hm Hhi) as Hpost.
    rewrite (elements_split _ rank dflt vs cs i) by lia.
    rewrite !cnt_app, !app_length. rewrite (cnt_all _ _ Hpre), (cnt_none _ _ Hpost). lia.
  Qed.

  (* ---------------------------------------------------------------- zix_btree_lower_bound *)
  (* the climb, as a recursion over the subtree: the path the frames fr resolve to inside n, or None
     when they ran off the end of n *)
  Fixpoint resolve (n : node) (fr : list nat) : option (list nat) :=
    match fr with
    | [] => None
    | i :: q =>
      match resolve (child n i) q with
      | Some p => Some (i :: p)
      | None => if i =? n_vals n then None else Some [i]
      end
    end.

  Lemma lb_climb_cons : forall (r : node) i rest,
    lb_climb r (i :: rest) =
    if i =? n_vals (subnode r (rev rest)) then lb_climb r rest else IAt (rev (i :: rest)).
  Proof.
    intros. cbn [lb_climb]. destruct (i =? n_vals (subnode r (rev rest))); auto.
    destruct rest; reflexivity.
  Qed.

  Lemma subnode_app : forall p (n : node) q, subnode n (p ++ q) = subnode (subnode n p) q.
  Proof. induction p as [|i p IH]; intros n q; [reflexivity|]. cbn [app subnode]. apply IH. Qed.

  Lemma lb_climb_resolve : forall (r : node) fr pfx,
    lb_climb r (rev (pfx ++ fr)) =
    match resolve (subnode r pfx) fr with
    | Some p => IAt (pfx ++ p)
    | None => lb_climb r (rev pfx)
    end.
  Proof.
    intros r. induction fr as [|i q IH]; intros pfx.
    - rewrite app_nil_r. reflexivity.
    - replace (pfx ++ i :: q) with ((pfx ++ [i]) ++ q) by (rewrite <- app_assoc; reflexivity).
      rewrite IH. cbn [resolve]. rewrite subnode_app. cbn [subnode].
      destruct (resolve (child (subnode r pfx) i) q) as [p|].
      + rewrite <- app_assoc. reflexivity.
      + rewrite rev_app_distr. cbn [rev app]. rewrite lb_climb_cons. rewrite rev_involutive.
        destruct (i =? n_vals (subnode r pfx)); auto.
        cbn [rev]. rewrite rev_involutive. reflexivity.
  Qed.

  Lemma resolve_one : forall (n : node) i, resolve n [i] = if i =? n_vals n then None else Some [i].
  Proof. reflexivity. Qed.

  Definition lb_post (ck : elt -> comparison) (n : node) (r : option (list nat)) : Prop :=
    match r with
    | Some p => valid n p /\ pos n p = cntLt ck (elements n) /\
                cntLt ck (elements n) < length (elements n)
    | None => cntLt ck (elements n) = length (elements n)
    end.

  Lemma lb_down_spec : forall h (n : node) ck, kids_ok L I h n -> mono ck (elements n) ->
    forall fr eq lg, lb_down dflt h n ck = (fr, eq, lg) ->
    lb_post ck n (resolve n fr) /\ (eq = true -> resolve n fr = Some fr) /\
    (forall x, In x lg -> In x (elements n)).
  Proof.
    induction h as [|h IH]; intros n ck Hk Hm fr eq lg E; [destruct Hk|].
    destruct n as [vs|vs cs].
    - cbn [lb_down] in E. cbn [elements] in Hm.
      pose proof (find_pattern_spec _ rank dflt ck vs Hm) as Hs.
      destruct (find_pattern dflt ck vs) as [[i e0] lg0].
      injection E as <- <- <-.
      destruct Hs as (H1 & H2 & H3 & H4 & H5 & H6 & _).
      rewrite resolve_one. unfold n_vals. cbn [vals elements].
      pose proof (cnt_split ck vs i H1 H2 H3) as Hc.
      split; [|split].
      + destruct (Nat.eqb_spec i (length vs)) as [Heq|Hne]; unfold lb_post; cbn [elements].
        * lia.
        * rewrite valid_one, pos_one_leaf. unfold n_vals. cbn [vals]. lia.
      + intros He. destruct (H4 He) as [Hi _].
        destruct (Nat.eqb_spec i (length vs)); [lia|reflexivity].
      + exact H6.
    - pose proof (kids_len _ _ _ Hk) as Hl.
      cbn [lb_down] in E.
      pose proof (find_pattern_spec _ rank dflt ck vs (mono_vals _ rank dflt ck vs cs Hl Hm)) as Hs.
      destruct (find_pattern dflt ck vs) as [[i e0] lg0].
      destruct Hs as (H1 & H2 & H3 & _ & _ & H6 & _).
      destruct (kid_ok h vs cs i Hk H1) as [Hkc _].
      pose proof (mono_child _ rank dflt ck vs cs i Hl H1 Hm) as Hmc.
      destruct (lb_down dflt h (nth i cs dnode) ck) as [[fr' eq'] lg2] eqn:E2.
      injection E as <- <- <-.
      destruct (IH _ ck Hkc Hmc _ _ _ E2) as (Hp & He & Hlg).
      destruct (cnt_inode ck vs cs i Hl H1 Hm H2 H3) as [Hcnt Hlen].
      cbn [resolve]. unfold child. cbn [children]. unfold n_vals. cbn [vals].
      pose proof (cnt_le ck (elements (nth i cs dnode))) as Hle.
      split; [|split].
      + destruct (resolve (nth i cs dnode) fr') as [p|]; unfold lb_post in *.
        * destruct Hp as (Hv & Hpos & Hlt). pose proof (valid_nonnil _ _ Hv) as Hne.
          rewrite valid_cons, pos_cons_inode by assumption.
          unfold child. cbn [children is_leaf]. unfold n_vals. cbn [vals].
          repeat split; auto; lia.
        * destruct (Nat.eqb_spec i (length vs)) as [Heq|Hne].
          -- rewrite (post_end _ rank dflt vs cs i) in Hlen by lia. cbn [length] in Hlen. lia.
          -- rewrite (post_step _ rank dflt vs cs i) in Hlen by lia. cbn [length] in Hlen.
             rewrite valid_one, pos_one_inode. unfold n_vals. cbn [vals]. lia.
      + intros Ht. rewrite (He Ht). reflexivity.
      + intros x Hx. apply in_app_or in Hx as [Hx|Hx].
        * apply (in_vals_elements _ rank dflt); auto.
        * apply (in_child_elements _ rank dflt vs cs i); auto.
  Qed.

  Theorem lower_bound_pos : forall (t : tree) ck, Inv rank L I t -> monotone elt ck (elements (root t)) ->
    let '(it, lg) := lower_bound dflt t ck in
    iter_valid (root t) it /\
    iter_pos (root t) it =
      (let k := length (filter (fun x => match ck x with Lt => true | _ => false end) (elements (root t))) in
       if k <? length (elements (root t)) then Some k else None) /\
    (forall x, In x lg -> In x (elements (root t))).
  Proof.
    intros t ck Hinv Hm. destruct (Inv_root t Hinv) as (Hk & _ & _).
    unfold lower_bound.
    destruct (lb_down dflt (height (root t)) (root t) ck) as [[fr eq] lg] eqn:E.
    destruct (lb_down_spec _ _ ck Hk Hm _ _ _ E) as (Hp & He & Hlg).
    change (length (filter (fun x => match ck x with Lt => true | _ => false end) (elements (root t))))
      with (cntLt ck (elements (root t))). cbv zeta.
    assert (Hit : (if eq then IAt fr else lb_climb (root t) (rev fr)) =
                  match resolve (root t) fr with Some p => IAt p | None => IEnd end).
    { destruct eq.
      - rewrite (He eq_refl). reflexivity.
      - apply (lb_climb_resolve (root t) fr []). }
    rewrite Hit. split; [|split]; [| |exact Hlg].
    - destruct (resolve (root t) fr) as [p|]; cbn [iter_valid]; [apply Hp|exact Logic.I].
    - destruct (resolve (root t) fr) as [p|]; unfold lb_post in Hp; cbn [iter_pos].
      + destruct Hp as (_ & Hpos & Hlt). rewrite Hpos.
        destruct (Nat.ltb_spec (cntLt ck (elements (root t))) (length (elements (root t)))); [reflexivity|lia].
      + destruct (Nat.ltb_spec (cntLt ck (elements (root t))) (length (elements (root t)))); [lia|reflexivity].
  Qed.

  (* with a monotone comparator the lower bound is the element after all the Lt ones *)
  Lemma lower_bound_nth : forall ck l, mono ck l ->
    set_lower_bound elt ck l = nth_error l (cntLt ck l).
  Proof.
    intros ck. unfold set_lower_bound. induction l as [|a l IH]; intros Hm; [reflexivity|].
    destruct Hm as [Hm1 Hm2]. rewrite cnt_cons. cbn [List.find].
    destruct (ck a) eqn:Ea; cbn [not_lt isLt].
    - rewrite (cnt_none ck l); [reflexivity|].
      intros x Hx. specialize (Hm1 x Hx). destruct (ck x); cbn in Hm1; try discriminate; tauto.
    - cbn [Nat.add nth_error]. apply IH. exact Hm2.
    - rewrite (cnt_none ck l); [reflexivity|].
      intros x Hx. specialize (Hm1 x Hx). destruct (ck x); cbn in Hm1; try discriminate; tauto.
  Qed.

  Corollary lower_bound_least : forall (t : tree) ck, Inv rank L I t -> monotone elt ck (elements (root t)) ->
    match set_lower_bound elt ck (elements (root t)) with
    | Some x => exists p, fst (lower_bound dflt t ck) = IAt p /\ iter_get dflt (root t) (IAt p) = x
    | None => fst (lower_bound dflt t ck) = IEnd
    end.
  Proof.
    intros t ck Hinv Hm. pose proof (lower_bound_pos t ck Hinv Hm) as H.
    destruct (lower_bound dflt t ck) as [it lg]. destruct H as (Hv & Hp & _). cbn [fst].
    change (length (filter (fun x => match ck x with Lt => true | _ => false end) (elements (root t))))
      with (cntLt ck (elements (root t))) in Hp. cbv zeta in Hp.
    rewrite (lower_bound_nth ck _ Hm).
    destruct (Nat.ltb_spec (cntLt ck (elements (root t))) (length (elements (root t)))) as [Hlt|Hge].
    - rewrite (nth_error_nth' _ dflt Hlt).
      destruct it as [|p]; cbn [iter_pos] in Hp; [discriminate|]. injection Hp as Hp.
      exists p. split; [reflexivity|]. cbn [iter_valid] in Hv.
      destruct (get_pos_local (root t) p (Inv_shape _ rank dflt L I HI HI3 t Hinv) Hv) as [_ Hg].
      rewrite Hg, Hp. reflexivity.
    - destruct it as [|p]; cbn [iter_pos] in Hp; [|discriminate].
      apply nth_error_None in Hge. rewrite Hge. reflexivity.
  Qed.
End Find.
