(* C09: the specification of a bump allocator as a checker of observed traces, and the caller
   model that drives the allocator model (BumpModel) through a request history.

   Nothing here mentions how zix computes anything: the spec talks about offsets relative to the
   buffer, unbounded integers, a shadow list of live blocks and a frontier ("remaining space" is
   C - frontier).  Definitions only. *)
From Coq Require Import ZArith List Bool.
From Zix Require Import BumpModel.
Import ListNotations.
Local Open Scope Z_scope.

(* ------------------------------------------------------------------ requests *)
(* a pointer argument: NULL or "the block returned by request number id" *)
Inductive ptr := PNull | PBlk (id : nat).

Inductive request :=
| Malloc (n : Z)
| Calloc (nmemb size : Z)
| Realloc (p : ptr) (n : Z)
| Free (p : ptr)
| AlignedAlloc (al n : Z)
| AlignedFree (p : ptr).

(* what the caller observes: a block at an offset from the buffer start, NULL, nothing (free),
   a failed assertion, or "request not issued" (it names a block that is not live: caller error,
   outside the protocol) *)
Inductive resp := OPtr (off : Z) | ONull | OVoid | OAbort | OSkip.

(* shadow list entry: request id, offset, requested size in bytes *)
Record block := { b_id : nat; b_off : Z; b_size : Z }.

Fixpoint find_blk (id : nat) (l : list block) : option block :=
  match l with
  | [] => None
  | b :: l' => if Nat.eqb (b_id b) id then Some b else find_blk id l'
  end.

Fixpoint remove_blk (id : nat) (l : list block) : list block :=
  match l with
  | [] => []
  | b :: l' => if Nat.eqb (b_id b) id then remove_blk id l' else b :: remove_blk id l'
  end.

Definition resize_blk (id : nat) (n : Z) (l : list block) : list block :=
  map (fun b => if Nat.eqb (b_id b) id then {| b_id := b_id b; b_off := b_off b; b_size := n |} else b) l.

(* sizes are size_t values; aligned_alloc's documented preconditions (its assert()s):
   alignment a power of two >= 8 (hence < 2^64), size a multiple of it *)
Definition size_ok (n : Z) : bool := (0 <=? n) && (n <? W).

Fixpoint is_pow2_pos (p : positive) : bool :=
  match p with xH => true | xO q => is_pow2_pos q | xI _ => false end.
Definition is_pow2 (z : Z) : bool := match z with Zpos p => is_pow2_pos p | _ => false end.

Definition align_ok (al n : Z) : bool := is_pow2 al && (8 <=? al) && (al <? W) && (n mod al =? 0).

Definition req_ok (r : request) : bool :=
  match r with
  | Malloc n => size_ok n
  | Calloc a b => size_ok a && size_ok b
  | Realloc _ n => size_ok n
  | AlignedAlloc al n => size_ok n && align_ok al n
  | Free _ | AlignedFree _ => true
  end.

(* ------------------------------------------------------------------ spec (trace checker) *)
(* a block occupies at least one byte (a zero-size block still has an address of its own) and
   is handed out in whole units of 8 bytes *)
Definition extent (n : Z) : Z := Z.max n 1.
Definition rounded (n : Z) : Z := 8 * ((extent n + 7) / 8).

Definition disjoint (o1 n1 o2 n2 : Z) : bool := (o1 + n1 <=? o2) || (o2 + n2 <=? o1).

Record spec_state := {
  sp_live : list block;            (* blocks handed out and not yet released *)
  sp_front : Z;                    (* frontier: the remaining space is C - sp_front *)
  sp_recent : option nat           (* id of the most recently allocated block *)
}.

Definition spec_init (A : Z) : spec_state :=
  {| sp_live := []; sp_front := (- A) mod 8; sp_recent := None |}.

(* a fresh block of n bytes at offset off, aligned to al *)
Definition fresh_ok (A C : Z) (live : list block) (al n off : Z) : bool :=
  (0 <=? off) && (off + extent n <=? C) && ((A + off) mod 8 =? 0) && ((A + off) mod al =? 0) &&
  forallb (fun b => disjoint off (extent n) (b_off b) (extent (b_size b))) live.

(* does a block of n bytes aligned to al fit in the remaining space? *)
Definition fits (A C front al n : Z) : bool :=
  front + (- (A + front)) mod al + rounded n <=? C.

Definition spec_alloc (A C : Z) (id : nat) (sp : spec_state) (al n : Z) (o : resp) : option spec_state :=
  match o with
  | OPtr off =>
      if fits A C (sp_front sp) al n && fresh_ok A C (sp_live sp) al n off
      then Some {| sp_live := {| b_id := id; b_off := off; b_size := n |} :: sp_live sp;
                   sp_front := off + rounded n; sp_recent := Some id |}
      else None
  | ONull => if fits A C (sp_front sp) al n then None else Some sp     (* fails only if it does not fit; changes nothing *)
  | _ => None
  end.

Definition is_recent (sp : spec_state) (id : nat) : bool :=
  match sp_recent sp with Some r => Nat.eqb r id | None => false end.

Definition spec_free (sp : spec_state) (p : ptr) (o : resp) : option spec_state :=
  match p with
  | PNull => match o with OVoid => Some sp | _ => None end
  | PBlk id =>
      match find_blk id (sp_live sp) with
      | None => match o with OSkip => Some sp | _ => None end
      | Some b =>
          match o with
          | OVoid => Some {| sp_live := remove_blk id (sp_live sp);
                             (* freeing the most recent block gives its space back *)
                             sp_front := if is_recent sp id then b_off b else sp_front sp;
                             sp_recent := sp_recent sp |}
          | _ => None
          end
      end
  end.

(* one observed step: request number id, the request, the response, and (for calloc) whether the
   returned bytes were all zero.  None = the observation contradicts the property. *)
Definition spec_step (A C : Z) (id : nat) (sp : spec_state) (r : request) (o : resp) (zeroed : bool)
  : option spec_state :=
  match r with
  | Malloc n => spec_alloc A C id sp 8 n o
  | Calloc a b =>
      match spec_alloc A C id sp 8 (a * b) o with
      | Some sp' => match o with OPtr _ => if zeroed then Some sp' else None | _ => Some sp' end
      | None => None
      end
  | AlignedAlloc al n => spec_alloc A C id sp al n o
  | Realloc PNull n => match o with ONull => Some sp | _ => None end
  | Realloc (PBlk id') n =>
      match find_blk id' (sp_live sp) with
      | None => match o with OSkip => Some sp | _ => None end
      | Some b =>
          (* succeeds only for the most recent block, in place, iff the resized block fits *)
          let can := is_recent sp id' && (b_off b + rounded n <=? C) in
          match o with
          | OPtr off =>
              if can && (off =? b_off b) &&
                 forallb (fun b' => Nat.eqb (b_id b') id' || disjoint off (extent n) (b_off b') (extent (b_size b')))
                         (sp_live sp)
              then Some {| sp_live := resize_blk id' n (sp_live sp);
                           sp_front := b_off b + rounded n; sp_recent := sp_recent sp |}
              else None
          | ONull => if can then None else Some sp
          | _ => None
          end
      end
  | Free p => spec_free sp p o
  | AlignedFree p => spec_free sp p o
  end.

Fixpoint spec_check_from (A C : Z) (id : nat) (sp : spec_state) (tr : list (request * resp * bool)) : bool :=
  match tr with
  | [] => true
  | (r, o, z) :: tr' =>
      if req_ok r then
        match spec_step A C id sp r o z with
        | Some sp' => spec_check_from A C (S id) sp' tr'
        | None => false
        end
      else true      (* a request outside the preconditions: nothing is promised from here on *)
  end.

Definition spec_check (A C : Z) (tr : list (request * resp * bool)) : bool :=
  spec_check_from A C 0 (spec_init A) tr.

(* index of the first rejected step (for diagnostics in the driver), None if accepted *)
Fixpoint spec_first_reject (A C : Z) (id : nat) (sp : spec_state) (tr : list (request * resp * bool)) : option nat :=
  match tr with
  | [] => None
  | (r, o, z) :: tr' =>
      if req_ok r then
        match spec_step A C id sp r o z with
        | Some sp' => spec_first_reject A C (S id) sp' tr'
        | None => Some id
        end
      else None
  end.

(* ------------------------------------------------------------------ caller model *)
(* The caller keeps the shadow list, passes the addresses it was given, writes a pattern into
   every block it obtains, and never passes a pointer to a block that is not live. *)
Record sys := {
  s_st : state;
  s_mem : mem;
  s_live : list block;
  s_dead : bool            (* an assert() has fired: the process is gone *)
}.

Definition sys_init (A : Z) (m : mem) : sys :=
  {| s_st := bump_init A; s_mem := m; s_live := []; s_dead := false |}.

Definition fill (m : mem) (a n v : Z) : mem :=
  fun x => if (a <=? x) && (x <? a + n) then v else m x.

Definition pattern (id : nat) : Z := 1 + Z.of_nat id mod 250.

Fixpoint all_zero_from (m : mem) (a : Z) (k : nat) : bool :=
  match k with
  | O => true
  | S k' => (m a =? 0) && all_zero_from m (a + 1) k'
  end.
Definition all_zero (m : mem) (a n : Z) : bool := all_zero_from m a (Z.to_nat n).

(* result of one step: new system, response, zero flag, memory right after the allocator call
   (before the caller writes its pattern) *)
Definition step_out := (sys * resp * bool * mem)%type.

Definition after_alloc (A : Z) (id : nat) (y : sys) (n : Z) (st' : state) (m' : mem) (r : result) (chkzero : bool)
  : step_out :=
  match r with
  | RPtr p =>
      let z := if chkzero then all_zero m' p n else true in
      ({| s_st := st'; s_mem := fill m' p n (pattern id);
          s_live := {| b_id := id; b_off := p - A; b_size := n |} :: s_live y; s_dead := false |},
       OPtr (p - A), z, m')
  | RAbort => ({| s_st := st'; s_mem := m'; s_live := s_live y; s_dead := true |}, OAbort, true, m')
  | _ => ({| s_st := st'; s_mem := m'; s_live := s_live y; s_dead := false |}, ONull, true, m')
  end.

Definition do_free (A : Z) (y : sys) (p : ptr) (f : Z -> state -> Z -> state) : step_out :=
  match p with
  | PNull => ({| s_st := f A (s_st y) 0; s_mem := s_mem y; s_live := s_live y; s_dead := false |}, OVoid, true, s_mem y)
  | PBlk id =>
      match find_blk id (s_live y) with
      | None => (y, OSkip, true, s_mem y)
      | Some b =>
          ({| s_st := f A (s_st y) (A + b_off b); s_mem := s_mem y;
              s_live := remove_blk id (s_live y); s_dead := false |}, OVoid, true, s_mem y)
      end
  end.

Definition sys_step (A C : Z) (id : nat) (y : sys) (r : request) : step_out :=
  match r with
  | Malloc n =>
      let '(st', res) := bump_malloc A C (s_st y) n in after_alloc A id y n st' (s_mem y) res false
  | Calloc a b =>
      let '(st', m', res) := bump_calloc A C (s_st y) (s_mem y) a b in after_alloc A id y (a * b) st' m' res true
  | AlignedAlloc al n =>
      let '(st', res) := bump_aligned_alloc A C (s_st y) al n in after_alloc A id y n st' (s_mem y) res false
  | Realloc p n =>
      let call (addr : Z) (id' : option nat) : step_out :=
        match bump_realloc A C (s_st y) addr n with
        | (st', RPtr q) =>
            ({| s_st := st'; s_mem := s_mem y;
                s_live := match id' with Some i => resize_blk i n (s_live y) | None => s_live y end;
                s_dead := false |}, OPtr (q - A), true, s_mem y)
        | (st', _) => ({| s_st := st'; s_mem := s_mem y; s_live := s_live y; s_dead := false |}, ONull, true, s_mem y)
        end in
      match p with
      | PNull => call 0 None
      | PBlk id' =>
          match find_blk id' (s_live y) with
          | None => (y, OSkip, true, s_mem y)
          | Some b => call (A + b_off b) (Some id')
          end
      end
  | Free p => do_free A y p bump_free
  | AlignedFree p => do_free A y p bump_aligned_free
  end.

(* one executed step as seen from outside: request, response, zero flag, allocator state after
   the call, memory before the call and right after it (before the caller writes its pattern) *)
Record entry := {
  e_req : request; e_resp : resp; e_zero : bool; e_st : state; e_mpre : mem; e_mpost : mem
}.

(* the whole history; after an abort nothing more is executed *)
Fixpoint sys_run (A C : Z) (id : nat) (y : sys) (rs : list request) : list entry :=
  match rs with
  | [] => []
  | r :: rs' =>
      if s_dead y then []
      else let '(y', o, z, m') := sys_step A C id y r in
           {| e_req := r; e_resp := o; e_zero := z; e_st := s_st y'; e_mpre := s_mem y; e_mpost := m' |}
           :: sys_run A C (S id) y' rs'
  end.

Definition trace_of (l : list entry) : list (request * resp * bool) :=
  map (fun e => (e_req e, e_resp e, e_zero e)) l.

Definition bump_run (A C : Z) (m0 : mem) (rs : list request) : list entry :=
  sys_run A C 0 (sys_init A m0) rs.
