(* BTreeAllocHist — erasure over whole histories: the instrumented run, with its page ids forgotten, IS the plain
   run of BTreeProofsHist, so every C01/C02 theorem about [run ops] speaks about the instrumented tree as well. *)
From Coq Require Import ZArith List Bool Arith.
From Zix Require Import BTreeSpec BTreeModel FaultSpec AllocModel AllocProofs BTreeProofsBase BTreeProofsHist
  BTreeAllocModel BTreeAllocProofs BTreeAllocInv.
Import ListNotations.
Set Default Proof Using "All".

Section AllocHist.
  Variable elt : Type.
  Variable rank : elt -> Z.
  Variable dflt : elt.
  Variables L I : nat.
  Variable MH : nat.

  Lemma erase_astep : forall (t : atree elt) (s : ast) (x : op elt),
    erase_tree (fst (astep elt rank dflt L I MH (t, s) x)) = step rank dflt L I MH (erase_tree t) x.
  Proof.
    intros t s x. destruct x as [o e|e|e|d]; cbn [astep step].
    - pose proof (erase_insert elt rank dflt L I MH (with_oracle o s) t e) as H.
      destruct (ainsert_op rank dflt L I MH (with_oracle o s) t e) as [[[st t'] s'] lg].
      cbn [with_oracle oracle] in H. rewrite H. reflexivity.
    - pose proof (erase_remove elt rank dflt L I s t e) as H.
      destruct (aremove_op rank dflt L I s t e) as [[[[st out] t'] s'] lg].
      destruct H as [it [H _]]. rewrite H. reflexivity.
    - reflexivity.
    - rewrite (erase_clear elt rank dflt L I s t d). destruct (aclear_op s t). reflexivity.
  Qed.

  Lemma erase_arun : forall ops (t : atree elt) (s : ast),
    erase_tree (fst (fold_left (astep elt rank dflt L I MH) ops (t, s))) =
    fold_left (step rank dflt L I MH) ops (erase_tree t).
  Proof.
    induction ops as [|x ops IH]; intros t s; cbn [fold_left]; [reflexivity|].
    pose proof (erase_astep t s x) as H.
    destruct (astep elt rank dflt L I MH (t, s) x) as [t1 s1]. cbn [fst] in H.
    rewrite IH, H. reflexivity.
  Qed.

  (* from zix_btree_new on: the erased instrumented history is [run ops] *)
  Theorem erase_history : forall o0 ops,
    match anew_op (elt := elt) (ast0 o0) with
    | (Some t, s) => erase_tree (fst (fold_left (astep elt rank dflt L I MH) ops (t, s))) = run rank dflt L I MH ops
    | (None, _) => True
    end.
  Proof.
    intros o0 ops. pose proof (erase_new elt rank dflt L I (ast0 o0)) as H.
    destruct (anew_op (elt := elt) (ast0 o0)) as [[t|] s]; [|exact Logic.I].
    rewrite erase_arun, H. reflexivity.
  Qed.
End AllocHist.
