(* C15 — lemmas, part 1: zix_file_equals. *)
From Coq Require Import ZArith List Bool Lia.
From Zix Require Import CopySpec CopyModel CopyProofs FsSpec FsModel.
Import ListNotations.
Local Open Scope Z_scope.

Lemma list_eqb_eq : forall a b, list_eqb a b = true <-> a = b.
Proof.
  induction a as [|x a IH]; intros [|y b]; cbn [list_eqb]; split; try congruence; try discriminate.
  - intro H. apply andb_true_iff in H. destruct H as [H1 H2]. apply Z.eqb_eq in H1. apply IH in H2. congruence.
  - intro H. inversion H; subst. rewrite Z.eqb_refl. cbn [andb]. apply IH. reflexivity.
Qed.

Lemma list_eqb_app : forall p q r s, length p = length q ->
  list_eqb (p ++ r) (q ++ s) = list_eqb p q && list_eqb r s.
Proof.
  induction p as [|x p IH]; intros [|y q] r s H; cbn [length] in H; try discriminate.
  - reflexivity.
  - cbn [app list_eqb]. rewrite IH by lia. rewrite andb_assoc. reflexivity.
Qed.

Lemma skipn_skipn_add : forall (l : list Z) a n, skipn n (skipn a l) = skipn (a + n) l.
Proof.
  intros l a. revert l. induction a as [|a IH]; intros l n; [reflexivity|].
  destruct l as [|x l]; [rewrite !skipn_nil; reflexivity|]. cbn [Nat.add skipn]. apply IH.
Qed.

Lemma e_read_nil : forall w (which : bool) bytes req, e_script w = [] ->
  let off := if which then e_boff w else e_aoff w in
  let n := Nat.min req (length bytes - off)%nat in
  e_read w which bytes req =
  (Z.of_nat n, firstn n (skipn off bytes), elog (eset_off w which (off + n)%nat) KRead (Z.of_nat req) (Z.of_nat n)).
Proof.
  intros w which bytes req Hs. unfold e_read, epop. rewrite Hs. cbn zeta.
  unfold rd_count. destruct w as [ao bo er sc tr op]. cbn in Hs. subst sc. reflexivity.
Qed.

(* the page loop on an environment without faults and short reads *)
Lemma equals_loop_nil : forall bs a b, (0 < bs)%nat -> length a = length b ->
  forall fuel w off, e_script w = [] -> e_aoff w = off -> e_boff w = off -> (length a - off < fuel)%nat ->
  exists w', equals_loop fuel w a b bs = Some (list_eqb (skipn off a) (skipn off b), w') /\
             e_script w' = [] /\ e_errno w' = e_errno w /\ e_open w' = e_open w.
Proof.
  intros bs a b Hbs Hlen. induction fuel as [|f IH]; intros w off Hs Ha Hb Hf; [lia|].
  cbn [equals_loop]. rewrite (e_read_nil w false a bs Hs). cbn zeta. rewrite Ha.
  set (n := Nat.min bs (length a - off)).
  destruct (0 <? Z.of_nat n) eqn:Hn.
  2: { apply Z.ltb_ge in Hn. assert (n = O) by lia. assert (Hoff : (length a <= off)%nat) by lia.
       rewrite (skipn_all2 a) by lia. rewrite (skipn_all2 b) by lia. cbn [list_eqb].
       eexists. split; [reflexivity|]. destruct w; cbn in *. auto. }
  apply Z.ltb_lt in Hn.
  set (w1 := elog (eset_off w false (off + n)) KRead (Z.of_nat bs) (Z.of_nat n)).
  assert (Hs1 : e_script w1 = []) by (destruct w; cbn in *; exact Hs).
  assert (Hb1 : e_boff w1 = off) by (destruct w; cbn in *; exact Hb).
  rewrite (e_read_nil w1 true b bs Hs1). cbn zeta. rewrite Hb1.
  rewrite <- Hlen. fold n. rewrite Z.eqb_refl. cbn [negb orb].
  assert (Hsplit : forall l : list Z, skipn off l = firstn n (skipn off l) ++ skipn (off + n) l).
  { intro l. rewrite <- skipn_skipn_add. symmetry. apply firstn_skipn. }
  replace (list_eqb (skipn off a) (skipn off b))
    with (list_eqb (firstn n (skipn off a) ++ skipn (off + n) a) (firstn n (skipn off b) ++ skipn (off + n) b))
    by (rewrite <- !Hsplit; reflexivity).
  rewrite list_eqb_app.
  2: { rewrite !firstn_length, !skipn_length. lia. }
  destruct (list_eqb (firstn n (skipn off a)) (firstn n (skipn off b))) eqn:E.
  - cbn [negb andb].
    match goal with |- context [equals_loop f ?w0 a b bs] => destruct (IH w0 (off + n)%nat) as (w' & L & S' & E' & O') end;
      try (destruct w; cbn in *; congruence); try lia.
    exists w'. split; [exact L|]. split; [exact S'|].
    split; [rewrite E'; destruct w; reflexivity|rewrite O'; destruct w; reflexivity].
  - cbn [negb andb]. eexists. split; [reflexivity|]. destruct w; cbn in *. auto.
Qed.

Lemma list_eqb_length : forall a b, length a <> length b -> list_eqb a b = false.
Proof.
  intros a b H. destruct (list_eqb a b) eqn:E; [|reflexivity].
  apply list_eqb_eq in E. subst. contradiction H. reflexivity.
Qed.

Lemma e_close_fds_nil : forall w, e_script w = [] -> e_errno w = 0 ->
  exists w', e_close_fds w true true = (SUCCESS, w') /\ e_open w' = pred (pred (e_open w)).
Proof.
  intros [ao bo er sc tr op] Hs He. cbn in Hs, He. subst sc er.
  eexists. split; [reflexivity|]. reflexivity.
Qed.

Definition buf_size (page : nat) (al1 al2 : alloc_answer) : nat :=
  if alloc_okb al1 && alloc_okb al2 then page else stack_buf_size.

Lemma file_equals_bytes : forall ia a ib b page al1 al2 e0,
  (0 < page)%nat -> (negb (ia =? 0) && negb (ib =? 0) && (ia =? ib)) = false ->
  let r := file_equals false (Some (ia, a)) (Some (ib, b)) page al1 al2 e0 [] in
  fst r = list_eqb a b /\ e_open (snd r) = O.
Proof.
  intros ia a ib b page al1 al2 e0 Hp Hino. cbn zeta.
  unfold file_equals. cbn [e_open_file epop e_script eset_errno elog eset_open e_fstat andb negb
                           e_aoff e_boff e_errno e_trace e_open].
  rewrite Hino.
  destruct (length a =? length b)%nat eqn:Hl.
  - apply Nat.eqb_eq in Hl.
    set (w0 := eset_errno (alloc_ev (alloc_ev _ (Z.of_nat page) al1) (Z.of_nat page) al2) 0).
    assert (Hbs : (0 < (if alloc_okb al1 && alloc_okb al2 then page else stack_buf_size))%nat).
    { destruct (alloc_okb al1 && alloc_okb al2); [exact Hp|unfold stack_buf_size; lia]. }
    assert (Hw0 : e_script w0 = [] /\ e_aoff w0 = O /\ e_boff w0 = O /\ e_errno w0 = 0 /\ e_open w0 = 2%nat).
    { unfold w0. destruct al1 as [|e1]; destruct al2 as [|e2]; cbn [alloc_ev];
        try destruct (e1 =? 0); try destruct (e2 =? 0); cbn; auto. }
    destruct Hw0 as (S0 & A0 & B0 & E0 & O0).
    destruct (equals_loop_nil _ a b Hbs Hl (S (length a)) w0 O S0 A0 B0) as (w' & L & S' & E' & O'); [lia|].
    rewrite L. cbn [skipn].
    match goal with |- context [e_close_fds ?wx true true] =>
      destruct (e_close_fds_nil wx) as (w2 & C & O2) end.
    { destruct w'; cbn in *; exact S'. }
    { destruct w'; cbn in *; congruence. }
    rewrite C. cbn [fst snd is_success andb]. split; [reflexivity|].
    rewrite O2. destruct w'; cbn in *. rewrite O', O0. reflexivity.
  - apply Nat.eqb_neq in Hl. rewrite (list_eqb_length a b Hl).
    match goal with |- context [e_close_fds ?wx true true] =>
      destruct (e_close_fds_nil wx) as (w2 & C & O2); [reflexivity|reflexivity|] end.
    rewrite C. cbn [fst snd is_success andb]. split; [reflexivity|]. rewrite O2. reflexivity.
Qed.

Lemma file_equals_same_inode : forall ia a b page al1 al2 e0, ia <> 0 ->
  let r := file_equals false (Some (ia, a)) (Some (ia, b)) page al1 al2 e0 [] in
  fst r = true /\ e_open (snd r) = O.
Proof.
  intros ia a b page al1 al2 e0 Hi. cbn zeta.
  unfold file_equals. cbn [e_open_file epop e_script eset_errno elog eset_open e_fstat andb negb
                           e_aoff e_boff e_errno e_trace e_open].
  rewrite Z.eqb_refl. destruct (ia =? 0) eqn:Z0; [apply Z.eqb_eq in Z0; contradiction|]. cbn [negb andb].
  match goal with |- context [e_close_fds ?wx true true] =>
    destruct (e_close_fds_nil wx) as (w2 & C & O2); [reflexivity|reflexivity|] end.
  rewrite C. cbn [fst snd is_success andb]. split; [reflexivity|]. rewrite O2. reflexivity.
Qed.

Lemma e_open_none : forall w which, fst (e_open_file w None which) = false /\
  e_open (snd (e_open_file w None which)) = e_open w.
Proof.
  intros [ao bo er sc tr op] which. unfold e_open_file, epop. cbn [e_script].
  destruct sc as [|o r]; [split; reflexivity|]. destruct o; split; reflexivity.
Qed.

(* one of two different paths does not exist: false, for every script and allocator *)
Lemma file_equals_missing : forall (fa fb : fileT) page al1 al2 e0 script,
  fa = None \/ fb = None ->
  fst (file_equals false fa fb page al1 al2 e0 script) = false.
Proof.
  intros fa fb page al1 al2 e0 script H. unfold file_equals.
  set (w0 := eset_errno _ 0).
  destruct (e_open_file w0 fa 0) as [a_ok w1] eqn:A.
  destruct (e_open_file w1 fb 1) as [b_ok w2] eqn:B.
  assert (Hok : a_ok && b_ok = false).
  { destruct H as [->| ->].
    - pose proof (e_open_none w0 0) as [X _]. rewrite A in X. cbn [fst] in X. subst a_ok. reflexivity.
    - pose proof (e_open_none w1 1) as [X _]. rewrite B in X. cbn [fst] in X. subst b_ok. apply andb_false_r. }
  rewrite Hok. cbn [andb negb].
  destruct (e_close_fds w2 b_ok a_ok) as [st w3]. reflexivity.
Qed.
