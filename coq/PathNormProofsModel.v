(* C11 — lemmas about the faithful model: refinement of the index/buffer loops of
   zix_path_lexically_normal to list functions, for inputs with at most one leading separator. *)
From Coq Require Import ZArith List Bool Lia ZifyBool.
From Zix Require Import PathNormSpec PathNormModel PathNormProofsSpec.
Import ListNotations.
Local Open Scope Z_scope.

(* ---- list-functional version of the first pass ------------------------------------------- *)
(* acc = the output so far, reversed (root separator at the bottom) *)
Definition dotb (acc : list Z) : bool :=
  match acc with
  | [d] => d =? DOT
  | d :: e :: _ => (d =? DOT) && (e =? SEP)
  | [] => false
  end.

Fixpoint drop_seps (t : list Z) : list Z :=
  match t with
  | c :: t' => if c =? SEP then drop_seps t' else t
  | [] => []
  end.

Fixpoint P1 (fuel : nat) (rest acc : list Z) : option (list Z) :=
  match fuel with
  | O => None
  | S f =>
      match rest with
      | [] => Some acc
      | c :: rest' =>
          if c =? SEP then P1 f (drop_seps rest') (if dotb acc then tl acc else SEP :: acc)
          else P1 f rest' (c :: acc)
      end
  end.

(* ---- indices and lists ------------------------------------------------------------------------ *)
Lemma nth_hd_skipn : forall n (s : list Z), nth n s 0 = hd 0 (skipn n s).
Proof. induction n; destruct s; cbn; auto. Qed.

Lemma skipn_succ : forall n (s : list Z), skipn (S n) s = tl (skipn n s).
Proof. induction n; destruct s; cbn; auto. apply (IHn s). Qed.

Lemma rd_skipn : forall s i, 0 <= i -> rd s i = hd 0 (skipn (Z.to_nat i) s).
Proof.
  intros s i H. unfold rd, get. destruct (i <? 0) eqn:E; [lia|]. apply nth_hd_skipn.
Qed.

Lemma drop_seps_length : forall t, (length (drop_seps t) <= length t)%nat.
Proof. induction t as [|c t IH]; cbn; [lia|]. destruct (c =? SEP); cbn; lia. Qed.

Lemma skip_seps_spec : forall s fuel i rest,
  0 <= i -> i + 1 <= zlen s -> skipn (Z.to_nat (i + 1)) s = rest -> (length rest < fuel)%nat ->
  exists j, skip_seps fuel s i = Some j /\ i <= j /\ j + 1 <= zlen s /\
            skipn (Z.to_nat (j + 1)) s = drop_seps rest.
Proof.
  intros s. induction fuel as [|f IH]; intros i rest Hi Hl Hs Hf; [lia|].
  cbn [skip_seps]. rewrite rd_skipn by lia. rewrite Hs.
  destruct rest as [|c rest'].
  - cbn. exists i. repeat split; [lia|exact Hl|exact Hs].
  - cbn [hd drop_seps]. unfold is_sep. destruct (c =? SEP) eqn:E.
    + assert (Hs2 : skipn (Z.to_nat (i + 1 + 1)) s = rest').
      { replace (Z.to_nat (i + 1 + 1)) with (S (Z.to_nat (i + 1))) by lia.
        rewrite skipn_succ, Hs. reflexivity. }
      assert (Hl2 : i + 1 + 1 <= zlen s).
      { assert (L : length (skipn (Z.to_nat (i + 1)) s) = length (c :: rest')) by (rewrite Hs; reflexivity).
        rewrite skipn_length in L. cbn [length] in L. unfold zlen. lia. }
      cbn [length] in Hf.
      destruct (IH (i + 1) rest' ltac:(lia) Hl2 Hs2 ltac:(lia)) as (j & J1 & J2 & J3 & J4).
      exists j. repeat split; [exact J1|lia|exact J3|exact J4].
    + exists i. repeat split; [lia|exact Hl|exact Hs].
Qed.

(* ---- the result buffer as  rev acc ++ zeros ------------------------------------------------- *)
Definition B (acc : list Z) (m : nat) : list Z := rev acc ++ repeat 0 m.

Lemma B_length : forall acc m, length (B acc m) = (length acc + m)%nat.
Proof. intros. unfold B. rewrite app_length, rev_length, repeat_length. reflexivity. Qed.

Lemma set_push : forall acc m v r, r = Z.of_nat (length acc) -> set (B acc (S m)) r v = B (v :: acc) m.
Proof.
  intros acc m v r ->. unfold set. destruct (Z.of_nat (length acc) <? 0) eqn:E; [lia|].
  rewrite Nat2Z.id. rewrite B_length.
  destruct (length acc <? length acc + S m)%nat eqn:E2; [|apply Nat.ltb_ge in E2; lia].
  unfold B. rewrite <- (rev_length acc) at 1 2.
  rewrite firstn_app, firstn_all, Nat.sub_diag. cbn [firstn]. rewrite app_nil_r.
  replace (S (length (rev acc))) with (length (rev acc) + 1)%nat by lia.
  rewrite skipn_app, skipn_all2 by lia.
  replace (length (rev acc) + 1 - length (rev acc))%nat with 1%nat by lia.
  cbn [rev skipn repeat app]. rewrite <- app_assoc. reflexivity.
Qed.

Lemma set_pop : forall d acc m r, r = Z.of_nat (length (d :: acc)) -> set (B (d :: acc) m) (r - 1) 0 = B acc (S m).
Proof.
  intros d acc m r ->. cbn [length]. replace (Z.of_nat (S (length acc)) - 1) with (Z.of_nat (length acc)) by lia.
  unfold set. destruct (Z.of_nat (length acc) <? 0) eqn:E; [lia|].
  rewrite Nat2Z.id, B_length. cbn [length].
  destruct (length acc <? S (length acc) + m)%nat eqn:E2; [|apply Nat.ltb_ge in E2; lia].
  unfold B. cbn [rev]. rewrite <- app_assoc. rewrite <- (rev_length acc) at 1 2.
  rewrite firstn_app, firstn_all, Nat.sub_diag. cbn [firstn]. rewrite app_nil_r.
  replace (S (length (rev acc))) with (length (rev acc) + 1)%nat by lia.
  rewrite skipn_app, skipn_all2 by lia.
  replace (length (rev acc) + 1 - length (rev acc))%nat with 1%nat by lia.
  cbn [skipn app repeat]. reflexivity.
Qed.

Lemma get_B_lt : forall acc m i, (i < length acc)%nat -> get (B acc m) (Z.of_nat i) = nth i (rev acc) 0.
Proof.
  intros acc m i H. unfold get. destruct (Z.of_nat i <? 0) eqn:E; [lia|].
  rewrite Nat2Z.id. unfold B. apply app_nth1. rewrite rev_length. exact H.
Qed.

Lemma get_B_ge : forall acc m i, Z.of_nat (length acc) <= i -> get (B acc m) i = 0.
Proof.
  intros acc m i H. unfold get. destruct (i <? 0) eqn:E; [reflexivity|].
  unfold B. rewrite app_nth2 by (rewrite rev_length; lia).
  destruct (nth_in_or_default (Z.to_nat i - length (rev acc)) (repeat 0 m) 0) as [I | I]; [|exact I].
  apply repeat_spec in I. exact I.
Qed.

Lemma get_top : forall d acc m r, r = Z.of_nat (length (d :: acc)) -> get (B (d :: acc) m) (r - 1) = d.
Proof.
  intros d acc m r ->. cbn [length]. replace (Z.of_nat (S (length acc)) - 1) with (Z.of_nat (length acc)) by lia.
  rewrite get_B_lt by (cbn; lia). cbn [rev]. rewrite app_nth2 by (rewrite rev_length; lia).
  rewrite rev_length, Nat.sub_diag. reflexivity.
Qed.

Lemma get_second : forall d e acc m r, r = Z.of_nat (length (d :: e :: acc)) -> get (B (d :: e :: acc) m) (r - 2) = e.
Proof.
  intros d e acc m r ->. cbn [length].
  replace (Z.of_nat (S (S (length acc))) - 2) with (Z.of_nat (length acc)) by lia.
  rewrite get_B_lt by (cbn; lia). cbn [rev]. rewrite <- app_assoc.
  rewrite app_nth2 by (rewrite rev_length; lia). rewrite rev_length, Nat.sub_diag. reflexivity.
Qed.

(* ---- the dot-entry test of the code equals dotb when root.end = root_len in {0,1} --------- *)
Definition root_acc (k : Z) : list Z := if k =? 1 then [SEP] else [].

Lemma dot_entry_before_dotb : forall re k top m i r,
  (k = 0 \/ k = 1) -> re <= i -> r = Z.of_nat (length (top ++ root_acc k)) ->
  dot_entry_before (B (top ++ root_acc k) m) i r re k = dotb (top ++ root_acc k).
Proof.
  intros re k top m i r Hk Hi Hr. unfold dot_entry_before.
  replace (i >=? re) with true by lia. cbn [andb].
  destruct Hk as [-> | ->]; [change (root_acc 0) with (@nil Z) in *|change (root_acc 1) with [SEP] in *].
  - rewrite app_nil_r in *. destruct top as [|d [|e top']].
    + cbn in Hr. subst r. reflexivity.
    + rewrite (get_top d [] m r Hr). cbn in Hr. subst r. cbn. rewrite orb_false_r. reflexivity.
    + rewrite (get_top d (e :: top') m r Hr), (get_second d e top' m r Hr).
      cbn [length] in Hr. replace (r =? 0 + 1) with false by lia. replace (r >=? 0 + 2) with true by lia.
      cbn [dotb andb orb]. apply andb_comm.
  - destruct top as [|d [|e top']]; cbn [app] in *.
    + cbn in Hr. subst r. cbn. reflexivity.
    + rewrite (get_top d [SEP] m r Hr), (get_second d SEP [] m r Hr). cbn in Hr. subst r.
      cbn. rewrite orb_false_r, andb_true_r. reflexivity.
    + rewrite (get_top d (e :: top' ++ [SEP]) m r Hr), (get_second d e (top' ++ [SEP]) m r Hr).
      cbn [length] in Hr. rewrite app_length in Hr. cbn [length] in Hr.
      replace (r =? 1 + 1) with false by lia. replace (r >=? 1 + 2) with true by lia.
      cbn [dotb andb orb]. apply andb_comm.
Qed.

(* popping preserves "root at the bottom" *)
Lemma dotb_tl_root : forall k top, (k = 0 \/ k = 1) -> dotb (top ++ root_acc k) = true ->
  exists top', tl (top ++ root_acc k) = top' ++ root_acc k /\ top = DOT :: top'.
Proof.
  intros k top Hk H. destruct top as [|d top'].
  - destruct Hk as [-> | ->]; cbn in H; discriminate.
  - exists top'. split; [reflexivity|]. f_equal. cbn [app] in H.
    destruct (top' ++ root_acc k) as [|e l]; cbn in H.
    + apply Z.eqb_eq in H. exact H.
    + apply andb_true_iff in H as [H _]. apply Z.eqb_eq in H. exact H.
Qed.

(* ---- refinement of copy_loop to P1 --------------------------------------------------------------- *)
Lemma copy_loop_refine : forall s re k fuel i top m rest acc',
  (k = 0 \/ k = 1) -> 0 <= re -> re <= i -> i <= zlen s ->
  skipn (Z.to_nat i) s = rest -> (length rest + 1 < m)%nat ->
  P1 fuel rest (top ++ root_acc k) = Some acc' ->
  exists m', copy_loop fuel s (zlen s) re k i (Z.of_nat (length (top ++ root_acc k))) (B (top ++ root_acc k) m)
             = Some (Z.of_nat (length acc'), B acc' m') /\
             (length acc' + m' = length (top ++ root_acc k) + m)%nat /\ (1 < m')%nat /\
             exists top', acc' = top' ++ root_acc k.
Proof.
  intros s re k. induction fuel as [|f IH]; intros i top m rest acc' Hk Hre Hki Hi Hs Hm HP; [discriminate|].
  cbn [P1] in HP. cbn [copy_loop].
  assert (Hlen : length rest = (length s - Z.to_nat i)%nat) by (rewrite <- Hs; apply skipn_length).
  destruct rest as [|c rest'].
  - cbn [length] in Hlen. unfold zlen in *. replace (i <? Z.of_nat (length s)) with false by lia.
    inversion HP; subst acc'. exists m. repeat split; [lia|]. exists top. reflexivity.
  - cbn [length] in Hlen. unfold zlen in *. replace (i <? Z.of_nat (length s)) with true by lia.
    rewrite rd_skipn by lia. rewrite Hs. cbn [hd]. unfold is_sep.
    assert (Hs' : skipn (Z.to_nat (i + 1)) s = rest').
    { replace (Z.to_nat (i + 1)) with (S (Z.to_nat i)) by lia. rewrite skipn_succ, Hs. reflexivity. }
    destruct (c =? SEP) eqn:Ec.
    + rewrite dot_entry_before_dotb by (auto; lia).
      destruct (skip_seps_spec s (S (length s)) i rest' ltac:(lia) ltac:(unfold zlen; lia) Hs') as (j & J1 & J2 & Hj & J3).
      { cbn [length] in Hm. lia. }
      rewrite J1.
      pose proof (drop_seps_length rest') as DL.
      destruct (dotb (top ++ root_acc k)) eqn:Ed.
      * destruct (dotb_tl_root k top Hk Ed) as (top' & T1 & T2).
        rewrite T1 in HP.
        assert (Et : top ++ root_acc k = DOT :: (top' ++ root_acc k)) by (rewrite T2; reflexivity).
        rewrite Et. rewrite set_pop by reflexivity.
        replace (Z.of_nat (length (DOT :: top' ++ root_acc k)) - 1) with (Z.of_nat (length (top' ++ root_acc k)))
          by (cbn [length]; lia).
        destruct (IH (j + 1) top' (S m) (drop_seps rest') acc' Hk Hre ltac:(lia) Hj J3 ltac:(cbn [length] in Hm; lia) HP)
          as (m' & C1 & C2 & C3 & C4).
        exists m'. rewrite C1. repeat split; [cbn [length]; lia|exact C3|exact C4].
      * destruct m as [|m0]; [lia|].
        rewrite set_push by reflexivity.
        replace (Z.of_nat (length (top ++ root_acc k)) + 1) with (Z.of_nat (length ((SEP :: top) ++ root_acc k)))
          by (cbn [length app]; lia).
        change (SEP :: top ++ root_acc k) with ((SEP :: top) ++ root_acc k) in *.
        destruct (IH (j + 1) (SEP :: top) m0 (drop_seps rest') acc' Hk Hre ltac:(lia) Hj J3 ltac:(cbn [length] in Hm; lia) HP)
          as (m' & C1 & C2 & C3 & C4).
        exists m'. rewrite C1. repeat split; [cbn [length app] in *; lia|exact C3|exact C4].
    + destruct m as [|m0]; [lia|].
      rewrite set_push by reflexivity.
      replace (Z.of_nat (length (top ++ root_acc k)) + 1) with (Z.of_nat (length ((c :: top) ++ root_acc k)))
        by (cbn [length app]; lia).
      change (c :: top ++ root_acc k) with ((c :: top) ++ root_acc k) in *.
      destruct (IH (i + 1) (c :: top) m0 rest' acc' Hk Hre ltac:(lia) ltac:(lia) Hs' ltac:(cbn [length] in Hm; lia) HP)
        as (m' & C1 & C2 & C3 & C4).
      exists m'. rewrite C1. repeat split; [cbn [length app] in *; lia|exact C3|exact C4].
Qed.

(* ---- what the first pass computes, in terms of the fields of the relative part ------------- *)
Definition keepf (f : elem) : bool := negb (is_empty f || is_dot f).

(* every complete field that is neither empty nor "." followed by one separator; the last
   field (possibly "." or empty) as it is *)
Fixpoint emit (fs : list elem) : list Z :=
  match fs with
  | [] => []
  | [l] => l
  | f :: fs' => (if keepf f then f ++ [SEP] else []) ++ emit fs'
  end.

Definition noelt (acc : list Z) : bool := match acc with [] => true | x :: _ => x =? SEP end.

Lemma emit_cons : forall f fs, fs <> [] -> emit (f :: fs) = (if keepf f then f ++ [SEP] else []) ++ emit fs.
Proof. intros f fs H. destruct fs; [congruence|reflexivity]. Qed.

Lemma emit_drop_seps : forall t, emit (fields (drop_seps t)) = emit (fields t).
Proof.
  induction t as [|c t IH]; [reflexivity|]. cbn [drop_seps fields]. destruct (c =? SEP) eqn:E.
  - rewrite IH. rewrite emit_cons by apply fields_nonnil. reflexivity.
  - cbn [fields]. rewrite E. reflexivity.
Qed.

Lemma has_root_drop_seps : forall t, has_root (drop_seps t) = false.
Proof. induction t as [|c t IH]; [reflexivity|]. cbn [drop_seps]. destruct (c =? SEP) eqn:E; [exact IH|cbn; exact E]. Qed.

Lemma is_dot_len2 : forall a b l, is_dot (l ++ [a; b]) = false.
Proof.
  intros a b l. destruct (is_dot (l ++ [a; b])) eqn:E; [|reflexivity].
  apply is_dot_eq in E. apply (f_equal (@length Z)) in E. rewrite app_length in E. cbn in E. lia.
Qed.

Lemma dotb_partial : forall q acc0, noelt acc0 = true -> q <> [] -> sepfree q ->
  dotb (q ++ acc0) = is_dot (rev q).
Proof.
  intros q acc0 Hn Hq Hs. destruct q as [|d [|e q']]; [congruence| |].
  - cbn [app rev]. unfold is_dot. cbn [bytes_eqb]. rewrite andb_true_r.
    destruct acc0 as [|x acc0']; [reflexivity|]. cbn in Hn. cbn [dotb]. rewrite Hn, andb_true_r. reflexivity.
  - cbn [app dotb rev]. rewrite <- app_assoc. cbn [app]. rewrite is_dot_len2.
    inversion Hs; subst. inversion H2; subst. apply Z.eqb_neq in H3. rewrite H3, andb_false_r. reflexivity.
Qed.

Lemma P1_spec : forall fuel rest q acc0,
  (length rest < fuel)%nat -> noelt acc0 = true -> sepfree q -> (q = [] -> has_root rest = false) ->
  P1 fuel rest (q ++ acc0) = Some (rev (emit (fields (rev q ++ rest))) ++ acc0).
Proof.
  induction fuel as [|f IH]; intros rest q acc0 Hf Hn Hs Hq; [lia|].
  cbn [P1]. destruct rest as [|c rest'].
  - rewrite app_nil_r. rewrite fields_sepfree by (apply Forall_rev; exact Hs). cbn [emit].
    rewrite rev_involutive. reflexivity.
  - cbn [length] in Hf. destruct (c =? SEP) eqn:Ec.
    + apply Z.eqb_eq in Ec. subst c.
      assert (Hqne : q <> []) by (intro A; specialize (Hq A); cbn in Hq; discriminate).
      rewrite fields_app_sep by (apply Forall_rev; exact Hs).
      rewrite emit_cons by apply fields_nonnil.
      rewrite dotb_partial by assumption.
      pose proof (drop_seps_length rest') as DL.
      unfold keepf. destruct (is_dot (rev q)) eqn:Ed.
      * rewrite orb_true_r. cbn [negb app].
        apply is_dot_eq in Ed. assert (q = [DOT]) as -> by (rewrite <- (rev_involutive q), Ed; reflexivity).
        cbn [app tl]. rewrite <- emit_drop_seps.
        apply (IH (drop_seps rest') [] acc0); [lia|exact Hn|constructor|intros _; apply has_root_drop_seps].
      * assert (is_empty (rev q) = false) as ->.
        { destruct (rev q) eqn:R; [|reflexivity]. apply (f_equal (@rev Z)) in R. rewrite rev_involutive in R. cbn in R. congruence. }
        cbn [orb negb]. rewrite <- emit_drop_seps.
        pose proof (IH (drop_seps rest') [] (SEP :: q ++ acc0) ltac:(lia) eq_refl (Forall_nil _)
                      (fun _ => has_root_drop_seps rest')) as I.
        cbn [rev app] in I. rewrite I.
        cbn [rev app]. rewrite !rev_app_distr. cbn [rev app]. rewrite rev_involutive, <- !app_assoc. reflexivity.
    + change (c :: q ++ acc0) with ((c :: q) ++ acc0).
      rewrite (IH rest' (c :: q) acc0); [|lia|exact Hn|constructor; [apply Z.eqb_neq; exact Ec|exact Hs]|discriminate].
      cbn [rev]. rewrite <- app_assoc. reflexivity.
Qed.

(* ---- assembling the passes ------------------------------------------------------------------- *)
Lemma P1_forall : forall (P : Z -> Prop) fuel rest acc acc',
  P SEP -> Forall P rest -> Forall P acc -> P1 fuel rest acc = Some acc' -> Forall P acc'.
Proof.
  intros P. induction fuel as [|f IH]; intros rest acc acc' Ps Hr Ha H; [discriminate|].
  cbn [P1] in H. destruct rest as [|c rest']; [inversion H; subst; exact Ha|].
  inversion Hr; subst. destruct (c =? SEP).
  - apply (IH (drop_seps rest') _ acc' Ps) in H; [exact H| |].
    + clear -H3. induction rest' as [|x l IHl]; [constructor|]. inversion H3; subst. cbn [drop_seps].
      destruct (x =? SEP); [apply IHl; assumption|constructor; assumption].
    + destruct (dotb acc); [destruct acc; [constructor|inversion Ha; assumption]|constructor; assumption].
  - apply (IH rest' (c :: acc) acc' Ps H3) in H; [exact H|constructor; assumption].
Qed.

(* ---- the spec machine run on all fields (empty ones included) ---------------------------------- *)
Lemma step_trail_irrelevant : forall R out t t' n, norm_step R (out, t) n = norm_step R (out, t') n.
Proof. intros. unfold norm_step. reflexivity. Qed.

Lemma fold_filter_nonempty : forall R X out t t',
  fst (fold_left (norm_step R) (filter (fun e => negb (is_empty e)) X) (out, t)) =
  fst (fold_left (norm_step R) X (out, t')).
Proof.
  induction X as [|x X IH]; intros out t t'; [reflexivity|].
  cbn [filter fold_left]. destruct x as [|c x'].
  - cbn [is_empty negb]. change (norm_step R (out, t') []) with (out, true). apply IH.
  - cbn [is_empty negb fold_left]. rewrite (step_trail_irrelevant R out t t').
    destruct (norm_step R (out, t') (c :: x')) as [o1 t1]. apply IH.
Qed.

Lemma fold_left_snoc : forall (A B : Type) (f : A -> B -> A) X l a,
  fold_left f (X ++ [l]) a = f (fold_left f X a) l.
Proof. intros. rewrite fold_left_app. reflexivity. Qed.

Lemma normal_elems_of_fields : forall R fs, fs <> [] -> normal_elems R (elems_of fs) = normal_elems R fs.
Proof.
  intros R fs N. destruct (exists_last N) as (X & l & ->).
  unfold elems_of. rewrite removelast_app1, last_app1.
  unfold normal_elems at 2. rewrite fold_left_snoc.
  pose proof (fold_filter_nonempty R X [] false false) as F.
  destruct (fold_left (norm_step R) X ([], false)) as [o2 t2] eqn:E2. cbn [fst] in F.
  destruct (filter (fun e => negb (is_empty e)) X) as [|n names] eqn:EX.
  - cbn [fold_left fst] in F. subst o2. destruct (is_empty l) eqn:El.
    + apply is_empty_eq in El. subst l. reflexivity.
    + unfold normal_elems. cbn [fold_left]. rewrite (step_trail_irrelevant R [] false t2). reflexivity.
  - unfold normal_elems. rewrite fold_left_snoc.
    destruct (fold_left (norm_step R) (n :: names) ([], false)) as [o1 t1]. cbn [fst] in F. subst o2.
    rewrite (step_trail_irrelevant R o1 t1 t2). reflexivity.
Qed.

Definition body (K : list elem) : list Z := concat (map (fun f => f ++ [SEP]) K).

Lemma join_snoc : forall K l, join_elems (K ++ [l]) = body K ++ l.
Proof.
  induction K as [|f K IH]; intro l; [cbn; reflexivity|].
  cbn [app]. destruct (K ++ [l]) as [|e rest] eqn:E; [destruct K; discriminate|].
  change (join_elems (f :: e :: rest)) with (f ++ SEP :: join_elems (e :: rest)).
  rewrite <- E, IH. unfold body. cbn [map concat]. rewrite <- !app_assoc. reflexivity.
Qed.

Lemma emit_body : forall fs, fs <> [] ->
  emit fs = body (filter keepf (removelast fs)) ++ last fs [].
Proof.
  induction fs as [|f fs IH]; intro N; [congruence|].
  destruct fs as [|f2 fs'].
  - reflexivity.
  - rewrite emit_cons by discriminate. rewrite IH by discriminate.
    change (removelast (f :: f2 :: fs')) with (f :: removelast (f2 :: fs')).
    change (last (f :: f2 :: fs') []) with (last (f2 :: fs') []).
    cbn [filter]. destruct (keepf f); [|reflexivity].
    unfold body. cbn [map concat]. rewrite <- !app_assoc. reflexivity.
Qed.

Lemma body_snoc : forall K x, body (K ++ [x]) = body K ++ x ++ [SEP].
Proof. intros. unfold body. rewrite map_app, concat_app. cbn. rewrite app_nil_r. reflexivity. Qed.

Lemma rev_root_acc : forall k, rev (root_acc k) = root_acc k.
Proof. intro k. unfold root_acc. destruct (k =? 1); reflexivity. Qed.

Lemma nth_repeat0 : forall n m, nth n (repeat 0 m) 0 = 0.
Proof.
  intros n m. destruct (nth_in_or_default n (repeat 0 m) 0) as [I | I]; [|exact I].
  apply repeat_spec in I. exact I.
Qed.

Lemma fields_body : forall K l, Forall sepfree K -> sepfree l -> fields (body K ++ l) = K ++ [l].
Proof.
  induction K as [|f K IH]; intros l HK Hl.
  - cbn. apply fields_sepfree. exact Hl.
  - inversion HK; subst. unfold body. cbn [map concat]. rewrite <- !app_assoc. cbn [app].
    rewrite fields_app_sep by assumption. fold (body K). rewrite IH by assumption. reflexivity.
Qed.

Lemma Forall_filter : forall (A : Type) (P : A -> Prop) p l, Forall P l -> Forall P (filter p l).
Proof.
  intros A P p l H. apply Forall_forall. intros x Hx. apply filter_In in Hx as [Hx _].
  rewrite Forall_forall in H. apply H. exact Hx.
Qed.

(* ---- elements, fields and bytes ------------------------------------------------------------------ *)
Lemma In_elems_fields : forall s e, In e (elems s) -> In e (fields s).
Proof.
  intros s e H. rewrite elems_unfold in H. unfold elems_of in H.
  pose proof (fields_nonnil s) as N. destruct (exists_last N) as (X & l & E). rewrite E in *.
  rewrite removelast_app1, last_app1 in H.
  assert (Hn : forall x, In x (filter (fun e => negb (is_empty e)) X) -> In x (X ++ [l])).
  { intros x Hx. apply filter_In in Hx as [Hx _]. apply in_or_app. left. exact Hx. }
  destruct (filter (fun e => negb (is_empty e)) X) as [|n names].
  - destruct (is_empty l); [destruct H|]. destruct H as [<- | []]. apply in_or_app. right. left. reflexivity.
  - apply in_app_or in H as [H | [<- | []]]; [apply Hn; exact H|apply in_or_app; right; left; reflexivity].
Qed.

Lemma normal_elems_forall : forall (P : elem -> Prop) R es, P [DOT] -> P [] -> Forall P es ->
  Forall P (normal_elems R es).
Proof.
  intros P R es Pd Pe H. unfold normal_elems.
  pose proof (fold_forall P R es [] false (Forall_nil _) H) as F.
  destruct (fold_left (norm_step R) es ([], false)) as [out trail]. cbn [fst] in F.
  unfold norm_finish. destruct out as [|x out'].
  - destruct R; [constructor|repeat constructor; exact Pd].
  - assert (Forall P (rev (x :: out'))) by (apply Forall_rev; exact F).
    destruct (is_dotdot x); [assumption|]. destruct trail; [|assumption].
    apply Forall_app. split; [assumption|repeat constructor; exact Pe].
Qed.

Lemma fields_forall_bytes : forall (Q : Z -> Prop) s, Forall Q s -> Forall (Forall Q) (fields s).
Proof.
  intros Q. induction s as [|c s IH]; intro H; cbn [fields]; [repeat constructor|].
  inversion H; subst. specialize (IH H3). destruct (c =? SEP); [constructor; [constructor|exact IH]|].
  destruct (fields s) as [|f fs]; [repeat constructor; assumption|].
  inversion IH; subst. constructor; [constructor; assumption|assumption].
Qed.

Lemma join_forall_bytes : forall (Q : Z -> Prop) es, Q SEP -> Forall (Forall Q) es -> Forall Q (join_elems es).
Proof.
  intros Q es Qs. induction es as [|e es IH]; intro H; [constructor|].
  inversion H; subst. destruct es as [|e2 es']; [exact H2|].
  change (join_elems (e :: e2 :: es')) with (e ++ SEP :: join_elems (e2 :: es')).
  apply Forall_app. split; [exact H2|constructor; [exact Qs|apply IH; exact H3]].
Qed.

