(* C11 — lemmas about the faithful model: refinement of the index/buffer loops of
   zix_path_lexically_normal to list functions, for inputs with at most one leading separator. *)
From Coq Require Import ZArith List Bool Lia ZifyBool.
From Zix Require Import PathNormSpec PathNormModel PathNormProofsSpec.
Import ListNotations.
Local Open Scope Z_scope.

(* ---- list-functional version of the first pass ------------------------------------------- *)
(* acc = the output so far, reversed (root separator at the bottom) *)
Definition dotb (acc : list Z) : bool :=
  match acc with
  | [d] => d =? DOT
  | d :: e :: _ => (d =? DOT) && (e =? SEP)
  | [] => false
  end.

Fixpoint drop_seps (t : list Z) : list Z :=
  match t with
  | c :: t' => if c =? SEP then drop_seps t' else t
  | [] => []
  end.

Fixpoint P1 (fuel : nat) (rest acc : list Z) : option (list Z) :=
  match fuel with
  | O => None
  | S f =>
      match rest with
      | [] => Some acc
      | c :: rest' =>
          if c =? SEP then P1 f (drop_seps rest') (if dotb acc then tl acc else SEP :: acc)
          else P1 f rest' (c :: acc)
      end
  end.

(* ---- indices and lists ------------------------------------------------------------------------ *)
Lemma nth_hd_skipn : forall n (s : list Z), nth n s 0 = hd 0 (skipn n s).
Proof. induction n; destruct s; cbn; auto. Qed.

Lemma skipn_succ : forall n (s : list Z), skipn (S n) s = tl (skipn n s).
Proof. induction n; destruct s; cbn; auto. apply (IHn s). Qed.

Lemma rd_skipn : forall s i, 0 <= i -> rd s i = hd 0 (skipn (Z.to_nat i) s).
Proof.
  intros s i H. unfold rd, get. destruct (i <? 0) eqn:E; [lia|]. apply nth_hd_skipn.
Qed.

Lemma drop_seps_length : forall t, (length (drop_seps t) <= length t)%nat.
Proof. induction t as [|c t IH]; cbn; [lia|]. destruct (c =? SEP); cbn; lia. Qed.

Lemma skip_seps_spec : forall s fuel i rest,
  0 <= i -> i + 1 <= zlen s -> skipn (Z.to_nat (i + 1)) s = rest -> (length rest < fuel)%nat ->
  exists j, skip_seps fuel s i = Some j /\ i <= j /\ j + 1 <= zlen s /\
            skipn (Z.to_nat (j + 1)) s = drop_seps rest.
Proof.
  intros s. induction fuel as [|f IH]; intros i rest Hi Hl Hs Hf; [lia|].
  cbn [skip_seps]. rewrite rd_skipn by lia. rewrite Hs.
  destruct rest as [|c rest'].
  - cbn. exists i. repeat split; [lia|exact Hl|exact Hs].
  - cbn [hd drop_seps]. unfold is_sep. destruct (c =? SEP) eqn:E.
    + assert (Hs2 : skipn (Z.to_nat (i + 1 + 1)) s = rest').
      { replace (Z.to_nat (i + 1 + 1)) with (S (Z.to_nat (i + 1))) by lia.
        rewrite skipn_succ, Hs. reflexivity. }
      assert (Hl2 : i + 1 + 1 <= zlen s).
      { assert (L : length (skipn (Z.to_nat (i + 1)) s) = length (c :: rest')) by (rewrite Hs; reflexivity).
        rewrite skipn_length in L. cbn [length] in L. unfold zlen. lia. }
      cbn [length] in Hf.
      destruct (IH (i + 1) rest' ltac:(lia) Hl2 Hs2 ltac:(lia)) as (j & J1 & J2 & J3 & J4).
      exists j. repeat split; [exact J1|lia|exact J3|exact J4].
    + exists i. repeat split; [lia|exact Hl|exact Hs].
Qed.

(* ---- the result buffer as  rev acc ++ zeros ------------------------------------------------- *)
Definition B (acc : list Z) (m : nat) : list Z := rev acc ++ repeat 0 m.

Lemma B_length : forall acc m, length (B acc m) = (length acc + m)%nat.
Proof. intros. unfold B. rewrite app_length, rev_length, repeat_length. reflexivity. Qed.

Lemma set_push : forall acc m v r, r = Z.of_nat (length acc) -> set (B acc (S m)) r v = B (v :: acc) m.
Proof.
  intros acc m v r ->. unfold set. destruct (Z.of_nat (length acc) <? 0) eqn:E; [lia|].
  rewrite Nat2Z.id. rewrite B_length.
  destruct (length acc <? length acc + S m)%nat eqn:E2; [|apply Nat.ltb_ge in E2; lia].
  unfold B. rewrite <- (rev_length acc) at 1 2.
  rewrite firstn_app, firstn_all, Nat.sub_diag. cbn [firstn]. rewrite app_nil_r.
  replace (S (length (rev acc))) with (length (rev acc) + 1)%nat by lia.
  rewrite skipn_app, skipn_all2 by lia.
  replace (length (rev acc) + 1 - length (rev acc))%nat with 1%nat by lia.
  cbn [rev skipn repeat app]. rewrite <- app_assoc. reflexivity.
Qed.

Lemma set_pop : forall d acc m r, r = Z.of_nat (length (d :: acc)) -> set (B (d :: acc) m) (r - 1) 0 = B acc (S m).
Proof.
  intros d acc m r ->. cbn [length]. replace (Z.of_nat (S (length acc)) - 1) with (Z.of_nat (length acc)) by lia.
  unfold set. destruct (Z.of_nat (length acc) <? 0) eqn:E; [lia|].
  rewrite Nat2Z.id, B_length. cbn [length].
  destruct (length acc <? S (length acc) + m)%nat eqn:E2; [|apply Nat.ltb_ge in E2; lia].
  unfold B. cbn [rev]. rewrite <- app_assoc. rewrite <- (rev_length acc) at 1 2.
  rewrite firstn_app, firstn_all, Nat.sub_diag. cbn [firstn]. rewrite app_nil_r.
  replace (S (length (rev acc))) with (length (rev acc) + 1)%nat by lia.
  rewrite skipn_app, skipn_all2 by lia.
  replace (length (rev acc) + 1 - length (rev acc))%nat with 1%nat by lia.
  cbn [skipn app repeat]. reflexivity.
Qed.

Lemma get_B_lt : forall acc m i, (i < length acc)%nat -> get (B acc m) (Z.of_nat i) = nth i (rev acc) 0.
Proof.
  intros acc m i H. unfold get. destruct (Z.of_nat i <? 0) eqn:E; [lia|].
  rewrite Nat2Z.id. unfold B. apply app_nth1. rewrite rev_length. exact H.
Qed.

Lemma get_B_ge : forall acc m i, Z.of_nat (length acc) <= i -> get (B acc m) i = 0.
Proof.
  intros acc m i H. unfold get. destruct (i <? 0) eqn:E; [reflexivity|].
  unfold B. rewrite app_nth2 by (rewrite rev_length; lia).
  destruct (nth_in_or_default (Z.to_nat i - length (rev acc)) (repeat 0 m) 0) as [I | I]; [|exact I].
  apply repeat_spec in I. exact I.
Qed.

Lemma get_top : forall d acc m r, r = Z.of_nat (length (d :: acc)) -> get (B (d :: acc) m) (r - 1) = d.
Proof.
  intros d acc m r ->. cbn [length]. replace (Z.of_nat (S (length acc)) - 1) with (Z.of_nat (length acc)) by lia.
  rewrite get_B_lt by (cbn; lia). cbn [rev]. rewrite app_nth2 by (rewrite rev_length; lia).
  rewrite rev_length, Nat.sub_diag. reflexivity.
Qed.

Lemma get_second : forall d e acc m r, r = Z.of_nat (length (d :: e :: acc)) -> get (B (d :: e :: acc) m) (r - 2) = e.
Proof.
  intros d e acc m r ->. cbn [length].
  replace (Z.of_nat (S (S (length acc))) - 2) with (Z.of_nat (length acc)) by lia.
  rewrite get_B_lt by (cbn; lia). cbn [rev]. rewrite <- app_assoc.
  rewrite app_nth2 by (rewrite rev_length; lia). rewrite rev_length, Nat.sub_diag. reflexivity.
Qed.

(* ---- the dot-entry test of the code equals dotb when root.end = root_len in {0,1} --------- *)
Definition root_acc (k : Z) : list Z := if k =? 1 then [SEP] else [].

Lemma dot_entry_before_dotb : forall k top m i r,
  (k = 0 \/ k = 1) -> k <= i -> r = Z.of_nat (length (top ++ root_acc k)) ->
  dot_entry_before (B (top ++ root_acc k) m) i r k = dotb (top ++ root_acc k).
Proof.
  intros k top m i r Hk Hi Hr. unfold dot_entry_before.
  replace (i >=? k) with true by lia. cbn [andb].
  destruct Hk as [-> | ->]; [change (root_acc 0) with (@nil Z) in *|change (root_acc 1) with [SEP] in *].
  - rewrite app_nil_r in *. destruct top as [|d [|e top']].
    + cbn in Hr. subst r. reflexivity.
    + rewrite (get_top d [] m r Hr). cbn in Hr. subst r. cbn. rewrite orb_false_r. reflexivity.
    + rewrite (get_top d (e :: top') m r Hr), (get_second d e top' m r Hr).
      cbn [length] in Hr. replace (r =? 0 + 1) with false by lia. replace (r >=? 0 + 2) with true by lia.
      cbn [dotb andb orb]. apply andb_comm.
  - destruct top as [|d [|e top']]; cbn [app] in *.
    + cbn in Hr. subst r. cbn. reflexivity.
    + rewrite (get_top d [SEP] m r Hr), (get_second d SEP [] m r Hr). cbn in Hr. subst r.
      cbn. rewrite orb_false_r, andb_true_r. reflexivity.
    + rewrite (get_top d (e :: top' ++ [SEP]) m r Hr), (get_second d e (top' ++ [SEP]) m r Hr).
      cbn [length] in Hr. rewrite app_length in Hr. cbn [length] in Hr.
      replace (r =? 1 + 1) with false by lia. replace (r >=? 1 + 2) with true by lia.
      cbn [dotb andb orb]. apply andb_comm.
Qed.

(* popping preserves "root at the bottom" *)
Lemma dotb_tl_root : forall k top, (k = 0 \/ k = 1) -> dotb (top ++ root_acc k) = true ->
  exists top', tl (top ++ root_acc k) = top' ++ root_acc k /\ top = DOT :: top'.
Proof.
  intros k top Hk H. destruct top as [|d top'].
  - destruct Hk as [-> | ->]; cbn in H; discriminate.
  - exists top'. split; [reflexivity|]. f_equal. cbn [app] in H.
    destruct (top' ++ root_acc k) as [|e l]; cbn in H.
    + apply Z.eqb_eq in H. exact H.
    + apply andb_true_iff in H as [H _]. apply Z.eqb_eq in H. exact H.
Qed.

(* ---- refinement of copy_loop to P1 --------------------------------------------------------------- *)
Lemma copy_loop_refine : forall s k fuel i top m rest acc',
  (k = 0 \/ k = 1) -> k <= i -> i <= zlen s ->
  skipn (Z.to_nat i) s = rest -> (length rest + 1 < m)%nat ->
  P1 fuel rest (top ++ root_acc k) = Some acc' ->
  exists m', copy_loop fuel s (zlen s) k i (Z.of_nat (length (top ++ root_acc k))) (B (top ++ root_acc k) m)
             = Some (Z.of_nat (length acc'), B acc' m') /\
             (length acc' + m' = length (top ++ root_acc k) + m)%nat /\ (1 < m')%nat /\
             exists top', acc' = top' ++ root_acc k.
Proof.
  intros s k. induction fuel as [|f IH]; intros i top m rest acc' Hk Hki Hi Hs Hm HP; [discriminate|].
  cbn [P1] in HP. cbn [copy_loop].
  assert (Hlen : length rest = (length s - Z.to_nat i)%nat) by (rewrite <- Hs; apply skipn_length).
  destruct rest as [|c rest'].
  - cbn [length] in Hlen. unfold zlen in *. replace (i <? Z.of_nat (length s)) with false by lia.
    inversion HP; subst acc'. exists m. repeat split; [lia|]. exists top. reflexivity.
  - cbn [length] in Hlen. unfold zlen in *. replace (i <? Z.of_nat (length s)) with true by lia.
    rewrite rd_skipn by lia. rewrite Hs. cbn [hd]. unfold is_sep.
    assert (Hs' : skipn (Z.to_nat (i + 1)) s = rest').
    { replace (Z.to_nat (i + 1)) with (S (Z.to_nat i)) by lia. rewrite skipn_succ, Hs. reflexivity. }
    destruct (c =? SEP) eqn:Ec.
    + rewrite dot_entry_before_dotb by (auto; lia).
      destruct (skip_seps_spec s (S (length s)) i rest' ltac:(lia) ltac:(unfold zlen; lia) Hs') as (j & J1 & J2 & Hj & J3).
      { cbn [length] in Hm. lia. }
      rewrite J1.
      pose proof (drop_seps_length rest') as DL.
      destruct (dotb (top ++ root_acc k)) eqn:Ed.
      * destruct (dotb_tl_root k top Hk Ed) as (top' & T1 & T2).
        rewrite T1 in HP.
        assert (Et : top ++ root_acc k = DOT :: (top' ++ root_acc k)) by (rewrite T2; reflexivity).
        rewrite Et. rewrite set_pop by reflexivity.
        replace (Z.of_nat (length (DOT :: top' ++ root_acc k)) - 1) with (Z.of_nat (length (top' ++ root_acc k)))
          by (cbn [length]; lia).
        destruct (IH (j + 1) top' (S m) (drop_seps rest') acc' Hk ltac:(lia) Hj J3 ltac:(cbn [length] in Hm; lia) HP)
          as (m' & C1 & C2 & C3 & C4).
        exists m'. rewrite C1. repeat split; [cbn [length]; lia|exact C3|exact C4].
      * destruct m as [|m0]; [lia|].
        rewrite set_push by reflexivity.
        replace (Z.of_nat (length (top ++ root_acc k)) + 1) with (Z.of_nat (length ((SEP :: top) ++ root_acc k)))
          by (cbn [length app]; lia).
        change (SEP :: top ++ root_acc k) with ((SEP :: top) ++ root_acc k) in *.
        destruct (IH (j + 1) (SEP :: top) m0 (drop_seps rest') acc' Hk ltac:(lia) Hj J3 ltac:(cbn [length] in Hm; lia) HP)
          as (m' & C1 & C2 & C3 & C4).
        exists m'. rewrite C1. repeat split; [cbn [length app] in *; lia|exact C3|exact C4].
    + destruct m as [|m0]; [lia|].
      rewrite set_push by reflexivity.
      replace (Z.of_nat (length (top ++ root_acc k)) + 1) with (Z.of_nat (length ((c :: top) ++ root_acc k)))
        by (cbn [length app]; lia).
      change (c :: top ++ root_acc k) with ((c :: top) ++ root_acc k) in *.
      destruct (IH (i + 1) (c :: top) m0 rest' acc' Hk ltac:(lia) ltac:(lia) Hs' ltac:(cbn [length] in Hm; lia) HP)
        as (m' & C1 & C2 & C3 & C4).
      exists m'. rewrite C1. repeat split; [cbn [length app] in *; lia|exact C3|exact C4].
Qed.

(* ---- what the first pass computes, in terms of the fields of the relative part ------------- *)
Definition keepf (f : elem) : bool := negb (is_empty f || is_dot f).

(* every complete field that is neither empty nor "." followed by one separator; the last
   field (possibly "." or empty) as it is *)
Fixpoint emit (fs : list elem) : list Z :=
  match fs with
  | [] => []
  | [l] => l
  | f :: fs' => (if keepf f then f ++ [SEP] else []) ++ emit fs'
  end.

Definition noelt (acc : list Z) : bool := match acc with [] => true | x :: _ => x =? SEP end.

Lemma emit_cons : forall f fs, fs <> [] -> emit (f :: fs) = (if keepf f then f ++ [SEP] else []) ++ emit fs.
Proof. intros f fs H. destruct fs; [congruence|reflexivity]. Qed.

Lemma emit_drop_seps : forall t, emit (fields (drop_seps t)) = emit (fields t).
Proof.
  induction t as [|c t IH]; [reflexivity|]. cbn [drop_seps fields]. destruct (c =? SEP) eqn:E.
  - rewrite IH. rewrite emit_cons by apply fields_nonnil. reflexivity.
  - cbn [fields]. rewrite E. reflexivity.
Qed.

Lemma has_root_drop_seps : forall t, has_root (drop_seps t) = false.
Proof. induction t as [|c t IH]; [reflexivity|]. cbn [drop_seps]. destruct (c =? SEP) eqn:E; [exact IH|cbn; exact E]. Qed.

Lemma is_dot_len2 : forall a b l, is_dot (l ++ [a; b]) = false.
Proof.
  intros a b l. destruct (is_dot (l ++ [a; b])) eqn:E; [|reflexivity].
  apply is_dot_eq in E. apply (f_equal (@length Z)) in E. rewrite app_length in E. cbn in E. lia.
Qed.

Lemma dotb_partial : forall q acc0, noelt acc0 = true -> q <> [] -> sepfree q ->
  dotb (q ++ acc0) = is_dot (rev q).
Proof.
  intros q acc0 Hn Hq Hs. destruct q as [|d [|e q']]; [congruence| |].
  - cbn [app rev]. unfold is_dot. cbn [bytes_eqb]. rewrite andb_true_r.
    destruct acc0 as [|x acc0']; [reflexivity|]. cbn in Hn. cbn [dotb]. rewrite Hn, andb_true_r. reflexivity.
  - cbn [app dotb rev]. rewrite <- app_assoc. cbn [app]. rewrite is_dot_len2.
    inversion Hs; subst. inversion H2; subst. apply Z.eqb_neq in H3. rewrite H3, andb_false_r. reflexivity.
Qed.

Lemma P1_spec : forall fuel rest q acc0,
  (length rest < fuel)%nat -> noelt acc0 = true -> sepfree q -> (q = [] -> has_root rest = false) ->
  P1 fuel rest (q ++ acc0) = Some (rev (emit (fields (rev q ++ rest))) ++ acc0).
Proof.
  induction fuel as [|f IH]; intros rest q acc0 Hf Hn Hs Hq; [lia|].
  cbn [P1]. destruct rest as [|c rest'].
  - rewrite app_nil_r. rewrite fields_sepfree by (apply Forall_rev; exact Hs). cbn [emit].
    rewrite rev_involutive. reflexivity.
  - cbn [length] in Hf. destruct (c =? SEP) eqn:Ec.
    + apply Z.eqb_eq in Ec. subst c.
      assert (Hqne : q <> []) by (intro A; specialize (Hq A); cbn in Hq; discriminate).
      rewrite fields_app_sep by (apply Forall_rev; exact Hs).
      rewrite emit_cons by apply fields_nonnil.
      rewrite dotb_partial by assumption.
      pose proof (drop_seps_length rest') as DL.
      unfold keepf. destruct (is_dot (rev q)) eqn:Ed.
      * rewrite orb_true_r. cbn [negb app].
        apply is_dot_eq in Ed. assert (q = [DOT]) as -> by (rewrite <- (rev_involutive q), Ed; reflexivity).
        cbn [app tl]. rewrite <- emit_drop_seps.
        apply (IH (drop_seps rest') [] acc0); [lia|exact Hn|constructor|intros _; apply has_root_drop_seps].
      * assert (is_empty (rev q) = false) as ->.
        { destruct (rev q) eqn:R; [|reflexivity]. apply (f_equal (@rev Z)) in R. rewrite rev_involutive in R. cbn in R. congruence. }
        cbn [orb negb]. rewrite <- emit_drop_seps.
        pose proof (IH (drop_seps rest') [] (SEP :: q ++ acc0) ltac:(lia) eq_refl (Forall_nil _)
                      (fun _ => has_root_drop_seps rest')) as I.
        cbn [rev app] in I. rewrite I.
        cbn [rev app]. rewrite !rev_app_distr. cbn [rev app]. rewrite rev_involutive, <- !app_assoc. reflexivity.
    + change (c :: q ++ acc0) with ((c :: q) ++ acc0).
      rewrite (IH rest' (c :: q) acc0); [|lia|exact Hn|constructor; [apply Z.eqb_neq; exact Ec|exact Hs]|discriminate].
      cbn [rev]. rewrite <- app_assoc. reflexivity.
Qed.

(* ---- passes 2, 3 and the tail on a buffer without the pattern  '.' '.' (sep | NUL) -------- *)
Definition nodd (buf : list Z) : Prop :=
  forall i, 1 <= i -> get buf (i - 1) = DOT -> get buf i = DOT ->
            get buf (i + 1) <> 0 /\ get buf (i + 1) <> SEP.

Lemma dotdot_at_false : forall buf i r last, nodd buf -> dotdot_at buf i r last = false.
Proof.
  intros buf i r last N. unfold dotdot_at.
  destruct (i >? 2) eqn:Ei; [|rewrite andb_false_r; reflexivity].
  destruct (get buf (i - 1) =? DOT) eqn:E1; [|rewrite !andb_false_r; reflexivity].
  destruct (get buf i =? DOT) eqn:E2; [|rewrite !andb_false_r; reflexivity].
  destruct (N i ltac:(lia) ltac:(lia) ltac:(lia)) as [A B0].
  unfold is_sep. replace (get buf (i + 1) =? 0) with false by lia.
  replace (get buf (i + 1) =? SEP) with false by lia. rewrite !andb_false_r. reflexivity.
Qed.

Lemma dotdot_loop_id : forall buf r, nodd buf -> forall fuel i last next,
  (Z.to_nat (r - i) < fuel)%nat -> dotdot_loop fuel i r last next buf = Some (r, buf).
Proof.
  intros buf r N. induction fuel as [|f IH]; intros i last next Hf; [lia|].
  cbn [dotdot_loop]. destruct (i <? r) eqn:E; [|reflexivity].
  rewrite dotdot_at_false by exact N. apply IH. lia.
Qed.

Lemma root_scan_id : forall buf r fuel, nodd buf -> root_dotdot_scan (S fuel) buf r 1 = Some 1.
Proof.
  intros buf r fuel N. cbn [root_dotdot_scan].
  change (1 + 1) with 2. change (1 + 2) with 3.
  destruct (get buf 1 =? DOT) eqn:E1; [|rewrite !andb_false_r; reflexivity].
  destruct (get buf 2 =? DOT) eqn:E2; [|rewrite !andb_false_r; reflexivity].
  pose proof (N 2 ltac:(lia)) as N2. change (2 - 1) with 1 in N2. change (2 + 1) with 3 in N2.
  destruct (N2 ltac:(lia) ltac:(lia)) as [A B0].
  replace (get buf 3 =? SEP) with false by lia.
  replace (get buf 3 =? 0) with false by lia.
  rewrite !andb_false_r. reflexivity.
Qed.

(* the final text, from the reversed output of the first pass *)
Definition fin (acc : list Z) : list Z :=
  let acc2 := match acc with
              | d :: ((e :: _) as t) => if (e =? SEP) && (d =? DOT) then t else acc
              | _ => acc
              end in
  match acc2 with [] => [DOT] | _ => rev acc2 end.

Lemma cstr_B : forall acc m, Forall (fun c => c <> 0) acc -> cstr (B acc (S m)) = rev acc.
Proof.
  intros acc m H. unfold B. apply Forall_rev in H. induction (rev acc) as [|c l IH].
  - reflexivity.
  - inversion H; subst. cbn [app cstr]. apply Z.eqb_neq in H2. rewrite H2. f_equal. apply IH. assumption.
Qed.

Lemma get_B_0 : forall acc m, Forall (fun c => c <> 0) acc -> acc <> [] -> get (B acc m) 0 <> 0.
Proof.
  intros acc m H N. unfold get, B. cbn. apply Forall_rev in H.
  destruct (rev acc) as [|c l] eqn:E.
  - apply (f_equal (@rev Z)) in E. rewrite rev_involutive in E. cbn in E. congruence.
  - cbn. inversion H; assumption.
Qed.

Lemma tail_rules_fin : forall acc m, nodd (B acc (S (S m))) -> Forall (fun c => c <> 0) acc ->
  cstr (tail_rules (Z.of_nat (length acc)) (B acc (S (S m)))) = fin acc.
Proof.
  intros acc m N Z0. unfold tail_rules. set (r := Z.of_nat (length acc)).
  assert (Fin : forall acc2 m2, Forall (fun c => c <> 0) acc2 ->
            cstr (if get (B acc2 (S (S m2))) 0 =? 0 then set (set (B acc2 (S (S m2))) 0 DOT) 1 0 else B acc2 (S (S m2)))
            = match acc2 with [] => [DOT] | _ => rev acc2 end).
  { intros acc2 m2 H2. destruct acc2 as [|x acc2'].
    - reflexivity.
    - pose proof (get_B_0 (x :: acc2') (S (S m2)) H2 ltac:(discriminate)) as G.
      replace (get (B (x :: acc2') (S (S m2))) 0 =? 0) with false by lia. apply cstr_B. exact H2. }
  destruct acc as [|d [|e t]].
  - (* r = 0 *) cbn [length] in r. subst r. cbn [Z.of_nat Z.geb Z.compare andb]. apply (Fin [] m). constructor.
  - (* r = 1 *) cbn [length] in r. subst r. cbn [Z.of_nat Pos.of_succ_nat Z.geb Z.compare andb].
    apply (Fin [d] m). exact Z0.
  - (* r >= 2 *)
    assert (Hr : r = Z.of_nat (length (d :: e :: t))) by reflexivity.
    replace (r >=? 2) with true by (cbn [length] in Hr; lia). cbn [andb].
    rewrite (get_top d (e :: t) _ r Hr), (get_second d e t _ r Hr). unfold is_sep. unfold fin. cbv beta iota zeta.
    destruct ((e =? SEP) && (d =? DOT)) eqn:E1.
    + rewrite (set_pop d (e :: t) _ r Hr).
      rewrite (get_B_ge (e :: t) _ (r - 1)) by (cbn [length] in *; lia).
      replace (0 =? SEP) with false by reflexivity. rewrite !andb_false_r.
      inversion Z0; subst. apply (Fin (e :: t) (S m)). assumption.
    + assert (R2 : (r >=? 3) && (get (B (d :: e :: t) (S (S m))) (r - 3) =? DOT) &&
                   (get (B (d :: e :: t) (S (S m))) (r - 2) =? DOT) &&
                   (get (B (d :: e :: t) (S (S m))) (r - 1) =? SEP) = false).
      { destruct (r >=? 3) eqn:E3; [|reflexivity]. cbn [andb].
        destruct (get (B (d :: e :: t) (S (S m))) (r - 3) =? DOT) eqn:G3; [|reflexivity].
        destruct (get (B (d :: e :: t) (S (S m))) (r - 2) =? DOT) eqn:G2; [|reflexivity]. cbn [andb].
        destruct (N (r - 2) ltac:(lia) ltac:(replace (r - 2 - 1) with (r - 3) by lia; lia) ltac:(lia)) as [_ A].
        replace (r - 2 + 1) with (r - 1) in A by lia. lia. }
      rewrite R2. apply (Fin (d :: e :: t) m). exact Z0.
Qed.

(* ---- assembling the passes ------------------------------------------------------------------- *)
Lemma P1_forall : forall (P : Z -> Prop) fuel rest acc acc',
  P SEP -> Forall P rest -> Forall P acc -> P1 fuel rest acc = Some acc' -> Forall P acc'.
Proof.
  intros P. induction fuel as [|f IH]; intros rest acc acc' Ps Hr Ha H; [discriminate|].
  cbn [P1] in H. destruct rest as [|c rest']; [inversion H; subst; exact Ha|].
  inversion Hr; subst. destruct (c =? SEP).
  - apply (IH (drop_seps rest') _ acc' Ps) in H; [exact H| |].
    + clear -H3. induction rest' as [|x l IHl]; [constructor|]. inversion H3; subst. cbn [drop_seps].
      destruct (x =? SEP); [apply IHl; assumption|constructor; assumption].
    + destruct (dotb acc); [destruct acc; [constructor|inversion Ha; assumption]|constructor; assumption].
  - apply (IH rest' (c :: acc) acc' Ps H3) in H; [exact H|constructor; assumption].
Qed.

Lemma zix_normal_k : forall s k rel,
  (k = 0 \/ k = 1) -> s <> [] -> s = root_acc k ++ rel -> has_root rel = false ->
  Forall (fun c => c <> 0) s ->
  (forall m, nodd (B (rev (emit (fields rel)) ++ root_acc k) m)) ->
  zix_normal_opt s = Some (fin (rev (emit (fields rel)) ++ root_acc k)).
Proof.
  intros s k rel Hk Hne Hs Hrel Hnz Hnodd.
  set (acc' := rev (emit (fields rel)) ++ root_acc k) in *.
  assert (Hlen : length s = (Z.to_nat k + length rel)%nat).
  { rewrite Hs, app_length. destruct Hk as [-> | ->]; reflexivity. }
  (* state after root copy *)
  assert (S1 : exists re rb, root_path_range s = Some (rb, re) /\ re = k /\ sz (re - rb) = k /\
               copy_root (S (length s)) s k 0 0 (repeat 0 (length s + 2))
               = Some (k, B (root_acc k) (length s + 2 - Z.to_nat k))).
  { destruct Hk as [-> | ->].
    - change (root_acc 0) with (@nil Z) in *. cbn [app] in Hs. subst rel.
      exists 0, 0. unfold root_path_range.
      destruct s as [|c s']; [congruence|]. cbn in Hrel. unfold is_sep, rd, get. cbn. rewrite Hrel.
      repeat split.
    - change (root_acc 1) with [SEP] in *. exists 1, 0. unfold root_path_range. subst s.
      unfold is_sep, rd. change (get ([SEP] ++ rel) 0) with SEP. rewrite Z.eqb_refl.
      cbn [root_dir_loop length app]. unfold is_sep, rd.
      assert (G1 : get (SEP :: rel) 1 =? SEP = false).
      { unfold get. cbn. destruct rel as [|c rel']; [reflexivity|exact Hrel]. }
      rewrite G1. repeat split.
      cbn [copy_root]. replace (0 <? 1) with true by reflexivity.
      unfold is_sep, rd. change (get (SEP :: rel) 0) with SEP. rewrite Z.eqb_refl.
      replace (0 + 1 <? 1) with false by reflexivity. cbn [length].
      set (n := (S (length rel) + 2 - Z.to_nat 1)%nat).
      replace (S (length rel) + 2)%nat with (S n) by (subst n; lia).
      change (repeat 0 (S n)) with (B [] (S n)).
      rewrite set_push by reflexivity. reflexivity. }
  destruct S1 as (re & rb & R1 & -> & R3 & R4).
  (* first pass *)
  assert (HP : P1 (S (length s)) rel ([] ++ root_acc k) = Some acc').
  { pose proof (P1_spec (S (length s)) rel [] (root_acc k)) as Q. cbn [rev app] in *. apply Q.
    - lia.
    - destruct Hk as [-> | ->]; reflexivity.
    - constructor.
    - intros _. exact Hrel. }
  assert (Hskip : skipn (Z.to_nat k) s = rel).
  { rewrite Hs. destruct Hk as [-> | ->]; reflexivity. }
  destruct (copy_loop_refine s k (S (length s)) k [] (length s + 2 - Z.to_nat k) rel acc' Hk ltac:(lia)
              ltac:(unfold zlen; lia) Hskip ltac:(lia) HP) as (m' & C1 & C2 & C3 & _).
  cbn [app] in C1, C2.
  assert (Lk : length (root_acc k) = Z.to_nat k) by (destruct Hk as [-> | ->]; reflexivity).
  rewrite Lk in C1, C2. rewrite Z2Nat.id in C1 by lia.
  assert (Nz : Forall (fun c => c <> 0) acc').
  { eapply (P1_forall (fun c => c <> 0)); [| | |exact HP].
    - cbv beta. discriminate.
    - rewrite Hs in Hnz. apply Forall_app in Hnz. apply Hnz.
    - cbn [app]. destruct Hk as [-> | ->]; repeat constructor. discriminate. }
  unfold zix_normal_opt, zix_normal_full. destruct s as [|c0 s0]; [congruence|].
  set (s := c0 :: s0) in *.
  unfold pass1. rewrite R1, R3, R4, C1. unfold pass2.
  rewrite dotdot_loop_id; [|apply Hnodd|].
  2:{ assert (Z.to_nat (Z.of_nat (length acc') - k) <= length s)%nat by lia. nia. }
  destruct m' as [|[|m'']]; [lia|lia|].
  assert (P34 : pass34 k (Z.of_nat (length acc')) (B acc' (S (S m''))) =
                Some (tail_rules (Z.of_nat (length acc')) (B acc' (S (S m''))))).
  { unfold pass34. destruct Hk as [-> | ->]; [reflexivity|].
    cbn [Z.eqb negb andb]. destruct (is_sep (get (B acc' (S (S m''))) (1 - 1))); [|reflexivity].
    rewrite B_length. cbn [andb]. rewrite root_scan_id by apply Hnodd. reflexivity. }
  rewrite P34. rewrite tail_rules_fin; [reflexivity|apply Hnodd|exact Nz].
Qed.

(* ---- the spec machine run on all fields (empty ones included) ---------------------------------- *)
Lemma step_trail_irrelevant : forall R out t t' n, norm_step R (out, t) n = norm_step R (out, t') n.
Proof. intros. unfold norm_step. reflexivity. Qed.

Lemma fold_filter_nonempty : forall R X out t t',
  fst (fold_left (norm_step R) (filter (fun e => negb (is_empty e)) X) (out, t)) =
  fst (fold_left (norm_step R) X (out, t')).
Proof.
  induction X as [|x X IH]; intros out t t'; [reflexivity|].
  cbn [filter fold_left]. destruct x as [|c x'].
  - cbn [is_empty negb]. change (norm_step R (out, t') []) with (out, true). apply IH.
  - cbn [is_empty negb fold_left]. rewrite (step_trail_irrelevant R out t t').
    destruct (norm_step R (out, t') (c :: x')) as [o1 t1]. apply IH.
Qed.

Lemma fold_left_snoc : forall (A B : Type) (f : A -> B -> A) X l a,
  fold_left f (X ++ [l]) a = f (fold_left f X a) l.
Proof. intros. rewrite fold_left_app. reflexivity. Qed.

Lemma normal_elems_of_fields : forall R fs, fs <> [] -> normal_elems R (elems_of fs) = normal_elems R fs.
Proof.
  intros R fs N. destruct (exists_last N) as (X & l & ->).
  unfold elems_of. rewrite removelast_app1, last_app1.
  unfold normal_elems at 2. rewrite fold_left_snoc.
  pose proof (fold_filter_nonempty R X [] false false) as F.
  destruct (fold_left (norm_step R) X ([], false)) as [o2 t2] eqn:E2. cbn [fst] in F.
  destruct (filter (fun e => negb (is_empty e)) X) as [|n names] eqn:EX.
  - cbn [fold_left fst] in F. subst o2. destruct (is_empty l) eqn:El.
    + apply is_empty_eq in El. subst l. reflexivity.
    + unfold normal_elems. cbn [fold_left]. rewrite (step_trail_irrelevant R [] false t2). reflexivity.
  - unfold normal_elems. rewrite fold_left_snoc.
    destruct (fold_left (norm_step R) (n :: names) ([], false)) as [o1 t1]. cbn [fst] in F. subst o2.
    rewrite (step_trail_irrelevant R o1 t1 t2). reflexivity.
Qed.

Lemma fold_nodd : forall R X out t, (forall f, In f X -> is_dotdot f = false) ->
  fst (fold_left (norm_step R) X (out, t)) = rev (filter keepf X) ++ out.
Proof.
  induction X as [|x X IH]; intros out t H; [reflexivity|].
  cbn [fold_left filter]. unfold norm_step at 2. unfold keepf at 1.
  destruct (is_empty x || is_dot x) eqn:E; cbn [negb].
  - apply IH. intros f Hf. apply H. right. exact Hf.
  - rewrite (H x (or_introl eq_refl)). rewrite IH by (intros f Hf; apply H; right; exact Hf).
    cbn [rev]. rewrite <- app_assoc. reflexivity.
Qed.

Definition body (K : list elem) : list Z := concat (map (fun f => f ++ [SEP]) K).

Lemma join_snoc : forall K l, join_elems (K ++ [l]) = body K ++ l.
Proof.
  induction K as [|f K IH]; intro l; [cbn; reflexivity|].
  cbn [app]. destruct (K ++ [l]) as [|e rest] eqn:E; [destruct K; discriminate|].
  change (join_elems (f :: e :: rest)) with (f ++ SEP :: join_elems (e :: rest)).
  rewrite <- E, IH. unfold body. cbn [map concat]. rewrite <- !app_assoc. reflexivity.
Qed.

Lemma emit_body : forall fs, fs <> [] ->
  emit fs = body (filter keepf (removelast fs)) ++ last fs [].
Proof.
  induction fs as [|f fs IH]; intro N; [congruence|].
  destruct fs as [|f2 fs'].
  - reflexivity.
  - rewrite emit_cons by discriminate. rewrite IH by discriminate.
    change (removelast (f :: f2 :: fs')) with (f :: removelast (f2 :: fs')).
    change (last (f :: f2 :: fs') []) with (last (f2 :: fs') []).
    cbn [filter]. destruct (keepf f); [|reflexivity].
    unfold body. cbn [map concat]. rewrite <- !app_assoc. reflexivity.
Qed.

Lemma body_snoc : forall K x, body (K ++ [x]) = body K ++ x ++ [SEP].
Proof. intros. unfold body. rewrite map_app, concat_app. cbn. rewrite app_nil_r. reflexivity. Qed.

Lemma rev_root_acc : forall k, rev (root_acc k) = root_acc k.
Proof. intro k. unfold root_acc. destruct (k =? 1); reflexivity. Qed.

Lemma fin_sep_top : forall t, fin (SEP :: t) = rev (SEP :: t).
Proof.
  intro t. unfold fin. destruct t as [|e t']; [reflexivity|].
  replace ((e =? SEP) && (SEP =? DOT)) with false by (rewrite andb_false_r; reflexivity). reflexivity.
Qed.

Lemma fin_dot_sep_top : forall t, fin (DOT :: SEP :: t) = rev (SEP :: t).
Proof. intro t. reflexivity. Qed.

(* the final text of the model equals the rendered result of the spec machine *)
Lemma fin_render : forall k fs, (k = 0 \/ k = 1) -> fs <> [] -> Forall sepfree fs ->
  (forall f, In f fs -> is_dotdot f = false) ->
  fin (rev (emit fs) ++ root_acc k) = render (k =? 1) (normal_elems (k =? 1) fs).
Proof.
  intros k fs Hk N Hsf Hdd. rewrite emit_body by exact N.
  destruct (exists_last N) as (X & l & ->). rewrite removelast_app1, last_app1.
  set (K := filter keepf X).
  assert (HddX : forall f, In f X -> is_dotdot f = false) by (intros f Hf; apply Hdd; apply in_or_app; left; exact Hf).
  assert (Hl : is_dotdot l = false) by (apply Hdd; apply in_or_app; right; left; reflexivity).
  assert (Hsl : sepfree l) by (apply Forall_app in Hsf as [_ H]; inversion H; assumption).
  unfold normal_elems. rewrite fold_left_snoc.
  pose proof (fold_nodd (k =? 1) X [] false HddX) as F. rewrite app_nil_r in F. fold K in F.
  destruct (fold_left (norm_step (k =? 1)) X ([], false)) as [o1 t1]. cbn [fst] in F. subst o1.
  unfold norm_step. destruct (is_empty l || is_dot l) eqn:El.
  - (* the last field is "" or ".": nothing is pushed, a separator is due *)
    assert (HK : forall x K', K = K' ++ [x] -> is_dotdot x = false).
    { intros x K' E. apply HddX. assert (In x K) by (rewrite E; apply in_or_app; right; left; reflexivity).
      unfold K in H. apply filter_In in H. apply H. }
    unfold norm_finish. rewrite rev_app_distr.
    destruct K as [|x0 K0] eqn:EK using rev_ind.
    + (* nothing kept *)
      cbn [rev body map concat app].
      apply orb_true_iff in El as [El | El].
      * apply is_empty_eq in El. subst l. cbn [rev app].
        destruct Hk as [-> | ->]; reflexivity.
      * apply is_dot_eq in El. subst l. cbn [rev app].
        destruct Hk as [-> | ->]; reflexivity.
    + clear IHK0. rewrite body_snoc. rewrite rev_app_distr. cbn [rev app].
      replace (rev (K0 ++ [x0])) with (x0 :: rev K0) by (rewrite rev_app_distr; reflexivity).
      cbv iota. rewrite (HK x0 K0 eq_refl). cbn [rev]. rewrite rev_involutive.
      unfold render. rewrite join_snoc, body_snoc, app_nil_r.
      rewrite !rev_app_distr. cbn [rev app]. rewrite <- !app_assoc. cbn [app].
      assert (Hrev : rev (SEP :: (rev x0 ++ rev (body K0)) ++ root_acc k) =
                     (if k =? 1 then [SEP] else []) ++ body K0 ++ x0 ++ [SEP]).
      { cbn [rev]. rewrite !rev_app_distr, !rev_involutive, rev_root_acc. rewrite <- !app_assoc.
        destruct Hk as [-> | ->]; reflexivity. }
      apply orb_true_iff in El as [El | El].
      * apply is_empty_eq in El. subst l. cbn [rev app]. rewrite fin_sep_top. exact Hrev.
      * apply is_dot_eq in El. subst l. cbn [rev app]. rewrite fin_dot_sep_top. exact Hrev.
  - (* the last field is a proper name *)
    rewrite Hl. unfold norm_finish. rewrite Hl.
    apply orb_false_iff in El as [Ee Ed].
    change (rev (l :: rev K)) with (rev (rev K) ++ [l]). rewrite rev_involutive.
    unfold render. rewrite join_snoc.
    assert (Hfin : forall acc, (forall d e t, acc = d :: e :: t -> (e =? SEP) && (d =? DOT) = false) -> acc <> [] ->
                   fin acc = rev acc).
    { intros acc H1 H2. unfold fin. destruct acc as [|d [|e t]]; [congruence|reflexivity|].
      rewrite (H1 d e t eq_refl). reflexivity. }
    rewrite Hfin.
    + rewrite ?rev_app_distr, ?rev_involutive, ?rev_root_acc, <- ?app_assoc.
      destruct Hk as [-> | ->]; reflexivity.
    + intros d e t E. rewrite rev_app_distr in E. rewrite <- ?app_assoc in E.
      destruct l as [|c1 l1] using rev_ind; [discriminate|]. clear IHl1.
      rewrite rev_app_distr in E. cbn [rev app] in E. inversion E; subst d.
      destruct l1 as [|c2 l2] using rev_ind.
      * cbn [app] in *. unfold is_dot in Ed. cbn in Ed. rewrite andb_true_r in Ed. rewrite Ed. apply andb_false_r.
      * clear IHl2. rewrite rev_app_distr in H1. cbn [rev app] in H1. inversion H1; subst e.
        unfold sepfree in Hsl. rewrite Forall_app in Hsl. destruct Hsl as [Hsl _].
        rewrite Forall_app in Hsl. destruct Hsl as [_ Hsl]. inversion Hsl; subst.
        apply Z.eqb_neq in H3. rewrite H3. reflexivity.
    + destruct l as [|c1 l1]; [discriminate|]. intro A. apply (f_equal (@length Z)) in A.
      rewrite !app_length, rev_length in A. cbn in A. rewrite app_length in A. cbn in A. lia.
Qed.

(* ---- the pattern-freeness of the first-pass output, from the fields of the input -------------- *)
Definition Qf (t : list Z) : bool := forallb (fun f => negb (ends_dotdot f)) (fields t).

Lemma ends_dotdot_cons : forall a f, ends_dotdot f = true -> ends_dotdot (a :: f) = true.
Proof. intros a f H. destruct f as [|b [|c f']]; [discriminate|discriminate|exact H]. Qed.

Lemma Qf_tail : forall a t, Qf (a :: t) = true -> Qf t = true.
Proof.
  intros a t H. unfold Qf in *. cbn [fields] in H. destruct (a =? SEP).
  - cbn in H. exact H.
  - pose proof (fields_nonnil t) as N. destruct (fields t) as [|f fs]; [congruence|].
    cbn [forallb] in *. apply andb_true_iff in H as [H1 H2]. rewrite H2, andb_true_r.
    destruct (ends_dotdot f) eqn:E; [|reflexivity]. rewrite (ends_dotdot_cons a f E) in H1. discriminate.
Qed.

Lemma nth_repeat0 : forall n m, nth n (repeat 0 m) 0 = 0.
Proof.
  intros n m. destruct (nth_in_or_default n (repeat 0 m) 0) as [I | I]; [|exact I].
  apply repeat_spec in I. exact I.
Qed.

Lemma Qf_nth : forall t m, Qf t = true -> Forall (fun c => c <> 0) t -> forall n,
  nth n (t ++ repeat 0 m) 0 = DOT -> nth (S n) (t ++ repeat 0 m) 0 = DOT ->
  nth (S (S n)) (t ++ repeat 0 m) 0 <> 0 /\ nth (S (S n)) (t ++ repeat 0 m) 0 <> SEP.
Proof.
  induction t as [|a t IH]; intros m HQ HZ n H1 H2.
  - cbn [app] in H1. rewrite nth_repeat0 in H1. discriminate.
  - inversion HZ; subst. destruct n as [|n'].
    + cbn [app nth] in *. subst a. destruct t as [|b t2].
      * cbn [app] in H2. rewrite nth_repeat0 in H2. discriminate.
      * cbn [app nth] in *. subst b. destruct t2 as [|c t3].
        -- cbn in HQ. discriminate.
        -- cbn [app nth]. split; [rewrite Forall_forall in HZ; apply HZ; right; right; left; reflexivity|].
           intro A. subst c. cbn in HQ. discriminate.
    + cbn [app nth] in *. apply (IH m (Qf_tail _ _ HQ) H4 n' H1 H2).
Qed.

Lemma nodd_B : forall acc m, Qf (rev acc) = true -> Forall (fun c => c <> 0) acc -> nodd (B acc m).
Proof.
  intros acc m HQ HZ i Hi G1 G2. unfold get in *.
  replace (i - 1 <? 0) with false in G1 by lia. replace (i <? 0) with false in G2 by lia.
  replace (i + 1 <? 0) with false by lia.
  replace (Z.to_nat i) with (S (Z.to_nat (i - 1))) in G2 by lia.
  replace (Z.to_nat (i + 1)) with (S (S (Z.to_nat (i - 1)))) by lia.
  unfold B in *. apply (Qf_nth (rev acc) m HQ (Forall_rev HZ) _ G1 G2).
Qed.

Lemma fields_body : forall K l, Forall sepfree K -> sepfree l -> fields (body K ++ l) = K ++ [l].
Proof.
  induction K as [|f K IH]; intros l HK Hl.
  - cbn. apply fields_sepfree. exact Hl.
  - inversion HK; subst. unfold body. cbn [map concat]. rewrite <- !app_assoc. cbn [app].
    rewrite fields_app_sep by assumption. fold (body K). rewrite IH by assumption. reflexivity.
Qed.

Lemma Forall_filter : forall (A : Type) (P : A -> Prop) p l, Forall P l -> Forall P (filter p l).
Proof.
  intros A P p l H. apply Forall_forall. intros x Hx. apply filter_In in Hx as [Hx _].
  rewrite Forall_forall in H. apply H. exact Hx.
Qed.

Lemma Qf_first_pass : forall k fs, (k = 0 \/ k = 1) -> fs <> [] -> Forall sepfree fs ->
  forallb (fun f => negb (ends_dotdot f)) fs = true ->
  Qf (rev (rev (emit fs) ++ root_acc k)) = true.
Proof.
  intros k fs Hk N Hsf HP. rewrite rev_app_distr, rev_involutive, rev_root_acc.
  rewrite emit_body by exact N.
  assert (HK : Forall sepfree (filter keepf (removelast fs))) by (apply Forall_filter, Forall_removelast; exact Hsf).
  assert (Hl : sepfree (last fs [])) by (apply Forall_last; assumption).
  assert (Q0 : Qf (body (filter keepf (removelast fs)) ++ last fs []) = true).
  { unfold Qf. rewrite fields_body by assumption. rewrite forallb_forall in *. intros x Hx.
    apply HP. apply in_app_or in Hx as [Hx | [<- | []]].
    - apply filter_In in Hx as [Hx _]. destruct (exists_last N) as (X & l & ->).
      rewrite removelast_app1 in Hx. apply in_or_app. left. exact Hx.
    - destruct (exists_last N) as (X & l & ->). rewrite last_app1. apply in_or_app. right. left. reflexivity. }
  destruct Hk as [-> | ->]; [exact Q0|].
  change (root_acc 1) with [SEP]. unfold Qf in *. cbn [app fields]. rewrite Z.eqb_refl. cbn. exact Q0.
Qed.

(* ---- the partial theorem: on no_dotdot_tail the model returns exactly std_normal ---------- *)
Lemma ends_dotdot_of_is_dotdot : forall f, ends_dotdot f = false -> is_dotdot f = false.
Proof.
  intros f H. destruct (is_dotdot f) eqn:E; [|reflexivity]. apply is_dotdot_eq in E. subst f. cbn in H. discriminate.
Qed.

Lemma zix_normal_on_class : forall s, c_string s -> no_dotdot_tail s = true ->
  zix_normal_opt s = Some (std_normal s).
Proof.
  intros s Hc H. unfold no_dotdot_tail in H. apply andb_true_iff in H as [HA HF].
  apply negb_true_iff in HA. destruct s as [|c s']; [reflexivity|].
  assert (Main : forall k rel, (k = 0 \/ k = 1) -> c :: s' = root_acc k ++ rel -> has_root rel = false ->
            has_root (c :: s') = (k =? 1) ->
            forallb (fun e => negb (ends_dotdot e)) (fields rel) = true ->
            elems (c :: s') = elems_of (fields rel) ->
            zix_normal_opt (c :: s') = Some (std_normal (c :: s'))).
  { intros k rel Hk Hs Hrel HR HP HE.
    pose proof (fields_nonnil rel) as N. pose proof (fields_sepfree_all rel) as Hsf.
    assert (Nz : Forall (fun x => x <> 0) (rev (emit (fields rel)) ++ root_acc k)).
    { apply (P1_forall (fun x => x <> 0) (S (length rel)) rel (root_acc k)).
      - cbv beta. discriminate.
      - unfold c_string in Hc. rewrite Hs in Hc. apply Forall_app in Hc. apply Hc.
      - destruct Hk as [-> | ->]; repeat constructor. discriminate.
      - pose proof (P1_spec (S (length rel)) rel [] (root_acc k)) as Q. cbn [rev app] in Q. apply Q.
        + lia.
        + destruct Hk as [-> | ->]; reflexivity.
        + constructor.
        + intros _. exact Hrel. }
    rewrite (zix_normal_k (c :: s') k rel Hk ltac:(discriminate) Hs Hrel Hc).
    - f_equal. rewrite fin_render; [|exact Hk|exact N|exact Hsf|].
      + unfold std_normal. rewrite HR, HE. rewrite normal_elems_of_fields by exact N. reflexivity.
      + intros f Hf. apply ends_dotdot_of_is_dotdot. rewrite forallb_forall in HP.
        apply negb_true_iff. apply HP. exact Hf.
    - intro m. apply nodd_B; [|exact Nz]. apply Qf_first_pass; assumption. }
  destruct (c =? SEP) eqn:Ec.
  - apply Z.eqb_eq in Ec. subst c. apply (Main 1 s'); [right; reflexivity|reflexivity| |reflexivity| |].
    + destruct s' as [|d s'']; [reflexivity|]. cbn in HA. cbn. exact HA.
    + cbn [fields] in HF. rewrite Z.eqb_refl in HF. cbn in HF. exact HF.
    + rewrite elems_unfold. cbn [fields]. rewrite Z.eqb_refl. apply elems_of_cons_empty. apply fields_nonnil.
  - apply (Main 0 (c :: s')); [left; reflexivity|reflexivity|cbn; exact Ec|cbn; exact Ec|exact HF|apply elems_unfold].
Qed.

(* ---- the proved class lies inside `plain`, is closed under std_normal; idempotence on it ------ *)
Lemma In_elems_fields : forall s e, In e (elems s) -> In e (fields s).
Proof.
  intros s e H. rewrite elems_unfold in H. unfold elems_of in H.
  pose proof (fields_nonnil s) as N. destruct (exists_last N) as (X & l & E). rewrite E in *.
  rewrite removelast_app1, last_app1 in H.
  assert (Hn : forall x, In x (filter (fun e => negb (is_empty e)) X) -> In x (X ++ [l])).
  { intros x Hx. apply filter_In in Hx as [Hx _]. apply in_or_app. left. exact Hx. }
  destruct (filter (fun e => negb (is_empty e)) X) as [|n names].
  - destruct (is_empty l); [destruct H|]. destruct H as [<- | []]. apply in_or_app. right. left. reflexivity.
  - apply in_app_or in H as [H | [<- | []]]; [apply Hn; exact H|apply in_or_app; right; left; reflexivity].
Qed.

Lemma all_dots_ends : forall e, all_dots e = true -> (2 <= length e)%nat -> ends_dotdot e = true.
Proof.
  induction e as [|a e IH]; intros H L; [cbn in L; lia|].
  destruct e as [|b [|c e'']]; [cbn in L; lia| |].
  - cbn in H. cbn. apply andb_true_iff in H as [H1 H2]. apply andb_true_iff in H2 as [H2 _]. rewrite H1, H2. reflexivity.
  - change (ends_dotdot (a :: b :: c :: e'')) with (ends_dotdot (b :: c :: e'')). apply IH; [|cbn; lia].
    cbn [all_dots] in H. apply andb_true_iff in H as [_ H]. exact H.
Qed.

Lemma no_dotdot_tail_plain : forall s, no_dotdot_tail s = true -> plain s = true.
Proof.
  intros s H. unfold no_dotdot_tail in H. apply andb_true_iff in H as [HA HF].
  assert (HE : forall e, In e (elems s) -> ends_dotdot e = false).
  { intros e He. rewrite forallb_forall in HF. apply negb_true_iff. apply HF. apply In_elems_fields. exact He. }
  unfold plain. rewrite HA. cbn [andb].
  assert (class_B s = false) as ->.
  { unfold class_B. destruct (existsb _ (elems s)) eqn:E; [|reflexivity].
    apply existsb_exists in E as (e & He & P). apply andb_true_iff in P as [P1 P2].
    apply Nat.leb_le in P2. pose proof (HE e He) as Q. rewrite (all_dots_ends e P1 ltac:(lia)) in Q. discriminate. }
  assert (class_C s = false) as ->.
  { unfold class_C. destruct (existsb _ (elems s)) eqn:E; [|reflexivity].
    apply existsb_exists in E as (e & He & P). apply andb_true_iff in P as [_ P]. rewrite (HE e He) in P. discriminate. }
  assert (class_D s = false) as ->.
  { unfold class_D. destruct (existsb is_dotdot (elems s)) eqn:E; [|reflexivity].
    apply existsb_exists in E as (e & He & P). apply is_dotdot_eq in P. subst e.
    specialize (HE _ He). cbn in HE. discriminate. }
  reflexivity.
Qed.

Lemma normal_elems_forall : forall (P : elem -> Prop) R es, P [DOT] -> P [] -> Forall P es ->
  Forall P (normal_elems R es).
Proof.
  intros P R es Pd Pe H. unfold normal_elems.
  pose proof (fold_forall P R es [] false (Forall_nil _) H) as F.
  destruct (fold_left (norm_step R) es ([], false)) as [out trail]. cbn [fst] in F.
  unfold norm_finish. destruct out as [|x out'].
  - destruct R; [constructor|repeat constructor; exact Pd].
  - assert (Forall P (rev (x :: out'))) by (apply Forall_rev; exact F).
    destruct (is_dotdot x); [assumption|]. destruct trail; [|assumption].
    apply Forall_app. split; [assumption|repeat constructor; exact Pe].
Qed.

Lemma fields_forall_bytes : forall (Q : Z -> Prop) s, Forall Q s -> Forall (Forall Q) (fields s).
Proof.
  intros Q. induction s as [|c s IH]; intro H; cbn [fields]; [repeat constructor|].
  inversion H; subst. specialize (IH H3). destruct (c =? SEP); [constructor; [constructor|exact IH]|].
  destruct (fields s) as [|f fs]; [repeat constructor; assumption|].
  inversion IH; subst. constructor; [constructor; assumption|assumption].
Qed.

Lemma join_forall_bytes : forall (Q : Z -> Prop) es, Q SEP -> Forall (Forall Q) es -> Forall Q (join_elems es).
Proof.
  intros Q es Qs. induction es as [|e es IH]; intro H; [constructor|].
  inversion H; subst. destruct es as [|e2 es']; [exact H2|].
  change (join_elems (e :: e2 :: es')) with (e ++ SEP :: join_elems (e2 :: es')).
  apply Forall_app. split; [exact H2|constructor; [exact Qs|apply IH; exact H3]].
Qed.

Lemma std_normal_in_class : forall s, c_string s -> no_dotdot_tail s = true ->
  c_string (std_normal s) /\ no_dotdot_tail (std_normal s) = true.
Proof.
  intros s Hc H. destruct s as [|c s']; [split; [constructor|reflexivity]|].
  set (s := c :: s') in *. change (std_normal s) with (render (has_root s) (normal_elems (has_root s) (elems s))).
  pose proof (normal_elems_wf s) as W. set (es' := normal_elems (has_root s) (elems s)) in *.
  unfold no_dotdot_tail in H. apply andb_true_iff in H as [_ HF].
  split.
  - (* bytes *)
    assert (Forall (Forall (fun x => x <> 0)) es').
    { apply normal_elems_forall; [repeat constructor; discriminate|constructor|].
      apply Forall_forall. intros e He. apply In_elems_fields in He.
      pose proof (fields_forall_bytes (fun x => x <> 0) s Hc) as FB. rewrite Forall_forall in FB. apply FB. exact He. }
    unfold c_string, render. apply Forall_app. split.
    + destruct (has_root s); repeat constructor. discriminate.
    + apply join_forall_bytes; [discriminate|assumption].
  - (* class *)
    assert (HP : Forall (fun e => ends_dotdot e = false) es').
    { apply normal_elems_forall; [reflexivity|reflexivity|].
      apply Forall_forall. intros e He. apply In_elems_fields in He.
      rewrite forallb_forall in HF. apply negb_true_iff. apply HF. exact He. }
    assert (HJ : forallb (fun e => negb (ends_dotdot e)) (fields (join_elems es')) = true).
    { destruct es' as [|e0 es0] eqn:E; [reflexivity|].
      rewrite fields_join; [|apply wf_sepfree; exact W|discriminate].
      apply forallb_forall. intros x Hx. rewrite Forall_forall in HP. rewrite (HP x Hx). reflexivity. }
    pose proof (wf_head_not_sep es' W) as HR.
    unfold no_dotdot_tail, render. destruct (has_root s); cbn [app].
    + apply andb_true_iff. split.
      * unfold class_A. destruct (join_elems es') as [|d t]; [reflexivity|]. cbn in HR. rewrite HR, andb_false_r. reflexivity.
      * cbn [fields]. rewrite Z.eqb_refl. cbn [forallb ends_dotdot negb andb]. exact HJ.
    + apply andb_true_iff. split; [|exact HJ].
      unfold class_A. destruct (join_elems es') as [|d [|d2 t]]; [reflexivity|reflexivity|]. cbn in HR. rewrite HR. reflexivity.
Qed.

Lemma zix_normal_idem_on_class : forall s, c_string s -> no_dotdot_tail s = true ->
  zix_normal (zix_normal s) = zix_normal s.
Proof.
  intros s Hc H. unfold zix_normal at 2 3. rewrite (zix_normal_on_class s Hc H).
  destruct (std_normal_in_class s Hc H) as [Hc' H']. unfold zix_normal.
  rewrite (zix_normal_on_class _ Hc' H'). apply std_normal_idem.
Qed.
