(* C10, the Windows configuration of src/path.c (-D_WIN32) — property theorems about the SPEC the W cases
   of the check are judged by (PathWinSpec).  That configuration's code has no Coq model: its tie is the
   differential run of path.c built with -D_WIN32 against the extracted spec (spec only, model line "="). *)
From Coq Require Import ZArith List Bool.
From Zix Require Import PathDecSpec PathWinSpec PathWinProofs.
Import ListNotations.
Local Open Scope Z_scope.

(* on every string of the common part of the two formats (no backslash, no root-name) the Windows spec is the
   POSIX spec - which is compared with libstdc++ on every run - component for component; such a path is never
   absolute on Windows *)
Theorem win_spec_extends_posix_spec : forall s, no_bslash s -> root_name_len s = O ->
  win_root_name s = std_root_name s /\
  win_has_root_directory s = std_has_root_directory s /\
  win_relative_path s = std_relative_path s /\
  win_parent_path s = ([], fst (std_parent_path s), snd (std_parent_path s)) /\
  win_filename s = std_filename s /\ win_stem s = std_stem s /\ win_extension s = std_extension s /\
  win_has_root_name s = std_has_root_name s /\ win_has_root_path s = std_has_root_path s /\
  win_has_relative_path s = std_has_relative_path s /\ win_has_parent_path s = std_has_parent_path s /\
  win_has_filename s = std_has_filename s /\ win_has_stem s = std_has_stem s /\
  win_has_extension s = std_has_extension s /\
  win_is_absolute s = false.
Proof. exact win_extends_posix. Qed.
Print Assumptions win_spec_extends_posix_spec.

(* filename is stem followed by extension; the string is its root-name followed by the rest; exactly one of
   is_absolute / is_relative holds *)
Theorem win_filename_is_stem_extension : forall s, win_filename s = win_stem s ++ win_extension s.
Proof. exact win_stem_ext. Qed.
Print Assumptions win_filename_is_stem_extension.

Theorem win_root_name_is_prefix : forall s, s = win_root_name s ++ w_rest s.
Proof. exact win_root_name_rest. Qed.
Print Assumptions win_root_name_is_prefix.

(* witnesses: "C:\\a" (drive, two separators, name), "//host/x.y", "_:" (no drive), "///x" (no network name) *)
Example win_witnesses :
  win_relative_path [67; 58; 92; 92; 97] = [97] /\ win_root_name [67; 58; 92; 92; 97] = [67; 58] /\
  win_root_name [47; 47; 104; 47; 120; 46; 121] = [47; 47; 104] /\ win_extension [47; 47; 104; 47; 120; 46; 121] = [46; 121] /\
  win_root_name [95; 58] = [] /\ win_filename [95; 58] = [95; 58] /\
  win_root_name [47; 47; 47; 120] = [] /\ win_is_absolute [47; 47; 47; 120] = false /\
  win_is_absolute [47; 47; 104] = true /\ win_is_absolute [67; 58; 97] = false.
Proof. vm_compute. repeat split. Qed.
