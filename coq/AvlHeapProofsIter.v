(* C06 — heap model of tree.c, lemmas part: iteration and find.  On a heap that represents a tree,
   zix_tree_begin/rbegin, the parent-pointer stepping of zix_tree_iter_next/prev, the two full
   walks, zix_tree_find and the climb to the root compute what the functional model computes
   (in-order stepping), and never run out of fuel. *)
From Coq Require Import ZArith List Bool Lia ZifyBool Permutation.
From Zix Require Import AvlSpec AvlModel AvlProofs AvlProofsIter AvlHeapModel AvlHeapProofsBase AvlHeapProofsRot.
Import ListNotations.
Local Open Scope Z_scope.

(* ------------------------------------------------------------------ small facts *)
Lemma leftmost_N_some : forall i d b l r, exists j, leftmost (N i d b l r) = Some j.
Proof. intros. rewrite leftmost_hd. apply ids_nonempty. Qed.

Lemma rightmost_N_some : forall i d b l r, exists j, rightmost (N i d b l r) = Some j.
Proof. intros. rewrite mirror_rightmost. cbn [mirror]. apply leftmost_N_some. Qed.

Lemma hd_error_some_in : forall (l : list Z) a, hd_error l = Some a -> In a l.
Proof. intros [|b l] a H; [discriminate|]. cbn in H. inversion H. left. reflexivity. Qed.

Lemma succ_in_in : forall id l j, succ_in id l = Some j -> In j l.
Proof.
  intros id. induction l as [|a l IH]; intros j H; [discriminate|].
  cbn [succ_in] in H. destruct (a =? id).
  - right. apply hd_error_some_in. assumption.
  - right. apply IH. assumption.
Qed.

Lemma leftmost_in : forall t i, leftmost t = Some i -> In i (ids t).
Proof. intros t i H. rewrite leftmost_hd in H. apply hd_error_some_in. assumption. Qed.

Lemma rightmost_in : forall t i, rightmost t = Some i -> In i (ids t).
Proof.
  intros t i H. rewrite mirror_rightmost in H. apply leftmost_in in H. rewrite mirror_ids in H.
  apply in_rev. assumption.
Qed.

Lemma tnext_in : forall t i j, NoDup (ids t) -> In i (ids t) -> tnext i t = Some j -> In j (ids t).
Proof. intros t i j ND Hi H. rewrite tnext_spec in H by assumption. eapply succ_in_in. eassumption. Qed.

Lemma tprev_in : forall t i j, NoDup (ids t) -> In i (ids t) -> tprev i t = Some j -> In j (ids t).
Proof.
  intros t i j ND Hi H. rewrite tprev_spec in H by assumption. apply succ_in_in in H.
  apply in_rev. assumption.
Qed.

(* ------------------------------------------------------------------ descending loops *)
Lemma h_leftmost_rep : forall t h par fuel i, rep h t par -> root_id t = Some i -> (heightn t <= fuel)%nat ->
  h_leftmost fuel h i = leftmost t.
Proof.
  induction t as [|j d b l IHl r IHr]; intros h par fuel i R Ei Hf; [discriminate|].
  cbn [root_id] in Ei. inversion Ei. subst j. clear Ei.
  cbn [rep] in R. destruct R as (R1 & R2 & R3).
  cbn [heightn] in Hf. destruct fuel as [|f]; [lia|].
  cbn [h_leftmost leftmost]. unfold left. rewrite R1. cbn [nleft].
  destruct l as [|li ld lb ll lr]; [reflexivity|].
  cbn [root_id]. apply (IHl h (Some i) f li R2 eq_refl). lia.
Qed.

Lemma h_rightmost_rep : forall t h par fuel i, rep h t par -> root_id t = Some i -> (heightn t <= fuel)%nat ->
  h_rightmost fuel h i = rightmost t.
Proof.
  induction t as [|j d b l IHl r IHr]; intros h par fuel i R Ei Hf; [discriminate|].
  cbn [root_id] in Ei. inversion Ei. subst j. clear Ei.
  cbn [rep] in R. destruct R as (R1 & R2 & R3).
  cbn [heightn] in Hf. destruct fuel as [|f]; [lia|].
  cbn [h_rightmost rightmost]. unfold right. rewrite R1. cbn [nright].
  destruct r as [|ri rd rb rl rr]; [reflexivity|].
  cbn [root_id]. apply (IHr h (Some i) f ri R3 eq_refl). lia.
Qed.

(* ------------------------------------------------------------------ fuel *)
Lemma Rep_fuel : forall st fs, Rep st fs -> size fs = count (root fs) ->
  (heightn (root fs) < fuel_of st)%nat.
Proof.
  intros st fs (_ & _ & Hs & _) Hc. unfold fuel_of. rewrite Hs, Hc.
  pose proof (heightn_le_count (root fs)). lia.
Qed.

(* a node of a represented tree, its context, and everything the upward loops need *)
Lemma Rep_split : forall st fs i, Rep st fs -> size fs = count (root fs) -> NoDup (ids (root fs)) ->
  In i (ids (root fs)) ->
  exists c d b l r, root fs = plug c (N i d b l r) /\
    hget (hp st) i = Some (mkNode d b (ctx_id c) (root_id l) (root_id r)) /\
    rep (hp st) l (Some i) /\ rep (hp st) r (Some i) /\ repc (hp st) c (Some i) /\
    NoDup (i :: cids c) /\
    (clen c < fuel_of st)%nat /\ (heightn l < fuel_of st)%nat /\ (heightn r < fuel_of st)%nat.
Proof.
  intros st fs i HR Hc ND Hi.
  pose proof (Rep_fuel st fs HR Hc) as HF. destruct HR as (R & _).
  destruct (in_ids_split _ _ Hi) as (c & d & b & l & r & T).
  exists c, d, b, l, r. rewrite T in *.
  apply rep_plug in R. destruct R as (RN & RC). cbn [rep root_id] in RN. destruct RN as (R1 & R2 & R3).
  pose proof (height_plug_bound c (N i d b l r)) as HB. cbn [heightn] in HB.
  apply nodup_plug in ND. apply nodup_app_disj in ND as (ND1 & ND2 & ND3).
  repeat split; try assumption; try lia.
  constructor; [|assumption]. intros X. apply (ND3 i); [|assumption].
  rewrite ids_N. apply in_or_app. right. left. reflexivity.
Qed.

(* ------------------------------------------------------------------ next: functional side *)
(* the nearest ancestor entered from its left subtree *)
Fixpoint up_right (c : ctx) (anc : option Z) : option Z :=
  match c with
  | Top => anc
  | CL g _ _ _ _ => Some g
  | CR _ _ _ _ c' => up_right c' anc
  end.

Fixpoint up_left (c : ctx) (anc : option Z) : option Z :=
  match c with
  | Top => anc
  | CR g _ _ _ _ => Some g
  | CL _ _ _ _ c' => up_left c' anc
  end.

Lemma next_in_some : forall id t anc, In id (ids t) -> next_in id t anc <> None.
Proof.
  intros id. induction t as [|i d b l IHl r IHr]; intros anc H; [destruct H|].
  rewrite ids_N in H. cbn [next_in]. destruct (i =? id) eqn:C; [discriminate|].
  apply in_app_or in H. destruct H as [H|[H|H]].
  - specialize (IHl (Some i) H). destruct (next_in id l (Some i)); [discriminate|congruence].
  - lia.
  - destruct (next_in id l (Some i)); [discriminate|]. apply IHr. assumption.
Qed.

Lemma prev_in_none : forall id t anc, ~ In id (ids t) -> prev_in id t anc = None.
Proof.
  intros id. induction t as [|i d b l IHl r IHr]; intros anc H; [reflexivity|].
  rewrite ids_N in H. rewrite in_app_iff in H. cbn [In] in H. cbn [prev_in].
  destruct (i =? id) eqn:C; [exfalso; apply H; right; left; lia|].
  rewrite IHr by (intros H1; apply H; right; right; assumption).
  apply IHl. intros H1. apply H. left. assumption.
Qed.

Lemma prev_in_some : forall id t anc, In id (ids t) -> prev_in id t anc <> None.
Proof.
  intros id. induction t as [|i d b l IHl r IHr]; intros anc H; [destruct H|].
  rewrite ids_N in H. cbn [prev_in]. destruct (i =? id) eqn:C; [discriminate|].
  apply in_app_or in H. destruct H as [H|[H|H]].
  - destruct (prev_in id r (Some i)); [discriminate|]. apply IHl. assumption.
  - lia.
  - specialize (IHr (Some i) H). destruct (prev_in id r (Some i)); [discriminate|congruence].
Qed.

Lemma next_in_plug : forall c u id anc, NoDup (ids (plug c u)) -> In id (ids u) ->
  next_in id (plug c u) anc = next_in id u (up_right c anc).
Proof.
  induction c as [|g d b r c IH|g d b l c IH]; intros u id anc ND Hi; cbn [plug up_right] in *.
  - reflexivity.
  - assert (ND1 : NoDup (ids u ++ g :: ids r)).
    { apply nodup_plug in ND. apply nodup_app_disj in ND as (ND1 & _ & _). rewrite ids_N in ND1. assumption. }
    rewrite IH; [|assumption|rewrite ids_N; apply in_or_app; left; assumption].
    cbn [next_in].
    assert (Ng : g <> id) by nd_neq ND1.
    replace (g =? id) with false by (symmetry; apply Z.eqb_neq; assumption).
    destruct (next_in id u (Some g)) eqn:X; [reflexivity|].
    exfalso. eapply next_in_some; eassumption.
  - assert (ND1 : NoDup (ids l ++ g :: ids u)).
    { apply nodup_plug in ND. apply nodup_app_disj in ND as (ND1 & _ & _). rewrite ids_N in ND1. assumption. }
    rewrite IH; [|assumption|rewrite ids_N; apply in_or_app; right; right; assumption].
    cbn [next_in].
    assert (Ng : g <> id) by nd_neq ND1.
    replace (g =? id) with false by (symmetry; apply Z.eqb_neq; assumption).
    assert (Nl : ~ In id (ids l)) by (intros Hl; nd_absurd ND1 id).
    rewrite next_in_none by assumption. reflexivity.
Qed.

Lemma prev_in_plug : forall c u id anc, NoDup (ids (plug c u)) -> In id (ids u) ->
  prev_in id (plug c u) anc = prev_in id u (up_left c anc).
Proof.
  induction c as [|g d b r c IH|g d b l c IH]; intros u id anc ND Hi; cbn [plug up_left] in *.
  - reflexivity.
  - assert (ND1 : NoDup (ids u ++ g :: ids r)).
    { apply nodup_plug in ND. apply nodup_app_disj in ND as (ND1 & _ & _). rewrite ids_N in ND1. assumption. }
    rewrite IH; [|assumption|rewrite ids_N; apply in_or_app; left; assumption].
    cbn [prev_in].
    assert (Ng : g <> id) by nd_neq ND1.
    replace (g =? id) with false by (symmetry; apply Z.eqb_neq; assumption).
    assert (Nr : ~ In id (ids r)) by (intros Hr; nd_absurd ND1 id).
    rewrite prev_in_none by assumption. reflexivity.
  - assert (ND1 : NoDup (ids l ++ g :: ids u)).
    { apply nodup_plug in ND. apply nodup_app_disj in ND as (ND1 & _ & _). rewrite ids_N in ND1. assumption. }
    rewrite IH; [|assumption|rewrite ids_N; apply in_or_app; right; right; assumption].
    cbn [prev_in].
    assert (Ng : g <> id) by nd_neq ND1.
    replace (g =? id) with false by (symmetry; apply Z.eqb_neq; assumption).
    destruct (prev_in id u (Some g)) eqn:X; [reflexivity|].
    exfalso. eapply prev_in_some; eassumption.
Qed.

Lemma tnext_plug : forall c i d b l r, NoDup (ids (plug c (N i d b l r))) ->
  tnext i (plug c (N i d b l r)) = match r with E => up_right c None | _ => leftmost r end.
Proof.
  intros. unfold tnext.
  rewrite next_in_plug; [|assumption|rewrite ids_N; apply in_or_app; right; left; reflexivity].
  cbn [next_in]. rewrite Z.eqb_refl. reflexivity.
Qed.

Lemma tprev_plug : forall c i d b l r, NoDup (ids (plug c (N i d b l r))) ->
  tprev i (plug c (N i d b l r)) = match l with E => up_left c None | _ => rightmost l end.
Proof.
  intros. unfold tprev.
  rewrite prev_in_plug; [|assumption|rewrite ids_N; apply in_or_app; right; left; reflexivity].
  cbn [prev_in]. rewrite Z.eqb_refl. reflexivity.
Qed.

(* ------------------------------------------------------------------ next: the climbing loops *)
Lemma nodup_frame : forall (i g : Z) (s rest : list Z), NoDup (i :: g :: s ++ rest) -> NoDup (g :: rest).
Proof.
  intros i g s rest H. inversion H as [|? ? _ H1]. subst. inversion H1 as [|? ? Ng H2]. subst.
  destruct (NoDup_app_inv _ _ _ H2) as [_ H3]. constructor; [|assumption].
  intros X. apply Ng. apply in_or_app. right. assumption.
Qed.

Lemma h_climb_right_ctx : forall c h i fuel, repc h c (Some i) -> parent h i = ctx_id c ->
  NoDup (i :: cids c) -> (clen c < fuel)%nat -> h_climb_right fuel h i = At (up_right c None).
Proof.
  induction c as [|g d b r c IH|g d b l c IH]; intros h i fuel R P ND Hf;
    (destruct fuel as [|f]; [lia|]); cbn [h_climb_right up_right]; rewrite P;
    cbn [ctx_id clen repc cids] in *.
  - reflexivity.
  - destruct R as (R1 & R2 & R3). unfold right. rewrite R1. cbn [nright].
    rewrite ptr_is_false; [reflexivity|].
    intros X. apply root_id_in in X. nd_absurd ND i.
  - destruct R as (R1 & R2 & R3). unfold right. rewrite R1. cbn [nright]. rewrite ptr_is_refl.
    apply IH; [assumption|unfold parent; rewrite R1; reflexivity| |lia].
    eapply nodup_frame. eassumption.
Qed.

Lemma h_climb_left_ctx : forall c h i fuel, repc h c (Some i) -> parent h i = ctx_id c ->
  NoDup (i :: cids c) -> (clen c < fuel)%nat -> h_climb_left fuel h i = At (up_left c None).
Proof.
  induction c as [|g d b r c IH|g d b l c IH]; intros h i fuel R P ND Hf;
    (destruct fuel as [|f]; [lia|]); cbn [h_climb_left up_left]; rewrite P;
    cbn [ctx_id clen repc cids] in *.
  - reflexivity.
  - destruct R as (R1 & R2 & R3). unfold left. rewrite R1. cbn [nleft]. rewrite ptr_is_refl.
    apply IH; [assumption|unfold parent; rewrite R1; reflexivity| |lia].
    eapply nodup_frame. eassumption.
  - destruct R as (R1 & R2 & R3). unfold left. rewrite R1. cbn [nleft].
    rewrite ptr_is_false; [reflexivity|].
    intros X. apply root_id_in in X. nd_absurd ND i.
Qed.

(* ------------------------------------------------------------------ walks *)
Lemma h_walk_sim : forall (L : list Z) step fstep,
  (forall i, In i L -> step i = At (fstep i)) ->
  (forall i j, In i L -> fstep i = Some j -> In j L) ->
  forall n cur, (forall i, cur = Some i -> In i L) ->
  h_walk step n (At cur) = Some (walk fstep n cur).
Proof.
  intros L step fstep Hs Hc. induction n as [|n IH]; intros cur Hcur.
  - destruct cur; reflexivity.
  - destruct cur as [i|]; [|reflexivity]. cbn [h_walk walk].
    rewrite Hs by (apply Hcur; reflexivity). rewrite IH; [reflexivity|].
    intros j Ej. eapply Hc; [apply Hcur; reflexivity|eassumption].
Qed.

(* ------------------------------------------------------------------ find *)
Lemma h_find_rep : forall rank x t h par fuel, rep h t par -> (heightn t <= fuel)%nat ->
  h_find rank fuel h x (root_id t) = Some (option_map fst (fst (find rank x t)), snd (find rank x t)) /\
  (forall i d, fst (find rank x t) = Some (i, d) -> data_of h i = d).
Proof.
  intros rank x. induction t as [|i d b l IHl r IHr]; intros h par fuel R Hf.
  - cbn [root_id find fst snd option_map]. destruct fuel; cbn [h_find]; (split; [reflexivity|intros; discriminate]).
  - cbn [root_id heightn rep] in *. destruct fuel as [|f]; [lia|]. destruct R as (R1 & R2 & R3).
    cbn [h_find find].
    assert (D : data_of h i = d) by (unfold data_of; rewrite R1; reflexivity). rewrite D.
    destruct (rank x ?= rank d) eqn:C.
    + cbn [fst snd option_map]. split; [reflexivity|]. intros i' d' E'. inversion E'. subst i' d'. exact D.
    + unfold left. rewrite R1. cbn [nleft].
      assert (Hl : (heightn l <= f)%nat) by lia.
      destruct (IHl h (Some i) f R2 Hl) as [A B]. rewrite A.
      destruct (find rank x l) as [res lg]. cbn [fst snd] in *. split; [reflexivity|assumption].
    + unfold right. rewrite R1. cbn [nright].
      assert (Hr : (heightn r <= f)%nat) by lia.
      destruct (IHr h (Some i) f R3 Hr) as [A B]. rewrite A.
      destruct (find rank x r) as [res lg]. cbn [fst snd] in *. split; [reflexivity|assumption].
Qed.

(* ------------------------------------------------------------------ climbing to the root *)
(* frame nodes of a context, innermost first *)
Fixpoint cframes (c : ctx) : list Z :=
  match c with
  | Top => []
  | CL g _ _ _ c' => g :: cframes c'
  | CR g _ _ _ c' => g :: cframes c'
  end.

Lemma path_to_none : forall id t, ~ In id (ids t) -> path_to id t = None.
Proof.
  intros id. induction t as [|i d b l IHl r IHr]; intros H; [reflexivity|].
  rewrite ids_N in H. rewrite in_app_iff in H. cbn [In] in H. cbn [path_to].
  destruct (i =? id) eqn:C; [exfalso; apply H; right; left; lia|].
  rewrite IHl by (intros H1; apply H; left; assumption).
  rewrite IHr by (intros H1; apply H; right; right; assumption). reflexivity.
Qed.

Lemma path_to_plug : forall c u id p, NoDup (ids (plug c u)) -> In id (ids u) -> path_to id u = Some p ->
  path_to id (plug c u) = Some (rev (cframes c) ++ p).
Proof.
  induction c as [|g d b r c IH|g d b l c IH]; intros u id p ND Hi Hp; cbn [plug cframes rev] in *.
  - assumption.
  - assert (ND1 : NoDup (ids u ++ g :: ids r)).
    { apply nodup_plug in ND. apply nodup_app_disj in ND as (ND1 & _ & _). rewrite ids_N in ND1. assumption. }
    rewrite (IH _ id (g :: p)); [rewrite <- app_assoc; reflexivity|assumption|rewrite ids_N; apply in_or_app; left; assumption|].
    cbn [path_to].
    assert (Ng : g <> id) by nd_neq ND1.
    replace (g =? id) with false by (symmetry; apply Z.eqb_neq; assumption).
    rewrite Hp. reflexivity.
  - assert (ND1 : NoDup (ids l ++ g :: ids u)).
    { apply nodup_plug in ND. apply nodup_app_disj in ND as (ND1 & _ & _). rewrite ids_N in ND1. assumption. }
    rewrite (IH _ id (g :: p)); [rewrite <- app_assoc; reflexivity|assumption|rewrite ids_N; apply in_or_app; right; right; assumption|].
    cbn [path_to].
    assert (Ng : g <> id) by nd_neq ND1.
    replace (g =? id) with false by (symmetry; apply Z.eqb_neq; assumption).
    assert (Nl : ~ In id (ids l)) by (intros Hl; nd_absurd ND1 id).
    rewrite path_to_none by assumption. rewrite Hp. reflexivity.
Qed.

Lemma h_path_up_ctx : forall c h i fuel acc, repc h c (Some i) -> parent h i = ctx_id c ->
  (clen c < fuel)%nat -> h_path_up fuel h i acc = Some (rev (cframes c) ++ i :: acc).
Proof.
  induction c as [|g d b r c IH|g d b l c IH]; intros h i fuel acc R P Hf;
    (destruct fuel as [|f]; [lia|]); cbn [h_path_up cframes rev]; rewrite P;
    cbn [ctx_id clen repc] in *.
  - reflexivity.
  - destruct R as (R1 & R2 & R3). rewrite <- app_assoc. cbn [app].
    apply IH; [assumption|unfold parent; rewrite R1; reflexivity|lia].
  - destruct R as (R1 & R2 & R3). rewrite <- app_assoc. cbn [app].
    apply IH; [assumption|unfold parent; rewrite R1; reflexivity|lia].
Qed.

(* ------------------------------------------------------------------ the simulation lemmas *)
Section Iter.

Lemma h_begin_sim : forall st fs, Rep st fs -> size fs = count (root fs) ->
  h_begin st = At (leftmost (root fs)).
Proof.
  intros st fs HR Hc. pose proof (Rep_fuel st fs HR Hc) as HF. destruct HR as (R & Hr & _).
  unfold h_begin. rewrite Hr. destruct (root fs) as [|i d b l r]; [reflexivity|]. cbn [root_id].
  rewrite (h_leftmost_rep _ _ _ _ _ R eq_refl) by lia.
  destruct (leftmost_N_some i d b l r) as [j ->]. reflexivity.
Qed.

Lemma h_rbegin_sim : forall st fs, Rep st fs -> size fs = count (root fs) ->
  h_rbegin st = At (rightmost (root fs)).
Proof.
  intros st fs HR Hc. pose proof (Rep_fuel st fs HR Hc) as HF. destruct HR as (R & Hr & _).
  unfold h_rbegin. rewrite Hr. destruct (root fs) as [|i d b l r]; [reflexivity|]. cbn [root_id].
  rewrite (h_rightmost_rep _ _ _ _ _ R eq_refl) by lia.
  destruct (rightmost_N_some i d b l r) as [j ->]. reflexivity.
Qed.

Lemma h_iter_next_sim : forall st fs i, Rep st fs -> size fs = count (root fs) -> NoDup (ids (root fs)) ->
  In i (ids (root fs)) -> h_iter_next st i = At (tnext i (root fs)).
Proof.
  intros st fs i HR Hc ND Hi.
  destruct (Rep_split st fs i HR Hc ND Hi) as (c & d & b & l & r & T & G & Rl & Rr & RC & NDc & Fc & Fl & Fr).
  rewrite T in *. rewrite tnext_plug by assumption.
  unfold h_iter_next. unfold right at 1. rewrite G. cbn [nright].
  destruct r as [|ri rd rb rl rr]; cbn [root_id].
  - apply h_climb_right_ctx; try assumption. unfold parent. rewrite G. reflexivity.
  - rewrite (h_leftmost_rep _ _ _ _ _ Rr eq_refl) by lia.
    destruct (leftmost_N_some ri rd rb rl rr) as [j ->]. reflexivity.
Qed.

Lemma h_iter_prev_sim : forall st fs i, Rep st fs -> size fs = count (root fs) -> NoDup (ids (root fs)) ->
  In i (ids (root fs)) -> h_iter_prev st i = At (tprev i (root fs)).
Proof.
  intros st fs i HR Hc ND Hi.
  destruct (Rep_split st fs i HR Hc ND Hi) as (c & d & b & l & r & T & G & Rl & Rr & RC & NDc & Fc & Fl & Fr).
  rewrite T in *. rewrite tprev_plug by assumption.
  unfold h_iter_prev. unfold left at 1. rewrite G. cbn [nleft].
  destruct l as [|li ld lb ll lr]; cbn [root_id].
  - apply h_climb_left_ctx; try assumption. unfold parent. rewrite G. reflexivity.
  - rewrite (h_rightmost_rep _ _ _ _ _ Rl eq_refl) by lia.
    destruct (rightmost_N_some li ld lb ll lr) as [j ->]. reflexivity.
Qed.

Lemma h_walk_fwd_sim : forall st fs, Rep st fs -> size fs = count (root fs) -> NoDup (ids (root fs)) ->
  h_walk_fwd st = Some (walk_fwd (root fs)).
Proof.
  intros st fs HR Hc ND. unfold h_walk_fwd, walk_fwd.
  rewrite (h_begin_sim st fs HR Hc).
  assert (Hs : hsize st = count (root fs)) by (destruct HR as (_ & _ & Hs & _); rewrite Hs; assumption).
  rewrite Hs. apply (h_walk_sim (ids (root fs))).
  - intros i Hi. apply h_iter_next_sim; assumption.
  - intros i j Hi Ej. eapply tnext_in; eassumption.
  - intros i Ei. apply leftmost_in. assumption.
Qed.

Lemma h_walk_bwd_sim : forall st fs, Rep st fs -> size fs = count (root fs) -> NoDup (ids (root fs)) ->
  h_walk_bwd st = Some (walk_bwd (root fs)).
Proof.
  intros st fs HR Hc ND. unfold h_walk_bwd, walk_bwd.
  rewrite (h_rbegin_sim st fs HR Hc).
  assert (Hs : hsize st = count (root fs)) by (destruct HR as (_ & _ & Hs & _); rewrite Hs; assumption).
  rewrite Hs. apply (h_walk_sim (ids (root fs))).
  - intros i Hi. apply h_iter_prev_sim; assumption.
  - intros i j Hi Ej. eapply tprev_in; eassumption.
  - intros i Ei. apply rightmost_in. assumption.
Qed.

Lemma h_tfind_sim : forall rank x st fs, Rep st fs -> size fs = count (root fs) ->
  h_tfind rank x st = Some (tfind rank x fs).
Proof.
  intros rank x st fs HR Hc. pose proof (Rep_fuel st fs HR Hc) as HF. destruct HR as (R & Hr & _).
  unfold h_tfind, tfind. rewrite Hr.
  assert (HF' : (heightn (root fs) <= fuel_of st)%nat) by lia.
  destruct (h_find_rep rank x (root fs) (hp st) None (fuel_of st) R HF') as [A B]. rewrite A.
  destruct (find rank x (root fs)) as [res lg]. cbn [fst snd] in *.
  destruct res as [[i d]|]; cbn [option_map fst].
  - rewrite (B i d eq_refl). reflexivity.
  - reflexivity.
Qed.

Lemma h_path_up_sim : forall st fs i, Rep st fs -> size fs = count (root fs) -> NoDup (ids (root fs)) ->
  In i (ids (root fs)) -> h_path_up (fuel_of st) (hp st) i [] = path_to i (root fs).
Proof.
  intros st fs i HR Hc ND Hi.
  destruct (Rep_split st fs i HR Hc ND Hi) as (c & d & b & l & r & T & G & Rl & Rr & RC & NDc & Fc & Fl & Fr).
  rewrite T in *.
  rewrite (path_to_plug c (N i d b l r) i [i]);
    [|assumption|rewrite ids_N; apply in_or_app; right; left; reflexivity|cbn [path_to]; rewrite Z.eqb_refl; reflexivity].
  apply h_path_up_ctx; try assumption. unfold parent. rewrite G. reflexivity.
Qed.

End Iter.
