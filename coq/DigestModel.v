(* C13: model of /repo/src/digest.c, statement for statement.  Definitions only.

   Memory is a function [mem : Z -> Z] from addresses to byte values; a buffer is an address
   [buf] and a length [len], exactly what the C functions receive.  Every read the C code performs
   is a call of [mem] at the same address expression.  uint32_t/uint64_t/size_t arithmetic is Z with
   the wrap written out ([mod 2^32], [mod 2^64]); size_t is 64 bits and the byte order is
   little-endian (checked by harness/drv_c13.c with _Static_assert / a run-time probe). *)
From Coq Require Import ZArith List Bool.
Import ListNotations.
Local Open Scope Z_scope.

Definition W32 : Z := 2 ^ 32.
Definition W64 : Z := 2 ^ 64.

(* ---------------------------------------------------------------- 64-bit: fasthash64 *)

(* static inline uint64_t mix64(uint64_t h) *)
Definition mix64 (h : Z) : Z :=
  let h := Z.lxor h (Z.shiftr h 23) in              (* h ^= h >> 23U;                *)
  let h := (h * 0x2127599BF4325C37) mod W64 in      (* h *= 0x2127599BF4325C37ULL;   *)
  let h := Z.lxor h (Z.shiftr h 47) in              (* h ^= h >> 47U;                *)
  h.

Definition m64 : Z := 0x880355F21E6D1965.

(* uint64_t k = 0U; memcpy(&k, data, sizeof(uint64_t));   (little-endian object representation) *)
Definition load64 (mem : Z -> Z) (p : Z) : Z :=
  mem p + 2 ^ 8 * mem (p + 1) + 2 ^ 16 * mem (p + 2) + 2 ^ 24 * mem (p + 3)
  + 2 ^ 32 * mem (p + 4) + 2 ^ 40 * mem (p + 5) + 2 ^ 48 * mem (p + 6) + 2 ^ 56 * mem (p + 7).

(* for (; data != blocks_end; data += sizeof(uint64_t)) { k <- memcpy; h ^= mix64(k); h *= m; } *)
Fixpoint blocks64 (fuel : nat) (mem : Z -> Z) (data blocks_end h : Z) : Z :=
  match fuel with
  | O => h
  | S fuel' =>
    if data =? blocks_end then h
    else
      let k := load64 mem data in
      let h := Z.lxor h (mix64 k) in
      let h := (h * m64) mod W64 in
      blocks64 fuel' mem (data + 8) blocks_end h
  end.

(* switch (len & 7U) { case 7: v |= (uint64_t)tail[6] << 48U; FALLTHROUGH ... case 1: v |= tail[0];
   h ^= mix64(v); h *= m; }   With fall-through, the statement under `case c` runs iff the selector
   r satisfies 1 <= c <= r; no case matches r = 0. *)
Definition tail64 (mem : Z -> Z) (tail r h : Z) : Z :=
  let v := 0 in
  let v := if 7 <=? r then Z.lor v (Z.shiftl (mem (tail + 6)) 48) else v in
  let v := if 6 <=? r then Z.lor v (Z.shiftl (mem (tail + 5)) 40) else v in
  let v := if 5 <=? r then Z.lor v (Z.shiftl (mem (tail + 4)) 32) else v in
  let v := if 4 <=? r then Z.lor v (Z.shiftl (mem (tail + 3)) 24) else v in
  let v := if 3 <=? r then Z.lor v (Z.shiftl (mem (tail + 2)) 16) else v in
  let v := if 2 <=? r then Z.lor v (Z.shiftl (mem (tail + 1)) 8) else v in
  if 1 <=? r then
    let v := Z.lor v (mem tail) in
    let h := Z.lxor h (mix64 v) in
    (h * m64) mod W64
  else h.

(* uint64_t zix_digest64(const uint64_t seed, const void* const buf, const size_t len) *)
Definition digest64_at (mem : Z -> Z) (seed buf len : Z) : Z :=
  let n_blocks := len / 8 in
  let data := buf in
  let blocks_end := data + n_blocks * 8 in
  let h := Z.lxor seed ((len * m64) mod W64) in
  let h := blocks64 (Z.to_nat n_blocks) mem data blocks_end h in
  let tail := blocks_end in
  let h := tail64 mem tail (Z.land len 7) h in
  mix64 h.

(* for (size_t i = 0U; i < n_blocks; ++i) { h ^= mix64(blocks[i]); h *= m; }
   [blocks] is the buffer seen as an array of uint64_t objects: a list of words. *)
Fixpoint ablocks64 (fuel : nat) (blocks : list Z) (i n_blocks h : Z) : Z :=
  match fuel with
  | O => h
  | S fuel' =>
    if i <? n_blocks then
      let h := Z.lxor h (mix64 (nth (Z.to_nat i) blocks 0)) in
      let h := (h * m64) mod W64 in
      ablocks64 fuel' blocks (i + 1) n_blocks h
    else h
  end.

(* uint64_t zix_digest64_aligned(seed, buf, len): len = 8 * number of words (the asserted precondition) *)
Definition digest64_aligned (seed : Z) (blocks : list Z) : Z :=
  let len := 8 * Z.of_nat (length blocks) in
  let n_blocks := len / 8 in
  let h := Z.lxor seed ((len * m64) mod W64) in
  let h := ablocks64 (Z.to_nat n_blocks) blocks 0 n_blocks h in
  mix64 h.

(* ---------------------------------------------------------------- 32-bit: murmur3 *)

(* return ((val << bits) | (val >> (32U - bits)));   on uint32_t *)
Definition rotl32 (val bits : Z) : Z :=
  Z.lor ((Z.shiftl val bits) mod W32) (Z.shiftr val (32 - bits)).

Definition mix32 (h : Z) : Z :=
  let h := Z.lxor h (Z.shiftr h 16) in       (* h ^= h >> 16U;   *)
  let h := (h * 0x85EBCA6B) mod W32 in       (* h *= 0x85EBCA6BU; *)
  let h := Z.lxor h (Z.shiftr h 13) in       (* h ^= h >> 13U;   *)
  let h := (h * 0xC2B2AE35) mod W32 in       (* h *= 0xC2B2AE35U; *)
  let h := Z.lxor h (Z.shiftr h 16) in       (* h ^= h >> 16U;   *)
  h.

Definition c1_32 : Z := 0xCC9E2D51.
Definition c2_32 : Z := 0x1B873593.

(* k *= c1; k = rotl32(k, 15); k *= c2; *)
Definition kmix32 (k : Z) : Z :=
  let k := (k * c1_32) mod W32 in
  let k := rotl32 k 15 in
  let k := (k * c2_32) mod W32 in
  k.

Definition load32 (mem : Z -> Z) (p : Z) : Z :=
  mem p + 2 ^ 8 * mem (p + 1) + 2 ^ 16 * mem (p + 2) + 2 ^ 24 * mem (p + 3).

(* the block loop of zix_digest32; returns the final data pointer too (the tail is read through it) *)
Fixpoint blocks32 (fuel : nat) (mem : Z -> Z) (data blocks_end h : Z) : Z * Z :=
  match fuel with
  | O => (data, h)
  | S fuel' =>
    if data =? blocks_end then (data, h)
    else
      let k := load32 mem data in
      let k := kmix32 k in
      let h := Z.lxor h k in
      let h := rotl32 h 13 in
      let h := (h * 5 + 0xE6546B64) mod W32 in
      blocks32 fuel' mem (data + 4) blocks_end h
  end.

(* switch (len & 3U) { case 3U: k ^= data[2] << 16; ... case 1U: k ^= data[0]; k *= c1; ...; h ^= k; } *)
Definition tail32 (mem : Z -> Z) (data r h : Z) : Z :=
  let k := 0 in
  let k := if 3 <=? r then Z.lxor k (Z.shiftl (mem (data + 2)) 16) else k in
  let k := if 2 <=? r then Z.lxor k (Z.shiftl (mem (data + 1)) 8) else k in
  if 1 <=? r then
    let k := Z.lxor k (mem data) in
    let k := kmix32 k in
    Z.lxor h k
  else h.

(* uint32_t zix_digest32(const uint32_t seed, const void* const buf, const size_t len) *)
Definition digest32_at (mem : Z -> Z) (seed buf len : Z) : Z :=
  let n_blocks := len / 4 in
  let data := buf in
  let blocks_end := data + n_blocks * 4 in
  let h := seed in
  let '(data, h) := blocks32 (Z.to_nat n_blocks) mem data blocks_end h in
  let h := tail32 mem data (Z.land len 3) h in
  mix32 (Z.lxor h (len mod W32)).               (* mix32(h ^ (uint32_t)len) *)

Fixpoint ablocks32 (fuel : nat) (blocks : list Z) (i n_blocks h : Z) : Z :=
  match fuel with
  | O => h
  | S fuel' =>
    if i <? n_blocks then
      let k := nth (Z.to_nat i) blocks 0 in
      let k := kmix32 k in
      let h := Z.lxor h k in
      let h := rotl32 h 13 in
      let h := (h * 5 + 0xE6546B64) mod W32 in
      ablocks32 fuel' blocks (i + 1) n_blocks h
    else h
  end.

Definition digest32_aligned (seed : Z) (blocks : list Z) : Z :=
  let len := 4 * Z.of_nat (length blocks) in
  let n_blocks := len / 4 in
  let h := seed in
  let h := ablocks32 (Z.to_nat n_blocks) blocks 0 n_blocks h in
  mix32 (Z.lxor h (len mod W32)).

(* ---------------------------------------------------------------- byte-list view *)

(* a byte list placed at address [base]; reads elsewhere see [junk] *)
Definition mem_of (junk base : Z) (bytes : list Z) : Z -> Z :=
  fun a => if andb (base <=? a) (a <? base + Z.of_nat (length bytes))
           then nth (Z.to_nat (a - base)) bytes junk else junk.

Definition digest64 (seed : Z) (bytes : list Z) : Z :=
  digest64_at (mem_of 0 0 bytes) seed 0 (Z.of_nat (length bytes)).

Definition digest32 (seed : Z) (bytes : list Z) : Z :=
  digest32_at (mem_of 0 0 bytes) seed 0 (Z.of_nat (length bytes)).

(* the bytes a buffer denotes *)
Definition read (mem : Z -> Z) (buf : Z) (len : nat) : list Z :=
  map (fun i => mem (buf + Z.of_nat i)) (seq 0 len).

(* the uint{8w}_t objects of an aligned buffer, little-endian *)
Fixpoint le_value (bs : list Z) : Z :=
  match bs with [] => 0 | b :: r => b + 256 * le_value r end.

Fixpoint words_of_bytes (w : nat) (n : nat) (bytes : list Z) : list Z :=
  match n with
  | O => []
  | S n' => le_value (firstn w bytes) :: words_of_bytes w n' (skipn w bytes)
  end.

Fixpoint bytes_of_word (w : nat) (x : Z) : list Z :=
  match w with O => [] | S w' => x mod 256 :: bytes_of_word w' (x / 256) end.

Definition bytes_le (w : nat) (ws : list Z) : list Z := flat_map (bytes_of_word w) ws.

(* ---------------------------------------------------------------- native word size (64-bit platform) *)
(* #if UINTPTR_MAX >= UINT64_MAX  return zix_digest64(seed, buf, len); *)
Definition digest_at := digest64_at.
Definition digest (seed : Z) (bytes : list Z) : Z := digest64 seed bytes.
Definition digest_aligned (seed : Z) (blocks : list Z) : Z := digest64_aligned seed blocks.
