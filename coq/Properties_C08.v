(* C08 — all memory goes through the caller's allocator and is released exactly once, through the
   matching entry.  `log_ok l keep` (FaultSpec) holds iff in the event log l every request and every
   release is addressed to the caller's allocator, no block is released twice or through the entry of
   the other kind, and exactly the blocks `keep` are outstanding at the end.
   Here: the fixed-pattern functions and the AVL tree, for every oracle (success and every failure
   path alike).  B-tree pages and hash arrays: Properties_C01 / C03 (counting invariants). *)
From Coq Require Import ZArith List Bool.
From Zix Require Import FaultSpec AllocModel AllocProofs.
Import ListNotations.

(* soundness of the checker used on implementation traces: log_ok = no protocol error, and the
   live set computed by log_run is exactly what remains *)
Theorem log_ok_sound :
  forall l, log_ok l [] = true -> log_run [] l = Some [].
Proof.
  intros l. unfold log_ok. destruct (log_run [] l) as [[|b live]|]; cbn; try discriminate; reflexivity.
Qed.
Print Assumptions log_ok_sound.

(* an event addressed to the default allocator is a protocol error, whatever follows *)
Theorem default_allocator_event_rejected :
  forall live k id l, log_run live (EFree Default k id :: l) = None /\ log_run live (EAlloc Default k id :: l) = None.
Proof. intros; split; reflexivity. Qed.
Print Assumptions default_allocator_event_rejected.

(* aligned_free of a plain block (or free of an aligned one) is a protocol error *)
Theorem mismatched_release_rejected :
  forall id l, log_run [(id, Plain)] (EFree Caller Aligned id :: l) = None /\
               log_run [(id, Aligned)] (EFree Caller Plain id :: l) = None.
Proof. intros; split; cbn; rewrite Nat.eqb_refl; reflexivity. Qed.
Print Assumptions mismatched_release_rejected.

Theorem double_free_rejected :
  forall id k l, log_run [] (EAlloc Caller k id :: EFree Caller k id :: EFree Caller k id :: l) = None.
Proof. intros id k l. cbn. destruct k; cbn; rewrite ?Nat.eqb_refl; cbn; rewrite ?Nat.eqb_refl; reflexivity. Qed.
Print Assumptions double_free_rejected.

Theorem ring_blocks : forall o,
  match ring_new (ast0 o) with
  | (Some rb, s) => log_ok (log s) [fst rb; snd rb] = true /\ log_ok (log (ring_free rb s)) [] = true
  | (None, s) => log_ok (log s) [] = true /\ (hd true o = false \/ hd true (tl o) = false)
  end.
Proof. exact ring_new_spec. Qed.
Print Assumptions ring_blocks.

(* the returned string is the only thing outstanding and the caller can release it with the same allocator *)
Theorem returned_string_only : forall o,
  match one_block (ast0 o) with
  | (Some id, s) => log_ok (log s) [id] = true /\ log_ok (log (caller_free (Some id) s)) [] = true
  | (None, s) => log s = [] /\ hd true o = false
  end.
Proof. exact one_block_spec. Qed.
Print Assumptions returned_string_only.

Theorem expand_chain_blocks : forall n o,
  let '(r, s) := realloc_chain n None (ast0 o) in
  match r with
  | Some b => log_ok (log s) [b] = true /\ log_ok (log (caller_free (Some b) s)) [] = true
  | None => log_ok (log s) [] = true
  end.
Proof. exact realloc_chain_spec. Qed.
Print Assumptions expand_chain_blocks.

(* copy_file's block (platform fall-back path: the non-kernel copy loop) and file_equals' pages:
   aligned_alloc'd from the caller, released with aligned_free to the caller, on every path *)
Theorem copy_file_block_matched : forall o, log_ok (log (copy_file_block (ast0 o))) [] = true.
Proof. exact copy_file_block_spec. Qed.
Print Assumptions copy_file_block_matched.

Theorem file_equals_blocks_matched : forall o, log_ok (log (file_equals_blocks (ast0 o))) [] = true.
Proof. exact file_equals_blocks_spec. Qed.
Print Assumptions file_equals_blocks_matched.

Theorem create_directories_blocks : forall o,
  let '(ok, s) := create_directories (ast0 o) in log_ok (log s) [] = true /\ (ok = false <-> hd true o = false).
Proof. exact create_directories_spec. Qed.
Print Assumptions create_directories_blocks.

(* ZixTree: outstanding = 1 + elements throughout; nothing after free — every history, every oracle *)
Theorem tree_blocks : forall o ops, log_ok (tree_life o ops) [] = true.
Proof. exact tree_life_ok. Qed.
Print Assumptions tree_blocks.

(* the default allocator (src/allocator.c, used when the caller passes NULL): every entry forwards to libc with one
   call carrying the same arguments; aligned_alloc is posix_memalign and aligned_free is free (the matching release
   on POSIX), so a balanced request sequence is a balanced libc call sequence *)
Theorem default_allocator_forwards :
  forall rs, length (default_trace rs) = length rs /\
    (forall i r, nth_error rs i = Some r -> nth_error (default_trace rs) i = Some (default_call r)) /\
    length (filter call_allocs (default_trace rs)) = length (filter req_allocs rs) /\
    length (filter call_frees (default_trace rs)) = length (filter req_frees rs).
Proof.
  intros rs. split; [apply default_trace_length|]. split; [|apply default_trace_balance].
  intros i r H. unfold default_trace. now rewrite nth_error_map, H.
Qed.
Print Assumptions default_allocator_forwards.

Theorem default_aligned_pairing :
  forall al n b, default_call (DAlignedAlloc al n) = LPosixMemalign al n /\ default_call (DAlignedFree b) = LFree b.
Proof. intros; split; reflexivity. Qed.
Print Assumptions default_aligned_pairing.
