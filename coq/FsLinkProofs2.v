(* C15 — lemmas, links part 2: zix_create_directories over the file system with symbolic links refines the
   component-wise "mkdir -p" of FsLinkSpec.v; the model of FsModel.v is the same loop on the link-free file system. *)
From Coq Require Import ZArith List Bool Lia.
From Zix Require Import CopySpec CopyModel FsSpec FsModel FsProofs2 FsProofs3 FsLinkSpec FsLinkModel
                        FsLinkProofs FsLinkProofs3.
Import ListNotations.
Local Open Scope Z_scope.

(* ---------------------------------------------------------------- one loop, two file systems *)
Lemma mkdirs_loop_is_generic : forall cwd s fuel fs p tr,
  mkdirs_loop fuel fs cwd s p tr =
  g_mkdirs_loop fsT (fun fs q => file_type fs cwd q) (fun fs q => mkdir_path fs cwd q) fuel fs s p tr.
Proof.
  intros cwd s. induction fuel as [|f IH]; intros fs p tr; [reflexivity|].
  cbn [mkdirs_loop g_mkdirs_loop].
  assert (Hcd : forall q, create_directory fs cwd q =
                          g_create_directory fsT (fun fs q => mkdir_path fs cwd q) fs q).
  { intros [|c q]; reflexivity. }
  destruct (p_st p); try reflexivity;
    (destruct (file_type fs cwd (firstn (p_e p) s)); try apply IH;
     rewrite <- Hcd; destruct (create_directory fs cwd (firstn (p_e p) s)) as [[st fs'] ev];
     destruct (is_success st); solve [apply IH|reflexivity]).
Qed.

Lemma create_directories_is_generic_l : forall a fs cwd s,
  create_directories a fs cwd s =
  g_create_directories fsT (fun fs q => file_type fs cwd q) (fun fs q => mkdir_path fs cwd q) a fs s.
Proof.
  intros a fs cwd s. unfold create_directories, g_create_directories.
  destruct s; [reflexivity|]. destruct (negb a); [reflexivity|]. apply mkdirs_loop_is_generic.
Qed.

(* ---------------------------------------------------------------- stat and mkdir on a chopped prefix *)
Definition ftl (perms : loc -> Z) (B : nat) (cwd : loc) : lfs -> list Z -> ftype :=
  fun fs p => file_type_l perms B fs cwd p.
Definition mkl (B : nat) (cwd : loc) : lfs -> list Z -> Z * lfs := fun fs p => mkdir_l B fs cwd p.

Definition lstatus_of (r : lmkres) : status := match r with LOk _ _ => SUCCESS | LBlocked => EXISTS end.

Lemma match_not_dir : forall (A : Type) (t : ftype) (x y : A), t <> FT_DIRECTORY ->
  match t with FT_DIRECTORY => x | _ => y end = y.
Proof. intros A t x y H. destruct t; try reflexivity. contradiction H. reflexivity. Qed.

Lemma lstart_start : forall s cwd, lstart s cwd = start s cwd. Proof. reflexivity. Qed.

Lemma stat_l_nonempty : forall B fs cwd P, P <> [] -> stat_l B fs cwd P = lwalk B fs (lstart P cwd) (pcomps P).
Proof. intros B fs cwd [|c P] H; [contradiction H; reflexivity|reflexivity]. Qed.

Lemma mkdir_l_nonempty : forall B fs cwd P, P <> [] ->
  mkdir_l B fs cwd P =
  match rev (components P) with
  | [] => (EEXIST, fs)
  | lastc :: rparents =>
    match lwalk B fs (lstart P cwd) (rev rparents) with
    | RErr e => (e, fs)
    | RAt l NDir _ =>
      if is_dot lastc || is_dotdot lastc then (EEXIST, fs)
      else match llookup fs (l ++ [lastc]) with
           | Some _ => (EEXIST, fs)
           | None => (0, fs ++ [(l ++ [lastc], NDir)])
           end
    | RAt _ _ _ => (ENOTDIR, fs)
    end
  end.
Proof. intros B fs cwd [|c P] H; [contradiction H; reflexivity|reflexivity]. Qed.

Lemma ftl_directory : forall perms B cwd fs P,
  ftl perms B cwd fs P = FT_DIRECTORY <-> exists l b, stat_l B fs cwd P = RAt l NDir b.
Proof. intros. unfold ftl, file_type_l. apply type_of_res_directory. Qed.

Lemma body_step_l : forall perms B s cwd fs l b P pre0 nm rest,
  P <> [] -> absolute P = absolute s -> components P = components pre0 ++ [nm] ->
  trailing_slash P = false -> lwalk B fs (lstart s cwd) (components pre0) = RAt l NDir b ->
  (exists l' b', ftl perms B cwd fs P = FT_DIRECTORY /\
                 lwalk B fs (lstart s cwd) (components P) = RAt l' NDir b' /\
                 lmkdirs_walk fs l b (nm :: rest) = lmkdirs_walk fs l' b' rest)
  \/ (ftl perms B cwd fs P <> FT_DIRECTORY /\
      (exists ev, g_create_directory lfs (mkl B cwd) fs P = (EXISTS, fs, ev)) /\
      lmkdirs_walk fs l b (nm :: rest) = (LBlocked, fs))
  \/ (exists fs' l', ftl perms B cwd fs P <> FT_DIRECTORY /\
      (exists ev, g_create_directory lfs (mkl B cwd) fs P = (SUCCESS, fs', ev)) /\
      lwalk B fs' (lstart s cwd) (components P) = RAt l' NDir b /\
      lmkdirs_walk fs l b (nm :: rest) = lmkdirs_walk fs' l' b rest).
Proof.
  intros perms B s cwd fs l b P pre0 nm rest Hne Habs HcP Hts Hw.
  assert (Hst : lstart P cwd = lstart s cwd) by (unfold lstart; rewrite Habs; reflexivity).
  assert (Hwalk : forall fsx, lwalk B fsx (lstart s cwd) (components pre0) = RAt l NDir b ->
                  lwalk B fsx (lstart s cwd) (components P) = lwalk b fsx l [nm]).
  { intros fsx Hx. rewrite HcP, lwalk_app, Hx. reflexivity. }
  assert (Hstat : stat_l B fs cwd P = lwalk b fs l [nm]).
  { rewrite stat_l_nonempty by exact Hne. unfold pcomps. rewrite Hts, app_nil_r, Hst. apply Hwalk. exact Hw. }
  assert (Hmk : mkdir_l B fs cwd P =
                if is_dot nm || is_dotdot nm then (EEXIST, fs)
                else match llookup fs (l ++ [nm]) with
                     | Some _ => (EEXIST, fs)
                     | None => (0, fs ++ [(l ++ [nm], NDir)])
                     end).
  { rewrite mkdir_l_nonempty by exact Hne. rewrite HcP, rev_app_distr. cbn [rev app].
    rewrite rev_involutive, Hst, Hw. reflexivity. }
  assert (Hcd : forall e fs', mkdir_l B fs cwd P = (e, fs') ->
                exists ev, g_create_directory lfs (mkl B cwd) fs P =
                           (if e =? 0 then SUCCESS else zix_errno_status e, fs', ev)).
  { intros e fs' E. unfold g_create_directory, mkl. destruct P; [contradiction Hne; reflexivity|]. rewrite E. eauto. }
  assert (Hnd : not_dir (lwalk b fs l [nm]) -> ftl perms B cwd fs P <> FT_DIRECTORY).
  { intros N X. apply ftl_directory in X. destruct X as (l' & b' & X). rewrite Hstat in X. exact (N _ _ X). }
  cbn [lmkdirs_walk].
  destruct (is_dot nm) eqn:D1.
  - left. exists l, b. split; [apply ftl_directory; rewrite Hstat, lwalk_one_dot by exact D1; eauto|].
    split; [rewrite Hwalk by exact Hw; apply lwalk_one_dot; exact D1|reflexivity].
  - destruct (is_dotdot nm) eqn:D2.
    + left. exists (removelast l), b.
      split; [apply ftl_directory; rewrite Hstat, lwalk_one_dotdot by assumption; eauto|].
      split; [rewrite Hwalk by exact Hw; apply lwalk_one_dotdot; assumption|reflexivity].
    + cbn [orb] in Hmk. destruct (llookup fs (l ++ [nm])) as [n0|] eqn:L.
      * destruct (lwalk b fs l [nm]) as [e|l1 n1 b1] eqn:W.
        { right; left. split; [apply Hnd; intros l' b'; discriminate|].
          split; [destruct (Hcd _ _ Hmk) as [ev E]; exists ev; exact E|reflexivity]. }
        destruct n1;
          try (right; left; split; [apply Hnd; intros l' b'; discriminate|];
               split; [destruct (Hcd _ _ Hmk) as [ev E]; exists ev; exact E|reflexivity]).
        left. exists l1, b1. split; [apply ftl_directory; rewrite Hstat; eauto|].
        split; [rewrite Hwalk by exact Hw; exact W|reflexivity].
      * right; right. exists (fs ++ [(l ++ [nm], NDir)]), (l ++ [nm]).
        split; [apply Hnd; rewrite (lwalk_one_none b fs l nm D1 D2 L); intros l' b'; discriminate|].
        split; [destruct (Hcd _ _ Hmk) as [ev E]; exists ev; exact E|].
        split; [|reflexivity].
        rewrite Hwalk by (eapply lwalk_extends; [apply lextends_app|exact Hw]).
        apply lwalk_one_dir; try assumption. apply llookup_app_new. exact L.
Qed.

(* ---------------------------------------------------------------- the loop *)
Lemma loop_refines_l : forall perms B s cwd, nul_free s -> forall fuel pre0 sl nm suf fs l b i tr,
  s = pre0 ++ sl ++ nm ++ suf -> all_sep sl -> name_chars nm -> at_boundary suf ->
  (nm = [] -> suf = []) -> pre0 ++ sl ++ nm <> [] -> boundary pre0 sl ->
  lwalk B fs (lstart s cwd) (components pre0) = RAt l NDir b ->
  (length suf + 1 < fuel)%nat ->
  exists tr',
    g_mkdirs_loop lfs (ftl perms B cwd) (mkl B cwd) fuel fs s (mkIt i (length (pre0 ++ sl ++ nm)) PFileName) tr =
    (lstatus_of (fst (lmkdirs_walk fs l b (split_acc nm [] ++ components suf))),
     snd (lmkdirs_walk fs l b (split_acc nm [] ++ components suf)), tr').
Proof.
  intros perms B s cwd Hnul. induction fuel as [|f IH];
    intros pre0 sl nm suf fs l b i tr Hs Hsl Hnm Hsuf Hnm0 Hne Hbd Hw Hf; [lia|].
  set (P := pre0 ++ sl ++ nm) in *.
  assert (HsP : s = P ++ suf) by (unfold P; rewrite Hs, <- !app_assoc; reflexivity).
  assert (Hpre : firstn (length P) s = P)
    by (rewrite HsP, firstn_app, firstn_all, Nat.sub_diag; cbn [firstn]; apply app_nil_r).
  assert (Habs : absolute P = absolute s) by (rewrite HsP; symmetry; apply absolute_prefix; exact Hne).
  assert (HcP : components P = components pre0 ++ split_acc nm []) by (apply components_prefix; assumption).
  cbn [g_mkdirs_loop p_st p_e]. rewrite Hpre.
  assert (Hcont : forall fsX lX bX trX, lwalk B fsX (lstart s cwd) (components P) = RAt lX NDir bX ->
            exists tr', g_mkdirs_loop lfs (ftl perms B cwd) (mkl B cwd) f fsX s
                                      (path_next s (mkIt i (length P) PFileName)) trX =
                        (lstatus_of (fst (lmkdirs_walk fsX lX bX (components suf))),
                         snd (lmkdirs_walk fsX lX bX (components suf)), tr')).
  { intros fsX lX bX trX HwX.
    destruct (next_step s P suf i PFileName Hnul HsP (fun _ => Hsuf) (or_intror eq_refl))
      as [[Hsuf0 Hnext]|(sl' & nm' & suf' & Hsuf' & Hsl' & Hnm' & Hb' & Hnm0' & Hslne & Hlen & Hnext)].
    - subst suf. rewrite Hnext. cbn [components split_acc lmkdirs_walk fst snd lstatus_of].
      destruct f as [|f']; [cbn [length] in Hf; lia|]. cbn [g_mkdirs_loop p_st]. eexists. reflexivity.
    - rewrite Hnext.
      assert (Hcs : components suf = split_acc nm' [] ++ components suf').
      { rewrite Hsuf'. rewrite app_assoc. rewrite components_boundary by exact Hb'.
        f_equal. change (sl' ++ nm') with ([] ++ sl' ++ nm').
        rewrite components_prefix; [reflexivity|exact Hsl'|exact Hnm'|left; reflexivity]. }
      rewrite Hcs.
      apply (IH P sl' nm' suf' fsX lX bX (length P + length sl')%nat trX).
      + rewrite HsP, Hsuf'. reflexivity.
      + exact Hsl'.
      + exact Hnm'.
      + exact Hb'.
      + exact Hnm0'.
      + intro X. apply app_eq_nil in X. destruct X as [X _]. exact (Hne X).
      + right; right. apply Hslne. reflexivity.
      + exact HwX.
      + lia. }
  destruct nm as [|c0 nm0].
  - (* trailing separator: the whole string again, already a directory *)
    specialize (Hnm0 eq_refl). subst suf.
    cbn [split_acc app components]. cbn [lmkdirs_walk fst snd lstatus_of].
    assert (HwP : lwalk B fs (lstart s cwd) (components P) = RAt l NDir b).
    { rewrite HcP. cbn [split_acc]. rewrite app_nil_r. exact Hw. }
    assert (Hst : stat_l B fs cwd P = RAt l NDir b).
    { rewrite stat_l_nonempty by exact Hne. unfold lstart at 1. rewrite Habs. fold (lstart s cwd).
      unfold pcomps. rewrite lwalk_app, HwP. cbn [then_walk].
      destruct (trailing_slash P); [apply lwalk_one_dot; reflexivity|apply lwalk_nil]. }
    assert (Ht : ftl perms B cwd fs P = FT_DIRECTORY) by (apply ftl_directory; eauto).
    rewrite Ht.
    destruct (Hcont fs l b (tr ++ [EvStat P FT_DIRECTORY]) HwP) as [tr' E].
    exists tr'. rewrite E. reflexivity.
  - remember (c0 :: nm0) as nm eqn:Enm.
    assert (Hnmne : nm <> []) by (subst nm; discriminate).
    rewrite (split_acc_nonempty_name nm Hnmne Hnm) in *. cbn [app].
    assert (Hts : trailing_slash P = false).
    { unfold P. rewrite app_assoc. apply trailing_slash_name; assumption. }
    destruct (body_step_l perms B s cwd fs l b P pre0 nm (components suf) Hne Habs HcP Hts Hw)
      as [(l' & b' & Ht & Hw' & Hm)|[(Ht & (ev & Hcd) & Hm)|(fs' & l' & Ht & (ev & Hcd) & Hw' & Hm)]].
    + rewrite Ht. rewrite Hm. apply Hcont. exact Hw'.
    + rewrite (match_not_dir _ _ _ _ Ht). rewrite Hcd, Hm. cbn [is_success fst snd lstatus_of].
      eexists. reflexivity.
    + rewrite (match_not_dir _ _ _ _ Ht). rewrite Hcd, Hm. cbn [is_success]. apply Hcont. exact Hw'.
Qed.

(* ---------------------------------------------------------------- zix_create_directories refines mkdir -p *)
Lemma create_directories_l_refines : forall perms B fs cwd s, nul_free s -> s <> [] ->
  exists tr, create_directories_l perms B true fs cwd s =
             (lstatus_of (fst (lmkdirs_spec B fs cwd s)), snd (lmkdirs_spec B fs cwd s), tr).
Proof.
  intros perms B fs cwd s Hnul Hne. unfold create_directories_l, g_create_directories, lmkdirs_spec.
  fold (ftl perms B cwd). fold (mkl B cwd).
  destruct s as [|c0 s'] eqn:Es; [contradiction Hne; reflexivity|]. rewrite <- Es in *. cbn [negb].
  unfold path_begin. cbn [p_b p_e Nat.ltb Nat.leb].
  destruct (Z.eqb_spec c0 SLASH) as [Hc|Hc].
  - (* absolute *)
    assert (Hb : path_next s (mkIt 0 0 PRootName) = mkIt 0 1 PRootDir).
    { unfold path_next. cbn [p_st p_e]. rewrite Es. unfold ch. cbn [nth]. unfold is_dir_sep.
      rewrite Hc, Z.eqb_refl. reflexivity. }
    rewrite Hb. cbn [skip_root p_st pstate_rank Nat.ltb Nat.leb].
    assert (HsP : s = [SLASH] ++ s') by (rewrite Es, Hc; reflexivity).
    destruct (next_step s [SLASH] s' 0%nat PRootDir Hnul HsP ltac:(intro X; discriminate X) (or_introl eq_refl))
      as [[Hs0 Hnext]|(sl & nm & suf' & Hsuf' & Hsl & Hnm & Hb' & Hnm0 & _ & Hlen & Hnext)].
    + change (length [SLASH]) with 1%nat in Hnext. rewrite Hnext. cbn [p_st pstate_rank Nat.ltb Nat.leb].
      cbn [g_mkdirs_loop p_st]. subst s'. rewrite Es, Hc. cbn. eexists. reflexivity.
    + change (length [SLASH]) with 1%nat in Hnext. rewrite Hnext. cbn [p_st pstate_rank Nat.ltb Nat.leb].
      assert (Hcs : components s = split_acc nm [] ++ components suf').
      { rewrite HsP, Hsuf'. rewrite components_split3; try assumption; [reflexivity|].
        right; left. exists []. reflexivity. }
      rewrite Hcs.
      apply (loop_refines_l perms B s cwd Hnul (S (S (length s))) [SLASH] sl nm suf' fs (lstart s cwd) B).
      * rewrite HsP, Hsuf'. reflexivity.
      * exact Hsl.
      * exact Hnm.
      * exact Hb'.
      * exact Hnm0.
      * discriminate.
      * right; left. exists []. reflexivity.
      * apply lwalk_nil.
      * rewrite HsP, Hsuf'. cbn [length app]. rewrite !app_length. lia.
  - (* relative *)
    assert (Hb : path_next s (mkIt 0 0 PRootName) = path_next s (mkIt 0 0 PRootDir)).
    { unfold path_next. cbn [p_st p_e]. rewrite Es. unfold ch. cbn [nth]. unfold is_dir_sep.
      destruct (Z.eqb_spec c0 SLASH); [contradiction|reflexivity]. }
    rewrite Hb.
    assert (HsP : s = [] ++ s) by reflexivity.
    destruct (next_step s [] s 0%nat PRootDir Hnul HsP ltac:(intro X; discriminate X) (or_introl eq_refl))
      as [[Hs0 Hnext]|(sl & nm & suf' & Hsuf' & Hsl & Hnm & Hb' & Hnm0 & _ & Hlen & Hnext)].
    + rewrite Hs0 in Es. discriminate Es.
    + cbn [length] in Hnext. rewrite Hnext. cbn [skip_root p_st pstate_rank Nat.ltb Nat.leb].
      assert (Hcs : components s = split_acc nm [] ++ components suf').
      { rewrite Hsuf' at 1. change (sl ++ nm ++ suf') with ([] ++ sl ++ nm ++ suf').
        rewrite components_split3; try assumption; [reflexivity|left; reflexivity]. }
      rewrite Hcs. cbn [app] in Hnext |- *.
      apply (loop_refines_l perms B s cwd Hnul (S (S (length s))) [] sl nm suf' fs (lstart s cwd) B).
      * cbn [app]. exact Hsuf'.
      * exact Hsl.
      * exact Hnm.
      * exact Hb'.
      * exact Hnm0.
      * cbn [app]. intro X. apply app_eq_nil in X. destruct X as [X1 X2]. subst sl nm.
        rewrite (Hnm0 eq_refl) in Hsuf'. cbn [app] in Hsuf'. congruence.
      * left; reflexivity.
      * apply lwalk_nil.
      * assert (length s = length (sl ++ nm ++ suf')) by (rewrite <- Hsuf'; reflexivity).
        rewrite !app_length in *. lia.
Qed.

(* ---------------------------------------------------------------- the property-level results *)
Lemma stat_l_dir_iff : forall B fs cwd s, s <> [] ->
  (names_directory_l B fs cwd s <-> exists l b, lwalk B fs (lstart s cwd) (components s) = RAt l NDir b).
Proof.
  intros B fs cwd s Hne. unfold names_directory_l. rewrite stat_l_nonempty by exact Hne.
  unfold pcomps. rewrite lwalk_app.
  destruct (lwalk B fs (lstart s cwd) (components s)) as [e|l n b] eqn:W; cbn [then_walk].
  - split; intros (l' & b' & X); discriminate X.
  - destruct n; try (split; intros (l' & b' & X); [destruct (trailing_slash s); discriminate X|discriminate X]).
    destruct (trailing_slash s); [rewrite lwalk_one_dot by reflexivity|rewrite lwalk_nil]; split; eauto.
Qed.

Lemma mkdirs_l_iff : forall perms B fs cwd s, nul_free s ->
  let r := create_directories_l perms B true fs cwd s in
  fst (fst r) = SUCCESS <-> names_directory_l B (snd (fst r)) cwd s.
Proof.
  intros perms B fs cwd s Hn. cbn zeta. destruct s as [|c0 s'] eqn:Es.
  - cbn. split; [discriminate|]. intros (l & b & X). discriminate X.
  - rewrite <- Es in *. assert (Hne : s <> []) by (rewrite Es; discriminate).
    destruct (create_directories_l_refines perms B fs cwd s Hn Hne) as [tr E]. rewrite E. cbn [fst snd].
    rewrite stat_l_dir_iff by exact Hne. unfold lmkdirs_spec.
    destruct (lmkdirs_walk fs (lstart s cwd) B (components s)) as [[l' b'|] fs'] eqn:M; cbn [fst snd lstatus_of].
    + split; [intros _|reflexivity]. exists l', b'. eapply lmkdirs_walk_ok. exact M.
    + split; [discriminate|]. intros (l & b & X). exfalso. exact (lmkdirs_walk_blocked _ _ _ _ _ M l b X).
Qed.

Lemma mkdirs_l_idem : forall perms B fs cwd s, nul_free s ->
  let r := create_directories_l perms B true fs cwd s in
  fst (fst r) = SUCCESS ->
  exists tr, create_directories_l perms B true (snd (fst r)) cwd s = (SUCCESS, snd (fst r), tr).
Proof.
  intros perms B fs cwd s Hn. cbn zeta. destruct s as [|c0 s'] eqn:Es.
  - cbn. discriminate.
  - rewrite <- Es in *. assert (Hne : s <> []) by (rewrite Es; discriminate).
    destruct (create_directories_l_refines perms B fs cwd s Hn Hne) as [tr E]. rewrite E. cbn [fst snd].
    unfold lmkdirs_spec.
    destruct (lmkdirs_walk fs (lstart s cwd) B (components s)) as [[l' b'|] fs'] eqn:M;
      cbn [fst snd lstatus_of]; [|discriminate].
    intros _. destruct (create_directories_l_refines perms B fs' cwd s Hn Hne) as [tr2 E2]. exists tr2. rewrite E2.
    unfold lmkdirs_spec.
    rewrite (lmkdirs_walk_noop _ _ _ _ _ _ (lmkdirs_walk_ok _ _ _ _ _ _ _ M)). reflexivity.
Qed.

(* a name that exists and does not lead (following links) to a directory - a regular file, a fifo, a link to
   one of them, a dangling link, a link loop: an error (EXISTS), nothing created *)
Lemma mkdirs_l_blocked : forall perms B fs cwd s k c l b n0, nul_free s -> s <> [] ->
  nth_error (components s) k = Some c ->
  lwalk B fs (lstart s cwd) (firstn k (components s)) = RAt l NDir b ->
  is_dot c = false -> is_dotdot c = false -> llookup fs (l ++ [c]) = Some n0 ->
  not_dir (lwalk b fs l [c]) ->
  let r := create_directories_l perms B true fs cwd s in
  fst (fst r) = EXISTS /\ snd (fst r) = fs.
Proof.
  intros perms B fs cwd s k c l b n0 Hn Hne Hnth Hw D1 D2 L Hnd. cbn zeta.
  destruct (create_directories_l_refines perms B fs cwd s Hn Hne) as [tr E]. rewrite E. cbn [fst snd].
  unfold lmkdirs_spec. rewrite (lmkdirs_walk_blocks _ _ _ _ _ _ _ _ _ Hnth Hw D1 D2 L Hnd). split; reflexivity.
Qed.

Lemma mkdirs_l_nomem : forall perms B fs cwd s, s <> [] ->
  create_directories_l perms B false fs cwd s = (NO_MEM, fs, []).
Proof. intros perms B fs cwd [|c s] H; [contradiction H; reflexivity|reflexivity]. Qed.
