(* C05: the abstract object.  A bounded byte FIFO `q` of capacity `cap`, plus the write
   transaction the caller may have open: the bytes amended so far and the room the
   transaction was given when it began.  Nothing here refers to heads, masks or buffers. *)
From Coq Require Import ZArith List Bool.
Import ListNotations.
Local Open Scope Z_scope.

(* the API calls of one thread; byte strings are lists, request sizes are integers *)
Inductive op :=
| OWrite (src : list Z)
| ORead (n : Z)
| OPeek (n : Z)
| OSkip (n : Z)
| OReset
| OBegin
| OAmend (src : list Z)
| OCommit.

(* ZixStatus values returned by amend_write / commit_write *)
Definition ST_SUCCESS : Z := 0.
Definition ST_NO_MEM : Z := 2.

Definition len (l : list Z) : Z := Z.of_nat (length l).
Definition ztake (n : Z) (l : list Z) : list Z := firstn (Z.to_nat n) l.
Definition zdrop (n : Z) (l : list Z) : list Z := skipn (Z.to_nat n) l.

Record sstate := mkS {
  sq : list Z;                      (* stored bytes, oldest first *)
  stx : option (list Z * Z)         (* open transaction: (bytes amended, room at begin) *)
}.

(* least power of two >= s, by search from 1 (fuel = number of doublings allowed) *)
Fixpoint pow2_ge (fuel : nat) (p s : Z) : Z :=
  match fuel with
  | O => p
  | S f => if s <=? p then p else pow2_ge f (2 * p) s
  end.
Definition spec_capacity (s : Z) : Z := pow2_ge 32 1 s - 1.

(* One call.  Result: None = the call is outside the property (a negative size; amend or
   commit without an open transaction); otherwise the new state and
   (return value or status, bytes delivered).
   A call that cannot be served returns 0 / NO_MEM and leaves the state as it is. *)
Definition spec_step (cap : Z) (st : sstate) (o : op) : option (sstate * (Z * list Z)) :=
  let q := sq st in
  match o with
  | OWrite src =>
      if len src <=? cap - len q
      then Some (mkS (q ++ src) None, (len src, []))    (* an open transaction is abandoned *)
      else Some (st, (0, []))
  | ORead n =>
      if n <? 0 then None
      else if n <=? len q then Some (mkS (zdrop n q) (stx st), (n, ztake n q))
      else Some (st, (0, []))
  | OPeek n =>
      if n <? 0 then None
      else if n <=? len q then Some (st, (n, ztake n q))
      else Some (st, (0, []))
  | OSkip n =>
      if n <? 0 then None
      else if n <=? len q then Some (mkS (zdrop n q) (stx st), (n, []))
      else Some (st, (0, []))
  | OReset => Some (mkS [] None, (0, []))
  | OBegin => Some (mkS q (Some ([], cap - len q)), (0, []))
  | OAmend src =>
      match stx st with
      | None => None
      | Some (p, room) =>
          if len p + len src <=? room
          then Some (mkS q (Some (p ++ src, room)), (ST_SUCCESS, []))
          else Some (st, (ST_NO_MEM, []))
      end
  | OCommit =>
      match stx st with
      | None => None
      | Some (p, _) => Some (mkS (q ++ p) None, (ST_SUCCESS, []))
      end
  end.

Fixpoint spec_run (cap : Z) (st : sstate) (h : list op) : option (sstate * list (Z * list Z)) :=
  match h with
  | [] => Some (st, [])
  | o :: h' =>
      match spec_step cap st o with
      | None => None
      | Some (st1, out) =>
          match spec_run cap st1 h' with
          | None => None
          | Some (st2, outs) => Some (st2, out :: outs)
          end
      end
  end.

Definition spec_init : sstate := mkS [] None.
