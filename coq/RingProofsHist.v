(* C05: every call refines the queue spec; histories by induction; reachable states. *)
From Coq Require Import ZArith Znumtheory List Bool Lia ZifyBool.
From Zix Require Import RingSpec RingModel RingProofsNpot RingProofsBase RingProofs RingProofsSim.
Import ListNotations.
Local Open Scope Z_scope.

(* advancing the read head keeps the relation (an open transaction keeps its room) *)
Lemma R_advance cap rg t s n :
  R cap (rg, t) s -> 0 <= n <= len (sq s) ->
  R cap (set_read_head rg ((read_head rg + n) mod size rg), t) (mkS (zdrop n (sq s)) (stx s)).
Proof.
  intros (H & Ht & Hc & Ha & Htx) Hn. cbn [fst snd] in *.
  rewrite <- Ha in Hn. rewrite abs_len in Hn by exact H.
  destruct (read_head_advance rg n H Hn) as (I' & RS & WS & AB).
  unfold R. cbn [fst snd sq stx].
  split; [exact I'|]. split; [exact Ht|]. split; [exact Hc|]. split; [now rewrite AB, Ha|].
  destruct (stx s) as [[p room]|]; [|exact I].
  destruct Htx as (A & B & C & D & E). unfold tx_rel. cbn [write_head size buf set_read_head].
  repeat split; auto. change (set_read_head rg ((read_head rg + n) mod size rg)) with
    (set_read_head rg ((read_head rg + n) mod size rg)) in WS. lia.
Qed.

Lemma R_reset cap rg t s : R cap (rg, t) s -> R cap (ring_reset rg, t) (mkS [] None).
Proof.
  intros (H & Ht & Hc & Ha & Htx). cbn [fst snd] in *.
  pose proof (inv_N rg H) as HN.
  assert (I' : inv (ring_reset rg)).
  { destruct H as [Hk Hm _ _ Hl]. constructor; cbn; auto; lia. }
  unfold R. cbn [fst snd sq stx]. split; [exact I'|]. split; [exact Ht|]. split; [exact Hc|].
  split; [|exact I].
  unfold abs, ring_read_space. rewrite rsi_spec by exact I'. cbn.
  rewrite ?Z.mod_0_l by lia. reflexivity.
Qed.

(* ---------- one call ---------- *)

Lemma R_step cap st s o s' out :
  R cap st s -> spec_step cap s o = Some (s', out) ->
  exists st', ring_step st o = (st', out) /\ R cap st' s'.
Proof.
  intros HR Hs. destruct st as [rg t].
  pose proof HR as (H & Ht & Hc & Ha & Htx). cbn [fst snd] in *.
  destruct o as [src|n|n|n| | |src| ]; cbn [spec_step ring_step] in *.
  - (* write *)
    pose proof (R_write _ _ _ _ src HR) as W.
    destruct (len src <=? cap - len (sq s)) eqn:E; inversion Hs; subst; clear Hs.
    + destruct W as (rg' & Eq & HR'). rewrite Eq. eexists. split; [reflexivity|exact HR'].
    + rewrite W. eexists. split; [reflexivity|exact HR].
  - (* read *)
    destruct (n <? 0) eqn:E0; [discriminate|].
    rewrite ring_read_spec by (auto; lia). rewrite Ha.
    destruct (n <=? len (sq s)) eqn:E; inversion Hs; subst; clear Hs.
    + eexists. split; [reflexivity|]. apply R_advance; [exact HR|lia].
    + eexists. split; [reflexivity|exact HR].
  - (* peek *)
    destruct (n <? 0) eqn:E0; [discriminate|].
    rewrite ring_peek_spec by (auto; lia). rewrite Ha.
    destruct (n <=? len (sq s)) eqn:E; inversion Hs; subst; clear Hs;
      (eexists; split; [reflexivity|exact HR]).
  - (* skip *)
    destruct (n <? 0) eqn:E0; [discriminate|].
    rewrite ring_skip_spec by (auto; lia). rewrite Ha.
    destruct (n <=? len (sq s)) eqn:E; inversion Hs; subst; clear Hs.
    + eexists. split; [reflexivity|]. apply R_advance; [exact HR|lia].
    + eexists. split; [reflexivity|exact HR].
  - (* reset *)
    inversion Hs; subst; clear Hs. eexists. split; [reflexivity|]. exact (R_reset _ _ _ _ HR).
  - (* begin *)
    inversion Hs; subst; clear Hs. eexists. split; [reflexivity|]. exact (R_begin _ _ _ _ HR).
  - (* amend *)
    destruct s as [q [[p room]|]]; cbn [sq stx] in *; [|discriminate].
    pose proof (R_amend _ _ _ _ _ _ src HR) as A.
    destruct (len p + len src <=? room) eqn:E; inversion Hs; subst; clear Hs.
    + destruct A as (rg' & t' & Eq & HR' & _). rewrite Eq. eexists. split; [reflexivity|exact HR'].
    + rewrite A. eexists. split; [reflexivity|exact HR].
  - (* commit *)
    destruct s as [q [[p room]|]]; cbn [sq stx] in *; [|discriminate].
    inversion Hs; subst; clear Hs.
    pose proof (R_commit _ _ _ _ _ _ HR) as [HR' St].
    unfold ring_commit_write in *. cbn [fst snd] in *.
    eexists. split; [reflexivity|exact HR'].
Qed.

(* a call the spec refuses (returns 0 / NO_MEM) leaves the whole ring state as it was:
   heads, buffer, and the caller's transaction *)
Lemma R_step_refused cap st s o out :
  R cap st s -> spec_step cap s o = Some (s, out) ->
  (match o with OWrite src => src <> [] | ORead n | OSkip n => n <> 0 | OPeek _ | OAmend _ => True
              | _ => False end) ->
  (fst out = 0 \/ fst out = ST_NO_MEM) ->
  (match o with OAmend _ => fst out = ST_NO_MEM | _ => fst out = 0 end) ->
  ring_step st o = (st, out).
Proof.
  intros HR Hs Hk _ Hout. destruct st as [rg t].
  pose proof HR as (H & Ht & Hc & Ha & Htx). cbn [fst snd] in *.
  destruct o as [src|n|n|n| | |src| ]; cbn [spec_step ring_step] in *; try contradiction.
  - pose proof (R_write _ _ _ _ src HR) as W.
    destruct (len src <=? cap - len (sq s)) eqn:E; inversion Hs; subst; clear Hs.
    + cbn [fst] in Hout. destruct src; [contradiction|]. discriminate.
    + rewrite W. reflexivity.
  - destruct (n <? 0) eqn:E0; [discriminate|].
    rewrite ring_read_spec by (auto; lia). rewrite Ha.
    destruct (n <=? len (sq s)) eqn:E; inversion Hs; subst; clear Hs.
    + cbn [fst] in Hout. contradiction.
    + reflexivity.
  - destruct (n <? 0) eqn:E0; [discriminate|].
    rewrite ring_peek_spec by (auto; lia). rewrite Ha.
    destruct (n <=? len (sq s)) eqn:E; inversion Hs; subst; clear Hs; reflexivity.
  - destruct (n <? 0) eqn:E0; [discriminate|].
    rewrite ring_skip_spec by (auto; lia). rewrite Ha.
    destruct (n <=? len (sq s)) eqn:E; inversion Hs; subst; clear Hs.
    + cbn [fst] in Hout. contradiction.
    + reflexivity.
  - destruct s as [q [[p room]|]]; cbn [sq stx] in *; [|discriminate].
    pose proof (R_amend _ _ _ _ _ _ src HR) as A.
    destruct (len p + len src <=? room) eqn:E; inversion Hs; subst; clear Hs.
    + cbn [fst] in Hout. discriminate.
    + rewrite A. reflexivity.
Qed.

(* ---------- histories ---------- *)

Lemma R_run cap h : forall st s s' outs,
  R cap st s -> spec_run cap s h = Some (s', outs) ->
  exists st', ring_run st h = (st', outs) /\ R cap st' s'.
Proof.
  induction h as [|o h IH]; intros st s s' outs HR Hs; cbn [spec_run ring_run] in *.
  - inversion Hs; subst. eexists. split; [reflexivity|exact HR].
  - destruct (spec_step cap s o) as [[s1 out]|] eqn:E1; [|discriminate].
    destruct (spec_run cap s1 h) as [[s2 outs']|] eqn:E2; [|discriminate].
    inversion Hs; subst; clear Hs.
    destruct (R_step _ _ _ _ _ _ HR E1) as (st1 & Eq1 & HR1).
    destruct (IH _ _ _ _ HR1 E2) as (st2 & Eq2 & HR2).
    rewrite Eq1, Eq2. eexists. split; [reflexivity|exact HR2].
Qed.

(* ---------- a new ring ---------- *)

Lemma ring_new_inv sz junk : 1 <= sz <= 2 ^ 31 -> inv (ring_new sz junk).
Proof.
  intros Hs. destruct (npot_pow2 sz Hs) as (k & Hk & E).
  pose proof (pow2_pos k ltac:(lia)) as Hp.
  assert (2 ^ k <= 2 ^ 31) by (apply Z.pow_le_mono_r; lia).
  assert (2 ^ 31 < 2 ^ 32) by reflexivity.
  unfold ring_new. constructor; cbn [size size_mask read_head write_head buf].
  - exists k. split; [lia|exact E].
  - apply u32_small. lia.
  - lia.
  - lia.
  - apply len_map_zrange. lia.
Qed.

Lemma ring_new_capacity sz junk :
  1 <= sz <= 2 ^ 31 -> ring_capacity (ring_new sz junk) = spec_capacity sz.
Proof.
  intros Hs. rewrite capacity_spec by (apply ring_new_inv; exact Hs).
  cbn [ring_new size]. apply npot_spec_capacity. exact Hs.
Qed.

Lemma ring_new_abs sz junk : 1 <= sz <= 2 ^ 31 -> abs (ring_new sz junk) = [].
Proof.
  intros Hs. pose proof (ring_new_inv sz junk Hs) as H. pose proof (inv_N _ H).
  unfold abs, ring_read_space. rewrite rsi_spec by exact H. cbn [ring_new read_head write_head].
  rewrite ?Z.mod_0_l by lia. reflexivity.
Qed.

Lemma R_init sz junk :
  1 <= sz <= 2 ^ 31 -> R (spec_capacity sz) (ring_init sz junk) spec_init.
Proof.
  intros Hs. pose proof (ring_new_inv sz junk Hs) as H. pose proof (inv_N _ H).
  unfold R, ring_init, spec_init. cbn [fst snd sq stx tx0 tx_write_head].
  split; [exact H|]. split; [lia|]. split; [symmetry; now apply ring_new_capacity|].
  split; [now apply ring_new_abs|exact I].
Qed.

(* ---------- the invariant holds after ANY history, including misuse of the API ---------- *)

Definition minv (st : mstate) : Prop :=
  inv (fst st) /\ 0 <= tx_write_head (snd st) < size (fst st).

Lemma amend_minv rg t src :
  inv rg -> 0 <= tx_write_head t < size rg ->
  minv (fst (ring_amend_write rg t src)).
Proof.
  intros H Ht. pose proof (inv_N rg H) as HN.
  pose proof (amend_spec rg t src H Ht) as A. cbv zeta in A.
  destruct (len src <=? (tx_read_head t - tx_write_head t - 1) mod size rg).
  - destruct A as (b' & Eq & [Wl _]). rewrite Eq. cbn [fst]. split; cbn [fst snd].
    + destruct H as [Hk Hm ? ? Hl]. constructor; cbn; auto. lia.
    + cbn. apply Z.mod_pos_bound. lia.
  - rewrite A. split; assumption.
Qed.

Lemma amend_size rg t src : size (fst (fst (ring_amend_write rg t src))) = size rg.
Proof.
  unfold ring_amend_write.
  destruct (write_space_internal rg (tx_read_head t) (tx_write_head t) <? Z.of_nat (length src));
    [reflexivity|].
  destruct (u32 (tx_write_head t + Z.of_nat (length src)) <=? size rg); reflexivity.
Qed.

Lemma set_read_head_inv rg x : inv rg -> inv (set_read_head rg (x mod size rg)).
Proof.
  intros H. pose proof (inv_N rg H). destruct H as [Hk Hm ? ? Hl]. constructor; cbn; auto.
  apply Z.mod_pos_bound. lia.
Qed.

Lemma step_minv st o : minv st -> minv (fst (ring_step st o)).
Proof.
  intros [H Ht]. destruct st as [rg t]. cbn [fst snd] in *.
  pose proof (inv_N rg H) as HN.
  destruct o as [src|n|n|n| | |src| ]; cbn [ring_step].
  - (* write *)
    unfold ring_write.
    pose proof (amend_minv rg (ring_begin_write rg) src H (inv_w rg H)) as [I1 T1].
    pose proof (amend_size rg (ring_begin_write rg) src) as S1.
    destruct (ring_amend_write rg (ring_begin_write rg) src) as [[rg1 t1] st1].
    cbn [fst snd] in *.
    destruct (negb (st1 =? 0)); cbn [fst snd]; split; cbn [fst snd]; auto; try lia.
    + destruct I1 as [Hk Hm ? ? Hl]. constructor; cbn; auto.
    + cbn. lia.
  - (* read *)
    unfold ring_read. destruct (peek_internal rg (read_head rg) (write_head rg) n) as [k d].
    destruct (k =? 0); cbn [fst snd]; split; cbn [fst snd]; auto.
    rewrite mask_u32 by exact H. now apply set_read_head_inv.
  - split; assumption.
  - (* skip *)
    unfold ring_skip. destruct (read_space_internal rg (read_head rg) (write_head rg) <? n);
      cbn [fst snd]; split; cbn [fst snd]; auto.
    rewrite mask_u32 by exact H. now apply set_read_head_inv.
  - split; cbn [fst snd]; [|exact Ht]. destruct H as [Hk Hm ? ? Hl]. constructor; cbn; auto; lia.
  - split; cbn [fst snd]; [exact H|]. cbn. apply (inv_w rg H).
  - pose proof (amend_minv rg t src H Ht) as M.
    destruct (ring_amend_write rg t src) as [[rg1 t1] st1]. exact M.
  - cbn [fst snd]. split; cbn [fst snd]; [|exact Ht].
    destruct H as [Hk Hm ? ? Hl]. constructor; cbn; auto.
Qed.

Lemma run_minv h : forall st, minv st -> minv (fst (ring_run st h)).
Proof.
  induction h as [|o h IH]; intros st M; cbn [ring_run]; [exact M|].
  pose proof (step_minv st o M) as M1.
  destruct (ring_step st o) as [st1 out]. cbn [fst] in M1.
  pose proof (IH st1 M1) as M2.
  destruct (ring_run st1 h) as [st2 outs]. exact M2.
Qed.

Lemma init_minv sz junk : 1 <= sz <= 2 ^ 31 -> minv (ring_init sz junk).
Proof.
  intros Hs. pose proof (ring_new_inv sz junk Hs) as H. pose proof (inv_N _ H).
  split; [exact H|]. cbn. cbn in H0. lia.
Qed.
