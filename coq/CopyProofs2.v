(* C14 — lemmas, part 2: descriptor accounting on every path, the prefix of zix_copy_file, top-level results. *)
From Coq Require Import ZArith List Bool Lia.
From Zix Require Import CopySpec CopyModel CopyProofs.
Import ListNotations.
Local Open Scope Z_scope.

(* ---------------------------------------------------------------- descriptors: no invariant needed *)
Lemma put_dst_env : forall w data, same_env w (put_dst w data).
Proof. intros w data. unfold put_dst, same_env. destruct (w_dst w); wcbn; auto. Qed.

Lemma k_cfr_env : forall w req r w', k_cfr w req = (r, w') -> same_env w w'.
Proof.
  intros w req r w' H. unfold k_cfr in H. destruct (pop w) as [o w1] eqn:P.
  destruct (pop_frame _ _ _ P) as [F _]. apply frame_same_env in F.
  eapply same_env_trans; [exact F|].
  destruct o as [|k|e]; [| |inversion H; subst; unfold same_env; wcbn; auto].
  all: destruct (w_dst w1) eqn:D;
    try (destruct (rd_count _ req (length (w_src w1) - w_soff w1)) eqn:N);
    inversion H; subst; unfold same_env, put_dst; try rewrite D; wcbn; auto.
Qed.

Lemma k_read_env : forall w req r d w', k_read w req = (r, d, w') -> same_env w w'.
Proof.
  intros w req r d w' H. unfold k_read in H. destruct (pop w) as [o w1] eqn:P.
  destruct (pop_frame _ _ _ P) as [F _]. apply frame_same_env in F.
  eapply same_env_trans; [exact F|].
  destruct o; inversion H; subst; unfold same_env; wcbn; auto.
Qed.

Lemma k_write_env : forall w data r w', k_write w data = (r, w') -> same_env w w'.
Proof.
  intros w data r w' H. unfold k_write in H. destruct (pop w) as [o w1] eqn:P.
  destruct (pop_frame _ _ _ P) as [F _]. apply frame_same_env in F.
  eapply same_env_trans; [exact F|].
  destruct o; inversion H; subst; try (unfold same_env; wcbn; auto; fail).
  all: eapply same_env_trans; [apply put_dst_env|unfold same_env; wcbn; auto].
Qed.

Lemma cfr_loop_env : forall fuel w rem r r' w', cfr_loop fuel w rem r = Some (r', w') -> same_env w w'.
Proof.
  induction fuel as [|f IH]; intros w rem r r' w' H; [discriminate|].
  cbn [cfr_loop] in H. destruct rem as [|rem']; [inversion H; subst; apply same_env_refl|].
  destruct (k_cfr w (S rem')) as [r1 w1] eqn:K. pose proof (k_cfr_env _ _ _ _ K) as E1.
  destruct (0 <? r1).
  - eapply same_env_trans; [exact E1|eapply IH; exact H].
  - inversion H; subst. exact E1.
Qed.

Lemma copy_file_range_env : forall w size st w', zix_copy_file_range w size = (st, w') -> same_env w w'.
Proof.
  intros w size st w' H. unfold zix_copy_file_range in H.
  destruct (cfr_loop (S size) (set_errno w 0) size 0) as [[r w1]|] eqn:L.
  - apply cfr_loop_env in L.
    assert (same_env w w1) by (eapply same_env_trans; [apply frame_same_env, frame_set_errno|exact L]).
    destruct (0 <=? r); inversion H; subst; assumption.
  - inversion H; subst. apply frame_same_env, frame_set_errno.
Qed.

Lemma write_loop_env : forall fuel w rest res w', write_loop fuel w rest = Some (res, w') -> same_env w w'.
Proof.
  induction fuel as [|f IH]; intros w rest res w' H; [discriminate|].
  cbn [write_loop] in H. destruct rest as [|x rest']; [inversion H; subst; apply same_env_refl|].
  destruct (k_write w (x :: rest')) as [r w1] eqn:K. pose proof (k_write_env _ _ _ _ K) as E1.
  destruct (r <=? 0).
  - inversion H; subst. exact E1.
  - eapply same_env_trans; [exact E1|eapply IH; exact H].
Qed.

Lemma copy_blocks_env : forall fuel w bs st w', copy_blocks fuel w bs = (st, w') -> same_env w w'.
Proof.
  induction fuel as [|f IH]; intros w bs st w' H.
  - inversion H; subst. apply same_env_refl.
  - cbn [copy_blocks] in H. destruct (k_read w bs) as [[n data] w1] eqn:K.
    pose proof (k_read_env _ _ _ _ _ K) as E1.
    destruct (0 <? n); [|inversion H; subst; exact E1].
    destruct (write_loop (S (length data)) w1 data) as [[[st2|] w2]|] eqn:L.
    + apply write_loop_env in L. inversion H; subst. eapply same_env_trans; eassumption.
    + apply write_loop_env in L. eapply same_env_trans; [exact E1|]. eapply same_env_trans; [exact L|].
      eapply IH; exact H.
    + inversion H; subst. exact E1.
Qed.

Lemma copy_body_fds : forall w size b1 b2 al st w',
  w_fds w = [FDst; FSrc] -> copy_body w size b1 b2 al = (st, w') -> w_fds w' = [] /\ w_skind w' = w_skind w.
Proof.
  intros w size b1 b2 al st w' Hfd H. rewrite copy_body_unfold in H.
  destruct (zix_copy_file_range w size) as [st1 w1] eqn:C.
  apply copy_file_range_env in C. destruct C as [K1 D1].
  destruct (negb (status_eqb st1 NOT_SUPPORTED)).
  - destruct (finish_copy_spec _ _ _ _ _ _ H) as ((Fk & _) & D & _).
    split; [rewrite D, D1, Hfd; reflexivity|congruence].
  - destruct (before_blocks_spec w1 b1 b2 al) as ((K0 & _ & _ & _ & _ & D0) & _).
    destruct (copy_blocks (S size) (before_blocks w1 b1 b2 al) (buffer_size_of b1 b2 al)) as [st2 w2] eqn:CB.
    apply copy_blocks_env in CB. destruct CB as [K2 D2].
    destruct (finish_copy_spec _ _ _ _ _ _ H) as ((Fk & _) & D & _). wcbn.
    split; [rewrite D, D2, D0, D1, Hfd; reflexivity|congruence].
Qed.

(* ---------------------------------------------------------------- the prefix of zix_copy_file *)
Lemma ff_firstn_S : forall n s, fault_freeS (firstn (S n) s) -> hd_err s = false /\ fault_freeS (firstn n (tl s)).
Proof.
  intros n [|x l] H.
  - split; [reflexivity|]. destruct n; reflexivity.
  - cbn [firstn] in H. unfold fault_freeS in *. cbn [forallb] in H. apply andb_true_iff in H. destruct H as [A B].
    split; [destruct x; try reflexivity; discriminate|exact B].
Qed.

Lemma stat_faulted_hd : forall s, stat_faultedb s = hd_err (tl (tl s)).
Proof. intros [|a [|b [|c l]]]; try reflexivity. Qed.

Lemma tl5_skipn : forall (s : list outcome), tl (tl (tl (tl (tl s)))) = skipn 5 s.
Proof. intros [|a [|b [|c [|d [|e l]]]]]; reflexivity. Qed.

Definition dst_writable (d : dstate) (ov : bool) : Prop := d = DAbsent \/ (ov = true /\ exists b, d = DFile b).

Definition after_stat (w : world) (ov : bool) (size : nat) (b1 b2 : Z) (al : alloc_answer) : status * world :=
  let (dst_ok, w) := k_open_dst w ov in
  let dst_fd := if dst_ok then Some FDst else None in
  let (dfst_ok, w) := if dst_ok then k_fstat w 1 else (false, w) in
  if negb (dst_ok && dfst_ok) then finish_copy w dst_fd (Some FSrc) (zix_errno_status (w_errno w)) else
  copy_body w size b1 b2 al.

Lemma after_stat_cases : forall w3 src d script ov b1 b2 al st w',
  after_stat w3 ov (length src) b1 b2 al = (st, w') ->
  w_skind w3 = SReg -> w_src w3 = src -> w_dst w3 = d -> w_fds w3 = [FSrc] -> w_soff w3 = O ->
  w_script w3 = tl (tl (tl script)) ->
  (d = DAlias -> stat_faultedb script = true) ->
  (exists w1 dfd sfd st0,
     finish_copy w1 dfd sfd st0 = (st, w') /\ st0 <> SUCCESS /\ st0 <> OUT_OF_FUEL /\
     w_skind w1 = SReg /\ remove_opt sfd (remove_opt dfd (w_fds w1)) = [] /\
     ((w_src w1 = src /\ (w_dst w1 = d \/ (w_dst w1 = DFile [] /\ dst_writable d ov)))
      \/ (d = DAlias /\ ov = true /\ stat_faultedb script = true)) /\
     (ov = false -> d <> DAbsent -> hd_err (w_script w3) = false -> st0 = EXISTS) /\
     (dst_writable d ov -> hd_err (w_script w3) = false -> hd_err (tl (w_script w3)) = false -> False))
  \/
  (exists w1, copy_body w1 (length src) b1 b2 al = (st, w') /\ Inv2 src w1 [] /\ w_soff w1 = O /\
     w_fds w1 = [FDst; FSrc] /\ w_skind w1 = SReg /\ w_script w1 = skipn 5 script /\
     dst_writable d ov)
  \/
  (exists w1, copy_body w1 (length src) b1 b2 al = (st, w') /\ w_fds w1 = [FDst; FSrc] /\ w_skind w1 = SReg /\
     d = DAlias /\ ov = true /\ stat_faultedb script = true).
Proof.
  intros w3 src d script ov b1 b2 al st w' H K3 S3 D3 Fd3 So3 C3 Hal.
  unfold after_stat in H.
  destruct (k_open_dst w3 ov) as [dst_ok w4] eqn:O4.
  destruct (k_open_dst_spec _ _ _ _ O4) as (K4 & So4 & C4 & T4 & N4 & G4).
  destruct dst_ok.
  2: { cbn [andb negb] in H. destruct (N4 eq_refl) as (Fd4 & D4 & S4 & Ee).
    left. exists w4, None, (Some FSrc), (zix_errno_status (w_errno w4)).
    split; [exact H|]. split; [intro X; apply errno_status_success_iff in X; contradiction|].
    split; [apply errno_status_not_fuel|]. split; [congruence|].
    split; [cbn [remove_opt]; rewrite Fd4, Fd3; reflexivity|].
    split; [left; split; [congruence|left; congruence]|].
    split.
    - intros Hov Hd Hh. specialize (G4 Hh). rewrite D3 in G4.
      destruct d; try contradiction (Hd eq_refl); subst ov.
      + destruct G4 as [_ Ee4]. rewrite Ee4. reflexivity.
      + destruct G4 as [_ Ee4]. rewrite Ee4. reflexivity.
      + destruct G4 as [_ Ee4]. rewrite (Ee4 eq_refl). reflexivity.
    - intros W Hh _. specialize (G4 Hh). rewrite D3 in G4.
      destruct W as [->|(-> & b & ->)]; [discriminate G4|discriminate G4]. }
  destruct (T4 eq_refl) as (Fd4 & Do4 & Ee4 & Dm).
  rewrite D3 in Dm.
  destruct (k_fstat w4 1) as [dfst_ok w5] eqn:O5.
  destruct (k_fstat_spec _ _ _ _ O5) as (Fr5 & Eok5 & Efail5 & C5 & G5).
  destruct Fr5 as (K5 & S5 & D5 & So5 & Do5 & Fd5).
  assert (Fds5 : w_fds w5 = [FDst; FSrc]) by (rewrite Fd5, Fd4, Fd3; reflexivity).
  destruct dfst_ok.
  2: { cbn [andb negb] in H. destruct (Efail5 eq_refl) as [e Ee].
    left. exists w5, (Some FDst), (Some FSrc), (zix_errno_status (w_errno w5)).
    split; [exact H|]. rewrite Ee. split; [apply errno_status_pos|].
    split; [apply errno_status_not_fuel|]. split; [congruence|].
    split; [cbn [remove_opt]; rewrite Fds5; reflexivity|].
    split.
    - destruct d.
      + destruct Dm as [A B]. left. split; [congruence|]. right. split; [congruence|left; reflexivity].
      + destruct Dm as (A & B & C). left. split; [congruence|]. right. split; [congruence|right; eauto].
      + destruct Dm as (A & B & C & Dh). right. auto.
      + contradiction.
    - split.
      + intros Hov Hd _. destruct d; try contradiction (Hd eq_refl); try contradiction; destruct Dm as [A _]; congruence.
      + intros _ _ Hh. assert (X : false = true) by (apply G5; rewrite C4; exact Hh). discriminate. }
  cbn [andb negb] in H.
  destruct d.
  - destruct Dm as [A B]. right; left. exists w5. split; [exact H|].
    split; [split; [congruence|]; exists []; rewrite D5, A, Do5, Do4, So5, So4, So3; repeat split; try reflexivity; lia|].
    split; [congruence|]. split; [exact Fds5|]. split; [congruence|].
    split; [rewrite C5, C4, C3; apply tl5_skipn|left; reflexivity].
  - destruct Dm as (A & B & C). right; left. exists w5. split; [exact H|].
    split; [split; [congruence|]; exists []; rewrite D5, B, Do5, Do4, So5, So4, So3; repeat split; try reflexivity; lia|].
    split; [congruence|]. split; [exact Fds5|]. split; [congruence|].
    split; [rewrite C5, C4, C3; apply tl5_skipn|right; eauto].
  - destruct Dm as (A & B & C & Dh). right; right. exists w5. split; [exact H|].
    split; [exact Fds5|]. split; [congruence|]. auto.
  - contradiction.
Qed.

Lemma copy_file_cases : forall sk src d e0 script ov b1 b2 al st w',
  zix_copy_file (world0 sk src d e0 script) ov b1 b2 al = (st, w') ->
  (exists w1 dfd sfd st0,
     finish_copy w1 dfd sfd st0 = (st, w') /\ st0 <> SUCCESS /\ st0 <> OUT_OF_FUEL /\
     w_skind w1 = sk /\ remove_opt sfd (remove_opt dfd (w_fds w1)) = [] /\
     ((w_src w1 = src /\ (w_dst w1 = d \/ (w_dst w1 = DFile [] /\ dst_writable d ov)))
      \/ (d = DAlias /\ ov = true /\ stat_faultedb script = true)) /\
     (sk <> SReg -> w_dst w1 = d /\ w_src w1 = src) /\
     (ov = false -> d <> DAbsent -> sk = SReg -> fault_freeS (firstn 4 script) -> st0 = EXISTS) /\
     (sk = SReg -> dst_writable d ov -> fault_freeS (firstn 5 script) -> False))
  \/
  (exists w1, copy_body w1 (length src) b1 b2 al = (st, w') /\ Inv2 src w1 [] /\ w_soff w1 = O /\
     w_fds w1 = [FDst; FSrc] /\ w_skind w1 = sk /\ sk = SReg /\ w_script w1 = skipn 5 script /\
     dst_writable d ov)
  \/
  (exists w1, copy_body w1 (length src) b1 b2 al = (st, w') /\ w_fds w1 = [FDst; FSrc] /\ w_skind w1 = sk /\
     sk = SReg /\ d = DAlias /\ ov = true /\ stat_faultedb script = true).
Proof.
  intros sk src d e0 script ov b1 b2 al st w' H.
  set (w0 := world0 sk src d e0 script) in *.
  assert (W0 : w_skind w0 = sk /\ w_src w0 = src /\ w_dst w0 = d /\ w_fds w0 = [] /\ w_script w0 = script)
    by (unfold w0, world0; wcbn; auto).
  destruct W0 as (K0 & S0 & D0 & F0 & C0).
  unfold zix_copy_file in H.
  destruct (k_open_src w0) as [src_ok w1] eqn:O1.
  destruct (k_open_src_spec _ _ _ O1) as (K1 & S1 & D1 & C1 & T1 & N1 & G1).
  destruct src_ok.
  2: { (* the source cannot be opened *)
    cbn [andb negb] in H. destruct (N1 eq_refl) as [Fd Ee].
    left. exists w1, None, None, (zix_errno_status (w_errno w1)).
    split; [exact H|]. split; [intro X; apply errno_status_success_iff in X; contradiction|].
    split; [apply errno_status_not_fuel|]. split; [congruence|].
    split; [cbn [remove_opt]; congruence|]. split; [left; split; [congruence|left; congruence]|].
    split; [intros _; split; congruence|].
    split.
    - intros _ _ Hs FF. exfalso. apply ff_firstn_S in FF. destruct FF as [Hh _].
      assert (src_ok : true = false); [|discriminate].
      symmetry. apply G1; [rewrite C0; exact Hh|rewrite K0, Hs; discriminate].
    - intros Hs _ FF. apply ff_firstn_S in FF. destruct FF as [Hh _].
      assert (X : false = true) by (apply G1; [rewrite C0; exact Hh|rewrite K0, Hs; discriminate]). discriminate. }
  destruct (T1 eq_refl) as (Fd1 & So1 & NM).
  destruct (k_fstat w1 0) as [fst_ok w2] eqn:O2.
  destruct (k_fstat_spec _ _ _ _ O2) as (Fr2 & Eok2 & Efail2 & C2 & G2).
  destruct Fr2 as (K2 & S2 & D2 & So2 & Do2 & Fd2).
  destruct fst_ok.
  2: { cbn [andb negb] in H. destruct (Efail2 eq_refl) as [e Ee].
    left. exists w2, None, (Some FSrc), (zix_errno_status (w_errno w2)).
    split; [exact H|]. rewrite Ee. split; [apply errno_status_pos|].
    split; [apply errno_status_not_fuel|]. split; [congruence|].
    split; [cbn [remove_opt]; rewrite Fd2, Fd1, F0; reflexivity|].
    split; [left; split; [congruence|left; congruence]|].
    split; [intros _; split; congruence|].
    assert (Gx : fault_freeS (firstn 2 script) -> False).
    { intro FF. apply ff_firstn_S in FF. destruct FF as [_ FF]. apply ff_firstn_S in FF. destruct FF as [Hh _].
      assert (X : false = true) by (apply G2; rewrite C1, C0; exact Hh). discriminate. }
    split.
    - intros _ _ _ FF. exfalso. apply Gx. unfold fault_freeS in *.
      rewrite <- (firstn_skipn 2 (firstn 4 script)) in FF. rewrite forallb_app in FF. apply andb_true_iff in FF.
      destruct FF as [FF _]. rewrite firstn_firstn in FF. exact FF.
    - intros _ _ FF. apply Gx. unfold fault_freeS in *.
      rewrite <- (firstn_skipn 2 (firstn 5 script)) in FF. rewrite forallb_app in FF. apply andb_true_iff in FF.
      destruct FF as [FF _]. rewrite firstn_firstn in FF. exact FF. }
  cbn [andb negb] in H.
  assert (K2' : w_skind w2 = sk) by congruence. rewrite K2' in H.
  assert (S2' : w_src w2 = src) by congruence. rewrite S2' in H.
  destruct sk.
  2,3,4: (* not a regular file *)
    left; exists w2, None, (Some FSrc), BAD_ARG;
    (split; [exact H|]); (split; [discriminate|]); (split; [discriminate|]); (split; [exact K2'|]);
    (split; [cbn [remove_opt]; rewrite Fd2, Fd1, F0; reflexivity|]);
    (split; [left; split; [congruence|left; congruence]|]);
    (split; [intros _; split; congruence|]);
    (split; [intros _ _ X; discriminate X|intros X; discriminate X]).
  (* regular source *)
  destruct (k_stat_dst w2) as [sr w3] eqn:O3.
  destruct (k_stat_dst_spec _ _ _ O3) as (Fr3 & C3 & Same3 & Other3 & Fail3 & Al3 & NoF3).
  destruct Fr3 as (K3 & S3 & D3 & So3 & Do3 & Fd3).
  assert (Sc2 : w_script w2 = tl (tl script)) by (rewrite C2, C1, C0; reflexivity).
  assert (Hcommon : forall w1x, w_fds w1x = w_fds w3 -> remove_opt (Some FSrc) (remove_opt None (w_fds w1x)) = []).
  { intros w1x E. cbn [remove_opt]. rewrite E, Fd3, Fd2, Fd1, F0. reflexivity. }
  assert (FF4 : forall n, fault_freeS (firstn (4 + n) script) ->
                 hd_err (w_script w2) = false /\ hd_err (tl (w_script w2)) = false).
  { intros n FF. cbn [Nat.add] in FF. apply ff_firstn_S in FF. destruct FF as [_ FF].
    apply ff_firstn_S in FF. destruct FF as [_ FF]. apply ff_firstn_S in FF. destruct FF as [A FF].
    apply ff_firstn_S in FF. destruct FF as [B _]. rewrite Sc2. auto. }
  assert (Sc3 : w_script w3 = tl (tl (tl script))) by (rewrite C3, Sc2; reflexivity).
  assert (FFa : fault_freeS (firstn 4 script) -> hd_err (w_script w3) = false).
  { intro FF. apply ff_firstn_S in FF. destruct FF as [_ FF].
    apply ff_firstn_S in FF. destruct FF as [_ FF]. apply ff_firstn_S in FF. destruct FF as [_ FF].
    apply ff_firstn_S in FF. destruct FF as [B _]. rewrite Sc3. exact B. }
  assert (FFb : fault_freeS (firstn 5 script) -> hd_err (w_script w3) = false /\ hd_err (tl (w_script w3)) = false).
  { intro FF. apply ff_firstn_S in FF. destruct FF as [_ FF].
    apply ff_firstn_S in FF. destruct FF as [_ FF]. apply ff_firstn_S in FF. destruct FF as [_ FF].
    apply ff_firstn_S in FF. destruct FF as [B FF]. apply ff_firstn_S in FF. destruct FF as [C _].
    rewrite Sc3. auto. }
  assert (HA : after_stat w3 ov (length src) b1 b2 al = (st, w') ->
               (d = DAlias -> stat_faultedb script = true) ->
    (exists w1 dfd sfd st0,
     finish_copy w1 dfd sfd st0 = (st, w') /\ st0 <> SUCCESS /\ st0 <> OUT_OF_FUEL /\
     w_skind w1 = SReg /\ remove_opt sfd (remove_opt dfd (w_fds w1)) = [] /\
     ((w_src w1 = src /\ (w_dst w1 = d \/ (w_dst w1 = DFile [] /\ dst_writable d ov)))
      \/ (d = DAlias /\ ov = true /\ stat_faultedb script = true)) /\
     (SReg <> SReg -> w_dst w1 = d /\ w_src w1 = src) /\
     (ov = false -> d <> DAbsent -> SReg = SReg -> fault_freeS (firstn 4 script) -> st0 = EXISTS) /\
     (SReg = SReg -> dst_writable d ov -> fault_freeS (firstn 5 script) -> False))
    \/
    (exists w1, copy_body w1 (length src) b1 b2 al = (st, w') /\ Inv2 src w1 [] /\ w_soff w1 = O /\
     w_fds w1 = [FDst; FSrc] /\ w_skind w1 = SReg /\ SReg = SReg /\ w_script w1 = skipn 5 script /\
     dst_writable d ov)
    \/
    (exists w1, copy_body w1 (length src) b1 b2 al = (st, w') /\ w_fds w1 = [FDst; FSrc] /\ w_skind w1 = SReg /\
     SReg = SReg /\ d = DAlias /\ ov = true /\ stat_faultedb script = true)).
  { intros Hy Hal.
    destruct (after_stat_cases w3 src d script ov b1 b2 al st w' Hy ltac:(congruence) ltac:(congruence) ltac:(congruence)
             ltac:(rewrite Fd3, Fd2, Fd1, F0; reflexivity) ltac:(congruence) Sc3 Hal)
      as [(wx & dfd & sfd & st0 & A1 & A2 & A3 & A4 & A5 & A6 & A7 & A8)|[(wx & B)|(wx & B)]].
    - left. exists wx, dfd, sfd, st0. repeat (split; [assumption|]).
      split; [intro X; contradiction X; reflexivity|].
      split; [intros X1 X2 _ FF; apply A7; auto|].
      intros _ W FF. destruct (FFb FF) as [P Q]. exact (A8 W P Q).
    - right; left. exists wx. destruct B as (B1 & B2 & B3 & B4 & B5 & B6 & B7). auto 10.
    - right; right. exists wx. destruct B as (B1 & B2 & B3 & B4). auto 10. }
  destruct sr.
  - (* StatFail *)
    apply HA; [exact H|]. intro Hd. rewrite stat_faulted_hd, <- Sc2.
    destruct (Al3 ltac:(congruence)) as [X|X]; [discriminate X|exact X].
  - (* StatSame: refused *)
    left. exists w3, None, (Some FSrc), EXISTS.
    split; [exact H|]. split; [discriminate|]. split; [discriminate|]. split; [congruence|].
    split; [apply Hcommon; reflexivity|]. split; [left; split; [congruence|left; congruence]|].
    split; [intro X; contradiction X; reflexivity|].
    split; [reflexivity|].
    intros _ [W|(_ & b & W)] _; specialize (Same3 eq_refl); congruence.
  - (* StatOther *)
    apply HA; [exact H|]. intro Hd. destruct (Other3 eq_refl) as [[b X]|X]; congruence.
Qed.


(* ---------------------------------------------------------------- results about zix_copy_file *)
Definition run (sk : skind) (src : list Z) (d : dstate) (e0 : Z) (script : list outcome)
           (ov : bool) (b1 b2 : Z) (al : alloc_answer) : status * world :=
  zix_copy_file (world0 sk src d e0 script) ov b1 b2 al.

(* the same-file guard works unless stat(destination) itself is faulted *)
Definition guard_ok (d : dstate) (ov : bool) (script : list outcome) : Prop :=
  ~ (d = DAlias /\ ov = true /\ stat_faultedb script = true).

Lemma fds_closed : forall sk src d e0 script ov b1 b2 al,
  w_fds (snd (run sk src d e0 script ov b1 b2 al)) = [].
Proof.
  intros. unfold run. destruct (zix_copy_file _ ov b1 b2 al) as [st w'] eqn:H. cbn [snd].
  destruct (copy_file_cases _ _ _ _ _ _ _ _ _ _ _ H)
    as [(w1 & dfd & sfd & st0 & A1 & _ & _ & _ & A5 & _)|[(w1 & B1 & _ & _ & B4 & _)|(w1 & C1 & C2 & _)]].
  - destruct (finish_copy_spec _ _ _ _ _ _ A1) as (_ & D & _). congruence.
  - exact (proj1 (copy_body_fds _ _ _ _ _ _ _ B4 B1)).
  - exact (proj1 (copy_body_fds _ _ _ _ _ _ _ C2 C1)).
Qed.

Lemma success_complete : forall sk src d e0 script ov b1 b2 al,
  guard_ok d ov script -> blk_sane b1 b2 ->
  fst (run sk src d e0 script ov b1 b2 al) = SUCCESS ->
  sk = SReg /\ dst_bytes (snd (run sk src d e0 script ov b1 b2 al)) = Some src.
Proof.
  intros sk src d e0 script ov b1 b2 al G Hb. unfold run.
  destruct (zix_copy_file _ ov b1 b2 al) as [st w'] eqn:H. cbn [fst snd]. intros ->.
  destruct (copy_file_cases _ _ _ _ _ _ _ _ _ _ _ H)
    as [(w1 & dfd & sfd & st0 & A1 & A2 & _)|[(w1 & B1 & B2 & B3 & B4 & B5 & B6 & _)|(w1 & _ & _ & _ & _ & C)]].
  - destruct (finish_copy_spec _ _ _ _ _ _ A1) as (_ & _ & _ & S & _). destruct (S eq_refl). contradiction.
  - destruct (copy_body_spec _ _ _ _ _ _ _ B2 B3 B4 B1) as (_ & _ & _ & _ & b & Hd & Hs).
    split; [exact B6|]. unfold dst_bytes. rewrite Hd. rewrite (Hs Hb eq_refl). reflexivity.
  - contradiction (G C).
Qed.

Lemma source_unchanged : forall sk src d e0 script ov b1 b2 al,
  guard_ok d ov script -> w_src (snd (run sk src d e0 script ov b1 b2 al)) = src.
Proof.
  intros sk src d e0 script ov b1 b2 al G. unfold run.
  destruct (zix_copy_file _ ov b1 b2 al) as [st w'] eqn:H. cbn [snd].
  destruct (copy_file_cases _ _ _ _ _ _ _ _ _ _ _ H)
    as [(w1 & dfd & sfd & st0 & A1 & _ & _ & _ & _ & A6 & _)|[(w1 & B1 & B2 & B3 & B4 & _)|(w1 & _ & _ & _ & _ & C)]].
  - destruct (finish_copy_spec _ _ _ _ _ _ A1) as ((_ & Fs & _) & _).
    destruct A6 as [[X _]|X]; [congruence|contradiction (G X)].
  - destruct (copy_body_spec _ _ _ _ _ _ _ B2 B3 B4 B1) as (_ & X & _). exact X.
  - contradiction (G C).
Qed.

Lemma excl_untouched : forall sk src d e0 script b1 b2 al,
  d <> DAbsent ->
  let r := run sk src d e0 script false b1 b2 al in
  w_dst (snd r) = d /\ w_src (snd r) = src /\ fst r <> SUCCESS /\
  (sk = SReg -> fault_freeS (firstn 4 script) -> fst r = EXISTS).
Proof.
  intros sk src d e0 script b1 b2 al Hd. unfold run.
  destruct (zix_copy_file _ false b1 b2 al) as [st w'] eqn:H. cbn [fst snd].
  destruct (copy_file_cases _ _ _ _ _ _ _ _ _ _ _ H)
    as [(w1 & dfd & sfd & st0 & A1 & A2 & A3 & A4 & A5 & A6 & A7 & A8 & _)|[(w1 & _ & _ & _ & _ & _ & _ & _ & W)|(w1 & _ & _ & _ & _ & _ & C & _)]].
  - destruct (finish_copy_spec _ _ _ _ _ _ A1) as ((_ & Fs & Fd) & _ & _ & _ & Keep & _).
    rewrite (Keep A2).
    destruct A6 as [[X [Y|(Y & [W|(W & _)])]]|(_ & X & _)]; try discriminate; try contradiction.
    repeat split; try congruence. intros Hs FF. apply A8; auto.
  - destruct W as [W|(W & _)]; [contradiction|discriminate].
  - discriminate.
Qed.

Lemma nonregular_refused : forall sk src d e0 script ov b1 b2 al,
  sk <> SReg ->
  let r := run sk src d e0 script ov b1 b2 al in
  fst r <> SUCCESS /\ w_fds (snd r) = [] /\ w_dst (snd r) = d /\ w_src (snd r) = src.
Proof.
  intros sk src d e0 script ov b1 b2 al Hk. cbn zeta.
  split; [|split; [apply fds_closed|]].
  - unfold run. destruct (zix_copy_file _ ov b1 b2 al) as [st w'] eqn:H. cbn [fst].
    destruct (copy_file_cases _ _ _ _ _ _ _ _ _ _ _ H)
      as [(w1 & dfd & sfd & st0 & A1 & A2 & _)|[(w1 & _ & _ & _ & _ & _ & B6 & _)|(w1 & _ & _ & _ & C4 & _)]].
    + destruct (finish_copy_spec _ _ _ _ _ _ A1) as (_ & _ & _ & _ & Keep & _). rewrite (Keep A2). exact A2.
    + contradiction.
    + contradiction.
  - unfold run. destruct (zix_copy_file _ ov b1 b2 al) as [st w'] eqn:H. cbn [snd].
    destruct (copy_file_cases _ _ _ _ _ _ _ _ _ _ _ H)
      as [(w1 & dfd & sfd & st0 & A1 & _ & _ & _ & _ & _ & A7 & _)|[(w1 & _ & _ & _ & _ & _ & B6 & _)|(w1 & _ & _ & _ & C4 & _)]].
    + destruct (finish_copy_spec _ _ _ _ _ _ A1) as ((_ & Fs & Fd) & _). destruct (A7 Hk). split; congruence.
    + contradiction.
    + contradiction.
Qed.

(* no I/O fault (the kernel copy may be unavailable), distinct files: SUCCESS *)
Lemma benign_split : forall src_empty s, benignb src_empty s = true ->
  fault_freeS s \/
  (src_empty = false /\ fault_freeS (firstn 5 s) /\
   exists e, hd Full (skipn 5 s) = Err e /\ unsupported_errno e = true /\ fault_freeS (tl (skipn 5 s))).
Proof.
  intros se s H. unfold benignb in H. apply orb_true_iff in H. destruct H as [H|H]; [left; exact H|right].
  apply andb_true_iff in H. destruct H as [H C]. apply andb_true_iff in H. destruct H as [H B].
  apply andb_true_iff in H. destruct H as [A F5].
  split; [destruct se; [discriminate|reflexivity]|]. split; [exact F5|].
  destruct s as [|a [|b [|c [|d [|e [|f l]]]]]]; try discriminate B.
  destruct f as [| |p]; try discriminate B.
  exists p. cbn [skipn hd tl]. split; [reflexivity|]. split; [exact B|]. exact C.
Qed.

Lemma fault_free_firstn : forall n s, fault_freeS s -> fault_freeS (firstn n s).
Proof.
  induction n as [|n IH]; intros [|x l] H; try reflexivity.
  cbn [firstn]. unfold fault_freeS in *. cbn [forallb] in *. apply andb_true_iff in H. destruct H as [A B].
  rewrite A. cbn [andb]. apply IH. exact B.
Qed.
Lemma fault_free_skipn : forall n s, fault_freeS s -> fault_freeS (skipn n s).
Proof.
  induction n as [|n IH]; intros [|x l] H; try reflexivity; try exact H.
  cbn [skipn]. apply IH. unfold fault_freeS in *. cbn [forallb] in H. apply andb_true_iff in H. tauto.
Qed.

Lemma no_fault_success : forall src d e0 script ov b1 b2 al,
  dst_writable d ov -> blk_sane b1 b2 ->
  benignb (match src with [] => true | _ => false end) script = true ->
  fst (run SReg src d e0 script ov b1 b2 al) = SUCCESS.
Proof.
  intros src d e0 script ov b1 b2 al W Hb Hben. unfold run.
  destruct (zix_copy_file _ ov b1 b2 al) as [st w'] eqn:H. cbn [fst].
  assert (F5 : fault_freeS (firstn 5 script)).
  { destruct (benign_split _ _ Hben) as [FF|(_ & FF & _)]; [apply fault_free_firstn; exact FF|exact FF]. }
  destruct (copy_file_cases _ _ _ _ _ _ _ _ _ _ _ H)
    as [(w1 & dfd & sfd & st0 & _ & _ & _ & _ & _ & _ & _ & _ & A9)|[(w1 & B1 & B2 & B3 & B4 & B5 & B6 & B7 & _)|(w1 & _ & _ & _ & _ & C & _)]].
  - exfalso. exact (A9 eq_refl W F5).
  - destruct (benign_split _ _ Hben) as [FF|(Hne & _ & e & He & Hu & FFt)].
    + eapply copy_body_ff; [exact B2|exact B3| |exact B1]. rewrite B7. apply fault_free_skipn. exact FF.
    + eapply copy_body_unsupported; [exact B2|exact B3|exact Hb| | | | |exact B1].
      * destruct src; [discriminate|cbn [length]; lia].
      * rewrite B7. exact He.
      * exact Hu.
      * rewrite B7. exact FFt.
  - destruct W as [W|(_ & b & W)]; congruence.
Qed.

Lemma never_out_of_fuel : forall sk src d e0 script ov b1 b2 al,
  guard_ok d ov script -> fst (run sk src d e0 script ov b1 b2 al) <> OUT_OF_FUEL.
Proof.
  intros sk src d e0 script ov b1 b2 al G. unfold run.
  destruct (zix_copy_file _ ov b1 b2 al) as [st w'] eqn:H. cbn [fst].
  destruct (copy_file_cases _ _ _ _ _ _ _ _ _ _ _ H)
    as [(w1 & dfd & sfd & st0 & A1 & A2 & A3 & _)|[(w1 & B1 & B2 & B3 & B4 & _)|(w1 & _ & _ & _ & _ & C)]].
  - destruct (finish_copy_spec _ _ _ _ _ _ A1) as (_ & _ & NF & _). auto.
  - destruct (copy_body_spec _ _ _ _ _ _ _ B2 B3 B4 B1) as (_ & _ & _ & X & _). exact X.
  - contradiction (G C).
Qed.
