(* C05: FIFO order over whole histories: the bytes that came out, followed by the bytes still
   stored, are the bytes that went in, in the same order. *)
From Coq Require Import ZArith Znumtheory List Bool Lia ZifyBool.
From Zix Require Import RingSpec RingModel RingProofsNpot RingProofsBase RingProofs RingProofsSim
  RingProofsHist.
Import ListNotations.
Local Open Scope Z_scope.

(* bytes entering the queue at one call: a served write; the amended bytes at commit *)
Definition step_in (cap : Z) (s : sstate) (o : op) : list Z :=
  match o with
  | OWrite src => if len src <=? cap - len (sq s) then src else []
  | OCommit => match stx s with Some (p, _) => p | None => [] end
  | _ => []
  end.

(* bytes leaving the queue at one call: a served read or skip *)
Definition step_out (s : sstate) (o : op) : list Z :=
  match o with
  | ORead n | OSkip n => if n <=? len (sq s) then ztake n (sq s) else []
  | _ => []
  end.

Fixpoint run_in (cap : Z) (s : sstate) (h : list op) : list Z :=
  match h with
  | [] => []
  | o :: h' =>
      match spec_step cap s o with
      | Some (s1, _) => step_in cap s o ++ run_in cap s1 h'
      | None => []
      end
  end.

Fixpoint run_out (cap : Z) (s : sstate) (h : list op) : list Z :=
  match h with
  | [] => []
  | o :: h' =>
      match spec_step cap s o with
      | Some (s1, _) => step_out s o ++ run_out cap s1 h'
      | None => []
      end
  end.

Definition is_reset (o : op) : bool := match o with OReset => true | _ => false end.
Definition is_skip (o : op) : bool := match o with OSkip _ => true | _ => false end.

(* the bytes the read calls of a history delivered, in order *)
Fixpoint read_data (h : list op) (outs : list (Z * list Z)) : list Z :=
  match h, outs with
  | ORead _ :: h', (_, d) :: outs' => d ++ read_data h' outs'
  | _ :: h', _ :: outs' => read_data h' outs'
  | _, _ => []
  end.

Lemma ztake_zdrop n (l : list Z) : ztake n l ++ zdrop n l = l.
Proof. apply firstn_skipn. Qed.

Lemma step_balance cap s o s1 out :
  spec_step cap s o = Some (s1, out) -> is_reset o = false ->
  sq s ++ step_in cap s o = step_out s o ++ sq s1.
Proof.
  intros Hs Hr. destruct o as [src|n|n|n| | |src| ]; cbn [spec_step step_in step_out] in *;
    try discriminate.
  - destruct (len src <=? cap - len (sq s)); inversion Hs; subst; cbn [sq]; now rewrite ?app_nil_r.
  - destruct (n <? 0); [discriminate|].
    destruct (n <=? len (sq s)); inversion Hs; subst; cbn [sq app].
    + rewrite app_nil_r. symmetry. apply ztake_zdrop.
    + now rewrite app_nil_r.
  - destruct (n <? 0); [discriminate|].
    destruct (n <=? len (sq s)); inversion Hs; subst; cbn [sq app]; now rewrite app_nil_r.
  - destruct (n <? 0); [discriminate|].
    destruct (n <=? len (sq s)); inversion Hs; subst; cbn [sq app].
    + rewrite app_nil_r. symmetry. apply ztake_zdrop.
    + now rewrite app_nil_r.
  - inversion Hs; subst. cbn [sq app]. now rewrite app_nil_r.
  - destruct (stx s) as [[p room]|]; [|discriminate].
    destruct (len p + len src <=? room); inversion Hs; subst; cbn [sq app]; now rewrite app_nil_r.
  - destruct (stx s) as [[p room]|]; [|discriminate]. inversion Hs; subst. reflexivity.
Qed.

Lemma run_balance cap h : forall s s' outs,
  spec_run cap s h = Some (s', outs) -> existsb is_reset h = false ->
  sq s ++ run_in cap s h = run_out cap s h ++ sq s'.
Proof.
  induction h as [|o h IH]; intros s s' outs Hs Hr; cbn [spec_run run_in run_out existsb] in *.
  - inversion Hs; subst. now rewrite app_nil_r.
  - apply orb_false_iff in Hr as [Hr1 Hr2].
    destruct (spec_step cap s o) as [[s1 out]|] eqn:E1; [|discriminate].
    destruct (spec_run cap s1 h) as [[s2 outs']|] eqn:E2; [|discriminate].
    inversion Hs; subst; clear Hs.
    rewrite app_assoc, (step_balance _ _ _ _ _ E1 Hr1), <- !app_assoc. f_equal.
    exact (IH _ _ _ E2 Hr2).
Qed.

(* without skips, what left the queue is what the reads delivered *)
Lemma run_out_read_data cap h : forall s s' outs,
  spec_run cap s h = Some (s', outs) -> existsb is_skip h = false ->
  run_out cap s h = read_data h outs.
Proof.
  induction h as [|o h IH]; intros s s' outs Hs Hk; cbn [spec_run run_out read_data existsb] in *.
  - reflexivity.
  - apply orb_false_iff in Hk as [Hk1 Hk2].
    destruct (spec_step cap s o) as [[s1 out]|] eqn:E1; [|discriminate].
    destruct (spec_run cap s1 h) as [[s2 outs']|] eqn:E2; [|discriminate].
    inversion Hs; subst; clear Hs.
    rewrite (IH _ _ _ E2 Hk2).
    destruct o as [src|n|n|n| | |src| ]; cbn [step_out app is_skip] in *; try reflexivity;
      try discriminate; try (destruct out; reflexivity).
    cbn [spec_step] in E1. destruct (n <? 0); [discriminate|].
    destruct (n <=? len (sq s)); inversion E1; subst; reflexivity.
Qed.

Lemma fifo_lemma sz junk h s' outs :
  1 <= sz <= 2 ^ 31 ->
  spec_run (spec_capacity sz) spec_init h = Some (s', outs) ->
  existsb is_reset h = false -> existsb is_skip h = false ->
  exists st', ring_run (ring_init sz junk) h = (st', outs) /\
    run_in (spec_capacity sz) spec_init h = read_data h outs ++ abs (fst st').
Proof.
  intros Hs Hrun Hr Hk.
  destruct (R_run _ h _ _ _ _ (R_init sz junk Hs) Hrun) as (st' & Eq & (_ & _ & _ & Ha & _)).
  exists st'. split; [exact Eq|].
  pose proof (run_balance _ _ _ _ _ Hrun Hr) as B. cbn [spec_init sq app] in B.
  rewrite B, (run_out_read_data _ _ _ _ _ Hrun Hk), Ha. reflexivity.
Qed.
