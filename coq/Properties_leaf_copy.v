(* zix_get_block_size and the stack-buffer sizes of /repo/src/posix/filesystem_posix.c (zix_copy_file) and
   /repo/src/filesystem.c (zix_file_equals), REGENERATED from the C source on every run (gen/Leaf.v, gen/Constants.v,
   module Copy, by tools/translate_leaf.py), are what the hand-written models of C14 (CopyModel) and C15 (FsModel)
   use.  s1->st_blksize / s2->st_blksize (blksize_t: signed, 64 bits) are the parameters s1_st_blksize, s2_st_blksize. *)
From Coq Require Import ZArith Bool Lia ZifyBool.
From Zix Require CopyModel.   (* FsModel (file_equals) uses CopyModel.stack_buf_size too *)
From Zix.gen Require Import Leaf Constants.
Local Open Scope Z_scope.
Ltac Zify.zify_post_hook ::= Z.div_mod_to_equations.

(* every if / ?: of the regenerated term is split, the arithmetic left is linear: a rewrite of the C function into
   early returns or with the comparison turned round keeps the proof checking *)
Ltac break_ifs :=
  repeat match goal with |- context [if ?c then _ else _] => let E := fresh "E" in destruct c eqn:E end.

Theorem leaf_get_block_size_is_model :
  forall b1 b2, Copy.leaf_zix_get_block_size_dom b1 b2 ->
    Copy.leaf_zix_get_block_size b1 b2 = CopyModel.get_block_size b1 b2.
Proof.
  intros b1 b2 _. unfold Copy.leaf_zix_get_block_size, CopyModel.get_block_size. cbv zeta.
  break_ifs; lia.
Qed.
Print Assumptions leaf_get_block_size_is_model.

Theorem stack_buffer_sizes_are_model :
  Copy.copy_file_stack_buf = Z.of_nat CopyModel.stack_buf_size /\
  Copy.file_equals_stack_a = Z.of_nat CopyModel.stack_buf_size /\
  Copy.file_equals_stack_b = Z.of_nat CopyModel.stack_buf_size.
Proof. repeat split; reflexivity.
Qed.
Print Assumptions stack_buffer_sizes_are_model.
