(* C10 — basic lemmas: the accessor, slices, and the loops of PathDecModel.v *)
From Coq Require Import ZArith List Bool Lia ZifyBool.
From Zix Require Import PathDecSpec PathDecModel.
Import ListNotations.
Local Open Scope Z_scope.

Definition znth (s : mstr) (i : Z) : Z := nth (Z.to_nat i) s 0.

Lemma slen_nonneg : forall s, 0 <= slen s.
Proof. intros; unfold slen; lia. Qed.

Lemma slen_nil : slen [] = 0.
Proof. reflexivity. Qed.

Lemma slen_cons : forall c s, slen (c :: s) = slen s + 1.
Proof. intros; unfold slen; cbn [length]; lia. Qed.

Lemma slen_app : forall a b, slen (a ++ b) = slen a + slen b.
Proof. intros; unfold slen; rewrite app_length; lia. Qed.

Lemma znth_len : forall s, znth s (slen s) = 0.
Proof. intros; unfold znth, slen. rewrite Nat2Z.id. apply nth_overflow. lia. Qed.

Lemma znth_over : forall s i, slen s <= i -> znth s i = 0.
Proof. intros; unfold znth, slen in *. apply nth_overflow. lia. Qed.

(* every in-bounds read succeeds and returns znth (0 = the NUL at index len) *)
Lemma rdr_ok : forall s i, 0 <= i <= slen s -> rdr s i = Ok (znth s i).
Proof.
  intros s i H. unfold rdr, rd.
  destruct (i <? 0) eqn:E1; [lia|].
  destruct (i <? slen s) eqn:E2; [reflexivity|].
  destruct (i =? slen s) eqn:E3; [|lia].
  assert (i = slen s) by lia. subst. now rewrite znth_len.
Qed.

(* ---- slices ------------------------------------------------------------------------ *)

Lemma firstn_add : forall {A} n m (l : list A),
  firstn (n + m) l = firstn n l ++ firstn m (skipn n l).
Proof.
  induction n; intros; cbn; [reflexivity|]. destruct l; cbn.
  - now rewrite firstn_nil.
  - now rewrite IHn.
Qed.

Lemma skipn_add : forall {A} m n (l : list A), skipn n (skipn m l) = skipn (m + n) l.
Proof.
  induction m; intros; cbn; [reflexivity|]. destruct l; cbn; [now rewrite skipn_nil|apply IHm].
Qed.

Lemma slice_nil : forall s a, slice s a a = [].
Proof. intros; unfold slice. now rewrite Z.sub_diag. Qed.

Lemma slice_empty : forall s a b, b <= a -> slice s a b = [].
Proof. intros; unfold slice. replace (Z.to_nat (b - a)) with O by lia. reflexivity. Qed.

Lemma slice_all : forall s, slice s 0 (slen s) = s.
Proof.
  intros; unfold slice, slen. cbn [Z.to_nat skipn]. rewrite Z.sub_0_r, Nat2Z.id. apply firstn_all.
Qed.

Lemma slice_app : forall s a b c, 0 <= a <= b -> b <= c ->
  slice s a c = slice s a b ++ slice s b c.
Proof.
  intros s a b c H1 H2. unfold slice.
  replace (Z.to_nat (c - a)) with (Z.to_nat (b - a) + Z.to_nat (c - b))%nat by lia.
  rewrite firstn_add. f_equal. f_equal. rewrite skipn_add. f_equal. lia.
Qed.

Lemma slice_length : forall s a b, 0 <= a <= b -> b <= slen s ->
  Z.of_nat (length (slice s a b)) = b - a.
Proof.
  intros s a b H1 H2. unfold slice, slen in *. rewrite firstn_length, skipn_length. lia.
Qed.

Lemma slen_slice : forall s a b, 0 <= a <= b -> b <= slen s -> slen (slice s a b) = b - a.
Proof. intros. unfold slen at 1. now apply slice_length. Qed.

Lemma slice_one : forall s a, 0 <= a < slen s -> slice s a (a + 1) = [znth s a].
Proof.
  intros s a H. unfold slice, znth, slen in *.
  replace (Z.to_nat (a + 1 - a)) with 1%nat by lia.
  remember (Z.to_nat a) as n. assert (Hn : (n < length s)%nat) by lia. clear - Hn.
  revert s Hn. induction n; intros [|c s] Hn; cbn in *; try lia; [reflexivity|].
  apply IHn. lia.
Qed.

Lemma slice_first : forall s a b, 0 <= a < b -> b <= slen s ->
  slice s a b = znth s a :: slice s (a + 1) b.
Proof.
  intros. rewrite (slice_app s a (a + 1) b) by lia. rewrite slice_one by lia. reflexivity.
Qed.

Lemma slice_last : forall s a b, 0 <= a < b -> b <= slen s ->
  slice s a b = slice s a (b - 1) ++ [znth s (b - 1)].
Proof.
  intros. rewrite (slice_app s a (b - 1) b) by lia. f_equal.
  replace b with (b - 1 + 1) at 2 by lia. apply slice_one. lia.
Qed.

Lemma slice_forall : forall (P : Z -> Prop) s a b, 0 <= a -> b <= slen s ->
  (forall j, a <= j < b -> P (znth s j)) -> Forall P (slice s a b).
Proof.
  intros P s a b Ha Hb H.
  destruct (Z_le_gt_dec b a) as [Hle|Hgt]; [rewrite slice_empty by lia; constructor|].
  remember (Z.to_nat (b - a)) as n eqn:En. revert a Ha Hgt En H.
  induction n; intros; [lia|].
  rewrite slice_first by lia. constructor; [apply H; lia|].
  destruct (Z.eq_dec (a + 1) b) as [->|Hne]; [rewrite slice_nil; constructor|].
  apply IHn; try lia. intros; apply H; lia.
Qed.

Lemma slice_nonempty : forall s a b, 0 <= a < b -> b <= slen s -> slice s a b <> [].
Proof. intros s a b H1 H2 E. pose proof (slice_length s a b ltac:(lia) H2) as L. rewrite E in L. cbn in L. lia. Qed.

Lemma is_nil_slice : forall s a b, 0 <= a <= b -> b <= slen s -> is_nil (slice s a b) = (a =? b).
Proof.
  intros s a b H1 H2. destruct (Z.eq_dec a b) as [->|Hne].
  - rewrite slice_nil. cbn. lia.
  - pose proof (slice_nonempty s a b ltac:(lia) H2). destruct (slice s a b); [congruence|cbn; lia].
Qed.

(* ---- the root loop ----------------------------------------------------------------- *)

Lemma is_sep_znth_len : forall s, is_sep (znth s (slen s)) = false.
Proof. intros. rewrite znth_len. reflexivity. Qed.

Lemma root_dir_loop_spec : forall fuel s b e,
  1 <= e <= slen s -> b = e - 1 ->
  (forall j, 0 <= j < e -> is_sep (znth s j) = true) ->
  Z.of_nat fuel > slen s - e ->
  exists k, root_dir_loop fuel s b e = Ok (k - 1, k) /\ e <= k <= slen s /\
            (forall j, 0 <= j < k -> is_sep (znth s j) = true) /\ is_sep (znth s k) = false.
Proof.
  induction fuel; intros s b e He Hb Hall Hf; [lia|].
  cbn [root_dir_loop]. rewrite rdr_ok by lia. cbn [bind].
  unfold is_dir_sep. fold (is_sep (znth s e)).
  destruct (is_sep (znth s e)) eqn:E.
  - assert (e <> slen s) by (intros ->; rewrite is_sep_znth_len in E; discriminate).
    destruct (IHfuel s e (e + 1)) as (k & Hk & Hr & Hs & Hn); try lia.
    + intros j Hj. destruct (Z.eq_dec j e) as [->|]; [exact E|apply Hall; lia].
    + exists k. replace (e + 1 - 1) with e in Hk by lia. repeat split; try assumption; lia.
  - exists e. subst b. repeat split; try assumption; lia.
Qed.

(* ---- the backward loops ------------------------------------------------------------ *)

Lemma scan_down_spec : forall pred off fuel s p l,
  0 <= off <= 1 -> 0 <= p <= l -> l <= slen s ->
  Z.of_nat fuel > l - p ->
  exists r, scan_down pred off fuel s p l = Ok r /\ p <= r <= l /\
            (forall j, r < j <= l -> pred (znth s (j - off)) = true) /\
            (p < r -> pred (znth s (r - off)) = false).
Proof.
  induction fuel; intros s p l Hoff Hp Hl Hf; [lia|].
  cbn [scan_down]. destruct (l >? p) eqn:E.
  - rewrite rdr_ok by lia. cbn [bind].
    destruct (pred (znth s (l - off))) eqn:Ep.
    + destruct (IHfuel s p (l - 1)) as (r & Hr & Hb & Ha & Hs); try lia.
      exists r. repeat split; try assumption; try lia.
      intros j Hj. destruct (Z.eq_dec j l) as [->|]; [exact Ep|apply Ha; lia].
    + exists l. split; [reflexivity|]. split; [lia|]. split; [intros; lia|intros; exact Ep].
  - exists l. split; [reflexivity|]. split; [lia|]. split; intros; lia.
Qed.
