Require Extraction.
Require Import ExtrOcamlBasic.
From Zix Require Import HashSpec HashModel FaultSpec AllocModel HashAllocModel.
Separate Extraction HashAllocModel.astep HashAllocModel.anew HashAllocModel.afree AllocModel.ast0 HashModel.step HashModel.roles_run HashModel.find HashModel.hash_new HashModel.roles_okb HashModel.live_recs
  HashModel.hf_const HashModel.hf_id HashModel.hf_mod4 HashModel.hf_mult HashModel.hf_special
  HashSpec.spec_find HashSpec.spec_insert HashSpec.spec_remove HashSpec.spec_size.
