Require Extraction.
Require Import ExtrOcamlBasic.
From Zix Require Import SemErrnoModel LockModel LockSpec.
Separate Extraction SemErrnoModel.status_code LockModel.lock_flags LockModel.unlock_flags LockModel.file_lock_status
  LockModel.lstep LockModel.lrun LockModel.linit LockSpec.spec_lock_step LockSpec.spec_lock_run LockSpec.spec_lock_init.
