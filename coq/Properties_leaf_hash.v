(* Leaf functions, threshold expressions and constants of /repo/src/hash.c, REGENERATED from the C source on every run
   (gen/Leaf.v, gen/Constants.v, module Hash, by tools/translate_leaf.py; tombstone and min_n_entries are read from a
   compiled probe that includes hash.c), are the ones the hand-written model of C03 (HashModel) uses.
   Whole functions: fold_hash, next_index (hash->mask is the parameter hash_mask).  Fragments: the load limit, the new
   count and the grow test of zix_hash_insert_at, the shrink test and the count decrement of zix_hash_erase, the size
   guard of shrink(), the new sizes and masks stored by grow(), shrink() and zix_hash_new.  HashModel inlines these
   expressions and leaves the 64-bit wrap off where the table invariants exclude it; every such equation carries the
   bound that excludes the wrap as its hypothesis (the weakest one), everything else holds on the whole domain of the
   C types.  hash_model_unfolds shows, by conversion, that the model's functions are built from the expressions
   compared here. *)
From Coq Require Import ZArith Bool List Lia ZifyBool.
From Zix Require Import HashSpec HashModel.
From Zix.gen Require Leaf Constants.
Import ListNotations.
Local Open Scope Z_scope.
Ltac Zify.zify_post_hook ::= Z.div_mod_to_equations.
Module L := Leaf.Hash.
Module C := Constants.Hash.

Theorem leaf_fold_hash_is_model :
  forall h mask, L.leaf_fold_hash_dom h mask -> L.leaf_fold_hash h mask = fold_hash h mask.
Proof. intros. reflexivity.
Qed.
Print Assumptions leaf_fold_hash_is_model.

(* (i == hash->mask) ? 0U : (i + 1U).  The model has no wrap on i + 1: probe indices stay below n_entries <= 2^63 *)
Theorem leaf_next_index_is_model :
  forall mask i, L.leaf_next_index_dom mask i -> i = mask \/ i < 2 ^ 64 - 1 ->
    L.leaf_next_index mask i = next_index mask i.
Proof.
  intros mask i [_ Hi] Hb. unfold L.leaf_next_index, next_index.
  destruct (i =? mask) eqn:E; [reflexivity|]. apply Z.mod_small. lia.
Qed.
Print Assumptions leaf_next_index_is_model.

(* the expressions HashModel.insert_at / erase / grow / shrink / resize / hash_new inline *)
Definition model_max_load (n : Z) : Z := n / 2 + n / 8.
Definition model_new_count (c : Z) : Z := c + 1.
Definition model_grow_cond (new_count max_load : Z) : bool := max_load <=? new_count.
Definition model_shrink_cond (c n : Z) : bool := c <? n / 4.
Definition model_shrink_allowed (n : Z) : bool := min_n_entries <? n.
Definition model_grow_size (n : Z) : Z := Z.shiftl n 1.
Definition model_shrink_size (n : Z) : Z := Z.shiftr n 1.
Definition model_mask (n : Z) : Z := n - 1.
Definition model_erase_count (c : Z) : Z := c - 1.

Theorem leaf_hash_max_load_is_model :
  forall n, L.leaf_hash_max_load_dom n -> L.leaf_hash_max_load n = model_max_load n.
Proof. intros n Hn. unfold L.leaf_hash_max_load_dom in Hn. unfold L.leaf_hash_max_load, model_max_load. lia.
Qed.
Print Assumptions leaf_hash_max_load_is_model.

Theorem leaf_hash_new_count_is_model :
  forall c, L.leaf_hash_new_count_dom c -> c < 2 ^ 64 - 1 -> L.leaf_hash_new_count c = model_new_count c.
Proof. intros c Hc Hb. unfold L.leaf_hash_new_count_dom in Hc. unfold L.leaf_hash_new_count, model_new_count. lia.
Qed.
Print Assumptions leaf_hash_new_count_is_model.

Theorem leaf_hash_grow_cond_is_model :
  forall new_count max_load, L.leaf_hash_grow_cond new_count max_load = model_grow_cond new_count max_load.
Proof. intros. unfold L.leaf_hash_grow_cond, model_grow_cond. lia.
Qed.
Print Assumptions leaf_hash_grow_cond_is_model.

Theorem leaf_hash_shrink_cond_is_model :
  forall c n, L.leaf_hash_shrink_cond c n = model_shrink_cond c n.
Proof. intros. unfold L.leaf_hash_shrink_cond, model_shrink_cond. lia.
Qed.
Print Assumptions leaf_hash_shrink_cond_is_model.

Theorem leaf_hash_shrink_allowed_is_model :
  forall n, L.leaf_hash_shrink_allowed n = model_shrink_allowed n.
Proof. intros. unfold L.leaf_hash_shrink_allowed, model_shrink_allowed, min_n_entries. lia.
Qed.
Print Assumptions leaf_hash_shrink_allowed_is_model.

(* hash->n_entries <<= 1U wraps at 2^64, the model's Z.shiftl does not; n < 2^63 is exactly what excludes the wrap
   (a table of 2^63 entries of 16 bytes cannot be allocated) *)
Theorem leaf_hash_grow_size_is_model :
  forall n, L.leaf_hash_grow_size_dom n -> n < 2 ^ 63 -> L.leaf_hash_grow_size n = model_grow_size n.
Proof.
  intros n Hn Hb. unfold L.leaf_hash_grow_size_dom in Hn. unfold L.leaf_hash_grow_size, model_grow_size.
  rewrite Z.shiftl_mul_pow2 by lia. apply Z.mod_small. lia.
Qed.
Print Assumptions leaf_hash_grow_size_is_model.

Theorem leaf_hash_shrink_size_is_model :
  forall n, L.leaf_hash_shrink_size_dom n -> L.leaf_hash_shrink_size n = model_shrink_size n.
Proof. intros. reflexivity.
Qed.
Print Assumptions leaf_hash_shrink_size_is_model.

(* hash->mask = hash->n_entries - 1U in grow(), shrink() and zix_hash_new: no wrap for n_entries >= 1 *)
Theorem leaf_hash_masks_are_model :
  forall n, L.leaf_hash_grow_mask_dom n -> 1 <= n ->
    L.leaf_hash_grow_mask n = model_mask n /\ L.leaf_hash_shrink_mask n = model_mask n /\
    L.leaf_hash_new_mask n = model_mask n.
Proof.
  intros n Hn Hb. unfold L.leaf_hash_grow_mask_dom in Hn.
  unfold L.leaf_hash_grow_mask, L.leaf_hash_shrink_mask, L.leaf_hash_new_mask, model_mask. lia.
Qed.
Print Assumptions leaf_hash_masks_are_model.

(* --hash->count: erase is given an iterator to a record, so count >= 1 *)
Theorem leaf_hash_erase_count_is_model :
  forall c, L.leaf_hash_erase_count_dom c -> 1 <= c -> L.leaf_hash_erase_count c = model_erase_count c.
Proof. intros c Hc Hb. unfold L.leaf_hash_erase_count_dom in Hc. unfold L.leaf_hash_erase_count, model_erase_count. lia.
Qed.
Print Assumptions leaf_hash_erase_count_is_model.

Theorem hash_constants_are_model :
  C.tombstone = tombstone /\ C.min_n_entries = min_n_entries /\
  hash_new = mkH 0 (model_mask C.min_n_entries) C.min_n_entries (repeat Empty (Z.to_nat C.min_n_entries)).
Proof. repeat split; reflexivity.
Qed.
Print Assumptions hash_constants_are_model.

(* the model's functions are built from exactly the expressions compared above (conversion only) *)
Theorem hash_model_unfolds :
  (forall st p r o,
      insert_at st p r o =
      if has_value (zget (h_ent st) (p_index p)) then (Ret (EXISTS, st), [], o)
      else
        let st1 := set_ent st (zset (h_ent st) (p_index p) (Live (p_code p) r)) in
        let max_load := model_max_load (h_n st) in
        let new_count := model_new_count (h_count st) in
        if model_grow_cond new_count max_load then
          let '(g, lg, o') := grow st1 o in
          (match g with
           | Ret (SUCCESS, st2) => Ret (SUCCESS, set_count st2 new_count)
           | Ret (s, st2) => Ret (s, set_ent st2 (zset (h_ent st2) (p_index p) (zget (h_ent st) (p_index p))))
           | OutOfFuel => OutOfFuel
           | Undef => Undef
           end, lg, o')
        else (Ret (SUCCESS, set_count st1 new_count), [], o)) /\
  (forall st i o,
      erase st i o =
      let removed := s_value (zget (h_ent st) i) in
      let st1 := set_ent st (zset (h_ent st) i Tomb) in
      let st2 := set_count st1 (model_erase_count (h_count st1)) in
      if model_shrink_cond (h_count st2) (h_n st2) then
        let '(s, lg, o') := shrink st2 o in
        (match s with
         | Ret (status, st3) => Ret (status, removed, st3)
         | OutOfFuel => OutOfFuel
         | Undef => Undef
         end, lg, o')
      else (Ret (SUCCESS, removed, st2), [], o)) /\
  (forall st o, grow st o = resize st (model_grow_size (h_n st)) o) /\
  (forall st o, shrink st o =
                if model_shrink_allowed (h_n st) then resize st (model_shrink_size (h_n st)) o
                else (Ret (SUCCESS, st), [], o)) /\
  (forall st new_n o,
      resize st new_n o =
      let old_n := h_n st in
      let old_mask := h_mask st in
      let '(r, lg, o') := rehash (set_size st new_n (model_mask new_n)) old_n o in
      (match r with
       | Ret (SUCCESS, st2) => Ret (SUCCESS, st2)
       | Ret (s, st2) => Ret (s, set_size st2 old_n old_mask)
       | OutOfFuel => OutOfFuel
       | Undef => Undef
       end, lg, o')).
Proof. repeat split; reflexivity.
Qed.
Print Assumptions hash_model_unfolds.
