(* C04: the invariant of DESIGN.md Appendix B and its basic consequences *)
From Coq Require Import ZArith List Bool Arith Lia.
From Zix Require Import RingConcModel RingConcProofsA.
Import ListNotations.
Local Open Scope Z_scope.

Ltac proj := cbn [sm sw sr sg trace WH RH buf wep rep race wpcs wtx wresl vw wcalls wsteps
                  rpcs rresl vr rcalls rsteps gT gtxr wlog rlast fst snd] in *.

(* ------------------------------------------------------------------ histories *)
Definition hist_ok (N : Z) (h : list (Z * Z)) : Prop :=
  (0 < length h)%nat /\
  (forall i, (i < length h)%nat -> hval h i = hcnt h i mod N /\ 0 <= hcnt h i) /\
  (forall i j, (i <= j)%nat -> (j < length h)%nat -> hcnt h i <= hcnt h j).

Lemma last_nth_pair : forall (h : list (Z * Z)) d, last h d = nth (length h - 1) h d.
Proof.
  induction h as [|x h IH]; intros d; [reflexivity|].
  destruct h as [|y h]; [reflexivity|].
  change (last (x :: y :: h) d) with (last (y :: h) d). rewrite IH.
  cbn [length]. replace (S (S (length h)) - 1)%nat with (S (S (length h) - 1)) by lia. reflexivity.
Qed.

Lemma lastc_hcnt : forall h, lastc h = hcnt h (length h - 1).
Proof. intros. unfold lastc, hcnt. rewrite last_nth_pair. reflexivity. Qed.

Lemma lastv_hval : forall h, lastv h = hval h (length h - 1).
Proof. intros. unfold lastv, hval. rewrite last_nth_pair. reflexivity. Qed.

Lemma hcnt_app_l : forall h t i, (i < length h)%nat -> hcnt (h ++ t) i = hcnt h i.
Proof. intros. unfold hcnt. rewrite app_nth1 by assumption. reflexivity. Qed.

Lemma hval_app_l : forall h t i, (i < length h)%nat -> hval (h ++ t) i = hval h i.
Proof. intros. unfold hval. rewrite app_nth1 by assumption. reflexivity. Qed.

Lemma hcnt_app_last : forall h v cn, hcnt (h ++ [(v, cn)]) (length h) = cn.
Proof. intros. unfold hcnt. rewrite app_nth2 by lia. rewrite Nat.sub_diag. reflexivity. Qed.

Lemma hval_app_last : forall h v cn, hval (h ++ [(v, cn)]) (length h) = v.
Proof. intros. unfold hval. rewrite app_nth2 by lia. rewrite Nat.sub_diag. reflexivity. Qed.

Lemma lastc_snoc : forall h v cn, lastc (h ++ [(v, cn)]) = cn.
Proof. intros. unfold lastc. rewrite last_last. reflexivity. Qed.

Lemma lastv_snoc : forall h v cn, lastv (h ++ [(v, cn)]) = v.
Proof. intros. unfold lastv. rewrite last_last. reflexivity. Qed.

Lemma hist_le_last : forall N h i, hist_ok N h -> (i < length h)%nat -> hcnt h i <= lastc h.
Proof.
  intros N h i (Hl & _ & Hm) Hi. rewrite lastc_hcnt. apply Hm; lia.
Qed.

Lemma hist_last_ok : forall N h, hist_ok N h -> lastv h = lastc h mod N /\ 0 <= lastc h.
Proof.
  intros N h (Hl & Hv & _). rewrite lastv_hval, lastc_hcnt. apply Hv. lia.
Qed.

Lemma hist_ok_snoc : forall N h v cn, hist_ok N h -> lastc h <= cn -> v = cn mod N ->
  hist_ok N (h ++ [(v, cn)]).
Proof.
  intros N h v cn H Hle Hv. pose proof H as (Hl & Hval & Hm).
  unfold hist_ok. rewrite app_length. cbn [length]. split; [lia|]. split.
  - intros i Hi. destruct (Nat.eq_dec i (length h)) as [->|Hne].
    + rewrite hval_app_last, hcnt_app_last. split; [exact Hv|].
      pose proof (hist_last_ok N h H). lia.
    + rewrite hval_app_l, hcnt_app_l by lia. apply Hval. lia.
  - intros i j Hij Hj. destruct (Nat.eq_dec j (length h)) as [->|Hne].
    + rewrite hcnt_app_last. destruct (Nat.eq_dec i (length h)) as [->|Hni].
      * rewrite hcnt_app_last. lia.
      * rewrite hcnt_app_l by lia. pose proof (hist_le_last N h i H). lia.
    + rewrite !hcnt_app_l by lia. apply Hm; lia.
Qed.

Lemma acq_pick_bounds : forall h v k, (v < length h)%nat ->
  (v <= acq_pick h v k)%nat /\ (acq_pick h v k < length h)%nat.
Proof. intros h v k H. unfold acq_pick. lia. Qed.

(* ------------------------------------------------------------------ reader results *)
Fixpoint res_ok (com : list Z) (l : list rres) (p : Z) : Prop :=
  match l with
  | [] => p = 0
  | RrRead n bs :: t => bs = slice com (p - n) n /\ 0 <= n /\ p <= Z.of_nat (length com) /\ res_ok com t (p - n)
  | RrPeek n bs :: t => bs = slice com p n /\ 0 <= n /\ p + n <= Z.of_nat (length com) /\ res_ok com t p
  | RrSkip n :: t => 0 <= n /\ p <= Z.of_nat (length com) /\ res_ok com t (p - n)
  | RrSpace _ :: t => res_ok com t p
  end.

Lemma res_ok_nonneg : forall com l p, res_ok com l p -> 0 <= p.
Proof.
  induction l as [|x l IH]; intros p H; cbn in H; [lia|].
  destruct x.
  - destruct H as (_ & Hn & _ & H). apply IH in H. lia.
  - destruct H as (_ & _ & _ & H). apply IH in H. lia.
  - destruct H as (Hn & _ & H). apply IH in H. lia.
  - apply IH; exact H.
Qed.

Lemma res_ok_ext : forall com ext l p, res_ok com l p -> res_ok (com ++ ext) l p.
Proof.
  induction l as [|x l IH]; intros p H; cbn in *; [exact H|].
  destruct x.
  - destruct H as (Hb & Hn & Hp & H). pose proof (res_ok_nonneg _ _ _ H).
    rewrite slice_app_l by lia. rewrite app_length. repeat split; try assumption; try lia. apply IH; exact H.
  - destruct H as (Hb & Hn & Hp & H). pose proof (res_ok_nonneg _ _ _ H).
    rewrite slice_app_l by lia. rewrite app_length. repeat split; try assumption; try lia. apply IH; exact H.
  - destruct H as (Hn & Hp & H). rewrite app_length. repeat split; try assumption; try lia. apply IH; exact H.
  - apply IH; exact H.
Qed.

(* ------------------------------------------------------------------ the invariant *)
Section Invariant.
  Variable c : cfg.
  Let N := rsize c.

  Definition wpc_ok (s : state) : Prop :=
    match wpcs (sw s) with
    | WIdle => True
    | WOwn call r rc => rc = hcnt (RH (sm s)) (vw (sw s)) /\ r = rc mod N
    | WCopy fin w size i todo =>
        exists r w0, wtx (sw s) = Some (r, w0) /\ 0 <= i /\ Z.of_nat (length todo) = size - i /\ todo <> [] /\
          w = (gT (sg s) - i) mod N /\ gT (sg s) - i + size - gtxr (sg s) <= N - 1 /\
          gtxr (sg s) <= gT (sg s) - i
    | WRel res v => v = gT (sg s) mod N
    end.

  Definition wtx_ok (s : state) : Prop :=
    match wtx (sw s) with
    | Some (r, w) => r = gtxr (sg s) mod N /\
        match wpcs (sw s) with WCopy _ _ _ _ _ => True | _ => w = gT (sg s) mod N end
    | None => True
    end.

  Definition rpc_ok (s : state) : Prop :=
    match rpcs (sr s) with
    | RIdle => True
    | ROwn call w wc => wc = hcnt (WH (sm s)) (vr (sr s)) /\ w = wc mod N
    | RCopy adv r size i acc =>
        r = Rc s mod N /\ 0 <= i < size /\ Rc s + size <= hcnt (WH (sm s)) (vr (sr s)) /\
        rev acc = slice (committed s) (Rc s) i
    | RRel res v n =>
        v = (Rc s + n) mod N /\ 0 <= n /\ Rc s + n <= hcnt (WH (sm s)) (vr (sr s)) /\
        match res with
        | RrRead n' bs => n' = n /\ bs = slice (committed s) (Rc s) n
        | RrSkip n' => n' = n
        | _ => False
        end
    end.

  Record Inv (s : state) : Prop := mkInv {
    i_WH : hist_ok N (WH (sm s));
    i_RH : hist_ok N (RH (sm s));
    i_vr : (vr (sr s) < length (WH (sm s)))%nat;
    i_vw : (vw (sw s) < length (RH (sm s)))%nat;
    i_rc : Rc s <= hcnt (WH (sm s)) (vr (sr s));
    i_wc : Wc s <= gT (sg s);
    i_txr : gtxr (sg s) <= hcnt (RH (sm s)) (vw (sw s));
    i_room : gT (sg s) - gtxr (sg s) <= N - 1;
    i_wlog : Z.of_nat (length (wlog (sg s))) = gT (sg s);
    i_buf : forall b, Rc s <= b < gT (sg s) ->
              buf (sm s) (b mod N) = nth (Z.to_nat b) (wlog (sg s)) 0;
    i_wep : forall b i, Rc s <= b < gT (sg s) -> (i < length (WH (sm s)))%nat ->
              b < hcnt (WH (sm s)) i -> (wep (sm s) (b mod N) <= i)%nat;
    i_wep_le : forall cell, (wep (sm s) cell <= length (WH (sm s)))%nat;
    i_rep_le : forall cell, (rep (sm s) cell <= length (RH (sm s)))%nat;
    i_rlast : forall cell, 0 <= cell < N ->
        rlast (sg s) cell mod N = cell /\ rlast (sg s) cell < Wc s /\
        (forall i, (i < length (RH (sm s)))%nat -> rlast (sg s) cell < hcnt (RH (sm s)) i ->
                   (rep (sm s) cell <= i)%nat);
    i_race : race (sm s) = false;
    i_wpc : wpc_ok s;
    i_wtx : wtx_ok s;
    i_rpc : rpc_ok s;
    i_res : res_ok (committed s) (rresl (sr s)) (Rc s)
  }.

  Hypothesis Hk : 0 <= ck c <= 31.

  Lemma init_inv : Inv (init c).
  Proof.
    assert (Hh : hist_ok N [(0, 0)]).
    { unfold hist_ok. cbn [length]. split; [lia|]. split.
      - intros i Hi. assert (i = O) by lia. subst i. unfold hval, hcnt. cbn [nth fst snd].
        rewrite Zmod_0_l. lia.
      - intros i j Hij Hj. assert (i = O) by lia. assert (j = O) by lia. subst. lia. }
    constructor; unfold init, Rc, Wc, committed, wpc_ok, wtx_ok, rpc_ok; proj; cbn [length lastc last snd];
      try exact Hh; try lia; try exact I; try reflexivity.
    - pose proof (N_pos c Hk). fold N. lia.
    - intros cell Hc. fold N. split; [|split].
      + symmetry. apply Zmod_unique with (q := -1); lia.
      + lia.
      + intros i Hi _. lia.
  Qed.

  (* ---- consequences used everywhere *)
  Lemma inv_counts : forall s, Inv s ->
    gtxr (sg s) <= Rc s /\ Rc s <= Wc s /\ Wc s <= gT (sg s) /\ gT (sg s) - Rc s <= N - 1 /\
    0 <= Rc s /\ hcnt (WH (sm s)) (vr (sr s)) <= Wc s /\ hcnt (RH (sm s)) (vw (sw s)) <= Rc s.
  Proof.
    intros s H. destruct H.
    pose proof (hist_le_last N _ _ i_RH0 i_vw0) as A.
    pose proof (hist_le_last N _ _ i_WH0 i_vr0) as B.
    pose proof (hist_last_ok N _ i_RH0) as (_ & C).
    unfold Rc, Wc in *. lia.
  Qed.

  Lemma inv_heads : forall s, Inv s ->
    lastv (RH (sm s)) = Rc s mod N /\ lastv (WH (sm s)) = Wc s mod N.
  Proof.
    intros s H. destruct H. unfold Rc, Wc.
    pose proof (hist_last_ok N _ i_RH0) as (A & _).
    pose proof (hist_last_ok N _ i_WH0) as (B & _). split; assumption.
  Qed.

  Lemma committed_length : forall s, Inv s -> Z.of_nat (length (committed s)) = Wc s.
  Proof.
    intros s H. pose proof (inv_counts s H) as C. destruct H. unfold committed.
    rewrite firstn_length. lia.
  Qed.
End Invariant.
