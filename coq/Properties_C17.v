(* C17 — property theorems only.  PARTIAL by design: the theorems are about zix's own logic
   (deadline arithmetic, retry loops, errno mapping) and about that logic running against an explicit
   ideal counting semaphore (SemModel.kernel_call).  That the kernel's sem_* behave like kernel_call,
   wake sleepers, and honour the absolute deadline they are given is trusted (smoke-tested only). *)
From Coq Require Import ZArith List Bool Arith Lia.
From Zix Require Import SemErrnoModel SemErrnoProofs SemModel SemSpec SemProofs.
Import ListNotations.

(* ---------------------------------------------------------------- deadline arithmetic *)
(* for every normalised current time and ALL uint32 seconds / nanoseconds (nanoseconds >= 10^9 and
   sums that carry included) the timespec handed to sem_timedwait is normalised ... *)
Theorem deadline_normalised :
  forall now_sec now_nsec s ns : Z,
    now_ok now_sec now_nsec -> arg_ok s ns ->
    (0 <= snd (timed_wait_deadline now_sec now_nsec s ns) < 1000000000)%Z.
Proof. exact deadline_normalised_lemma. Qed.
Print Assumptions deadline_normalised.

(* ... and denotes exactly now + seconds + nanoseconds *)
Theorem deadline_exact :
  forall now_sec now_nsec s ns : Z,
    now_ok now_sec now_nsec -> arg_ok s ns ->
    let d := timed_wait_deadline now_sec now_nsec s ns in
    (fst d * 1000000000 + snd d =
     (now_sec * 1000000000 + now_nsec) + (s * 1000000000 + ns))%Z.
Proof. exact deadline_exact_lemma. Qed.
Print Assumptions deadline_exact.

(* ---------------------------------------------------------------- retry loops, every script *)
(* what "returns only on 0 or a non-EINTR error" means for a loop run over `script` *)
Definition returns_at_first_non_eintr (script : list kres) (out : outcome) : Prop :=
  match out with
  | Returned s k =>
      exists pre r post, script = pre ++ r :: post /\ Forall is_eintr pre /\ ~ is_eintr r /\
                         k = (length pre + 1)%nat /\ s = errno_status_if r
  | StillWaiting k => Forall is_eintr script /\ k = length script
  end.

Theorem eintr_retried :
  forall script,
    returns_at_first_non_eintr script (wait_model script) /\
    returns_at_first_non_eintr script (try_wait_model script) /\
    (forall now_sec now_nsec s ns,
        returns_at_first_non_eintr script (fst (timed_wait_model KOk now_sec now_nsec s ns script)) /\
        (* every retry passes the same absolute deadline: an interrupted wait is not extended *)
        snd (timed_wait_model KOk now_sec now_nsec s ns script) =
          Some (timed_wait_deadline now_sec now_nsec s ns)).
Proof.
  intros script. unfold wait_model, try_wait_model, timed_wait_model. cbn [fst snd].
  pose proof (retry_loop_spec script 0) as H. repeat split; exact H.
Qed.
Print Assumptions eintr_retried.

(* a failing clock_gettime is reported and sem_timedwait is never called *)
Theorem timed_wait_clock_error :
  forall e now_sec now_nsec s ns script,
    timed_wait_model (KErr e) now_sec now_nsec s ns script = (Returned (errno_status e) 0, None).
Proof. reflexivity. Qed.
Print Assumptions timed_wait_clock_error.

(* ---------------------------------------------------------------- errno -> status *)
Theorem status_mapping :
  errno_status EAGAIN = UNAVAILABLE /\ errno_status ETIMEDOUT = TIMEOUT /\
  errno_status EINVAL = BAD_ARG /\ errno_status EINTR = ERROR /\
  (forall e, errno_status e = SUCCESS <-> e = 0%Z) /\
  (forall e, errno_status e = UNAVAILABLE <-> e = EAGAIN) /\
  (forall e, errno_status e = TIMEOUT <-> e = ETIMEDOUT) /\
  (forall e s, In (e, s) errno_map -> errno_status e = s) /\
  (forall e, ~ In e mapped_codes -> errno_status e = ERROR).
Proof.
  repeat split; try reflexivity;
    first [ apply errno_status_success_iff | apply errno_status_unavailable_iff
          | apply errno_status_timeout_iff | idtac ].
  - apply errno_status_in_map.
  - apply errno_status_fallback.
Qed.
Print Assumptions status_mapping.

(* ---------------------------------------------------------------- ideal semaphore, ALL interleavings *)
(* any initial value, any number of threads with any programs, any schedule (incl. signals and
   expiries at any point): successful waits + tokens left = initial + posts begun *)
Theorem sem_conservation :
  forall (initial : nat) (progs : list (list op)) (sched : list choice),
    let st := run sched (init_sys initial progs) in
    (takes st + s_count st = initial + s_posts st)%nat /\ (takes st <= initial + s_posts st)%nat.
Proof.
  intros initial progs sched. pose proof (conservation_lemma initial progs sched) as H.
  cbv zeta in *. split; [exact H | lia].
Qed.
Print Assumptions sem_conservation.

(* try_wait completes in the one step it is given, in every state: UNAVAILABLE exactly when the
   count was zero, otherwise SUCCESS and the count decremented *)
Theorem try_wait_never_blocks :
  forall st i t rest,
    nth_error (s_threads st) i = Some t -> t_todo t = OTry :: rest ->
    let st' := step (Run i) st in
    nth_error (s_threads st') i =
      Some {| t_todo := rest;
              t_log := t_log t ++ [(OTry, if Nat.eqb (s_count st) 0 then UNAVAILABLE else SUCCESS, t_retries t)];
              t_inkernel := false; t_retries := O |} /\
    s_count st' = Nat.pred (s_count st).
Proof. exact try_wait_lemma. Qed.
Print Assumptions try_wait_never_blocks.

(* no lost wake-up, part 1: when no thread can move, every unfinished thread sits in a wait and
   the count is zero — no waiter is blocked while a unit is available *)
Theorem no_waiter_blocked_with_tokens :
  forall st,
    (forall t, In t (s_threads st) -> runnable st t = false) ->
    forall t, In t (s_threads st) -> t_todo t <> [] -> blocked_waiter t = true /\ s_count st = O.
Proof. exact quiescent_lemma. Qed.
Print Assumptions no_waiter_blocked_with_tokens.

(* part 2: a post makes every waiter runnable, and a runnable waiter completes with SUCCESS *)
Theorem post_enables_waiter :
  (forall st j tj rest,
      nth_error (s_threads st) j = Some tj -> t_todo tj = OPost :: rest ->
      let st' := step (Run j) st in
      s_count st' = S (s_count st) /\
      forall t, In t (s_threads st') -> blocked_waiter t = true -> runnable st' t = true) /\
  (forall st i t o rest e,
      nth_error (s_threads st) i = Some t -> t_todo t = o :: rest -> (o = OWait \/ o = OTimed) ->
      s_count st <> O ->
      let st' := attempt i e st in
      nth_error (s_threads st') i =
        Some {| t_todo := rest; t_log := t_log t ++ [(o, SUCCESS, t_retries t)];
                t_inkernel := false; t_retries := O |} /\
      s_count st' = Nat.pred (s_count st)).
Proof. split; [exact post_enables_lemma | exact waiter_completes_lemma]. Qed.
Print Assumptions post_enables_waiter.

(* part 3 (counting form): in a reachable state where some waiter is stuck with nobody runnable,
   every token ever provided has been consumed by a successful wait *)
Theorem stuck_waiter_means_all_tokens_taken :
  forall initial progs sched,
    let st := run sched (init_sys initial progs) in
    (forall t, In t (s_threads st) -> runnable st t = false) ->
    (exists t, In t (s_threads st) /\ t_todo t <> []) ->
    takes st = (initial + s_posts st)%nat.
Proof.
  intros initial progs sched st Q (t & Hin & Hne).
  destruct (quiescent_lemma st Q t Hin Hne) as [_ C].
  pose proof (conservation_lemma initial progs sched) as H. cbv zeta in H. fold st in H. lia.
Qed.
Print Assumptions stuck_waiter_means_all_tokens_taken.

(* a wait interrupted by a signal resumes instead of failing: in every reachable state every
   completed operation has a proper result (wait: SUCCESS only; try_wait: SUCCESS/UNAVAILABLE;
   timed wait: SUCCESS/TIMEOUT; post: SUCCESS), whatever signals the schedule delivered; and a
   signal changes nothing but the retry counter *)
Theorem signal_resumes_wait :
  forall initial progs sched,
    let st := run sched (init_sys initial progs) in
    (forall t, In t (s_threads st) -> forallb entry_ok (t_log t) = true) /\
    (forall i,
        s_count (step (Sig i) st) = s_count st /\ s_posts (step (Sig i) st) = s_posts st /\
        map t_todo (s_threads (step (Sig i) st)) = map t_todo (s_threads st) /\
        map t_log (s_threads (step (Sig i) st)) = map t_log (s_threads st)).
Proof.
  intros initial progs sched st. split.
  - apply logs_ok_run; [apply wf_init | apply logs_ok_init].
  - intros i. apply signal_only_retries. apply wf_run. apply wf_init.
Qed.
Print Assumptions signal_resumes_wait.

(* timed wait on the ideal semaphore: SUCCESS whenever a unit is available (expired or not),
   TIMEOUT only when expired on a zero count, otherwise it keeps sleeping *)
Theorem timed_wait_result :
  forall st i e t rest,
    nth_error (s_threads st) i = Some t -> t_todo t = OTimed :: rest ->
    let st' := attempt i e st in
    nth_error (s_threads st') i = Some (timed_result t rest (s_count st) e) /\
    s_count st' = Nat.pred (s_count st).
Proof. exact timed_wait_lemma. Qed.
Print Assumptions timed_wait_result.

(* the wrappers over the ideal semaphore implement the specification (a natural number) on every
   schedule: erasing retry counters and signals, the model run IS the spec run *)
Theorem run_refines_spec :
  forall initial progs sched,
    abs_sys (run sched (init_sys initial progs)) =
    spec_run (map abs_choice sched) (spec_init initial (map (map abs_op) progs)).
Proof.
  intros. rewrite run_refines by apply wf_init. rewrite abs_init. reflexivity.
Qed.
Print Assumptions run_refines_spec.

(* ---------------------------------------------------------------- non-vacuity *)
Example deadline_example :   (* the old witness: nanoseconds = 2 * 10^9, and a carrying sum *)
  now_ok 1700000000 999999999 /\ arg_ok 0 2000000000 /\
  timed_wait_deadline 1700000000 999999999 0 2000000000 = (1700000002, 999999999)%Z /\
  timed_wait_deadline 1700000000 999999999 4294967295 4294967295 = (5994967300, 294967294)%Z.
Proof. unfold now_ok, arg_ok, NS_PER_SECOND. repeat split; try lia; reflexivity. Qed.

Example retry_example :
  wait_model [KErr EINTR; KErr EINTR; KOk; KErr EINVAL] = Returned SUCCESS 3 /\
  fst (timed_wait_model KOk 5 0 1 0 [KErr EINTR; KErr ETIMEDOUT]) = Returned TIMEOUT 2 /\
  try_wait_model [KErr EAGAIN] = Returned UNAVAILABLE 1 /\
  wait_model [KErr EINTR; KErr EINTR] = StillWaiting 2.
Proof. repeat split; reflexivity. Qed.

Example interleaving_example :   (* waiter sleeps, is signalled twice, then the post hands over *)
  let st := run [Run 1; Sig 1; Run 0; Sig 1; Run 0; Run 1; Run 1]
                (init_sys 0 [[OTry; OPost]; [OWait; OTry]]) in
  s_count st = O /\ takes st = 1%nat /\ s_posts st = 1%nat /\
  map t_log (s_threads st) =
    [[(OTry, UNAVAILABLE, O); (OPost, SUCCESS, O)]; [(OWait, SUCCESS, 2%nat); (OTry, UNAVAILABLE, O)]].
Proof. cbv zeta. vm_compute. repeat split; reflexivity. Qed.
