(* C06 — lemmas about the AVL model, part 1: listings, rotations, insertion, find, height bound *)
From Coq Require Import ZArith List Bool Lia ZifyBool Permutation.
From Zix Require Import AvlSpec AvlModel.
Import ListNotations.
Local Open Scope Z_scope.
Ltac Zify.zify_post_hook ::= Z.div_mod_to_equations.

(* ------------------------------------------------------------------ the AVL invariant *)
Fixpoint avl (t : tree) : Prop :=
  match t with
  | E => True
  | N _ _ b l r => avl l /\ avl r /\ b = height r - height l /\ -1 <= b <= 1
  end.

Lemma avl_N : forall i d b l r,
  avl (N i d b l r) <-> avl l /\ avl r /\ b = height r - height l /\ -1 <= b <= 1.
Proof. intros. reflexivity. Qed.

Lemma height_N : forall i d b l r, height (N i d b l r) = 1 + Z.max (height l) (height r).
Proof. reflexivity. Qed.

Lemma height_nonneg : forall t, 0 <= height t.
Proof. induction t; cbn [height]; lia. Qed.

Lemma height_pos : forall i d b l r, 1 <= height (N i d b l r).
Proof. intros. cbn [height]. pose proof (height_nonneg l). pose proof (height_nonneg r). lia. Qed.

Lemma height_E : forall t, height t = 0 -> t = E.
Proof. destruct t; [reflexivity|]. intros H. pose proof (height_pos id d bal t1 t2). lia. Qed.

Lemma heightn_height : forall t, height t = Z.of_nat (heightn t).
Proof. induction t; cbn [height heightn]; lia. Qed.

Lemma count_length : forall t, count t = Z.of_nat (length (elems t)).
Proof.
  induction t; cbn [count elems]; [reflexivity|].
  rewrite app_length. cbn [length]. lia.
Qed.

Lemma count_nonneg : forall t, 0 <= count t.
Proof. intros. rewrite count_length. lia. Qed.

Lemma is_E_true : forall t, is_E t = true -> t = E.
Proof. destruct t; [reflexivity|discriminate]. Qed.

(* ------------------------------------------------------------------ rotations keep the listing *)
(* (a,b,c) = (a',b',c') without the normalisation done by injection *)
Ltac inj3 H :=
  let H1 := fresh in let H2 := fresh in let H3 := fresh in
  apply pair_equal_spec in H; destruct H as [H H3];
  apply pair_equal_spec in H; destruct H as [H1 H2];
  match type of H1 with _ = ?v => subst v end;
  match type of H2 with _ = ?v => subst v end;
  match type of H3 with _ = ?v => subst v end.

Ltac list_norm := cbn [elems]; repeat (rewrite <- app_assoc; cbn [app]); try reflexivity.

Lemma rotate_left_elems : forall t, elems (fst (fst (rotate_left t))) = elems t.
Proof. intros [|p dp bp lp [|q dq bq lq rq]]; cbn [rotate_left fst]; list_norm. Qed.

Lemma rotate_right_elems : forall t, elems (fst (fst (rotate_right t))) = elems t.
Proof. intros [|p dp bp [|q dq bq lq rq] rp]; cbn [rotate_right fst]; list_norm. Qed.

Lemma rotate_left_right_elems : forall t, elems (fst (fst (rotate_left_right t))) = elems t.
Proof.
  intros [|p dp bp [|q dq bq lq [|r dr br lr rr]] rp]; cbn [rotate_left_right fst]; list_norm.
Qed.

Lemma rotate_right_left_elems : forall t, elems (fst (fst (rotate_right_left t))) = elems t.
Proof.
  intros [|p dp bp lp [|q dq bq [|r dr br lr rr] rq]]; cbn [rotate_right_left fst]; list_norm.
Qed.

Lemma rebalance_elems : forall t, elems (fst (fst (rebalance t))) = elems t.
Proof.
  intros [|i d b l r]; [reflexivity|]. unfold rebalance.
  destruct (b =? -2).
  - destruct (bal_of l =? 1); [apply rotate_left_right_elems | apply rotate_right_elems].
  - destruct (b =? 2); [|reflexivity].
    destruct (bal_of r =? -1); [apply rotate_right_left_elems | apply rotate_left_elems].
Qed.

(* ------------------------------------------------------------------ rotations restore balance
   node with true balance -2 (left subtree two higher) *)
Lemma rebalance_m2 : forall i d l r t' hc c,
  avl l -> avl r -> height r - height l = -2 ->
  rebalance (N i d (-2) l r) = (t', hc, c) ->
  avl t' /\ height t' = 1 + height l + hc /\ (hc = 0 \/ hc = -1) /\
  (bal_of t' = 0 <-> hc = -1) /\ (bal_of l <> 0 -> hc = -1) /\ t' <> E.
Proof.
  intros i d l r t' hc c Al Ar Hb.
  unfold rebalance. rewrite Z.eqb_refl.
  destruct l as [|q dq bq lq rq].
  { cbn [height] in Hb. pose proof (height_nonneg r). lia. }
  cbn [bal_of]. cbn [avl] in Al. destruct Al as (Alq & Arq & Hbq & Rq).
  cbn [height] in Hb |- *.
  destruct (bq =? 1) eqn:Eq1.
  - (* left_right *)
    destruct rq as [|rr dr br lr rrr].
    { cbn [height] in Hbq. pose proof (height_nonneg lq). lia. }
    cbn [avl] in Arq. destruct Arq as (Alr & Arr & Hbr & Rr).
    cbn [rotate_left_right]. intros HH; inj3 HH.
    cbn [height] in *. cbn [avl bal_of height].
    repeat split; try assumption; try lia; try discriminate.
  - (* right *)
    cbn [rotate_right]. intros HH; inj3 HH.
    cbn [avl bal_of height].
    destruct (bq =? 0) eqn:Eq0; repeat split; try assumption; try lia; try discriminate.
Qed.

Lemma rebalance_p2 : forall i d l r t' hc c,
  avl l -> avl r -> height r - height l = 2 ->
  rebalance (N i d 2 l r) = (t', hc, c) ->
  avl t' /\ height t' = 1 + height r + hc /\ (hc = 0 \/ hc = -1) /\
  (bal_of t' = 0 <-> hc = -1) /\ (bal_of r <> 0 -> hc = -1) /\ t' <> E.
Proof.
  intros i d l r t' hc c Al Ar Hb.
  unfold rebalance. change (2 =? -2) with false. cbv iota. rewrite Z.eqb_refl.
  destruct r as [|q dq bq lq rq].
  { cbn [height] in Hb. pose proof (height_nonneg l). lia. }
  cbn [bal_of]. cbn [avl] in Ar. destruct Ar as (Alq & Arq & Hbq & Rq).
  cbn [height] in Hb |- *.
  destruct (bq =? -1) eqn:Eq1.
  - destruct lq as [|rr dr br lr rrr].
    { cbn [height] in Hbq. pose proof (height_nonneg rq). lia. }
    cbn [avl] in Alq. destruct Alq as (Alr & Arr & Hbr & Rr).
    cbn [rotate_right_left]. intros HH; inj3 HH.
    cbn [height] in *. cbn [avl bal_of height].
    repeat split; try assumption; try lia; try discriminate.
  - cbn [rotate_left]. intros HH; inj3 HH.
    cbn [avl bal_of height].
    destruct (bq =? 0) eqn:Eq0; repeat split; try assumption; try lia; try discriminate.
Qed.

(* ------------------------------------------------------------------ sorted lists *)
Section Proofs.
Variable rank : elt -> Z.
Notation irank := (irank rank).
Notation sorted := (sorted rank).
Notation sins := (sins rank).

Lemma sorted_app : forall l1 x l2,
  sorted (l1 ++ x :: l2) <->
  sorted l1 /\ sorted l2 /\ Forall (fun y => irank y <= irank x) l1 /\ Forall (fun y => irank x <= irank y) l2.
Proof.
  induction l1 as [|a l1 IH]; intros x l2; cbn [app AvlSpec.sorted].
  - split.
    + intros [H1 H2]. repeat split; auto.
    + intros (_ & H2 & _ & H4). split; assumption.
  - rewrite IH, Forall_app, Forall_cons_iff, Forall_cons_iff. split.
    + intros ((F1 & F2 & F3) & S1 & S2 & F4 & F5). repeat split; assumption.
    + intros ((F1 & S1) & S2 & (F2 & F4) & F5). repeat split; try assumption.
      eapply Forall_impl; [|exact F5]. cbv beta. intros; lia.
Qed.

Lemma sins_app_lt : forall x y l1 l2, irank x < irank y ->
  sins x (l1 ++ y :: l2) = sins x l1 ++ y :: l2.
Proof.
  intros x y l1 l2 H. induction l1 as [|a l1 IH]; cbn [app AvlSpec.sins].
  - destruct (irank x <? irank y) eqn:C; [reflexivity|lia].
  - destruct (irank x <? irank a); [reflexivity|]. rewrite IH. reflexivity.
Qed.

Lemma sins_app_ge : forall x y l1 l2, Forall (fun a => irank a <= irank x) l1 -> irank y <= irank x ->
  sins x (l1 ++ y :: l2) = l1 ++ y :: sins x l2.
Proof.
  intros x y l1 l2 F H. induction l1 as [|a l1 IH]; cbn [app AvlSpec.sins].
  - destruct (irank x <? irank y) eqn:C; [lia|reflexivity].
  - apply Forall_cons_iff in F as [Fa F].
    destruct (irank x <? irank a) eqn:C; [lia|]. rewrite (IH F). reflexivity.
Qed.

Lemma sins_perm : forall x l, Permutation (x :: l) (sins x l).
Proof.
  induction l as [|a l IH]; cbn [AvlSpec.sins]; [apply Permutation_refl|].
  destruct (irank x <? irank a); [apply Permutation_refl|].
  eapply Permutation_trans; [apply perm_swap|]. apply perm_skip. exact IH.
Qed.

Lemma sins_sorted : forall x l, sorted l -> sorted (sins x l).
Proof.
  induction l as [|a l IH]; cbn [AvlSpec.sins AvlSpec.sorted]; intros S.
  - split; [constructor|exact I].
  - destruct S as [F S]. destruct (irank x <? irank a) eqn:C; cbn [AvlSpec.sorted].
    + split; [|split; assumption]. constructor; [lia|].
      eapply Forall_impl; [|exact F]. cbv beta. intros; lia.
    + split; [|apply IH; exact S].
      eapply Permutation_Forall; [apply sins_perm|]. constructor; [lia|exact F].
Qed.

(* ------------------------------------------------------------------ insertion: listing *)
Lemma retrace_ins_elems : forall t c,
  exists t' g c', retrace_ins t c = IOk t' g c' /\ elems t' = elems t.
Proof.
  intros t c. unfold retrace_ins.
  destruct ((bal_of t =? -2) || (bal_of t =? 2)).
  - pose proof (rebalance_elems t) as R. destruct (rebalance t) as [[t' hc] c']. cbn [fst] in R.
    do 3 eexists. split; [reflexivity|exact R].
  - destruct (bal_of t =? 0); do 3 eexists; split; reflexivity.
Qed.

Lemma ins_N : forall dup x id i d b l r,
  ins rank dup x id (N i d b l r) =
  let left :=
    match l with
    | E => IOk (N i d (b - 1) (N id x 0 E E) r) (is_E r) []
    | _ => match ins rank dup x id l with
           | IExists e => IExists e
           | IOk l' g c => if g then retrace_ins (N i d (b - 1) l' r) c else IOk (N i d b l' r) false c
           end
    end in
  let right :=
    match r with
    | E => IOk (N i d (b + 1) l (N id x 0 E E)) (is_E l) []
    | _ => match ins rank dup x id r with
           | IExists e => IExists e
           | IOk r' g c => if g then retrace_ins (N i d (b + 1) l r') c else IOk (N i d b l r') false c
           end
    end in
  match Z.compare (rank x) (rank d) with
  | Lt => left
  | Eq => if dup then right else IExists i
  | Gt => right
  end.
Proof. intros. destruct l, r; reflexivity. Qed.

Definition ins_elems_ok (dup : bool) (x : elt) (id : Z) (t : tree) (res : ins_result) : Prop :=
  match res with
  | IOk t' _ _ => elems t' = sins (id, x) (elems t) /\
                  (dup = false -> forall y, In y (elems t) -> irank y <> rank x)
  | IExists e => dup = false /\ exists d, In (e, d) (elems t) /\ rank d = rank x
  end.

Lemma ins_elems : forall dup x id t, sorted (elems t) -> ins_elems_ok dup x id t (ins rank dup x id t).
Proof.
  intros dup x id. induction t as [|i d b l IHl r IHr]; intros S.
  - cbn. split; [reflexivity|]. intros _ y [].
  - rewrite ins_N. cbv zeta. cbn [elems] in S. apply sorted_app in S as (Sl & Sr & Fl & Fr).
    specialize (IHl Sl). specialize (IHr Sr).
    assert (LEFT : rank x < rank d -> ins_elems_ok dup x id (N i d b l r)
       match l with
       | E => IOk (N i d (b - 1) (N id x 0 E E) r) (is_E r) []
       | _ => match ins rank dup x id l with
              | IExists e => IExists e
              | IOk l' g c => if g then retrace_ins (N i d (b - 1) l' r) c else IOk (N i d b l' r) false c
              end
       end).
    { intros C.
      assert (NR : forall y, In y (elems r) -> irank y <> rank x).
      { intros y Hy. rewrite Forall_forall in Fr. specialize (Fr y Hy). unfold AvlSpec.irank in *. cbn [snd] in *. lia. }
      assert (G : forall l' g c, ins rank dup x id l = IOk l' g c ->
                  ins_elems_ok dup x id (N i d b l r)
                    (if g then retrace_ins (N i d (b - 1) l' r) c else IOk (N i d b l' r) false c)).
      { intros l' g c E1. rewrite E1 in IHl. destruct IHl as [IH1 IH2].
        assert (EL : elems l' ++ (i, d) :: elems r = sins (id, x) (elems l ++ (i, d) :: elems r)).
        { rewrite sins_app_lt by (unfold AvlSpec.irank; cbn [snd]; lia). rewrite IH1. reflexivity. }
        assert (NE : dup = false -> forall y, In y (elems l ++ (i, d) :: elems r) -> irank y <> rank x).
        { intros Hd y Hy. apply in_app_or in Hy as [Hy|[<-|Hy]].
          - apply IH2; assumption.
          - unfold AvlSpec.irank; cbn [snd]; lia.
          - apply NR; assumption. }
        destruct g.
        - destruct (retrace_ins_elems (N i d (b - 1) l' r) c) as (t' & g' & c' & -> & E2).
          cbn [ins_elems_ok elems]. rewrite E2. cbn [elems]. split; assumption.
        - cbn [ins_elems_ok elems]. split; assumption. }
      destruct l as [|li ld lb ll lr].
      - cbn [ins_elems_ok elems app]. split.
        + cbn [AvlSpec.sins]. unfold AvlSpec.irank at 1 2. cbn [snd].
          destruct (rank x <? rank d) eqn:C'; [reflexivity|lia].
        + intros _ y [<-|Hy]; [unfold AvlSpec.irank; cbn [snd]; lia|apply NR; assumption].
      - destruct (ins rank dup x id (N li ld lb ll lr)) as [e|l' g c] eqn:E1.
        + cbn [ins_elems_ok] in *. destruct IHl as [Hd (d0 & Hin & Hr)]. split; [assumption|].
          exists d0. split; [|assumption]. cbn [elems] in *. apply in_or_app. left. assumption.
        + apply (G l' g c eq_refl). }
    assert (RIGHT : rank d <= rank x -> (dup = false -> rank d <> rank x) ->
       ins_elems_ok dup x id (N i d b l r)
       match r with
       | E => IOk (N i d (b + 1) l (N id x 0 E E)) (is_E l) []
       | _ => match ins rank dup x id r with
              | IExists e => IExists e
              | IOk r' g c => if g then retrace_ins (N i d (b + 1) l r') c else IOk (N i d b l r') false c
              end
       end).
    { intros C Cd.
      assert (FL : Forall (fun a => irank a <= irank (id, x)) (elems l)).
      { eapply Forall_impl; [|exact Fl]. unfold AvlSpec.irank. cbn [snd]. intros; lia. }
      assert (NL : dup = false -> forall y, In y (elems l) -> irank y <> rank x).
      { intros Hd y Hy. rewrite Forall_forall in Fl. specialize (Fl y Hy). specialize (Cd Hd).
        unfold AvlSpec.irank in *. cbn [snd] in *. lia. }
      assert (G : forall r' g c, ins rank dup x id r = IOk r' g c ->
                  ins_elems_ok dup x id (N i d b l r)
                    (if g then retrace_ins (N i d (b + 1) l r') c else IOk (N i d b l r') false c)).
      { intros r' g c E1. rewrite E1 in IHr. destruct IHr as [IH1 IH2].
        assert (EL : elems l ++ (i, d) :: elems r' = sins (id, x) (elems l ++ (i, d) :: elems r)).
        { rewrite sins_app_ge by (try assumption; unfold AvlSpec.irank; cbn [snd]; lia). rewrite IH1. reflexivity. }
        assert (NE : dup = false -> forall y, In y (elems l ++ (i, d) :: elems r) -> irank y <> rank x).
        { intros Hd y Hy. apply in_app_or in Hy as [Hy|[<-|Hy]].
          - apply NL; assumption.
          - specialize (Cd Hd). unfold AvlSpec.irank; cbn [snd]; lia.
          - apply IH2; assumption. }
        destruct g.
        - destruct (retrace_ins_elems (N i d (b + 1) l r') c) as (t' & g' & c' & -> & E2).
          cbn [ins_elems_ok elems]. rewrite E2. cbn [elems]. split; assumption.
        - cbn [ins_elems_ok elems]. split; assumption. }
      destruct r as [|ri rd rb rl rr].
      - cbn [ins_elems_ok elems]. split.
        + rewrite sins_app_ge by (try assumption; unfold AvlSpec.irank; cbn [snd]; lia). reflexivity.
        + intros Hd y Hy. apply in_app_or in Hy as [Hy|[<-|[]]].
          * apply NL; assumption.
          * specialize (Cd Hd). unfold AvlSpec.irank; cbn [snd]; lia.
      - destruct (ins rank dup x id (N ri rd rb rl rr)) as [e|r' g c] eqn:E1.
        + cbn [ins_elems_ok] in *. destruct IHr as [Hd (d0 & Hin & Hr)]. split; [assumption|].
          exists d0. split; [|assumption]. cbn [elems] in *. apply in_or_app. right. right. assumption.
        + apply (G r' g c eq_refl). }
    destruct (Z.compare (rank x) (rank d)) eqn:C.
    + apply Z.compare_eq in C. destruct dup.
      * apply RIGHT; [lia|discriminate].
      * cbn [ins_elems_ok]. split; [reflexivity|]. exists d. split; [|symmetry; assumption].
        cbn [elems]. apply in_or_app. right. left. reflexivity.
    + rewrite Z.compare_lt_iff in C. apply LEFT; assumption.
    + rewrite Z.compare_gt_iff in C. apply RIGHT; [lia|intros _; lia].
Qed.

(* ------------------------------------------------------------------ insertion: balance *)
Lemma retrace_ins_left_avl : forall i d b l' r hl0 c t' g c',
  avl l' -> avl r -> -1 <= b <= 1 -> b = height r - hl0 -> height l' = hl0 + 1 -> bal_of l' <> 0 ->
  retrace_ins (N i d (b - 1) l' r) c = IOk t' g c' ->
  avl t' /\ height t' = 1 + Z.max hl0 (height r) + (if g then 1 else 0) /\ (g = true -> bal_of t' <> 0) /\ t' <> E.
Proof.
  intros i d b l' r hl0 c t' g c' Al Ar Rb Hb Hl Nz. unfold retrace_ins. cbn [bal_of].
  destruct (b - 1 =? -2) eqn:E2; cbn [orb].
  - assert (b - 1 = -2) as -> by lia.
    destruct (rebalance (N i d (-2) l' r)) as [[t1 hc] c1] eqn:R.
    apply rebalance_m2 in R; [|assumption|assumption|lia].
    destruct R as (A1 & H1 & _ & _ & H4 & H5). specialize (H4 Nz).
    intros HH. injection HH as <- <- <-. repeat split; [assumption|lia|discriminate|assumption].
  - destruct (b - 1 =? 2) eqn:E3; [lia|].
    destruct (b - 1 =? 0) eqn:E0; intros HH; injection HH as <- <- <-; cbn [avl bal_of height];
      repeat split; try assumption; try lia; try discriminate.
Qed.

Lemma retrace_ins_right_avl : forall i d b l r' hr0 c t' g c',
  avl l -> avl r' -> -1 <= b <= 1 -> b = hr0 - height l -> height r' = hr0 + 1 -> bal_of r' <> 0 ->
  retrace_ins (N i d (b + 1) l r') c = IOk t' g c' ->
  avl t' /\ height t' = 1 + Z.max (height l) hr0 + (if g then 1 else 0) /\ (g = true -> bal_of t' <> 0) /\ t' <> E.
Proof.
  intros i d b l r' hr0 c t' g c' Al Ar Rb Hb Hr Nz. unfold retrace_ins. cbn [bal_of].
  destruct (b + 1 =? -2) eqn:E2; cbn [orb]; [lia|].
  destruct (b + 1 =? 2) eqn:E3.
  - assert (b + 1 = 2) as -> by lia.
    destruct (rebalance (N i d 2 l r')) as [[t1 hc] c1] eqn:R.
    apply rebalance_p2 in R; [|assumption|assumption|lia].
    destruct R as (A1 & H1 & _ & _ & H4 & H5). specialize (H4 Nz).
    intros HH. injection HH as <- <- <-. repeat split; [assumption|lia|discriminate|assumption].
  - destruct (b + 1 =? 0) eqn:E0; intros HH; injection HH as <- <- <-; cbn [avl bal_of height];
      repeat split; try assumption; try lia; try discriminate.
Qed.

Lemma ins_avl : forall dup x id t t' g c,
  avl t -> ins rank dup x id t = IOk t' g c ->
  avl t' /\ height t' = height t + (if g then 1 else 0) /\ (g = true -> t <> E -> bal_of t' <> 0) /\ t' <> E.
Proof.
  intros dup x id. induction t as [|i d b l IHl r IHr]; intros t' g c A.
  - cbn [ins]. intros HH. injection HH as <- <- <-. cbn [avl height]. repeat split; try lia; try discriminate.
    intros _ H; contradiction H; reflexivity.
  - rewrite ins_N. cbv zeta. cbn [avl] in A. destruct A as (Al & Ar & Hb & Rb).
    assert (LEFT :
       match l with
       | E => IOk (N i d (b - 1) (N id x 0 E E) r) (is_E r) []
       | _ => match ins rank dup x id l with
              | IExists e => IExists e
              | IOk l' g c => if g then retrace_ins (N i d (b - 1) l' r) c else IOk (N i d b l' r) false c
              end
       end = IOk t' g c ->
       avl t' /\ height t' = height (N i d b l r) + (if g then 1 else 0) /\
       (g = true -> N i d b l r <> E -> bal_of t' <> 0) /\ t' <> E).
    { destruct l as [|li ld lb ll lr].
      - intros HH. injection HH as <- <- <-. cbn [height] in Hb. cbn [avl height bal_of].
        pose proof (height_nonneg r).
        destruct r as [|ri rd rb rl rr]; cbn [is_E].
        + cbn [height] in *. repeat split; try lia; try discriminate.
        + pose proof (height_pos ri rd rb rl rr). cbn [avl] in Ar. repeat split; try tauto; try lia; try discriminate.
      - destruct (ins rank dup x id (N li ld lb ll lr)) as [e|l' g1 c1] eqn:E1; [discriminate|].
        destruct (IHl l' g1 c1 Al eq_refl) as (A1 & H1 & B1 & N1).
        destruct g1.
        + intros HH. assert (NZ : bal_of l' <> 0) by (apply B1; [reflexivity|discriminate]).
          apply (retrace_ins_left_avl i d b l' r _ c1 t' g c A1 Ar Rb Hb H1 NZ) in HH.
          destruct HH as (A2 & H2 & B2 & N2). cbn [height]. repeat split; try assumption.
          intros G _. apply B2; assumption.
        + intros HH. injection HH as <- <- <-. cbn [avl height] in *.
          repeat split; try assumption; try lia; try discriminate. }
    assert (RIGHT :
       match r with
       | E => IOk (N i d (b + 1) l (N id x 0 E E)) (is_E l) []
       | _ => match ins rank dup x id r with
              | IExists e => IExists e
              | IOk r' g c => if g then retrace_ins (N i d (b + 1) l r') c else IOk (N i d b l r') false c
              end
       end = IOk t' g c ->
       avl t' /\ height t' = height (N i d b l r) + (if g then 1 else 0) /\
       (g = true -> N i d b l r <> E -> bal_of t' <> 0) /\ t' <> E).
    { destruct r as [|ri rd rb rl rr].
      - intros HH. injection HH as <- <- <-. cbn [height] in Hb. cbn [avl height bal_of].
        pose proof (height_nonneg l).
        destruct l as [|li ld lb ll lr]; cbn [is_E].
        + cbn [height] in *. repeat split; try lia; try discriminate.
        + pose proof (height_pos li ld lb ll lr). cbn [avl] in Al. repeat split; try tauto; try lia; try discriminate.
      - destruct (ins rank dup x id (N ri rd rb rl rr)) as [e|r' g1 c1] eqn:E1; [discriminate|].
        destruct (IHr r' g1 c1 Ar eq_refl) as (A1 & H1 & B1 & N1).
        destruct g1.
        + intros HH. assert (NZ : bal_of r' <> 0) by (apply B1; [reflexivity|discriminate]).
          apply (retrace_ins_right_avl i d b l r' _ c1 t' g c Al A1 Rb Hb H1 NZ) in HH.
          destruct HH as (A2 & H2 & B2 & N2). cbn [height]. repeat split; try assumption.
          intros G _. apply B2; assumption.
        + intros HH. injection HH as <- <- <-. cbn [avl height] in *.
          repeat split; try assumption; try lia; try discriminate. }
    destruct (Z.compare (rank x) (rank d)); [destruct dup; [exact RIGHT|discriminate]|exact LEFT|exact RIGHT].
Qed.

(* ------------------------------------------------------------------ find *)
Lemma find_spec : forall x t, sorted (elems t) ->
  (fst (find rank x t) = None <-> forall y, In y (elems t) -> irank y <> rank x) /\
  (forall it, fst (find rank x t) = Some it -> In it (elems t) /\ irank it = rank x).
Proof.
  intros x. induction t as [|i d b l IHl r IHr]; intros S.
  - cbn. split; [split; [intros _ y []|reflexivity]|discriminate].
  - cbn [elems] in *. apply sorted_app in S as (Sl & Sr & Fl & Fr).
    specialize (IHl Sl). specialize (IHr Sr). rewrite Forall_forall in Fl, Fr.
    cbn [find]. destruct (Z.compare (rank x) (rank d)) eqn:C.
    + apply Z.compare_eq in C. cbn [fst]. split.
      * split; [discriminate|]. intros H. exfalso. apply (H (i, d)).
        -- apply in_or_app. right. left. reflexivity.
        -- unfold AvlSpec.irank. cbn [snd]. lia.
      * intros it [= <-]. split; [apply in_or_app; right; left; reflexivity|].
        unfold AvlSpec.irank. cbn [snd]. lia.
    + rewrite Z.compare_lt_iff in C. destruct (find rank x l) as [res lg]. cbn [fst] in *.
      destruct IHl as [I1 I2]. split.
      * rewrite I1. split.
        -- intros H y Hy. apply in_app_or in Hy as [Hy|[<-|Hy]]; [apply H; assumption| |].
           ++ unfold AvlSpec.irank. cbn [snd]. lia.
           ++ specialize (Fr y Hy). unfold AvlSpec.irank in *. cbn [snd] in *. lia.
        -- intros H y Hy. apply H. apply in_or_app. left. assumption.
      * intros it Hit. destruct (I2 it Hit) as [J1 J2]. split; [apply in_or_app; left|]; assumption.
    + rewrite Z.compare_gt_iff in C. destruct (find rank x r) as [res lg]. cbn [fst] in *.
      destruct IHr as [I1 I2]. split.
      * rewrite I1. split.
        -- intros H y Hy. apply in_app_or in Hy as [Hy|[<-|Hy]]; [| |apply H; assumption].
           ++ specialize (Fl y Hy). unfold AvlSpec.irank in *. cbn [snd] in *. lia.
           ++ unfold AvlSpec.irank. cbn [snd]. lia.
        -- intros H y Hy. apply H. apply in_or_app. right. right. assumption.
      * intros it Hit. destruct (I2 it Hit) as [J1 J2]. split; [apply in_or_app; right; right|]; assumption.
Qed.

Lemma sfind_none : forall x l, sfind rank x l = None <-> forall y, In y l -> irank y <> rank x.
Proof.
  intros x l. unfold sfind. split.
  - intros H y Hy. pose proof (find_none _ _ H y Hy) as H1. cbv beta in H1. lia.
  - intros H. destruct (List.find (fun y => irank y =? rank x) l) as [y|] eqn:F; [|reflexivity].
    apply find_some in F as [F1 F2]. specialize (H y F1). lia.
Qed.

Lemma find_cost : forall x t, Z.of_nat (length (snd (find rank x t))) <= height t.
Proof.
  induction t as [|i d b l IHl r IHr]; cbn [find height]; [cbn; lia|].
  pose proof (height_nonneg l). pose proof (height_nonneg r).
  destruct (Z.compare (rank x) (rank d)).
  - cbn [snd length]. lia.
  - destruct (find rank x l) as [res lg]. cbn [snd length] in *. lia.
  - destruct (find rank x r) as [res lg]. cbn [snd length] in *. lia.
Qed.

(* the ids logged by find are ids of stored elements, along one root-to-node path *)
Lemma find_log_path : forall x t i, In i (snd (find rank x t)) -> In i (ids t).
Proof.
  intros x. induction t as [|i d b l IHl r IHr]; intros j; cbn [find]; [intros []|].
  unfold ids in *. cbn [elems]. rewrite map_app. cbn [map fst].
  destruct (Z.compare (rank x) (rank d)).
  - cbn [snd]. intros [<-|[]]. apply in_or_app. right. left. reflexivity.
  - destruct (find rank x l) as [res lg]. cbn [snd] in *. intros [<-|H].
    + apply in_or_app. right. left. reflexivity.
    + apply in_or_app. left. apply IHl. assumption.
  - destruct (find rank x r) as [res lg]. cbn [snd] in *. intros [<-|H].
    + apply in_or_app. right. left. reflexivity.
    + apply in_or_app. right. right. apply IHr. assumption.
Qed.

End Proofs.
