(* C06 — lemmas about the AVL model *)
From Coq Require Import ZArith List Bool Lia.
From Zix Require Import AvlSpec AvlModel.
Import ListNotations.
Local Open Scope Z_scope.

Lemma height_nonneg : forall t, 0 <= height t.
Proof. induction t; cbn [height]; lia. Qed.

Section Proofs.
Variable rank : elt -> Z.

Lemma find_cost : forall x t, Z.of_nat (length (snd (find rank x t))) <= height t.
Proof.
  induction t as [|i d b l IHl r IHr]; cbn [find height]; [cbn; lia|].
  pose proof (height_nonneg l). pose proof (height_nonneg r).
  destruct (Z.compare (rank x) (rank d)).
  - cbn [snd length]. lia.
  - destruct (find rank x l) as [res lg]. cbn [snd length] in *. lia.
  - destruct (find rank x r) as [res lg]. cbn [snd length] in *. lia.
Qed.
End Proofs.
