(* BTreeProofsRemovePrim — the restructuring primitives of removal (rotate_left, rotate_right, merge, plug),
   each proved once against the in-order listing and the occupancy counts. *)
From Coq Require Import ZArith List Bool Arith Lia ZifyBool ZifyNat.
From Zix Require Import BTreeSpec BTreeModel BTreeProofsBase.
Import ListNotations.
Ltac Zify.zify_post_hook ::= Z.div_mod_to_equations.
Set Default Proof Using "All".

Section RemovePrim.
  Variable elt : Type.
  Variable rank : elt -> Z.
  Variable dflt : elt.
  Variables L I : nat.
  Hypothesis HI : I = L / 2.
  Hypothesis HI3 : 3 <= I.
  Notation node := (node elt).
  Notation tree := (tree elt).
  Notation dnode := (@dnode elt).
  Notation asc := (@asc elt rank).

  (* ---------------------------------------------------------------- listing of two adjacent children *)
  Lemma inter_join : forall (A B : list (list elt)) U v V, length A = S (length U) ->
    inter (A ++ B) (U ++ v :: V) = inter A U ++ v :: inter B V.
  Proof.
    induction A as [|a A IH]; intros B U v V H; cbn [length] in H; [lia|].
    destruct U as [|u U].
    - destruct A; cbn [length] in H; [|lia]. cbn. reflexivity.
    - cbn [length] in H. cbn [app inter]. rewrite IH by lia.
      destruct A as [|a' A]; [cbn [length] in H; lia|]. cbn [inter app]. rewrite <- app_assoc. reflexivity.
  Qed.

  Lemma elements_split2 : forall (vs : list elt) cs i, length cs = S (length vs) -> i < length vs ->
    elements (Inode vs cs) =
    pre vs cs i ++ elements (nth i cs dnode) ++ nth i vs dflt :: elements (nth (S i) cs dnode) ++ post vs cs (S i).
  Proof.
    intros vs cs i Hl Hi. rewrite (elements_split _ rank dflt vs cs i) by lia.
    rewrite (post_step _ rank dflt vs cs i) by lia. reflexivity.
  Qed.

  Lemma pre_ext : forall (vs vs' : list elt) (cs cs' : list node) i,
    firstn i vs' = firstn i vs -> firstn i cs' = firstn i cs -> pre vs' cs' i = pre vs cs i.
  Proof. intros vs vs' cs cs' i H1 H2. unfold pre. rewrite H1, H2. reflexivity. Qed.

  Lemma post_ext : forall (vs vs' : list elt) (cs cs' : list node) i j,
    skipn j vs' = skipn i vs -> skipn (S j) cs' = skipn (S i) cs -> post vs' cs' j = post vs cs i.
  Proof. intros vs vs' cs cs' i j H1 H2. unfold post. rewrite H1, H2. reflexivity. Qed.

  (* firstn / skipn through the array updates *)
  Lemma skipn_skipn' : forall A x y (l : list A), skipn x (skipn y l) = skipn (x + y) l.
  Proof.
    intros A x y. revert x. induction y as [|y IH]; intros x l.
    - rewrite Nat.add_0_r. reflexivity.
    - destruct l as [|a l]; [rewrite !skipn_nil; reflexivity|].
      replace (x + S y) with (S (x + y)) by lia. cbn [skipn]. apply IH.
  Qed.

  Lemma firstn_aset_lt : forall A (l : list A) i j e, i <= j -> j < length l -> firstn i (aset l j e) = firstn i l.
  Proof.
    intros. unfold aset. rewrite firstn_app, firstn_firstn, firstn_length.
    replace (i - Nat.min j (length l)) with 0 by lia. cbn [firstn]. rewrite app_nil_r. f_equal. lia.
  Qed.

  Lemma skipn_aset_gt : forall A (l : list A) i j e, j < i -> j < length l -> skipn i (aset l j e) = skipn i l.
  Proof.
    intros. unfold aset. rewrite skipn_app, firstn_length.
    rewrite (skipn_all2 (firstn j l)) by (rewrite firstn_length; lia).
    replace (i - Nat.min j (length l)) with (S (i - S j)) by lia. cbn [app].
    change (skipn (S (i - S j)) (e :: skipn (S j) l)) with (skipn (i - S j) (skipn (S j) l)).
    rewrite skipn_skipn'. f_equal. lia.
  Qed.

  Lemma firstn_aerase_le : forall A (l : list A) i j, i <= j -> j < length l -> firstn i (aerase l j) = firstn i l.
  Proof.
    intros. unfold aerase. rewrite firstn_app, firstn_firstn, firstn_length.
    replace (i - Nat.min j (length l)) with 0 by lia. cbn [firstn]. rewrite app_nil_r. f_equal. lia.
  Qed.

  Lemma skipn_aerase_ge : forall A (l : list A) i j, j <= i -> j < length l -> skipn i (aerase l j) = skipn (S i) l.
  Proof.
    intros. unfold aerase. rewrite skipn_app, firstn_length.
    rewrite (skipn_all2 (firstn j l)) by (rewrite firstn_length; lia).
    replace (i - Nat.min j (length l)) with (i - j) by lia. cbn [app].
    rewrite skipn_skipn'. f_equal. lia.
  Qed.

  Lemma nth_firstn_lt : forall A (l : list A) i k d, i < k -> nth i (firstn k l) d = nth i l d.
  Proof.
    intros A l. induction l as [|a l IH]; intros i k d H.
    - rewrite firstn_nil. reflexivity.
    - destruct k as [|k]; [lia|]. destruct i as [|i]; cbn [firstn nth]; auto. apply IH. lia.
  Qed.

  Lemma nth_aerase_lt : forall A (l : list A) i j d, i < j -> nth i (aerase l j) d = nth i l d.
  Proof.
    intros. unfold aerase. destruct (Nat.le_gt_cases (length l) i).
    - rewrite !nth_overflow; auto. rewrite app_length, firstn_length, skipn_length. lia.
    - rewrite app_nth1 by (rewrite firstn_length; lia). apply nth_firstn_lt. lia.
  Qed.

  Lemma nth_aerase_ge : forall A (l : list A) i j d, j <= i -> j < length l -> nth i (aerase l j) d = nth (S i) l d.
  Proof.
    intros. unfold aerase. rewrite app_nth2; rewrite firstn_length; [|lia].
    replace (i - Nat.min j (length l)) with (i - j) by lia.
    rewrite <- (firstn_skipn (S j) l) at 2. rewrite app_nth2; rewrite firstn_length; [|lia].
    f_equal. lia.
  Qed.

  Lemma Forall_aerase : forall (P : node -> Prop) cs j, Forall P cs -> Forall P (aerase cs j).
  Proof.
    intros P cs j H. unfold aerase. apply Forall_app. rewrite Forall_forall in H. split; apply Forall_forall; intros x Hx; apply H.
    - rewrite <- (firstn_skipn j cs). apply in_or_app. auto.
    - rewrite <- (firstn_skipn (S j) cs). apply in_or_app. auto.
  Qed.

  (* ---------------------------------------------------------------- listing after rewriting two adjacent children *)
  Lemma elements_two : forall (vs : list elt) cs i x l' r', length cs = S (length vs) -> i < length vs ->
    elements (Inode (aset vs i x) (aset (aset cs i l') (S i) r')) =
    pre vs cs i ++ elements l' ++ x :: elements r' ++ post vs cs (S i).
  Proof.
    intros vs cs i x l' r' Hl Hi.
    assert (Hl1 : length (aset cs i l') = length cs) by (apply length_aset; lia).
    rewrite (elements_split2 (aset vs i x) (aset (aset cs i l') (S i) r') i).
    2:{ rewrite !length_aset; lia. }
    2:{ rewrite length_aset; lia. }
    rewrite (nth_aset_neq (aset cs i l') (S i) i) by lia.
    rewrite !nth_aset_eq by lia.
    f_equal; [|f_equal; f_equal; f_equal].
    - apply pre_ext.
      + apply firstn_aset. lia.
      + rewrite firstn_aset_lt by lia. apply firstn_aset. lia.
    - apply post_ext.
      + apply skipn_aset. lia.
      + rewrite skipn_aset by lia. apply skipn_aset_gt; lia.
  Qed.

  Lemma elements_merge_parent : forall (vs : list elt) cs i m, length cs = S (length vs) -> i < length vs ->
    elements (Inode (aerase vs i) (aerase (aset cs i m) (S i))) = pre vs cs i ++ elements m ++ post vs cs (S i).
  Proof.
    intros vs cs i m Hl Hi.
    assert (Hl1 : length (aset cs i m) = length cs) by (apply length_aset; lia).
    rewrite (elements_split _ rank dflt (aerase vs i) (aerase (aset cs i m) (S i)) i).
    2:{ rewrite !length_aerase; lia. }
    2:{ rewrite length_aerase; lia. }
    rewrite nth_aerase_lt by lia. rewrite nth_aset_eq by lia.
    f_equal; [|f_equal].
    - apply pre_ext.
      + apply firstn_aerase_le; lia.
      + rewrite firstn_aerase_le by lia. apply firstn_aset. lia.
    - apply post_ext.
      + apply skipn_aerase_ge; lia.
      + rewrite skipn_aerase_ge by lia. apply skipn_aset_gt; lia.
  Qed.

  (* listing of an internal page extended at the right end / shortened at the left end *)
  Lemma elements_snoc : forall (lv : list elt) (lc : list node) pv c, length lc = S (length lv) ->
    elements (Inode (lv ++ [pv]) (lc ++ [c])) = elements (Inode lv lc) ++ pv :: elements c.
  Proof.
    intros. cbn [elements]. rewrite map_app. rewrite inter_join by (rewrite map_length; lia).
    cbn. reflexivity.
  Qed.

  Lemma elements_uncons : forall (v : elt) rv (c : node) rc,
    elements (Inode (v :: rv) (c :: rc)) = elements c ++ v :: elements (Inode rv rc).
  Proof. reflexivity. Qed.

  Lemma elements_cons : forall (v : elt) rv (c : node) rc,
    elements c ++ v :: elements (Inode rv rc) = elements (Inode (v :: rv) (c :: rc)).
  Proof. reflexivity. Qed.

  Lemma elements_join : forall (lv : list elt) (lc : list node) pv rv rc, length lc = S (length lv) ->
    elements (Inode (lv ++ pv :: rv) (lc ++ rc)) = elements (Inode lv lc) ++ pv :: elements (Inode rv rc).
  Proof.
    intros. cbn [elements]. rewrite map_app. rewrite inter_join by (rewrite map_length; lia). reflexivity.
  Qed.

  (* ---------------------------------------------------------------- the parent-level invariant *)
  Definition PK (h : nat) (vs : list elt) (cs : list node) : Prop :=
    length cs = S (length vs) /\ Forall (wfn L I h) cs.

  Lemma PK_child : forall h vs cs i, PK h vs cs -> i <= length vs -> wfn L I h (nth i cs dnode).
  Proof. intros h vs cs i [Hl Hf] Hi. rewrite Forall_forall in Hf. apply Hf. apply nth_In. lia. Qed.

  Lemma wfn_leaf_inv : forall h (vs : list elt), wfn L I h (Leaf vs) -> h = 1 /\ (L + 1) / 2 - 1 <= length vs <= L.
  Proof. intros [|h] vs; cbn; [tauto|]. intros [-> H]. auto. Qed.

  Lemma wfn_inode_inv : forall h (vs : list elt) cs, wfn L I h (Inode vs cs) ->
    exists h', h = S h' /\ h' <> 0 /\ length cs = S (length vs) /\ (I + 1) / 2 - 1 <= length vs <= I /\ Forall (wfn L I h') cs.
  Proof. intros [|h] vs cs; cbn; [tauto|]. intros (H1 & H2 & H3 & H4). eauto 10. Qed.

  Lemma wfn_leaf_intro : forall (vs : list elt), (L + 1) / 2 - 1 <= length vs <= L -> wfn L I 1 (Leaf vs).
  Proof. intros. cbn. auto. Qed.

  Lemma wfn_inode_intro : forall h (vs : list elt) cs, h <> 0 -> length cs = S (length vs) ->
    (I + 1) / 2 - 1 <= length vs <= I -> Forall (wfn L I h) cs -> wfn L I (S h) (Inode vs cs).
  Proof. intros. cbn. auto. Qed.

  Lemma Forall_firstn : forall (P : node -> Prop) cs k, Forall P cs -> Forall P (firstn k cs).
  Proof.
    intros P cs k H. rewrite Forall_forall in *. intros x Hx. apply H.
    rewrite <- (firstn_skipn k cs). apply in_or_app. auto.
  Qed.
  Lemma Forall_skipn : forall (P : node -> Prop) cs k, Forall P cs -> Forall P (skipn k cs).
  Proof.
    intros P cs k H. rewrite Forall_forall in *. intros x Hx. apply H.
    rewrite <- (firstn_skipn k cs). apply in_or_app. auto.
  Qed.

  Ltac unf := unfold min_vals, max_vals, n_vals, can_remove_from, is_full, minL, minI in *; cbn [is_leaf vals children] in *.

  (* ---------------------------------------------------------------- rotate_left *)
  Lemma rotate_left_spec : forall h vs cs i, PK h vs cs -> i < length vs ->
    min_vals L I (nth (S i) cs dnode) < n_vals (nth (S i) cs dnode) ->
    n_vals (nth i cs dnode) < max_vals L I (nth i cs dnode) ->
    exists x l' r',
      rotate_left dflt (Inode vs cs) i = Inode (aset vs i x) (aset (aset cs i l') (S i) r') /\
      wfn L I h l' /\ wfn L I h r' /\
      n_vals l' = S (n_vals (nth i cs dnode)) /\
      S (n_vals r') = n_vals (nth (S i) cs dnode) /\
      elements l' ++ x :: elements r' =
      elements (nth i cs dnode) ++ nth i vs dflt :: elements (nth (S i) cs dnode).
  Proof.
    intros h vs cs i HP Hi Hr Hl.
    pose proof (PK_child h vs cs i HP ltac:(lia)) as Wl.
    pose proof (PK_child h vs cs (S i) HP ltac:(lia)) as Wr.
    unfold rotate_left.
    destruct (nth i cs dnode) as [lv|lv lc] eqn:El; destruct (nth (S i) cs dnode) as [rv|rv rc] eqn:Er.
    - apply wfn_leaf_inv in Wl as [-> Bl]. apply wfn_leaf_inv in Wr as [_ Br]. unf.
      destruct rv as [|v0 rv]; [cbn [length] in *; lia|].
      exists v0, (Leaf (lv ++ [nth i vs dflt])), (Leaf rv). cbn [nth]. unfold aerase at 1. cbn [firstn skipn app].
      split; [reflexivity|].
      split; [apply wfn_leaf_intro; rewrite app_length; cbn [length] in *; lia|].
      split; [apply wfn_leaf_intro; cbn [length] in *; lia|].
      split; [unf; rewrite app_length; cbn [length]; lia|].
      split; [unf; cbn [length]; lia|].
      cbn [elements]. rewrite <- app_assoc. reflexivity.
    - exfalso. apply wfn_leaf_inv in Wl as [-> _]. apply wfn_inode_inv in Wr as (h' & E & Hn & _). lia.
    - exfalso. apply wfn_leaf_inv in Wr as [-> _]. apply wfn_inode_inv in Wl as (h' & E & Hn & _). lia.
    - apply wfn_inode_inv in Wl as (h' & -> & Hn & Ll & Bl & Fl).
      apply wfn_inode_inv in Wr as (h'' & E & _ & Lr & Br & Fr). injection E as <-. unf.
      destruct rv as [|v0 rv]; [cbn [length] in *; lia|].
      destruct rc as [|c0 rc]; [cbn [length] in *; lia|].
      exists v0, (Inode (lv ++ [nth i vs dflt]) (lc ++ [c0])), (Inode rv rc). cbn [nth].
      unfold aerase. cbn [firstn skipn app].
      inversion Fr as [|? ? Fc0 Frc]; subst.
      split; [reflexivity|].
      split.
      { apply wfn_inode_intro; auto.
        - rewrite !app_length. cbn [length]. lia.
        - rewrite app_length. cbn [length] in *. lia.
        - apply Forall_app. split; auto. }
      split; [apply wfn_inode_intro; auto; cbn [length] in *; lia|].
      split; [unf; rewrite app_length; cbn [length]; lia|].
      split; [unf; cbn [length]; lia|].
      rewrite elements_snoc by assumption. rewrite <- app_assoc. reflexivity.
  Qed.

  Lemma snoc_last : forall A (l : list A) d, l <> [] -> l = firstn (length l - 1) l ++ [nth (length l - 1) l d].
  Proof.
    intros A l d H. assert (0 < length l) by (destruct l; [congruence|cbn; lia]).
    rewrite (firstn_skipn_nth l (length l - 1) d) at 1 by lia.
    rewrite (skipn_all2 (n := S (length l - 1))) by lia. reflexivity.
  Qed.

  (* ---------------------------------------------------------------- rotate_right *)
  Lemma rotate_right_spec : forall h vs cs j, PK h vs cs -> j < length vs ->
    min_vals L I (nth j cs dnode) < n_vals (nth j cs dnode) ->
    n_vals (nth (S j) cs dnode) < max_vals L I (nth (S j) cs dnode) ->
    exists x l' r',
      rotate_right dflt (Inode vs cs) (S j) = Inode (aset vs j x) (aset (aset cs j l') (S j) r') /\
      wfn L I h l' /\ wfn L I h r' /\
      n_vals r' = S (n_vals (nth (S j) cs dnode)) /\
      S (n_vals l') = n_vals (nth j cs dnode) /\
      elements l' ++ x :: elements r' =
      elements (nth j cs dnode) ++ nth j vs dflt :: elements (nth (S j) cs dnode).
  Proof.
    intros h vs cs j HP Hj Hl Hr.
    pose proof (PK_child h vs cs j HP ltac:(lia)) as Wl.
    pose proof (PK_child h vs cs (S j) HP ltac:(lia)) as Wr.
    unfold rotate_right. replace (S j - 1) with j by lia.
    destruct (nth j cs dnode) as [lv|lv lc] eqn:El; destruct (nth (S j) cs dnode) as [rv|rv rc] eqn:Er.
    - apply wfn_leaf_inv in Wl as [-> Bl]. apply wfn_leaf_inv in Wr as [_ Br]. unf.
      assert (Hne : lv <> []) by (destruct lv; [cbn [length] in *; lia|congruence]).
      exists (nth (length lv - 1) lv dflt), (Leaf (firstn (length lv - 1) lv)), (Leaf (nth j vs dflt :: rv)).
      split; [reflexivity|].
      split; [apply wfn_leaf_intro; rewrite firstn_length; lia|].
      split; [apply wfn_leaf_intro; cbn [length] in *; lia|].
      split; [unf; cbn [length]; lia|].
      split; [unf; rewrite firstn_length; lia|].
      cbn [elements].
      transitivity ((firstn (length lv - 1) lv ++ [nth (length lv - 1) lv dflt]) ++ nth j vs dflt :: rv);
        [rewrite <- app_assoc; reflexivity | rewrite <- snoc_last by assumption; reflexivity].
    - exfalso. apply wfn_leaf_inv in Wl as [-> _]. apply wfn_inode_inv in Wr as (h' & E & Hn & _). lia.
    - exfalso. apply wfn_leaf_inv in Wr as [-> _]. apply wfn_inode_inv in Wl as (h' & E & Hn & _). lia.
    - apply wfn_inode_inv in Wl as (h' & -> & Hn & Ll & Bl & Fl).
      apply wfn_inode_inv in Wr as (h'' & E & _ & Lr & Br & Fr). injection E as <-. unf.
      assert (Hne : lv <> []) by (destruct lv; [cbn [length] in *; lia|congruence]).
      assert (Hnec : lc <> []) by (destruct lc; [cbn [length] in *; lia|congruence]).
      exists (nth (length lv - 1) lv dflt),
             (Inode (firstn (length lv - 1) lv) (firstn (length lv - 1 + 1) lc)),
             (Inode (nth j vs dflt :: rv) (nth (length lv) lc dnode :: rc)).
      split; [reflexivity|].
      split.
      { apply wfn_inode_intro; auto.
        - rewrite !firstn_length. lia.
        - rewrite firstn_length. lia.
        - apply Forall_firstn. assumption. }
      split.
      { apply wfn_inode_intro; auto.
        - cbn [length]. lia.
        - cbn [length] in *. lia.
        - constructor; auto. rewrite Forall_forall in Fl. apply Fl. apply nth_In. lia. }
      split; [unf; cbn [length]; lia|].
      split; [unf; rewrite firstn_length; lia|].
      rewrite elements_uncons.
      assert (E1 : elements (Inode lv lc) =
                   elements (Inode (firstn (length lv - 1) lv) (firstn (length lv - 1 + 1) lc)) ++
                   nth (length lv - 1) lv dflt :: elements (nth (length lv) lc dnode)).
      { rewrite <- elements_snoc by (rewrite !firstn_length; lia).
        replace (length lv - 1 + 1) with (length lc - 1) by lia.
        replace (length lv) with (length lc - 1) at 3 by lia.
        rewrite <- (snoc_last _ lv dflt Hne). rewrite <- (snoc_last _ lc dnode Hnec). reflexivity. }
      rewrite E1. rewrite <- !app_assoc. reflexivity.
  Qed.

  (* ---------------------------------------------------------------- merge *)
  Lemma merge_spec : forall h vs cs i, PK h vs cs -> i < length vs ->
    n_vals (nth i cs dnode) = min_vals L I (nth i cs dnode) ->
    n_vals (nth (S i) cs dnode) = min_vals L I (nth (S i) cs dnode) ->
    exists m,
      merge dflt (Inode vs cs) i = Inode (aerase vs i) (aerase (aset cs i m) (S i)) /\
      wfn L I h m /\ min_vals L I m < n_vals m /\
      elements m = elements (nth i cs dnode) ++ nth i vs dflt :: elements (nth (S i) cs dnode).
  Proof.
    intros h vs cs i HP Hi Hl Hr.
    pose proof (PK_child h vs cs i HP ltac:(lia)) as Wl.
    pose proof (PK_child h vs cs (S i) HP ltac:(lia)) as Wr.
    unfold merge.
    destruct (nth i cs dnode) as [lv|lv lc] eqn:El; destruct (nth (S i) cs dnode) as [rv|rv rc] eqn:Er.
    - apply wfn_leaf_inv in Wl as [-> Bl]. apply wfn_leaf_inv in Wr as [_ Br]. unf.
      exists (Leaf (lv ++ nth i vs dflt :: rv)).
      split; [reflexivity|].
      split; [apply wfn_leaf_intro; rewrite app_length; cbn [length]; lia|].
      split; [unf; rewrite app_length; cbn [length]; lia|].
      reflexivity.
    - exfalso. apply wfn_leaf_inv in Wl as [-> _]. apply wfn_inode_inv in Wr as (h' & E & Hn & _). lia.
    - exfalso. apply wfn_leaf_inv in Wr as [-> _]. apply wfn_inode_inv in Wl as (h' & E & Hn & _). lia.
    - apply wfn_inode_inv in Wl as (h' & -> & Hn & Ll & Bl & Fl).
      apply wfn_inode_inv in Wr as (h'' & E & _ & Lr & Br & Fr). injection E as <-. unf.
      exists (Inode (lv ++ nth i vs dflt :: rv) (lc ++ rc)).
      split; [reflexivity|].
      split.
      { apply wfn_inode_intro; auto.
        - rewrite !app_length. cbn [length]. lia.
        - rewrite app_length. cbn [length]. lia.
        - apply Forall_app. auto. }
      split; [unf; rewrite app_length; cbn [length]; lia|].
      apply elements_join. assumption.
  Qed.

  (* ---------------------------------------------------------------- consequences at the parent *)
  Lemma PK_two : forall h vs cs i x l' r', PK h vs cs -> i < length vs -> wfn L I h l' -> wfn L I h r' ->
    PK h (aset vs i x) (aset (aset cs i l') (S i) r').
  Proof.
    intros h vs cs i x l' r' [Hl Hf] Hi Wl Wr. split.
    - rewrite !length_aset; rewrite ?length_aset; lia.
    - apply (Forall_aset _ rank dflt L I HI HI3); auto. apply (Forall_aset _ rank dflt L I HI HI3); auto.
  Qed.

  Lemma PK_merge : forall h vs cs i m, PK h vs cs -> i < length vs -> wfn L I h m ->
    PK h (aerase vs i) (aerase (aset cs i m) (S i)).
  Proof.
    intros h vs cs i m [Hl Hf] Hi Wm. split.
    - rewrite !length_aerase; rewrite ?length_aset; lia.
    - apply Forall_aerase. apply (Forall_aset _ rank dflt L I HI HI3); auto.
  Qed.

  Lemma PK_aset : forall h vs cs i c, PK h vs cs -> i <= length vs -> wfn L I h c -> PK h vs (aset cs i c).
  Proof.
    intros h vs cs i c [Hl Hf] Hi Wc. split.
    - rewrite length_aset; lia.
    - apply (Forall_aset _ rank dflt L I HI HI3); auto.
  Qed.
End RemovePrim.

Global Arguments PK {elt}.
