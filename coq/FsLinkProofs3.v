(* C15 — lemmas, links part 3: the file-type queries (mode table over st_mode with permission bits),
   zix_dir_for_each, descriptor accounting. *)
From Coq Require Import ZArith List Bool Lia Permutation.
From Zix Require Import CopySpec CopyModel FsSpec FsModel FsProofs FsProofs3 FsLinkSpec FsLinkModel.
Import ListNotations.
Local Open Scope Z_scope.

(* ---------------------------------------------------------------- st_mode & S_IFMT with permission bits *)
Lemma land_fmt : forall k q, 0 <= k < 16 -> 0 <= q < 4096 -> Z.land (k * 4096 + q) 61440 = k * 4096.
Proof.
  intros k q Hk Hq. apply Z.bits_inj'. intros n Hn. rewrite Z.land_spec.
  change 61440 with (15 * 2 ^ 12). change 4096 with (2 ^ 12).
  destruct (Z.ltb_spec n 12) as [Hlt|Hge].
  - rewrite (Z.mul_pow2_bits_low 15) by lia. rewrite (Z.mul_pow2_bits_low k) by lia. apply andb_false_r.
  - assert (E : forall x, 0 <= x -> Z.testbit x n = Z.testbit (x / 2 ^ 12) (n - 12)).
    { intros x Hx. rewrite Z.div_pow2_bits by lia. f_equal. lia. }
    rewrite (E (k * 2 ^ 12 + q)) by lia. rewrite (E (15 * 2 ^ 12)) by lia. rewrite (E (k * 2 ^ 12)) by lia.
    rewrite Z.div_add_l by lia. rewrite (Z.div_small q) by (change (2 ^ 12) with 4096; lia).
    rewrite !Z.div_mul by lia. rewrite Z.add_0_r.
    destruct (Z.ltb_spec (n - 12) 4) as [H4|H4].
    + change 15 with (Z.ones 4). rewrite Z.ones_spec_low by lia. apply andb_true_r.
    + assert (Z.testbit k (n - 12) = false).
      { destruct (Z.eq_dec k 0) as [->|Hk0]; [apply Z.testbit_0_l|].
        apply Z.bits_above_log2; [lia|]. apply Z.log2_lt_pow2; [lia|].
        apply Z.lt_le_trans with (2 ^ 4); [change (2 ^ 4) with 16; lia|]. apply Z.pow_le_mono_r; lia. }
      rewrite H. reflexivity.
Qed.

Lemma stat_file_type_node : forall n perm, stat_file_type (mode_of_node n perm) = kind_of_node n.
Proof.
  intros n perm. unfold stat_file_type, mode_of_node.
  assert (Hq : 0 <= perm mod 4096 < 4096) by (apply Z.mod_pos_bound; lia).
  set (q := perm mod 4096) in *.
  assert (Hsmall : 0 <= fmt_of_node n + q < 2 ^ 32).
  { change (2 ^ 32) with 4294967296.
    destruct n; unfold fmt_of_node, S_IFDIR, S_IFREG, S_IFLNK, S_IFIFO, S_IFSOCK, S_IFCHR, S_IFBLK; lia. }
  rewrite Z.mod_small by exact Hsmall. unfold S_IFMT.
  destruct n; unfold fmt_of_node, S_IFDIR, S_IFREG, S_IFLNK, S_IFIFO, S_IFSOCK, S_IFCHR, S_IFBLK.
  - change 16384 with (4 * 4096). rewrite land_fmt by lia. reflexivity.
  - change 32768 with (8 * 4096). rewrite land_fmt by lia. reflexivity.
  - change 40960 with (10 * 4096). rewrite land_fmt by lia. reflexivity.
  - change 4096 with (1 * 4096) at 1. rewrite land_fmt by lia. reflexivity.
  - change 49152 with (12 * 4096). rewrite land_fmt by lia. reflexivity.
  - change 8192 with (2 * 4096). rewrite land_fmt by lia. reflexivity.
  - change 24576 with (6 * 4096). rewrite land_fmt by lia. reflexivity.
Qed.

Lemma type_of_res_kind : forall perms r, type_of_res perms r = kind_of_res r.
Proof. intros perms [e|l n b]; [reflexivity|]. apply stat_file_type_node. Qed.

Lemma type_of_res_directory : forall perms r,
  type_of_res perms r = FT_DIRECTORY <-> exists l b, r = RAt l NDir b.
Proof.
  intros perms r. rewrite type_of_res_kind. destruct r as [e|l n b]; cbn [kind_of_res].
  - split; [discriminate|]. intros (l & b & X). discriminate X.
  - destruct n; cbn [kind_of_node]; split; try discriminate; try (intros (l' & b' & X); discriminate X);
      intros _; eauto.
Qed.

(* ---------------------------------------------------------------- strcmp *)
Lemma c_strcmp_eqb : forall a b, nul_free a -> nul_free b -> (c_strcmp a b =? 0) = list_eqb a b.
Proof.
  induction a as [|x a IH]; intros [|y b] Ha Hb; cbn [c_strcmp list_eqb].
  - reflexivity.
  - inversion Hb; subst. apply Z.eqb_neq. lia.
  - inversion Ha; subst. apply Z.eqb_neq. assumption.
  - inversion Ha; inversion Hb; subst. destruct (Z.eqb_spec x y) as [->|N].
    + destruct (Z.eqb_spec y 0); [contradiction|]. cbn [andb]. apply IH; assumption.
    + cbn [andb]. apply Z.eqb_neq. lia.
Qed.

Definition is_dots (e : list Z) : bool := list_eqb e [DOT] || list_eqb e [DOT; DOT].
Definition not_dots (e : list Z) : bool := negb (is_dots e).

Lemma skip_test : forall e, nul_free e ->
  negb (c_strcmp e [DOT] =? 0) && negb (c_strcmp e [DOT; DOT] =? 0) = not_dots e.
Proof.
  intros e He. unfold not_dots, is_dots.
  assert (N1 : nul_free [DOT]) by (repeat constructor; unfold DOT; lia).
  assert (N2 : nul_free [DOT; DOT]) by (repeat constructor; unfold DOT; lia).
  rewrite (c_strcmp_eqb e _ He N1), (c_strcmp_eqb e _ He N2). rewrite negb_orb. reflexivity.
Qed.

(* ---------------------------------------------------------------- the readdir loop *)
(* what one directory entry contributes to the call sequence *)
Definition entry_calls (path : list Z) (data : Z) (e : list Z) : list dcall :=
  DReaddir (Some e) :: (if not_dots e then [DCallback path e data] else []).

Lemma dfe_loop_spec : forall path data ents st, Forall nul_free ents ->
  dfe_loop path data ents st =
  mkD (d_open st)
      (d_calls st ++ flat_map (entry_calls path data) ents ++ [DReaddir None])
      (d_log st ++ map (fun e => (path, e, data)) (filter not_dots ents)).
Proof.
  intros path data. induction ents as [|e ents IH]; intros st H; cbn [dfe_loop map filter app flat_map].
  - unfold d_call. rewrite app_nil_r. reflexivity.
  - inversion H as [|? ? He Hr]; subst. rewrite (skip_test e He). rewrite IH by exact Hr. unfold entry_calls at 2.
    destruct (not_dots e); cbn [d_visit d_call d_open d_calls d_log map app fst snd]; rewrite <- !app_assoc; reflexivity.
Qed.

Lemma dir_for_each_some : forall path data ents st, Forall nul_free ents ->
  dir_for_each path data (Some ents) st =
  mkD (d_open st)
      (d_calls st ++ [DOpendir path true] ++ flat_map (entry_calls path data) ents ++ [DReaddir None; DClosedir])
      (d_log st ++ map (fun e => (path, e, data)) (filter not_dots ents)).
Proof.
  intros path data ents st H. unfold dir_for_each. rewrite dfe_loop_spec by exact H.
  unfold d_set_open, d_call. cbn [d_open d_calls d_log pred]. f_equal.
  rewrite <- !app_assoc. reflexivity.
Qed.

Lemma dir_for_each_none : forall path data st,
  dir_for_each path data None st = mkD (d_open st) (d_calls st ++ [DOpendir path false]) (d_log st).
Proof. reflexivity. Qed.

(* names and counting *)
Definition lz_eq_dec : forall a b : list Z, {a = b} + {a <> b} := list_eq_dec Z.eq_dec.
Definition log_names (l : list (list Z * list Z * Z)) : list (list Z) := map (fun v => snd (fst v)) l.

Lemma log_names_map : forall path data l, log_names (map (fun e => (path, e, data)) l) = l.
Proof. intros path data l. unfold log_names. rewrite map_map. cbn [fst snd]. apply map_id. Qed.

Lemma is_dots_iff : forall e, is_dots e = true <-> e = [DOT] \/ e = [DOT; DOT].
Proof.
  intro e. unfold is_dots. rewrite orb_true_iff, !list_eqb_eq. tauto.
Qed.

Lemma count_filter_not_dots : forall e ents,
  count_occ lz_eq_dec (filter not_dots ents) e = if is_dots e then O else count_occ lz_eq_dec ents e.
Proof.
  intros e. induction ents as [|x ents IH]; cbn [filter count_occ].
  - destruct (is_dots e); reflexivity.
  - unfold not_dots at 1. destruct (is_dots x) eqn:Dx; cbn [negb].
    + rewrite IH. destruct (lz_eq_dec x e) as [->|N]; [rewrite Dx; reflexivity|reflexivity].
    + cbn [count_occ]. rewrite IH. destruct (lz_eq_dec x e) as [->|N]; [rewrite Dx; reflexivity|reflexivity].
Qed.

(* the kernel's list is the directory's names plus "." and "..", in any order: the visits are the directory's
   names, in some order *)
Lemma filter_not_dots_perm : forall ents kids, Permutation ents ([DOT] :: [DOT; DOT] :: kids) ->
  Forall (fun c => is_dots c = false) kids -> Permutation (filter not_dots ents) kids.
Proof.
  intros ents kids P H.
  assert (E : filter not_dots ([DOT] :: [DOT; DOT] :: kids) = kids).
  { change (filter not_dots ([DOT] :: [DOT; DOT] :: kids)) with (filter not_dots kids).
    clear P. induction kids as [|c kids IH]; [reflexivity|]. inversion H as [|? ? Hc Hk]; subst. cbn [filter].
    unfold not_dots at 1. rewrite Hc. cbn [negb]. f_equal. apply IH. exact Hk. }
  rewrite <- E. clear E H. induction P; cbn [filter].
  - constructor.
  - destruct (not_dots x); [constructor|]; assumption.
  - destruct (not_dots x); destruct (not_dots y); try constructor; apply Permutation_refl.
  - eapply Permutation_trans; eassumption.
Qed.

(* ---------------------------------------------------------------- the names of a directory *)
Lemma name_eqb_true : forall a b, name_eqb a b = true -> a = b.
Proof.
  induction a as [|x a IH]; intros [|y b] H; cbn [name_eqb] in H; try discriminate; [reflexivity|].
  apply andb_true_iff in H. destruct H as [H1 H2]. apply Z.eqb_eq in H1. apply IH in H2. congruence.
Qed.
Lemma loc_eqb_true : forall a b, loc_eqb a b = true -> a = b.
Proof.
  induction a as [|x a IH]; intros [|y b] H; cbn [loc_eqb] in H; try discriminate; [reflexivity|].
  apply andb_true_iff in H. destruct H as [H1 H2]. apply name_eqb_true in H1. apply IH in H2. congruence.
Qed.

Lemma children_in : forall fs l c, In c (children fs l) -> exists n, In (l ++ [c], n) fs.
Proof.
  induction fs as [|[l' n'] fs IH]; intros l c H; cbn [children] in H; [contradiction|].
  destruct (rev l') as [|c' rp] eqn:R.
  - destruct (IH _ _ H) as [n Hn]. exists n. right. exact Hn.
  - assert (El : l' = rev rp ++ [c']).
    { rewrite <- (rev_involutive l'), R. reflexivity. }
    destruct (loc_eqb (rev rp) l) eqn:E.
    + apply loc_eqb_true in E. destruct H as [->|H].
      * exists n'. left. rewrite El, E. reflexivity.
      * destruct (IH _ _ H) as [n Hn]. exists n. right. exact Hn.
    + destruct (IH _ _ H) as [n Hn]. exists n. right. exact Hn.
Qed.

Lemma children_nodup : forall fs l, NoDup (map fst fs) -> NoDup (children fs l).
Proof.
  induction fs as [|[l' n'] fs IH]; intros l H; cbn [children]; [constructor|].
  cbn [map fst] in H. inversion H as [|? ? Hnotin Hnd]; subst.
  destruct (rev l') as [|c' rp] eqn:R; [apply IH; exact Hnd|].
  destruct (loc_eqb (rev rp) l) eqn:E; [|apply IH; exact Hnd].
  apply loc_eqb_true in E. constructor; [|apply IH; exact Hnd].
  intro Hin. destruct (children_in _ _ _ Hin) as [n Hn]. apply Hnotin.
  assert (El : l' = l ++ [c']) by (rewrite <- (rev_involutive l'), R, <- E; reflexivity).
  rewrite El. apply (in_map fst) in Hn. exact Hn.
Qed.

Lemma is_dots_name : forall c, is_dots c = is_dot c || is_dotdot c.
Proof.
  intro c. unfold is_dots, is_dot, is_dotdot.
  assert (E : forall a b, list_eqb a b = name_eqb a b).
  { reflexivity. }
  rewrite !E. reflexivity.
Qed.

Lemma children_good : forall fs l, lwf fs -> Forall (fun c => is_dots c = false) (children fs l).
Proof.
  intros fs l [_ W]. apply Forall_forall. intros c Hc. destruct (children_in _ _ _ Hc) as [n Hn].
  destruct (W _ _ Hn) as [_ G]. apply Forall_app in G. destruct G as [_ G]. inversion G as [|? ? [G1 G2] _]; subst.
  rewrite is_dots_name, G1, G2. reflexivity.
Qed.

(* ---------------------------------------------------------------- descriptors *)
Lemma fd_balance_app : forall a b, fd_balance (a ++ b) = fd_balance a + fd_balance b.
Proof. induction a as [|c a IH]; intro b; cbn [fd_balance app]; [lia|]. rewrite IH. lia. Qed.

Lemma fd_balance_readdirs : forall path data (ents : list (list Z)),
  fd_balance (map sys_of_dcall (flat_map (entry_calls path data) ents)) = 0.
Proof.
  intros path data. induction ents as [|e ents IH]; [reflexivity|].
  cbn [flat_map]. rewrite map_app, fd_balance_app, IH. unfold entry_calls. destruct (not_dots e); reflexivity.
Qed.

Lemma fd_balance_fsev : forall tr : list fsev, fd_balance (map sys_of_fsev tr) = 0.
Proof. induction tr as [|[p t|p rc] tr IH]; cbn; [reflexivity|exact IH|exact IH]. Qed.
