(* C08 (hash part): the hash model instrumented with the blocks it requests from and returns to the
   caller's allocator.  Block ids are request serial numbers (a refused request consumes a serial),
   as in AllocModel.v / harness/valloc.h.  Events in the order of /repo/src/hash.c:
     zix_hash_new   malloc(struct); calloc(entries); on failure of the second: free(struct)
     rehash         calloc(new entries) -- refused: nothing is released, NO_MEM;
                    otherwise re-insert everything, then free(old entries)
     zix_hash_free  free(entries); free(struct)
   Everything that does not touch the allocator is HashModel's own code: the pure part of a
   resize is HashModel.resize run on the one answer the allocator just gave.  Definitions only. *)
From Coq Require Import ZArith List Bool.
From Zix Require Import HashSpec HashModel FaultSpec AllocModel.
Import ListNotations.
Local Open Scope Z_scope.

(* a table together with the ids of its two blocks *)
Record ahash := mkA { a_st : hstate; a_self : nat; a_arr : nat }.

Definition with_st (h : ahash) (st : hstate) : ahash := mkA st (a_self h) (a_arr h).

Definition map_out {A B : Type} (f : A -> B) (x : outcome A) : outcome B :=
  match x with Ret a => Ret (f a) | OutOfFuel => OutOfFuel | Undef => Undef end.

(* zix_hash_new *)
Definition anew (s : ast) : option ahash * ast :=
  match alloc Plain s with
  | (None, s1) => (None, s1)
  | (Some hid, s1) =>
      match alloc Plain s1 with
      | (None, s2) => (None, release Plain hid s2)
      | (Some eid, s2) => (Some (mkA hash_new hid eid), s2)
      end
  end.

(* zix_hash_free *)
Definition afree (h : ahash) (s : ast) : ast :=
  release Plain (a_self h) (release Plain (a_arr h) s).

(* grow / shrink: set the new size, rehash (one calloc; the old array is released after the
   re-insertion loop, and only then), roll the size back when the request is refused *)
Definition aresize (h : ahash) (new_n : Z) (s : ast)
  : outcome (hstatus * ahash) * list event * ast :=
  let '(a, s1) := alloc Plain s in
  let '(r, lg, _) := resize (a_st h) new_n [match a with Some _ => true | None => false end] in
  match a, r with
  | Some b, Ret (SUCCESS, st') => (Ret (SUCCESS, mkA st' (a_self h) b), lg, release Plain (a_arr h) s1)
  | _, Ret (x, st') => (Ret (x, with_st h st'), lg, s1)
  | _, OutOfFuel => (OutOfFuel, lg, s1)
  | _, Undef => (Undef, lg, s1)
  end.

Definition agrow (h : ahash) (s : ast) := aresize h (Z.shiftl (h_n (a_st h)) 1) s.

Definition ashrink (h : ahash) (s : ast) : outcome (hstatus * ahash) * list event * ast :=
  if min_n_entries <? h_n (a_st h) then aresize h (Z.shiftr (h_n (a_st h)) 1) s
  else (Ret (SUCCESS, h), [], s).

(* zix_hash_insert_at *)
Definition ainsert_at (h : ahash) (p : plan) (r : rec) (s : ast)
  : outcome (hstatus * ahash) * list event * ast :=
  let st := a_st h in
  if has_value (zget (h_ent st) (p_index p)) then (Ret (EXISTS, h), [], s)
  else
    let st1 := set_ent st (zset (h_ent st) (p_index p) (Live (p_code p) r)) in
    let max_load := h_n st / 2 + h_n st / 8 in
    let new_count := h_count st + 1 in
    if max_load <=? new_count then
      let '(g, lg, s') := agrow (with_st h st1) s in
      (match g with
       | Ret (SUCCESS, h2) => Ret (SUCCESS, with_st h2 (set_count (a_st h2) new_count))
       | Ret (x, h2) =>
           Ret (x, with_st h2 (set_ent (a_st h2) (zset (h_ent (a_st h2)) (p_index p) (zget (h_ent st) (p_index p)))))
       | OutOfFuel => OutOfFuel
       | Undef => Undef
       end, lg, s')
    else (Ret (SUCCESS, with_st h (set_count st1 new_count)), [], s).

(* zix_hash_erase *)
Definition aerase (h : ahash) (i : Z) (s : ast)
  : outcome (hstatus * option rec * ahash) * list event * ast :=
  let st := a_st h in
  let removed := s_value (zget (h_ent st) i) in
  let st1 := set_ent st (zset (h_ent st) i Tomb) in
  let st2 := set_count st1 (h_count st1 - 1) in
  if h_count st2 <? h_n st2 / 4 then
    let '(x, lg, s') := ashrink (with_st h st2) s in
    (match x with
     | Ret (status, h3) => Ret (status, removed, h3)
     | OutOfFuel => OutOfFuel
     | Undef => Undef
     end, lg, s')
  else (Ret (SUCCESS, removed, with_st h st2), [], s).

Section WithHash.
  Variable hf : Z -> Z.

  Definition ainsert (h : ahash) (r : rec) (s : ast)
    : outcome (hstatus * ahash) * list event * ast :=
    let (p, lg) := plan_insert hf (a_st h) (KOfRec r) in
    match p with
    | Ret pl => let '(x, lg', s') := ainsert_at h pl r s in (x, EvKeyOf r :: lg ++ lg', s')
    | OutOfFuel => (OutOfFuel, EvKeyOf r :: lg, s)
    | Undef => (Undef, EvKeyOf r :: lg, s)
    end.

  Definition aremove (h : ahash) (k : Z) (s : ast)
    : outcome (hstatus * option rec * ahash) * list event * ast :=
    let (fi, lg) := find hf (a_st h) k in
    match fi with
    | Ret i =>
        if i =? h_n (a_st h) then (Ret (NOT_FOUND, None, h), lg, s)
        else let '(x, lg', s') := aerase h i s in (x, lg ++ lg', s')
    | OutOfFuel => (OutOfFuel, lg, s)
    | Undef => (Undef, lg, s)
    end.

  (* one API call on the instrumented table; the calls that never allocate are HashModel.step *)
  Definition arstate := (ahash * option (plan * Z))%type.

  Definition astep (rs : arstate) (c : HashSpec.op) (s : ast)
    : outcome (oresult * arstate) * list event * ast :=
    let (h, pend) := rs in
    match c with
    | OInsert r =>
        let '(x, lg, s') := ainsert h r s in
        (match x with
         | Ret (st, h') => Ret (RStatus st, (h', match st with SUCCESS => None | _ => pend end))
         | OutOfFuel => OutOfFuel
         | Undef => Undef
         end, lg, s')
    | OInsertAt r =>
        match pend with
        | Some (pl, k) =>
            if rkey r =? k then
              let '(x, lg, s') := ainsert_at h pl r s in
              (match x with
               | Ret (st, h') => Ret (RStatus st, (h', match st with SUCCESS => None | _ => pend end))
               | OutOfFuel => OutOfFuel
               | Undef => Undef
               end, lg, s')
            else (Ret (RSkipped, rs), [], s)
        | None => (Ret (RSkipped, rs), [], s)
        end
    | ORemove k =>
        let '(x, lg, s') := aremove h k s in
        (match x with
         | Ret (st, r, h') => Ret (RRemoved st r, (h', match st with NOT_FOUND => pend | _ => None end))
         | OutOfFuel => OutOfFuel
         | Undef => Undef
         end, lg, s')
    | OErase k =>
        let (fi, lg) := find hf (a_st h) k in
        match fi with
        | Ret i =>
            if i =? h_n (a_st h) then (Ret (RRemoved NOT_FOUND None, rs), lg, s)
            else
              let '(x, lg', s') := aerase h i s in
              (match x with
               | Ret (st, r, h') => Ret (RRemoved st r, (h', None))
               | OutOfFuel => OutOfFuel
               | Undef => Undef
               end, lg ++ lg', s')
        | OutOfFuel => (OutOfFuel, lg, s)
        | Undef => (Undef, lg, s)
        end
    | _ =>
        (* plan_insert(_prehashed), record_at, find, find_record, size, iteration: no allocation *)
        let '(x, lg, _) := step hf (a_st h, pend) c [] in
        (map_out (fun y : oresult * rstate => (fst y, (with_st h (fst (snd y)), snd (snd y)))) x, lg, s)
    end.

  Fixpoint arun (rs : arstate) (cs : list HashSpec.op) (s : ast)
    : outcome (list (oresult * list event)) * arstate * ast :=
    match cs with
    | [] => (Ret [], rs, s)
    | c :: cs' =>
        let '(x, lg, s') := astep rs c s in
        match x with
        | Ret (res, rs') =>
            let '(y, rs'', s'') := arun rs' cs' s' in
            (match y with
             | Ret l => Ret ((res, lg) :: l)
             | OutOfFuel => OutOfFuel
             | Undef => Undef
             end, rs'', s'')
        | OutOfFuel => (OutOfFuel, rs, s')
        | Undef => (Undef, rs, s')
        end
    end.

  (* the whole life of a table under an oracle: zix_hash_new, a history, zix_hash_free *)
  Definition hash_life (o : list bool) (cs : list HashSpec.op) : list aevent :=
    match anew (ast0 o) with
    | (None, s) => log s
    | (Some h, s) => let '(_, rs, s') := arun (h, None) cs s in log (afree (fst rs) s')
    end.
End WithHash.
