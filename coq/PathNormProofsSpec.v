(* C11 — lemmas about the spec alone: decomposition/render round trip, the normalisation
   stack machine, normal form, idempotence, fixed point. *)
From Coq Require Import ZArith List Bool Lia.
From Zix Require Import PathNormSpec.
Import ListNotations.
Local Open Scope Z_scope.

(* ---- byte-list equality -------------------------------------------------------------- *)
Lemma bytes_eqb_eq : forall a b, bytes_eqb a b = true <-> a = b.
Proof.
  induction a as [|x a IH]; destruct b as [|y b]; cbn; split; intro H; try congruence; try discriminate.
  - apply andb_true_iff in H as [H1 H2]. apply Z.eqb_eq in H1. apply IH in H2. congruence.
  - inversion H; subst. rewrite Z.eqb_refl. cbn. apply IH. reflexivity.
Qed.

Lemma bytes_eqb_refl : forall a, bytes_eqb a a = true.
Proof. intro a. apply bytes_eqb_eq. reflexivity. Qed.

Lemma elems_eqb_eq : forall a b, elems_eqb a b = true <-> a = b.
Proof.
  induction a as [|x a IH]; destruct b as [|y b]; cbn; split; intro H; try congruence; try discriminate.
  - apply andb_true_iff in H as [H1 H2]. apply bytes_eqb_eq in H1. apply IH in H2. congruence.
  - inversion H; subst. rewrite bytes_eqb_refl. cbn. apply IH. reflexivity.
Qed.

Lemma peqb_peq : forall s t, peqb s t = true <-> peq s t.
Proof.
  intros s t. unfold peqb, peq. rewrite andb_true_iff, elems_eqb_eq, Bool.eqb_true_iff. tauto.
Qed.

Lemma is_dot_eq : forall e, is_dot e = true <-> e = [DOT].
Proof. intro e. apply bytes_eqb_eq. Qed.
Lemma is_dotdot_eq : forall e, is_dotdot e = true <-> e = [DOT; DOT].
Proof. intro e. apply bytes_eqb_eq. Qed.
Lemma is_empty_eq : forall e, is_empty e = true <-> e = [].
Proof. destruct e; cbn; split; congruence. Qed.

(* ---- element kinds --------------------------------------------------------------------- *)
Definition sepfree (e : elem) : Prop := Forall (fun c => c <> SEP) e.
Definition name_ok (e : elem) : Prop := e <> [] /\ sepfree e.
(* a proper name: not "", ".", ".." *)
Definition proper (e : elem) : bool := negb (is_empty e) && negb (is_dot e) && negb (is_dotdot e).

(* well-formed element list: non-empty separator-free elements, optionally followed by one
   empty element (trailing separator) when there is at least one element before it *)
Definition wf (es : list elem) : Prop :=
  exists names tl, es = names ++ tl /\ Forall name_ok names /\
                   (tl = [] \/ (tl = [[]] /\ names <> [])).

(* ---- fields ---------------------------------------------------------------------------- *)
Lemma fields_nonnil : forall s, fields s <> [].
Proof.
  induction s as [|c s IH]; cbn; [discriminate|].
  destruct (c =? SEP); [discriminate|]. destruct (fields s); [congruence|discriminate].
Qed.

Lemma fields_sepfree_all : forall s, Forall sepfree (fields s).
Proof.
  induction s as [|c s IH]; cbn.
  - repeat constructor.
  - destruct (c =? SEP) eqn:E.
    + constructor; [constructor|exact IH].
    + destruct (fields s) as [|f fs]; [repeat constructor; apply Z.eqb_neq; exact E|].
      inversion IH; subst. constructor; [|assumption]. constructor; [apply Z.eqb_neq; exact E|assumption].
Qed.

Lemma fields_sepfree : forall e, sepfree e -> fields e = [e].
Proof.
  induction e as [|c e IH]; intro H; cbn; [reflexivity|].
  inversion H; subst. apply Z.eqb_neq in H2. rewrite H2. rewrite (IH H3). reflexivity.
Qed.

Lemma fields_app_sep : forall e t, sepfree e -> fields (e ++ SEP :: t) = e :: fields t.
Proof.
  induction e as [|c e IH]; intros t H; cbn.
  - reflexivity.
  - inversion H; subst. apply Z.eqb_neq in H2. rewrite H2. rewrite (IH t H3). reflexivity.
Qed.

Lemma fields_join : forall es, Forall sepfree es -> es <> [] -> fields (join_elems es) = es.
Proof.
  induction es as [|e es IH]; intros H N; [congruence|].
  inversion H; subst. destruct es as [|e2 es'].
  - cbn. apply fields_sepfree. assumption.
  - change (join_elems (e :: e2 :: es')) with (e ++ SEP :: join_elems (e2 :: es')).
    rewrite fields_app_sep by assumption. rewrite IH; [reflexivity|assumption|discriminate].
Qed.

(* ---- elems of a list of fields ---------------------------------------------------------- *)
Definition elems_of (f : list elem) : list elem :=
  let names := filter (fun e => negb (is_empty e)) (removelast f) in
  let l := last f [] in
  match names with
  | [] => if is_empty l then [] else [l]
  | _ => names ++ [l]
  end.

Lemma elems_unfold : forall s, elems s = elems_of (fields s).
Proof. reflexivity. Qed.

Lemma filter_nonempty_id : forall l, Forall name_ok l -> filter (fun e => negb (is_empty e)) l = l.
Proof.
  induction l as [|e l IH]; intro H; cbn; [reflexivity|].
  inversion H; subst. destruct H2 as [Hne _]. destruct e; [congruence|]. cbn. f_equal. apply IH. assumption.
Qed.

Lemma elems_of_cons_empty : forall f, f <> [] -> elems_of ([] :: f) = elems_of f.
Proof.
  intros f N. unfold elems_of. destruct f as [|a f]; [congruence|]. reflexivity.
Qed.

Lemma removelast_app1 : forall (A : Type) (l : list A) (x : A), removelast (l ++ [x]) = l.
Proof. intros. rewrite removelast_app by discriminate. cbn. apply app_nil_r. Qed.

Lemma last_app1 : forall (A : Type) (l : list A) (x d : A), last (l ++ [x]) d = x.
Proof. intros. apply last_last. Qed.

Lemma elems_of_wf : forall es, wf es -> es <> [] -> elems_of es = es.
Proof.
  intros es (names & tl & -> & Hn & Ht) N. unfold elems_of.
  destruct Ht as [-> | [-> Hne]].
  - rewrite app_nil_r in *. destruct (exists_last N) as (l' & x & ->).
    rewrite removelast_app1, last_app1.
    apply Forall_app in Hn as [Hl Hx]. rewrite filter_nonempty_id by assumption.
    inversion Hx; subst. destruct H1 as [Hxne _].
    destruct l'; [destruct x; [congruence|reflexivity]|reflexivity].
  - rewrite removelast_app1, last_app1. rewrite filter_nonempty_id by assumption.
    destruct names; [congruence|reflexivity].
Qed.

Lemma wf_sepfree : forall es, wf es -> Forall sepfree es.
Proof.
  intros es (names & tl & -> & Hn & Ht). apply Forall_app. split.
  - eapply Forall_impl; [|exact Hn]. intros a [_ H]. exact H.
  - destruct Ht as [-> | [-> _]]; repeat constructor.
Qed.

Lemma elems_join : forall es, wf es -> elems (join_elems es) = es.
Proof.
  intros es W. destruct es as [|e es]; [reflexivity|].
  rewrite elems_unfold, fields_join; [|apply wf_sepfree; assumption|discriminate].
  apply elems_of_wf; [assumption|discriminate].
Qed.

Lemma elems_render : forall r es, wf es -> elems (render r es) = es.
Proof.
  intros r es W. destruct r; cbn [render app].
  - rewrite elems_unfold. cbn [fields]. rewrite Z.eqb_refl.
    rewrite elems_of_cons_empty by apply fields_nonnil. apply (elems_join es W).
  - apply elems_join. assumption.
Qed.

Lemma wf_head_not_sep : forall es, wf es -> has_root (join_elems es) = false.
Proof.
  intros es (names & tl & -> & Hn & Ht). destruct names as [|n names].
  - destruct Ht as [-> | [-> H]]; [reflexivity|congruence].
  - inversion Hn; subst. destruct H1 as [Hne Hsf]. destruct n as [|c n]; [congruence|].
    inversion Hsf; subst. apply Z.eqb_neq in H1.
    cbn [app join_elems]. destruct (names ++ tl); cbn; exact H1.
Qed.

Lemma has_root_render : forall r es, wf es -> has_root (render r es) = r.
Proof.
  intros r es W. destruct r; cbn [render app].
  - cbn. reflexivity.
  - apply wf_head_not_sep. assumption.
Qed.

(* elems of any string is well-formed *)
Lemma Forall_removelast : forall (A : Type) (P : A -> Prop) l, Forall P l -> Forall P (removelast l).
Proof.
  induction l as [|a l IH]; intro H; cbn; [constructor|].
  inversion H; subst. destruct l; [constructor|]. constructor; [assumption|apply IH; assumption].
Qed.

Lemma Forall_last : forall (A : Type) (P : A -> Prop) l d, Forall P l -> l <> [] -> P (last l d).
Proof.
  induction l as [|a l IH]; intros d H N; [congruence|].
  inversion H; subst. destruct l; [assumption|]. apply IH; [assumption|discriminate].
Qed.

Lemma elems_of_is_wf : forall f, Forall sepfree f -> f <> [] -> wf (elems_of f).
Proof.
  intros f Hf N. unfold elems_of.
  set (names := filter (fun e => negb (is_empty e)) (removelast f)).
  assert (Hn : Forall name_ok names).
  { apply Forall_forall. intros e He. apply filter_In in He as [Hin Hne].
    pose proof (Forall_removelast _ _ _ Hf) as Hr. rewrite Forall_forall in Hr.
    split; [destruct e; [discriminate|discriminate]|apply Hr; assumption]. }
  assert (Hl : sepfree (last f [])) by (apply Forall_last; assumption).
  destruct names as [|n names'] eqn:E.
  - destruct (last f []) as [|c l] eqn:El; cbn.
    + exists [], []. repeat split; [constructor|left; reflexivity].
    + exists [c :: l], []. repeat split; [|left; reflexivity].
      constructor; [split; [discriminate|assumption]|constructor].
  - destruct (last f []) as [|c l] eqn:El.
    + exists (n :: names'), [[]]. repeat split; [assumption|right; split; [reflexivity|discriminate]].
    + exists ((n :: names') ++ [c :: l]), []. rewrite app_nil_r. repeat split; [|left; reflexivity].
      apply Forall_app. split; [assumption|]. constructor; [split; [discriminate|assumption]|constructor].
Qed.

Lemma elems_wf : forall s, wf (elems s).
Proof.
  intro s. rewrite elems_unfold. apply elems_of_is_wf; [apply fields_sepfree_all|apply fields_nonnil].
Qed.

Lemma elems_nil_no_root : forall s, elems s = [] -> has_root s = false -> s = [].
Proof.
  intros s He Hr. destruct s as [|c s]; [reflexivity|]. cbn in Hr.
  rewrite elems_unfold in He. cbn [fields] in He. rewrite Hr in He.
  pose proof (fields_nonnil s) as N. destruct (fields s) as [|f fs] eqn:Ef; [congruence|].
  unfold elems_of in He. cbn [removelast last] in He. destruct fs as [|g fs'].
  - cbn in He. discriminate.
  - cbn [filter is_empty negb] in He.
    destruct (filter (fun e => negb (is_empty e)) (removelast (g :: fs'))); discriminate.
Qed.

(* ---- the stack machine ----------------------------------------------------------------- *)
Definition DD : elem := [DOT; DOT].

Fixpoint stk_ok (root : bool) (out : list elem) : bool :=
  match out with
  | [] => true
  | x :: out' => if is_dotdot x then negb root && forallb is_dotdot out'
                 else proper x && stk_ok root out'
  end.

Lemma proper_not_dotdot : forall e, proper e = true -> is_dotdot e = false.
Proof. intros e H. unfold proper in H. destruct (is_dotdot e); [rewrite andb_false_r in H; discriminate|reflexivity]. Qed.
Lemma proper_not_dot : forall e, proper e = true -> is_dot e = false.
Proof. intros e H. unfold proper in H. destruct (is_dot e); [rewrite andb_false_r in H; discriminate|reflexivity]. Qed.
Lemma proper_not_empty : forall e, proper e = true -> is_empty e = false.
Proof. intros e H. unfold proper in H. destruct (is_empty e); [discriminate|reflexivity]. Qed.
Lemma proper_intro : forall e, is_empty e = false -> is_dot e = false -> is_dotdot e = false -> proper e = true.
Proof. intros e A B C. unfold proper. rewrite A, B, C. reflexivity. Qed.

Lemma step_ok : forall root out t n,
  stk_ok root out = true -> stk_ok root (fst (norm_step root (out, t) n)) = true.
Proof.
  intros root out t n H. unfold norm_step.
  destruct (is_empty n || is_dot n) eqn:E1; [exact H|].
  apply orb_false_iff in E1 as [Ee Ed].
  destruct (is_dotdot n) eqn:E2.
  - destruct out as [|x out'].
    + destruct root; cbn; [reflexivity|]. rewrite E2. reflexivity.
    + destruct (is_dotdot x) eqn:Ex; cbn [fst].
      * cbn [stk_ok] in *. rewrite E2. rewrite Ex in H. apply andb_true_iff in H as [H1 H2].
        rewrite H1. cbn. rewrite Ex, H2. reflexivity.
      * cbn [stk_ok] in H. rewrite Ex in H. apply andb_true_iff in H as [_ H2]. exact H2.
  - cbn [fst stk_ok]. rewrite E2, H, andb_true_r. apply proper_intro; assumption.
Qed.

Lemma fold_ok : forall root es out t,
  stk_ok root out = true -> stk_ok root (fst (fold_left (norm_step root) es (out, t))) = true.
Proof.
  induction es as [|n es IH]; intros out t H; [exact H|].
  cbn [fold_left]. pose proof (step_ok root out t n H) as H'.
  destruct (norm_step root (out, t) n) as [out' t']. apply IH. exact H'.
Qed.

Lemma step_forall : forall (P : elem -> Prop) root out t n,
  Forall P out -> P n -> Forall P (fst (norm_step root (out, t) n)).
Proof.
  intros P root out t n H Hn. unfold norm_step.
  destruct (is_empty n || is_dot n); [exact H|].
  destruct (is_dotdot n).
  - destruct out as [|x out']; [destruct root; cbn; [constructor|constructor; [assumption|constructor]]|].
    destruct (is_dotdot x); cbn [fst]; [constructor; assumption|inversion H; assumption].
  - cbn. constructor; assumption.
Qed.

Lemma fold_forall : forall (P : elem -> Prop) root es out t,
  Forall P out -> Forall P es -> Forall P (fst (fold_left (norm_step root) es (out, t))).
Proof.
  induction es as [|n es IH]; intros out t H He; [exact H|].
  inversion He; subst. cbn [fold_left]. pose proof (step_forall P root out t n H H2) as H'.
  destruct (norm_step root (out, t) n) as [out' t']. apply IH; assumption.
Qed.

Lemma all_dotdot_repeat : forall l, forallb is_dotdot l = true -> l = repeat DD (length l).
Proof.
  induction l as [|x l IH]; intro H; [reflexivity|]. cbn in H. apply andb_true_iff in H as [H1 H2].
  apply is_dotdot_eq in H1. subst. cbn. f_equal. apply IH. exact H2.
Qed.

Lemma rev_repeat : forall (A : Type) (x : A) k, rev (repeat x k) = repeat x k.
Proof.
  induction k; [reflexivity|]. cbn. rewrite IHk. clear. induction k; [reflexivity|]. cbn. f_equal. exact IHk.
Qed.

Lemma repeat_snoc : forall (A : Type) (x : A) k, repeat x k ++ [x] = repeat x (S k).
Proof. induction k; [reflexivity|]. cbn. f_equal. exact IHk. Qed.

(* forward shape of a good stack: dot-dots (none under a root), then proper names *)
Lemma stk_shape : forall root out, stk_ok root out = true ->
  exists k names, rev out = repeat DD k ++ names /\ forallb proper names = true /\
                  (root = true -> k = O) /\
                  (names = [] <-> match out with [] => True | x :: _ => is_dotdot x = true end).
Proof.
  induction out as [|x out IH]; intro H.
  - exists O, []. cbn. repeat split; auto.
  - cbn [stk_ok] in H. destruct (is_dotdot x) eqn:Ex.
    + apply andb_true_iff in H as [H1 H2]. apply is_dotdot_eq in Ex as Ex'. subst x.
      exists (S (length out)), []. rewrite app_nil_r. cbn [rev].
      rewrite (all_dotdot_repeat out H2) at 1. rewrite rev_repeat. rewrite repeat_snoc.
      repeat split; auto. intro R. rewrite R in H1. discriminate.
    + apply andb_true_iff in H as [H1 H2]. destruct (IH H2) as (k & names & E & Hp & Hr & _).
      exists k, (names ++ [x]). cbn [rev]. rewrite E, app_assoc. repeat split; auto.
      * rewrite forallb_app, Hp. cbn. rewrite H1. reflexivity.
      * intro A. destruct names; discriminate.
      * intro A. discriminate.
Qed.

(* ---- element-level normal form ---------------------------------------------------------- *)
Definition nf_elems (r : bool) (es : list elem) : bool :=
  (forallb (fun e => negb (is_dot e)) es || (negb r && elems_eqb es [[DOT]]))
  && no_name_dotdot es
  && negb (r && match es with x :: _ => is_dotdot x | [] => false end)
  && no_dotdot_sep_end es.

Lemma is_normal_form_unfold : forall s,
  is_normal_form s = nf_elems (has_root s) (elems s) && no_double_sep s.
Proof.
  intro s. unfold is_normal_form, nf_elems.
  destruct (forallb _ (elems s) || _), (no_double_sep s), (no_name_dotdot (elems s)),
    (negb (has_root s && _)), (no_dotdot_sep_end (elems s)); reflexivity.
Qed.

Lemma nnd_cons_dd : forall l, no_name_dotdot (DD :: l) = no_name_dotdot l.
Proof. intro l. destruct l; reflexivity. Qed.

Lemma nnd_no_dotdot : forall l, forallb (fun e => negb (is_dotdot e)) l = true -> no_name_dotdot l = true.
Proof.
  induction l as [|x l IH]; intro H; [reflexivity|].
  cbn in H. apply andb_true_iff in H as [H1 H2]. destruct l as [|y l']; [reflexivity|].
  change (no_name_dotdot (x :: y :: l')) with (negb (negb (is_dotdot x) && is_dotdot y) && no_name_dotdot (y :: l')).
  rewrite (IH H2). cbn in H2. apply andb_true_iff in H2 as [H3 _].
  apply negb_true_iff in H3. rewrite H3, andb_false_r. reflexivity.
Qed.

Lemma nnd_shape : forall k rest, forallb (fun e => negb (is_dotdot e)) rest = true ->
  no_name_dotdot (repeat DD k ++ rest) = true.
Proof.
  induction k; intros rest H; cbn [repeat app].
  - apply nnd_no_dotdot. exact H.
  - rewrite nnd_cons_dd. apply IHk. exact H.
Qed.

Lemma ndse_nonempty : forall l, forallb (fun e => negb (is_empty e)) l = true -> no_dotdot_sep_end l = true.
Proof.
  induction l as [|a l IH]; intro H; [reflexivity|].
  cbn in H. apply andb_true_iff in H as [Ha Hl].
  destruct l as [|b [|c l'']].
  - reflexivity.
  - cbn in Hl. rewrite andb_true_r in Hl. apply negb_true_iff in Hl. cbn. rewrite Hl, andb_false_r. reflexivity.
  - change (no_dotdot_sep_end (a :: b :: c :: l'')) with (no_dotdot_sep_end (b :: c :: l'')). apply IH. exact Hl.
Qed.

Lemma ndse_snoc2 : forall l x y, no_dotdot_sep_end (l ++ [x; y]) = negb (is_dotdot x && is_empty y).
Proof.
  induction l as [|a l IH]; intros x y; [reflexivity|].
  cbn [app]. destruct l as [|b l'].
  - reflexivity.
  - destruct l' as [|c l'']; [reflexivity|].
    change (no_dotdot_sep_end (a :: (b :: c :: l'') ++ [x; y])) with (no_dotdot_sep_end ((b :: c :: l'') ++ [x; y])).
    apply IH.
Qed.

Lemma forallb_repeat : forall (A : Type) (p : A -> bool) x k, p x = true -> forallb p (repeat x k) = true.
Proof. induction k; intro H; [reflexivity|]. cbn. rewrite H. apply IHk. exact H. Qed.

Lemma forallb_impl : forall (A : Type) (p q : A -> bool) l,
  (forall x, p x = true -> q x = true) -> forallb p l = true -> forallb q l = true.
Proof.
  induction l as [|a l IH]; intros I H; [reflexivity|]. cbn in *.
  apply andb_true_iff in H as [H1 H2]. rewrite (I a H1). apply IH; assumption.
Qed.

(* the result of the machine, as elements: one of four forms *)
Inductive normal_shape (root : bool) : list elem -> Prop :=
| NS_root : root = true -> normal_shape root []
| NS_dot : root = false -> normal_shape root [[DOT]]
| NS_dds : forall k, root = false -> normal_shape root (repeat DD (S k))
| NS_names : forall k names tl, (root = true -> k = O) -> names <> [] -> forallb proper names = true ->
    (tl = [] \/ tl = [[]]) -> normal_shape root (repeat DD k ++ names ++ tl).

Lemma normal_elems_shape : forall root es, normal_shape root (normal_elems root es).
Proof.
  intros root es. unfold normal_elems.
  pose proof (fold_ok root es [] false eq_refl) as Hok.
  destruct (fold_left (norm_step root) es ([], false)) as [out trail]. cbn [fst] in Hok.
  destruct (stk_shape root out Hok) as (k & names & E & Hp & Hr & Hn).
  unfold norm_finish. destruct out as [|x out'].
  - destruct root; [apply NS_root; reflexivity|apply NS_dot; reflexivity].
  - destruct (is_dotdot x) eqn:Ex.
    + destruct Hn as [_ Hn]. rewrite (Hn eq_refl) in E. rewrite app_nil_r in E. rewrite E.
      destruct k as [|k]; [cbn in E; destruct (rev out'); discriminate|].
      apply NS_dds. destruct root; [specialize (Hr eq_refl); discriminate|reflexivity].
    + assert (names <> []) by (intro A; destruct Hn as [Hn _]; specialize (Hn A); congruence).
      rewrite E. destruct trail.
      * rewrite <- app_assoc. apply NS_names; auto.
      * rewrite <- (app_nil_r names). apply NS_names; auto.
Qed.

Lemma proper_name_ok : forall e, proper e = true -> sepfree e -> name_ok e.
Proof. intros e H S. split; [|exact S]. intro A. subst. discriminate. Qed.

Lemma dd_name_ok : name_ok DD.
Proof. split; [discriminate|]. repeat constructor; discriminate. Qed.

Lemma normal_shape_nf : forall root l, normal_shape root l -> nf_elems root l = true.
Proof.
  intros root l H. unfold nf_elems. destruct H as [R|R|k R|k names tl Hr Hne Hp Ht].
  - subst. reflexivity.
  - subst. reflexivity.
  - subst root. cbn [negb andb]. rewrite andb_true_r.
    assert (forallb (fun e => negb (is_dot e)) (repeat DD (S k)) = true) as -> by (apply forallb_repeat; reflexivity).
    assert (no_name_dotdot (repeat DD (S k)) = true) as ->
      by (rewrite <- (app_nil_r (repeat DD (S k))); apply nnd_shape; reflexivity).
    rewrite ndse_nonempty by (apply forallb_repeat; reflexivity). reflexivity.
  - assert (Hnd : forallb (fun e => negb (is_dotdot e)) (names ++ tl) = true).
    { rewrite forallb_app. rewrite (forallb_impl _ proper _ names); [|intros x Hx; rewrite (proper_not_dotdot x Hx); reflexivity|exact Hp].
      destruct Ht as [-> | ->]; reflexivity. }
    assert (C1 : forallb (fun e => negb (is_dot e)) (repeat DD k ++ names ++ tl) = true).
    { rewrite !forallb_app. rewrite forallb_repeat by reflexivity.
      rewrite (forallb_impl _ proper _ names); [|intros x Hx; rewrite (proper_not_dot x Hx); reflexivity|exact Hp].
      destruct Ht as [-> | ->]; reflexivity. }
    rewrite C1. cbn [orb]. rewrite nnd_shape by exact Hnd. cbn [andb].
    assert (C4 : negb (root && match repeat DD k ++ names ++ tl with x :: _ => is_dotdot x | [] => false end) = true).
    { destruct root; [|reflexivity]. rewrite (Hr eq_refl). cbn [repeat app andb].
      destruct names as [|n names']; [congruence|]. cbn [app]. cbn in Hp. apply andb_true_iff in Hp as [Hn _].
      rewrite (proper_not_dotdot n Hn). reflexivity. }
    rewrite C4. cbn [andb].
    destruct Ht as [-> | ->].
    + rewrite app_nil_r. apply ndse_nonempty. rewrite forallb_app, forallb_repeat by reflexivity.
      apply (forallb_impl _ proper); [|exact Hp]. intros x Hx. rewrite (proper_not_empty x Hx). reflexivity.
    + destruct (exists_last Hne) as (n' & x & ->).
      rewrite <- app_assoc. cbn [app]. rewrite app_assoc. rewrite ndse_snoc2.
      rewrite forallb_app in Hp. apply andb_true_iff in Hp as [_ Hx]. cbn in Hx. rewrite andb_true_r in Hx.
      rewrite (proper_not_dotdot x Hx). reflexivity.
Qed.

Lemma normal_shape_wf : forall root l, Forall sepfree l -> normal_shape root l -> wf l.
Proof.
  intros root l Hs H. destruct H as [R|R|k R|k names tl Hr Hne Hp Ht].
  - exists [], []. repeat split; [constructor|left; reflexivity].
  - exists [[DOT]], []. repeat split; [|left; reflexivity].
    constructor; [|constructor]. split; [discriminate|repeat constructor; discriminate].
  - exists (repeat DD (S k)), []. rewrite app_nil_r. repeat split; [|left; reflexivity].
    apply Forall_forall. intros x Hx. apply repeat_spec in Hx. subst. apply dd_name_ok.
  - exists (repeat DD k ++ names), tl. rewrite <- app_assoc. repeat split.
    + apply Forall_app in Hs as [H1 H2]. apply Forall_app in H2 as [H2 _]. apply Forall_app. split.
      * apply Forall_forall. intros x Hx. apply repeat_spec in Hx. subst. apply dd_name_ok.
      * rewrite Forall_forall in *. intros x Hx. apply proper_name_ok; [|apply H2; assumption].
        rewrite forallb_forall in Hp. apply Hp. assumption.
    + destruct Ht as [-> | ->]; [left; reflexivity|right; split; [reflexivity|]].
      intro A. apply app_eq_nil in A as [_ A]. congruence.
Qed.

(* ---- no repeated separators in a rendered well-formed path ------------------------------ *)
Lemma nds_cons_sep : forall t, no_double_sep (SEP :: t) = negb (has_root t) && no_double_sep t.
Proof. destruct t; reflexivity. Qed.

Lemma nds_app_sepfree : forall e t, sepfree e -> no_double_sep (e ++ t) = no_double_sep t.
Proof.
  induction e as [|c e IH]; intros t H; [reflexivity|].
  inversion H; subst. cbn [app]. specialize (IH t H3).
  destruct (e ++ t) as [|d l] eqn:E.
  - apply app_eq_nil in E as [_ ->]. reflexivity.
  - change (no_double_sep (c :: d :: l)) with (negb ((c =? SEP) && (d =? SEP)) && no_double_sep (d :: l)).
    apply Z.eqb_neq in H2. rewrite H2. cbn. exact IH.
Qed.

Lemma nds_join : forall names tl, Forall name_ok names -> (tl = [] \/ tl = [[]]) ->
  no_double_sep (join_elems (names ++ tl)) = true /\ has_root (join_elems (names ++ tl)) = false.
Proof.
  induction names as [|n names IH]; intros tl Hn Ht.
  - destruct Ht as [-> | ->]; split; reflexivity.
  - inversion Hn; subst. destruct H1 as [Hne Hsf]. destruct (IH tl H2 Ht) as [I1 I2].
    cbn [app]. destruct (names ++ tl) as [|e rest] eqn:E.
    + cbn [join_elems]. split.
      * rewrite <- (app_nil_r n). rewrite nds_app_sepfree by assumption. reflexivity.
      * destruct n as [|c n]; [congruence|]. inversion Hsf; subst. apply Z.eqb_neq in H1. exact H1.
    + change (join_elems (n :: e :: rest)) with (n ++ SEP :: join_elems (e :: rest)). split.
      * rewrite nds_app_sepfree by assumption. rewrite nds_cons_sep, I1, I2. reflexivity.
      * destruct n as [|c n]; [congruence|]. inversion Hsf; subst. apply Z.eqb_neq in H1. exact H1.
Qed.

Lemma nds_render : forall r es, wf es -> no_double_sep (render r es) = true.
Proof.
  intros r es (names & tl & -> & Hn & Ht).
  assert (Ht' : tl = [] \/ tl = [[]]) by (destruct Ht as [A | [A _]]; auto).
  destruct (nds_join names tl Hn Ht') as [I1 I2].
  destruct r; cbn [render app]; [rewrite nds_cons_sep, I1, I2; reflexivity|exact I1].
Qed.

(* ---- theorem 1: the result of std_normal is in normal form ------------------------------ *)
Lemma normal_elems_sepfree : forall root es, Forall sepfree es -> Forall sepfree (normal_elems root es).
Proof.
  intros root es H. unfold normal_elems.
  pose proof (fold_forall sepfree root es [] false (Forall_nil _) H) as F.
  destruct (fold_left (norm_step root) es ([], false)) as [out trail]. cbn [fst] in F.
  unfold norm_finish. destruct out as [|x out'].
  - destruct root; [constructor|repeat constructor; discriminate].
  - assert (Forall sepfree (rev (x :: out'))) by (apply Forall_rev; exact F).
    destruct (is_dotdot x); [assumption|]. destruct trail; [|assumption].
    apply Forall_app. split; [assumption|repeat constructor].
Qed.

Lemma normal_elems_wf : forall s, wf (normal_elems (has_root s) (elems s)).
Proof.
  intro s. eapply normal_shape_wf; [|apply normal_elems_shape].
  apply normal_elems_sepfree. apply wf_sepfree. apply elems_wf.
Qed.

Lemma std_normal_nf : forall s, is_normal_form (std_normal s) = true.
Proof.
  intro s. unfold std_normal. destruct s as [|c s']; [reflexivity|].
  set (s := c :: s'). pose proof (normal_elems_wf s) as W.
  rewrite is_normal_form_unfold. rewrite has_root_render, elems_render by exact W.
  rewrite nds_render by exact W. rewrite andb_true_r.
  apply normal_shape_nf. apply normal_elems_shape.
Qed.

(* ---- theorem 3 (elements): a normal form is a fixed point of the machine --------------- *)
Lemma nnd_app_l : forall l m, no_name_dotdot (l ++ m) = true -> no_name_dotdot l = true.
Proof.
  induction l as [|x l IH]; intros m H; [reflexivity|].
  destruct l as [|y l']; [reflexivity|].
  change (no_name_dotdot ((x :: y :: l') ++ m)) with
    (negb (negb (is_dotdot x) && is_dotdot y) && no_name_dotdot ((y :: l') ++ m)) in H.
  change (no_name_dotdot (x :: y :: l')) with (negb (negb (is_dotdot x) && is_dotdot y) && no_name_dotdot (y :: l')).
  apply andb_true_iff in H as [H1 H2]. rewrite H1. cbn [andb]. apply (IH m). exact H2.
Qed.

Lemma nnd_last2 : forall l y x, no_name_dotdot (l ++ [y; x]) = true -> is_dotdot x = true -> is_dotdot y = true.
Proof.
  induction l as [|a l IH]; intros y x H Hx.
  - cbn in H. rewrite Hx in H. destruct (is_dotdot y); [reflexivity|discriminate].
  - apply (IH y x); [|exact Hx]. cbn [app] in H. destruct (l ++ [y; x]) as [|b l'] eqn:E.
    + destruct l; discriminate.
    + change (no_name_dotdot (a :: b :: l')) with (negb (negb (is_dotdot a) && is_dotdot b) && no_name_dotdot (b :: l')) in H.
      apply andb_true_iff in H as [_ H]. exact H.
Qed.

(* on a list of non-empty, non-dot elements without name/dot-dot pairs (and not starting with
   dot-dot under a root) the machine only pushes *)
Lemma fold_pushes : forall root names,
  forallb (fun e => negb (is_empty e) && negb (is_dot e)) names = true ->
  no_name_dotdot names = true ->
  negb (root && match names with x :: _ => is_dotdot x | [] => false end) = true ->
  names <> [] ->
  fold_left (norm_step root) names ([], false) = (rev names, false).
Proof.
  intros root names. induction names as [|x l IH] using rev_ind; intros Hf Hn Hr Hne; [congruence|].
  rewrite fold_left_app. rewrite forallb_app in Hf. apply andb_true_iff in Hf as [Hfl Hfx].
  cbn in Hfx. rewrite andb_true_r in Hfx. apply andb_true_iff in Hfx as [Hxe Hxd].
  apply negb_true_iff in Hxe. apply negb_true_iff in Hxd.
  rewrite rev_app_distr. cbn [rev app].
  destruct l as [|a l'] using rev_ind.
  - cbn [fold_left app]. unfold norm_step. rewrite Hxe, Hxd. cbn [orb].
    destruct (is_dotdot x) eqn:Ex; [|reflexivity].
    cbn [app] in Hr. rewrite Ex, andb_true_r in Hr. apply negb_true_iff in Hr. rewrite Hr. reflexivity.
  - clear IHl'. rewrite IH; [|exact Hfl|apply (nnd_app_l _ [x]); exact Hn| |destruct l'; discriminate].
    + cbn [fold_left]. unfold norm_step. rewrite Hxe, Hxd. cbn [orb].
      destruct (is_dotdot x) eqn:Ex; [|reflexivity].
      rewrite rev_app_distr. cbn [rev app].
      rewrite <- app_assoc in Hn. cbn [app] in Hn. rewrite (nnd_last2 l' a x Hn Ex). reflexivity.
    + destruct root; [|reflexivity]. cbn [andb] in *. destruct l' as [|b l'']; cbn [app] in *; exact Hr.
Qed.

Lemma nf_elems_fixed : forall root es, wf es -> nf_elems root es = true -> (es <> [] \/ root = true) ->
  normal_elems root es = es.
Proof.
  intros root es (names & tl & -> & Hn & Ht) H Hne. unfold nf_elems in H.
  apply andb_true_iff in H as [H C5]. apply andb_true_iff in H as [H C4]. apply andb_true_iff in H as [C1 C3].
  apply orb_true_iff in C1 as [C1 | C1].
  2:{ apply andb_true_iff in C1 as [R E]. apply elems_eqb_eq in E. rewrite E.
      apply negb_true_iff in R. subst root. reflexivity. }
  destruct names as [|n0 names0].
  { destruct Ht as [-> | [_ A]]; [|congruence]. cbn [app] in *. destruct Hne as [A | ->]; [congruence|reflexivity]. }
  set (names := n0 :: names0) in *.
  assert (Hf : forallb (fun e => negb (is_empty e) && negb (is_dot e)) names = true).
  { apply forallb_forall. intros x Hx. rewrite forallb_app in C1. apply andb_true_iff in C1 as [C1 _].
    rewrite forallb_forall in C1. rewrite (C1 x Hx). rewrite Forall_forall in Hn. destruct (Hn x Hx) as [Hxne _].
    destruct x; [congruence|reflexivity]. }
  assert (Hr : negb (root && match names with x :: _ => is_dotdot x | [] => false end) = true) by exact C4.
  pose proof (fold_pushes root names Hf (nnd_app_l _ _ C3) Hr) as F.
  specialize (F ltac:(discriminate)).
  unfold normal_elems. rewrite fold_left_app, F.
  destruct (exists_last (l := names) ltac:(discriminate)) as (l' & x & E).
  destruct Ht as [-> | [-> _]].
  - cbn [fold_left]. rewrite app_nil_r. unfold norm_finish. rewrite E, rev_app_distr. cbn [rev app].
    rewrite rev_involutive. destruct (is_dotdot x); reflexivity.
  - cbn [fold_left]. unfold norm_step at 1. cbn [is_empty orb]. unfold norm_finish.
    rewrite E, rev_app_distr. cbn [rev app].
    rewrite E in C5. rewrite <- app_assoc in C5. cbn [app] in C5. rewrite ndse_snoc2 in C5.
    cbn [is_empty] in C5. rewrite andb_true_r in C5. apply negb_true_iff in C5. rewrite C5.
    rewrite rev_involutive, <- app_assoc. reflexivity.
Qed.

(* ---- theorems 2 and 3 on strings ---------------------------------------------------------- *)
Lemma std_normal_fixed : forall s, is_normal_form s = true -> peq (std_normal s) s.
Proof.
  intros s H. destruct s as [|c s']; [split; reflexivity|].
  set (s := c :: s') in *. rewrite is_normal_form_unfold in H. apply andb_true_iff in H as [H _].
  pose proof (elems_wf s) as W.
  assert (N : elems s <> [] \/ has_root s = true).
  { destruct (has_root s) eqn:R; [right; reflexivity|left]. intro A.
    pose proof (elems_nil_no_root s A R). discriminate. }
  unfold std_normal. fold s. change (match s with [] => [] | _ :: _ => render (has_root s) (normal_elems (has_root s) (elems s)) end)
    with (render (has_root s) (normal_elems (has_root s) (elems s))).
  rewrite (nf_elems_fixed _ _ W H N). split; [apply has_root_render; exact W|apply elems_render; exact W].
Qed.

Lemma std_normal_idem : forall s, std_normal (std_normal s) = std_normal s.
Proof.
  intro s. destruct s as [|c s']; [reflexivity|].
  set (s := c :: s'). pose proof (normal_elems_wf s) as W.
  pose proof (normal_elems_shape (has_root s) (elems s)) as Sh.
  change (std_normal s) with (render (has_root s) (normal_elems (has_root s) (elems s))).
  set (r := has_root s) in *. set (es := normal_elems r (elems s)) in *.
  destruct (render r es) as [|d t'] eqn:E; [reflexivity|].
  rewrite <- E. unfold std_normal. rewrite E. rewrite <- E.
  rewrite has_root_render, elems_render by exact W.
  rewrite nf_elems_fixed; [reflexivity|exact W|apply normal_shape_nf; exact Sh|].
  destruct r; [right; reflexivity|left]. intro A. rewrite A in E. discriminate.
Qed.
