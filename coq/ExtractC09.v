Require Extraction.
Require Import ExtrOcamlBasic.
From Zix Require Import BumpModel BumpSpec.
Separate Extraction BumpModel.bump_init BumpModel.bump_malloc BumpModel.bump_calloc BumpModel.bump_realloc
  BumpModel.bump_free BumpModel.bump_aligned_free BumpModel.bump_aligned_alloc
  BumpSpec.bump_run BumpSpec.trace_of BumpSpec.spec_check BumpSpec.spec_first_reject BumpSpec.spec_init
  BumpSpec.req_ok BumpSpec.pattern.
