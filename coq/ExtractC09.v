Require Extraction.
Require Import ExtrOcamlBasic.
From Zix Require Import BumpModel BumpSpec BumpNdebug.
Separate Extraction BumpModel.bump_init BumpModel.bump_malloc BumpModel.bump_calloc BumpModel.bump_realloc
  BumpModel.bump_free BumpModel.bump_aligned_free BumpModel.bump_aligned_alloc
  BumpSpec.bump_run BumpSpec.trace_of BumpSpec.spec_check BumpSpec.spec_first_reject BumpSpec.spec_init
  BumpSpec.req_ok BumpSpec.pattern
  BumpModel.bump_aligned_alloc_nd BumpNdebug.bump_run_nd BumpNdebug.spec_check_nd BumpNdebug.spec_first_reject_nd
  BumpNdebug.req_ok_nd.
