(* Index of the "regenerated from the source on every run" proofs for leaf functions and constants
   (tools/translate_leaf.py -> gen/Leaf.v, gen/Constants.v).  One file per component, so that a change of one
   component's source breaks the proof step of that component's checks only:

     Properties_leaf_ring    ring.c               C05, C04
     Properties_leaf_digest  digest.c             C13
     Properties_leaf_bump    bump_allocator.c     C09
     Properties_leaf_hash    hash.c               C03
     Properties_leaf_btree   btree.c              C01, C02
     Properties_leaf_env     environment_posix.c  C16
     Properties_leaf_path    path.c               C10, C11, C12
     Properties_leaf_copy    filesystem_posix.c, filesystem.c   C14, C15
     Properties_leaf_sem     sem_posix.c          C17                                                  *)
From Zix Require Export Properties_leaf_ring Properties_leaf_digest Properties_leaf_bump Properties_leaf_hash
  Properties_leaf_btree Properties_leaf_env Properties_leaf_path Properties_leaf_copy Properties_leaf_sem.
