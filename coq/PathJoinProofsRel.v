(* C12 — lemmas, part 3: zix_path_lexically_relative against std_relative. *)
From Coq Require Import ZArith List Bool Lia ZifyBool Arith.
From Zix Require Import PathJoinSpec PathJoinModel PathJoinProofs PathJoinProofsIter.
Import ListNotations.
Local Open Scope Z_scope.

(* ---------------------------------------------------------------- element lists *)
Lemma elements_felems s :
  elements s = match drop_seps s with
               | [] => []
               | t' => name_of t' :: tail_elems (skipn (length (name_of t')) t')
               end.
Proof.
  unfold elements. destruct (drop_seps s) eqn:E; [reflexivity|]. rewrite split_aux_false. reflexivity.
Qed.

Lemma name_of_nonempty c t : is_sep c = false -> name_of (c :: t) <> [].
Proof. intros H. cbn [name_of]. rewrite H. congruence. Qed.

Lemma elements_head_nonempty s x r : elements s = x :: r -> x <> [].
Proof.
  rewrite elements_felems. pose proof (drop_seps_head s) as Hd.
  destruct (drop_seps s) as [|c t]; [discriminate|]. intros [= <- _].
  now apply name_of_nonempty.
Qed.

Lemma tail_elems_empty_last n : forall t X Y,
  (length t <= n)%nat -> tail_elems t = X ++ [] :: Y -> Y = [].
Proof.
  induction n; intros t X Y Hl H.
  - destruct t; [|simpl in Hl; lia]. destruct X; discriminate.
  - destruct t as [|c t0]; [destruct X; discriminate|].
    rewrite tail_elems_step in H by congruence.
    set (t' := drop_seps (c :: t0)) in *.
    assert (Hl' : (length t' <= S (length t0))%nat).
    { subst t'. rewrite drop_seps_skipn, skipn_length. cbn [length]. lia. }
    pose proof (drop_seps_head (c :: t0)) as Hd. fold t' in Hd.
    destruct t' as [|d t''].
    + cbn in H. destruct X as [|x X']; [injection H as <-; reflexivity|].
      injection H as _ H. destruct X'; discriminate.
    + destruct X as [|x X'].
      * injection H as H _. exfalso. revert H. now apply name_of_nonempty.
      * injection H as _ H. refine (IHn _ X' Y _ H).
        rewrite skipn_length. cbn [name_of]. rewrite Hd. cbn [length] in *. lia.
Qed.

Lemma elements_empty_last s X Y : elements s = X ++ [] :: Y -> Y = [].
Proof.
  rewrite elements_felems. pose proof (drop_seps_head s) as Hd.
  destruct (drop_seps s) as [|c t]; [destruct X; discriminate|].
  destruct X as [|x X'].
  - intros [= H _]. exfalso. revert H. now apply name_of_nonempty.
  - intros [= _ H]. eapply tail_elems_empty_last; [reflexivity|exact H].
Qed.

Lemma strip_common_app A B :
  exists M, A = M ++ fst (strip_common A B) /\ B = M ++ snd (strip_common A B).
Proof.
  revert B; induction A as [|a A IH]; intros B; [exists []; auto|].
  destruct B as [|b B]; [exists []; auto|]. cbn [strip_common].
  destruct (str_eqb a b) eqn:E; [|exists []; auto].
  apply str_eqb_eq in E. subst b. destruct (IH B) as [M [H1 H2]].
  exists (a :: M). cbn [app]. split; congruence.
Qed.

Lemma strip_common_snd_length A B : (length (snd (strip_common A B)) <= length B)%nat.
Proof.
  destruct (strip_common_app A B) as [M [_ H]]. rewrite H at 2. rewrite app_length. lia.
Qed.

(* root-only paths *)
Lemma rom_facts s :
  root_only_multi s = true ->
  has_root s = true /\ lead_seps s = length s /\ elements s = [] /\ ielems s = [[]].
Proof.
  intros H. pose proof (ielems_elements s) as Hi. rewrite H in Hi.
  unfold root_only_multi in H. apply andb_true_iff in H as [H H3]. apply andb_true_iff in H as [H1 H2].
  repeat split; auto.
  - rewrite drop_seps_skipn in H3. destruct (skipn (lead_seps s) s) eqn:E; [|discriminate].
    apply (f_equal (@length Z)) in E. rewrite skipn_length in E. simpl in E.
    pose proof (lead_seps_le s). lia.
  - unfold elements. destruct (drop_seps s); [reflexivity|discriminate].
Qed.

Lemma not_rom_ielems s : root_only_multi s = false -> ielems s = elements s.
Proof. intros H. rewrite ielems_elements, H. reflexivity. Qed.

Lemma elements_nonempty_lead s : elements s <> [] -> (lead_seps s < length s)%nat.
Proof.
  unfold elements. rewrite drop_seps_skipn. intros H.
  destruct (skipn (lead_seps s) s) eqn:E; [congruence|].
  now apply skipn_nonempty_lt in E.
Qed.

Lemma elements_last_empty_sep s :
  elements s <> [] -> (last (elements s) [] = [] <-> is_sep (last s 0) = true).
Proof.
  intros Hne. pose proof (has_filename_is_simple s) as H. unfold has_filename, has_filename_simple in H.
  assert (Hs : is_nil s = false) by (destruct s; [exfalso; apply Hne; reflexivity|reflexivity]).
  rewrite Hs in H. cbn [negb andb] in H.
  destruct (last (elements s) []); destruct (is_sep (last s 0)); cbn in H; split; congruence.
Qed.

(* ---------------------------------------------------------------- the result text *)
Fixpoint ups_then (n : nat) (rest : str) : str :=
  match n with O => rest | S k => dotdot_elem ++ sepc :: ups_then k rest end.

Definition rest_elems (rest : str) : list str :=
  match rest with [] => [[]] | _ => elements rest end.

Lemma elements_dd W :
  elements (dotdot_elem ++ sepc :: W)
  = dotdot_elem :: match drop_seps W with [] => [[]] | t' => split_aux t' [] false end.
Proof.
  unfold elements, dotdot_elem, dotc. simpl.
  rewrite split_aux_true. reflexivity.
Qed.

Lemma elements_unrooted s : s <> [] -> has_root s = false -> elements s = split_aux s [] false.
Proof.
  intros Hne R. unfold elements. destruct s as [|c t]; [congruence|]. cbn [has_root] in R.
  cbn [drop_seps]. rewrite R. reflexivity.
Qed.

Lemma has_root_ups_then k rest : has_root (ups_then (S k) rest) = false.
Proof. reflexivity. Qed.

Lemma elements_ups_then k rest :
  has_root rest = false ->
  elements (ups_then (S k) rest) = repeat dotdot_elem (S k) ++ rest_elems rest.
Proof.
  intros R. induction k as [|k IH].
  - cbn [ups_then repeat app]. rewrite elements_dd. f_equal.
    destruct rest as [|c t]; [reflexivity|]. cbn [has_root] in R. cbn [drop_seps]. rewrite R.
    cbn [rest_elems]. rewrite elements_unrooted; [reflexivity|congruence|exact R].
  - change (ups_then (S (S k)) rest) with (dotdot_elem ++ sepc :: ups_then (S k) rest).
    rewrite elements_dd. change (repeat dotdot_elem (S (S k))) with (dotdot_elem :: repeat dotdot_elem (S k)).
    cbn [app]. f_equal. rewrite <- IH.
    change (drop_seps (ups_then (S k) rest)) with (ups_then (S k) rest).
    rewrite (elements_unrooted (ups_then (S k) rest)); [reflexivity|discriminate|reflexivity].
Qed.

Lemma nonul_ups_then n rest : nonul rest -> nonul (ups_then n rest).
Proof.
  intros N. induction n; [exact N|]. cbn [ups_then].
  apply nonul_app; [apply nonul_dotdot|]. constructor; [unfold sepc; lia|exact IHn].
Qed.

Lemma ups_then_length n rest : length (ups_then n rest) = (3 * n + length rest)%nat.
Proof. induction n; cbn [ups_then]; [lia|]. rewrite app_length. cbn [length dotdot_elem]. lia. Qed.

(* the separator-joined ".." blocks as the code writes them *)
Definition more_ups (k : nat) : str := concat (repeat (sepc :: dotdot_elem) k).

Lemma more_ups_then k rest :
  dotdot_elem ++ more_ups k ++ sepc :: rest = ups_then (S k) rest.
Proof.
  induction k as [|k IH]; [reflexivity|].
  change (more_ups (S k)) with ((sepc :: dotdot_elem) ++ more_ups k).
  change (ups_then (S (S k)) rest) with (dotdot_elem ++ sepc :: ups_then (S k) rest).
  rewrite <- IH. cbn [app]. rewrite <- !app_assoc. reflexivity.
Qed.

Lemma more_ups_plain k : dotdot_elem ++ more_ups k = ups_then k dotdot_elem.
Proof.
  induction k as [|k IH]; [apply app_nil_r|].
  change (more_ups (S k)) with ((sepc :: dotdot_elem) ++ more_ups k).
  cbn [ups_then]. rewrite <- IH. reflexivity.
Qed.

Lemma more_ups_length k : length (more_ups k) = (3 * k)%nat.
Proof. induction k; [reflexivity|]. change (more_ups (S k)) with ((sepc :: dotdot_elem) ++ more_ups k).
  rewrite app_length, IHk. cbn [length dotdot_elem]. lia. Qed.

(* ---------------------------------------------------------------- writing *)
Lemma path_append_ok b X bytes :
  filled b X -> Z.of_nat (length X + 1 + length bytes) <= b_size b ->
  exists b', path_append b (Z.of_nat (length X)) bytes
             = Ok (b', Z.of_nat (length ((if is_nil X then [] else X ++ [sepc]) ++ bytes)))
             /\ filled b' ((if is_nil X then [] else X ++ [sepc]) ++ bytes)
             /\ b_size b' = b_size b /\ b_kind b' = b_kind b.
Proof.
  intros F HS. unfold path_append.
  destruct (is_nil X) eqn:En.
  - assert (X = []) by (destruct X; [reflexivity|discriminate]). subst X.
    cbn [length app]. change (Z.of_nat 0 =? 0) with true. cbn [negb bind].
    step_wr b F b1 H1 F1 S1 K1; [reflexivity|cbn [length] in *; lia|].
    cbn [app] in F1. exists b1. repeat split; auto.
  - assert (Hl : (1 <= length X)%nat) by (destruct X; [discriminate|simpl; lia]).
    destruct (Z.of_nat (length X) =? 0) eqn:E; [lia|]. cbn [negb bind].
    step_wr b F b1 H1 F1 S1 K1; [reflexivity|cbn [length]; lia|].
    step_wr b1 F1 b2 H2 F2 S2 K2; [rewrite app_length; cbn [length]; lia|rewrite S1, app_length; cbn [length]; lia|].
    exists b2. repeat split; auto; try congruence.
    rewrite !app_length. cbn [length]. do 2 f_equal. lia.
Qed.

Lemma ups_loop_more k : forall b X,
  filled b X -> X <> [] -> Z.of_nat (length X + 3 * k) <= b_size b ->
  exists b', ups_loop k b (Z.of_nat (length X)) = Ok (b', Z.of_nat (length (X ++ more_ups k)))
             /\ filled b' (X ++ more_ups k) /\ b_size b' = b_size b /\ b_kind b' = b_kind b.
Proof.
  induction k as [|k IH]; intros b X F Hne HS.
  - cbn [ups_loop]. exists b. change (more_ups 0) with (@nil Z). rewrite app_nil_r. auto.
  - cbn [ups_loop].
    destruct (path_append_ok b X dotdot_elem F) as [b1 [H1 [F1 [S1 K1]]]]; [cbn [length dotdot_elem]; lia|].
    rewrite H1. cbn [bind fst snd].
    assert (En : is_nil X = false) by (destruct X; [congruence|reflexivity]). rewrite En in *.
    destruct (IH b1 ((X ++ [sepc]) ++ dotdot_elem) F1) as [b2 [H2 [F2 [S2 K2]]]].
    { destruct X; discriminate. }
    { rewrite S1, !app_length. cbn [length dotdot_elem]. lia. }
    rewrite H2.
    change (more_ups (S k)) with ((sepc :: dotdot_elem) ++ more_ups k).
    assert (Ea : ((X ++ [sepc]) ++ dotdot_elem) ++ more_ups k = X ++ (sepc :: dotdot_elem) ++ more_ups k).
    { rewrite <- !app_assoc. reflexivity. }
    rewrite Ea in *. exists b2. repeat split; auto; congruence.
Qed.

Lemma ups_loop_ok n b :
  filled b [] -> Z.of_nat (3 * n) <= b_size b ->
  exists b' T, ups_loop n b 0 = Ok (b', Z.of_nat (length T)) /\ filled b' T
               /\ b_size b' = b_size b /\ b_kind b' = b_kind b
               /\ T = match n with O => [] | S k => dotdot_elem ++ more_ups k end.
Proof.
  intros F HS. destruct n as [|k].
  - exists b, []. cbn [ups_loop]. auto.
  - cbn [ups_loop].
    destruct (path_append_ok b [] dotdot_elem F) as [b1 [H1 [F1 [S1 K1]]]]; [cbn [length dotdot_elem]; lia|].
    rewrite (H1 : path_append b 0 dotdot_elem = _). cbn [bind fst snd is_nil app] in *.
    destruct (ups_loop_more k b1 dotdot_elem F1) as [b2 [H2 [F2 [S2 K2]]]]; [discriminate|rewrite S1; cbn [length dotdot_elem]; lia|].
    rewrite H2. exists b2, (dotdot_elem ++ more_ups k). repeat split; auto; congruence.
Qed.

(* ---------------------------------------------------------------- facts about the scan result *)
Lemma felems_match (t : str) :
  t <> [] ->
  match t with [] => [] | t' => name_of t' :: tail_elems (skipn (length (name_of t')) t') end
  = name_of t :: tail_elems (skipn (length (name_of t)) t).
Proof. destruct t; [congruence|reflexivity]. Qed.

Lemma den_facts p a A :
  den p a A ->
  istate_eqb (it_state a) PEND = is_nil A
  /\ istate_eqb (it_state a) ROOT_DIRECTORY = false
  /\ is_empty_range (it_range a) = match A with [] => true | x :: _ => is_nil x end
  /\ exists ab : nat,
       fst (it_range a) = Z.of_nat ab /\ (ab <= length p)%nat
       /\ (match A with x :: _ => x <> [] | [] => False end ->
           (ab < length p)%nat /\ has_root (skipn ab p) = false /\ elements (skipn ab p) = A)
       /\ (match A with x :: _ => x = [] | [] => True end -> ab = length p).
Proof.
  intros D. destruct (den_cases _ _ _ D) as [[S0 EA]|[S0 [b [e [x [A' [R [F [EA [Hx Hbe]]]]]]]]]].
  - unfold den in D. rewrite S0 in D. destruct D as [_ R]. rewrite S0, R, EA.
    unfold is_empty_range; cbn [fst snd is_nil istate_eqb]. rewrite Z.eqb_refl.
    repeat split; auto. exists (length p). unfold slen. repeat split; auto; try lia; try contradiction.
  - rewrite S0, R, EA. unfold is_empty_range; cbn [fst snd is_nil istate_eqb].
    pose proof (file_den_props _ _ _ _ F) as [_ [Ht [Hemp Hsp]]].
    destruct F as [F1 [F2 [F3 F4]]]. rewrite EA in F4. injection F4 as Fx FA.
    assert (Lx : length x = (e - b)%nat) by (rewrite Hx, firstn_length, skipn_length; lia).
    split; [reflexivity|]. split; [reflexivity|]. split.
    + destruct x; cbn [is_nil]; simpl in Lx; lia.
    + exists b. split; [reflexivity|]. split; [lia|]. split.
      * intros Hne. split; [|split].
        -- destruct x; [congruence|]. simpl in Lx. lia.
        -- destruct (skipn b p) as [|c t]; [reflexivity|]. cbn [has_root]. exact F3.
        -- rewrite elements_felems.
           assert (Hd : drop_seps (skipn b p) = skipn b p).
           { destruct (skipn b p) as [|c t]; [reflexivity|]. cbn [drop_seps]. now rewrite F3. }
           rewrite Hd. destruct (skipn b p) as [|c t] eqn:Es; [cbn [name_of] in Fx; congruence|].
           cbv zeta. rewrite <- Es in *. rewrite skipn_skipn, <- F2. congruence.
      * intros ->. simpl in Lx. apply Hemp. lia.
Qed.

Lemma string_ranges_equal_names p base : string_ranges_equal p (0, 0) base (0, 0) = Ok true.
Proof. reflexivity. Qed.

Lemma first_bytes_equal p base :
  has_root p = true -> has_root base = true -> str_eqb (firstn 1 p) (firstn 1 base) = true.
Proof.
  destruct p as [|c t]; [discriminate|]. destruct base as [|d u]; [discriminate|].
  cbn [has_root firstn str_eqb]. intros H1 H2. apply is_sep_true in H1, H2. subst. reflexivity.
Qed.

Lemma mismatch_loop_S k p base a b :
  mismatch_loop (S k) p base a b =
  if negb (istate_eqb (it_state a) PEND) && negb (istate_eqb (it_state b) PEND)
     && istate_eqb (it_state a) (it_state b) then
    do eq <- string_ranges_equal p (it_range a) base (it_range b);
    if eq then
      do a' <- path_next p a;
      do b' <- path_next base b;
      mismatch_loop k p base a' b'
    else Ok (a, b)
  else Ok (a, b).
Proof. reflexivity. Qed.

(* begin + mismatch scan *)
Lemma scan_ok p base :
  nonul p -> nonul base -> has_root p = has_root base ->
  exists a b,
    (do a0 <- path_begin p; do b0 <- path_begin base;
     mismatch_loop (S (S (length p))) p base a0 b0) = Ok (a, b)
    /\ den p a (fst (strip_common (ielems p) (ielems base)))
    /\ den base b (snd (strip_common (ielems p) (ielems base))).
Proof.
  intros Np Nb R. destruct (has_root p) eqn:Rp; symmetry in R.
  - rewrite (path_begin_rooted p Rp), (path_begin_rooted base R). cbn [bind].
    rewrite mismatch_loop_S. cbn [it_state istate_eqb negb andb it_range].
    assert (Hp : (1 <= length p)%nat) by (destruct p; [discriminate|simpl; lia]).
    assert (Hb : (1 <= length base)%nat) by (destruct base; [discriminate|simpl; lia]).
    rewrite (string_ranges_equal_nat p 0 1 base 0 1 Np Nb ltac:(lia) ltac:(lia)
             : string_ranges_equal p (0, 1) base (0, 1) = _).
    cbn [bind skipn Nat.sub]. rewrite first_bytes_equal by assumption.
    destruct (next_after_root p Np Rp) as [a1 [Ha Da]].
    destruct (next_after_root base Nb R) as [b1 [Hb1 Db]].
    rewrite Ha, Hb1. cbn [bind].
    apply mismatch_loop_ok; auto.
    unfold ielems. rewrite Rp. pose proof (tail_elems_length (tl p)). destruct p; simpl in *; lia.
  - destruct (path_begin_unrooted p Np Rp) as [a0 [Ha Da]].
    destruct (path_begin_unrooted base Nb R) as [b0 [Hb Db]].
    rewrite Ha, Hb. cbn [bind].
    apply mismatch_loop_ok; auto.
    unfold ielems. rewrite Rp. pose proof (tail_elems_length p). lia.
Qed.

(* ---------------------------------------------------------------- iterator lists vs spec lists *)
Definition emptyish (l : list str) : bool := match l with [] => true | x :: _ => is_nil x end.

(* the code's "copy the trailing separator" condition *)
Definition trail_cond (p : str) : bool :=
  (Z.of_nat (length p) >? Z.of_nat (lead_seps p)) && is_sep (last p 0).

Lemma str_eqb_nil_l y : y <> [] -> str_eqb [] y = false.
Proof. destruct y; [congruence|reflexivity]. Qed.
Lemma str_eqb_nil_r x : x <> [] -> str_eqb x [] = false.
Proof. destruct x; [congruence|reflexivity]. Qed.

Lemma count_n_pos_nonnil B : count_n B > 0 -> B <> [].
Proof. destruct B; [cbn; lia|congruence]. Qed.

Lemma last_app_single {A} (M : list A) x d : last (M ++ [x]) d = x.
Proof. apply last_last. Qed.

Lemma spec_link p base :
  let A' := fst (strip_common (ielems p) (ielems base)) in
  let B' := snd (strip_common (ielems p) (ielems base)) in
  let ra := fst (strip_common (elements p) (elements base)) in
  let rb := snd (strip_common (elements p) (elements base)) in
  has_root p = has_root base ->
  count_n rb = count_n B'
  /\ emptyish ra = emptyish A'
  /\ (emptyish A' = false -> ra = A')
  /\ (emptyish A' = true -> count_n B' > 0 -> ra = if trail_cond p then [[]] else []).
Proof.
  intros A' B' ra rb R. subst A' B' ra rb.
  destruct (root_only_multi p) eqn:Qp; destruct (root_only_multi base) eqn:Qb.
  - (* both root-only *)
    destruct (rom_facts p Qp) as [_ [_ [Ep Ip]]]. destruct (rom_facts base Qb) as [_ [_ [Eb Ib]]].
    rewrite Ep, Eb, Ip, Ib. cbn. repeat split; auto. intros _ H. lia.
  - (* path root-only *)
    destruct (rom_facts p Qp) as [_ [Lp [Ep Ip]]]. rewrite (not_rom_ielems base Qb), Ep, Ip.
    assert (H : strip_common [[]] (elements base) = ([[]], elements base)).
    { destruct (elements base) as [|y r] eqn:E; [reflexivity|]. cbn [strip_common].
      rewrite str_eqb_nil_l; [reflexivity|]. exact (elements_head_nonempty _ _ _ E). }
    rewrite H. cbn [strip_common fst snd emptyish is_nil]. repeat split; auto; [discriminate|].
    intros _ _. unfold trail_cond. rewrite Lp.
    destruct (Z.of_nat (length p) >? Z.of_nat (length p)) eqn:E; [lia|reflexivity].
  - (* base root-only *)
    destruct (rom_facts base Qb) as [_ [_ [Eb Ib]]]. rewrite (not_rom_ielems p Qp), Eb, Ib.
    assert (H1 : strip_common (elements p) [] = (elements p, [])) by (destruct (elements p); reflexivity).
    assert (H2 : strip_common (elements p) [[]] = (elements p, [[]])).
    { destruct (elements p) as [|x r] eqn:E; [reflexivity|]. cbn [strip_common].
      rewrite str_eqb_nil_r; [reflexivity|]. exact (elements_head_nonempty _ _ _ E). }
    rewrite H1, H2. cbn [fst snd]. repeat split; auto. intros _ H. cbn in H. lia.
  - (* neither *)
    rewrite (not_rom_ielems p Qp), (not_rom_ielems base Qb).
    destruct (strip_common_app (elements p) (elements base)) as [M [HA HB]].
    set (A' := fst (strip_common (elements p) (elements base))) in *.
    set (B' := snd (strip_common (elements p) (elements base))) in *.
    repeat split; auto. intros He Hn.
    pose proof (count_n_pos_nonnil _ Hn) as HBne.
    destruct A' as [|x r] eqn:EA.
    + (* all of path matched: it cannot end in a separator unless it is a root *)
      rewrite app_nil_r in HA. unfold trail_cond.
      destruct (Z.of_nat (length p) >? Z.of_nat (lead_seps p)) eqn:E1; [|reflexivity].
      destruct (is_sep (last p 0)) eqn:E2; [|reflexivity]. exfalso.
      assert (Hne : elements p <> []).
      { rewrite elements_felems, drop_seps_skipn.
        destruct (skipn (lead_seps p) p) eqn:E; [|discriminate].
        apply (f_equal (@length Z)) in E. rewrite skipn_length in E. simpl in E. lia. }
      apply (elements_last_empty_sep p Hne) in E2.
      destruct (exists_last Hne) as [M' [l HM]]. rewrite HM in E2. rewrite last_app_single in E2. subst l.
      rewrite HA in HM. rewrite HM in HB. rewrite <- app_assoc in HB. cbn [app] in HB.
      apply elements_empty_last in HB. contradiction.
    + cbn [emptyish] in He. destruct x; [|discriminate].
      pose proof (elements_empty_last p M r HA) as Hr. subst r.
      assert (Hne : elements p <> []) by (rewrite HA; destruct M; discriminate).
      unfold trail_cond.
      pose proof (elements_nonempty_lead p Hne) as Hl.
      destruct (Z.of_nat (length p) >? Z.of_nat (lead_seps p)) eqn:E1; [|lia].
      assert (E2 : is_sep (last p 0) = true).
      { apply (elements_last_empty_sep p Hne). rewrite HA. apply last_app_single. }
      rewrite E2. reflexivity.
Qed.

(* ---------------------------------------------------------------- the assembly stage *)
Lemma assemble_suffix p de ab n :
  (ab < length p)%nat ->
  exists buf, rel_assemble p de (Z.of_nat ab) (Z.of_nat n) = Ok (Some buf)
     /\ b_cells buf = ups_then n (skipn ab p) ++ [0]
     /\ b_size buf = Z.of_nat (length (ups_then n (skipn ab p)) + 1).
Proof.
  intros Hab. unfold rel_assemble, slen. rewrite Nat2Z.id.
  set (sfx := skipn ab p).
  assert (Ls : length sfx = (length p - ab)%nat) by (subst sfx; apply skipn_length).
  replace (Z.of_nat n * 3 + Z.of_nat (length p) - Z.of_nat ab + 1)
    with (Z.of_nat (3 * n + length sfx + 1)) by lia.
  destruct (ups_loop_ok n (calloc_buf (Z.of_nat (3 * n + length sfx + 1))) (filled_calloc _))
    as [b1 [T [H1 [F1 [S1 [K1 ET]]]]]]; [cbn; lia|].
  rewrite H1. cbn [bind]. cbv beta iota.
  destruct (Z.of_nat ab <? Z.of_nat (length p)) eqn:E; [|lia].
  replace (Z.of_nat (length p) - Z.of_nat ab) with (Z.of_nat (length p - ab)) by lia.
  rewrite rd_range_nat by lia. cbn [bind]. fold sfx. rewrite firstn_all2 by lia.
  assert (LT : length T = match n with O => 0 | S k => 3 * k + 2 end%nat).
  { rewrite ET. destruct n; [reflexivity|]. rewrite app_length, more_ups_length. cbn [length dotdot_elem]. lia. }
  destruct (path_append_ok b1 T sfx F1) as [b2 [H2 [F2 [S2 K2]]]].
  { rewrite S1. cbn [calloc_buf b_size]. destruct n; lia. }
  rewrite H2. cbn [bind]. cbv beta iota.
  assert (Etxt : (if is_nil T then [] else T ++ [sepc]) ++ sfx = ups_then n sfx).
  { rewrite ET. destruct n as [|k]; [reflexivity|]. cbn [is_nil dotdot_elem app].
    rewrite <- more_ups_then. cbn [dotdot_elem app]. rewrite <- !app_assoc. reflexivity. }
  rewrite Etxt in *.
  step_wr b2 F2 b3 H3 F3 S3 K3; [reflexivity| |].
  { rewrite S2, S1. cbn [calloc_buf b_size length]. rewrite ups_then_length. lia. }
  exists b3. split; [reflexivity|]. split.
  - apply filled_full; [exact F3|]. rewrite S3, S2, S1. cbn [calloc_buf b_size].
    rewrite app_length, ups_then_length. cbn [length]. lia.
  - rewrite S3, S2, S1. cbn [calloc_buf b_size]. rewrite ups_then_length. lia.
Qed.

Lemma assemble_empty p de k :
  exists buf, rel_assemble p (Z.of_nat de) (Z.of_nat (length p)) (Z.of_nat (S k)) = Ok (Some buf)
     /\ b_size buf = Z.of_nat (3 * S k + 1)
     /\ b_cells buf = if (Z.of_nat (length p) >? Z.of_nat de) && is_sep (last p 0)
                      then ups_then (S k) [] ++ [0]
                      else (ups_then k dotdot_elem ++ [0]) ++ [0].
Proof.
  unfold rel_assemble, slen. rewrite Nat2Z.id.
  replace (Z.of_nat (S k) * 3 + Z.of_nat (length p) - Z.of_nat (length p) + 1)
    with (Z.of_nat (3 * S k + 1)) by lia.
  destruct (ups_loop_ok (S k) (calloc_buf (Z.of_nat (3 * S k + 1))) (filled_calloc _))
    as [b1 [T [H1 [F1 [S1 [K1 ET]]]]]]; [cbn [calloc_buf b_size]; lia|].
  rewrite H1. cbn [bind]. cbv beta iota.
  destruct (Z.of_nat (length p) <? Z.of_nat (length p)) eqn:E; [lia|].
  destruct (Z.of_nat (S k) =? 0) eqn:E0; [lia|]. cbn [negb andb].
  assert (LT : length T = (3 * k + 2)%nat) by (rewrite ET, app_length, more_ups_length; cbn [length dotdot_elem]; lia).
  assert (Hplain : exists buf, wr b1 (Z.of_nat (length T)) [0] = Ok buf
             /\ b_size buf = Z.of_nat (3 * S k + 1)
             /\ b_cells buf = (ups_then k dotdot_elem ++ [0]) ++ [0]).
  { step_wr b1 F1 b2 H2 F2 S2 K2; [reflexivity|rewrite S1; cbn [calloc_buf b_size length]; lia|].
    exists b2. split; [reflexivity|]. split; [rewrite S2, S1; reflexivity|].
    rewrite ET, more_ups_plain in F2.
    apply (filled_calloc_rest b2 _ 1 F2); [rewrite K2, K1; reflexivity|].
    rewrite S2, S1. cbn [calloc_buf b_size]. rewrite app_length, ups_then_length. cbn [length dotdot_elem]. lia. }
  destruct (Z.of_nat (length p) >? Z.of_nat de) eqn:E1; cbn [andb].
  - replace (Z.of_nat (length p) - 1) with (Z.of_nat (length p - 1)) by lia.
    rewrite rd_nat by lia. cbn [bind].
    assert (Hne : p <> []) by (destruct p; [simpl in E1; lia|congruence]).
    rewrite <- last_hd_skipn by assumption.
    destruct (is_sep (last p 0)) eqn:E2.
    + cbn [bind]. apply is_sep_true in E2. rewrite E2.
      step_wr b1 F1 b2 H2 F2 S2 K2; [reflexivity|rewrite S1; cbn [calloc_buf b_size length]; lia|].
      cbv beta iota.
      assert (Etxt : T ++ [sepc] = ups_then (S k) []).
      { rewrite ET, <- more_ups_then, <- app_assoc. reflexivity. }
      rewrite Etxt in *.
      replace (Z.of_nat (length T) + 1) with (Z.of_nat (length (ups_then (S k) []))) by (rewrite ups_then_length; cbn [length]; lia).
      step_wr b2 F2 b3 H3 F3 S3 K3; [reflexivity| |].
      { rewrite S2, S1. cbn [calloc_buf b_size length]. rewrite ups_then_length. cbn [length]. lia. }
      exists b3. split; [reflexivity|]. split; [rewrite S3, S2, S1; reflexivity|].
      apply filled_full; [exact F3|]. rewrite S3, S2, S1. cbn [calloc_buf b_size].
      rewrite app_length, ups_then_length. cbn [length]. lia.
    + cbn [bind]. cbv beta iota. destruct Hplain as [buf [H2 [HS HC]]]. rewrite H2. cbn [bind]. eauto.
  - cbn [bind]. cbv beta iota. destruct Hplain as [buf [H2 [HS HC]]]. rewrite H2. cbn [bind]. eauto.
Qed.

(* ---------------------------------------------------------------- the main theorem *)
Definition rel_result_ok (p base : str) (r : option buf) : Prop :=
  match r with
  | None => std_relative p base = None
  | Some buf =>
      exists t j es,
        b_cells buf = (t ++ [0]) ++ repeat 0 j
        /\ b_size buf = Z.of_nat (length t + 1 + j)
        /\ nonul t
        /\ std_relative p base = Some es
        /\ path_of t = (false, es)
  end.

Lemma std_relative_unfold p base :
  has_root p = has_root base ->
  std_relative p base =
    let ra := fst (strip_common (elements p) (elements base)) in
    let rb := snd (strip_common (elements p) (elements base)) in
    let n := count_n rb in
    if n <? 0 then None
    else if (n =? 0) && emptyish ra then Some [dot_elem]
    else Some (repeat dotdot_elem (Z.to_nat n) ++ ra).
Proof.
  intros R. unfold std_relative. rewrite R, eqb_reflx. cbn [negb].
  destruct (strip_common (elements p) (elements base)) as [ra rb]. reflexivity.
Qed.

Lemma ielems_length s : (length (ielems s) <= length s)%nat.
Proof.
  unfold ielems. destruct (has_root s).
  - pose proof (tail_elems_length (tl s)). destruct s; simpl in *; lia.
  - apply tail_elems_length.
Qed.

Lemma scan_snd_bound p base :
  (length (snd (strip_common (ielems p) (ielems base))) < S (S (length base)))%nat.
Proof.
  pose proof (strip_common_snd_length (ielems p) (ielems base)).
  pose proof (ielems_length base). lia.
Qed.

Lemma repeat_snoc {A} (x : A) n : repeat x n ++ [x] = repeat x (S n).
Proof. induction n; [reflexivity|]. cbn [repeat app]. now rewrite IHn. Qed.

Lemma path_of_ups_plain k : path_of (ups_then k dotdot_elem) = (false, repeat dotdot_elem (S k)).
Proof.
  unfold path_of. destruct k as [|k]; [reflexivity|].
  rewrite has_root_ups_then, elements_ups_then by reflexivity.
  change (rest_elems dotdot_elem) with [dotdot_elem]. now rewrite repeat_snoc.
Qed.

Lemma path_of_ups_trail k : path_of (ups_then (S k) []) = (false, repeat dotdot_elem (S k) ++ [[]]).
Proof. unfold path_of. rewrite has_root_ups_then, elements_ups_then by reflexivity. reflexivity. Qed.

Lemma path_of_ups_suffix n sfx A :
  sfx <> [] -> has_root sfx = false -> elements sfx = A ->
  path_of (ups_then n sfx) = (false, repeat dotdot_elem n ++ A).
Proof.
  intros Hne R E. unfold path_of. destruct n as [|k].
  - cbn [ups_then repeat app]. now rewrite R, E.
  - rewrite has_root_ups_then, elements_ups_then by assumption.
    destruct sfx; [congruence|]. cbn [rest_elems]. now rewrite E.
Qed.

Lemma dot_result p base :
  std_relative p base = Some [dot_elem] ->
  exists r, (do r <- string_view_copy dot_elem; Ok (Some r)) = Ok r /\ rel_result_ok p base r.
Proof.
  intros H. rewrite string_view_copy_ok. cbn [bind]. eexists. split; [reflexivity|].
  cbn [rel_result_ok b_cells b_size]. exists dot_elem, 0%nat, [dot_elem].
  repeat split; auto. apply nonul_dot.
Qed.

Theorem relative_ok p base :
  nonul p -> nonul base ->
  exists r, zix_path_lexically_relative p base = Ok r /\ rel_result_ok p base r.
Proof.
  intros Np Nb. unfold zix_path_lexically_relative.
  destruct (root_slices_some p) as [dp [HP1 [HP2 HP3]]]. rewrite HP1. cbn [bind].
  destruct (root_slices_some base) as [db [HB1 [HB2 HB3]]]. rewrite HB1. cbn [bind fst snd].
  rewrite string_ranges_equal_names. cbn [bind negb].
  rewrite !is_absolute_some. cbn [bind]. rewrite HP3, HB3, !negb_involutive.
  destruct (Bool.eqb (has_root p) (has_root base)) eqn:ER; cbn [negb bind].
  2:{ exists None. split; [reflexivity|]. cbn [rel_result_ok]. unfold std_relative. rewrite ER. reflexivity. }
  apply eqb_prop in ER.
  assert (Hd : negb (has_root p) && has_root base = false) by (rewrite ER; destruct (has_root base); reflexivity).
  rewrite Hd.
  (* begin + mismatch scan *)
  destruct (scan_ok p base Np Nb ER) as [a [b [HS [Da Db]]]].
  destruct (path_begin p) as [a0| | |] eqn:E1; cbn [bind] in HS; try discriminate.
  destruct (path_begin base) as [b0| | |] eqn:E2; cbn [bind] in HS; try discriminate.
  cbn [bind]. rewrite HS. cbn [bind]. cbv beta iota.
  set (A' := fst (strip_common (ielems p) (ielems base))) in *.
  set (B' := snd (strip_common (ielems p) (ielems base))) in *.
  destruct (den_facts p a A' Da) as [Ea1 [Ea2 [Ea3 [ab [Ea4 [Ea5 [Ea6 Ea7]]]]]]].
  destruct (den_facts base b B' Db) as [Eb1 _].
  rewrite Ea1, Eb1, Ea2, Ea3, Ea4. fold (emptyish A').
  pose proof (spec_link p base ER) as L. cbv zeta in L. fold A' B' in L.
  destruct L as [L1 [L2 [L3 L4]]].
  pose proof (std_relative_unfold p base ER) as SU. cbv zeta in SU.
  set (ra := fst (strip_common (elements p) (elements base))) in *.
  set (rb := snd (strip_common (elements p) (elements base))) in *.
  rewrite L1, L2 in SU. rewrite count_n_split in SU, L4.
  pose proof (scan_snd_bound p base) as HBnd. fold B' in HBnd.
  pose proof (count_loop_ok (S (S (length base))) base b B' 0 0 Nb Db HBnd) as HCL.
  pose proof (count_dd_nonneg B') as Hdd. pose proof (count_names_nonneg B') as Hnm.
  set (dd := count_dd B') in *. set (nm := count_names B') in *.
  assert (Hor : is_nil A' || emptyish A' = emptyish A') by (destruct A'; reflexivity).
  assert (Hc1 : (is_nil A' && is_nil B') || (emptyish A' && is_nil B') = emptyish A' && is_nil B')
    by (destruct A'; destruct B'; cbn; try reflexivity; destruct (is_nil l); reflexivity).
  assert (HB0 : is_nil B' = true -> nm - dd = 0) by (subst nm dd; destruct B'; [reflexivity|discriminate]).
  clearbody dd nm ra rb. clear L1 L2 HBnd Da Db HS E1 E2.
  rewrite Hc1, Hor.
  destruct (emptyish A' && is_nil B') eqn:C1.
  { (* everything matched: "." *)
    apply andb_true_iff in C1 as [C1a C1b]. specialize (HB0 C1b).
    apply dot_result. rewrite SU, HB0, C1a. reflexivity. }
  (* count the rest of base *)
  rewrite HCL. cbn [bind]. cbv beta iota.
  destruct (0 + dd >? 0 + nm) eqn:C2.
  { exists None. split; [reflexivity|]. cbn [rel_result_ok]. rewrite SU.
    assert (E : (nm - dd <? 0) = true) by (clear - C2; lia). rewrite E. reflexivity. }
  replace (0 + nm - (0 + dd)) with (nm - dd) by (clear; lia).
  assert (C3 : (nm - dd <? 0) = false) by (clear - C2; lia). rewrite C3 in SU.
  destruct ((nm - dd =? 0) && emptyish A') eqn:C4.
  { apply dot_result. exact SU. }
  (* assembly *)
  rewrite HP2.
  replace (nm - dd) with (Z.of_nat (Z.to_nat (nm - dd))) by (clear - C3; lia).
  set (nn := Z.to_nat (nm - dd)) in *.
  destruct (emptyish A') eqn:EA.
  - (* the rest of path is empty or one empty element: only up-references *)
    rewrite andb_true_r in C4.
    assert (Hn : nm - dd > 0) by (clear - C3 C4; lia).
    destruct nn as [|k] eqn:En; [clear - En Hn; lia|].
    assert (Eab : ab = length p) by (apply Ea7; destruct A' as [|x r]; [exact I|destruct x; [reflexivity|discriminate]]).
    subst ab.
    destruct (assemble_empty p (lead_seps p) k) as [buf [H1 [H2 H3]]].
    rewrite H1. eexists. split; [reflexivity|]. cbn [rel_result_ok].
    specialize (L4 eq_refl Hn).
    fold (trail_cond p) in H3.
    destruct (trail_cond p).
    + exists (ups_then (S k) []), 0%nat, (repeat dotdot_elem (S k) ++ [[]]).
      repeat split.
      * rewrite H3. cbn [repeat]. now rewrite app_nil_r.
      * rewrite H2, ups_then_length. cbn [length]. f_equal. clear; lia.
      * apply nonul_ups_then. constructor.
      * rewrite SU, L4. reflexivity.
      * apply path_of_ups_trail.
    + exists (ups_then k dotdot_elem), 1%nat, (repeat dotdot_elem (S k)).
      repeat split.
      * exact H3.
      * rewrite H2, ups_then_length. cbn [length dotdot_elem]. f_equal. clear; lia.
      * apply nonul_ups_then. apply nonul_dotdot.
      * rewrite SU, L4, app_nil_r. reflexivity.
      * apply path_of_ups_plain.
  - (* the rest of path starts with a name: up-references, then the suffix of path *)
    idtac.
    destruct Ea6 as [Hab [Hroot Hel]]; [destruct A' as [|x r]; [discriminate|destruct x; [discriminate|congruence]]|].
    destruct (assemble_suffix p (Z.of_nat (lead_seps p)) ab nn Hab) as [buf [H1 [H2 H3]]].
    rewrite H1. eexists. split; [reflexivity|]. cbn [rel_result_ok].
    exists (ups_then nn (skipn ab p)), 0%nat, (repeat dotdot_elem nn ++ A').
    repeat split.
    + rewrite H2. cbn [repeat]. now rewrite app_nil_r.
    + rewrite H3. f_equal. clear; lia.
    + apply nonul_ups_then. now apply nonul_skipn.
    + rewrite SU, (L3 eq_refl). reflexivity.
    + apply path_of_ups_suffix; auto.
      intros E0. apply (f_equal (@length Z)) in E0. rewrite skipn_length in E0. simpl in E0. clear - E0 Hab; lia.
Qed.

(* ---------------------------------------------------------------- observable statements *)
Lemma relative_text_ok p base :
  nonul p -> nonul base ->
  exists r, relative_text p base = Ok r /\ relative_agrees r p base.
Proof.
  intros Np Nb. destruct (relative_ok p base Np Nb) as [r [H HR]].
  unfold relative_text. rewrite H. cbn [bind]. eexists. split; [reflexivity|].
  destruct r as [buf|]; cbn [rel_result_ok] in HR; unfold relative_agrees.
  - destruct HR as [t [j [es [HC [HS [Nt [HSp HP]]]]]]].
    unfold buf_text. rewrite HC, <- app_assoc. cbn [app]. rewrite c_text_app by assumption.
    rewrite HSp. exact HP.
  - rewrite HR. exact I.
Qed.

Lemma relative_null_iff_ok p base :
  nonul p -> nonul base ->
  exists r, relative_text p base = Ok r /\ (r = None <-> std_relative p base = None).
Proof.
  intros Np Nb. destruct (relative_text_ok p base Np Nb) as [r [H HA]].
  exists r. split; [exact H|]. unfold relative_agrees in HA.
  destruct r; destruct (std_relative p base); try contradiction; split; congruence.
Qed.

Lemma relative_fits_ok p base :
  nonul p -> nonul base ->
  exists r, zix_path_lexically_relative p base = Ok r
    /\ match r with
       | None => True
       | Some buf => exists t j, nonul t /\ b_cells buf = (t ++ [0]) ++ repeat 0 j
                                 /\ b_size buf = Z.of_nat (length t + 1 + j)
       end.
Proof.
  intros Np Nb. destruct (relative_ok p base Np Nb) as [r [H HR]]. exists r. split; [exact H|].
  destruct r as [buf|]; [|exact I]. destruct HR as [t [j [es [HC [HS [Nt _]]]]]]. eauto.
Qed.
