(* C09, the library's normal configuration (-DNDEBUG: assertions compiled out).

   zix_bump_aligned_alloc asserts that the size is a multiple of the alignment.  With the assertion
   compiled out the code handles every size (zix_bump_malloc rounds it up to the unit), and the
   property says "all request sizes including odd sizes".  Here: the caller model over
   BumpModel.bump_aligned_alloc_nd, the trace checker gated by the weaker precondition (the
   alignment is a power of two >= 8; nothing about the size), and the proofs that
     - the nd function has the same exact characterisation for EVERY size,
     - it is the same function on the documented domain (size a multiple of the alignment), so the
       nd caller model is the original one on histories within the documented preconditions,
     - every trace of the nd caller model is accepted by the nd checker (safety for all sizes).
   spec_step (what is promised about one response) is BumpSpec's, unchanged: it never looks at
   n mod al. *)
From Coq Require Import ZArith List Bool Lia ZifyBool.
From Zix Require Import BumpModel BumpSpec BumpProofs BumpProofsSafe.
Import ListNotations.
Local Open Scope Z_scope.
Ltac Zify.zify_post_hook ::= Z.div_mod_to_equations.

(* ------------------------------------------------------------------ definitions *)
(* align_ok without the conjunct n mod al = 0 *)
Definition align_ok_nd (al : Z) : bool := is_pow2 al && (8 <=? al) && (al <? W).

Definition req_ok_nd (r : request) : bool :=
  match r with
  | Malloc n => size_ok n
  | Calloc a b => size_ok a && size_ok b
  | Realloc _ n => size_ok n
  | AlignedAlloc al n => size_ok n && align_ok_nd al
  | Free _ | AlignedFree _ => true
  end.

(* the caller model: BumpSpec.sys_step, except that aligned_alloc is the NDEBUG function *)
Definition sys_step_nd (A C : Z) (id : nat) (y : sys) (r : request) : step_out :=
  match r with
  | AlignedAlloc al n =>
      let '(st', res) := bump_aligned_alloc_nd A C (s_st y) al n in after_alloc A id y n st' (s_mem y) res false
  | _ => sys_step A C id y r
  end.

Fixpoint sys_run_nd (A C : Z) (id : nat) (y : sys) (rs : list request) : list entry :=
  match rs with
  | [] => []
  | r :: rs' =>
      if s_dead y then []
      else let '(y', o, z, m') := sys_step_nd A C id y r in
           {| e_req := r; e_resp := o; e_zero := z; e_st := s_st y'; e_mpre := s_mem y; e_mpost := m' |}
           :: sys_run_nd A C (S id) y' rs'
  end.

Definition bump_run_nd (A C : Z) (m0 : mem) (rs : list request) : list entry :=
  sys_run_nd A C 0 (sys_init A m0) rs.

(* the trace checker: BumpSpec.spec_check_from with the weaker gate *)
Fixpoint spec_check_nd_from (A C : Z) (id : nat) (sp : spec_state) (tr : list (request * resp * bool)) : bool :=
  match tr with
  | [] => true
  | (r, o, z) :: tr' =>
      if req_ok_nd r then
        match spec_step A C id sp r o z with
        | Some sp' => spec_check_nd_from A C (S id) sp' tr'
        | None => false
        end
      else true      (* a request outside the preconditions: nothing is promised from here on *)
  end.

Definition spec_check_nd (A C : Z) (tr : list (request * resp * bool)) : bool :=
  spec_check_nd_from A C 0 (spec_init A) tr.

Fixpoint spec_first_reject_nd (A C : Z) (id : nat) (sp : spec_state) (tr : list (request * resp * bool)) : option nat :=
  match tr with
  | [] => None
  | (r, o, z) :: tr' =>
      if req_ok_nd r then
        match spec_step A C id sp r o z with
        | Some sp' => spec_first_reject_nd A C (S id) sp' tr'
        | None => Some id
        end
      else None
  end.

(* ------------------------------------------------------------------ preconditions *)
Lemma align_ok_nd_pow2 al : align_ok_nd al = true -> exists k, 3 <= k < 64 /\ al = 2 ^ k.
Proof.
  unfold align_ok_nd. intros H.
  apply andb_true_iff in H as [H Hlt]. apply andb_true_iff in H as [Hp Hge].
  destruct al as [|p|p]; cbn [is_pow2] in Hp; try discriminate.
  destruct (is_pow2_pos_exists p Hp) as (k & Hk & E).
  exists k. rewrite E in *. split; [|reflexivity].
  split.
  - destruct (Z_lt_ge_dec k 3) as [Hk3|]; [|lia].
    assert (2 ^ k < 2 ^ 3) by (apply Z.pow_lt_mono_r; lia). lia.
  - destruct (Z_lt_ge_dec k 64) as [|Hk64]; [lia|].
    assert (2 ^ 64 <= 2 ^ k) by (apply Z.pow_le_mono_r; lia). unfold W in *. lia.
Qed.

Lemma align_ok_split al n : align_ok al n = align_ok_nd al && (n mod al =? 0).
Proof. reflexivity. Qed.

Lemma req_ok_nd_of_req_ok r : req_ok r = true -> req_ok_nd r = true.
Proof.
  destruct r as [n | a b | p n | p | al n | p]; cbn [req_ok req_ok_nd]; auto.
  rewrite align_ok_split. intros H.
  apply andb_true_iff in H as [H1 H2]. apply andb_true_iff in H2 as [H2 _]. rewrite H1, H2. reflexivity.
Qed.

Lemma align_ok_nd_facts al : align_ok_nd al = true -> 0 < al /\ al mod 8 = 0.
Proof.
  intros H. destruct (align_ok_nd_pow2 al H) as (k & Hk & ->).
  split; [apply Z.pow_pos_nonneg; lia|].
  replace (2 ^ k) with (2 ^ (k - 3) * 8).
  - apply Z_mod_mult.
  - change 8 with (2 ^ 3). rewrite <- Z.pow_add_r by lia. f_equal. lia.
Qed.

(* ------------------------------------------------------------------ (a) exact outcome, every size *)
Lemma bump_aligned_alloc_nd_char A C s al n :
  0 < A -> 0 <= C -> A + C < W -> st_ok A C s -> 0 <= n < W -> align_ok_nd al = true ->
  let pad := (- (A + top s)) mod al in
  bump_aligned_alloc_nd A C s al n =
    if top s + pad + rounded n <=? C
    then ({| top := top s + pad + rounded n; last := top s + pad |}, RPtr (A + top s + pad))
    else (s, RNull).
Proof.
  intros HA HC HAC Hst Hn Hal pad.
  destruct (align_ok_nd_pow2 al Hal) as (k & Hk & ->).
  assert (Hp : 0 < 2 ^ k) by (apply Z.pow_pos_nonneg; lia).
  assert (Hw' : 0 < 2 ^ (64 - k)) by (apply Z.pow_pos_nonneg; lia).
  assert (H8 : 2 ^ k = 8 * 2 ^ (k - 3)).
  { change 8 with (2 ^ 3). rewrite <- Z.pow_add_r by lia. f_equal. lia. }
  assert (Hk3 : 0 < 2 ^ (k - 3)) by (apply Z.pow_pos_nonneg; lia).
  assert (Hle63 : 2 ^ k <= 2 ^ 63) by (apply Z.pow_le_mono_r; lia).
  pose proof (W_multiple k ltac:(lia)) as HW.
  pose proof (rounded_facts n) as Hr.
  unfold bump_aligned_alloc_nd, min_alignment.
  assert (E1 : (2 ^ k >=? 8) = true) by lia. rewrite E1.
  rewrite round_asserts_pow2 by lia. cbn [negb]. cbv zeta.
  assert (Hta : 0 <= wrap (A + top s) < W) by (unfold wrap; apply Z.mod_pos_bound; reflexivity).
  rewrite round_up_pow2 by (assumption || lia).
  (* the padding computed from the (possibly wrapped) address is the padding of the true address *)
  assert (Epad : (- wrap (A + top s)) mod 2 ^ k = pad).
  { subst pad. unfold wrap.
    pose proof (Z.div_mod (A + top s) W ltac:(unfold W; lia)) as Hd.
    replace (- ((A + top s) mod W)) with (- (A + top s) + (2 ^ (64 - k) * ((A + top s) / W)) * 2 ^ k) by lia.
    apply Z_mod_plus_full. }
  rewrite Epad.
  pose proof (Z.mod_pos_bound (- (A + top s)) (2 ^ k) Hp) as Hpad. fold pad in Hpad.
  assert (Eoff : wrap (wrap (wrap (A + top s) + pad) - wrap (A + top s)) = pad).
  { unfold wrap at 1 2. rewrite Zminus_mod_idemp_l.
    replace (wrap (A + top s) + pad - wrap (A + top s)) with pad by lia.
    apply Z.mod_small. unfold W in *. lia. }
  rewrite Eoff.
  (* A + top + pad is a multiple of the alignment, at most 2^64 *)
  assert (Hmul : exists q, A + top s + pad = 2 ^ k * q).
  { exists (- ((- (A + top s)) / 2 ^ k)).
    pose proof (Z.div_mod (- (A + top s)) (2 ^ k) ltac:(lia)). subst pad. lia. }
  destruct Hmul as [q Hq].
  destruct Hst as (Hl & Ha8 & Hcap).
  assert (Hnw : top s + pad < W).
  { destruct Hcap as [Hc | Hc]; [|unfold W in *; lia].
    assert (Hq1 : 2 ^ k * q < 2 ^ k * (2 ^ (64 - k) + 1)) by lia.
    apply Z.mul_lt_mono_pos_l in Hq1; [|assumption].
    assert (Hq2 : 2 ^ k * q <= 2 ^ k * 2 ^ (64 - k)) by (apply Z.mul_le_mono_nonneg_l; lia).
    lia. }
  rewrite (wrap_small (top s + pad)) by lia.
  destruct (top s + pad >? C) eqn:E3.
  - destruct (top s + pad + rounded n <=? C) eqn:E4; [lia | reflexivity].
  - assert (Hst1 : st_ok A C {| top := top s + pad; last := last s |}).
    { unfold st_ok; cbn [top last]. split; [lia|]. split; [|lia].
      replace (A + (top s + pad)) with (A + top s + pad) by lia. rewrite Hq, H8.
      replace (8 * 2 ^ (k - 3) * q) with ((2 ^ (k - 3) * q) * 8) by lia. apply Z_mod_mult. }
    rewrite bump_malloc_char by assumption. cbn [top last].
    destruct (top s + pad + rounded n <=? C) eqn:E4.
    + replace (A + (top s + pad)) with (A + top s + pad) by lia. reflexivity.
    + rewrite state_eta. reflexivity.
Qed.

(* ------------------------------------------------------------------ (b) same function on the documented domain *)
(* in ANY state, for ANY alignment: if the size is a multiple of the alignment the assertion that
   NDEBUG removes does not fire, so both builds compute the same thing *)
Lemma bump_aligned_alloc_nd_agrees A C s al n :
  n mod al = 0 -> bump_aligned_alloc_nd A C s al n = bump_aligned_alloc A C s al n.
Proof.
  intros Hm. unfold bump_aligned_alloc_nd, bump_aligned_alloc.
  assert (E : (n mod al =? 0) = true) by lia. rewrite E. cbn [negb]. reflexivity.
Qed.

(* otherwise the default build stops at the assertion, and only there *)
Lemma bump_aligned_alloc_nd_differs A C s al n :
  n mod al <> 0 -> al >= min_alignment -> bump_aligned_alloc A C s al n = (s, RAbort).
Proof.
  intros Hm Hal. unfold bump_aligned_alloc.
  assert (E0 : (al >=? min_alignment) = true) by lia. rewrite E0.
  assert (E : (n mod al =? 0) = false) by lia. rewrite E. reflexivity.
Qed.

Lemma sys_step_nd_other A C id y r :
  (forall al n, r <> AlignedAlloc al n) -> sys_step_nd A C id y r = sys_step A C id y r.
Proof. intros H. destruct r; try reflexivity. exfalso. eapply H. reflexivity. Qed.

Lemma sys_step_nd_agrees A C id y r : req_ok r = true -> sys_step_nd A C id y r = sys_step A C id y r.
Proof.
  intros Hr. destruct r as [n | a b | p n | p | al n | p]; try reflexivity.
  cbn [req_ok] in Hr. unfold align_ok in Hr.
  assert (Hm : n mod al = 0) by lia.
  unfold sys_step_nd, sys_step. rewrite bump_aligned_alloc_nd_agrees by assumption. reflexivity.
Qed.

Lemma sys_run_nd_agrees A C rs : forall id y, forallb req_ok rs = true ->
  sys_run_nd A C id y rs = sys_run A C id y rs.
Proof.
  induction rs as [|r rs IH]; intros id y Hok; cbn [sys_run_nd sys_run]; [reflexivity|].
  cbn [forallb] in Hok. apply andb_true_iff in Hok as [Hr Hrs].
  rewrite sys_step_nd_agrees by assumption.
  destruct (s_dead y); [reflexivity|].
  destruct (sys_step A C id y r) as [[[y' o] z] m']. rewrite IH by assumption. reflexivity.
Qed.

Lemma bump_run_nd_agrees A C m0 rs : forallb req_ok rs = true -> bump_run_nd A C m0 rs = bump_run A C m0 rs.
Proof. intros H. apply sys_run_nd_agrees. exact H. Qed.

(* the nd checker demands more: it keeps judging where the original one stops promising *)
Lemma spec_check_nd_from_stronger A C tr : forall id sp,
  spec_check_nd_from A C id sp tr = true -> spec_check_from A C id sp tr = true.
Proof.
  induction tr as [|[[r o] z] tr IH]; intros id sp H; cbn [spec_check_nd_from spec_check_from] in *; [reflexivity|].
  destruct (req_ok r) eqn:Er; [|reflexivity].
  rewrite (req_ok_nd_of_req_ok r Er) in H.
  destruct (spec_step A C id sp r o z) as [sp'|]; [|discriminate]. apply IH. exact H.
Qed.

Lemma spec_check_nd_stronger A C tr : spec_check_nd A C tr = true -> spec_check A C tr = true.
Proof. apply spec_check_nd_from_stronger. Qed.

(* ------------------------------------------------------------------ (c) safety for every size *)
Section StepNd.
  Variables A C : Z.
  Hypothesis HA : 0 < A.
  Hypothesis HC : 0 <= C.
  Hypothesis HAC : A + C < W.

  Definition step_good_nd (id : nat) (y : sys) (sp : spec_state) (r : request) : Prop :=
    let '(y', o, z, _) := sys_step_nd A C id y r in
    exists sp', spec_step A C id sp r o z = Some sp' /\ Inv A C (S id) y' sp'.

  Lemma step_aligned_alloc_nd id y sp al n : Inv A C id y sp -> size_ok n = true -> align_ok_nd al = true ->
    step_good_nd id y sp (AlignedAlloc al n).
  Proof.
    intros I Hn Hal. unfold size_ok in Hn. assert (Hn' : 0 <= n < W) by lia.
    destruct (align_ok_nd_facts al Hal) as [Hal0 Hal8].
    unfold step_good_nd, sys_step_nd.
    pose proof (bump_aligned_alloc_nd_char A C (s_st y) al n HA HC HAC (Inv_st_ok _ _ _ _ _ I) Hn' Hal) as Hc.
    cbv zeta in Hc. rewrite Hc. clear Hc.
    set (pad := (- (A + top (s_st y))) mod al).
    destruct (top (s_st y) + pad + rounded n <=? C) eqn:E; cbn [after_alloc spec_step].
    - replace (A + top (s_st y) + pad - A) with (top (s_st y) + pad) by lia.
      match goal with |- context [Inv _ _ _ {| s_st := ?st; s_mem := ?m; s_live := ?l; s_dead := ?d |}] =>
        destruct (alloc_success A C id y {| s_st := st; s_mem := m; s_live := l; s_dead := d |} sp al n
                    (top (s_st y) + pad) HA HC HAC I ltac:(lia) Hal0 Hal8 eq_refl ltac:(lia) eq_refl eq_refl eq_refl)
          as (sp' & Hs & Hi)
      end.
      eauto.
    - destruct (alloc_failure A C id y
                  {| s_st := s_st y; s_mem := s_mem y; s_live := s_live y; s_dead := false |} sp al n I) as [H1 H2];
        try reflexivity; [fold pad; lia|].
      eauto.
  Qed.

  (* every request other than aligned_alloc: the step is BumpSpec.sys_step and its precondition is
     the original one, so BumpProofsSafe.step_ok applies as it is *)
  Lemma step_ok_nd id y sp r : Inv A C id y sp -> req_ok_nd r = true -> step_good_nd id y sp r.
  Proof.
    intros I Hr.
    destruct r as [n | a b | p n | p | al n | p].
    - exact (step_ok A C HA HC HAC id y sp (Malloc n) I Hr).
    - exact (step_ok A C HA HC HAC id y sp (Calloc a b) I Hr).
    - exact (step_ok A C HA HC HAC id y sp (Realloc p n) I Hr).
    - exact (step_ok A C HA HC HAC id y sp (Free p) I Hr).
    - cbn [req_ok_nd] in Hr. apply andb_true_iff in Hr as [H1 H2]. apply step_aligned_alloc_nd; assumption.
    - exact (step_ok A C HA HC HAC id y sp (AlignedFree p) I Hr).
  Qed.

  Lemma run_ok_nd rs : forall id y sp, Inv A C id y sp ->
    spec_check_nd_from A C id sp (trace_of (sys_run_nd A C id y rs)) = true.
  Proof.
    induction rs as [|r rs IH]; intros id y sp I; cbn [sys_run_nd]; [reflexivity|].
    rewrite (inv_dead _ _ _ _ _ I).
    pose proof (step_ok_nd id y sp r I) as Hs. unfold step_good_nd in Hs.
    destruct (sys_step_nd A C id y r) as [[[y' o] z] m'].
    cbn [trace_of map e_req e_resp e_zero spec_check_nd_from].
    destruct (req_ok_nd r); [|reflexivity].
    destruct (Hs eq_refl) as (sp' & -> & I'). apply IH. exact I'.
  Qed.

  (* with the (weaker) preconditions met the whole history is executed and nothing aborts *)
  Lemma run_complete_nd rs : forall id y sp, Inv A C id y sp -> forallb req_ok_nd rs = true ->
    length (sys_run_nd A C id y rs) = length rs /\
    Forall (fun e => e_resp e <> OAbort) (sys_run_nd A C id y rs).
  Proof.
    induction rs as [|r rs IH]; intros id y sp I Hok; cbn [sys_run_nd]; [split; [reflexivity | constructor]|].
    cbn [forallb] in Hok. apply andb_true_iff in Hok as [Hr Hrs].
    rewrite (inv_dead _ _ _ _ _ I).
    pose proof (step_ok_nd id y sp r I Hr) as Hs. unfold step_good_nd in Hs.
    destruct (sys_step_nd A C id y r) as [[[y' o] z] m'].
    destruct Hs as (sp' & Hstep & I').
    destruct (IH (S id) y' sp' I' Hrs) as [Hlen Hall].
    cbn [length]. split; [congruence|]. constructor; [|exact Hall].
    cbn [e_resp]. intros ->.
    destruct r as [n | a b | [|i] n | [|i] | al n | [|i]]; cbn [spec_step spec_alloc spec_free] in Hstep;
      try discriminate;
      try (destruct (find_blk i (sp_live sp)); discriminate).
  Qed.
End StepNd.

Theorem bump_safe_all_nd A C m0 rs :
  0 < A -> 0 <= C -> A + C < W -> spec_check_nd A C (trace_of (bump_run_nd A C m0 rs)) = true.
Proof. intros HA HC HAC. apply run_ok_nd; auto. apply Inv_init. Qed.

Theorem bump_never_aborts_nd A C m0 rs :
  0 < A -> 0 <= C -> A + C < W -> forallb req_ok_nd rs = true ->
  length (bump_run_nd A C m0 rs) = length rs /\
  Forall (fun e => e_resp e <> OAbort) (bump_run_nd A C m0 rs).
Proof.
  intros HA HC HAC Hok.
  exact (run_complete_nd A C HA HC HAC rs 0%nat (sys_init A m0) (spec_init A) (Inv_init A C m0) Hok).
Qed.

(* a failed nd request changes nothing, in any state, for any arguments *)
Lemma bump_aligned_alloc_nd_null A C s al n s' : bump_aligned_alloc_nd A C s al n = (s', RNull) -> s' = s.
Proof.
  unfold bump_aligned_alloc_nd.
  destruct (negb (al >=? min_alignment)); [discriminate|].
  destruct (negb (round_asserts al)); [discriminate|].
  destruct (_ >? C); [intros [= <-]; reflexivity|].
  destruct (bump_malloc A C _ n) as [s2 r]. destruct r; try discriminate; intros [= <-]; apply state_eta.
Qed.
