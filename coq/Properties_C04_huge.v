(* C04 — writer calls with a size argument of at least the ring size 2^k (anything up to 2^32-1) in the micro-step
   release/acquire model RingConcModel.v.  The trace correspondence cannot materialise a 4 GiB source list, so the
   model driver (ocaml/drv_c04.ml) runs such an op W<n>/A<n>, n >= 2^k, with a stand-in source of exactly 2^k bytes;
   [ring_overlong_calls_irrelevant] says that, for EVERY pair of sources of at least 2^k bytes, on every schedule
   and for every reader program, the access trace, the results of both threads, the memory (heads' modification
   orders, buffer, epochs, race flag), the reader's state and the ghost state are the same; only the calls logged in
   [wcalls] differ (pointwise related).  The two step theorems say what the refusal is. *)
From Coq Require Import ZArith List Bool Arith.
From Zix Require Import RingConcModel RingConcHuge.
Import ListNotations.
Local Open Scope Z_scope.

(* the space available to the writer is below the ring size for all head values *)
Theorem ring_write_space_below_size :
  forall c r w, 0 <= ck c <= 31 -> 0 <= write_space c r w < rsize c.
Proof.
  exact write_space_lt.
Qed.
Print Assumptions ring_write_space_below_size.

(* [prog_sim c wp wp']: after the same results the two writer strategies both finish, or make the same call, or both
   make a write (both an amend) whose sources have at least 2^k bytes each.  Then everything but the call log agrees,
   at every moment of every execution. *)
Theorem ring_overlong_calls_irrelevant :
  forall c wp wp' rp sched, 0 <= ck c <= 31 -> prog_sim c wp wp' ->
    let s := run c wp rp sched in let s' := run c wp' rp sched in
    trace s = trace s' /\ wresl (sw s) = wresl (sw s') /\ rresl (sr s) = rresl (sr s') /\
    sm s = sm s' /\ sr s = sr s' /\ sg s = sg s' /\ wtx (sw s) = wtx (sw s') /\
    wsteps (sw s) = wsteps (sw s') /\
    wpc_sim c (wpcs (sw s)) (wpcs (sw s')) /\ Forall2 (call_sim c) (wcalls (sw s)) (wcalls (sw s')).
Proof.
  exact run_sim_observables.
Qed.
Print Assumptions ring_overlong_calls_irrelevant.

(* the same as a relation on whole states, from any pair of related states (one micro-step) *)
Theorem ring_overlong_step :
  forall c wp wp' rp s t ch, 0 <= ck c <= 31 -> prog_sim c wp wp' -> state_sim c s t ->
    state_sim c (step c wp rp s ch) (step c wp' rp t ch).
Proof.
  exact step_sim.
Qed.
Print Assumptions ring_overlong_step.

(* programs given as lists of calls (what the model driver builds) *)
Theorem ring_overlong_programs :
  forall c l l', Forall2 (call_sim c) l l' -> prog_sim c (wprog_of_list l) (wprog_of_list l').
Proof.
  exact prog_sim_of_lists.
Qed.
Print Assumptions ring_overlong_programs.

(* zix_ring_write(ring, src, size >= 2^k): after the acquire load of read_head (the first micro-step of every
   write, which does not look at the size) the plain load of write_head ends the call with 0: no buffer access,
   no store *)
Theorem ring_overlong_write_refused :
  forall c p s k bs r rc, 0 <= ck c <= 31 -> overlong c bs ->
    wpcs (sw s) = WOwn (WWrite bs) r rc ->
    let s' := wstep c p s k in
    wpcs (sw s') = WIdle /\ wresl (sw s') = WrWrote 0 :: wresl (sw s) /\ wtx (sw s') = None /\
    sm s' = sm s /\ sr s' = sr s /\ trace s' = EvOwn HW (lastv (WH (sm s))) :: trace s.
Proof.
  exact overlong_write_step.
Qed.
Print Assumptions ring_overlong_write_refused.

(* zix_ring_amend_write(ring, tx, src, size >= 2^k) inside a transaction: NO_MEM without any shared access; the
   transaction, memory, ghost state and trace are unchanged (a commit that follows publishes what was amended
   before) *)
Theorem ring_overlong_amend_refused :
  forall c p s k bs tx, 0 <= ck c <= 31 -> overlong c bs ->
    wpcs (sw s) = WIdle -> p (wresl (sw s)) = Some (WAmend bs) -> wtx (sw s) = Some tx ->
    let s' := wstep c p s k in
    wpcs (sw s') = WIdle /\ wresl (sw s') = WrAmend false :: wresl (sw s) /\ wtx (sw s') = Some tx /\
    sm s' = sm s /\ sr s' = sr s /\ sg s' = sg s /\ trace s' = trace s.
Proof.
  exact overlong_amend_step.
Qed.
Print Assumptions ring_overlong_amend_refused.

(* ---- not vacuous: on a non-empty ring of size 4 (fill 2), a write of 2^32-1 bytes and, inside a transaction, an
   amend of 2^32-2 = 2^32-fill bytes (the size at which `fill + size` wraps to 0 in uint32_t) -- WHATEVER their
   sources are -- are refused; the amend that follows and the commit go through; the reader gets exactly the
   committed bytes.  Proved through the theorem with 4-byte stand-ins, as the model driver does. *)
Example ring_overlong_example :
  forall big1 big2, wsize big1 = 4294967295 -> wsize big2 = 4294967294 ->
    let wp := wprog_of_list [WWrite [1; 2]; WWrite big1; WBegin; WAmend big2; WAmend [3]; WCommit] in
    let rp := rprog_of_list [RRead 3] in
    let sched := repeat (true, O) 13 ++ repeat (false, O) 6 in
    let s := run (faithful 2) wp rp sched in
    rev (wresl (sw s)) = [WrWrote 2; WrWrote 0; WrBegun; WrAmend false; WrAmend true; WrCommitted] /\
    rev (rresl (sr s)) = [RrRead 3 [1; 2; 3]] /\
    rev (trace s) = [EvAcq HR 0; EvOwn HW 0; EvWr 0 1; EvWr 1 2; EvSto HW true 2;
                     EvAcq HR 0; EvOwn HW 2;
                     EvAcq HR 0; EvOwn HW 2; EvWr 2 3; EvSto HW true 3;
                     EvAcq HW 3; EvOwn HR 0; EvRd 0 1; EvRd 1 2; EvRd 2 3; EvSto HR true 3] /\
    race (sm s) = false.
Proof.
  intros big1 big2 H1 H2 wp rp sched s.
  pose (wp' := wprog_of_list [WWrite [1; 2]; WWrite [0; 0; 0; 0]; WBegin; WAmend [0; 0; 0; 0]; WAmend [3]; WCommit]).
  assert (Hp : prog_sim (faithful 2) wp wp').
  { apply ring_overlong_programs.
    repeat first [ apply Forall2_nil | apply Forall2_cons ]; try apply CsSame;
      [apply CsWrite | apply CsAmend]; unfold overlong; rewrite ?H1, ?H2; vm_compute; discriminate. }
  assert (Hk : 0 <= ck (faithful 2) <= 31) by (split; discriminate).
  destruct (ring_overlong_calls_irrelevant (faithful 2) wp wp' rp sched Hk Hp) as (Htr & Hw & Hr & Hm & _).
  fold s in Htr, Hw, Hr, Hm. rewrite Htr, Hw, Hr, Hm.
  vm_compute. repeat split; reflexivity.
Qed.
