(* C10 — the model of path.c's decomposition functions against the C++17 spec *)
From Coq Require Import ZArith List Bool Lia ZifyBool.
From Zix Require Import PathDecSpec PathDecModel PathDecProofsBase PathDecProofsSpec.
Import ListNotations.
Local Open Scope Z_scope.

(* ---- the length of the leading separator run -------------------------------------- *)
Fixpoint lead (s : str) : nat :=
  match s with c :: t => if is_sep c then S (lead t) else O | [] => O end.
Definition K (s : str) : Z := Z.of_nat (lead s).

Lemma znth_cons : forall c t j, 0 <= j -> znth (c :: t) j = if j =? 0 then c else znth t (j - 1).
Proof.
  intros c t j Hj. unfold znth. destruct (j =? 0) eqn:E.
  - assert (j = 0) by lia. subst. reflexivity.
  - replace (Z.to_nat j) with (S (Z.to_nat (j - 1))) by lia. reflexivity.
Qed.

Lemma znth_nil : forall j, znth [] j = 0.
Proof. intros. unfold znth. now destruct (Z.to_nat j). Qed.

Lemma K_range : forall s, 0 <= K s <= slen s.
Proof.
  unfold K, slen. induction s as [|c t IH]; cbn [lead length]; [lia|]. destruct (is_sep c); lia.
Qed.

Lemma K_seps : forall s j, 0 <= j < K s -> is_sep (znth s j) = true.
Proof.
  unfold K. induction s as [|c t IH]; intros j Hj; cbn [lead] in Hj; [lia|].
  destruct (is_sep c) eqn:E; [|lia]. rewrite znth_cons by lia.
  destruct (j =? 0) eqn:E0; [exact E|]. apply IH. lia.
Qed.

Lemma K_stop : forall s, is_sep (znth s (K s)) = false.
Proof.
  unfold K. induction s as [|c t IH]; cbn [lead]; [now rewrite znth_nil|].
  destruct (is_sep c) eqn:E.
  - rewrite znth_cons by lia. replace (Z.of_nat (S (lead t)) =? 0) with false by lia.
    replace (Z.of_nat (S (lead t)) - 1) with (Z.of_nat (lead t)) by lia. exact IH.
  - cbn. exact E.
Qed.

Lemma K_unique : forall s k, 0 <= k ->
  (forall j, 0 <= j < k -> is_sep (znth s j) = true) -> is_sep (znth s k) = false -> k = K s.
Proof.
  intros s k Hk Hall Hstop. pose proof (K_range s).
  destruct (Z.lt_trichotomy k (K s)) as [H1|[H1|H1]]; [|assumption|].
  - rewrite K_seps in Hstop by lia. discriminate.
  - pose proof (K_stop s) as Q. rewrite Hall in Q by lia. discriminate.
Qed.

Lemma drop_seps_slice : forall s, drop_seps s = slice s (K s) (slen s).
Proof.
  induction s as [|c t IH]; [reflexivity|].
  unfold K. cbn [drop_seps lead]. destruct (is_sep c) eqn:E.
  - rewrite IH. unfold slice, K. rewrite slen_cons.
    replace (Z.to_nat (Z.of_nat (S (lead t)))) with (S (Z.to_nat (Z.of_nat (lead t)))) by lia.
    cbn [skipn]. f_equal. lia.
  - change (Z.of_nat 0) with 0. now rewrite slice_all.
Qed.

Lemma has_root_dir_znth : forall s, has_root_dir s = is_sep (znth s 0).
Proof. intros [|c t]; reflexivity. Qed.

Lemma has_root_dir_K : forall s, has_root_dir s = (0 <? K s).
Proof.
  intros [|c t]; [reflexivity|]. unfold K. cbn [has_root_dir lead]. destruct (is_sep c); lia.
Qed.

Lemma seps_slice_K : forall s a b, 0 <= a -> b <= K s -> seps (slice s a b).
Proof.
  intros s a b Ha Hb. pose proof (K_range s). apply slice_forall; try lia.
  intros j Hj. apply K_seps. lia.
Qed.

(* ---- root ------------------------------------------------------------------------- *)
Definition rootr (s : str) : range := if K s =? 0 then (0, 0) else (K s - 1, K s).

Lemma root_slices_eq : forall s, root_slices (Some s) = Ok ((0, 0), rootr s).
Proof.
  intros s. unfold root_slices, root_name_range, rend, rootr. cbn [snd].
  pose proof (slen_nonneg s). rewrite rdr_ok by lia. cbn [bind].
  unfold is_dir_sep. fold (is_sep (znth s 0)).
  destruct (is_sep (znth s 0)) eqn:E; cbn [negb].
  - assert (Hlen : 1 <= slen s).
    { destruct (Z.eq_dec (slen s) 0) as [H0|]; [|lia]. rewrite znth_over in E by lia. discriminate. }
    destruct (root_dir_loop_spec (fuel_of s) s 0 (0 + 1)) as (k & Hk & Hr & Hs & Hn); try lia.
    + intros j Hj. assert (j = 0) by lia. subst. exact E.
    + unfold fuel_of, slen in *. lia.
    + rewrite Hk. cbn [bind]. assert (k = K s) by (apply K_unique; try assumption; lia). subst k.
      replace (K s =? 0) with false by lia. reflexivity.
  - assert (0 = K s) as <- by (apply K_unique; try assumption; try lia). reflexivity.
Qed.

Lemma root_path_range_eq : forall s, root_path_range (Some s) = Ok (rootr s).
Proof.
  intros s. unfold root_path_range. rewrite root_slices_eq. reflexivity.
Qed.

Lemma rootr_end : forall s, rend (rootr s) = K s.
Proof. intros. unfold rootr, rend. destruct (K s =? 0) eqn:E; cbn [snd]; lia. Qed.

Lemma rootr_begin : forall s, rbegin (rootr s) = Z.max (K s - 1) 0.
Proof. intros. pose proof (K_range s). unfold rootr, rbegin. destruct (K s =? 0) eqn:E; cbn [fst]; lia. Qed.

(* ---- filename --------------------------------------------------------------------- *)
Lemma is_dir_sep_eq : forall c, is_dir_sep c = is_sep c.
Proof. reflexivity. Qed.

Lemma not_dir_sep_true : forall c, not_dir_sep c = true -> is_sep c = false.
Proof. intros c. unfold not_dir_sep. rewrite is_dir_sep_eq. now destruct (is_sep c). Qed.

Lemma not_dir_sep_false : forall c, not_dir_sep c = false -> is_sep c = true.
Proof. intros c. unfold not_dir_sep. rewrite is_dir_sep_eq. now destruct (is_sep c). Qed.

Lemma slen_0_nil : forall s, slen s = 0 -> s = [].
Proof. intros [|c t] H; [reflexivity|]. rewrite slen_cons in H. pose proof (slen_nonneg t). lia. Qed.

Lemma std_filename_trailing_sep : forall s,
  slen s = 0 \/ is_sep (znth s (slen s - 1)) = true -> std_filename s = [].
Proof.
  intros s [H|H].
  - now rewrite (slen_0_nil s H).
  - assert (Hl : 0 < slen s).
    { pose proof (slen_nonneg s). destruct (Z.eq_dec (slen s) 0) as [E|]; [|lia].
      rewrite E in H. unfold znth in H. cbn in H. rewrite (slen_0_nil s E) in H. discriminate. }
    rewrite <- (app_nil_r s). apply std_filename_app; [constructor|]. right.
    exists (slice s 0 (slen s - 1)), (znth s (slen s - 1)). split; [|exact H].
    rewrite <- slice_last by lia. now rewrite slice_all.
Qed.

Lemma filename_range_spec : forall s,
  exists b e, filename_range s = Ok (b, e) /\ 0 <= b <= e /\ e <= slen s /\
              slice s b e = std_filename s /\
              (b < e -> e = slen s /\ K s <= b) /\ (b = e -> b = 0).
Proof.
  intros s. pose proof (slen_nonneg s) as Hlen. pose proof (K_range s) as HK.
  unfold filename_range. destruct (slen s =? 0) eqn:E0.
  { exists 0, 0. rewrite slice_nil, std_filename_trailing_sep by lia. repeat split; lia. }
  rewrite root_path_range_eq. cbn [bind]. rewrite rootr_end.
  destruct (K s =? slen s) eqn:EK.
  { exists 0, 0. rewrite slice_nil, std_filename_trailing_sep; [repeat split; lia|].
    right. apply K_seps. lia. }
  rewrite rdr_ok by lia. cbn [bind]. rewrite is_dir_sep_eq.
  destruct (is_sep (znth s (slen s - 1))) eqn:EL.
  { exists 0, 0. rewrite slice_nil, std_filename_trailing_sep; [repeat split; lia|]. now right. }
  destruct (scan_down_spec not_dir_sep 1 (fuel_of s) s (K s) (slen s - 1)) as (f & Hf & Hb & Ha & Hs);
    try lia; [unfold fuel_of, slen in *; lia|].
  rewrite Hf. cbn [bind]. exists f, (slen s).
  split; [reflexivity|]. split; [lia|]. split; [lia|]. split; [|split; intros; lia].
  assert (Hns : nosep (slice s f (slen s))).
  { apply slice_forall; try lia. intros j Hj.
    destruct (Z.eq_dec j (slen s - 1)) as [->|Hne]; [exact EL|].
    apply not_dir_sep_true. replace j with (j + 1 - 1) by lia. apply Ha. lia. }
  symmetry. replace (std_filename s) with (std_filename (slice s 0 f ++ slice s f (slen s))).
  2: { rewrite <- slice_app by lia. now rewrite slice_all. }
  apply std_filename_app; [exact Hns|].
  destruct (Z.eq_dec f 0) as [->|Hf0]; [left; apply slice_nil|]. right.
  exists (slice s 0 (f - 1)), (znth s (f - 1)). split; [apply slice_last; lia|].
  destruct (Z.eq_dec f (K s)) as [->|HfK]; [apply K_seps; lia|].
  apply not_dir_sep_false. apply Hs. lia.
Qed.
