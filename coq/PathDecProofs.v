(* C10 — the model of path.c's decomposition functions against the C++17 spec *)
From Coq Require Import ZArith List Bool Lia ZifyBool.
From Zix Require Import PathDecSpec PathDecModel PathDecProofsBase PathDecProofsSpec.
Import ListNotations.
Local Open Scope Z_scope.

(* ---- the length of the leading separator run -------------------------------------- *)
Fixpoint lead (s : str) : nat :=
  match s with c :: t => if is_sep c then S (lead t) else O | [] => O end.
Definition K (s : str) : Z := Z.of_nat (lead s).

Lemma znth_cons : forall c t j, 0 <= j -> znth (c :: t) j = if j =? 0 then c else znth t (j - 1).
Proof.
  intros c t j Hj. unfold znth. destruct (j =? 0) eqn:E.
  - assert (j = 0) by lia. subst. reflexivity.
  - replace (Z.to_nat j) with (S (Z.to_nat (j - 1))) by lia. reflexivity.
Qed.

Lemma znth_nil : forall j, znth [] j = 0.
Proof. intros. unfold znth. now destruct (Z.to_nat j). Qed.

Lemma K_range : forall s, 0 <= K s <= slen s.
Proof.
  unfold K, slen. induction s as [|c t IH]; cbn [lead length]; [lia|]. destruct (is_sep c); lia.
Qed.

Lemma K_seps : forall s j, 0 <= j < K s -> is_sep (znth s j) = true.
Proof.
  unfold K. induction s as [|c t IH]; intros j Hj; cbn [lead] in Hj; [lia|].
  destruct (is_sep c) eqn:E; [|lia]. rewrite znth_cons by lia.
  destruct (j =? 0) eqn:E0; [exact E|]. apply IH. lia.
Qed.

Lemma K_stop : forall s, is_sep (znth s (K s)) = false.
Proof.
  unfold K. induction s as [|c t IH]; cbn [lead]; [now rewrite znth_nil|].
  destruct (is_sep c) eqn:E.
  - rewrite znth_cons by lia. replace (Z.of_nat (S (lead t)) =? 0) with false by lia.
    replace (Z.of_nat (S (lead t)) - 1) with (Z.of_nat (lead t)) by lia. exact IH.
  - cbn. exact E.
Qed.

Lemma K_unique : forall s k, 0 <= k ->
  (forall j, 0 <= j < k -> is_sep (znth s j) = true) -> is_sep (znth s k) = false -> k = K s.
Proof.
  intros s k Hk Hall Hstop. pose proof (K_range s).
  destruct (Z.lt_trichotomy k (K s)) as [H1|[H1|H1]]; [|assumption|].
  - rewrite K_seps in Hstop by lia. discriminate.
  - pose proof (K_stop s) as Q. rewrite Hall in Q by lia. discriminate.
Qed.

Lemma drop_seps_slice : forall s, drop_seps s = slice s (K s) (slen s).
Proof.
  induction s as [|c t IH]; [reflexivity|].
  unfold K. cbn [drop_seps lead]. destruct (is_sep c) eqn:E.
  - rewrite IH. unfold slice, K. rewrite slen_cons.
    replace (Z.to_nat (Z.of_nat (S (lead t)))) with (S (Z.to_nat (Z.of_nat (lead t)))) by lia.
    cbn [skipn]. f_equal. lia.
  - change (Z.of_nat 0) with 0. now rewrite slice_all.
Qed.

Lemma has_root_dir_znth : forall s, has_root_dir s = is_sep (znth s 0).
Proof. intros [|c t]; reflexivity. Qed.

Lemma has_root_dir_K : forall s, has_root_dir s = (0 <? K s).
Proof.
  intros [|c t]; [reflexivity|]. unfold K. cbn [has_root_dir lead]. destruct (is_sep c); lia.
Qed.

Lemma seps_slice_K : forall s a b, 0 <= a -> b <= K s -> seps (slice s a b).
Proof.
  intros s a b Ha Hb. pose proof (K_range s). apply slice_forall; try lia.
  intros j Hj. apply K_seps. lia.
Qed.

(* ---- root ------------------------------------------------------------------------- *)
Definition rootr (s : str) : range := if K s =? 0 then (0, 0) else (K s - 1, K s).

Lemma root_slices_eq : forall s, root_slices (Some s) = Ok ((0, 0), rootr s).
Proof.
  intros s. unfold root_slices, root_name_range, rend, rootr. cbn [snd].
  pose proof (slen_nonneg s). rewrite rdr_ok by lia. cbn [bind].
  unfold is_dir_sep. fold (is_sep (znth s 0)).
  destruct (is_sep (znth s 0)) eqn:E; cbn [negb].
  - assert (Hlen : 1 <= slen s).
    { destruct (Z.eq_dec (slen s) 0) as [H0|]; [|lia]. rewrite znth_over in E by lia. discriminate. }
    destruct (root_dir_loop_spec (fuel_of s) s 0 (0 + 1)) as (k & Hk & Hr & Hs & Hn); try lia.
    + intros j Hj. assert (j = 0) by lia. subst. exact E.
    + unfold fuel_of, slen in *. lia.
    + rewrite Hk. cbn [bind]. assert (k = K s) by (apply K_unique; try assumption; lia). subst k.
      replace (K s =? 0) with false by lia. reflexivity.
  - assert (0 = K s) as <- by (apply K_unique; try assumption; try lia). reflexivity.
Qed.

Lemma root_path_range_eq : forall s, root_path_range (Some s) = Ok (rootr s).
Proof.
  intros s. unfold root_path_range. rewrite root_slices_eq. reflexivity.
Qed.

Lemma rootr_end : forall s, rend (rootr s) = K s.
Proof. intros. unfold rootr, rend. destruct (K s =? 0) eqn:E; cbn [snd]; lia. Qed.

Lemma rootr_begin : forall s, rbegin (rootr s) = Z.max (K s - 1) 0.
Proof. intros. pose proof (K_range s). unfold rootr, rbegin. destruct (K s =? 0) eqn:E; cbn [fst]; lia. Qed.

(* ---- filename --------------------------------------------------------------------- *)
Lemma is_dir_sep_eq : forall c, is_dir_sep c = is_sep c.
Proof. reflexivity. Qed.

Lemma not_dir_sep_true : forall c, not_dir_sep c = true -> is_sep c = false.
Proof. intros c. unfold not_dir_sep. rewrite is_dir_sep_eq. now destruct (is_sep c). Qed.

Lemma not_dir_sep_false : forall c, not_dir_sep c = false -> is_sep c = true.
Proof. intros c. unfold not_dir_sep. rewrite is_dir_sep_eq. now destruct (is_sep c). Qed.

Lemma slen_0_nil : forall s, slen s = 0 -> s = [].
Proof. intros [|c t] H; [reflexivity|]. rewrite slen_cons in H. pose proof (slen_nonneg t). lia. Qed.

Lemma std_filename_trailing_sep : forall s,
  slen s = 0 \/ is_sep (znth s (slen s - 1)) = true -> std_filename s = [].
Proof.
  intros s [H|H].
  - now rewrite (slen_0_nil s H).
  - assert (Hl : 0 < slen s).
    { pose proof (slen_nonneg s). destruct (Z.eq_dec (slen s) 0) as [E|]; [|lia].
      rewrite E in H. unfold znth in H. cbn in H. rewrite (slen_0_nil s E) in H. discriminate. }
    rewrite <- (app_nil_r s). apply std_filename_app; [constructor|]. right.
    exists (slice s 0 (slen s - 1)), (znth s (slen s - 1)). split; [|exact H].
    rewrite <- slice_last by lia. now rewrite slice_all.
Qed.

Lemma filename_range_spec : forall s,
  exists b e, filename_range s = Ok (b, e) /\ 0 <= b <= e /\ e <= slen s /\
              slice s b e = std_filename s /\
              (b < e -> e = slen s /\ K s <= b) /\ (b = e -> b = 0).
Proof.
  intros s. pose proof (slen_nonneg s) as Hlen. pose proof (K_range s) as HK.
  unfold filename_range. destruct (slen s =? 0) eqn:E0.
  { exists 0, 0. rewrite slice_nil, std_filename_trailing_sep by lia. repeat split; lia. }
  rewrite root_path_range_eq. cbn [bind]. rewrite rootr_end.
  destruct (K s =? slen s) eqn:EK.
  { exists 0, 0. rewrite slice_nil, std_filename_trailing_sep; [repeat split; lia|].
    right. apply K_seps. lia. }
  rewrite rdr_ok by lia. cbn [bind]. rewrite is_dir_sep_eq.
  destruct (is_sep (znth s (slen s - 1))) eqn:EL.
  { exists 0, 0. rewrite slice_nil, std_filename_trailing_sep; [repeat split; lia|]. now right. }
  destruct (scan_down_spec not_dir_sep 1 (fuel_of s) s (K s) (slen s - 1)) as (f & Hf & Hb & Ha & Hs);
    try lia; [unfold fuel_of, slen in *; lia|].
  rewrite Hf. cbn [bind]. exists f, (slen s).
  split; [reflexivity|]. split; [lia|]. split; [lia|]. split; [|split; intros; lia].
  assert (Hns : nosep (slice s f (slen s))).
  { apply slice_forall; try lia. intros j Hj.
    destruct (Z.eq_dec j (slen s - 1)) as [->|Hne]; [exact EL|].
    apply not_dir_sep_true. replace j with (j + 1 - 1) by lia. apply Ha. lia. }
  symmetry. replace (std_filename s) with (std_filename (slice s 0 f ++ slice s f (slen s))).
  2: { rewrite <- slice_app by lia. now rewrite slice_all. }
  apply std_filename_app; [exact Hns|].
  destruct (Z.eq_dec f 0) as [->|Hf0]; [left; apply slice_nil|]. right.
  exists (slice s 0 (f - 1)), (znth s (f - 1)). split; [apply slice_last; lia|].
  destruct (Z.eq_dec f (K s)) as [->|HfK]; [apply K_seps; lia|].
  apply not_dir_sep_false. apply Hs. lia.
Qed.

(* ---- stem and extension ----------------------------------------------------------- *)
Lemma firstn_length_app : forall {A} (x y : list A), firstn (length x) (x ++ y) = x.
Proof. induction x; intros; cbn; [reflexivity|now rewrite IHx]. Qed.

Lemma skipn_length_app : forall {A} (x y : list A), skipn (length x) (x ++ y) = y.
Proof. induction x; intros; cbn; [reflexivity|apply IHx]. Qed.

Lemma str_eqb_length : forall a b, str_eqb a b = true -> length a = length b.
Proof. intros a b H. apply str_eqb_eq in H. now subst. Qed.

Lemma strncmp_eq_spec : forall lit s b, 0 <= b -> b + slen lit <= slen s ->
  strncmp_eq s b lit = Ok (str_eqb (slice s b (b + slen lit)) lit).
Proof.
  induction lit as [|c t IH]; intros s b Hb Hl.
  - cbn [strncmp_eq]. rewrite slen_nil, Z.add_0_r, slice_nil. reflexivity.
  - rewrite slen_cons in *. pose proof (slen_nonneg t).
    cbn [strncmp_eq]. rewrite rdr_ok by lia. cbn [bind].
    rewrite slice_first by lia. cbn [str_eqb].
    destruct (znth s b =? c) eqn:E; [|reflexivity]. cbn [andb].
    rewrite IH by lia. do 3 f_equal. lia.
Qed.

Lemma ranges_equal_lit_spec : forall s b e lit, 0 <= b <= e -> e <= slen s ->
  ranges_equal_lit s (b, e) lit = Ok (str_eqb (slice s b e) lit).
Proof.
  intros s b e lit Hb He. unfold ranges_equal_lit, rbegin, rend. cbn [fst snd].
  destruct (e - b =? slen lit - 0) eqn:E1.
  - destruct (e - b =? 0) eqn:E2.
    + assert (lit = []) by (apply slen_0_nil; lia). subst lit.
      assert (b = e) by lia. subst. now rewrite slice_nil.
    + rewrite strncmp_eq_spec by lia. do 3 f_equal. lia.
  - destruct (str_eqb (slice s b e) lit) eqn:E; [|reflexivity].
    apply str_eqb_length in E. pose proof (slice_length s b e Hb He). unfold slen in E1. lia.
Qed.

Lemma not_dot_true : forall c, not_dot c = true -> is_dot c = false.
Proof. intros c. unfold not_dot, is_dot. now destruct (c =? 46). Qed.

Lemma not_dot_false : forall c, not_dot c = false -> c = 46.
Proof. intros c. unfold not_dot. lia. Qed.

Lemma ext_cut_special : forall n, str_eqb n [46] || str_eqb n [46; 46] = true -> ext_cut n = length n.
Proof. intros n H. unfold ext_cut. now rewrite H. Qed.

Lemma ext_cut_last : forall n x y,
  str_eqb n [46] || str_eqb n [46; 46] = false -> n = x ++ 46 :: y -> nodot y -> x <> [] ->
  ext_cut n = length x.
Proof.
  intros n x y H -> Hy Hx. unfold ext_cut. rewrite H, (last_dot_app x y Hy).
  destruct x; [contradiction|reflexivity].
Qed.

Lemma ext_cut_nodot_tail : forall c y, nodot y -> ext_cut (c :: y) = length (c :: y).
Proof.
  intros c y Hy. unfold ext_cut. destruct (_ || _); [reflexivity|].
  cbn [last_dot]. rewrite (last_dot_none y Hy). destruct (is_dot c); reflexivity.
Qed.

Lemma stem_range_spec : forall s b e,
  filename_range s = Ok (b, e) -> 0 <= b <= e -> e <= slen s ->
  exists m, stem_range s = Ok (b, m) /\ b <= m <= e /\ (b < e -> b < m) /\
            m - b = Z.of_nat (ext_cut (slice s b e)).
Proof.
  intros s b e Hfn Hb He.
  pose proof (slice_length s b e Hb He) as Hnl.
  unfold stem_range. rewrite Hfn. cbn [bind]. unfold is_empty_range, rbegin, rend. cbn [fst snd].
  destruct (b =? e) eqn:Ebe.
  { cbn [bind fst snd]. rewrite Ebe.
    assert (b = e) by lia. subst e. exists b. split; [reflexivity|]. split; [lia|]. split; [lia|].
    rewrite slice_nil. cbn. lia. }
  assert (Hlt : b < e) by lia.
  rewrite ranges_equal_lit_spec by lia. cbn [bind].
  destruct (str_eqb (slice s b e) [46]) eqn:E1.
  { cbn [bind fst snd]. rewrite Ebe. exists e. split; [reflexivity|]. split; [lia|]. split; [lia|].
    rewrite ext_cut_special by now rewrite E1. lia. }
  rewrite ranges_equal_lit_spec by lia. cbn [bind].
  destruct (str_eqb (slice s b e) [46; 46]) eqn:E2.
  { cbn [bind fst snd]. rewrite Ebe. exists e. split; [reflexivity|]. split; [lia|]. split; [lia|].
    rewrite ext_cut_special by (rewrite E2; apply orb_true_r). lia. }
  destruct (scan_down_spec not_dot 0 (fuel_of s) s b (e - 1)) as (r & Hr & Hrb & Ha & Hs);
    try lia; [unfold fuel_of, slen in *; lia|].
  rewrite Hr. cbn [bind fst snd].
  assert (Hy : nodot (slice s (r + 1) e)).
  { apply slice_forall; try lia. intros j Hj. apply not_dot_true.
    replace j with (j - 0) by lia. apply Ha. lia. }
  destruct (b =? r) eqn:Ebr.
  - (* no dot after the first character: the stem is the whole name *)
    assert (r = b) by lia. subst r.
    exists e. split; [reflexivity|]. split; [lia|]. split; [lia|].
    rewrite (slice_first s b e) by lia. rewrite ext_cut_nodot_tail by assumption.
    rewrite <- slice_first by lia. lia.
  - exists r. split; [reflexivity|]. split; [lia|]. split; [lia|].
    assert (Hdot : znth s r = 46).
    { apply not_dot_false. replace r with (r - 0) at 1 by lia. apply Hs. lia. }
    rewrite (ext_cut_last (slice s b e) (slice s b r) (slice s (r + 1) e)).
    + rewrite slice_length by lia. lia.
    + now rewrite E1, E2.
    + rewrite (slice_app s b r e) by lia. f_equal. rewrite (slice_first s r e) by lia. now rewrite Hdot.
    + exact Hy.
    + apply slice_nonempty; lia.
Qed.

Lemma extension_from_stem : forall s b m, stem_range s = Ok (b, m) ->
  extension_range s = Ok (if b =? m then (b, m) else (m, slen s)).
Proof.
  intros s b m H. unfold extension_range. rewrite H. cbn [bind].
  unfold is_empty_range, rbegin, rend. cbn [fst snd].
  destruct (b =? m); [reflexivity|]. do 2 f_equal. lia.
Qed.

(* ---- parent path ------------------------------------------------------------------ *)
Lemma has_root_dir_slice : forall s a b, 0 <= a < b -> b <= slen s ->
  has_root_dir (slice s a b) = is_sep (znth s a).
Proof. intros. rewrite slice_first by lia. reflexivity. Qed.

(* the root path, as a path *)
Lemma as_path_root : forall s,
  as_path (slice s (Z.max (K s - 1) 0) (K s)) = (has_root_dir s, []).
Proof.
  intros s. pose proof (K_range s) as HK. unfold as_path. f_equal.
  - rewrite (has_root_dir_K s). destruct (Z.eq_dec (K s) 0) as [E|E].
    + rewrite E. cbn. reflexivity.
    + rewrite has_root_dir_slice by lia. rewrite K_seps by lia. lia.
  - apply elements_seps. apply seps_slice_K; lia.
Qed.

(* the general case: the result ends just behind the name character at l2 *)
Lemma parent_general : forall s l2 q,
  K s <= l2 -> is_sep (znth s l2) = false -> l2 + 1 < q -> q <= slen s ->
  seps (slice s (l2 + 1) q) -> nosep (slice s q (slen s)) ->
  as_path (slice s (Z.max (K s - 1) 0) (l2 + 1)) = std_parent_path s.
Proof.
  intros s l2 q HKl Hns Hq Hql HR HN. pose proof (K_range s) as HK.
  set (m := l2 + 1) in *. set (p := Z.max (K s - 1) 0).
  assert (Hel : elements (slice s (K s) m ++ slice s m q ++ slice s q (slen s)) =
                elements (slice s (K s) m) ++ [slice s q (slen s)]).
  { pose proof (elements_snoc (znth s (K s)) (slice s (K s + 1) m) (slice s (K s) (m - 1)) (znth s (m - 1))
                  (slice s m q) (slice s q (slen s))) as H.
    rewrite <- !slice_first in H by lia. apply H; try assumption.
    - apply K_stop.
    - apply slice_last; lia.
    - unfold m. now replace (l2 + 1 - 1) with l2 by lia.
    - apply slice_nonempty; lia. }
  assert (Hs : elements s = elements (slice s (K s) m) ++ [slice s q (slen s)]).
  { rewrite <- Hel. rewrite <- !slice_app by lia.
    rewrite <- (elements_seps_app (slice s 0 (K s)) (slice s (K s) (slen s))) by (apply seps_slice_K; lia).
    rewrite <- slice_app by lia. now rewrite slice_all. }
  unfold std_parent_path, as_path. rewrite Hs, removelast_snoc. f_equal.
  - rewrite has_root_dir_slice by lia. rewrite (has_root_dir_K s). unfold p.
    destruct (Z.eq_dec (K s) 0) as [E|E].
    + rewrite E. cbn [Z.max Z.sub Z.opp Z.add Z.compare]. cbn. rewrite <- E. apply K_stop.
    + replace (Z.max (K s - 1) 0) with (K s - 1) by lia. rewrite K_seps by lia. lia.
  - rewrite (slice_app s p (K s) m) by lia. apply elements_seps_app. apply seps_slice_K; lia.
Qed.

Lemma parent_path_range_spec : forall s,
  exists b e, parent_path_range s = Ok (b, e) /\ 0 <= b <= e /\ e <= slen s /\
              as_path (slice s b e) = std_parent_path s.
Proof.
  intros s. pose proof (slen_nonneg s) as Hlen. pose proof (K_range s) as HK.
  unfold parent_path_range. destruct (slen s =? 0) eqn:E0.
  { assert (s = []) by (apply slen_0_nil; lia). subst s. exists 0, 0. rewrite slice_nil.
    split; [reflexivity|]. split; [lia|]. split; [lia|reflexivity]. }
  rewrite root_path_range_eq. cbn [bind].
  pose proof (rootr_begin s) as Hrb. pose proof (rootr_end s) as Hre.
  destruct (rootr s) as [rb re] eqn:Hroot. unfold rbegin, rend in *. cbn [fst snd] in *.
  set (p := Z.max (K s - 1) 0) in *.
  assert (Hretroot : removelast (elements s) = [] ->
            exists b e, Ok (rb, re) = Ok (b, e) /\ 0 <= b <= e /\ e <= slen s /\
                        as_path (slice s b e) = std_parent_path s).
  { intros Hrm. exists rb, re. split; [reflexivity|]. split; [lia|]. split; [lia|].
    subst rb re. unfold p. rewrite as_path_root. unfold std_parent_path. now rewrite Hrm. }
  rewrite rdr_ok by lia. cbn [bind]. rewrite is_dir_sep_eq.
  (* the third loop and the general result, for both branches *)
  assert (Hthird : forall l1 q, K s < l1 -> l1 <= slen s - 1 -> is_sep (znth s l1) = true ->
            l1 < q <= slen s -> (forall j, l1 <= j < q -> is_sep (znth s j) = true) ->
            nosep (slice s q (slen s)) ->
            exists b e, (l2 <- scan_down is_dir_sep 0 (fuel_of s) s rb l1 ;; Ok (rb, rb + l2 + 1 - rb)) = Ok (b, e) /\
                        0 <= b <= e /\ e <= slen s /\ as_path (slice s b e) = std_parent_path s).
  { intros l1 q Hl1 Hl1' Hsep Hq HR HN.
    destruct (scan_down_spec is_dir_sep 0 (fuel_of s) s rb l1) as (l2 & H2 & H2b & H2a & H2s);
      try lia; [unfold fuel_of, slen in *; lia|].
    rewrite H2. cbn [bind].
    assert (HKl2 : K s <= l2).
    { destruct (Z_lt_le_dec l2 (K s)) as [Hc|]; [|lia].
      specialize (H2a (K s) ltac:(lia)). rewrite Z.sub_0_r, is_dir_sep_eq, K_stop in H2a. discriminate. }
    assert (Hl2lt : l2 < l1).
    { destruct (Z.eq_dec l2 l1) as [->|]; [|lia].
      specialize (H2s ltac:(lia)). rewrite Z.sub_0_r, is_dir_sep_eq, Hsep in H2s. discriminate. }
    assert (Hl2ns : is_sep (znth s l2) = false).
    { destruct (Z_lt_le_dec rb l2) as [Hc|Hc].
      - specialize (H2s Hc). now rewrite Z.sub_0_r, is_dir_sep_eq in H2s.
      - assert (l2 = K s) by lia. subst l2. apply K_stop. }
    exists rb, (rb + l2 + 1 - rb). split; [reflexivity|]. split; [lia|]. split; [lia|].
    replace (rb + l2 + 1 - rb) with (l2 + 1) by lia. subst rb. unfold p.
    apply (parent_general s l2 q); try assumption; try lia.
    apply slice_forall; try lia. intros j Hj.
    destruct (Z_lt_le_dec j l1) as [Hc|Hc]; [|apply HR; lia].
    specialize (H2a j ltac:(lia)). now rewrite Z.sub_0_r, is_dir_sep_eq in H2a. }
  destruct (is_sep (znth s (slen s - 1))) eqn:EL.
  - (* the path ends with a separator *)
    destruct (scan_down_spec is_dir_sep 1 (fuel_of s) s rb (slen s - 1)) as (l1 & H1 & H1b & H1a & H1s);
      try lia; [unfold fuel_of, slen in *; lia|].
    rewrite H1. cbn [bind].
    assert (HT : forall j, l1 <= j < slen s -> is_sep (znth s j) = true).
    { intros j Hj. destruct (Z.eq_dec j (slen s - 1)) as [->|]; [exact EL|].
      specialize (H1a (j + 1) ltac:(lia)). rewrite is_dir_sep_eq in H1a.
      now replace (j + 1 - 1) with j in H1a by lia. }
    destruct (l1 <=? re) eqn:Ecmp.
    + apply Hretroot.
      assert (K s = slen s).
      { destruct (Z.eq_dec (K s) (slen s)); [assumption|].
        pose proof (K_stop s) as Q. rewrite HT in Q by lia. discriminate. }
      rewrite elements_seps; [reflexivity|]. rewrite <- (slice_all s). apply seps_slice_K; lia.
    + apply (Hthird l1 (slen s)); [lia|lia|apply HT; lia|lia| |].
      * exact HT.
      * rewrite slice_nil. constructor.
  - (* the path ends with a name *)
    destruct (scan_down_spec not_dir_sep 0 (fuel_of s) s rb (slen s - 1)) as (l1 & H1 & H1b & H1a & H1s);
      try lia; [unfold fuel_of, slen in *; lia|].
    rewrite H1. cbn [bind].
    assert (HKlt : K s < slen s).
    { destruct (Z.eq_dec (K s) (slen s)); [|lia].
      rewrite K_seps in EL by lia. discriminate. }
    assert (HN : forall j, l1 < j < slen s -> is_sep (znth s j) = false).
    { intros j Hj. apply not_dir_sep_true. replace j with (j - 0) by lia. apply H1a. lia. }
    destruct (l1 <=? re) eqn:Ecmp.
    + apply Hretroot.
      assert (HNs : nosep (slice s (K s) (slen s))).
      { apply slice_forall; try lia. intros j Hj.
        destruct (Z.eq_dec j (K s)) as [->|]; [apply K_stop|apply HN; lia]. }
      rewrite <- (slice_all s). rewrite (slice_app s 0 (K s) (slen s)) by lia.
      rewrite elements_seps_app by (apply seps_slice_K; lia).
      rewrite elements_name; [reflexivity|exact HNs|apply slice_nonempty; lia].
    + assert (Hsep : is_sep (znth s l1) = true).
      { apply not_dir_sep_false. replace l1 with (l1 - 0) at 1 by lia. apply H1s. lia. }
      apply (Hthird l1 (l1 + 1)); [lia|lia|exact Hsep|lia| |].
      * intros j Hj. assert (j = l1) by lia. now subst.
      * apply slice_forall; try lia. intros j Hj. apply HN. lia.
Qed.

(* ---- everything about one string, in one place ------------------------------------- *)
Lemma cut_text : forall s b m e c, 0 <= b <= m -> m <= e -> e <= slen s -> m - b = Z.of_nat c ->
  slice s b m = firstn c (slice s b e) /\ slice s m e = skipn c (slice s b e).
Proof.
  intros s b m e c Hb Hm He Hc. rewrite (slice_app s b m e) by lia.
  assert (c = length (slice s b m)) as -> by (pose proof (slice_length s b m); lia).
  split; [now rewrite firstn_length_app|now rewrite skipn_length_app].
Qed.

Lemma ranges_summary : forall s, exists fb fe m pb pe,
  filename_range s = Ok (fb, fe) /\ stem_range s = Ok (fb, m) /\
  extension_range s = Ok (if fb =? m then (fb, m) else (m, slen s)) /\
  parent_path_range s = Ok (pb, pe) /\
  0 <= fb <= m /\ m <= fe /\ fe <= slen s /\ (fb < fe -> fe = slen s /\ fb < m) /\ (fb = fe -> fb = 0) /\
  0 <= pb <= pe /\ pe <= slen s /\
  slice s fb fe = std_filename s /\ slice s fb m = std_stem s /\
  slice s (if fb =? m then fb else m) (if fb =? m then m else slen s) = std_extension s /\
  as_path (slice s pb pe) = std_parent_path s.
Proof.
  intros s.
  destruct (filename_range_spec s) as (fb & fe & Hfn & Hfb & Hfe & Hft & Hfull & Hz).
  destruct (stem_range_spec s fb fe Hfn Hfb Hfe) as (m & Hst & Hm & Hlt & Hcut).
  destruct (parent_path_range_spec s) as (pb & pe & Hpp & Hpb & Hpe & Hpt).
  exists fb, fe, m, pb, pe.
  destruct (cut_text s fb m fe (ext_cut (slice s fb fe)) ltac:(lia) ltac:(lia) Hfe Hcut) as [Hs1 Hs2].
  rewrite Hft in Hs1, Hs2.
  split; [exact Hfn|]. split; [exact Hst|]. split; [now apply extension_from_stem|]. split; [exact Hpp|].
  split; [lia|]. split; [lia|]. split; [lia|]. split; [intros H; split; [apply Hfull|apply Hlt]; lia|].
  split; [exact Hz|]. split; [lia|]. split; [lia|]. split; [exact Hft|]. split; [exact Hs1|].
  split; [|exact Hpt].
  fold (std_extension s) in Hs2. unfold std_extension in *.
  destruct (fb =? m) eqn:E.
  - assert (fb = m) by lia. subst m. rewrite slice_nil.
    assert (fb = fe) by (destruct (Z.eq_dec fb fe); [assumption|specialize (Hlt ltac:(lia)); lia]).
    subst fe. rewrite <- Hs2. now rewrite slice_nil.
  - assert (fe = slen s) by (apply Hfull; lia). subst fe. exact Hs2.
Qed.

Lemma view_text_range : forall s b e, view_text s (range_string_view (b, e)) = slice s b e.
Proof. intros. unfold view_text, range_string_view, rbegin, rend. cbn [fst snd]. f_equal. lia. Qed.

Lemma rootr_text : forall s, slice s (rbegin (rootr s)) (rend (rootr s)) = std_root_directory s.
Proof.
  intros s. pose proof (K_range s) as HK. unfold std_root_directory. rewrite has_root_dir_K.
  unfold rootr, rbegin, rend. destruct (K s =? 0) eqn:E; cbn [fst snd].
  - replace (0 <? K s) with false by lia. apply slice_nil.
  - replace (0 <? K s) with true by lia.
    replace (K s) with (K s - 1 + 1) at 2 by lia. rewrite slice_one by lia.
    pose proof (K_seps s (K s - 1) ltac:(lia)) as H. unfold is_sep in H. f_equal. lia.
Qed.

Lemma rootr_bounds : forall s, 0 <= rbegin (rootr s) <= rend (rootr s) /\ rend (rootr s) <= slen s.
Proof. intros s. pose proof (K_range s). rewrite rootr_begin, rootr_end. lia. Qed.

(* ---- the queries ------------------------------------------------------------------- *)
Definition no_nul (s : mstr) : Prop := ~ In 0 s.

Lemma znth_In : forall s i, 0 <= i < slen s -> In (znth s i) s.
Proof. intros s i H. unfold znth, slen in *. apply nth_In. lia. Qed.

Lemma rel_nonempty_no_nul : forall s, no_nul s ->
  negb (znth s (K s) =? 0) = std_has_relative_path s.
Proof.
  intros s Hn. pose proof (K_range s) as HK. unfold std_has_relative_path, std_relative_path.
  rewrite drop_seps_slice, is_nil_slice by lia.
  destruct (Z.eq_dec (K s) (slen s)) as [E|E].
  - rewrite E, znth_len. lia.
  - assert (znth s (K s) <> 0) by (intros Q; apply Hn; rewrite <- Q; apply znth_In; lia). lia.
Qed.

Lemma is_empty_range_rootr : forall s, negb (is_empty_range (rootr s)) = has_root_dir s.
Proof.
  intros s. pose proof (K_range s). rewrite has_root_dir_K. unfold rootr, is_empty_range, rbegin, rend.
  destruct (K s =? 0) eqn:E; cbn [fst snd]; lia.
Qed.

Lemma std_has_root_directory_eq : forall s, std_has_root_directory s = has_root_dir s.
Proof. intros s. unfold std_has_root_directory, std_root_directory. now destruct (has_root_dir s). Qed.

Lemma std_has_root_path_eq : forall s, std_has_root_path s = has_root_dir s.
Proof. intros s. unfold std_has_root_path, std_root_path, std_root_name. cbn [app]. apply std_has_root_directory_eq. Qed.

Lemma nonempty_range_text : forall s b e, 0 <= b <= e -> e <= slen s ->
  negb (is_empty_range (b, e)) = negb (is_nil (slice s b e)).
Proof. intros. rewrite is_nil_slice by lia. reflexivity. Qed.

(* all ten queries; has_relative_path is `path[root.end] != 0` *)
Lemma zix_queries_some : forall s,
  zix_queries (Some s) =
  Ok [std_has_root_path s; std_has_root_name s; std_has_root_directory s; negb (znth s (K s) =? 0);
      std_has_parent_path s; std_has_filename s; std_has_stem s; std_has_extension s;
      std_is_absolute s; std_is_relative s].
Proof.
  intros s. pose proof (K_range s) as HK. pose proof (slen_nonneg s) as Hl.
  destruct (ranges_summary s) as (fb & fe & m & pb & pe & Hfn & Hst & Hex & Hpp & B1 & B2 & B3 & B4 & B5 &
                                  B6 & B7 & Tf & Ts & Te & Tp).
  unfold zix_queries, zix_query_calls, zix_path_has_root_path, zix_path_has_root_name, zix_path_has_root_directory,
    zix_path_has_relative_path, zix_path_has_parent_path, zix_path_has_filename, zix_path_has_stem,
    zix_path_has_extension, zix_path_is_relative, zix_path_is_absolute, zstring.
  rewrite root_path_range_eq, root_slices_eq, Hfn, Hst, Hex, Hpp. cbn [bind snd].
  rewrite rootr_end. rewrite !rdr_ok by lia. cbn [bind sequence].
  rewrite is_empty_range_rootr, is_dir_sep_eq, <- has_root_dir_znth.
  unfold std_is_relative, std_is_absolute. rewrite std_has_root_path_eq, std_has_root_directory_eq.
  assert (Q1 : negb (is_empty_range (pb, pe)) = std_has_parent_path s).
  { unfold std_has_parent_path. rewrite <- Tp, path_is_empty_as_path. apply nonempty_range_text; lia. }
  assert (Q2 : negb (is_empty_range (fb, fe)) = std_has_filename s).
  { unfold std_has_filename. rewrite <- Tf. apply nonempty_range_text; lia. }
  assert (Q3 : negb (is_empty_range (fb, m)) = std_has_stem s).
  { unfold std_has_stem. rewrite <- Ts. apply nonempty_range_text; lia. }
  rewrite Q1, Q2, Q3.
  change (negb (is_empty_range (root_name_range (Some s)))) with (std_has_root_name s).
  match goal with |- context [negb (is_empty_range ?r)] =>
    assert (Q4 : negb (is_empty_range r) = std_has_extension s) end.
  { unfold std_has_extension. rewrite <- Te. destruct (fb =? m) eqn:E.
    - apply nonempty_range_text; lia.
    - apply nonempty_range_text; lia. }
  rewrite Q4. reflexivity.
Qed.

Lemma zix_queries_null : zix_queries None = Ok (std_queries []).
Proof. reflexivity. Qed.

(* ---- the statements of Properties_C10.v -------------------------------------------- *)
Lemma L_root_name_eq : forall s v, zix_path_root_name s = Ok v -> view_text s v = std_root_name s.
Proof. intros s v [= <-]. reflexivity. Qed.

Lemma root_directory_text : forall s v, zix_path_root_directory s = Ok v -> view_text s v = std_root_directory s.
Proof.
  intros s v. unfold zix_path_root_directory. rewrite root_slices_eq. cbn [bind snd]. intros [= <-].
  destruct (rootr s) as [b e] eqn:E. rewrite view_text_range. rewrite <- rootr_text, E. reflexivity.
Qed.

Lemma root_path_text : forall s v, zix_path_root_path s = Ok v -> view_text s v = std_root_path s.
Proof.
  intros s v. unfold zix_path_root_path. rewrite root_path_range_eq. cbn [bind]. intros [= <-].
  destruct (rootr s) as [b e] eqn:E. rewrite view_text_range.
  unfold std_root_path, std_root_name. cbn [app]. rewrite <- rootr_text, E. reflexivity.
Qed.

Lemma L_root_directory_equiv : forall s v, zix_path_root_directory s = Ok v ->
  path_equiv (view_text s v) (std_root_directory s).
Proof. intros s v H. unfold path_equiv. now rewrite (root_directory_text s v H). Qed.

Lemma L_root_path_equiv : forall s v, zix_path_root_path s = Ok v ->
  path_equiv (view_text s v) (std_root_path s).
Proof. intros s v H. unfold path_equiv. now rewrite (root_path_text s v H). Qed.

Lemma L_relative_path_eq : forall s v, zix_path_relative_path s = Ok v ->
  view_text s v = std_relative_path s.
Proof.
  intros s v. unfold zix_path_relative_path. rewrite root_path_range_eq. cbn [bind]. intros [= <-].
  rewrite view_text_range, rootr_end. unfold std_relative_path. now rewrite drop_seps_slice.
Qed.

Lemma L_parent_path_equiv : forall s v, zix_path_parent_path s = Ok v ->
  as_path (view_text s v) = std_parent_path s.
Proof.
  intros s v. destruct (ranges_summary s) as (fb & fe & m & pb & pe & Hfn & Hst & Hex & Hpp & B1 & B2 & B3 & B4 & B5 &
                                  B6 & B7 & Tf & Ts & Te & Tp).
  unfold zix_path_parent_path. rewrite Hpp. cbn [bind]. intros [= <-]. now rewrite view_text_range.
Qed.

Lemma L_filename_eq : forall s v, zix_path_filename s = Ok v -> view_text s v = std_filename s.
Proof.
  intros s v. destruct (ranges_summary s) as (fb & fe & m & pb & pe & Hfn & Hst & Hex & Hpp & B1 & B2 & B3 & B4 & B5 &
                                  B6 & B7 & Tf & Ts & Te & Tp).
  unfold zix_path_filename. rewrite Hfn. cbn [bind]. intros [= <-]. now rewrite view_text_range.
Qed.

Lemma L_stem_eq : forall s v, zix_path_stem s = Ok v -> view_text s v = std_stem s.
Proof.
  intros s v. destruct (ranges_summary s) as (fb & fe & m & pb & pe & Hfn & Hst & Hex & Hpp & B1 & B2 & B3 & B4 & B5 &
                                  B6 & B7 & Tf & Ts & Te & Tp).
  unfold zix_path_stem. rewrite Hst. cbn [bind]. intros [= <-]. now rewrite view_text_range.
Qed.

Lemma L_extension_eq : forall s v, zix_path_extension s = Ok v -> view_text s v = std_extension s.
Proof.
  intros s v. destruct (ranges_summary s) as (fb & fe & m & pb & pe & Hfn & Hst & Hex & Hpp & B1 & B2 & B3 & B4 & B5 &
                                  B6 & B7 & Tf & Ts & Te & Tp).
  unfold zix_path_extension. rewrite Hex. cbn [bind]. intros [= <-].
  destruct (fb =? m); now rewrite view_text_range.
Qed.

Lemma L_filename_is_stem_extension : forall s f st ex,
  zix_path_filename s = Ok f -> zix_path_stem s = Ok st -> zix_path_extension s = Ok ex ->
  view_text s f = view_text s st ++ view_text s ex.
Proof.
  intros s f st ex.
  destruct (ranges_summary s) as (fb & fe & m & pb & pe & Hfn & Hst & Hex & Hpp & B1 & B2 & B3 & B4 & B5 &
                                  B6 & B7 & Tf & Ts & Te & Tp).
  unfold zix_path_filename, zix_path_stem, zix_path_extension. rewrite Hfn, Hst, Hex. cbn [bind].
  intros [= <-] [= <-] [= <-]. destruct (fb =? m) eqn:E; rewrite !view_text_range.
  - assert (fb = m) by lia. subst m.
    assert (fb = fe) by (destruct (Z.eq_dec fb fe); [assumption|specialize (B4 ltac:(lia)); lia]).
    subst fe. now rewrite slice_nil.
  - assert (fe = slen s) by (apply B4; lia). subst fe. apply slice_app; lia.
Qed.

Definition range_ok (s : mstr) (r : range) : Prop := 0 <= rbegin r <= rend r /\ rend r <= slen s.

Lemma L_ranges_in_bounds : forall s r,
  In (Ok r) [root_path_range (Some s); parent_path_range s; filename_range s; stem_range s; extension_range s] \/
  (exists n, root_slices (Some s) = Ok (n, r)) ->
  range_ok s r.
Proof.
  intros s r H. pose proof (rootr_bounds s) as HR. pose proof (slen_nonneg s) as Hl.
  destruct (ranges_summary s) as (fb & fe & m & pb & pe & Hfn & Hst & Hex & Hpp & B1 & B2 & B3 & B4 & B5 &
                                  B6 & B7 & Tf & Ts & Te & Tp).
  rewrite root_path_range_eq, root_slices_eq, Hfn, Hst, Hex, Hpp in H.
  unfold range_ok, rbegin, rend in *.
  destruct H as [H|(n & [= _ <-])]; [|exact HR].
  cbn [In] in H.
  destruct H as [[= <-]|[[= <-]|[[= <-]|[[= <-]|[H|[]]]]]]; cbn [fst snd]; try lia.
  destruct (fb =? m) eqn:E; injection H as <-; cbn [fst snd]; lia.
Qed.

Lemma view_of_range_ok : forall s r, range_ok s r -> view_in_input s (range_string_view r).
Proof. intros s [b e]. unfold range_ok, view_in_input, range_string_view, rbegin, rend. cbn [fst snd]. lia. Qed.

Lemma L_views_are_slices : forall s v, In (Ok v) (zix_views s) -> view_in_input s v.
Proof.
  intros s v H. pose proof (slen_nonneg s) as Hl. pose proof (K_range s) as HK.
  assert (HRO : forall r, In (Ok r) [root_path_range (Some s); parent_path_range s; filename_range s;
                                      stem_range s; extension_range s] -> range_ok s r)
    by (intros r Hr; apply L_ranges_in_bounds; now left).
  unfold zix_views, zix_path_root_name, zix_path_root_directory, zix_path_root_path, zix_path_relative_path,
    zix_path_parent_path, zix_path_filename, zix_path_stem, zix_path_extension in H.
  assert (Hb : forall (x : res range) v', (r <- x ;; Ok (range_string_view r)) = Ok v' ->
                exists r, x = Ok r /\ v' = range_string_view r).
  { intros [r| |] v' Q; cbn [bind] in Q; try discriminate. injection Q as <-. now exists r. }
  cbn [In] in H.
  destruct H as [H|[H|[H|[H|[H|[H|[H|[H|[]]]]]]]]].
  - injection H as <-. exact I.
  - rewrite root_slices_eq in H. cbn [bind snd] in H. injection H as <-.
    apply view_of_range_ok. apply L_ranges_in_bounds. right. exists (0, 0). apply root_slices_eq.
  - apply Hb in H as (r & Hr & ->). apply view_of_range_ok, HRO. rewrite <- Hr. cbn [In]. tauto.
  - rewrite root_path_range_eq in H. cbn [bind] in H. injection H as <-. rewrite rootr_end.
    apply view_of_range_ok. unfold range_ok, rbegin, rend. cbn [fst snd]. lia.
  - apply Hb in H as (r & Hr & ->). apply view_of_range_ok, HRO. rewrite <- Hr. cbn [In]. tauto.
  - apply Hb in H as (r & Hr & ->). apply view_of_range_ok, HRO. rewrite <- Hr. cbn [In]. tauto.
  - apply Hb in H as (r & Hr & ->). apply view_of_range_ok, HRO. rewrite <- Hr. cbn [In]. tauto.
  - apply Hb in H as (r & Hr & ->). apply view_of_range_ok, HRO. rewrite <- Hr. cbn [In]. tauto.
Qed.

Lemma L_queries_eq : forall s, no_nul s -> zix_queries (Some s) = Ok (std_queries s).
Proof. intros s H. rewrite zix_queries_some, (rel_nonempty_no_nul s H). reflexivity. Qed.

Lemma sequence_all_ok : forall {A} (l : list (res A)) q, sequence l = Ok q ->
  forall x, In x l -> exists a, x = Ok a.
Proof.
  induction l as [|y l IH]; intros q H x Hx; [destruct Hx|].
  cbn [sequence] in H. destruct y as [a| |]; cbn [bind] in H; try discriminate.
  destruct (sequence l) as [r| |] eqn:E; cbn [bind] in H; try discriminate.
  destruct Hx as [<-|Hx]; [now exists a|]. now apply (IH r).
Qed.

(* no read outside the NUL-terminated input, no loop runs out of fuel: every call returns Ok *)
Lemma L_reads_in_bounds : forall s,
  (forall x, In x (zix_views s) -> exists v, x = Ok v) /\
  (forall x, In x (zix_query_calls (Some s)) -> exists b, x = Ok b) /\
  (forall x, In x (zix_query_calls None) -> exists b, x = Ok b).
Proof.
  intros s. split; [|split].
  - destruct (ranges_summary s) as (fb & fe & m & pb & pe & Hfn & Hst & Hex & Hpp & _).
    unfold zix_views, zix_path_root_name, zix_path_root_directory, zix_path_root_path, zix_path_relative_path,
      zix_path_parent_path, zix_path_filename, zix_path_stem, zix_path_extension.
    rewrite root_slices_eq, root_path_range_eq, Hfn, Hst, Hex, Hpp. cbn [bind].
    intros x Hx. cbn [In] in Hx.
    destruct Hx as [<-|[<-|[<-|[<-|[<-|[<-|[<-|[<-|[]]]]]]]]]; eexists; reflexivity.
  - apply (sequence_all_ok _ _ (zix_queries_some s)).
  - apply (sequence_all_ok _ _ zix_queries_null).
Qed.

(* ---- has_X is true exactly when the view X returns is non-empty --------------------- *)
Lemma sequence_cons_inv : forall {A} (a : res A) l x r,
  sequence (a :: l) = Ok (x :: r) -> a = Ok x /\ sequence l = Ok r.
Proof.
  intros A a l x r H. cbn [sequence] in H. destruct a as [y| |]; cbn [bind] in H; try discriminate.
  destruct (sequence l) as [q| |]; cbn [bind] in H; try discriminate.
  injection H as -> ->. split; reflexivity.
Qed.

Lemma queries_individual : forall s,
  zix_path_has_root_path (Some s) = Ok (std_has_root_path s) /\
  zix_path_has_root_name (Some s) = Ok (std_has_root_name s) /\
  zix_path_has_root_directory (Some s) = Ok (std_has_root_directory s) /\
  zix_path_has_relative_path (Some s) = Ok (negb (znth s (K s) =? 0)) /\
  zix_path_has_parent_path (Some s) = Ok (std_has_parent_path s) /\
  zix_path_has_filename (Some s) = Ok (std_has_filename s) /\
  zix_path_has_stem (Some s) = Ok (std_has_stem s) /\
  zix_path_has_extension (Some s) = Ok (std_has_extension s) /\
  zix_path_is_absolute (Some s) = Ok (std_is_absolute s) /\
  zix_path_is_relative (Some s) = Ok (std_is_relative s).
Proof.
  intros s. pose proof (zix_queries_some s) as H. unfold zix_queries, zix_query_calls in H.
  repeat (apply sequence_cons_inv in H; destruct H as [? H]).
  repeat split; assumption.
Qed.

Lemma negb_is_nil_iff : forall {A} (l : list A), negb (is_nil l) = true <-> l <> [].
Proof. intros A [|x l]; cbn; split; intros H; try discriminate; try reflexivity; now try contradiction. Qed.

Lemma L_has_iff : forall s,
  (forall b v, zix_path_has_root_name (Some s) = Ok b -> zix_path_root_name s = Ok v ->
               (b = true <-> view_text s v <> [])) /\
  (forall b v, zix_path_has_root_directory (Some s) = Ok b -> zix_path_root_directory s = Ok v ->
               (b = true <-> view_text s v <> [])) /\
  (forall b v, zix_path_has_root_path (Some s) = Ok b -> zix_path_root_path s = Ok v ->
               (b = true <-> view_text s v <> [])) /\
  (forall b v, no_nul s -> zix_path_has_relative_path (Some s) = Ok b -> zix_path_relative_path s = Ok v ->
               (b = true <-> view_text s v <> [])) /\
  (forall b v, zix_path_has_parent_path (Some s) = Ok b -> zix_path_parent_path s = Ok v ->
               (b = true <-> view_text s v <> [])) /\
  (forall b v, zix_path_has_filename (Some s) = Ok b -> zix_path_filename s = Ok v ->
               (b = true <-> view_text s v <> [])) /\
  (forall b v, zix_path_has_stem (Some s) = Ok b -> zix_path_stem s = Ok v ->
               (b = true <-> view_text s v <> [])) /\
  (forall b v, zix_path_has_extension (Some s) = Ok b -> zix_path_extension s = Ok v ->
               (b = true <-> view_text s v <> [])).
Proof.
  intros s.
  destruct (queries_individual s) as (Q1 & Q2 & Q3 & Q4 & Q5 & Q6 & Q7 & Q8 & _).
  assert (P : forall (b : bool) (l : list Z), b = negb (is_nil l) -> (b = true <-> l <> [])).
  { intros b l ->. apply negb_is_nil_iff. }
  split; [|split; [|split; [|split; [|split; [|split; [|split]]]]]]; intros b v.
  - rewrite Q2. intros [= <-] [= <-]. cbn. split; [discriminate|contradiction].
  - rewrite Q3. intros [= <-] Hv. rewrite (root_directory_text s v Hv). now apply P.
  - rewrite Q1. intros [= <-] Hv. rewrite (root_path_text s v Hv). now apply P.
  - intros Hn. rewrite Q4, (rel_nonempty_no_nul s Hn). intros [= <-] Hv.
    rewrite (L_relative_path_eq s v Hv). now apply P.
  - rewrite Q5. intros [= <-] Hv. apply P. unfold std_has_parent_path.
    now rewrite <- (L_parent_path_equiv s v Hv), path_is_empty_as_path.
  - rewrite Q6. intros [= <-] Hv. rewrite (L_filename_eq s v Hv). now apply P.
  - rewrite Q7. intros [= <-] Hv. rewrite (L_stem_eq s v Hv). now apply P.
  - rewrite Q8. intros [= <-] Hv. rewrite (L_extension_eq s v Hv). now apply P.
Qed.
