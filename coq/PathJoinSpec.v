(* C12 — abstract spec of the C++17 path operations `operator/`, `lexically_relative` and
   `make_preferred` on POSIX (generic format, no root names), written from [fs.path.generic],
   [fs.path.append], [fs.path.gen] (with LWG 3096).  Definitions only; nothing here mentions zix.

   A path string is a list of byte values (non-zero; '/' = 47, '.' = 46). *)
From Coq Require Import ZArith List Bool.
Import ListNotations.
Local Open Scope Z_scope.

Definition str := list Z.

Definition sepc : Z := 47.
Definition dotc : Z := 46.
Definition is_sep (c : Z) : bool := c =? sepc.

Fixpoint str_eqb (a b : str) : bool :=
  match a, b with
  | [], [] => true
  | x :: a', y :: b' => (x =? y) && str_eqb a' b'
  | _, _ => false
  end.

Definition is_nil {A} (l : list A) : bool := match l with [] => true | _ => false end.

(* ---- decomposition: root directory flag and the elements after it *)

Definition has_root (s : str) : bool :=
  match s with c :: _ => is_sep c | [] => false end.

Fixpoint drop_seps (s : str) : str :=
  match s with
  | c :: t => if is_sep c then drop_seps t else s
  | [] => []
  end.

(* split a relative part on maximal separator runs; a trailing separator yields a final
   empty element.  cur = the element being read, insep = the previous byte was a separator *)
Fixpoint split_aux (s : str) (cur : str) (insep : bool) : list str :=
  match s with
  | [] => [cur]
  | c :: t =>
      if is_sep c then (if insep then split_aux t [] true else cur :: split_aux t [] true)
      else split_aux t (cur ++ [c]) false
  end.

Definition elements (s : str) : list str :=
  match drop_seps s with
  | [] => []
  | rel => split_aux rel [] false
  end.

(* a path value: root-directory flag and elements; `operator==` compares these *)
Definition path_of (s : str) : bool * list str := (has_root s, elements s).
Definition path_equiv (p q : str) : Prop := path_of p = path_of q.

(* ---- operator/ ([fs.path.append], POSIX: no root names, absolute = has root directory) *)

Definition has_filename (s : str) : bool := negb (is_nil (last (elements s) [])).

Definition std_join (a b : str) : str :=
  if has_root b || is_nil a then b
  else a ++ (if has_filename a then [sepc] else []) ++ b.

(* NULL stands for the empty path *)
Definition opt_str (o : option str) : str := match o with Some s => s | None => [] end.
Definition std_join_opt (a b : option str) : str := std_join (opt_str a) (opt_str b).

(* ---- lexically_relative ([fs.path.gen] 4, LWG 3096); None = the empty path.
   The result is a relative path given by its elements. *)

Definition dot_elem : str := [dotc].
Definition dotdot_elem : str := [dotc; dotc].

Fixpoint strip_common (A B : list str) : list str * list str :=
  match A, B with
  | a :: A', b :: B' => if str_eqb a b then strip_common A' B' else (A, B)
  | _, _ => (A, B)
  end.

(* names minus dot-dots; empty elements and "." count nothing *)
Fixpoint count_n (B : list str) : Z :=
  match B with
  | [] => 0
  | e :: B' =>
      (if str_eqb e dotdot_elem then -1
       else if is_nil e || str_eqb e dot_elem then 0 else 1) + count_n B'
  end.

Definition std_relative (p base : str) : option (list str) :=
  if negb (Bool.eqb (has_root p) (has_root base)) then None
  else
    let '(ra, rb) := strip_common (elements p) (elements base) in
    let n := count_n rb in
    if n <? 0 then None
    else if (n =? 0) && (match ra with [] => true | e :: _ => is_nil e end) then Some [dot_elem]
    else Some (repeat dotdot_elem (Z.to_nat n) ++ ra).

(* ---- make_preferred on POSIX *)
Definition std_preferred (s : str) : str := s.

(* agreement of an implementation result (None = NULL) with std_relative, as paths *)
Definition relative_agrees (r : option str) (p base : str) : Prop :=
  match r, std_relative p base with
  | None, None => True
  | Some t, Some es => path_of t = (false, es)
  | _, _ => False
  end.

Fixpoint list_str_eqb (a b : list str) : bool :=
  match a, b with
  | [], [] => true
  | x :: a', y :: b' => str_eqb x y && list_str_eqb a' b'
  | _, _ => false
  end.

Definition relative_agrees_b (r : option str) (p base : str) : bool :=
  match r, std_relative p base with
  | None, None => true
  | Some t, Some es => negb (has_root t) && list_str_eqb (elements t) es
  | _, _ => false
  end.
