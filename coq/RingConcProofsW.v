(* C04: every micro-step of the writer preserves the invariant *)
From Coq Require Import ZArith List Bool Arith Lia.
From Zix Require Import RingConcModel RingConcProofsA RingConcProofsB.
Import ListNotations.
Local Open Scope Z_scope.

Ltac open_inv H :=
  destruct H as [iWH iRH ivr ivw irc iwc itxr iroom iwlog ibuf iwep iwepl irepl irlast irace iwpc iwtx irpc ires];
  unfold wpc_ok, wtx_ok, rpc_ok in *; unfold committed in *; unfold Rc, Wc in *; proj.
Ltac split_inv :=
  constructor; unfold wpc_ok, wtx_ok, rpc_ok; unfold committed; unfold Rc, Wc; proj; try assumption; try exact I.

Section Writer.
  Variable c : cfg.
  Hypothesis Hk : 0 <= ck c <= 31.
  Hypothesis Hrr : r_release c = true.
  Let N := rsize c.

  (* -------- acquire load of read_head (first access of write / begin / write_space) *)
  Lemma w_acq_inv : forall s k call cs,
    Inv c s -> wpcs (sw s) = WIdle ->
    let j := acq_pick (RH (sm s)) (vw (sw s)) k in
    Inv c (mkState (sm s)
             (mkW (WOwn call (hval (RH (sm s)) j) (hcnt (RH (sm s)) j)) (wtx (sw s)) (wresl (sw s)) j cs 1%nat)
             (sr s) (sg s) (EvAcq HR (hval (RH (sm s)) j) :: trace s)).
  Proof.
    intros s k call cs H Hpc j. open_inv H. rewrite Hpc in *.
    pose proof (acq_pick_bounds (RH (sm s)) (vw (sw s)) k ivw) as (J1 & J2). fold j in J1, J2.
    pose proof iRH as (Rl & Rv & Rm).
    split_inv.
    - pose proof (Rm _ _ J1 J2). lia.
    - split; [reflexivity|]. apply Rv. exact J2.
  Qed.

  (* -------- results that change nothing but the control state *)
  Lemma w_finish_inv : forall s tx res cs st tr,
    Inv c s ->
    (match tx with Some (r, w) => r = gtxr (sg s) mod N /\ w = gT (sg s) mod N | None => True end) ->
    Inv c (mkState (sm s) (mkW WIdle tx (res :: wresl (sw s)) (vw (sw s)) cs st) (sr s) (sg s) tr).
  Proof.
    intros s tx res cs st tr H Htx. open_inv H. split_inv.
  Qed.

  (* the transaction recorded in the state, outside a copy *)
  Lemma wtx_idle : forall s, Inv c s -> (forall f w z i t, wpcs (sw s) <> WCopy f w z i t) ->
    match wtx (sw s) with Some (r, w) => r = gtxr (sg s) mod N /\ w = gT (sg s) mod N | None => True end.
  Proof.
    intros s H Hn. open_inv H. destruct (wtx (sw s)) as [[r w]|]; [|exact I].
    destruct iwtx as (A & B). split; [exact A|].
    destruct (wpcs (sw s)); try exact B. exfalso. eapply Hn. reflexivity.
  Qed.

  (* -------- release store of write_head (commit, or the end of zix_ring_write) *)
  Lemma w_store_inv : forall s v res cs st tr,
    Inv c s -> v = gT (sg s) mod N ->
    (forall f w z i t, wpcs (sw s) <> WCopy f w z i t) ->
    Inv c (mkState (mkMem (WH (sm s) ++ [(v, gT (sg s))]) (RH (sm s)) (buf (sm s)) (wep (sm s)) (rep (sm s)) (race (sm s)))
                   (mkW WIdle None (res :: wresl (sw s)) (vw (sw s)) cs st) (sr s) (sg s) tr).
  Proof.
    intros s v res cs st tr H Hv Hn. pose proof (inv_counts c s H) as Cn. pose proof (committed_length c s H) as CL.
    open_inv H.
    assert (Hext : firstn (Z.to_nat (gT (sg s))) (wlog (sg s)) =
                   firstn (Z.to_nat (lastc (WH (sm s)))) (wlog (sg s)) ++
                   skipn (Z.to_nat (lastc (WH (sm s)))) (firstn (Z.to_nat (gT (sg s))) (wlog (sg s)))).
    { rewrite <- (firstn_skipn (Z.to_nat (lastc (WH (sm s)))) (firstn (Z.to_nat (gT (sg s))) (wlog (sg s)))) at 1.
      rewrite firstn_firstn. replace (Init.Nat.min (Z.to_nat (lastc (WH (sm s)))) (Z.to_nat (gT (sg s))))
        with (Z.to_nat (lastc (WH (sm s)))) by lia. reflexivity. }
    split_inv; rewrite ?lastc_snoc, ?app_length; cbn [length].
    - apply hist_ok_snoc; assumption.
    - lia.
    - rewrite hcnt_app_l by assumption. exact irc.
    - lia.
    - intros b i Hb Hi Hlt.
      destruct (Nat.eq_dec i (length (WH (sm s)))) as [->|Hne].
      + apply iwepl.
      + rewrite hcnt_app_l in Hlt by lia. apply iwep; try assumption. lia.
    - intros cell. pose proof (iwepl cell). lia.
    - intros cell Hc. destruct (irlast cell Hc) as (A & B & C). split; [exact A|]. split; [lia|exact C].
    - (* reader control state: slices of the committed prefix are stable *)
      destruct (rpcs (sr s)) as [|call w wc|adv r size i acc|res0 v0 n0]; try exact irpc.
      + rewrite hcnt_app_l by assumption. exact irpc.
      + rewrite hcnt_app_l by assumption. destruct irpc as (A & B & C & D).
        split; [exact A|]. split; [exact B|]. split; [exact C|].
        rewrite Hext. rewrite slice_app_l; [exact D | lia | lia |]. unfold Rc, Wc, committed in *. lia.
      + rewrite hcnt_app_l by assumption. destruct irpc as (A & B & C & D).
        split; [exact A|]. split; [exact B|]. split; [exact C|].
        destruct res0; try exact D. destruct D as (D1 & D2). split; [exact D1|].
        rewrite Hext. rewrite slice_app_l; [exact D2 | lia | lia |]. unfold Rc, Wc, committed in *. lia.
    - rewrite Hext. apply res_ok_ext. exact ires.
  Qed.

  (* -------- replacing the writer's control state / transaction / logs *)
  Lemma inv_set_w : forall s pc' tx' res' cs' st' tr',
    Inv c s ->
    let s' := mkState (sm s) (mkW pc' tx' res' (vw (sw s)) cs' st') (sr s) (sg s) tr' in
    wpc_ok c s' -> wtx_ok c s' -> Inv c s'.
  Proof.
    intros s pc' tx' res' cs' st' tr' H s' Hp Ht. subst s'. open_inv H. split_inv.
  Qed.

  (* -------- plain load of write_head at the start of a transaction: the ghost transaction is reset *)
  Lemma w_reset_inv : forall s call r rc cs st tr,
    Inv c s -> wpcs (sw s) = WOwn call r rc ->
    Inv c (mkState (sm s) (mkW WIdle None (wresl (sw s)) (vw (sw s)) cs st) (sr s)
             (mkG (lastc (WH (sm s))) rc (firstn (Z.to_nat (lastc (WH (sm s)))) (wlog (sg s))) (rlast (sg s))) tr).
  Proof.
    intros s call r rc cs st tr H Hpc. pose proof (inv_counts c s H) as Cn.
    open_inv H. rewrite Hpc in *. destruct iwpc as (Erc & Er). subst rc.
    split_inv.
    - lia.
    - lia.
    - lia.
    - rewrite firstn_length. lia.
    - intros b Hb. rewrite nth_firstn_lt by lia. apply ibuf. lia.
    - intros b i Hb. apply iwep. lia.
    - rewrite firstn_firstn. rewrite Nat.min_id. exact irpc.
    - rewrite firstn_firstn. rewrite Nat.min_id. exact ires.
  Qed.

  (* -------- one byte of the writer's memcpy *)
  Lemma w_byte_inv : forall s fin w size i b rest cs st tr,
    Inv c s -> wpcs (sw s) = WCopy fin w size i (b :: rest) ->
    let cell := wcell c w size i in
    Inv c (mkState (mkMem (WH (sm s)) (RH (sm s)) (upd (buf (sm s)) cell b)
                          (upd (wep (sm s)) cell (length (WH (sm s)))) (rep (sm s))
                          (race (sm s) || negb (Nat.leb (rep (sm s) cell) (if r_release c then vw (sw s) else O))))
                   (mkW WIdle None (wresl (sw s)) (vw (sw s)) cs st) (sr s)
                   (mkG (gT (sg s) + 1) (gtxr (sg s)) (wlog (sg s) ++ [b]) (rlast (sg s))) tr)
    /\ cell = gT (sg s) mod N.
  Proof.
    intros s fin w size i b rest cs st tr H Hpc cell. pose proof (inv_counts c s H) as Cn.
    pose proof (N_pos c Hk) as NP. fold N in NP.
    open_inv H. rewrite Hpc in *.
    destruct iwpc as (r & w0 & Etx & Hi & Hlen & _ & Ew & Hroom & Hlow).
    cbn [length] in Hlen.
    assert (Hsz : size < N) by (fold N in Hroom; lia).
    assert (Ecell : cell = gT (sg s) mod N).
    { unfold cell. rewrite Ew. fold N. unfold N. rewrite wcell_eq; [|exact Hk|lia|exact Hsz].
      f_equal. lia. }
    split; [|exact Ecell].
    assert (Hother : forall b0, lastc (RH (sm s)) <= b0 < gT (sg s) -> b0 mod N <> cell).
    { intros b0 Hb0 E. rewrite Ecell in E. apply (mod_inj_window c Hk) in E; [lia|]. fold N. fold N in Hroom. lia. }
    fold N in Hroom, iroom, ibuf, iwep, irlast.
    split_inv; fold N.
    - lia.
    - lia.
    - rewrite app_length. cbn [length]. lia.
    - intros b0 Hb0. unfold upd. destruct (Z.eq_dec b0 (gT (sg s))) as [->|Hne].
      + fold N in Ecell. rewrite <- Ecell. rewrite Z.eqb_refl.
        rewrite app_nth2 by lia. replace (Z.to_nat (gT (sg s)) - length (wlog (sg s)))%nat with O by lia. reflexivity.
      + assert (Hr : lastc (RH (sm s)) <= b0 < gT (sg s)) by lia.
        pose proof (Hother b0 Hr) as Hc. apply Z.eqb_neq in Hc. rewrite Hc.
        rewrite app_nth1 by lia. apply ibuf. exact Hr.
    - intros b0 i0 Hb0 Hi0 Hlt. unfold upd. destruct (Z.eq_dec b0 (gT (sg s))) as [->|Hne].
      + exfalso. pose proof (hist_le_last (rsize c) _ i0 iWH Hi0). lia.
      + assert (Hr : lastc (RH (sm s)) <= b0 < gT (sg s)) by lia.
        pose proof (Hother b0 Hr) as Hc. apply Z.eqb_neq in Hc. rewrite Hc. apply iwep; assumption.
    - intros cell0. unfold upd. destruct (cell0 =? cell); [lia | apply iwepl].
    - rewrite irace. cbn [orb]. rewrite Hrr.
      assert (0 <= cell < N) as Hc by (rewrite Ecell; apply Z.mod_pos_bound; lia).
      destruct (irlast cell Hc) as (A & B & C).
      assert (rlast (sg s) cell <= gT (sg s) - N) as Lap.
      { apply (mod_lap c Hk); [fold N; rewrite A; exact Ecell | lia]. }
      assert ((rep (sm s) cell <= vw (sw s))%nat) as Hle by (apply C; [exact ivw | lia]).
      apply Nat.leb_le in Hle. rewrite Hle. reflexivity.
    - rewrite firstn_app_le by lia. exact irpc.
    - rewrite firstn_app_le by lia. exact ires.
  Qed.

  (* -------- continuing or finishing a writer copy *)
  Lemma wcopy_next_inv : forall s fin r w size i todo wl0 tr,
    Inv c s -> vw wl0 = vw (sw s) -> (exists w0, wtx wl0 = Some (r, w0)) ->
    r = gtxr (sg s) mod N -> 0 <= i -> Z.of_nat (length todo) = size - i ->
    w = (gT (sg s) - i) mod N -> gT (sg s) - i + size - gtxr (sg s) <= N - 1 ->
    gtxr (sg s) <= gT (sg s) - i ->
    Inv c (mkState (sm s) (wcopy_next c fin r w size i todo wl0) (sr s) (sg s) tr).
  Proof.
    intros s fin r w size i todo wl0 tr H Hvw (w0 & Htx) Er Hi Hlen Ew Hroom Hlow.
    destruct wl0 as [pc0 tx0 res0 vw0 cs0 st0]. cbn [vw wtx] in Hvw, Htx. subst vw0 tx0.
    unfold wcopy_next, set_wpc, w_finish. cbn [wtx wresl vw wcalls wsteps].
    destruct todo as [|z todo].
    - cbn [length] in Hlen. assert (size = i) by lia. subst size.
      assert (Enew : wnew c w i = gT (sg s) mod N).
      { rewrite Ew. unfold N. rewrite wnew_eq; [f_equal; lia | exact Hk | fold N; lia]. }
      destruct fin; apply inv_set_w; try exact H; unfold wpc_ok, wtx_ok; proj; try exact I;
        try (split; [exact Er | exact Enew]); exact Enew.
    - apply inv_set_w; [exact H| |]; unfold wpc_ok, wtx_ok; proj.
      + exists r, w0. repeat split; try assumption. discriminate.
      + split; [exact Er | exact I].
  Qed.

  (* -------- all micro-steps of the writer *)
  Theorem wstep_inv : forall p s k, Inv c s -> Inv c (wstep c p s k).
  Proof.
    intros p s k H. pose proof (inv_counts c s H) as Cn. pose proof (inv_heads c s H) as (_ & EW).
    pose proof (N_pos c Hk) as NP. fold N in NP.
    unfold wstep.
    destruct (wpcs (sw s)) as [|call r rc|fin w size i todo|res v] eqn:Epc.
    - (* idle: dispatch the next call *)
      assert (Hnc : forall f w z i t, wpcs (sw s) <> WCopy f w z i t) by (rewrite Epc; discriminate).
      pose proof (wtx_idle s H Hnc) as Htx.
      destruct (p (wresl (sw s))) as [call|]; [|exact H].
      destruct call as [bs| |bs| |]; proj.
      + apply w_acq_inv; assumption.
      + apply w_acq_inv; assumption.
      + destruct (wtx (sw s)) as [[r w]|] eqn:Etx.
        * destruct Htx as (Er & Ew).
          destruct (write_space c r w <? wsize bs) eqn:Et.
          -- unfold w_finish; proj. apply w_finish_inv; [exact H | split; assumption].
          -- apply Z.ltb_ge in Et. rewrite Er, Ew in Et. unfold N in Et.
             rewrite write_space_window in Et; [|exact Hk|fold N; destruct H; lia].
             fold N in Et.
             apply wcopy_next_inv; proj; try assumption; try lia.
             ++ exists w. reflexivity.
             ++ unfold wsize. lia.
             ++ rewrite Ew. f_equal. lia.
        * unfold w_finish; proj. apply w_finish_inv; [exact H | exact I].
      + destruct (wtx (sw s)) as [[r w]|] eqn:Etx.
        * destruct Htx as (Er & Ew). unfold w_finish; proj. apply w_store_inv; assumption.
        * unfold w_finish; proj. apply w_finish_inv; [exact H | exact I].
      + apply w_acq_inv; assumption.
    - (* plain load of the own head *)
      assert (Hnc : forall f w z i t, wpcs (sw s) <> WCopy f w z i t) by (rewrite Epc; discriminate).
      pose proof (wtx_idle s H Hnc) as Htx.
      pose proof (w_reset_inv s call r rc (wcalls (sw s)) (wsteps (sw s)) (trace s) H Epc) as H1.
      assert (Hpc : rc = hcnt (RH (sm s)) (vw (sw s)) /\ r = rc mod N).
      { destruct H. unfold wpc_ok in i_wpc. rewrite Epc in i_wpc. exact i_wpc. }
      destruct Hpc as (Erc & Er).
      destruct call as [bs| |bs| |]; unfold w_finish; proj.
      + destruct (write_space c r (lastv (WH (sm s))) <? wsize bs) eqn:Et.
        * apply (inv_set_w _ WIdle None (WrWrote 0 :: wresl (sw s)) (wcalls (sw s)) (S (wsteps (sw s)))
                   (EvOwn HW (lastv (WH (sm s))) :: trace s) H1); unfold wpc_ok, wtx_ok; proj; exact I.
        * apply Z.ltb_ge in Et. rewrite Er, EW in Et. unfold N in Et.
          rewrite write_space_window in Et; [|exact Hk|fold N; destruct H; unfold Wc, Rc in *; lia].
          fold N in Et.
          apply (wcopy_next_inv _ true r (lastv (WH (sm s))) (wsize bs) 0 bs _ _ H1); proj; try assumption; try lia.
          -- eexists. reflexivity.
          -- unfold wsize. lia.
          -- rewrite EW. f_equal. unfold Wc. lia.
          -- unfold Wc in *. lia.
          -- unfold Wc, Rc in *. lia.
      + apply (inv_set_w _ WIdle (Some (r, lastv (WH (sm s)))) (WrBegun :: wresl (sw s)) (wcalls (sw s))
                 (S (wsteps (sw s))) (EvOwn HW (lastv (WH (sm s))) :: trace s) H1); unfold wpc_ok, wtx_ok; proj.
        * exact I.
        * split; [exact Er | exact EW].
      + apply w_finish_inv; assumption.
      + apply w_finish_inv; assumption.
      + apply w_finish_inv; assumption.
    - (* one byte of the copy *)
      destruct todo as [|b rest].
      + unfold w_finish; proj. apply w_finish_inv; [exact H | exact I].
      + destruct (wtx (sw s)) as [[r w0]|] eqn:Etx.
        * pose proof (w_byte_inv s fin w size i b rest (wcalls (sw s)) (wsteps (sw s)) (trace s) H Epc) as (H1 & Ecell).
          assert (Hpc : exists r' w0', wtx (sw s) = Some (r', w0') /\ 0 <= i /\
                    Z.of_nat (length (b :: rest)) = size - i /\ (b :: rest) <> [] /\
                    w = (gT (sg s) - i) mod N /\ gT (sg s) - i + size - gtxr (sg s) <= N - 1 /\
                    gtxr (sg s) <= gT (sg s) - i).
          { destruct H. unfold wpc_ok in i_wpc. rewrite Epc in i_wpc. exact i_wpc. }
          destruct Hpc as (r' & w0' & Etx' & Hi & Hlen & _ & Ew & Hroom & Hlow).
          rewrite Etx in Etx'. injection Etx' as <- <-. cbn [length] in Hlen.
          assert (Er : r = gtxr (sg s) mod N).
          { destruct H. unfold wtx_ok in i_wtx. rewrite Etx in i_wtx. apply i_wtx. }
          apply (wcopy_next_inv _ fin r w size (i + 1) rest (sw s) _ H1); proj; try assumption; try lia.
          -- exists w0. exact Etx.
          -- rewrite Ew. f_equal. lia.
        * unfold w_finish; proj. apply w_finish_inv; [exact H | exact I].
    - (* the store that ends zix_ring_write *)
      unfold w_finish; proj. apply w_store_inv; try assumption.
      + destruct H. unfold wpc_ok in i_wpc. rewrite Epc in i_wpc. exact i_wpc.
      + rewrite Epc. discriminate.
  Qed.
End Writer.
