(* C16: the reference expander (spec).  Strings are lists of byte values (no NUL inside);
   an environment is `None` (null environ) or the list of raw "NAME=value" entries.
   Nothing here mentions how zix scans. *)
From Coq Require Import ZArith List Bool.
Import ListNotations.
Local Open Scope Z_scope.

Definition DOLLAR : Z := 36.
Definition TILDE : Z := 126.
Definition SLASH : Z := 47.
Definition COLON : Z := 58.
Definition EQUALS : Z := 61.
Definition HOME : list Z := [72; 79; 77; 69].

(* A-Z, 0-9, _ *)
Definition is_name_char (c : Z) : bool :=
  ((48 <=? c) && (c <=? 57)) || ((65 <=? c) && (c <=? 90)) || (c =? 95).

(* a neighbour of '~' that makes it stand alone: string end (None), '/' or ':' *)
Definition is_bound (o : option Z) : bool :=
  match o with None => true | Some c => (c =? SLASH) || (c =? COLON) end.

Definition env := option (list (list Z)).

(* "NAME=value" -> (NAME, value); an entry without '=' defines nothing *)
Fixpoint split_eq (e : list Z) : option (list Z * list Z) :=
  match e with
  | [] => None
  | c :: r => if c =? EQUALS then Some ([], r)
              else match split_eq r with Some (n, v) => Some (c :: n, v) | None => None end
  end.

(* value of the first entry whose name is `name` *)
Fixpoint lookup_entries (es : list (list Z)) (name : list Z) : option (list Z) :=
  match es with
  | [] => None
  | e :: r => match split_eq e with
              | Some (n, v) => if list_eq_dec Z.eq_dec n name then Some v else lookup_entries r name
              | None => lookup_entries r name
              end
  end.

Definition lookup (e : env) (name : list Z) : option (list Z) :=
  match e with None => None | Some es => lookup_entries es name end.

(* longest run of name characters at the front *)
Fixpoint take_name (l : list Z) : list Z :=
  match l with c :: r => if is_name_char c then c :: take_name r else [] | [] => [] end.

(* `skip` = how many of the next bytes belong to the reference just handled; `prev` = the byte
   before the current one (None at the string start) *)
Fixpoint expand (e : env) (skip : nat) (prev : option Z) (l : list Z) : list Z :=
  match l with
  | [] => []
  | c :: r =>
    match skip with
    | S k => expand e k (Some c) r
    | O =>
      let name := take_name r in
      if (c =? DOLLAR) && negb (match name with [] => true | _ => false end) then
        (match lookup e name with Some v => v | None => c :: name end)
          ++ expand e (length name) (Some c) r
      else if (c =? TILDE) && is_bound prev && is_bound (hd_error r) then
        (match lookup e HOME with Some v => v | None => [c] end) ++ expand e 0 (Some c) r
      else c :: expand e 0 (Some c) r
    end
  end.

(* the class the property excludes: some '~' directly preceded by a name character *)
Fixpoint glued (prev : option Z) (l : list Z) : bool :=
  match l with
  | [] => false
  | c :: r => ((c =? TILDE) && match prev with Some p => is_name_char p | None => false end)
              || glued (Some c) r
  end.

(* None = unconstrained *)
Definition spec_expand (e : env) (l : list Z) : option (list Z) :=
  if glued None l then None else Some (expand e 0 None l).
