(* C09: a consequence of acceptance by the specification: the live blocks are pairwise apart at
   every point of every accepted trace (hence of every history of the model). *)
From Coq Require Import ZArith List Bool Lia ZifyBool.
From Zix Require Import BumpModel BumpSpec BumpProofs BumpProofsSafe BumpProofsMore.
Import ListNotations.
Local Open Scope Z_scope.

(* ---------------------------------------------------------------- a spec-level consequence:
   in every state reached through accepted steps, the live blocks are pairwise apart *)
Definition blk_apart (b1 b2 : block) : Prop :=
  apart (b_off b1) (Z.max (b_size b1) 1) (b_off b2) (Z.max (b_size b2) 1).

Definition SpecInv (id : nat) (sp : spec_state) : Prop :=
  Forall (fun b => (b_id b < id)%nat) (sp_live sp) /\
  NoDup (map b_id (sp_live sp)) /\
  ForallOrdPairs blk_apart (sp_live sp).

Lemma blk_apart_sym b1 b2 : blk_apart b1 b2 -> blk_apart b2 b1.
Proof. unfold blk_apart, apart. lia. Qed.

Lemma SpecInv_weaken id sp : SpecInv id sp -> SpecInv (S id) sp.
Proof.
  intros (H1 & H2 & H3). repeat split; auto.
  eapply Forall_impl; [|exact H1]. cbn. intros; lia.
Qed.

Lemma remove_blk_map_incl id L x : In x (map b_id (remove_blk id L)) -> In x (map b_id L).
Proof.
  intros H. apply in_map_iff in H as (b & <- & Hb). apply In_remove_blk in Hb as [Hb _].
  apply in_map. exact Hb.
Qed.

Lemma NoDup_remove_blk id L : NoDup (map b_id L) -> NoDup (map b_id (remove_blk id L)).
Proof.
  induction L as [|b L IH]; cbn [remove_blk map]; intros H; [constructor|].
  inversion H as [|? ? Hn Hd]; subst.
  destruct (Nat.eqb (b_id b) id); [auto|].
  cbn [map]. constructor; [|auto]. intros Hin. apply Hn. eapply remove_blk_map_incl; eauto.
Qed.

Lemma FOP_remove_blk id L : ForallOrdPairs blk_apart L -> ForallOrdPairs blk_apart (remove_blk id L).
Proof.
  induction 1 as [|b L HF HP IH]; cbn [remove_blk]; [constructor|].
  destruct (Nat.eqb (b_id b) id); [exact IH|].
  constructor; [|exact IH]. apply Forall_remove_blk. exact HF.
Qed.

Lemma resize_blk_ids i n L : map b_id (resize_blk i n L) = map b_id L.
Proof.
  unfold resize_blk. rewrite map_map. apply map_ext. intros b. destruct (Nat.eqb (b_id b) i); reflexivity.
Qed.

(* with distinct ids, the block found by id is the only one with that id *)
Lemma find_blk_unique i L b b1 :
  NoDup (map b_id L) -> find_blk i L = Some b -> In b1 L -> b_id b1 = i -> b1 = b.
Proof.
  induction L as [|x L IH]; cbn [find_blk map]; intros Hnd Hf Hin Hid; [destruct Hin|].
  inversion Hnd as [|? ? Hn Hd]; subst.
  destruct (Nat.eqb (b_id x) (b_id b1)) eqn:E.
  - injection Hf as <-. destruct Hin as [-> | Hin]; [reflexivity|].
    exfalso. apply Hn. apply Nat.eqb_eq in E. rewrite E. apply in_map. exact Hin.
  - destruct Hin as [-> | Hin]; [rewrite Nat.eqb_refl in E; discriminate|]. eauto.
Qed.

Lemma FOP_resize i n L b :
  NoDup (map b_id L) -> find_blk i L = Some b ->
  (forall b', In b' L -> b_id b' <> i -> apart (b_off b) (Z.max n 1) (b_off b') (Z.max (b_size b') 1)) ->
  ForallOrdPairs blk_apart L -> ForallOrdPairs blk_apart (resize_blk i n L).
Proof.
  intros Hnd Hf Hap HP.
  assert (G : forall L', (forall x, In x L' -> In x L) -> NoDup (map b_id L') ->
              ForallOrdPairs blk_apart L' -> ForallOrdPairs blk_apart (resize_blk i n L')).
  { induction L' as [|x L' IH]; intros Hsub Hnd' HP'; cbn [resize_blk map]; [constructor|].
    inversion HP' as [|? ? HF HP'']; subst. inversion Hnd' as [|? ? Hn Hd]; subst.
    constructor.
    - apply Forall_forall. intros y' Hy'. apply in_map_iff in Hy' as (y & <- & Hy).
      rewrite Forall_forall in HF. specialize (HF y Hy).
      assert (Hxy : b_id x <> b_id y).
      { intros E. apply Hn. rewrite E. apply in_map. exact Hy. }
      destruct (Nat.eqb (b_id x) i) eqn:Ex; destruct (Nat.eqb (b_id y) i) eqn:Ey.
      + apply Nat.eqb_eq in Ex, Ey. congruence.
      + apply Nat.eqb_eq in Ex. apply Nat.eqb_neq in Ey.
        assert (x = b) by (apply (find_blk_unique i L b x Hnd Hf); [apply Hsub; now left | exact Ex]). subst x.
        unfold blk_apart; cbn [b_off b_size]. apply Hap; [apply Hsub; now right | exact Ey].
      + apply Nat.eqb_neq in Ex. apply Nat.eqb_eq in Ey.
        assert (y = b) by (apply (find_blk_unique i L b y Hnd Hf); [apply Hsub; now right | exact Ey]). subst y.
        apply blk_apart_sym. unfold blk_apart; cbn [b_off b_size]. apply Hap; [apply Hsub; now left | exact Ex].
      + exact HF.
    - apply IH; auto. intros z Hz. apply Hsub. now right. }
  apply G; auto.
Qed.

Lemma spec_alloc_inv A C id sp al n o sp' :
  SpecInv id sp -> spec_alloc A C id sp al n o = Some sp' -> SpecInv (S id) sp'.
Proof.
  intros I H. destruct (spec_alloc_only _ _ _ _ _ _ _ _ H) as [[off ->] | ->].
  - destruct (spec_alloc_ptr _ _ _ _ _ _ _ _ H) as (_ & _ & _ & _ & Hap & _ & El & _ & _).
    destruct I as (H1 & H2 & H3). unfold SpecInv. rewrite El. cbn [map b_id]. repeat split.
    + constructor; [cbn; lia|]. eapply Forall_impl; [|exact H1]. cbn. intros; lia.
    + constructor; [|exact H2]. intros Hin. apply in_map_iff in Hin as (b & Eb & Hb).
      rewrite Forall_forall in H1. specialize (H1 b Hb). cbn in H1. lia.
    + constructor; [|exact H3]. apply Forall_forall. intros b Hb. unfold blk_apart; cbn [b_off b_size].
      apply Hap, Hb.
  - destruct (spec_alloc_null _ _ _ _ _ _ _ H) as [_ ->]. apply SpecInv_weaken, I.
Qed.

Lemma spec_free_inv id sp p o sp' : SpecInv id sp -> spec_free sp p o = Some sp' -> SpecInv (S id) sp'.
Proof.
  intros I. unfold spec_free. destruct p as [|i].
  - destruct o; try discriminate. intros [= <-]. apply SpecInv_weaken, I.
  - destruct (find_blk i (sp_live sp)) as [b|].
    + destruct o; try discriminate. intros [= <-]. destruct I as (H1 & H2 & H3).
      unfold SpecInv; cbn [sp_live]. repeat split.
      * apply Forall_remove_blk. eapply Forall_impl; [|exact H1]. cbn. intros; lia.
      * apply NoDup_remove_blk, H2.
      * apply FOP_remove_blk, H3.
    + destruct o; try discriminate. intros [= <-]. apply SpecInv_weaken, I.
Qed.

Lemma spec_step_inv A C id sp r o z sp' :
  SpecInv id sp -> spec_step A C id sp r o z = Some sp' -> SpecInv (S id) sp'.
Proof.
  intros I. destruct r as [n | a b | [|i] n | p | al n | p]; cbn [spec_step].
  - apply spec_alloc_inv, I.
  - destruct (spec_alloc A C id sp 8 (a * b) o) as [sp1|] eqn:E; [|discriminate].
    intros H. assert (sp' = sp1) as ->.
    { destruct o; try (injection H as <-; reflexivity). destruct z; [injection H as <-; reflexivity | discriminate]. }
    eapply spec_alloc_inv; eauto.
  - destruct o; try discriminate. intros [= <-]. apply SpecInv_weaken, I.
  - intros H. destruct o as [off| | | |].
    + destruct (spec_realloc_ptr A C id sp i n off z sp' H) as (b & Ef & _ & -> & _ & Hap & El & _).
      destruct I as (H1 & H2 & H3). unfold SpecInv. rewrite El, resize_blk_ids. repeat split.
      * unfold resize_blk. apply Forall_forall. intros x Hx. apply in_map_iff in Hx as (y & <- & Hy).
        rewrite Forall_forall in H1. specialize (H1 y Hy). cbn in H1.
        destruct (Nat.eqb (b_id y) i); cbn [b_id]; lia.
      * exact H2.
      * eapply FOP_resize; eauto.
    + destruct (find_blk i (sp_live sp)) as [b|] eqn:Ef; [|discriminate].
      destruct (spec_realloc_null A C id sp i n z sp' b Ef) as [_ ->]; [cbn [spec_step]; rewrite Ef; exact H|]. apply SpecInv_weaken, I.
    + destruct (find_blk i (sp_live sp)); discriminate.
    + destruct (find_blk i (sp_live sp)); discriminate.
    + destruct (find_blk i (sp_live sp)); [discriminate|]. injection H as <-. apply SpecInv_weaken, I.
  - apply spec_free_inv, I.
  - apply spec_alloc_inv, I.
  - apply spec_free_inv, I.
Qed.

(* the state the checker is in after an accepted trace (None: rejected or preconditions left) *)
Fixpoint spec_after (A C : Z) (id : nat) (sp : spec_state) (tr : list (request * resp * bool)) : option spec_state :=
  match tr with
  | [] => Some sp
  | (r, o, z) :: tr' =>
      if req_ok r then
        match spec_step A C id sp r o z with
        | Some sp' => spec_after A C (S id) sp' tr'
        | None => None
        end
      else None
  end.

Lemma spec_after_inv A C tr : forall id sp sp', SpecInv id sp -> spec_after A C id sp tr = Some sp' ->
  ForallOrdPairs blk_apart (sp_live sp').
Proof.
  induction tr as [|[[r o] z] tr IH]; intros id sp sp' I; cbn [spec_after].
  - intros [= <-]. apply I.
  - destruct (req_ok r); [|discriminate].
    destruct (spec_step A C id sp r o z) as [sp1|] eqn:E; [|discriminate].
    apply IH. eapply spec_step_inv; eauto.
Qed.

Lemma spec_live_pairwise_apart A C tr sp' :
  spec_after A C 0 (spec_init A) tr = Some sp' -> ForallOrdPairs blk_apart (sp_live sp').
Proof.
  apply spec_after_inv. unfold SpecInv, spec_init; cbn. repeat split; constructor.
Qed.

Section After.
  Variables A C : Z.
  Hypothesis HA : 0 < A.
  Hypothesis HC : 0 <= C.
  Hypothesis HAC : A + C < W.

  Lemma run_after rs : forall id y sp, Inv A C id y sp -> forallb req_ok rs = true ->
    exists sp', spec_after A C id sp (trace_of (sys_run A C id y rs)) = Some sp'.
  Proof.
    induction rs as [|r rs IH]; intros id y sp I Hok; cbn [sys_run]; [eexists; reflexivity|].
    cbn [forallb] in Hok. apply andb_true_iff in Hok as [Hr Hrs].
    rewrite (inv_dead _ _ _ _ _ I).
    pose proof (step_ok A C HA HC HAC id y sp r I Hr) as Hs. unfold step_good in Hs.
    destruct (sys_step A C id y r) as [[[y' o] z] m'].
    destruct Hs as (sp1 & Hstep & I').
    cbn [trace_of map e_req e_resp e_zero spec_after]. rewrite Hr, Hstep.
    apply (IH (S id) y' sp1 I' Hrs).
  Qed.
End After.

Lemma bump_live_pairwise_apart A C m0 rs :
  0 < A -> 0 <= C -> A + C < W -> forallb req_ok rs = true ->
  exists sp', spec_after A C 0 (spec_init A) (trace_of (bump_run A C m0 rs)) = Some sp' /\
              ForallOrdPairs blk_apart (sp_live sp').
Proof.
  intros HA HC HAC Hok.
  destruct (run_after A C HA HC HAC rs 0%nat (sys_init A m0) (spec_init A) (Inv_init A C m0) Hok) as [sp' H].
  exists sp'. split; [exact H | eapply spec_live_pairwise_apart; exact H].
Qed.
