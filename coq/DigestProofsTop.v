(* C13: lemmas.  Part 4: the property statements, transported from the reference functions to the
   model of digest.c. *)
From Coq Require Import ZArith List Lia Bool ZifyBool ZifyNat Arith.
From Zix Require Import DigestModel DigestSpec DigestProofs DigestProofsRef DigestProofsModel.
Import ListNotations.
Local Open Scope Z_scope.

Lemma Forall_byte_app : forall a b, Forall byte a -> Forall byte b -> Forall byte (a ++ b).
Proof. intros. apply Forall_app. split; assumption. Qed.

Lemma Forall_byte_zeros : forall j, Forall byte (repeat 0 j).
Proof. induction j; cbn; constructor; auto. unfold byte. lia. Qed.

(* ---- purity, address independence, nothing outside the buffer ---- *)

Lemma at64_bytes : forall mem seed buf len, 0 <= len ->
  (forall i, 0 <= i < len -> byte (mem (buf + i))) ->
  digest64_at mem seed buf len = digest64 seed (read mem buf (Z.to_nat len)).
Proof.
  intros mem seed buf len Hl Hb. rewrite digest64_at_ref, digest64_ref; auto.
  apply read_bytes. intros i Hi. apply Hb. lia.
Qed.

Lemma at32_bytes : forall mem seed buf len, 0 <= len -> R32 seed ->
  (forall i, 0 <= i < len -> byte (mem (buf + i))) ->
  digest32_at mem seed buf len = digest32 seed (read mem buf (Z.to_nat len)).
Proof.
  intros mem seed buf len Hl Hs Hb. rewrite digest32_at_ref, digest32_ref; auto.
  apply read_bytes. intros i Hi. apply Hb. lia.
Qed.

Lemma at64_same_bytes : forall mem mem' seed buf buf' len, 0 <= len ->
  (forall i, 0 <= i < len -> byte (mem (buf + i))) ->
  (forall i, 0 <= i < len -> mem' (buf' + i) = mem (buf + i)) ->
  digest64_at mem' seed buf' len = digest64_at mem seed buf len.
Proof.
  intros mem mem' seed buf buf' len Hl Hb He.
  rewrite !at64_bytes; auto.
  - f_equal. unfold read. apply map_ext_in. intros i Hi. apply in_seq in Hi. apply He. lia.
  - intros i Hi. rewrite He by assumption. auto.
Qed.

Lemma at32_same_bytes : forall mem mem' seed buf buf' len, 0 <= len -> R32 seed ->
  (forall i, 0 <= i < len -> byte (mem (buf + i))) ->
  (forall i, 0 <= i < len -> mem' (buf' + i) = mem (buf + i)) ->
  digest32_at mem' seed buf' len = digest32_at mem seed buf len.
Proof.
  intros mem mem' seed buf buf' len Hl Hs Hb He.
  rewrite !at32_bytes; auto.
  - f_equal. unfold read. apply map_ext_in. intros i Hi. apply in_seq in Hi. apply He. lia.
  - intros i Hi. rewrite He by assumption. auto.
Qed.

(* ---- aligned = general ---- *)

Lemma aligned64_general : forall seed ws, Forall R64 ws ->
  digest64_aligned seed ws = digest64 seed (bytes_le 8 ws).
Proof.
  intros. rewrite digest64_aligned_bytes_le, digest64_ref; auto using bytes_le_bytes.
Qed.

Lemma aligned32_general : forall seed ws, R32 seed -> Forall R32 ws ->
  digest32_aligned seed ws = digest32 seed (bytes_le 4 ws).
Proof.
  intros. rewrite digest32_aligned_bytes_le, digest32_ref; auto using bytes_le_bytes.
Qed.

Lemma aligned64_buffer : forall seed bytes nb, Forall byte bytes -> length bytes = (8 * nb)%nat ->
  digest64_aligned seed (words_of_bytes 8 nb bytes) = digest64 seed bytes.
Proof. intros. rewrite digest64_aligned_words, digest64_ref; auto. Qed.

Lemma aligned32_buffer : forall seed bytes nb, R32 seed -> Forall byte bytes -> length bytes = (4 * nb)%nat ->
  digest32_aligned seed (words_of_bytes 4 nb bytes) = digest32 seed bytes.
Proof. intros. rewrite digest32_aligned_words, digest32_ref; auto. Qed.

(* ---- sensitivity ---- *)

Lemma seed_inj64 : forall bytes s s', Forall byte bytes -> R64 s -> R64 s' ->
  digest64 s bytes = digest64 s' bytes -> s = s'.
Proof.
  intros bytes s s' F Hs Hs' H. rewrite !digest64_ref in H by assumption.
  eapply fasthash64_seed_injective; eauto.
Qed.

Lemma seed_inj32 : forall bytes s s', Forall byte bytes -> R32 s -> R32 s' ->
  digest32 s bytes = digest32 s' bytes -> s = s'.
Proof.
  intros bytes s s' F Hs Hs' H. rewrite !digest32_ref in H by assumption.
  eapply murmur3_seed_injective; eauto.
Qed.

Lemma block_inj64 : forall seed pre blk blk' post i,
  R64 seed -> Forall byte pre -> Forall byte post -> Forall byte blk -> Forall byte blk' ->
  length pre = (8 * i)%nat -> length blk = 8%nat -> length blk' = 8%nat ->
  digest64 seed (pre ++ blk ++ post) = digest64 seed (pre ++ blk' ++ post) -> blk = blk'.
Proof.
  intros seed pre blk blk' post i Hs Fp Fq Fb Fb' Lp Lb Lb' H.
  rewrite !digest64_ref in H by auto using Forall_byte_app.
  eapply fasthash64_block_injective; eauto.
Qed.

Lemma block_inj32 : forall seed pre blk blk' post i,
  R32 seed -> Forall byte pre -> Forall byte post -> Forall byte blk -> Forall byte blk' ->
  length pre = (4 * i)%nat -> length blk = 4%nat -> length blk' = 4%nat ->
  digest32 seed (pre ++ blk ++ post) = digest32 seed (pre ++ blk' ++ post) -> blk = blk'.
Proof.
  intros seed pre blk blk' post i Hs Fp Fq Fb Fb' Lp Lb Lb' H.
  rewrite !digest32_ref in H by auto using Forall_byte_app.
  eapply murmur3_block_injective; eauto.
Qed.

Lemma tail_inj64 : forall seed pre tl tl' q,
  R64 seed -> Forall byte pre -> Forall byte tl -> Forall byte tl' ->
  length pre = (8 * q)%nat -> length tl = length tl' -> (0 < length tl < 8)%nat ->
  digest64 seed (pre ++ tl) = digest64 seed (pre ++ tl') -> tl = tl'.
Proof.
  intros seed pre tl tl' q Hs Fp Ft Ft' Lp Ll Lt H.
  rewrite !digest64_ref in H by auto using Forall_byte_app.
  eapply fasthash64_tail_injective; eauto.
Qed.

Lemma tail_inj32 : forall seed pre tl tl' q,
  R32 seed -> Forall byte pre -> Forall byte tl -> Forall byte tl' ->
  length pre = (4 * q)%nat -> length tl = length tl' -> (0 < length tl < 4)%nat ->
  digest32 seed (pre ++ tl) = digest32 seed (pre ++ tl') -> tl = tl'.
Proof.
  intros seed pre tl tl' q Hs Fp Ft Ft' Lp Ll Lt H.
  rewrite !digest32_ref in H by auto using Forall_byte_app.
  eapply murmur3_tail_injective; eauto.
Qed.

Lemma len_sens32 : forall seed bytes j, R32 seed -> Forall byte bytes ->
  (0 < j)%nat -> (length bytes / 4 = (length bytes + j) / 4)%nat ->
  digest32 seed bytes <> digest32 seed (bytes ++ repeat 0 j).
Proof.
  intros seed bytes j Hs F Hj Hq.
  rewrite !digest32_ref by auto using Forall_byte_app, Forall_byte_zeros.
  apply murmur3_length_sensitive; auto.
Qed.

Lemma len_sens64 : forall seed bytes j, R64 seed -> Forall byte bytes ->
  (0 < j)%nat -> (length bytes mod 8 <> 0)%nat -> (length bytes / 8 = (length bytes + j) / 8)%nat ->
  Z.of_nat (length bytes + j) < 2 ^ 64 ->
  digest64 seed bytes <> digest64 seed (bytes ++ repeat 0 j).
Proof.
  intros seed bytes j Hs F Hj Hr Hq Hl.
  rewrite !digest64_ref by auto using Forall_byte_app, Forall_byte_zeros.
  apply fasthash64_length_sensitive; auto.
Qed.

Lemma len_sens64_boundary_partial : forall seed bytes j, R64 seed -> Forall byte bytes ->
  (length bytes mod 8 = 0)%nat -> (0 < j < 8)%nat -> (j <> 4)%nat ->
  digest64 seed bytes <> digest64 seed (bytes ++ repeat 0 j).
Proof.
  intros seed bytes j Hs F Hr Hj Hj4.
  rewrite !digest64_ref by auto using Forall_byte_app, Forall_byte_zeros.
  apply fasthash64_boundary_partial; auto. lia.
Qed.

Lemma len_sens64_boundary_refuted :
  exists seed bytes, R64 seed /\ Forall byte bytes /\ (length bytes mod 8 = 0)%nat /\
    digest64 seed bytes = digest64 seed (bytes ++ repeat 0 4).
Proof.
  destruct fasthash64_boundary_refuted as [seed [bytes [Hs [F [Hr H]]]]].
  exists seed, bytes. repeat split; auto; try apply Hs.
  rewrite !digest64_ref by auto using Forall_byte_app, Forall_byte_zeros. exact H.
Qed.
