(* BTreeProofsMisc — height law, depth bound, destroy order, clear. *)
From Coq Require Import ZArith List Bool Arith Lia ZifyBool ZifyNat Permutation.
From Zix Require Import BTreeSpec BTreeModel BTreeProofsBase.
Import ListNotations.
Ltac Zify.zify_post_hook ::= Z.div_mod_to_equations.
Set Default Proof Using "All".

Section Misc.
  Variable elt : Type.
  Variable rank : elt -> Z.
  Variable dflt : elt.
  Variables L I : nat.
  Hypothesis HI : I = L / 2.
  Hypothesis HI3 : 3 <= I.
  Notation node := (node elt).
  Notation tree := (tree elt).
  Notation dnode := (@dnode elt).
  Notation asc := (@asc elt rank).

  (* ---------------------------------------------------------------- sizes *)
  (* one more than the number of elements below a list of children *)
  Fixpoint total (cs : list node) : nat :=
    match cs with [] => 0 | c :: cs' => length (elements c) + 1 + total cs' end.

  Lemma length_inter : forall (cs : list node) (vs : list elt), length cs = S (length vs) ->
    length (inter (map elements cs) vs) + 1 = total cs.
  Proof.
    induction cs as [|c cs IH]; intros vs H; cbn [length] in H; [lia|].
    destruct vs as [|v vs].
    - destruct cs; cbn [length] in H; [|lia]. cbn. lia.
    - cbn [length] in H. cbn [map inter total]. rewrite app_length. cbn [length].
      specialize (IH vs ltac:(lia)). lia.
  Qed.

  Lemma length_elements_inode : forall (vs : list elt) cs, length cs = S (length vs) ->
    length (elements (Inode vs cs)) + 1 = total cs.
  Proof. intros. cbn [elements]. apply length_inter. assumption. Qed.

  Lemma total_ge : forall (cs : list node) x, Forall (fun c => x <= length (elements c) + 1) cs ->
    length cs * x <= total cs.
  Proof.
    induction cs as [|c cs IH]; intros x H; cbn [length total]; [lia|].
    inversion H; subst. specialize (IH x H3). lia.
  Qed.

  (* minimal fan-out of a non-root internal page / one more than the minimal leaf occupancy *)
  Definition fanout : nat := (I + 1) / 2.
  Definition mleaf : nat := (L + 1) / 2.

  Lemma fanout_ge2 : 2 <= fanout.
  Proof. unfold fanout. lia. Qed.

  (* a well-formed non-root subtree of height h holds at least mleaf * fanout^(h-1) - 1 elements *)
  Lemma wfn_size : forall h (n : node), wfn L I h n -> mleaf * fanout ^ (h - 1) <= length (elements n) + 1.
  Proof.
    induction h as [|h IH]; intros n W; [destruct n; cbn in W; tauto|].
    destruct n as [vs|vs cs]; cbn [wfn] in W.
    - destruct W as [-> B]. cbn [elements]. unfold minL in B. unfold mleaf.
      replace (1 - 1) with 0 by lia. rewrite Nat.pow_0_r. lia.
    - destruct W as (Hh & Hl & B & F).
      rewrite length_elements_inode by assumption.
      replace (S h - 1) with (S (h - 1)) by lia. rewrite Nat.pow_succ_r'.
      assert (T : length cs * (mleaf * fanout ^ (h - 1)) <= total cs).
      { apply total_ge. rewrite Forall_forall in *. intros c Hc. apply IH. auto. }
      unfold minI in B. unfold fanout in *.
      assert (Hc : (I + 1) / 2 <= length cs) by lia.
      nia.
  Qed.

  Theorem height_law_root : forall h (r : node), root_ok L I h r -> 2 <= h ->
    2 * mleaf * fanout ^ (h - 2) <= length (elements r) + 1.
  Proof.
    intros h r (K & B & R) Hh. destruct h as [|h]; [lia|]. destruct r as [vs|vs cs]; cbn [kids_ok] in K.
    - lia.
    - destruct K as (Hn & Hl & F). specialize (R eq_refl). unfold n_vals in R. cbn [vals] in R.
      rewrite length_elements_inode by assumption.
      assert (T : length cs * (mleaf * fanout ^ (h - 1)) <= total cs).
      { apply total_ge. rewrite Forall_forall in *. intros c Hc. apply wfn_size. auto. }
      replace (S h - 2) with (h - 1) by lia.
      assert (2 <= length cs) by lia. nia.
  Qed.

  Theorem height_law : forall t : tree, Inv rank L I t -> 2 <= height (root t) ->
    2 * mleaf * fanout ^ (height (root t) - 2) <= length (elements (root t)) + 1.
  Proof.
    intros t [[h R] _] Hh. pose proof R as (K & _). apply (kids_ok_height _ rank dflt L I HI HI3) in K.
    rewrite K in *. apply (height_law_root h); assumption.
  Qed.

  (* ---------------------------------------------------------------- depth *)
  (* the least size at which a tree of height H+1 exists *)
  Definition cap (H : nat) : nat := 2 * mleaf * fanout ^ (H - 1) - 1.

  Theorem height_le_max : forall (t : tree) H, Inv rank L I t -> 1 <= H ->
    length (elements (root t)) < cap H -> height (root t) <= H.
  Proof.
    intros t H Hinv HH Hsz. destruct (Nat.le_gt_cases (height (root t)) H) as [|Hgt]; [assumption|exfalso].
    pose proof (height_law t Hinv ltac:(lia)) as Hlaw.
    assert (Hp : fanout ^ (H - 1) <= fanout ^ (height (root t) - 2)).
    { apply Nat.pow_le_mono_r; [pose proof fanout_ge2; lia|lia]. }
    unfold cap in Hsz. nia.
  Qed.

  (* a tree whose root page is full holds at least as many elements as the least tree one level higher *)
  Lemma full_root_size : forall h (r : node), root_ok L I h r -> is_full L I r = true ->
    2 * mleaf * fanout ^ (h - 1) <= length (elements r) + 1.
  Proof.
    intros h r (K & B & R) F. unfold is_full in F. apply Nat.eqb_eq in F.
    destruct h as [|h]; [destruct r; cbn in K; tauto|].
    destruct r as [vs|vs cs]; cbn [kids_ok] in K; unfold n_vals, max_vals in F; cbn [vals is_leaf] in F.
    - rewrite K. cbn [elements]. replace (1 - 1) with 0 by lia. rewrite Nat.pow_0_r. unfold mleaf. lia.
    - destruct K as (Hn & Hl & Fa).
      rewrite length_elements_inode by assumption.
      assert (T : length cs * (mleaf * fanout ^ (h - 1)) <= total cs).
      { apply total_ge. rewrite Forall_forall in *. intros c Hc. apply wfn_size. auto. }
      replace (S h - 1) with (S (h - 1)) by lia. rewrite Nat.pow_succ_r'.
      assert (Hf : 2 * fanout <= length cs) by (unfold fanout; lia).
      nia.
  Qed.

  (* hence: if the root is full and the tree has at least H levels, the size has reached cap H *)
  Theorem full_root_cap : forall (t : tree) H, Inv rank L I t -> 1 <= H ->
    is_full L I (root t) = true -> H <= height (root t) -> cap H <= length (elements (root t)).
  Proof.
    intros t H [[h R] _] HH F Hh. pose proof R as (K & _).
    rewrite (kids_ok_height _ rank dflt L I HI HI3 h _ K) in Hh.
    pose proof (full_root_size h (root t) R F) as S.
    assert (Hp : fanout ^ (H - 1) <= fanout ^ (h - 1)).
    { apply Nat.pow_le_mono_r; [pose proof fanout_ge2; lia|lia]. }
    unfold cap. nia.
  Qed.

  (* an iterator path is never longer than the tree is high: level < height *)
  Lemma valid_cons2 : forall (n : node) i j q,
    valid n (i :: j :: q) = (is_leaf n = false /\ i <= n_vals n /\ valid (child n i) (j :: q)).
  Proof. reflexivity. Qed.

  Lemma valid_length_wfn : forall h (n : node) p, wfn L I h n -> valid n p -> length p <= h.
  Proof.
    induction h as [|h IH]; intros n p W V; [destruct n; cbn in W; tauto|].
    destruct p as [|i [|j q]]; [destruct V|cbn; lia|].
    rewrite valid_cons2 in V. destruct V as (Hleaf & Hi & V).
    destruct n as [vs|vs cs]; [discriminate|].
    assert (Wc : wfn L I h (nth i cs dnode)).
    { unfold n_vals in Hi. cbn [vals] in Hi. apply (wfn_child _ rank dflt L I HI HI3 h vs cs i W Hi). }
    specialize (IH _ _ Wc V). cbn [length] in *. lia.
  Qed.

  Lemma valid_length : forall (r : node) p, shape_ok L I r -> valid r p -> length p <= height r.
  Proof.
    intros r p [h R] V. pose proof R as (K & _).
    rewrite (kids_ok_height _ rank dflt L I HI HI3 h r K).
    destruct h as [|h]; [destruct r; cbn in K; tauto|].
    destruct p as [|i [|j q]]; [destruct V|cbn; lia|].
    rewrite valid_cons2 in V. destruct V as (Hleaf & Hi & V).
    destruct r as [vs|vs cs]; [discriminate|].
    assert (Wc : wfn L I h (nth i cs dnode)).
    { unfold n_vals in Hi. cbn [vals] in Hi. apply (kids_ok_child _ rank dflt L I HI HI3 h vs cs i K Hi). }
    pose proof (valid_length_wfn h _ _ Wc V). cbn [length] in *. lia.
  Qed.

  Theorem depth_le_max : forall (t : tree) H, Inv rank L I t -> 1 <= H ->
    length (elements (root t)) < cap H ->
    forall p, valid (root t) p -> length p <= H.
  Proof.
    intros t H Hinv HH Hsz p V.
    pose proof (height_le_max t H Hinv HH Hsz).
    pose proof (valid_length (root t) p (Inv_shape _ rank dflt L I HI HI3 t Hinv) V). lia.
  Qed.

  (* every frame of a valid iterator path is at most LEAF_VALS: the uint16_t indexes of ZixBTreeIter never truncate
     in a configuration the sources accept (static_assert(ZIX_BTREE_LEAF_VALS <= UINT16_MAX)) *)
  Lemma max_vals_le_L : forall n : node, max_vals L I n <= L.
  Proof. intros n. unfold max_vals. destruct (is_leaf n); lia. Qed.

  Lemma valid_index_bound_wfn : forall h (n : node) p, wfn L I h n -> valid n p -> Forall (fun i => i <= L) p.
  Proof.
    induction h as [|h IH]; intros n p W V; [destruct n; cbn in W; tauto|].
    pose proof (proj1 (wfn_iff _ rank dflt L I HI HI3 (S h) n) W) as [_ [_ B]].
    pose proof (max_vals_le_L n) as M.
    destruct p as [|i [|j q]]; [destruct V|cbn in V; repeat constructor; lia|].
    rewrite valid_cons2 in V. destruct V as (Hleaf & Hi & V).
    destruct n as [vs|vs cs]; [discriminate|].
    assert (Wc : wfn L I h (nth i cs dnode)).
    { unfold n_vals in Hi. cbn [vals] in Hi. apply (wfn_child _ rank dflt L I HI HI3 h vs cs i W Hi). }
    constructor; [lia|]. exact (IH _ _ Wc V).
  Qed.

  Lemma valid_index_bound : forall (r : node) p, shape_ok L I r -> valid r p -> Forall (fun i => i <= L) p.
  Proof.
    intros r p [h (K & B & _)] V. pose proof (max_vals_le_L r) as M.
    destruct h as [|h]; [destruct r; cbn in K; tauto|].
    destruct p as [|i [|j q]]; [destruct V|cbn in V; repeat constructor; lia|].
    rewrite valid_cons2 in V. destruct V as (Hleaf & Hi & V).
    destruct r as [vs|vs cs]; [discriminate|].
    assert (Wc : wfn L I h (nth i cs dnode)).
    { unfold n_vals in Hi. cbn [vals] in Hi. apply (kids_ok_child _ rank dflt L I HI HI3 h vs cs i K Hi). }
    constructor; [lia|]. exact (valid_index_bound_wfn h _ _ Wc V).
  Qed.

  (* ---------------------------------------------------------------- destroy order *)
  Lemma inter_perm : forall (ecs : list (list elt)) vs, length ecs = S (length vs) ->
    Permutation (inter ecs vs) (concat ecs ++ vs).
  Proof.
    induction ecs as [|c ecs IH]; intros vs H; cbn [length] in H; [lia|].
    destruct vs as [|v vs].
    - destruct ecs; cbn [length] in H; [|lia]. cbn. rewrite !app_nil_r. apply Permutation_refl.
    - cbn [length] in H. cbn [inter concat]. rewrite <- app_assoc.
      apply Permutation_app_head. apply Permutation_cons_app. apply IH. lia.
  Qed.

  Lemma concat_perm : forall (f g : node -> list elt) cs,
    Forall (fun c => Permutation (f c) (g c)) cs -> Permutation (concat (map f cs)) (concat (map g cs)).
  Proof.
    induction cs as [|c cs IH]; intros H; cbn; [apply Permutation_refl|].
    inversion H; subst. apply Permutation_app; auto.
  Qed.

  Lemma destroy_perm_wfn : forall h (n : node), wfn L I h n -> Permutation (destroy_log n) (elements n).
  Proof.
    induction h as [|h IH]; intros n W; [destruct n; cbn in W; tauto|].
    destruct n as [vs|vs cs]; cbn [wfn] in W; cbn [destroy_log elements].
    - apply Permutation_refl.
    - destruct W as (Hh & Hl & B & F).
      eapply Permutation_trans; [|apply Permutation_sym; apply inter_perm; rewrite map_length; assumption].
      apply Permutation_app_tail. apply concat_perm.
      rewrite Forall_forall in *. intros c Hc. apply IH. auto.
  Qed.

  Theorem destroy_once : forall t : tree, Inv rank L I t ->
    Permutation (snd (clear t true)) (elements (root t)) /\ snd (clear t false) = [].
  Proof.
    intros t [[h (K & _)] _]. split; [|reflexivity]. cbn [clear snd].
    destruct h as [|h]; [destruct (root t); cbn in K; tauto|].
    destruct (root t) as [vs|vs cs]; cbn [kids_ok] in K; cbn [destroy_log elements].
    - apply Permutation_refl.
    - destruct K as (Hh & Hl & F).
      eapply Permutation_trans; [|apply Permutation_sym; apply inter_perm; rewrite map_length; assumption].
      apply Permutation_app_tail. apply concat_perm.
      rewrite Forall_forall in *. intros c Hc. apply (destroy_perm_wfn h). auto.
  Qed.

  Theorem clear_refines : forall (t : tree) d,
    fst (clear t d) = empty_tree /\ Inv rank L I (fst (clear t d)) /\
    elements (root (fst (clear t d))) = [] /\ size (fst (clear t d)) = 0%Z.
  Proof.
    intros t d. cbn [clear fst]. repeat split. apply (Inv_empty _ rank dflt L I HI HI3).
  Qed.
End Misc.

Global Arguments total {elt}.
