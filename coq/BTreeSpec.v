(* BTreeSpec — the abstract object of properties C01/C02: a finite set of elements kept as a list
   strictly ascending by an integer rank.  Nothing here mentions pages, splits or iterators. *)
From Coq Require Import ZArith List Bool.
Import ListNotations.
Local Open Scope Z_scope.

(* the zix status codes the B-tree can return (names as in zix/status.h) *)
Inductive status := SUCCESS | NO_MEM | NOT_FOUND | EXISTS | REACHED_END | OVERFLOW | OUT_OF_FUEL.

Section Spec.
  Variable elt : Type.
  Variable rank : elt -> Z.

  (* strictly ascending by rank *)
  Fixpoint asc (l : list elt) : Prop :=
    match l with
    | [] => True
    | a :: l' => (forall b, In b l' -> rank a < rank b) /\ asc l'
    end.

  Definition set_find (s : list elt) (k : Z) : option elt :=
    find (fun x => rank x =? k) s.

  Fixpoint ins_sorted (e : elt) (s : list elt) : list elt :=
    match s with
    | [] => [e]
    | a :: s' => if rank e <? rank a then e :: s else a :: ins_sorted e s'
    end.

  Definition set_insert (s : list elt) (e : elt) : status * list elt :=
    match set_find s (rank e) with
    | Some _ => (EXISTS, s)
    | None => (SUCCESS, ins_sorted e s)
    end.

  Definition del_rank (k : Z) (s : list elt) : list elt :=
    filter (fun x => negb (rank x =? k)) s.

  Definition set_remove (s : list elt) (k : Z) : status * option elt * list elt :=
    match set_find s k with
    | Some x => (SUCCESS, Some x, del_rank k s)
    | None => (NOT_FOUND, None, s)
    end.

  (* the successor of rank k in s: first element with a larger rank *)
  Definition set_succ (s : list elt) (k : Z) : option elt :=
    find (fun x => k <? rank x) s.

  (* lower bound for a search comparator ck (ck x = compare_key(x, key)): the first element that is
     not less than the key *)
  Definition not_lt (c : comparison) : bool := match c with Lt => false | _ => true end.
  Definition set_lower_bound (ck : elt -> comparison) (s : list elt) : option elt :=
    find (fun x => not_lt (ck x)) s.

  (* ck is compatible with the order of s: its answers go Lt* Eq* Gt* along s *)
  Definition cle (a b : comparison) : Prop :=
    match a, b with
    | Lt, _ => True
    | Eq, Lt => False
    | Eq, _ => True
    | Gt, Gt => True
    | Gt, _ => False
    end.
  Fixpoint monotone (ck : elt -> comparison) (l : list elt) : Prop :=
    match l with
    | [] => True
    | a :: l' => (forall b, In b l' -> cle (ck a) (ck b)) /\ monotone ck l'
    end.
End Spec.
