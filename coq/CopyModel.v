(* C14 — model of zix_copy_file and its helpers, following /repo/src/posix/filesystem_posix.c,
   /repo/src/system.c and /repo/src/errno_status.c branch for branch (Linux configuration:
   USE_COPY_FILE_RANGE, USE_POSIX_FADVISE, no clonefile).  Definitions only. *)
From Coq Require Import ZArith List Bool Lia.
From Zix Require Import CopySpec.
Import ListNotations.
Local Open Scope Z_scope.

(* errno_status.c: table walk; the first entry maps 0 to SUCCESS, the fallback is ERROR *)
Definition errno_map : list (Z * status) :=
  [ (0, SUCCESS); (EACCES, BAD_PERMS); (EAGAIN, UNAVAILABLE); (EEXIST, EXISTS); (EINVAL, BAD_ARG);
    (EMLINK, MAX_LINKS); (ENOENT, NOT_FOUND); (ENOMEM, NO_MEM); (ENOSPC, NO_SPACE);
    (ENOSYS, NOT_SUPPORTED); (EPERM, BAD_PERMS); (ETIMEDOUT, TIMEOUT); (ENOTSUP, NOT_SUPPORTED) ].

Fixpoint errno_lookup (m : list (Z * status)) (e : Z) : status :=
  match m with
  | [] => ERROR
  | (c, s) :: r => if c =? e then s else errno_lookup r e
  end.
Definition zix_errno_status (e : Z) : status := errno_lookup errno_map e.

Definition is_success (s : status) : bool := match s with SUCCESS => true | _ => false end.
(* C: `a ? a : b` on statuses *)
Definition st_or (a b : status) : status := if is_success a then b else a.

(* zix_posix_status(rc) *)
Definition posix_status (w : world) (rc : Z) : status :=
  if rc =? 0 then SUCCESS else zix_errno_status (w_errno w).

(* system.c zix_system_close_fds: st0 is errno AT ENTRY, whatever left it there *)
Definition close_fds (w : world) (fd1 fd2 : option fdtok) : status * world :=
  let st0 := zix_errno_status (w_errno w) in
  let (r1, w) := match fd1 with Some t => k_close w t | None => (0, w) end in
  let st1 := if r1 =? 0 then SUCCESS else zix_errno_status (w_errno w) in
  let (r2, w) := match fd2 with Some t => k_close w t | None => (0, w) end in
  let st2 := if r2 =? 0 then SUCCESS else zix_errno_status (w_errno w) in
  (st_or st0 (st_or st1 st2), w).

Definition finish_copy (w : world) (dst_fd src_fd : option fdtok) (st : status) : status * world :=
  let (rc, w) := match dst_fd with Some _ => k_fdatasync w | None => (0, w) end in
  let st0 := posix_status w rc in
  let (st1, w) := close_fds w dst_fd src_fd in
  (st_or st (st_or st0 st1), w).

(* zix_copy_file_range: `while (remaining > 0 && (r = copy_file_range(...)) > 0) remaining -= r;`
   returns (r, world); [None] = out of fuel *)
Fixpoint cfr_loop (fuel : nat) (w : world) (remaining : nat) (r : Z) : option (Z * world) :=
  match fuel with
  | O => None
  | S f =>
    match remaining with
    | O => Some (r, w)
    | _ =>
      let (r', w') := k_cfr w remaining in
      if 0 <? r' then cfr_loop f w' (remaining - Z.to_nat r') r' else Some (r', w')
    end
  end.

Definition zix_copy_file_range (w : world) (size : nat) : status * world :=
  let w := set_errno w 0 in
  match cfr_loop (S size) w size 0 with
  | None => (OUT_OF_FUEL, w)
  | Some (r, w) =>
    if 0 <=? r then (SUCCESS, w)
    else
      let e := w_errno w in
      (zix_errno_status (if (e =? EXDEV) || (e =? EINVAL) then ENOSYS else e), w)
  end.

(* copy_blocks, inner loop: `while (n_written < n_read) { w = write(block + n_written, n_read - n_written); ... }`
   [rest] is the part of the block not yet written.  Result: None = block written, Some st = early return *)
Fixpoint write_loop (fuel : nat) (w : world) (rest : list Z) : option (option status * world) :=
  match fuel with
  | O => None
  | S f =>
    match rest with
    | [] => Some (None, w)
    | _ =>
      let (r, w') := k_write w rest in
      if r <=? 0 then
        Some (Some (if (r <? 0) && negb (w_errno w' =? 0) then zix_errno_status (w_errno w') else ERROR), w')
      else write_loop f w' (skipn (Z.to_nat r) rest)
    end
  end.

Fixpoint copy_blocks (fuel : nat) (w : world) (block_size : nat) : status * world :=
  match fuel with
  | O => (OUT_OF_FUEL, w)
  | S f =>
    let '(n, data, w') := k_read w block_size in
    if 0 <? n then
      match write_loop (S (length data)) w' data with
      | None => (OUT_OF_FUEL, w')
      | Some (Some st, w'') => (st, w'')
      | Some (None, w'') => copy_blocks f w'' block_size
      end
    else (SUCCESS, w')     (* also for n < 0: the failure is left in errno *)
  end.

(* zix_get_block_size: (uint32_t)MAX(b1, b2), or 4096 *)
Definition get_block_size (b1 b2 : Z) : Z :=
  if (0 <? b1) && (0 <? b2) then (Z.max b1 b2) mod 2 ^ 32 else 4096.

(* what the caller's allocator answers to the one aligned_alloc request: a block, or NULL leaving
   errno = e behind (e = 0: errno untouched) *)
Inductive alloc_answer := AOk | AFail (e : Z).

Definition stack_buf_size : nat := 512.

(* zix_copy_file from the kernel copy attempt to the end (both descriptors open) *)
Definition copy_body (w : world) (size : nat) (b1 b2 : Z) (al : alloc_answer) : status * world :=
  let dst_fd := Some FDst in
  let src_fd := Some FSrc in
  let (st, w) := zix_copy_file_range w size in
  if negb (status_eqb st NOT_SUPPORTED) then finish_copy w dst_fd src_fd st else
  let w := k_fadvise w 0 in
  let w := k_fadvise w 1 in
  let block_size := get_block_size b1 b2 in
  let w := match al with
           | AOk => log w KAlloc block_size 1
           | AFail e => log (if e =? 0 then w else set_errno w e) KAlloc block_size 0
           end in
  let buffer_size := match al with AOk => Z.to_nat block_size | AFail _ => stack_buf_size end in
  let w := set_errno w 0 in                      (* a failed allocation may have set errno *)
  let (st, w) := copy_blocks (S size) w buffer_size in
  let w := log w KFree (match al with AOk => 1 | AFail _ => 0 end) 0 in
  finish_copy w dst_fd src_fd st.

Definition zix_copy_file (w : world) (overwrite : bool) (b1 b2 : Z) (al : alloc_answer)
  : status * world :=
  (* open the source and get its status *)
  let (src_ok, w) := k_open_src w in
  let src_fd := if src_ok then Some FSrc else None in
  let (fst_ok, w) := if src_ok then k_fstat w 0 else (false, w) in
  if negb (src_ok && fst_ok) then finish_copy w None src_fd (zix_errno_status (w_errno w)) else
  let size := length (w_src w) in                 (* src_stat.st_size, taken here *)
  (* not a regular file *)
  match w_skind w with
  | SReg =>
    (* the destination is the source *)
    let (sr, w) := k_stat_dst w in
    match sr with
    | StatSame => finish_copy w None src_fd EXISTS
    | _ =>
      let (dst_ok, w) := k_open_dst w overwrite in
      let dst_fd := if dst_ok then Some FDst else None in
      let (dfst_ok, w) := if dst_ok then k_fstat w 1 else (false, w) in
      if negb (dst_ok && dfst_ok) then finish_copy w dst_fd src_fd (zix_errno_status (w_errno w)) else
      copy_body w size b1 b2 al
    end
  | _ => finish_copy w None src_fd BAD_ARG
  end.

(* the initial world of a call: nothing open *)
Definition world0 (sk : skind) (src : list Z) (d : dstate) (errno0 : Z) (script : list outcome) : world :=
  mkW sk src d 0 0 [] errno0 script [].
