(* C11 — regression examples: the witnesses of the four former defect classes (repaired by the
   fix: commits in /repo) and of the former idempotence failures, now computed correctly by the
   model of the repaired code. *)
From Coq Require Import ZArith List Bool.
From Zix Require Import PathNormSpec PathNormModel.
Import ListNotations.
Local Open Scope Z_scope.

Definition a_ : Z := 97.
Definition x_ : Z := 120.

(* "//./a" (old code: "/./a") *)
Definition witness_A : list Z := [SEP; SEP; DOT; SEP; a_].
(* "x/.../.." (old code: ".") *)
Definition witness_B : list Z := [x_; SEP; DOT; DOT; DOT; SEP; DOT; DOT].
(* "a../" (old code: "a..") *)
Definition witness_C : list Z := [a_; DOT; DOT; SEP].
(* "../." (old code: "../") and "/../." (old code: "/.") *)
Definition witness_D : list Z := [DOT; DOT; SEP; DOT].
Definition witness_D2 : list Z := [SEP; DOT; DOT; SEP; DOT].
(* "//./" (old code: "/./", and "/" when applied again) *)
Definition witness_idem : list Z := [SEP; SEP; DOT; SEP].

Lemma former_witnesses :
  zix_normal witness_A = [SEP; a_] /\ zix_normal witness_B = [x_; SEP] /\
  zix_normal witness_C = witness_C /\ zix_normal witness_D = [DOT; DOT] /\
  zix_normal witness_D2 = [SEP] /\ zix_normal witness_idem = [SEP] /\
  forallb (fun w => bytes_eqb (zix_normal w) (std_normal w))
          [witness_A; witness_B; witness_C; witness_D; witness_D2; witness_idem] = true.
Proof. vm_compute. repeat split; reflexivity. Qed.
