(* C11 — lemmas: the four refutation witnesses (faithful model vs spec, by computation). *)
From Coq Require Import ZArith List Bool.
From Zix Require Import PathNormSpec PathNormModel.
Import ListNotations.
Local Open Scope Z_scope.

Definition a_ : Z := 97.
Definition x_ : Z := 120.

(* "//./a" -> "/./a" (std: "/a") *)
Definition witness_A : list Z := [SEP; SEP; DOT; SEP; a_].
(* "x/.../.." -> "." (std: "x/") *)
Definition witness_B : list Z := [x_; SEP; DOT; DOT; DOT; SEP; DOT; DOT].
(* "a../" -> "a.." (std: "a../") *)
Definition witness_C : list Z := [a_; DOT; DOT; SEP].
(* "../." -> "../" (std: "..") *)
Definition witness_D : list Z := [DOT; DOT; SEP; DOT].

(* in exactly one class each *)
Definition only (k : nat) (s : list Z) : bool :=
  Bool.eqb (class_A s) (Nat.eqb k 0) && Bool.eqb (class_B s) (Nat.eqb k 1) &&
  Bool.eqb (class_C s) (Nat.eqb k 2) && Bool.eqb (class_D s) (Nat.eqb k 3).

Lemma refute_A : only 0 witness_A = true /\ zix_normal witness_A = [SEP; DOT; SEP; a_] /\
  peqb (zix_normal witness_A) (std_normal witness_A) = false /\ is_normal_form (zix_normal witness_A) = false.
Proof. vm_compute. repeat split; reflexivity. Qed.

Lemma refute_B : only 1 witness_B = true /\ zix_normal witness_B = [DOT] /\
  std_normal witness_B = [x_; SEP] /\
  peqb (zix_normal witness_B) (std_normal witness_B) = false.
Proof. vm_compute. repeat split; reflexivity. Qed.

Lemma refute_C : only 2 witness_C = true /\ zix_normal witness_C = [a_; DOT; DOT] /\
  peqb (zix_normal witness_C) (std_normal witness_C) = false.
Proof. vm_compute. repeat split; reflexivity. Qed.

Lemma refute_D : only 3 witness_D = true /\ zix_normal witness_D = [DOT; DOT; SEP] /\
  peqb (zix_normal witness_D) (std_normal witness_D) = false /\ is_normal_form (zix_normal witness_D) = false.
Proof. vm_compute. repeat split; reflexivity. Qed.

(* idempotence fails outside the proved class: "//./" -> "/./" -> "/" (class A) *)
Definition witness_idem : list Z := [SEP; SEP; DOT; SEP].
Lemma refute_idem : zix_normal witness_idem = [SEP; DOT; SEP] /\ zix_normal (zix_normal witness_idem) = [SEP] /\
  class_A witness_idem = true.
Proof. vm_compute. repeat split; reflexivity. Qed.

(* an already normal path is changed: "a../" is a normal form, zix returns "a.." (class C) *)
Lemma refute_fixed : is_normal_form witness_C = true /\ peqb (zix_normal witness_C) witness_C = false.
Proof. vm_compute. split; reflexivity. Qed.
