From Coq Require Import ZArith List Bool Lia.
From Zix Require Import FaultSpec.
Import ListNotations.
Local Open Scope Z_scope.

(* the fault-free answer of the abstract container is always an allowed report *)
Lemma tol_exact dup s o :
  tol_step dup s o (fst (exact_step dup s o)) = Some (snd (exact_step dup s o)).
Proof.
  unfold tol_step, exact_step. destruct o as [k|k|k|].
  - destruct (negb dup && mem k s) eqn:E; cbn [fst snd r_status r_out]; rewrite ?E; reflexivity.
  - destruct (mem k s) eqn:E; cbn [fst snd r_status r_out]; rewrite ?E, ?Z.eqb_refl; reflexivity.
  - destruct (mem k s) eqn:E; cbn [fst snd r_status r_out]; rewrite ?E, ?Z.eqb_refl; reflexivity.
  - reflexivity.
Qed.

(* never anything in between: an allowed report leaves either exactly the previous contents or
   exactly the contents of the completed operation *)
Lemma tol_two_outcomes dup s o r s' :
  tol_step dup s o r = Some s' -> s' = s \/ s' = snd (exact_step dup s o).
Proof.
  destruct o as [k|k|k|]; cbn; destruct r as [st out]; cbn.
  - destruct st; try discriminate; destruct (negb dup && mem k s) eqn:E; cbn; intros H; inversion H; auto.
  - destruct st, out as [k'|]; try discriminate; destruct (mem k s) eqn:E; cbn;
      try destruct (Z.eqb k k'); cbn; intros H; inversion H; auto.
  - destruct st, out as [k'|]; try discriminate; destruct (mem k s) eqn:E; cbn;
      try destruct (Z.eqb k k'); cbn; intros H; inversion H; auto.
  - destruct st; try discriminate. intros H; inversion H; auto.
Qed.

(* a reported insertion failure means: contents exactly as before *)
Lemma tol_failed_insert_unchanged dup s k out s' :
  tol_step dup s (Ins k) {| r_status := NoMem; r_out := out |} = Some s' -> s' = s.
Proof. cbn. intros H; now inversion H. Qed.

(* the out-parameter tells which: NO_MEM from a removal with the element handed back = removed *)
Lemma tol_removed_tells dup s k out s' :
  tol_step dup s (Rem k) {| r_status := NoMem; r_out := out |} = Some s' ->
  (out = None /\ s' = s) \/ (out = Some k /\ s' = remove_one k s).
Proof.
  cbn. destruct out as [k'|]; destruct (mem k s); cbn; try discriminate.
  - destruct (Z.eqb_spec k k') as [->|]; [|discriminate]. intros H; inversion H; auto.
  - intros H; inversion H; auto.
Qed.

(* contents stay sorted *)
Fixpoint sorted (s : list Z) : bool :=
  match s with
  | x :: ((y :: _) as s') => Z.leb x y && sorted s'
  | _ => true
  end.

Lemma sorted_insert_sorted k s : sorted s = true -> sorted (sorted_insert k s) = true.
Proof.
  induction s as [|x s IH]; cbn [sorted_insert]; [reflexivity|].
  intros H. destruct (Z.leb_spec x k) as [L|L].
  - destruct s as [|y s]; cbn [sorted_insert] in *.
    + cbn. rewrite andb_true_r. now apply Z.leb_le.
    + cbn [sorted] in H. apply andb_true_iff in H as [H1 H2]. specialize (IH H2).
      destruct (Z.leb_spec y k); cbn [sorted] in *.
      * now rewrite H1, IH.
      * apply andb_true_iff. split; [now apply Z.leb_le|]. exact IH.
  - cbn [sorted]. apply andb_true_iff. split; [apply Z.leb_le; lia|exact H].
Qed.

Lemma sorted_tail x s : sorted (x :: s) = true -> sorted s = true.
Proof. destruct s; cbn; [reflexivity|]. intros H. now apply andb_true_iff in H as [_ H]. Qed.

Lemma sorted_head_le x s y : sorted (x :: s) = true -> In y s -> x <= y.
Proof.
  revert x. induction s as [|z s IH]; intros x H Hin; [destruct Hin|].
  cbn [sorted] in H. apply andb_true_iff in H as [H1 H2]. apply Z.leb_le in H1.
  destruct Hin as [->|Hin]; [exact H1|]. specialize (IH z H2 Hin). lia.
Qed.

Lemma remove_one_subset k s y : In y (remove_one k s) -> In y s.
Proof.
  induction s as [|x s IH]; cbn; [tauto|]. destruct (Z.eqb x k); cbn; [tauto|]. intros [->|H]; auto.
Qed.

Lemma remove_one_sorted k s : sorted s = true -> sorted (remove_one k s) = true.
Proof.
  induction s as [|x s IH]; cbn [remove_one]; [reflexivity|]. intros H.
  destruct (Z.eqb x k); [now apply sorted_tail in H|].
  pose proof (sorted_tail _ _ H) as Ht. specialize (IH Ht).
  destruct (remove_one k s) as [|y r] eqn:E; [reflexivity|].
  cbn [sorted]. apply andb_true_iff. split; [|exact IH].
  apply Z.leb_le. apply (sorted_head_le x s y H). apply (remove_one_subset k). rewrite E. now left.
Qed.

Lemma tol_step_sorted dup s o r s' :
  sorted s = true -> tol_step dup s o r = Some s' -> sorted s' = true.
Proof.
  intros Hs H. destruct (tol_two_outcomes _ _ _ _ _ H) as [->| ->]; [exact Hs|].
  destruct o as [k|k|k|]; cbn.
  - destruct (negb dup && mem k s); cbn; [exact Hs|now apply sorted_insert_sorted].
  - destruct (mem k s); cbn; [now apply remove_one_sorted|exact Hs].
  - destruct (mem k s); exact Hs.
  - reflexivity.
Qed.
