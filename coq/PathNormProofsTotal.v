(* C11 — the model never runs out of fuel, for every input string (including the four
   defective classes): zix_normal_opt s <> None. *)
From Coq Require Import ZArith List Bool Lia ZifyBool.
From Zix Require Import PathNormSpec PathNormModel PathNormProofsSpec PathNormProofsModel PathNormProofsDD.
Import ListNotations.
Local Open Scope Z_scope.

Lemma rd_sep_lt : forall s e, 0 <= e -> is_sep (rd s e) = true -> e < zlen s.
Proof.
  intros s e He H. unfold is_sep, rd, get, zlen in *. replace (e <? 0) with false in H by lia.
  destruct (Z_lt_ge_dec e (Z.of_nat (length s))); [assumption|].
  rewrite nth_overflow in H by lia. discriminate.
Qed.

Lemma root_dir_loop_total : forall fuel s b e, 0 <= b -> e = b + 1 -> e <= zlen s ->
  (Z.to_nat (zlen s - e) < fuel)%nat ->
  exists b' e', root_dir_loop fuel s b e = Some (b', e') /\ 0 <= b' /\ e' = b' + 1 /\ e' <= zlen s.
Proof.
  induction fuel as [|f IH]; intros s b e Hb He Hl Hf; [lia|].
  cbn [root_dir_loop]. destruct (is_sep (rd s e)) eqn:E.
  - pose proof (rd_sep_lt s e ltac:(lia) E) as L. apply IH; lia.
  - exists b, e. repeat split; assumption.
Qed.

Lemma root_path_range_total : forall s, s <> [] ->
  exists rb re, root_path_range s = Some (rb, re) /\ 0 <= re <= zlen s /\ (sz (re - rb) = 0 \/ sz (re - rb) = 1) /\
                sz (re - rb) <= re.
Proof.
  intros s Hne. unfold root_path_range. destruct (is_sep (rd s 0)) eqn:E.
  - pose proof (rd_sep_lt s 0 ltac:(lia) E) as L.
    destruct (root_dir_loop_total (S (length s)) s 0 1 ltac:(lia) eq_refl ltac:(lia) ltac:(unfold zlen; lia))
      as (b' & e' & R & Hb & He & Hl).
    exists b', e'. rewrite R. replace (e' - b') with 1 by lia. repeat split; try lia. right. reflexivity.
    change (sz 1) with 1. lia.
  - exists 0, 0. repeat split; try lia; [unfold zlen; lia|left; reflexivity|reflexivity].
Qed.

(* the first pass keeps the buffer in the form  rev acc ++ zeros, for any root.end *)
Lemma copy_loop_total : forall fuel s re i acc m,
  0 <= re -> re <= i -> i <= zlen s -> (Z.to_nat (zlen s - i) < fuel)%nat ->
  (Z.of_nat (length acc) <= i) -> (length acc + m = length s + 2)%nat ->
  exists acc' m', copy_loop fuel s (zlen s) re i (Z.of_nat (length acc)) (B acc m)
                  = Some (Z.of_nat (length acc'), B acc' m') /\
                  (length acc' + m' = length s + 2)%nat /\ (Z.of_nat (length acc') <= zlen s).
Proof.
  induction fuel as [|f IH]; intros s re i acc m Hre Hi Hil Hf Ha Hm; [lia|].
  cbn [copy_loop]. destruct (i <? zlen s) eqn:Ei.
  2:{ exists acc, m. repeat split; [exact Hm|lia]. }
  assert (Hm2 : (2 <= m)%nat) by (unfold zlen in *; lia).
  destruct (is_sep (rd s i)) eqn:Es.
  - destruct (skip_seps_spec s (S (length s)) i (skipn (Z.to_nat (i + 1)) s) ltac:(lia) ltac:(lia) eq_refl)
      as (j & J1 & J2 & J3 & _).
    { rewrite skipn_length. lia. }
    rewrite J1.
    destruct (dot_entry_before (B acc m) i (Z.of_nat (length acc)) re) eqn:Ed.
    + (* pop *)
      assert (Hr1 : 1 <= Z.of_nat (length acc)).
      { unfold dot_entry_before in Ed. apply andb_true_iff in Ed as [_ Ed]. apply orb_true_iff in Ed as [Ed | Ed].
        - apply andb_true_iff in Ed as [Ed _]. lia.
        - apply andb_true_iff in Ed as [Ed _]. apply andb_true_iff in Ed as [Ed _]. lia. }
      destruct acc as [|d acc0]; [cbn in Hr1; lia|].
      rewrite set_pop by reflexivity.
      replace (Z.of_nat (length (d :: acc0)) - 1) with (Z.of_nat (length acc0)) by (cbn [length]; lia).
      destruct (IH s re (j + 1) acc0 (S m)) as (acc' & m' & C1 & C2 & C3); try lia.
      { cbn [length] in *. lia. }
      { cbn [length] in *. lia. }
      exists acc', m'. rewrite C1. repeat split; assumption.
    + destruct m as [|m0]; [lia|]. rewrite set_push by reflexivity.
      replace (Z.of_nat (length acc) + 1) with (Z.of_nat (length (SEP :: acc))) by (cbn [length]; lia).
      destruct (IH s re (j + 1) (SEP :: acc) m0) as (acc' & m' & C1 & C2 & C3); try lia.
      { cbn [length]. lia. }
      { cbn [length]. lia. }
      exists acc', m'. rewrite C1. repeat split; assumption.
  - destruct m as [|m0]; [lia|]. rewrite set_push by reflexivity.
    replace (Z.of_nat (length acc) + 1) with (Z.of_nat (length (rd s i :: acc))) by (cbn [length]; lia).
    destruct (IH s re (i + 1) (rd s i :: acc) m0) as (acc' & m' & C1 & C2 & C3); try lia.
    { cbn [length]. lia. }
    { cbn [length]. lia. }
    exists acc', m'. rewrite C1. repeat split; assumption.
Qed.

Lemma root_scan_total : forall fuel buf r start, (Z.to_nat (r - start) < fuel)%nat ->
  exists x, root_dotdot_scan fuel buf r start = Some x.
Proof.
  induction fuel as [|f IH]; intros buf r start Hf; [lia|].
  cbn [root_dotdot_scan].
  destruct ((start <? r) && (get buf start =? DOT) && (get buf (start + 1) =? DOT) &&
            ((get buf (start + 2) =? SEP) || (get buf (start + 2) =? 0))) eqn:E.
  - apply IH. destruct (get buf (start + 2) =? SEP); lia.
  - eexists. reflexivity.
Qed.

Lemma zix_normal_total : forall s, Z.of_nat (length s) + 2 < W64 -> zix_normal_opt s <> None.
Proof.
  intros s HW. unfold zix_normal_opt, zix_normal_full. destruct s as [|c0 s0]; [discriminate|].
  set (s := c0 :: s0) in *.
  (* first pass *)
  destruct (root_path_range_total s ltac:(discriminate)) as (rb & re & R1 & Hre & Hrl & Hrle).
  set (rl := sz (re - rb)) in *.
  assert (CR : exists acc0, copy_root (S (length s)) s rl 0 0 (repeat 0 (length s + 2))
                            = Some (Z.of_nat (length acc0), B acc0 (length s + 2 - length acc0)) /\
                            Z.of_nat (length acc0) = rl).
  { destruct Hrl as [E | E]; rewrite E.
    - exists []. cbn [copy_root length]. replace (0 <? 0) with false by reflexivity. rewrite Nat.sub_0_r. split; reflexivity.
    - exists [if is_sep (rd s 0) then SEP else rd s 0].
      change (S (length s)) with (S (S (length s0))). cbn [copy_root].
      replace (0 <? 1) with true by reflexivity. replace (0 + 1 <? 1) with false by reflexivity.
      split; [|reflexivity]. cbn [length]. f_equal. f_equal.
      set (n := (length s + 2 - 1)%nat).
      replace (length s + 2)%nat with (S n) by (subst n; lia).
      change (repeat 0 (S n)) with (B [] (S n)).
      rewrite set_push by reflexivity. reflexivity. }
  destruct CR as (acc0 & CR & Erl).
  destruct (copy_loop_total (S (length s)) s re re acc0 (length s + 2 - length acc0)) as (acc' & m' & C1 & C2 & C3);
    try lia.
  { unfold zlen. lia. }
  unfold pass1. rewrite R1. fold rl. rewrite CR. rewrite C1.
  (* second pass *)
  unfold zlen in C3. destruct m' as [|m'']; [lia|].
  assert (EB : B acc' (S m'') = rev acc' ++ 0 :: repeat 0 m'') by reflexivity.
  set (t := rev acc'). assert (Lt : length t = length acc') by apply rev_length.
  set (fuel := ((length s + 2) * (length s + 2))%nat).
  assert (Hrlnat : rl = Z.of_nat (Z.to_nat rl)) by (destruct Hrl as [E | E]; rewrite E; reflexivity).
  destruct (dd_abs_total fuel (Z.to_nat rl) t (length t) 0%nat (or_introl eq_refl) (Nat.le_0_l _)) as (r & Er).
  { unfold fuel. nia. }
  destruct (dd_abs_refine fuel (Z.to_nat rl) t (length t) 0%nat (repeat 0 m'') r (or_introl eq_refl) (Nat.le_0_l _)
              ltac:(rewrite repeat_length; lia) Er) as (junk' & D1 & D2).
  unfold pass2. fold fuel. rewrite EB. fold t. rewrite <- Lt.
  rewrite <- Hrlnat in D1. change (Z.of_nat 0) with 0 in D1. rewrite D1.
  (* third pass and tail: total *)
  unfold pass34.
  destruct (negb (rl =? 0) && is_sep (get (r ++ 0 :: junk') (rl - 1))).
  - destruct (root_scan_total (S (length (r ++ 0 :: junk'))) (r ++ 0 :: junk') (Z.of_nat (length r)) rl) as (x & Ex).
    { rewrite app_length. cbn [length]. lia. }
    rewrite Ex. destruct (x >? rl); [destruct (x <? Z.of_nat (length r))|]; discriminate.
  - discriminate.
Qed.
