(* C10, Windows configuration (src/path.c compiled with -D_WIN32) — the C++17 std::filesystem::path model of
   decomposition and queries in the Windows generic format: '/' and '\' both separate, and a path may start
   with a root-name, either a drive ("C:", a letter and a colon) or a network name ("//host": two separators
   and the run of non-separators after them; three or more separators are a root directory, not a name).
   Written from [fs.path.generic] and the way the Windows implementations read it; it never mentions how zix
   computes anything.  Everything behind the root-name is decomposed exactly as PathDecSpec decomposes a POSIX
   path, with the wider separator class.  Definitions only.

   This spec has NO external oracle in this sandbox (libstdc++ here parses the POSIX format); it is tied to
   the validated POSIX spec by Properties_C10_win.win_spec_extends_posix_spec: on every string without a
   backslash and without a root-name the two specs agree component for component. *)
From Coq Require Import ZArith List Bool.
From Zix Require Import PathDecSpec.
Import ListNotations.
Local Open Scope Z_scope.

Definition wsep (c : Z) : bool := (c =? 47) || (c =? 92).
Definition is_letter (c : Z) : bool := ((65 <=? c) && (c <=? 90)) || ((97 <=? c) && (c <=? 122)).

Fixpoint name_run (s : str) : nat :=
  match s with
  | c :: t => if wsep c then O else S (name_run t)
  | [] => O
  end.

(* length of the root-name *)
Definition root_name_len (s : str) : nat :=
  match s with
  | a :: b :: t =>
      if is_letter a && (b =? 58) then 2%nat
      else if wsep a && wsep b then
        match t with
        | c :: _ => if wsep c then O else (2 + name_run t)%nat
        | [] => O
        end
      else O
  | _ => O
  end.

Definition w_root_name (s : str) : str := firstn (root_name_len s) s.
Definition w_rest (s : str) : str := skipn (root_name_len s) s.

(* --- the part behind the root-name: PathDecSpec's parse with the wider separator class --- *)

Definition w_has_root_dir (r : str) : bool := match r with c :: _ => wsep c | [] => false end.

Fixpoint w_drop_seps (s : str) : str :=
  match s with
  | c :: t => if wsep c then w_drop_seps t else s
  | [] => []
  end.

Fixpoint w_split_sep (s : str) : list str :=
  match s with
  | [] => [[]]
  | c :: t =>
      if wsep c then [] :: w_split_sep t
      else match w_split_sep t with
           | h :: r => (c :: h) :: r
           | [] => [[c]]
           end
  end.

Definition w_elements (r : str) : list str :=
  match w_drop_seps r with
  | [] => []
  | rel => let ps := w_split_sep rel in
           filter (fun x => negb (is_nil x)) (removelast ps) ++ [last ps []]
  end.

(* a path in the abstract: root-name text, root-directory flag, element list *)
Definition wpath : Type := str * bool * list str.
Definition w_as_path (s : str) : wpath := (w_root_name s, w_has_root_dir (w_rest s), w_elements (w_rest s)).

(* --- decomposition --- *)
Definition win_root_name (s : str) : str := w_root_name s.
Definition win_has_root_directory (s : str) : bool := w_has_root_dir (w_rest s).
Definition win_relative_path (s : str) : str := w_drop_seps (w_rest s).
Definition win_parent_path (s : str) : wpath :=
  (w_root_name s, w_has_root_dir (w_rest s), removelast (w_elements (w_rest s))).
Definition win_filename (s : str) : str := last (w_elements (w_rest s)) [].
Definition win_stem (s : str) : str := let f := win_filename s in firstn (ext_cut f) f.
Definition win_extension (s : str) : str := let f := win_filename s in skipn (ext_cut f) f.

(* --- queries --- *)
Definition win_has_root_name (s : str) : bool := negb (is_nil (w_root_name s)).
Definition win_has_root_path (s : str) : bool := win_has_root_name s || win_has_root_directory s.
Definition win_has_relative_path (s : str) : bool := negb (is_nil (win_relative_path s)).
Definition win_has_parent_path (s : str) : bool :=
  win_has_root_name s || win_has_root_directory s || negb (is_nil (removelast (w_elements (w_rest s)))).
Definition win_has_filename (s : str) : bool := negb (is_nil (win_filename s)).
Definition win_has_stem (s : str) : bool := negb (is_nil (win_stem s)).
Definition win_has_extension (s : str) : bool := negb (is_nil (win_extension s)).
(* absolute: a root-name and a root directory ("C:/x"), or a network root-name, which names a place by itself *)
Definition is_drive (s : str) : bool :=
  match s with a :: b :: _ => is_letter a && (b =? 58) | _ => false end.
Definition win_is_absolute (s : str) : bool :=
  win_has_root_name s && (win_has_root_directory s || negb (is_drive s)).
Definition win_is_relative (s : str) : bool := negb (win_is_absolute s).

Definition win_queries (s : str) : list bool :=
  [win_has_root_path s; win_has_root_name s; win_has_root_directory s; win_has_relative_path s;
   win_has_parent_path s; win_has_filename s; win_has_stem s; win_has_extension s;
   win_is_absolute s; win_is_relative s].
