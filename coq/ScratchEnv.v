From Coq Require Import ZArith List Bool String Ascii.
From Zix Require Import EnvSpec EnvModel.
Import ListNotations.
Local Open Scope Z_scope.
Fixpoint b (s : string) : list Z := match s with EmptyString => [] | String a r => Z.of_nat (nat_of_ascii a) :: b r end.
Definition E := Some [b "A=v$A~"; b "HOME=/h"; b "AA=w"; b "_="].
Definition run s := match expand_run E (b s) [] with Ok a => Some (result a, s_log a) | _ => None end.
Eval vm_compute in (run "a$A/rest", spec_expand E (b "a$A/rest")).
Eval vm_compute in (run "~/x:~:a~:$AA$A_$_$", spec_expand E (b "~/x:~:a~:$AA$A_$_$")).
Eval vm_compute in (run "", spec_expand E (b "")).
Eval vm_compute in (run "A~", spec_expand E (b "A~")).
Eval vm_compute in (match expand_run E (b "x$A~") [true;false] with Ok a => Some (result a, s_log a, live (s_log a)) | _ => None end).
