(* C10, Windows configuration: lemmas about PathWinSpec.  The Windows-format spec has no external oracle here;
   these lemmas tie it to PathDecSpec (validated against libstdc++ on every run): on a string without a
   backslash and without a root-name the two specs agree on every component and query but is_absolute
   (a rooted path without a root-name is absolute on POSIX and relative on Windows). *)
From Coq Require Import ZArith List Bool Lia.
From Zix Require Import PathDecSpec PathWinSpec.
Import ListNotations.
Local Open Scope Z_scope.

Definition no_bslash (s : str) : Prop := Forall (fun c => c <> 92) s.

Lemma wsep_is_sep : forall c, c <> 92 -> wsep c = is_sep c.
Proof.
  intros c H. unfold wsep, is_sep. destruct (c =? 92) eqn:E; [apply Z.eqb_eq in E; contradiction|].
  apply orb_false_r.
Qed.

Lemma w_drop_seps_eq : forall s, no_bslash s -> w_drop_seps s = drop_seps s.
Proof.
  induction s as [|c t IH]; intros H; [reflexivity|]. inversion H as [|? ? Hc Ht]; subst.
  cbn [w_drop_seps drop_seps]. rewrite (wsep_is_sep c Hc). destruct (is_sep c); [apply IH; exact Ht|reflexivity].
Qed.

Lemma drop_seps_no_bslash : forall s, no_bslash s -> no_bslash (drop_seps s).
Proof.
  induction s as [|c t IH]; intros H; [exact H|]. inversion H as [|? ? Hc Ht]; subst.
  cbn [drop_seps]. destruct (is_sep c); [apply IH; exact Ht|exact H].
Qed.

Lemma w_split_sep_eq : forall s, no_bslash s -> w_split_sep s = split_sep s.
Proof.
  induction s as [|c t IH]; intros H; [reflexivity|]. inversion H as [|? ? Hc Ht]; subst.
  cbn [w_split_sep split_sep]. rewrite (wsep_is_sep c Hc), (IH Ht). reflexivity.
Qed.

Lemma w_elements_eq : forall s, no_bslash s -> w_elements s = elements s.
Proof.
  intros s H. unfold w_elements, elements. rewrite (w_drop_seps_eq s H).
  destruct (drop_seps s) as [|c t] eqn:E; [reflexivity|].
  rewrite (w_split_sep_eq (c :: t)); [reflexivity|]. rewrite <- E. apply drop_seps_no_bslash. exact H.
Qed.

Lemma w_has_root_dir_eq : forall s, no_bslash s -> w_has_root_dir s = has_root_dir s.
Proof.
  intros [|c t] H; [reflexivity|]. inversion H; subst. cbn. apply wsep_is_sep. assumption.
Qed.

(* every component, for a string in the common part of the two formats *)
Lemma win_extends_posix : forall s, no_bslash s -> root_name_len s = O ->
  win_root_name s = std_root_name s /\
  win_has_root_directory s = std_has_root_directory s /\
  win_relative_path s = std_relative_path s /\
  win_parent_path s = ([], fst (std_parent_path s), snd (std_parent_path s)) /\
  win_filename s = std_filename s /\ win_stem s = std_stem s /\ win_extension s = std_extension s /\
  win_has_root_name s = std_has_root_name s /\ win_has_root_path s = std_has_root_path s /\
  win_has_relative_path s = std_has_relative_path s /\ win_has_parent_path s = std_has_parent_path s /\
  win_has_filename s = std_has_filename s /\ win_has_stem s = std_has_stem s /\
  win_has_extension s = std_has_extension s /\
  win_is_absolute s = false.
Proof.
  intros s H R.
  assert (RN : w_root_name s = []) by (unfold w_root_name; rewrite R; reflexivity).
  assert (RS : w_rest s = s) by (unfold w_rest; rewrite R; reflexivity).
  assert (HD : std_has_root_directory s = has_root_dir s)
    by (unfold std_has_root_directory, std_root_directory; destruct (has_root_dir s); reflexivity).
  unfold win_root_name, win_has_root_directory, win_relative_path, win_parent_path, win_filename, win_stem,
    win_extension, win_has_root_name, win_has_root_path, win_has_relative_path, win_has_parent_path,
    win_has_filename, win_has_stem, win_has_extension, win_is_absolute, win_has_root_name,
    win_has_root_directory, win_filename, win_relative_path.
  rewrite RN, RS, (w_elements_eq s H), (w_has_root_dir_eq s H), (w_drop_seps_eq s H), HD.
  unfold std_root_name, std_relative_path, std_parent_path, std_filename, std_stem, std_extension,
    std_has_root_name, std_has_root_path, std_root_path, std_root_name, std_has_relative_path,
    std_relative_path, std_has_parent_path, std_parent_path, std_has_filename, std_has_stem, std_has_extension,
    std_filename, std_stem, std_extension, std_root_directory, path_is_empty.
  cbn [fst snd is_nil negb app andb orb].
  repeat split; try reflexivity.
  - destruct (has_root_dir s); reflexivity.
  - destruct (has_root_dir s); cbn; [reflexivity|]. destruct (removelast (elements s)); reflexivity.
  - unfold win_stem, win_filename, std_filename. rewrite RS, (w_elements_eq s H). reflexivity.
  - unfold win_extension, win_filename, std_filename. rewrite RS, (w_elements_eq s H). reflexivity.
Qed.

(* internal laws of the Windows spec, for every string *)
Lemma win_stem_ext : forall s, win_filename s = win_stem s ++ win_extension s.
Proof. intros s. unfold win_stem, win_extension. symmetry. apply firstn_skipn. Qed.

Lemma win_root_name_rest : forall s, s = w_root_name s ++ w_rest s.
Proof. intros s. unfold w_root_name, w_rest. symmetry. apply firstn_skipn. Qed.

Lemma win_abs_rel : forall s, win_is_relative s = negb (win_is_absolute s).
Proof. reflexivity. Qed.
