(* C06 — lemmas about the AVL model, part 5: statements over all reachable states (all histories),
   in the form used by Properties_C06.v *)
From Coq Require Import ZArith List Bool Lia ZifyBool Permutation.
From Zix Require Import AvlSpec AvlModel AvlProofs AvlProofsHeight AvlProofsRemove AvlProofsState AvlProofsIter.
Import ListNotations.
Local Open Scope Z_scope.

Section Top.
Variable rank : elt -> Z.

(* the state after a history *)
Definition reach (dup : bool) (ops : list op) (o : list bool) : state := fst (run rank dup ops o init).

Lemma reach_inv : forall dup ops o, inv rank dup (reach dup ops o).
Proof. intros. unfold reach. apply run_inv_refines. apply inv_init. Qed.

Lemma reach_inv_explicit : forall dup ops o,
  let st := reach dup ops o in
  sorted rank (elems (root st)) /\ avl (root st) /\ size st = count (root st) /\
  NoDup (ids (root st)) /\ (dup = false -> rank_inj rank (elems (root st))).
Proof.
  intros dup ops o st. destruct (reach_inv dup ops o) as (S & A & Sz & ND & _ & _ & RI).
  repeat split; assumption.
Qed.

Lemma reach_history : forall dup ops o, abs (reach dup ops o) = srun rank dup ops o ([], 0).
Proof. intros. unfold reach. apply (run_inv_refines rank dup ops o init (inv_init rank dup)). Qed.

Lemma reach_insert : forall dup ops o x o1,
  let st := reach dup ops o in
  let '(s, it, st', o2, _) := insert rank dup x o1 st in
  (s, it, abs st', o2) = sp_insert rank dup x o1 (abs st).
Proof.
  intros dup ops o x o1 st. pose proof (insert_refines rank dup x o1 st (reach_inv dup ops o)) as H.
  destruct (insert rank dup x o1 st) as [[[[s it] st'] o2] c]. apply H.
Qed.

Lemma reach_remove : forall dup ops o id,
  let st := reach dup ops o in
  let '(s, st', dl, _) := remove id st in
  (s, abs st', dl) = sp_remove id (abs st).
Proof.
  intros dup ops o id st. pose proof (remove_refines rank dup id st (reach_inv dup ops o)) as H.
  destruct (remove id st) as [[[s st'] dl] c]. apply H.
Qed.

Lemma reach_find : forall dup ops o x,
  let st := reach dup ops o in
  let '(s, it, lg) := tfind rank x st in
  (it = None <-> sfind rank x (elems (root st)) = None) /\
  (s = NOT_FOUND <-> it = None) /\ (s = SUCCESS <-> it <> None) /\
  (forall y, it = Some y -> In y (elems (root st)) /\ irank rank y = rank x) /\
  (dup = false -> it = sfind rank x (elems (root st))) /\
  Z.of_nat (length lg) <= height (root st).
Proof. intros dup ops o x st. apply (tfind_refines rank dup x st (reach_inv dup ops o)). Qed.

(* ------------------------------------------------------------------ iterator stability *)
Lemma slookup_sins : forall j n x l, j <> n -> slookup j (sins rank (n, x) l) = slookup j l.
Proof.
  intros j n x l H. unfold slookup. induction l as [|a l IH]; cbn [AvlSpec.sins List.find fst].
  - destruct (n =? j) eqn:C; [lia|reflexivity].
  - destruct (irank rank (n, x) <? irank rank a); cbn [List.find fst].
    + destruct (n =? j) eqn:C; [lia|reflexivity].
    + rewrite IH. reflexivity.
Qed.

Lemma slookup_sremove : forall j id l, j <> id -> slookup j (sremove id l) = slookup j l.
Proof.
  intros j id l H. unfold slookup, sremove. induction l as [|a l IH]; cbn [filter List.find]; [reflexivity|].
  destruct (fst a =? id) eqn:C; cbn [negb List.find].
  - destruct (fst a =? j) eqn:C2; [lia|exact IH].
  - rewrite IH. reflexivity.
Qed.

Lemma reach_stable_insert : forall dup ops o x o1 j,
  let st := reach dup ops o in
  let '(_, _, st', _, _) := insert rank dup x o1 st in
  In j (ids (root st)) -> lookup j (root st') = lookup j (root st).
Proof.
  intros dup ops o x o1 j st. pose proof (insert_refines rank dup x o1 st (reach_inv dup ops o)) as H.
  destruct (reach_inv dup ops o) as (_ & _ & _ & _ & Bd & _). fold st in Bd.
  destruct (insert rank dup x o1 st) as [[[[s it] st'] o2] c]. destruct H as [E _].
  intros Hj. apply Bd in Hj. unfold lookup. unfold sp_insert, abs in E.
  destruct (if dup then None else sfind rank x (elems (root st))) as [e|].
  - injection E as _ _ E _ _. rewrite E. reflexivity.
  - destruct (alloc o1) as [ok o3]. destruct ok; injection E as _ _ E _ _; rewrite E; [|reflexivity].
    apply slookup_sins. lia.
Qed.

Lemma reach_stable_remove : forall dup ops o id j,
  let st := reach dup ops o in
  let '(_, st', _, _) := remove id st in
  j <> id -> lookup j (root st') = lookup j (root st).
Proof.
  intros dup ops o id j st. pose proof (remove_refines rank dup id st (reach_inv dup ops o)) as H.
  destruct (remove id st) as [[[s st'] dl] c]. destruct H as [E _].
  intros Hj. unfold lookup. unfold sp_remove, abs in E.
  destruct (slookup id (elems (root st))) as [e|].
  - injection E as _ E _ _. rewrite E. apply slookup_sremove. assumption.
  - injection E as _ E _ _. rewrite E. reflexivity.
Qed.

(* ------------------------------------------------------------------ iteration *)
Lemma hd_error_map : forall (A B : Type) (f : A -> B) l, hd_error (map f l) = option_map f (hd_error l).
Proof. intros A B f [|a l]; reflexivity. Qed.

Lemma reach_iter : forall dup ops o,
  let st := reach dup ops o in
  let l := elems (root st) in
  walk_fwd (root st) = map fst l /\ walk_bwd (root st) = rev (map fst l) /\
  leftmost (root st) = sbegin l /\ rightmost (root st) = srbegin l /\
  (forall id, In id (map fst l) -> tnext id (root st) = snext id l /\ tprev id (root st) = sprev id l).
Proof.
  intros dup ops o st l. destruct (reach_inv dup ops o) as (_ & _ & _ & ND & _). fold st in ND.
  split; [apply walk_fwd_ids; assumption|]. split; [apply walk_bwd_ids; assumption|].
  split; [rewrite leftmost_hd; apply hd_error_map|].
  split.
  { rewrite mirror_rightmost, leftmost_hd, mirror_ids. unfold srbegin, ids. fold l.
    rewrite <- map_rev. apply hd_error_map. }
  intros id Hid. split; [apply tnext_spec; assumption|apply tprev_spec; assumption].
Qed.

(* ------------------------------------------------------------------ destroy *)
Lemma reach_destroy : forall dup ops o,
  let '(fin, evs) := run rank dup ops o init in
  Permutation (destroyed_of evs ++ free_log (root fin)) (inserted_of ops evs) /\
  NoDup (map fst (inserted_of ops evs)).
Proof.
  intros dup ops o. pose proof (run_destroy rank dup ops o init (inv_init rank dup)) as H.
  destruct (run rank dup ops o init) as [fin evs]. destruct H as (P & _ & ND & _).
  split; [|assumption]. cbn [init root elems app] in P.
  eapply Permutation_trans; [|exact P]. apply Permutation_app_head. apply free_log_perm.
Qed.

(* ------------------------------------------------------------------ height and cost *)
Lemma reach_height_fib : forall dup ops o,
  let st := reach dup ops o in
  Z.of_nat (fib (heightn (root st) + 2)) <= size st + 1.
Proof.
  intros dup ops o st. destruct (reach_inv dup ops o) as (_ & A & Sz & _). fold st in A, Sz.
  rewrite Sz. apply avl_fib. assumption.
Qed.

Lemma reach_find_cost : forall dup ops o x,
  let st := reach dup ops o in
  let n := length (snd (tfind rank x st)) in
  Z.of_nat n <= height (root st) /\ Z.of_nat (fib (n + 2)) <= size st + 1.
Proof.
  intros dup ops o x st n. pose proof (find_cost rank x (root st)) as FC.
  assert (EN : n = length (snd (find rank x (root st)))).
  { unfold n, tfind. destruct (find rank x (root st)) as [res lg]. reflexivity. }
  rewrite <- EN in FC. split; [assumption|].
  pose proof (reach_height_fib dup ops o) as HF. fold st in HF. cbv zeta in HF.
  rewrite heightn_height in FC.
  assert (M : (fib (n + 2) <= fib (heightn (root st) + 2))%nat) by (apply fib_mono; lia).
  lia.
Qed.

End Top.
