(* C14 — property theorems (work in progress: the full list follows once CopyProofs is complete). *)
From Coq Require Import ZArith List Bool Lia.
From Zix Require Import CopySpec CopyModel.
Import ListNotations.
Local Open Scope Z_scope.

(* zix_errno_status maps 0, and only 0, to SUCCESS *)
Theorem errno_status_success_iff : forall e, zix_errno_status e = SUCCESS <-> e = 0.
Proof.
  intro e. unfold zix_errno_status, errno_map. cbn [errno_lookup].
  unfold EACCES, EAGAIN, EEXIST, EINVAL, EMLINK, ENOENT, ENOMEM, ENOSPC, ENOSYS, EPERM, ETIMEDOUT, ENOTSUP.
  split.
  - repeat (match goal with |- context [?a =? e] => destruct (Z.eqb_spec a e) end; try discriminate; try lia).
  - intros ->. reflexivity.
Qed.
Print Assumptions errno_status_success_iff.
