(* C14 — property theorems only.  zix_copy_file (CopyModel.v, following filesystem_posix.c / system.c /
   errno_status.c branch for branch) runs against the scripted kernel of CopySpec.v.  Quantified over: source
   kind and bytes, destination state (absent, other file, alias of the source = same path / hard link / symlink,
   directory), errno at entry, EVERY script of call outcomes (full, short count, any errno, for open, fstat,
   stat, copy_file_range, read, write, fdatasync, close, posix_fadvise), both options, both st_blksize values,
   every answer of the caller's allocator (block, or NULL leaving any errno).

   Two explicit environment hypotheses, each shown necessary by a `_refuted` theorem:
   - guard_ok: stat(destination) is not faulted while the destination IS the source and OVERWRITE is set
     (the same-file guard depends on that call; faults on stat are outside the property's fault list);
   - blk_sane: st_blksize < 2^32 (the code casts it to uint32_t; a multiple of 2^32 gives block size 0). *)
From Coq Require Import ZArith List Bool Lia.
From Zix Require Import CopySpec CopyModel CopyProofs CopyProofs2.
Import ListNotations.
Local Open Scope Z_scope.

Definition copy (sk : skind) (src : list Z) (d : dstate) (errno0 : Z) (script : list outcome)
           (overwrite : bool) (b1 b2 : Z) (al : alloc_answer) : status * world :=
  zix_copy_file (world0 sk src d errno0 script) overwrite b1 b2 al.

(* SUCCESS only for a complete copy (of a regular source): the destination then holds exactly the source's bytes *)
Theorem copy_success_complete : forall sk src d errno0 script overwrite b1 b2 al,
  guard_ok d overwrite script -> blk_sane b1 b2 ->
  fst (copy sk src d errno0 script overwrite b1 b2 al) = SUCCESS ->
  sk = SReg /\ dst_bytes (snd (copy sk src d errno0 script overwrite b1 b2 al)) = Some src.
Proof. exact success_complete. Qed.
Print Assumptions copy_success_complete.

(* no I/O operation fails (short counts allowed; the first copy_file_range may answer EXDEV/EINVAL/ENOSYS, as
   across file systems) and the two are different files: SUCCESS, whatever the allocator answers *)
Theorem copy_no_fault_success : forall src d errno0 script overwrite b1 b2 al,
  dst_writable d overwrite -> blk_sane b1 b2 ->
  benignb (match src with [] => true | _ => false end) script = true ->
  fst (copy SReg src d errno0 script overwrite b1 b2 al) = SUCCESS.
Proof. exact no_fault_success. Qed.
Print Assumptions copy_no_fault_success.

(* the source's bytes are never modified *)
Theorem copy_source_unchanged : forall sk src d errno0 script overwrite b1 b2 al,
  guard_ok d overwrite script ->
  w_src (snd (copy sk src d errno0 script overwrite b1 b2 al)) = src.
Proof. exact source_unchanged. Qed.
Print Assumptions copy_source_unchanged.

(* without the overwrite option an existing destination (file, alias, directory) is untouched, the call fails,
   and with EXISTS when none of the four calls made on that path is faulted *)
Theorem copy_excl_untouched : forall sk src d errno0 script b1 b2 al,
  d <> DAbsent ->
  let r := copy sk src d errno0 script false b1 b2 al in
  w_dst (snd r) = d /\ w_src (snd r) = src /\ fst r <> SUCCESS /\
  (sk = SReg -> fault_freeS (firstn 4 script) -> fst r = EXISTS).
Proof. exact excl_untouched. Qed.
Print Assumptions copy_excl_untouched.

(* a source that is not a regular file (directory, device, missing) is refused, nothing is touched, and every
   descriptor is closed *)
Theorem copy_nonregular_refused : forall sk src d errno0 script overwrite b1 b2 al,
  sk <> SReg ->
  let r := copy sk src d errno0 script overwrite b1 b2 al in
  fst r <> SUCCESS /\ w_fds (snd r) = [] /\ w_dst (snd r) = d /\ w_src (snd r) = src.
Proof. exact nonregular_refused. Qed.
Print Assumptions copy_nonregular_refused.

(* every descriptor opened is closed, on every path (no hypothesis at all) *)
Theorem copy_fds_closed : forall sk src d errno0 script overwrite b1 b2 al,
  w_fds (snd (copy sk src d errno0 script overwrite b1 b2 al)) = [].
Proof. exact fds_closed. Qed.
Print Assumptions copy_fds_closed.

(* the model's loops never run out of fuel: the theorems above are about terminating runs *)
Theorem copy_terminates : forall sk src d errno0 script overwrite b1 b2 al,
  guard_ok d overwrite script -> fst (copy sk src d errno0 script overwrite b1 b2 al) <> OUT_OF_FUEL.
Proof. exact never_out_of_fuel. Qed.
Print Assumptions copy_terminates.

(* zix_errno_status maps 0, and only 0, to SUCCESS (why a stale errno matters to zix_system_close_fds) *)
Theorem errno_status_success_iff : forall e, zix_errno_status e = SUCCESS <-> e = 0.
Proof. exact CopyProofs.errno_status_success_iff. Qed.
Print Assumptions errno_status_success_iff.

(* ---- the two hypotheses are necessary ---- *)

(* stat(destination) faulted (EIO) while the destination is a link to the source and OVERWRITE is set: the
   source is truncated and SUCCESS returned.  Outside the property's fault list; recorded, not a finding. *)
Theorem copy_source_stat_fault_refuted :
  exists src script, 
    fst (copy SReg src DAlias 0 script true 4096 4096 AOk) = SUCCESS /\
    w_src (snd (copy SReg src DAlias 0 script true 4096 4096 AOk)) <> src.
Proof. exists [1; 2; 3], [Full; Full; Err 5%positive]. vm_compute. split; [reflexivity|discriminate]. Qed.
Print Assumptions copy_source_stat_fault_refuted.

(* st_blksize = 2^32 and the kernel copy unavailable: block size 0, SUCCESS with an empty destination *)
Theorem copy_blksize_refuted :
  exists src script,
    fst (copy SReg src DAbsent 0 script false (2 ^ 32) 4 AOk) = SUCCESS /\
    dst_bytes (snd (copy SReg src DAbsent 0 script false (2 ^ 32) 4 AOk)) <> Some src.
Proof. exists [1; 2], [Full; Full; Full; Full; Full; Err 18%positive]. vm_compute. split; [reflexivity|discriminate]. Qed.
Print Assumptions copy_blksize_refuted.

(* ---- the hypotheses are satisfiable on non-trivial inputs ---- *)
Example guard_ok_ex : guard_ok DAlias true [Full; Full; Full].
Proof. intros (_ & _ & H). discriminate H. Qed.
Example blk_sane_ex : blk_sane 4096 512.
Proof. split; reflexivity. Qed.
Example benign_ex : benignb false [Full; Short 1; Full; Full; Full; Err 18%positive; Full; Full; Short 2] = true.
Proof. reflexivity. Qed.
(* a multi-block copy through the block loop with short reads and writes, kernel copy unavailable *)
Example copy_ex :
  let r := copy SReg [1;2;3;4;5;6;7;8;9] (DFile [42]) 5 [Full;Full;Full;Full;Full;Err 18%positive;Full;Full;Short 3;Short 1]
                true 4 4 (AFail 12) in
  fst r = SUCCESS /\ dst_bytes (snd r) = Some [1;2;3;4;5;6;7;8;9] /\ w_fds (snd r) = [].
Proof. vm_compute. auto. Qed.
