(* The errno -> ZixStatus table of /repo/src/errno_status.c, REGENERATED from the source on every run
   (gen/ErrnoTable.v, tools/translate_errno.py), is the table the hand-written models of the semaphore, thread,
   file-lock (SemErrnoModel) and copy_file (CopyModel) developments use.  If the source table changes, these
   equalities stop being provable by computation and the checks of C14, C17, C18 and C19 report it. *)
From Coq Require Import ZArith List Bool.
From Zix Require SemErrnoModel CopySpec CopyModel.
From Zix.gen Require Import ErrnoTable.
Import ListNotations.
Local Open Scope Z_scope.

Theorem errno_table_is_sem_model :
  errno_table = map (fun p => (fst p, SemErrnoModel.status_code (snd p))) SemErrnoModel.errno_map /\
  errno_fallback = SemErrnoModel.status_code SemErrnoModel.ERROR.
Proof. split; reflexivity. Qed.
Print Assumptions errno_table_is_sem_model.

Definition copy_status_code (s : CopySpec.status) : Z :=
  match s with
  | CopySpec.SUCCESS => 0 | CopySpec.ERROR => 1 | CopySpec.NO_MEM => 2 | CopySpec.NOT_FOUND => 3
  | CopySpec.EXISTS => 4 | CopySpec.BAD_ARG => 5 | CopySpec.BAD_PERMS => 6 | CopySpec.REACHED_END => 7
  | CopySpec.TIMEOUT => 8 | CopySpec.OVERFLOW => 9 | CopySpec.NOT_SUPPORTED => 10 | CopySpec.UNAVAILABLE => 11
  | CopySpec.NO_SPACE => 12 | CopySpec.MAX_LINKS => 13 | CopySpec.OUT_OF_FUEL => -1
  end.

Theorem errno_table_is_copy_model :
  errno_table = map (fun p => (fst p, copy_status_code (snd p))) CopyModel.errno_map /\
  errno_fallback = copy_status_code CopySpec.ERROR.
Proof. split; reflexivity. Qed.
Print Assumptions errno_table_is_copy_model.

(* consequences read off the regenerated table directly: only errno 0 maps to SUCCESS, and the mappings the
   properties name *)
Fixpoint table_lookup (t : list (Z * Z)) (e : Z) : Z :=
  match t with [] => errno_fallback | (c, s) :: t' => if Z.eqb c e then s else table_lookup t' e end.

Theorem errno_success_only_for_zero : forall e, table_lookup errno_table e = 0 <-> e = 0.
Proof.
  intros e. split.
  - unfold errno_table. cbn [table_lookup].
    repeat match goal with |- context [Z.eqb ?c e] => destruct (Z.eqb_spec c e) as [<-|] end;
      cbn; intros H; try reflexivity; try discriminate H.
  - intros ->. reflexivity.
Qed.
Print Assumptions errno_success_only_for_zero.

Theorem errno_named_mappings :
  table_lookup errno_table 11 = 11 (* EAGAIN / EWOULDBLOCK -> UNAVAILABLE *) /\
  table_lookup errno_table 110 = 8 (* ETIMEDOUT -> TIMEOUT *) /\
  table_lookup errno_table 12 = 2  (* ENOMEM -> NO_MEM *) /\
  table_lookup errno_table 17 = 4  (* EEXIST -> EXISTS *) /\
  table_lookup errno_table 28 = 12 (* ENOSPC -> NO_SPACE *) /\
  table_lookup errno_table 4 = 1   (* EINTR is not in the table: fallback ERROR *).
Proof. repeat split; reflexivity. Qed.
Print Assumptions errno_named_mappings.
