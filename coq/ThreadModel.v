(* C18: model of src/posix/thread_posix.c (zix_thread_create, zix_thread_join).  Definitions only.
   The library code is glue: a fixed sequence of pthread calls and a status mapping.  The pthread
   primitives are an explicit small environment model (trusted, smoke-tested):
   - attribute objects carry a stack size (default after init, the given size after a successful
     setstacksize); pthread_create with result 0 starts one thread that calls fn(arg) on a stack of
     the size in the attribute object it was given (the default when given NULL);
   - pthread_join sleeps until the thread function has returned. *)
From Coq Require Import ZArith List Bool Arith.
From Zix Require Import SemErrnoModel.
Import ListNotations.
Local Open Scope Z_scope.

(* ------------------------------------------------------------------ calls as the wrappers see them *)
Inductive tcall :=
| CAttrInit (a : nat)
| CSetStack (a : nat) (size : Z)
| CCreate (attr : option nat) (fn arg : Z)      (* None = NULL attributes *)
| CAttrDestroy (a : nat)
| CJoin (t : Z) (retval_null : bool).

Record started := { th_fn : Z; th_arg : Z; th_stack : Z }.

Record penv := {
  e_default : Z;                  (* the platform's default stack size *)
  e_attrs : list (nat * Z);       (* attribute object -> stack size it carries *)
  e_started : list started;       (* threads started, i.e. invocations of thread functions *)
  e_calls : list tcall            (* every call made, in order *)
}.

Fixpoint attr_lookup (l : list (nat * Z)) (a : nat) (d : Z) : Z :=
  match l with
  | [] => d
  | (a', s) :: l' => if Nat.eqb a' a then s else attr_lookup l' a d
  end.

Definition log_call (c : tcall) (e : penv) : penv :=
  {| e_default := e_default e; e_attrs := e_attrs e; e_started := e_started e;
     e_calls := e_calls e ++ [c] |}.

Definition set_attr (a : nat) (s : Z) (e : penv) : penv :=
  {| e_default := e_default e; e_attrs := (a, s) :: e_attrs e; e_started := e_started e;
     e_calls := e_calls e |}.

(* each primitive takes the result r it returns (0 or an errno value) as an explicit argument *)
Definition env_attr_init (a : nat) (r : Z) (e : penv) : penv :=
  let e := log_call (CAttrInit a) e in
  if r =? 0 then set_attr a (e_default e) e else e.

Definition env_setstacksize (a : nat) (size r : Z) (e : penv) : penv :=
  let e := log_call (CSetStack a size) e in
  if r =? 0 then set_attr a size e else e.

Definition env_create (attr : option nat) (fn arg r : Z) (e : penv) : penv :=
  let e := log_call (CCreate attr fn arg) e in
  if r =? 0 then
    let stack := match attr with
                 | Some a => attr_lookup (e_attrs e) a (e_default e)
                 | None => e_default e
                 end in
    {| e_default := e_default e; e_attrs := e_attrs e;
       e_started := e_started e ++ [{| th_fn := fn; th_arg := arg; th_stack := stack |}];
       e_calls := e_calls e |}
  else e.

Definition env_attr_destroy (a : nat) (e : penv) : penv := log_call (CAttrDestroy a) e.

Record create_script := { r_init : Z; r_set : Z; r_create : Z }.

(*  pthread_attr_t attr;
    pthread_attr_init(&attr);                              result ignored
    pthread_attr_setstacksize(&attr, stack_size);          result ignored
    const int ret = pthread_create(thread, &attr, function, arg);
    pthread_attr_destroy(&attr);
    return zix_errno_status(ret);                                          *)
Definition thread_create_model (sc : create_script) (size fn arg : Z) (e : penv) : status * penv :=
  let attr := O in    (* the one local attribute object *)
  let e1 := env_attr_init attr (r_init sc) e in
  let e2 := env_setstacksize attr size (r_set sc) e1 in
  let e3 := env_create (Some attr) fn arg (r_create sc) e2 in
  let e4 := env_attr_destroy attr e3 in
  (errno_status (r_create sc), e4).

(* return pthread_join(thread, NULL) ? ZIX_STATUS_ERROR : ZIX_STATUS_SUCCESS; *)
Definition thread_join_model (t r : Z) (e : penv) : status * penv :=
  (if r =? 0 then SUCCESS else ERROR, log_call (CJoin t true) e).

Definition new_env (default : Z) : penv :=
  {| e_default := default; e_attrs := []; e_started := []; e_calls := [] |}.

(* glibc: pthread_attr_setstacksize fails (EINVAL) exactly below PTHREAD_STACK_MIN *)
Definition STACK_MIN := 16384.
Definition glibc_setstack_result (size : Z) : Z := if size <? STACK_MIN then EINVAL else 0.

(* ------------------------------------------------------------------ ideal thread life cycle *)
(* thread bodies are lists of writes (address, value); the joiner is the scheduler's IJoin choice *)
Record ithread := { i_body : list (Z * Z); i_returned : bool }.
Record join_entry := { j_thread : nat; j_status : status; j_mem : list (nat * (Z * Z)) }.
Record isys := {
  i_threads : list ithread;
  i_mem : list (nat * (Z * Z));      (* writes performed so far: (thread, (address, value)) *)
  i_joins : list join_entry          (* completed zix_thread_join calls with the memory they saw *)
}.
Inductive ichoice := IStep (i : nat) | IJoin (i : nat).

Fixpoint iupd {A} (i : nat) (x : A) (l : list A) : list A :=
  match l, i with
  | [], _ => []
  | _ :: l', O => x :: l'
  | y :: l', S i' => y :: iupd i' x l'
  end.

Definition istep (ch : ichoice) (s : isys) : isys :=
  match ch with
  | IStep i =>
      match nth_error (i_threads s) i with
      | None => s
      | Some t =>
          match i_body t with
          | w :: rest =>
              {| i_threads := iupd i {| i_body := rest; i_returned := false |} (i_threads s);
                 i_mem := i_mem s ++ [(i, w)]; i_joins := i_joins s |}
          | [] =>
              {| i_threads := iupd i {| i_body := []; i_returned := true |} (i_threads s);
                 i_mem := i_mem s; i_joins := i_joins s |}
          end
      end
  | IJoin i =>
      match nth_error (i_threads s) i with
      | None => s
      | Some t =>
          if i_returned t then   (* pthread_join returns 0 only now; zix maps it *)
            {| i_threads := i_threads s; i_mem := i_mem s;
               i_joins := i_joins s ++ [{| j_thread := i; j_status := fst (thread_join_model 0 0 (new_env 0));
                                           j_mem := i_mem s |}] |}
          else s                 (* the joiner sleeps *)
      end
  end.

Fixpoint irun (sched : list ichoice) (s : isys) : isys :=
  match sched with
  | [] => s
  | ch :: rest => irun rest (istep ch s)
  end.

Definition iinit (bodies : list (list (Z * Z))) : isys :=
  {| i_threads := map (fun b => {| i_body := b; i_returned := false |}) bodies;
     i_mem := []; i_joins := [] |}.

Definition writes_of (i : nat) (m : list (nat * (Z * Z))) : list (Z * Z) :=
  map snd (filter (fun e => Nat.eqb (fst e) i) m).
