(* C10 — faithful model of the decomposition functions and queries of /repo/src/path.c (POSIX build:
   is_dir_sep c = (c == '/'), zix_path_root_name_range = {0,0}).  Definitions only.

   A C string is a list of bytes s (values 1..255) followed by a NUL.  Every read `path[i]` of the
   C code is `rdr s i`: the byte for 0 <= i < len, 0 (the NUL) for i = len, and the outcome `Oob`
   for any other index (negative = size_t underflow, or past the NUL).  Functions run in the result
   monad, so "no byte outside the NUL-terminated input is read" is "the model never returns Oob".
   Loops take fuel (len + 1) and return `NoFuel` when it runs out; a theorem excludes that.
   size_t values are Z without wrap-around: the only sums (`root.begin + l + 1 - p`,
   `stem.end + path.length - stem.end`) stay below 2*len + 2, and a subtraction that would go below
   zero shows up as a negative index, i.e. as Oob or as a range outside [0,len] (both excluded by
   theorems).  `path.length` (= strlen) is the list length. *)
From Coq Require Import ZArith List Bool.
Import ListNotations.
Local Open Scope Z_scope.

Definition mstr := list Z.
Definition slen (s : mstr) : Z := Z.of_nat (length s).

Inductive res (A : Type) : Type :=
| Ok (a : A)
| Oob          (* a byte outside [0, len] was read *)
| NoFuel.      (* a loop did not stop within len + 1 iterations *)
Arguments Ok {A} a.
Arguments Oob {A}.
Arguments NoFuel {A}.

Definition bind {A B} (x : res A) (f : A -> res B) : res B :=
  match x with Ok a => f a | Oob => Oob | NoFuel => NoFuel end.
Notation "x <- e ;; f" := (bind e (fun x => f)) (at level 61, e at next level, right associativity).

Definition rd (s : mstr) (i : Z) : option Z :=
  if i <? 0 then None
  else if i <? slen s then Some (nth (Z.to_nat i) s 0)
  else if i =? slen s then Some 0
  else None.

Definition rdr (s : mstr) (i : Z) : res Z :=
  match rd s i with Some c => Ok c | None => Oob end.

Definition fuel_of (s : mstr) : nat := S (length s).

(* ---- index_range.h ---- *)
Definition range : Type := Z * Z.                      (* {begin, end} *)
Definition rbegin (r : range) : Z := fst r.
Definition rend (r : range) : Z := snd r.
Definition is_empty_range (r : range) : bool := rbegin r =? rend r.

(* ---- path.c, POSIX branch ---- *)
Definition is_dir_sep (c : Z) : bool := c =? 47.
Definition root_name_range (path : option mstr) : range := (0, 0).

(* while (is_dir_sep(path[dir.end])) { dir.begin = dir.end++; } *)
Fixpoint root_dir_loop (fuel : nat) (s : mstr) (b e : Z) : res range :=
  match fuel with
  | O => NoFuel
  | S k => c <- rdr s e ;;
           if is_dir_sep c then root_dir_loop k s e (e + 1) else Ok (b, e)
  end.

(* zix_path_root_slices: (name, dir) *)
Definition root_slices (path : option mstr) : res (range * range) :=
  let name := root_name_range path in
  match path with
  | None => Ok (name, (rend name, rend name))                (* dir_len = path && ... = 0 *)
  | Some s =>
      c <- rdr s (rend name) ;;
      if negb (is_dir_sep c) then Ok (name, (rend name, rend name))
      else dir <- root_dir_loop (fuel_of s) s (rend name) (rend name + 1) ;; Ok (name, dir)
  end.

(* zix_path_root_path_range *)
Definition root_path_range (path : option mstr) : res range :=
  root <- root_slices path ;;
  let name := fst root in
  let dir := snd root in
  let dir_len := if is_empty_range dir then 0 else 1 in
  Ok (if is_empty_range name then dir else (rbegin name, rend name + dir_len)).

(* the five backward loops of path.c all have the shape
     while (l > p && pred(path[l - off])) { --l; }                                        *)
Fixpoint scan_down (pred : Z -> bool) (off : Z) (fuel : nat) (s : mstr) (p l : Z) : res Z :=
  match fuel with
  | O => NoFuel
  | S k =>
      if l >? p then
        c <- rdr s (l - off) ;;
        if pred c then scan_down pred off k s p (l - 1) else Ok l
      else Ok l
  end.

Definition not_dir_sep (c : Z) : bool := negb (is_dir_sep c).
Definition not_dot (c : Z) : bool := negb (c =? 46).

(* zix_path_parent_path_range (path = {data, length}) *)
Definition parent_path_range (s : mstr) : res range :=
  let len := slen s in
  if len =? 0 then Ok (0, 0)
  else
    root <- root_path_range (Some s) ;;
    let p := rbegin root in
    let l0 := len - 1 in
    c <- rdr s l0 ;;
    l1 <- (if is_dir_sep c
           then scan_down is_dir_sep 1 (fuel_of s) s p l0      (* skip trailing redundant separators *)
           else scan_down not_dir_sep 0 (fuel_of s) s p l0) ;; (* skip trailing name *)
    if l1 <=? rend root then Ok root
    else
      l2 <- scan_down is_dir_sep 0 (fuel_of s) s p l1 ;;       (* drop trailing separators *)
      Ok (rbegin root, rbegin root + l2 + 1 - p).

(* zix_path_filename_range *)
Definition filename_range (s : mstr) : res range :=
  let len := slen s in
  if len =? 0 then Ok (0, 0)
  else
    root <- root_path_range (Some s) ;;
    let b := rend root in
    if b =? len then Ok (0, 0)
    else
      c <- rdr s (len - 1) ;;
      if is_dir_sep c then Ok (0, 0)
      else f <- scan_down not_dir_sep 1 (fuel_of s) s b (len - 1) ;; Ok (f, len).

(* strncmp(path + b, lit, |lit|) == 0: byte after byte, stopping at the first difference
   (lit has no NUL, so a NUL in path is a difference) *)
Fixpoint strncmp_eq (s : mstr) (b : Z) (lit : list Z) : res bool :=
  match lit with
  | [] => Ok true
  | c :: t => x <- rdr s b ;; if x =? c then strncmp_eq s (b + 1) t else Ok false
  end.

(* zix_string_ranges_equal(path, r, lit, {0, |lit|}) *)
Definition ranges_equal_lit (s : mstr) (r : range) (lit : list Z) : res bool :=
  let lhs_len := rend r - rbegin r in
  let rhs_len := slen lit - 0 in
  if lhs_len =? rhs_len then (if lhs_len =? 0 then Ok true else strncmp_eq s (rbegin r) lit)
  else Ok false.

(* zix_path_stem_range *)
Definition stem_range (s : mstr) : res range :=
  name <- filename_range s ;;
  stem <- (if is_empty_range name then Ok name
           else
             e1 <- ranges_equal_lit s name [46] ;;
             if e1 then Ok name
             else
               e2 <- ranges_equal_lit s name [46; 46] ;;
               if e2 then Ok name
               else
                 e <- scan_down not_dot 0 (fuel_of s) s (rbegin name) (rend name - 1) ;;
                 Ok (rbegin name, e)) ;;
  Ok (if is_empty_range stem then name else stem).

(* zix_path_extension_range *)
Definition extension_range (s : mstr) : res range :=
  stem <- stem_range s ;;
  Ok (if is_empty_range stem then stem else (rend stem, rend stem + slen s - rend stem)).

(* ---- views: ZixStringView {data, length}; data is reported relative to the input pointer ---- *)
Inductive view : Type :=
| InInput (off len : Z)        (* data = path + off *)
| StaticEmpty.                 (* zix_empty_string(): a static "", length 0 *)

(* range_string_view *)
Definition range_string_view (r : range) : view := InInput (rbegin r) (rend r - rbegin r).

Definition zix_path_root_name (s : mstr) : res view := Ok StaticEmpty.
Definition zix_path_root_directory (s : mstr) : res view :=
  root <- root_slices (Some s) ;; Ok (range_string_view (snd root)).
Definition zix_path_root_path (s : mstr) : res view :=
  r <- root_path_range (Some s) ;; Ok (range_string_view r).
Definition zix_path_relative_path (s : mstr) : res view :=
  root <- root_path_range (Some s) ;; Ok (range_string_view (rend root, slen s)).
Definition zix_path_parent_path (s : mstr) : res view :=
  r <- parent_path_range s ;; Ok (range_string_view r).
Definition zix_path_filename (s : mstr) : res view :=
  r <- filename_range s ;; Ok (range_string_view r).
Definition zix_path_stem (s : mstr) : res view :=
  r <- stem_range s ;; Ok (range_string_view r).
Definition zix_path_extension (s : mstr) : res view :=
  r <- extension_range s ;; Ok (range_string_view r).

(* ---- queries (path may be NULL = None); zix_string(NULL) is the empty view ---- *)
Definition zstring (path : option mstr) : mstr := match path with Some s => s | None => [] end.

Definition zix_path_has_root_path (path : option mstr) : res bool :=
  r <- root_path_range path ;; Ok (negb (is_empty_range r)).
Definition zix_path_has_root_name (path : option mstr) : res bool :=
  Ok (negb (is_empty_range (root_name_range path))).
Definition zix_path_has_root_directory (path : option mstr) : res bool :=
  root <- root_slices path ;; Ok (negb (is_empty_range (snd root))).
Definition zix_path_has_relative_path (path : option mstr) : res bool :=
  match path with
  | None => Ok false
  | Some s => r <- root_path_range path ;; c <- rdr s (rend r) ;; Ok (negb (c =? 0))
  end.
Definition zix_path_has_parent_path (path : option mstr) : res bool :=
  r <- parent_path_range (zstring path) ;; Ok (negb (is_empty_range r)).
Definition zix_path_has_filename (path : option mstr) : res bool :=
  r <- filename_range (zstring path) ;; Ok (negb (is_empty_range r)).
Definition zix_path_has_stem (path : option mstr) : res bool :=
  r <- stem_range (zstring path) ;; Ok (negb (is_empty_range r)).
Definition zix_path_has_extension (path : option mstr) : res bool :=
  r <- extension_range (zstring path) ;; Ok (negb (is_empty_range r)).
Definition zix_path_is_absolute (path : option mstr) : res bool :=
  match path with
  | None => Ok false
  | Some s => c <- rdr s 0 ;; Ok (is_dir_sep c)
  end.
Definition zix_path_is_relative (path : option mstr) : res bool :=
  a <- zix_path_is_absolute path ;; Ok (negb a).

(* the ten queries in header order, all-or-first-failure *)
Fixpoint sequence {A} (l : list (res A)) : res (list A) :=
  match l with
  | [] => Ok []
  | x :: t => a <- x ;; r <- sequence t ;; Ok (a :: r)
  end.

Definition zix_query_calls (path : option mstr) : list (res bool) :=
  [zix_path_has_root_path path; zix_path_has_root_name path;
   zix_path_has_root_directory path; zix_path_has_relative_path path;
   zix_path_has_parent_path path; zix_path_has_filename path; zix_path_has_stem path;
   zix_path_has_extension path; zix_path_is_absolute path; zix_path_is_relative path].

Definition zix_queries (path : option mstr) : res (list bool) := sequence (zix_query_calls path).

(* the eight decomposition calls, in header order *)
Definition zix_views (s : mstr) : list (res view) :=
  [zix_path_root_name s; zix_path_root_directory s; zix_path_root_path s; zix_path_relative_path s;
   zix_path_parent_path s; zix_path_filename s; zix_path_stem s; zix_path_extension s].

(* the bytes a view denotes *)
Definition slice (s : mstr) (b e : Z) : mstr := firstn (Z.to_nat (e - b)) (skipn (Z.to_nat b) s).
Definition view_text (s : mstr) (v : view) : mstr :=
  match v with InInput o l => slice s o (o + l) | StaticEmpty => [] end.
Definition view_in_input (s : mstr) (v : view) : Prop :=
  match v with
  | InInput o l => 0 <= o /\ 0 <= l /\ o + l <= slen s
  | StaticEmpty => True          (* the empty view *)
  end.
