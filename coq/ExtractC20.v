Require Extraction.
Require Import ExtrOcamlBasic.
From Zix Require Import StatusModel.
From Zix.gen Require Import StatusTable.
Separate Extraction StatusModel.strerror StatusModel.defined_values StatusModel.well_formed
  StatusModel.sv_equals StatusModel.sv_copy StatusModel.slice
  StatusTable.enum_table StatusTable.switch_table StatusTable.default_msg.
