(* BTreeProofsRemove — removal from the B-tree model: fatten_child, remove_min, remove_max, replace_value,
   remove_down and remove preserve the invariant and refine the sorted-list spec set_remove; the `next`
   iterator stands at the in-order successor of the removed element. *)
From Coq Require Import ZArith List Bool Arith Lia ZifyBool ZifyNat.
From Zix Require Import BTreeSpec BTreeModel BTreeProofsBase.
From Zix Require Import BTreeProofsRemovePrim BTreeProofsIter.
Import ListNotations.
Ltac Zify.zify_post_hook ::= Z.div_mod_to_equations.
Set Default Proof Using "All".

Section Remove.
  Variable elt : Type.
  Variable rank : elt -> Z.
  Variable dflt : elt.
  Variables L I : nat.
  Hypothesis HI : I = L / 2.
  Hypothesis HI3 : 3 <= I.
  Notation node := (node elt).
  Notation tree := (tree elt).
  Notation dnode := (@dnode elt).
  Notation asc := (@asc elt rank).
  Notation mono := (@monotone elt).
  Notation PK := (PK L I).
  Notation set_remove := (@set_remove elt).
  Notation set_find := (@set_find elt).
  Notation del_rank := (@del_rank elt).
  (* lemmas of the sibling files take the section context first *)
  Notation B3 f := (f elt rank dflt) (only parsing).
  Notation B7 f := (f elt rank dflt L I HI HI3) (only parsing).

  Ltac unf := unfold min_vals, max_vals, n_vals, can_remove_from, is_full, minL, minI in *;
              cbn [is_leaf vals children] in *.

  (* ---------------------------------------------------------------- small facts *)
  Lemma same_kind : forall h (a b : node), kids_ok L I h a -> kids_ok L I h b ->
    min_vals L I a = min_vals L I b /\ max_vals L I a = max_vals L I b /\ is_leaf a = is_leaf b.
  Proof.
    intros [|h] [va|va ca] [vb|vb cb]; cbn [kids_ok]; intros Ha Hb; try tauto; try (repeat split; reflexivity).
  Qed.

  Lemma wfn_same_kind : forall h (a b : node), wfn L I h a -> wfn L I h b ->
    min_vals L I a = min_vals L I b /\ max_vals L I a = max_vals L I b.
  Proof.
    intros h a b Ha Hb. apply (B7 wfn_kids_ok) in Ha, Hb.
    destruct (same_kind h a b Ha Hb) as (H1 & H2 & _). auto.
  Qed.

  Lemma wfn_bounds : forall h (n : node), wfn L I h n -> min_vals L I n <= n_vals n <= max_vals L I n.
  Proof. intros h n H. apply (B7 wfn_iff) in H. tauto. Qed.

  Lemma min_lt_max : forall n : node, min_vals L I n < max_vals L I n.
  Proof. intros [vs|vs cs]; unf; lia. Qed.

  Lemma can_remove_true : forall n : node, can_remove_from L I n = true <-> min_vals L I n < n_vals n.
  Proof. intros n. unfold can_remove_from. apply Nat.ltb_lt. Qed.

  Lemma can_remove_false : forall h (n : node), wfn L I h n -> can_remove_from L I n = false ->
    n_vals n = min_vals L I n.
  Proof.
    intros h n W H. apply wfn_bounds in W. unfold can_remove_from in H. apply Nat.ltb_ge in H. lia.
  Qed.

  Lemma plug_cons : forall (vs : list elt) cs i c, 1 <= length vs -> plug (Inode vs cs) i c = Inode vs (aset cs i c).
  Proof. intros [|v vs] cs i c H; [cbn in H; lia|reflexivity]. Qed.

  Lemma app_mid_assoc : forall A (a : list A) x b c, a ++ x :: b ++ c = (a ++ x :: b) ++ c.
  Proof. intros. rewrite <- app_assoc. reflexivity. Qed.

  Lemma wfn_elements_nonnil : forall h (n : node), wfn L I h n -> elements n <> [].
  Proof.
    intros h [vs|vs cs] W.
    - apply (B7 wfn_leaf_inv) in W as [_ B]. pose proof (B7 minL_ge1) as M. unfold minL in M.
      cbn [elements]. destruct vs; [cbn [length] in B; lia|discriminate].
    - apply (B7 wfn_inode_inv) in W as (h' & _ & _ & Hl & B & _). pose proof (B7 minI_ge1) as M. unfold minI in M.
      destruct vs as [|v vs]; [cbn [length] in B; lia|].
      intros E. pose proof (B3 in_vals_elements (v :: vs) cs v Hl (or_introl eq_refl)) as Hin.
      rewrite E in Hin. exact Hin.
  Qed.

  (* ---------------------------------------------------------------- listing after rewriting one separator and one child *)
  Lemma elements_one_l : forall (vs : list elt) cs i x l', length cs = S (length vs) -> i < length vs ->
    elements (Inode (aset vs i x) (aset cs i l')) =
    pre vs cs i ++ elements l' ++ x :: elements (nth (S i) cs dnode) ++ post vs cs (S i).
  Proof.
    intros vs cs i x l' Hl Hi.
    rewrite (B7 elements_split2 (aset vs i x) (aset cs i l') i).
    2:{ rewrite !length_aset; lia. }
    2:{ rewrite length_aset; lia. }
    rewrite (nth_aset_neq cs i (S i)) by lia. rewrite !nth_aset_eq by lia.
    f_equal; [|f_equal; f_equal; f_equal].
    - apply (B7 pre_ext); apply firstn_aset; lia.
    - apply (B7 post_ext).
      + apply skipn_aset. lia.
      + apply (B7 skipn_aset_gt); lia.
  Qed.

  Lemma elements_one_r : forall (vs : list elt) cs i x r', length cs = S (length vs) -> i < length vs ->
    elements (Inode (aset vs i x) (aset cs (S i) r')) =
    pre vs cs i ++ elements (nth i cs dnode) ++ x :: elements r' ++ post vs cs (S i).
  Proof.
    intros vs cs i x r' Hl Hi.
    rewrite (B7 elements_split2 (aset vs i x) (aset cs (S i) r') i).
    2:{ rewrite !length_aset; lia. }
    2:{ rewrite length_aset; lia. }
    rewrite (nth_aset_neq cs (S i) i) by lia. rewrite !nth_aset_eq by lia.
    f_equal; [|f_equal; f_equal; f_equal].
    - apply (B7 pre_ext).
      + apply firstn_aset; lia.
      + apply (B7 firstn_aset_lt); lia.
    - apply (B7 post_ext).
      + apply skipn_aset. lia.
      + apply skipn_aset. lia.
  Qed.

  (* ---------------------------------------------------------------- where the old child ends up after a rotation *)
  Lemma rotate_left_child : forall h vs cs i, PK h vs cs -> i < length vs ->
    exists t, elements (nth i (children (rotate_left dflt (Inode vs cs) i)) dnode) =
              elements (nth i cs dnode) ++ nth i vs dflt :: t.
  Proof.
    intros h vs cs i HP Hi.
    pose proof (B7 PK_child h vs cs i HP ltac:(lia)) as Wl.
    pose proof (B7 PK_child h vs cs (S i) HP ltac:(lia)) as Wr.
    destruct HP as [Hl Hf].
    unfold rotate_left.
    destruct (nth i cs dnode) as [lv|lv lc] eqn:El; destruct (nth (S i) cs dnode) as [rv|rv rc] eqn:Er.
    - cbn [children]. rewrite nth_aset_neq by (rewrite ?length_aset; lia). rewrite nth_aset_eq by lia.
      exists []. reflexivity.
    - exfalso. apply (B7 wfn_leaf_inv) in Wl as [-> _]. apply (B7 wfn_inode_inv) in Wr as (h' & E & Hn & _). lia.
    - exfalso. apply (B7 wfn_leaf_inv) in Wr as [-> _]. apply (B7 wfn_inode_inv) in Wl as (h' & E & Hn & _). lia.
    - cbn [children]. rewrite nth_aset_neq by (rewrite ?length_aset; lia). rewrite nth_aset_eq by lia.
      apply (B7 wfn_inode_inv) in Wl as (h' & -> & Hn & Ll & Bl & Fl).
      exists (elements (nth 0 rc dnode)). rewrite (B7 elements_snoc) by assumption. reflexivity.
  Qed.

  Lemma rotate_right_child : forall h vs cs j, PK h vs cs -> j < length vs ->
    exists t, elements (nth (S j) (children (rotate_right dflt (Inode vs cs) (S j))) dnode) =
              t ++ nth j vs dflt :: elements (nth (S j) cs dnode).
  Proof.
    intros h vs cs j HP Hj.
    pose proof (B7 PK_child h vs cs j HP ltac:(lia)) as Wl.
    pose proof (B7 PK_child h vs cs (S j) HP ltac:(lia)) as Wr.
    destruct HP as [Hl Hf].
    unfold rotate_right. replace (S j - 1) with j by lia.
    destruct (nth j cs dnode) as [lv|lv lc] eqn:El; destruct (nth (S j) cs dnode) as [rv|rv rc] eqn:Er.
    - cbn [children]. rewrite nth_aset_eq by (rewrite ?length_aset; lia).
      exists []. reflexivity.
    - exfalso. apply (B7 wfn_leaf_inv) in Wl as [-> _]. apply (B7 wfn_inode_inv) in Wr as (h' & E & Hn & _). lia.
    - exfalso. apply (B7 wfn_leaf_inv) in Wr as [-> _]. apply (B7 wfn_inode_inv) in Wl as (h' & E & Hn & _). lia.
    - cbn [children]. rewrite nth_aset_eq by (rewrite ?length_aset; lia).
      exists (elements (nth (length lv) lc dnode)). rewrite (B7 elements_uncons). reflexivity.
  Qed.

  (* ---------------------------------------------------------------- fatten_child *)
  (* under [strong] no in-loop merge can empty the page *)
  Definition strong (n : node) : Prop :=
    match n with
    | Leaf _ => True
    | Inode vs cs =>
      2 <= length vs \/
      (length vs = 1 /\ can_remove_from L I (nth 0 cs dnode) || can_remove_from L I (nth 1 cs dnode) = true)
    end.

  Lemma fatten_child_spec : forall h vs cs i, PK h vs cs -> i <= length vs -> strong (Inode vs cs) ->
    can_remove_from L I (nth i cs dnode) = false ->
    exists vs1 cs1 i', fatten_child dflt L I (Inode vs cs) i = (Inode vs1 cs1, i') /\
      PK h vs1 cs1 /\ i' <= length vs1 /\ 1 <= length vs1 /\ length vs - 1 <= length vs1 <= length vs /\
      min_vals L I (nth i' cs1 dnode) < n_vals (nth i' cs1 dnode) /\
      elements (Inode vs1 cs1) = elements (Inode vs cs) /\
      (forall y, In y (elements (nth i cs dnode)) -> In y (elements (nth i' cs1 dnode))) /\
      (i = 0 -> i' = 0) /\ (i = length vs -> i' = length vs1).
  Proof.
    intros h vs cs i HP Hi Hs Hc.
    assert (Hvs : 1 <= length vs) by (cbn [strong] in Hs; lia).
    pose proof (B7 PK_child h vs cs i HP Hi) as Wi.
    pose proof (can_remove_false h _ Wi Hc) as Hmin.
    pose proof (min_lt_max (nth i cs dnode)) as Hmm.
    assert (Hlcs : length cs = S (length vs)) by (destruct HP; assumption).
    unfold fatten_child. unfold child. cbn [children]. change (n_vals (Inode vs cs)) with (length vs).
    rewrite Nat.add_1_r.
    destruct ((0 <? i) && can_remove_from L I (nth (i - 1) cs dnode)) eqn:EA.
    { (* rotate_right *)
      apply andb_true_iff in EA as [E0 EA]. apply Nat.ltb_lt in E0. destruct i as [|j]; [lia|].
      replace (S j - 1) with j in EA by lia. apply can_remove_true in EA.
      destruct (B7 rotate_right_spec h vs cs j HP ltac:(lia) EA ltac:(lia))
        as (x & l' & r' & Er & Wl' & Wr' & Nr & Nl & Ee).
      destruct (rotate_right_child h vs cs j HP ltac:(lia)) as [t Et].
      rewrite Er in Et. cbn [children] in Et. rewrite nth_aset_eq in Et by (rewrite length_aset; lia).
      exists (aset vs j x), (aset (aset cs j l') (S j) r'), (S j). rewrite Er.
      split; [reflexivity|]. split; [apply (B7 PK_two); auto; lia|]. rewrite length_aset by lia.
      split; [lia|]. split; [lia|]. split; [lia|].
      rewrite nth_aset_eq by (rewrite length_aset; lia).
      split. { destruct (wfn_same_kind h r' _ Wr' Wi) as [Em _]. rewrite Em. lia. }
      split. { rewrite (B7 elements_two) by lia. rewrite (B7 elements_split2 vs cs j) by lia.
               f_equal. rewrite (app_mid_assoc _ (elements l')), Ee, <- app_mid_assoc. reflexivity. }
      split. { intros y Hy. rewrite Et. apply in_or_app. right. right. exact Hy. }
      split; intros; lia. }
    destruct ((i <? length vs) && can_remove_from L I (nth (S i) cs dnode)) eqn:EB.
    { (* rotate_left *)
      apply andb_true_iff in EB as [E0 EB]. apply Nat.ltb_lt in E0. apply can_remove_true in EB.
      destruct (B7 rotate_left_spec h vs cs i HP E0 EB ltac:(lia))
        as (x & l' & r' & Er & Wl' & Wr' & Nl & Nr & Ee).
      destruct (rotate_left_child h vs cs i HP E0) as [t Et].
      rewrite Er in Et. cbn [children] in Et.
      rewrite nth_aset_neq in Et by (rewrite ?length_aset; lia). rewrite nth_aset_eq in Et by lia.
      exists (aset vs i x), (aset (aset cs i l') (S i) r'), i. rewrite Er.
      split; [reflexivity|]. split; [apply (B7 PK_two); auto; lia|]. rewrite length_aset by lia.
      split; [lia|]. split; [lia|]. split; [lia|].
      rewrite nth_aset_neq by (rewrite ?length_aset; lia). rewrite nth_aset_eq by lia.
      split. { destruct (wfn_same_kind h l' _ Wl' Wi) as [Em _]. rewrite Em. lia. }
      split. { rewrite (B7 elements_two) by lia. rewrite (B7 elements_split2 vs cs i) by lia.
               f_equal. rewrite (app_mid_assoc _ (elements l')), Ee, <- app_mid_assoc. reflexivity. }
      split. { intros y Hy. rewrite Et. apply in_or_app. left. exact Hy. }
      split; intros; lia. }
    destruct (i =? length vs) eqn:EC.
    { (* merge with the left sibling *)
      apply Nat.eqb_eq in EC. destruct i as [|j]; [lia|]. replace (S j - 1) with j in * by lia.
      apply andb_false_iff in EA as [EA|EA]; [apply Nat.ltb_ge in EA; lia|].
      pose proof (B7 PK_child h vs cs j HP ltac:(lia)) as Wj.
      pose proof (can_remove_false h _ Wj EA) as Hminj.
      assert (H2 : 2 <= length vs).
      { destruct Hs as [Hs|[Hs1 Hs2]]; [lia|]. exfalso. assert (j = 0) by lia. subst j.
        rewrite EA, Hc in Hs2. discriminate. }
      destruct (B7 merge_spec h vs cs j HP ltac:(lia) Hminj Hmin) as (m & Em & Wm & Nm & Eem).
      exists (aerase vs j), (aerase (aset cs j m) (S j)), j. rewrite Em.
      split; [reflexivity|]. split; [apply (B7 PK_merge); auto; lia|]. rewrite length_aerase by lia.
      split; [lia|]. split; [lia|]. split; [lia|].
      rewrite (B7 nth_aerase_lt) by lia. rewrite nth_aset_eq by lia.
      split; [assumption|].
      split. { rewrite (B7 elements_merge_parent) by lia. rewrite (B7 elements_split2 vs cs j) by lia.
               rewrite Eem, <- app_assoc. reflexivity. }
      split. { intros y Hy. rewrite Eem. apply in_or_app. right. right. exact Hy. }
      split; intros; lia. }
    { (* merge with the right sibling *)
      apply Nat.eqb_neq in EC. assert (Hi' : i < length vs) by lia.
      apply andb_false_iff in EB as [EB|EB]; [apply Nat.ltb_ge in EB; lia|].
      pose proof (B7 PK_child h vs cs (S i) HP ltac:(lia)) as Wj.
      pose proof (can_remove_false h _ Wj EB) as Hminj.
      assert (H2 : 2 <= length vs).
      { destruct Hs as [Hs|[Hs1 Hs2]]; [lia|]. exfalso. assert (i = 0) by lia. subst i.
        rewrite EB, Hc in Hs2. discriminate. }
      destruct (B7 merge_spec h vs cs i HP Hi' Hmin Hminj) as (m & Em & Wm & Nm & Eem).
      exists (aerase vs i), (aerase (aset cs i m) (S i)), i. rewrite Em.
      split; [reflexivity|]. split; [apply (B7 PK_merge); auto; lia|]. rewrite length_aerase by lia.
      split; [lia|]. split; [lia|]. split; [lia|].
      rewrite (B7 nth_aerase_lt) by lia. rewrite nth_aset_eq by lia.
      split; [assumption|].
      split. { rewrite (B7 elements_merge_parent) by lia. rewrite (B7 elements_split2 vs cs i) by lia.
               rewrite Eem, <- app_assoc. reflexivity. }
      split. { intros y Hy. rewrite Eem. apply in_or_app. left. exact Hy. }
      split; intros; lia. }
  Qed.

  (* ---------------------------------------------------------------- remove_min / remove_max *)
  Lemma remove_min_spec : forall h (n : node), wfn L I h n -> min_vals L I n < n_vals n ->
    exists m n', remove_min dflt L I h n = (m, n') /\ elements n = m :: elements n' /\ wfn L I h n'.
  Proof.
    induction h as [|h IH]; intros n W Hc; [exact (False_ind _ W)|].
    destruct n as [vs|vs cs].
    - apply (B7 wfn_leaf_inv) in W as [Eh Bd]. injection Eh as ->.
      cbn [remove_min]. unf. destruct vs as [|v vs]; [cbn [length] in *; lia|].
      exists v, (Leaf vs). split; [reflexivity|]. split; [reflexivity|].
      apply (B7 wfn_leaf_intro). cbn [length] in *. lia.
    - apply (B7 wfn_inode_inv) in W as (h' & Eh & Hn & Hl & Bd & Hf). injection Eh as <-.
      assert (HP : PK h vs cs) by (split; assumption).
      assert (H2 : 2 <= length vs) by (unf; lia).
      assert (Hs : strong (Inode vs cs)) by (left; lia).
      assert (exists vs1 cs1, PK h vs1 cs1 /\ 1 <= length vs1 /\ length vs - 1 <= length vs1 <= length vs /\
                min_vals L I (nth 0 cs1 dnode) < n_vals (nth 0 cs1 dnode) /\
                elements (Inode vs1 cs1) = elements (Inode vs cs) /\
                remove_min dflt L I (S h) (Inode vs cs) =
                (let '(m, c') := remove_min dflt L I h (nth 0 cs1 dnode) in (m, Inode vs1 (aset cs1 0 c'))))
        as (vs1 & cs1 & HP1 & H1 & Hlen & Hmin & Eel & Eq).
      { cbn [remove_min]. destruct (can_remove_from L I (nth 0 cs dnode)) eqn:E0.
        - exists vs, cs. repeat split; auto; try lia. apply can_remove_true; auto.
        - destruct (fatten_child_spec h vs cs 0 HP ltac:(lia) Hs E0)
            as (vs1 & cs1 & i' & Ef & HP1 & Hi' & H1 & Hlen & Hmin & Eel & _ & Hz & _).
          specialize (Hz eq_refl). subst i'.
          exists vs1, cs1. do 5 (split; [assumption|]).
          unfold fatten_child in Ef. unfold child in Ef. cbn [children] in Ef.
          change (n_vals (Inode vs cs)) with (length vs) in Ef.
          change (0 <? 0) with false in Ef. cbn [andb] in Ef. change (0 + 1) with 1 in Ef.
          replace (0 <? length vs) with true in Ef by (symmetry; apply Nat.ltb_lt; lia).
          replace (0 =? length vs) with false in Ef by (symmetry; apply Nat.eqb_neq; lia).
          cbn [andb] in Ef.
          destruct (can_remove_from L I (nth 1 cs dnode)) eqn:E1.
          + apply (f_equal fst) in Ef. cbn [fst] in Ef. rewrite Ef. unfold child. cbn [children set_child]. reflexivity.
          + apply (f_equal fst) in Ef. cbn [fst] in Ef. rewrite Ef. unfold child. cbn [children].
            destruct (remove_min dflt L I h (nth 0 cs1 dnode)) as [m c']. rewrite plug_cons by lia. reflexivity. }
      pose proof (B7 PK_child h vs1 cs1 0 HP1 ltac:(lia)) as W0.
      destruct (IH _ W0 Hmin) as (m & c' & Erm & Eel' & Wc').
      rewrite Eq, Erm. exists m, (Inode vs1 (aset cs1 0 c')). split; [reflexivity|].
      assert (Hl1 : length cs1 = S (length vs1)) by (destruct HP1; assumption).
      split.
      + rewrite <- Eel. rewrite (B3 elements_aset vs1 cs1 0 c') by lia.
        rewrite (B3 elements_split vs1 cs1 0) by lia. rewrite (B3 pre_0), Eel'. reflexivity.
      + destruct (B7 PK_aset h vs1 cs1 0 c' HP1 ltac:(lia) Wc') as [Hl' Hf'].
        apply (B7 wfn_inode_intro); auto. unf. lia.
  Qed.

  Lemma remove_max_spec : forall h (n : node), wfn L I h n -> min_vals L I n < n_vals n ->
    exists m n', remove_max dflt L I h n = (m, n') /\ elements n = elements n' ++ [m] /\ wfn L I h n'.
  Proof.
    induction h as [|h IH]; intros n W Hc; [exact (False_ind _ W)|].
    destruct n as [vs|vs cs].
    - apply (B7 wfn_leaf_inv) in W as [Eh Bd]. injection Eh as ->.
      cbn [remove_max]. unf.
      assert (Hne : vs <> []) by (destruct vs; [cbn [length] in *; lia|discriminate]).
      exists (nth (length vs - 1) vs dflt), (Leaf (firstn (length vs - 1) vs)).
      split; [reflexivity|]. split; [cbn [elements]; apply (B7 snoc_last); assumption|].
      apply (B7 wfn_leaf_intro). rewrite firstn_length. lia.
    - apply (B7 wfn_inode_inv) in W as (h' & Eh & Hn & Hl & Bd & Hf). injection Eh as <-.
      assert (HP : PK h vs cs) by (split; assumption).
      assert (H2 : 2 <= length vs) by (unf; lia).
      assert (Hs : strong (Inode vs cs)) by (left; lia).
      assert (exists vs1 cs1, PK h vs1 cs1 /\ 1 <= length vs1 /\ length vs - 1 <= length vs1 <= length vs /\
                min_vals L I (nth (length vs1) cs1 dnode) < n_vals (nth (length vs1) cs1 dnode) /\
                elements (Inode vs1 cs1) = elements (Inode vs cs) /\
                remove_max dflt L I (S h) (Inode vs cs) =
                (let '(m, c') := remove_max dflt L I h (nth (length vs1) cs1 dnode) in
                 (m, Inode vs1 (aset cs1 (length vs1) c'))))
        as (vs1 & cs1 & HP1 & H1 & Hlen & Hmin & Eel & Eq).
      { cbn [remove_max]. destruct (can_remove_from L I (nth (length vs) cs dnode)) eqn:E0.
        - exists vs, cs. repeat split; auto; try lia. apply can_remove_true; auto.
        - destruct (fatten_child_spec h vs cs (length vs) HP ltac:(lia) Hs E0)
            as (vs1 & cs1 & i' & Ef & HP1 & Hi' & H1 & Hlen & Hmin & Eel & _ & _ & Hz).
          specialize (Hz eq_refl). subst i'.
          exists vs1, cs1. do 5 (split; [assumption|]).
          unfold fatten_child in Ef. unfold child in Ef. cbn [children] in Ef.
          change (n_vals (Inode vs cs)) with (length vs) in Ef.
          replace (0 <? length vs) with true in Ef by (symmetry; apply Nat.ltb_lt; lia).
          rewrite Nat.ltb_irrefl, Nat.eqb_refl in Ef. cbn [andb] in Ef.
          destruct (can_remove_from L I (nth (length vs - 1) cs dnode)) eqn:E1.
          + pose proof (f_equal snd Ef) as Ez. apply (f_equal fst) in Ef. cbn [fst snd] in Ef, Ez. rewrite Ef. rewrite Ez. unfold child. cbn [children set_child]. reflexivity.
          + pose proof (f_equal snd Ef) as Ez. apply (f_equal fst) in Ef. cbn [fst snd] in Ef, Ez. rewrite Ef. rewrite Ez. unfold child. cbn [children].
            destruct (remove_max dflt L I h (nth (length vs1) cs1 dnode)) as [m c']. rewrite plug_cons by lia.
            reflexivity. }
      pose proof (B7 PK_child h vs1 cs1 (length vs1) HP1 ltac:(lia)) as W0.
      destruct (IH _ W0 Hmin) as (m & c' & Erm & Eel' & Wc').
      rewrite Eq, Erm. exists m, (Inode vs1 (aset cs1 (length vs1) c')). split; [reflexivity|].
      assert (Hl1 : length cs1 = S (length vs1)) by (destruct HP1; assumption).
      split.
      + rewrite <- Eel. rewrite (B3 elements_aset vs1 cs1 (length vs1) c') by lia.
        rewrite (B3 elements_split vs1 cs1 (length vs1)) by lia.
        rewrite (B3 post_end) by lia. rewrite Eel', !app_nil_r, app_assoc. reflexivity.
      + destruct (B7 PK_aset h vs1 cs1 (length vs1) c' HP1 ltac:(lia) Wc') as [Hl' Hf'].
        apply (B7 wfn_inode_intro); auto. unf. lia.
  Qed.

  (* ---------------------------------------------------------------- replace_value *)
  Lemma PK_aset_val : forall h (vs : list elt) cs i x, PK h vs cs -> i < length vs -> PK h (aset vs i x) cs.
  Proof. intros h vs cs i x [Hl Hf] Hi. split; auto. rewrite length_aset; lia. Qed.

  Lemma replace_value_spec : forall h vs cs i, PK h vs cs -> i < length vs -> asc (elements (Inode vs cs)) ->
    match replace_value dflt L I h (Inode vs cs) i with
    | None => can_remove_from L I (nth i cs dnode) = false /\ can_remove_from L I (nth (S i) cs dnode) = false
    | Some (out, n') =>
      out = nth i vs dflt /\
      exists vs' cs' l1 l2, n' = Inode vs' cs' /\ PK h vs' cs' /\ length vs' = length vs /\
        elements (Inode vs cs) = l1 ++ out :: l2 /\ elements n' = l1 ++ l2 /\
        (((rank (nth i vs' dflt) < rank out)%Z /\ S (pos n' [i]) = length l1) \/
         ((rank out < rank (nth i vs' dflt))%Z /\ pos n' [i] = length l1))
    end.
  Proof.
    intros h vs cs i HP Hi Hasc.
    pose proof (B7 PK_child h vs cs i HP ltac:(lia)) as Wl.
    pose proof (B7 PK_child h vs cs (S i) HP ltac:(lia)) as Wr.
    assert (Hlcs : length cs = S (length vs)) by (destruct HP; assumption).
    unfold replace_value. unfold child. cbn [children vals]. rewrite !Nat.add_1_r.
    destruct (negb (can_remove_from L I (nth i cs dnode)) && negb (can_remove_from L I (nth (S i) cs dnode))) eqn:En.
    { apply andb_true_iff in En as [E1 E2]. apply negb_true_iff in E1, E2. auto. }
    assert (Hcan : min_vals L I (nth i cs dnode) < n_vals (nth i cs dnode) \/
                   min_vals L I (nth (S i) cs dnode) < n_vals (nth (S i) cs dnode)).
    { apply andb_false_iff in En as [E|E]; apply negb_false_iff in E; apply can_remove_true in E; auto. }
    destruct (wfn_same_kind h _ _ Wl Wr) as [Hk _].
    pose proof (wfn_bounds h _ Wl) as Bl. pose proof (wfn_bounds h _ Wr) as Br.
    pose proof (B7 elements_split2 vs cs i Hlcs Hi) as Esp.
    destruct (if n_vals (nth (S i) cs dnode) <? n_vals (nth i cs dnode) then true
              else if n_vals (nth i cs dnode) <? n_vals (nth (S i) cs dnode) then false else Nat.odd i) eqn:Eum.
    - (* replace with the predecessor *)
      assert (Hcl : min_vals L I (nth i cs dnode) < n_vals (nth i cs dnode)).
      { destruct (n_vals (nth (S i) cs dnode) <? n_vals (nth i cs dnode)) eqn:E1; [apply Nat.ltb_lt in E1; lia|].
        destruct (n_vals (nth i cs dnode) <? n_vals (nth (S i) cs dnode)) eqn:E2; [discriminate|].
        apply Nat.ltb_ge in E1, E2. lia. }
      destruct (remove_max_spec h _ Wl Hcl) as (m & c' & Erm & Eel & Wc'). rewrite Erm.
      split; [reflexivity|].
      exists (aset vs i m), (aset cs i c'), (pre vs cs i ++ elements (nth i cs dnode)),
             (elements (nth (S i) cs dnode) ++ post vs cs (S i)).
      split; [reflexivity|].
      split; [apply PK_aset_val; auto; apply (B7 PK_aset); auto; lia|].
      split; [apply length_aset; lia|].
      split; [rewrite Esp, <- app_assoc; reflexivity|].
      split; [rewrite elements_one_l by lia; rewrite Eel, <- !app_assoc; reflexivity|].
      left. rewrite nth_aset_eq by lia. split.
      + rewrite Esp, Eel in Hasc. rewrite app_assoc in Hasc. apply (B3 asc_app) in Hasc as (_ & _ & H).
        apply H; [apply in_or_app; right; apply in_or_app; right; left; reflexivity|left; reflexivity].
      + rewrite (B7 pos_single_inode). rewrite nth_aset_eq by lia.
        rewrite (B7 pre_ext vs (aset vs i m) cs (aset cs i c') i) by (apply firstn_aset; lia).
        rewrite Eel, !app_length. cbn [length]. lia.
    - (* replace with the successor *)
      assert (Hcr : min_vals L I (nth (S i) cs dnode) < n_vals (nth (S i) cs dnode)).
      { destruct (n_vals (nth (S i) cs dnode) <? n_vals (nth i cs dnode)) eqn:E1; [discriminate|].
        destruct (n_vals (nth i cs dnode) <? n_vals (nth (S i) cs dnode)) eqn:E2; [apply Nat.ltb_lt in E2; lia|].
        apply Nat.ltb_ge in E1, E2. lia. }
      destruct (remove_min_spec h _ Wr Hcr) as (m & c' & Erm & Eel & Wc'). rewrite Erm.
      split; [reflexivity|].
      exists (aset vs i m), (aset cs (S i) c'), (pre vs cs i ++ elements (nth i cs dnode)),
             (elements (nth (S i) cs dnode) ++ post vs cs (S i)).
      split; [reflexivity|].
      split; [apply PK_aset_val; auto; apply (B7 PK_aset); auto; lia|].
      split; [apply length_aset; lia|].
      split; [rewrite Esp, <- app_assoc; reflexivity|].
      split; [rewrite elements_one_r by lia; rewrite Eel, <- !app_assoc; reflexivity|].
      right. rewrite nth_aset_eq by lia. split.
      + rewrite Esp, Eel in Hasc. rewrite app_assoc in Hasc. apply (B3 asc_mid) in Hasc as (_ & _ & _ & H & _).
        apply H. left. reflexivity.
      + rewrite (B7 pos_single_inode). rewrite (nth_aset_neq cs (S i) i) by lia.
        rewrite (B7 pre_ext vs (aset vs i m) cs (aset cs (S i) c') i);
          [|apply firstn_aset; lia|apply (B7 firstn_aset_lt); lia].
        rewrite !app_length. lia.
  Qed.

  (* ---------------------------------------------------------------- remove_down *)
  Lemma strong_of_min : forall h (n : node), wfn L I h n -> min_vals L I n < n_vals n -> strong n.
  Proof.
    intros h [vs|vs cs] W H; cbn [strong]; auto. left. unf. lia.
  Qed.

  Definition rd_post (h : nat) (n : node) (e : elt) (r : rm_res elt) : Prop :=
    kids_ok L I h (rr_node r) /\
    n_vals n - 1 <= n_vals (rr_node r) <= n_vals n /\
    (is_leaf (rr_node r) = false -> 1 <= n_vals (rr_node r)) /\
    (forall y, In y (rr_log r) -> In y (elements n)) /\
    ((rr_st r = SUCCESS /\ exists x l1 l2, rr_out r = Some x /\ rank x = rank e /\
        elements n = l1 ++ x :: l2 /\ elements (rr_node r) = l1 ++ l2 /\
        match rr_act r with
        | AReset => elements (rr_node r) = []
        | AKeep => valid (rr_node r) (rr_frames r) /\ pos (rr_node r) (rr_frames r) = length l1
        | AIncr => valid (rr_node r) (rr_frames r) /\ S (pos (rr_node r) (rr_frames r)) = length l1
        end) \/
     (rr_st r = NOT_FOUND /\ rr_out r = None /\ elements (rr_node r) = elements n /\
      forall y, In y (elements n) -> rank y <> rank e)).

  Lemma valid_pos_lift : forall (vs : list elt) cs i (c' : node) fr, i <= length vs -> i < length cs ->
    valid c' fr ->
    valid (Inode vs (aset cs i c')) (i :: fr) /\
    pos (Inode vs (aset cs i c')) (i :: fr) = length (pre vs cs i) + pos c' fr.
  Proof.
    intros vs cs i c' fr Hi Hc Hv. destruct fr as [|j q]; [exact (False_ind _ Hv)|]. split.
    - apply (B7 valid_cons). unfold child. cbn [is_leaf children]. rewrite nth_aset_eq by lia.
      unfold n_vals. cbn [vals]. auto.
    - rewrite (B7 pos_cons_inode). rewrite nth_aset_eq by lia. rewrite (B3 pre_aset) by lia. reflexivity.
  Qed.

  Lemma child_pre : forall h (vs1 : list elt) cs1 i', PK h vs1 cs1 -> i' <= length vs1 ->
    asc (elements (Inode vs1 cs1)) -> min_vals L I (nth i' cs1 dnode) < n_vals (nth i' cs1 dnode) ->
    kids_ok L I h (nth i' cs1 dnode) /\ asc (elements (nth i' cs1 dnode)) /\ strong (nth i' cs1 dnode).
  Proof.
    intros h vs1 cs1 i' HP Hi Ha Hm. pose proof (B7 PK_child h vs1 cs1 i' HP Hi) as W.
    split; [apply (B7 wfn_kids_ok); assumption|].
    split; [apply (B3 asc_child vs1 cs1 i'); auto; destruct HP; assumption|].
    eapply strong_of_min; eauto.
  Qed.

  Lemma rd_post_lift : forall h (vs : list elt) cs vs1 cs1 i' e r lg,
    h <> 0 -> PK h vs1 cs1 -> i' <= length vs1 -> 1 <= length vs1 -> length vs - 1 <= length vs1 <= length vs ->
    elements (Inode vs1 cs1) = elements (Inode vs cs) ->
    (forall y, In y (elements (Inode vs cs)) -> rank y = rank e -> In y (elements (nth i' cs1 dnode))) ->
    (forall y, In y lg -> In y (elements (Inode vs cs))) ->
    min_vals L I (nth i' cs1 dnode) < n_vals (nth i' cs1 dnode) ->
    rd_post h (nth i' cs1 dnode) e r ->
    rd_post (S h) (Inode vs cs) e
      (mkRm (rr_st r) (rr_out r) (Inode vs1 (aset cs1 i' (rr_node r))) (i' :: rr_frames r) (rr_act r)
            (lg ++ rr_log r)).
  Proof.
    intros h vs cs vs1 cs1 i' e r lg Hh HP Hi H1 Hlen Eel Hloc Hlg Hmin (Hk & Hnv & Hleaf & Hlog & Hcase).
    pose proof (B7 PK_child h vs1 cs1 i' HP Hi) as W.
    assert (Hl1 : length cs1 = S (length vs1)) by (destruct HP; assumption).
    assert (Wc' : wfn L I h (rr_node r)).
    { apply (B7 wfn_iff). split; [assumption|].
      destruct (same_kind h _ _ Hk (B7 wfn_kids_ok _ _ W)) as (E1 & E2 & _).
      pose proof (wfn_bounds h _ W). lia. }
    pose proof (B7 PK_aset h vs1 cs1 i' (rr_node r) HP Hi Wc') as [Hl' Hf'].
    unfold rd_post. cbn [rr_node rr_st rr_out rr_frames rr_act rr_log].
    split; [cbn [kids_ok]; auto|].
    split; [unfold n_vals; cbn [vals]; lia|].
    split; [intros _; unfold n_vals; cbn [vals]; lia|].
    split.
    { intros y Hy. apply in_app_or in Hy as [Hy|Hy]; [auto|]. apply Hlog in Hy. rewrite <- Eel.
      apply (B3 in_child_elements vs1 cs1 i' y); auto. }
    destruct Hcase as [(Est & x & l1 & l2 & Eout & Erk & Ec & Ec' & Hact)|(Est & Eout & Ec' & Hno)].
    - left. split; [assumption|].
      exists x, (pre vs1 cs1 i' ++ l1), (l2 ++ post vs1 cs1 i').
      split; [assumption|]. split; [assumption|].
      split; [rewrite <- Eel, (B3 elements_split vs1 cs1 i') by lia; rewrite Ec, <- !app_assoc; reflexivity|].
      split; [rewrite (B3 elements_aset vs1 cs1 i') by lia; rewrite Ec', <- !app_assoc; reflexivity|].
      rewrite app_length.
      destruct (rr_act r).
      + exfalso. exact (wfn_elements_nonnil h _ Wc' Hact).
      + destruct Hact as [Hv Hp].
        destruct (valid_pos_lift vs1 cs1 i' (rr_node r) (rr_frames r) Hi ltac:(lia) Hv) as [Hv' Hp'].
        split; [assumption|lia].
      + destruct Hact as [Hv Hp].
        destruct (valid_pos_lift vs1 cs1 i' (rr_node r) (rr_frames r) Hi ltac:(lia) Hv) as [Hv' Hp'].
        split; [assumption|lia].
    - right. split; [assumption|]. split; [assumption|].
      split.
      + rewrite <- Eel, (B3 elements_aset vs1 cs1 i') by lia. rewrite (B3 elements_split vs1 cs1 i') by lia.
        rewrite Ec'. reflexivity.
      + intros y Hy Hr. apply (Hno y); auto.
  Qed.

  Lemma rd_post_leaf : forall (vs : list elt) e i fr act lg, i < length vs -> rank (nth i vs dflt) = rank e ->
    (forall y, In y lg -> In y vs) ->
    match act with
    | AReset => aerase vs i = []
    | AKeep => valid (Leaf (aerase vs i)) fr /\ pos (Leaf (aerase vs i)) fr = i
    | AIncr => valid (Leaf (aerase vs i)) fr /\ S (pos (Leaf (aerase vs i)) fr) = i
    end ->
    rd_post 1 (Leaf vs) e (mkRm SUCCESS (Some (nth i vs dflt)) (Leaf (aerase vs i)) fr act lg).
  Proof.
    intros vs e i fr act lg Hi Hr Hlg Hact.
    unfold rd_post. cbn [rr_node rr_st rr_out rr_frames rr_act rr_log].
    split; [reflexivity|].
    split; [unfold n_vals; cbn [vals]; rewrite length_aerase by lia; lia|].
    split; [discriminate|].
    split; [exact Hlg|].
    left. split; [reflexivity|]. exists (nth i vs dflt), (firstn i vs), (skipn (S i) vs).
    split; [reflexivity|]. split; [assumption|].
    split; [cbn [elements]; apply firstn_skipn_nth; assumption|].
    split; [reflexivity|].
    rewrite firstn_length. replace (Nat.min i (length vs)) with i by lia.
    destruct act; auto.
  Qed.

  Lemma remove_down_spec : forall h (n : node) e, kids_ok L I h n -> asc (elements n) -> strong n ->
    rd_post h n e (remove_down rank dflt L I h n e).
  Proof.
    induction h as [|h IH]; intros n e Hk Hasc Hs; [exact (False_ind _ Hk)|].
    destruct n as [vs|vs cs].
    - cbn [kids_ok] in Hk. subst h. cbn [remove_down]. cbn [elements] in Hasc.
      pose proof (B3 find_value_spec (cmpk rank e) vs (B3 cmpk_mono e vs Hasc)) as Hfv.
      destruct (find_value dflt (cmpk rank e) vs) as [[i eq] lg].
      destruct Hfv as (Hi & Ht & Hf & Hlg & _).
      destruct eq; cbn [negb].
      + destruct (Ht eq_refl) as [Hi' Heq]. apply (proj1 (B3 cmpk_Eq _ _)) in Heq.
        pose proof (length_aerase vs i Hi') as Hlen.
        destruct (length (aerase vs i) =? 0) eqn:E0; [|destruct (i =? length (aerase vs i)) eqn:E1].
        * apply Nat.eqb_eq in E0. apply rd_post_leaf; auto. apply length_zero_iff_nil. assumption.
        * apply Nat.eqb_neq in E0. apply Nat.eqb_eq in E1. apply rd_post_leaf; auto.
          rewrite (B7 valid_single), (B7 pos_leaf). unfold n_vals. cbn [vals]. lia.
        * apply Nat.eqb_neq in E0. apply Nat.eqb_neq in E1. apply rd_post_leaf; auto.
          rewrite (B7 valid_single), (B7 pos_leaf). unfold n_vals. cbn [vals]. lia.
      + destruct (Hf eq_refl) as [Hlt Hgt].
        unfold rd_post. cbn [rr_node rr_st rr_out rr_frames rr_act rr_log].
        split; [reflexivity|]. split; [lia|]. split; [discriminate|]. split; [exact Hlg|].
        right. split; [reflexivity|]. split; [reflexivity|]. split; [reflexivity|].
        intros y Hy. cbn [elements] in Hy. apply (In_nth _ _ dflt) in Hy as (j & Hj & <-).
        destruct (Nat.lt_ge_cases j i) as [Hji|Hji].
        * specialize (Hlt j Hji). apply (proj1 (B3 cmpk_Lt _ _)) in Hlt. lia.
        * specialize (Hgt j ltac:(lia)). apply (proj1 (B3 cmpk_Gt _ _)) in Hgt. lia.
    - cbn [kids_ok] in Hk. destruct Hk as (Hh & Hl & Hf).
      assert (HP : PK h vs cs) by (split; assumption).
      assert (Hvs : 1 <= length vs) by (cbn [strong] in Hs; lia).
      pose proof (B3 cmpk_mono e _ Hasc) as Hmono.
      cbn [remove_down].
      pose proof (B3 find_value_spec (cmpk rank e) vs (B3 mono_vals _ vs cs Hl Hmono)) as Hfv.
      destruct (find_value dflt (cmpk rank e) vs) as [[i eq] lg].
      destruct Hfv as (Hi & Ht & Hff & Hlg0 & _).
      assert (Hlg : forall y, In y lg -> In y (elements (Inode vs cs))).
      { intros y Hy. apply (B3 in_vals_elements); auto. }
      destruct eq.
      + destruct (Ht eq_refl) as [Hi' Heq]. apply (proj1 (B3 cmpk_Eq _ _)) in Heq.
        pose proof (replace_value_spec h vs cs i HP Hi' Hasc) as Hrv.
        destruct (replace_value dflt L I h (Inode vs cs) i) as [[out n']|].
        * destruct Hrv as (Eout & vs' & cs' & l1 & l2 & En' & HP' & Hlen & Eel & Eel' & Hpos). subst n' out.
          assert (Hl' : length cs' = S (length vs')) by (destruct HP'; assumption).
          cbn [vals].
          unfold rd_post. cbn [rr_node rr_st rr_out rr_frames rr_act rr_log].
          split; [cbn [kids_ok]; destruct HP'; auto|].
          split; [unfold n_vals; cbn [vals]; lia|].
          split; [intros _; unfold n_vals; cbn [vals]; lia|].
          split.
          { intros y Hy. apply in_app_or in Hy as [Hy|[<-|[]]]; [auto|].
            assert (Hin : In (nth i vs' dflt) (elements (Inode vs' cs'))).
            { apply (B3 in_vals_elements); auto. apply nth_In. lia. }
            rewrite Eel' in Hin. rewrite Eel. apply in_app_or in Hin as [Hin|Hin]; apply in_or_app; auto.
            right. right. assumption. }
          left. split; [reflexivity|]. exists (nth i vs dflt), l1, l2.
          split; [reflexivity|]. split; [assumption|]. split; [assumption|]. split; [assumption|].
          destruct Hpos as [[Hrk Hp]|[Hrk Hp]].
          -- replace (cmpk rank e (nth i vs' dflt)) with Lt by (symmetry; apply (B3 cmpk_Lt); lia).
             split; [|assumption]. apply (B7 valid_single). unfold n_vals. cbn [vals]. lia.
          -- replace (cmpk rank e (nth i vs' dflt)) with Gt by (symmetry; apply (B3 cmpk_Gt); lia).
             split; [|assumption]. apply (B7 valid_single). unfold n_vals. cbn [vals]. lia.
        * destruct Hrv as [Ec0 Ec1].
          pose proof (B7 PK_child h vs cs i HP ltac:(lia)) as W0.
          pose proof (B7 PK_child h vs cs (S i) HP ltac:(lia)) as W1.
          destruct (B7 merge_spec h vs cs i HP Hi' (can_remove_false h _ W0 Ec0) (can_remove_false h _ W1 Ec1))
            as (m & Em & Wm & Nm & Eem).
          assert (H2 : 2 <= length vs).
          { destruct Hs as [Hs|[Hs1 Hs2]]; [lia|]. exfalso. assert (i = 0) by lia. subst i.
            rewrite Ec0, Ec1 in Hs2. discriminate. }
          rewrite Em. unfold child. cbn [children]. rewrite plug_cons by (rewrite length_aerase; lia).
          assert (Enth : nth i (aerase (aset cs i m) (S i)) dnode = m).
          { rewrite (B7 nth_aerase_lt) by lia. apply nth_aset_eq. lia. }
          assert (Eel : elements (Inode (aerase vs i) (aerase (aset cs i m) (S i))) = elements (Inode vs cs)).
          { rewrite (B7 elements_merge_parent) by lia. rewrite (B7 elements_split2 vs cs i) by lia.
            rewrite Eem, <- app_assoc. reflexivity. }
          pose proof (B7 PK_merge h vs cs i m HP Hi' Wm) as HP1.
          assert (Hmin1 : min_vals L I (nth i (aerase (aset cs i m) (S i)) dnode) <
                          n_vals (nth i (aerase (aset cs i m) (S i)) dnode)) by (rewrite Enth; assumption).
          assert (Hi1 : i <= length (aerase vs i)) by (rewrite length_aerase; lia).
          apply rd_post_lift; auto; try (rewrite length_aerase; lia).
          -- intros y Hy Hr. rewrite Enth, Eem.
             assert (y = nth i vs dflt).
             { apply (B3 asc_NoDup_rank _ y (nth i vs dflt) Hasc); auto; try lia.
               apply (B3 in_vals_elements); auto. apply nth_In. assumption. }
             subst y. apply in_or_app. right. left. reflexivity.
          -- rewrite <- Eel in Hasc.
             destruct (child_pre h _ _ i HP1 Hi1 Hasc Hmin1) as (Hk1 & Ha1 & Hs1).
             apply IH; assumption.
      + destruct (Hff eq_refl) as [Hlt Hgt].
        assert (Hloc : forall y, In y (elements (Inode vs cs)) -> rank y = rank e ->
                                 In y (elements (nth i cs dnode))).
        { intros y Hy Hr. rewrite (B3 elements_split vs cs i) in Hy by lia.
          apply in_app_or in Hy as [Hy|Hy]; [|apply in_app_or in Hy as [Hy|Hy]; [assumption|]]; exfalso.
          - apply (B3 sep_pre (cmpk rank e) vs cs i Hl Hi Hmono Hlt) in Hy. apply (proj1 (B3 cmpk_Lt _ _)) in Hy. lia.
          - apply (B3 sep_post_gt (cmpk rank e) vs cs i Hl Hi Hmono Hgt) in Hy. apply (proj1 (B3 cmpk_Gt _ _)) in Hy. lia. }
        destruct (can_remove_from L I (nth i cs dnode)) eqn:Ec.
        * apply can_remove_true in Ec.
          destruct (child_pre h _ _ i HP Hi Hasc Ec) as (Hk1 & Ha1 & Hs1).
          apply rd_post_lift; auto; try lia.
        * destruct (fatten_child_spec h vs cs i HP Hi Hs Ec)
            as (vs1 & cs1 & i' & Ef & HP1 & Hi' & H1 & Hlen & Hmin & Eel & Hinc & _ & _).
          rewrite Ef. unfold child. cbn [children]. rewrite plug_cons by lia.
          rewrite <- Eel in Hasc.
          destruct (child_pre h _ _ i' HP1 Hi' Hasc Hmin) as (Hk1 & Ha1 & Hs1).
          apply rd_post_lift; auto.
  Qed.

  (* ---------------------------------------------------------------- remove: the pre-loop root merge *)
  Definition pre_root (n : node) : node :=
    if negb (is_leaf n) && (n_vals n =? 1) && negb (can_remove_from L I (child n 0))
       && negb (can_remove_from L I (child n 1))
    then child (merge dflt n 0) 0 else n.

  Lemma remove_unfold : forall (t : tree) e,
    remove rank dflt L I t e =
    let r := remove_down rank dflt L I (height (pre_root (root t))) (pre_root (root t)) e in
    (rr_st r, rr_out r,
     mkTree (rr_node r) (match rr_st r with SUCCESS => Z.pred (size t) | _ => size t end),
     match rr_act r with
     | AReset => IEnd
     | AKeep => IAt (rr_frames r)
     | AIncr => snd (iter_increment (rr_node r) (IAt (rr_frames r)))
     end, rr_log r).
  Proof. reflexivity. Qed.

  Lemma pre_root_spec : forall h (n : node), root_ok L I h n -> asc (elements n) ->
    exists h0, kids_ok L I h0 (pre_root n) /\ n_vals (pre_root n) <= max_vals L I (pre_root n) /\
               strong (pre_root n) /\ elements (pre_root n) = elements n /\ h0 <= h.
  Proof.
    intros h n (Hk & Hmax & Hmin) Hasc. unfold pre_root.
    destruct (negb (is_leaf n) && (n_vals n =? 1) && negb (can_remove_from L I (child n 0))
              && negb (can_remove_from L I (child n 1))) eqn:E.
    - apply andb_true_iff in E as [E E3]. apply andb_true_iff in E as [E E2]. apply andb_true_iff in E as [E0 E1].
      destruct n as [vs|vs cs]; [discriminate|].
      apply Nat.eqb_eq in E1. apply negb_true_iff in E2, E3.
      unfold child in *. cbn [children] in *. unfold n_vals in E1. cbn [vals] in E1.
      destruct h as [|h]; [exact (False_ind _ Hk)|]. cbn [kids_ok] in Hk. destruct Hk as (Hh & Hl & Hf).
      assert (HP : PK h vs cs) by (split; assumption).
      pose proof (B7 PK_child h vs cs 0 HP ltac:(lia)) as W0.
      pose proof (B7 PK_child h vs cs 1 HP ltac:(lia)) as W1.
      destruct (B7 merge_spec h vs cs 0 HP ltac:(lia) (can_remove_false h _ W0 E2) (can_remove_false h _ W1 E3))
        as (m & Em & Wm & Nm & Eem).
      rewrite Em. cbn [children]. rewrite (B7 nth_aerase_lt) by lia. rewrite nth_aset_eq by lia.
      exists h. split; [apply (B7 wfn_kids_ok); assumption|].
      split; [apply (wfn_bounds h); assumption|].
      split; [eapply strong_of_min; eauto|]. split; [|lia].
      rewrite Eem. rewrite (B7 elements_split2 vs cs 0) by lia.
      rewrite (B3 pre_0), (B3 post_end) by lia. rewrite app_nil_r. reflexivity.
    - exists h. split; [assumption|]. split; [assumption|]. split; [|split; [reflexivity|lia]].
      destruct n as [vs|vs cs]; cbn [strong]; auto.
      specialize (Hmin eq_refl). unfold n_vals, child in *. cbn [vals children is_leaf negb andb] in *.
      destruct (Nat.eq_dec (length vs) 1) as [E1|E1]; [right|left; lia]. split; [assumption|].
      rewrite E1 in E. cbn [Nat.eqb andb] in E.
      destruct (can_remove_from L I (nth 0 cs dnode)), (can_remove_from L I (nth 1 cs dnode)); auto.
  Qed.

  Lemma remove_top : forall (t : tree) e, Inv rank L I t ->
    exists r h0 n0,
      remove rank dflt L I t e =
      (rr_st r, rr_out r,
       mkTree (rr_node r) (match rr_st r with SUCCESS => Z.pred (size t) | _ => size t end),
       match rr_act r with
       | AReset => IEnd
       | AKeep => IAt (rr_frames r)
       | AIncr => snd (iter_increment (rr_node r) (IAt (rr_frames r)))
       end, rr_log r) /\
      elements n0 = elements (root t) /\ rd_post h0 n0 e r /\ root_ok L I h0 (rr_node r) /\
      h0 <= height (root t).
  Proof.
    intros t e ([h Hr] & Hasc & Hsize).
    destruct (pre_root_spec h (root t) Hr Hasc) as (h0 & Hk0 & Hmax0 & Hs0 & Eel0 & Hle0).
    rewrite remove_unfold. cbv zeta. rewrite (B7 kids_ok_height h0 _ Hk0).
    exists (remove_down rank dflt L I h0 (pre_root (root t)) e), h0, (pre_root (root t)).
    split; [reflexivity|]. split; [assumption|].
    rewrite <- Eel0 in Hasc.
    pose proof (remove_down_spec h0 _ e Hk0 Hasc Hs0) as Hpost. split; [assumption|].
    destruct Hpost as (Hk & Hnv & Hleaf & _).
    destruct (same_kind h0 _ _ Hk Hk0) as (_ & Emax & _).
    split; [split; [assumption|split; [lia|assumption]]|].
    pose proof Hr as (Hkr & _). rewrite (B7 kids_ok_height h _ Hkr). exact Hle0.
  Qed.

  (* ---------------------------------------------------------------- the sorted-list spec on l1 ++ x :: l2 *)
  Lemma find_none_all : forall (f : elt -> bool) l, (forall a, In a l -> f a = false) -> List.find f l = None.
  Proof.
    intros f. induction l as [|a l IH]; intros H; cbn [List.find]; auto.
    rewrite (H a (or_introl eq_refl)). apply IH. intros b Hb. apply H. right. assumption.
  Qed.

  Lemma find_app_skip : forall (f : elt -> bool) l1 l, (forall a, In a l1 -> f a = false) ->
    List.find f (l1 ++ l) = List.find f l.
  Proof.
    intros f. induction l1 as [|a l1 IH]; intros l H; cbn [List.find app]; auto.
    rewrite (H a (or_introl eq_refl)). apply IH. intros b Hb. apply H. right. assumption.
  Qed.

  Lemma filter_all_true : forall (f : elt -> bool) l, (forall a, In a l -> f a = true) -> filter f l = l.
  Proof.
    intros f. induction l as [|a l IH]; intros H; cbn [filter]; auto.
    rewrite (H a (or_introl eq_refl)). f_equal. apply IH. intros b Hb. apply H. right. assumption.
  Qed.

  Lemma filter_all_false : forall (f : elt -> bool) l, (forall a, In a l -> f a = false) -> filter f l = [].
  Proof.
    intros f. induction l as [|a l IH]; intros H; cbn [filter]; auto.
    rewrite (H a (or_introl eq_refl)). apply IH. intros b Hb. apply H. right. assumption.
  Qed.

  Lemma set_remove_mid : forall l1 x l2 k, asc (l1 ++ x :: l2) -> rank x = k ->
    set_remove rank (l1 ++ x :: l2) k = (SUCCESS, Some x, l1 ++ l2).
  Proof.
    intros l1 x l2 k Ha Hk. apply (B3 asc_mid) in Ha as (_ & _ & H1 & H2 & _).
    unfold BTreeSpec.set_remove, BTreeSpec.set_find, BTreeSpec.del_rank.
    rewrite find_app_skip by (intros a Ha; specialize (H1 a Ha); lia).
    cbn [List.find]. replace (rank x =? k)%Z with true by lia.
    rewrite filter_app. cbn [filter]. replace (rank x =? k)%Z with true by lia. cbn [negb].
    rewrite !filter_all_true; auto.
    - intros a Ha. specialize (H2 a Ha). lia.
    - intros a Ha. specialize (H1 a Ha). lia.
  Qed.

  Lemma set_remove_none : forall l k, (forall y, In y l -> rank y <> k) ->
    set_remove rank l k = (NOT_FOUND, None, l).
  Proof.
    intros l k H. unfold BTreeSpec.set_remove, BTreeSpec.set_find.
    rewrite find_none_all; auto. intros a Ha. specialize (H a Ha). lia.
  Qed.

  Lemma filter_lt_mid : forall l1 x l2 k, asc (l1 ++ x :: l2) -> rank x = k ->
    filter (fun y => (rank y <? k)%Z) (l1 ++ l2) = l1.
  Proof.
    intros l1 x l2 k Ha Hk. apply (B3 asc_mid) in Ha as (_ & _ & H1 & H2 & _).
    rewrite filter_app. rewrite filter_all_true, filter_all_false.
    - apply app_nil_r.
    - intros a Ha. specialize (H2 a Ha). lia.
    - intros a Ha. specialize (H1 a Ha). lia.
  Qed.

  Lemma asc_remove_mid : forall l1 x l2, asc (l1 ++ x :: l2) -> asc (l1 ++ l2).
  Proof.
    intros l1 x l2 Ha. apply (B3 asc_mid) in Ha as (A1 & A2 & _ & _ & A3). apply (B3 asc_app). auto.
  Qed.

  (* ---------------------------------------------------------------- the two theorems *)
  Theorem remove_refines : forall t e, Inv rank L I t ->
    let '(st, out, t', it, lg) := remove rank dflt L I t e in
    Inv rank L I t' /\
    (st, out, elements (root t')) = set_remove rank (elements (root t)) (rank e) /\
    (forall x, In x lg -> In x (elements (root t))).
  Proof.
    intros t e HInv. destruct (remove_top t e HInv) as (r & h0 & n0 & Erm & Eel0 & Hpost & Hroot & Hht).
    destruct HInv as (_ & Hasc & Hsize).
    rewrite Erm. cbv beta iota. destruct Hpost as (_ & _ & _ & Hlog & Hcase). rewrite Eel0 in *.
    split; [|split; [|exact Hlog]].
    - unfold Inv. cbn [root size]. split; [exists h0; assumption|].
      destruct Hcase as [(Est & x & l1 & l2 & Eout & Erk & Ec & Ec' & _)|(Est & Eout & Ec' & Hno)].
      + rewrite Est, Ec'. rewrite Ec in Hasc, Hsize. split; [eapply asc_remove_mid; eauto|].
        rewrite app_length in *. cbn [length] in Hsize. lia.
      + rewrite Est, Ec'. split; assumption.
    - cbn [root].
      destruct Hcase as [(Est & x & l1 & l2 & Eout & Erk & Ec & Ec' & _)|(Est & Eout & Ec' & Hno)].
      + rewrite Est, Eout, Ec', Ec. rewrite Ec in Hasc. symmetry. apply set_remove_mid; assumption.
      + rewrite Est, Eout, Ec'. symmetry. apply set_remove_none. assumption.
  Qed.

  Theorem remove_next : forall t e, Inv rank L I t ->
    let '(st, out, t', it, lg) := remove rank dflt L I t e in
    st = SUCCESS ->
    iter_valid (root t') it /\
    iter_pos (root t') it =
      (let k := length (filter (fun x => (rank x <? rank e)%Z) (elements (root t'))) in
       if k <? length (elements (root t')) then Some k else None).
  Proof.
    intros t e HInv. destruct (remove_top t e HInv) as (r & h0 & n0 & Erm & Eel0 & Hpost & Hroot & Hht).
    destruct HInv as (_ & Hasc & Hsize).
    rewrite Erm. cbv beta iota zeta. cbn [root]. destruct Hpost as (_ & _ & _ & _ & Hcase). rewrite Eel0 in *.
    intros Est.
    destruct Hcase as [(_ & x & l1 & l2 & Eout & Erk & Ec & Ec' & Hact)|(Est' & _)]; [|congruence].
    assert (Hsh : shape_ok L I (rr_node r)) by (exists h0; assumption).
    rewrite Ec in Hasc. rewrite Ec'. rewrite (filter_lt_mid l1 x l2 (rank e) Hasc Erk).
    destruct (rr_act r).
    - cbn [iter_valid iter_pos]. split; [exact Logic.I|]. rewrite Ec' in Hact.
      apply app_eq_nil in Hact as [-> ->]. reflexivity.
    - destruct Hact as [Hv Hp]. cbn [iter_valid iter_pos]. split; [assumption|].
      destruct (B7 get_pos _ _ Hsh Hv) as [Hlt _]. rewrite Ec', Hp in Hlt.
      rewrite Hp. replace (length l1 <? length (l1 ++ l2)) with true by (symmetry; apply Nat.ltb_lt; assumption).
      reflexivity.
    - destruct Hact as [Hv Hp].
      pose proof (B7 increment_pos _ _ Hsh Hv) as Hinc.
      destruct (iter_increment (rr_node r) (IAt (rr_frames r))) as [st' [|q]]; cbn [snd iter_valid iter_pos].
      + destruct Hinc as [_ Hinc]. split; [exact Logic.I|]. rewrite Ec' in Hinc.
        replace (length l1 <? length (l1 ++ l2)) with false by (symmetry; apply Nat.ltb_ge; lia). reflexivity.
      + destruct Hinc as (_ & Hvq & Hpq). split; [assumption|].
        destruct (B7 get_pos _ _ Hsh Hvq) as [Hlt _]. rewrite Ec' in Hlt.
        replace (length l1 <? length (l1 ++ l2)) with true by (symmetry; apply Nat.ltb_lt; lia).
        f_equal. lia.
  Qed.

  (* removal never makes the tree higher *)
  Theorem remove_height : forall t e, Inv rank L I t ->
    height (root (snd (fst (fst (remove rank dflt L I t e))))) <= height (root t).
  Proof.
    intros t e HInv. destruct (remove_top t e HInv) as (r & h0 & n0 & Erm & Eel0 & Hpost & Hroot & Hht).
    rewrite Erm. cbn [fst snd root]. destruct Hroot as (Hk & _).
    rewrite (B7 kids_ok_height h0 _ Hk). exact Hht.
  Qed.
End Remove.
