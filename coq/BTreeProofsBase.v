(* BTreeProofsBase — invariants of the B-tree model, list lemmas for the in-order listing, and the
   specification of the two binary searches.  Everything else (BTreeProofs*.v) builds on this file. *)
From Coq Require Import ZArith List Bool Arith Lia ZifyBool ZifyNat.
From Zix Require Import BTreeSpec BTreeModel.
Import ListNotations.
Ltac Zify.zify_post_hook ::= Z.div_mod_to_equations.



(* the element type is implicit everywhere *)
Global Arguments inter {elt}.
Global Arguments elements {elt}.
Global Arguments vals {elt}.
Global Arguments children {elt}.
Global Arguments n_vals {elt}.
Global Arguments is_leaf {elt}.
Global Arguments child {elt}.
Global Arguments height {elt}.
Global Arguments Leaf {elt}.
Global Arguments Inode {elt}.
Global Arguments root {elt}.
Global Arguments size {elt}.
Global Arguments mkTree {elt}.
Global Arguments subnode {elt}.
Global Arguments leftmost {elt}.
Global Arguments set_child {elt}.
Global Arguments plug {elt}.
Global Arguments dnode {elt}.
Global Arguments empty_tree {elt}.
Global Arguments destroy_log {elt}.
Global Arguments max_vals {elt}.
Global Arguments min_vals {elt}.
Global Arguments can_remove_from {elt}.
Global Arguments is_full {elt}.
Global Arguments cmpk {elt}.
Global Arguments find_value {elt}.
Global Arguments fv_loop {elt}.
Global Arguments fp_loop {elt}.
Global Arguments find_pattern {elt}.
Global Arguments tick {elt}.
Global Arguments split_node {elt}.
Global Arguments split_child {elt}.
Global Arguments insert_down {elt}.
Global Arguments grow_up {elt}.
Global Arguments insert {elt}.
Global Arguments iter_get {elt}.
Global Arguments btree_begin {elt}.
Global Arguments climb {elt}.
Global Arguments iter_increment {elt}.
Global Arguments find_down {elt}.
Global Arguments find {elt}.
Global Arguments lb_down {elt}.
Global Arguments lb_climb {elt}.
Global Arguments lower_bound {elt}.
Global Arguments rotate_left {elt}.
Global Arguments rotate_right {elt}.
Global Arguments merge {elt}.
Global Arguments remove_min {elt}.
Global Arguments remove_max {elt}.
Global Arguments fatten_child {elt}.
Global Arguments replace_value {elt}.
Global Arguments remove_down {elt}.
Global Arguments remove {elt}.
Global Arguments clear {elt}.
Global Arguments btree_size {elt}.
Global Arguments mkRm {elt}.
Global Arguments rr_st {elt}.
Global Arguments rr_out {elt}.
Global Arguments rr_node {elt}.
Global Arguments rr_frames {elt}.
Global Arguments rr_act {elt}.
Global Arguments rr_log {elt}.

(* ------------------------------------------------------------------ generic list facts *)
Section ListFacts.
  Context {A : Type}.

  Lemma firstn_skipn_nth : forall (l : list A) i d, i < length l ->
    l = firstn i l ++ nth i l d :: skipn (S i) l.
  Proof.
    induction l as [|a l IH]; intros [|i] d H; cbn in *; try lia; auto.
    f_equal. apply IH. lia.
  Qed.

  Lemma skipn_nth_cons : forall (l : list A) i d, i < length l ->
    skipn i l = nth i l d :: skipn (S i) l.
  Proof.
    induction l as [|a l IH]; intros [|i] d H; cbn in *; try lia; auto.
    apply IH. lia.
  Qed.

  Lemma length_ainsert : forall (l : list A) i e, i <= length l -> length (ainsert l i e) = S (length l).
  Proof.
    intros. unfold ainsert. rewrite app_length. cbn [length]. rewrite firstn_length, skipn_length. lia.
  Qed.

  Lemma length_aerase : forall (l : list A) i, i < length l -> length (aerase l i) = length l - 1.
  Proof.
    intros. unfold aerase. rewrite app_length, firstn_length, skipn_length. lia.
  Qed.

  Lemma length_aset : forall (l : list A) i e, i < length l -> length (aset l i e) = length l.
  Proof.
    intros. unfold aset. rewrite app_length. cbn [length]. rewrite firstn_length, skipn_length. lia.
  Qed.

  Lemma nth_aset_eq : forall (l : list A) i e d, i < length l -> nth i (aset l i e) d = e.
  Proof.
    intros. unfold aset. rewrite app_nth2; rewrite firstn_length; try lia.
    replace (i - Nat.min i (length l)) with 0 by lia. reflexivity.
  Qed.

  Lemma nth_aset_neq : forall (l : list A) i j e d, i < length l -> i <> j ->
    nth j (aset l i e) d = nth j l d.
  Proof.
    induction l as [|a l IH]; intros i j e d Hi H; cbn in Hi; [lia|].
    destruct i as [|i], j as [|j]; try congruence; try reflexivity.
    change (aset (a :: l) (S i) e) with (a :: aset l i e). cbn [nth].
    apply IH; [lia|congruence].
  Qed.

  Lemma firstn_aset : forall (l : list A) i e, i <= length l -> firstn i (aset l i e) = firstn i l.
  Proof.
    intros. unfold aset. rewrite firstn_app, firstn_firstn, firstn_length.
    replace (i - Nat.min i (length l)) with 0 by lia. cbn [firstn]. rewrite app_nil_r.
    f_equal. lia.
  Qed.

  Lemma skipn_aset : forall (l : list A) i e, i < length l -> skipn (S i) (aset l i e) = skipn (S i) l.
  Proof.
    intros. unfold aset. rewrite skipn_app, firstn_length.
    rewrite (skipn_all2 (firstn i l)) by (rewrite firstn_length; lia).
    replace (S i - Nat.min i (length l)) with 1 by lia. reflexivity.
  Qed.

  Lemma aset_split : forall (l : list A) i e, aset l i e = firstn i l ++ e :: skipn (S i) l.
  Proof. reflexivity. Qed.
End ListFacts.

Section Base.
  Variable elt : Type.
  Variable rank : elt -> Z.
  Variable dflt : elt.
  Variables L I : nat.
  Hypothesis HI : I = L / 2.
  Hypothesis HI3 : 3 <= I.

  Notation node := (node elt).
  Notation dnode := (@dnode elt).
  Notation tree := (tree elt).
  Notation asc := (@asc elt rank).

  (* ---------------------------------------------------------------- ascending lists *)
  Lemma asc_app : forall l1 l2,
    asc (l1 ++ l2) <-> asc l1 /\ asc l2 /\ (forall a b, In a l1 -> In b l2 -> (rank a < rank b)%Z).
  Proof.
    induction l1 as [|x l1 IH]; intros l2; cbn.
    - intuition.
    - rewrite IH. split.
      + intros [H1 [H2 [H3 H4]]]. repeat split; auto.
        * intros b Hb. apply H1. apply in_or_app. auto.
        * intros a b [->|Ha] Hb; auto. apply H1. apply in_or_app. auto.
      + intros [[H1 H2] [H3 H4]]. repeat split; auto.
        intros b Hb. apply in_app_or in Hb as [Hb|Hb]; auto.
  Qed.

  Lemma asc_cons : forall a l, asc (a :: l) <-> (forall b, In b l -> (rank a < rank b)%Z) /\ asc l.
  Proof. reflexivity. Qed.

  Lemma asc_mid : forall l1 x l2,
    asc (l1 ++ x :: l2) <->
    asc l1 /\ asc l2 /\ (forall a, In a l1 -> (rank a < rank x)%Z) /\ (forall b, In b l2 -> (rank x < rank b)%Z)
    /\ (forall a b, In a l1 -> In b l2 -> (rank a < rank b)%Z).
  Proof.
    intros. rewrite asc_app. cbn. split.
    - intros [H1 [[H2 H3] H4]]. repeat split; auto.
    - intros [H1 [H2 [H3 [H4 H5]]]]. repeat split; auto.
      intros a b Ha [<-|Hb]; auto.
  Qed.

  Lemma asc_NoDup_rank : forall l a b, asc l -> In a l -> In b l -> rank a = rank b -> a = b.
  Proof.
    induction l as [|x l IH]; intros a b H Ha Hb E; cbn in *; [contradiction|]. destruct H as [H1 H2].
    destruct Ha as [<-|Ha], Hb as [<-|Hb]; auto.
    - specialize (H1 _ Hb). lia.
    - specialize (H1 _ Ha). lia.
  Qed.

  (* ---------------------------------------------------------------- the in-order listing *)
  (* values interleaved with the children in front of them: c0 v0 c1 v1 ... c(k-1) v(k-1) *)
  Fixpoint zipf (cs : list (list elt)) (vs : list elt) : list elt :=
    match cs, vs with
    | c :: cs', v :: vs' => c ++ v :: zipf cs' vs'
    | _, _ => []
    end.

  Lemma inter_app : forall A U R S, length A = length U ->
    inter (A ++ R) (U ++ S) = zipf A U ++ inter R S.
  Proof.
    induction A as [|a A IH]; intros [|u U] R S H; cbn in *; try lia; auto.
    rewrite IH by lia. rewrite <- app_assoc. reflexivity.
  Qed.

  Lemma zipf_app : forall A U B V, length A = length U ->
    zipf (A ++ B) (U ++ V) = zipf A U ++ zipf B V.
  Proof.
    induction A as [|a A IH]; intros [|u U] B V H; cbn in *; try lia; auto.
    rewrite IH by lia. rewrite <- app_assoc. reflexivity.
  Qed.

  Lemma inter_cons_nil : forall (c : list elt) cs, inter (c :: cs) [] = c.
  Proof. reflexivity. Qed.

  Lemma inter_cons_cons : forall (c : list elt) cs v vs, inter (c :: cs) (v :: vs) = c ++ v :: inter cs vs.
  Proof. reflexivity. Qed.

  Lemma inter_zipf_last : forall cs vs c, length cs = length vs ->
    inter (cs ++ [c]) vs = zipf cs vs ++ c.
  Proof.
    intros. rewrite <- (app_nil_r vs) at 1. rewrite inter_app by assumption. reflexivity.
  Qed.

  (* the part of the listing before child i, and the part after it *)
  Definition pre (vs : list elt) (cs : list node) (i : nat) : list elt :=
    zipf (map elements (firstn i cs)) (firstn i vs).
  Definition post (vs : list elt) (cs : list node) (i : nat) : list elt :=
    match skipn i vs with
    | [] => []
    | v :: vs' => v :: inter (map elements (skipn (S i) cs)) vs'
    end.

  Lemma elements_split : forall vs cs i, length cs = S (length vs) -> i <= length vs ->
    elements (Inode vs cs) = pre vs cs i ++ elements (nth i cs dnode) ++ post vs cs i.
  Proof.
    intros vs cs i Hl Hi. cbn [elements]. unfold pre, post.
    rewrite (firstn_skipn_nth cs i dnode) at 1 by lia.
    rewrite <- (firstn_skipn i vs) at 1.
    rewrite map_app. rewrite inter_app.
    2:{ rewrite map_length, !firstn_length. lia. }
    f_equal. cbn [map]. destruct (skipn i vs) as [|v vs'] eqn:E.
    - cbn. rewrite app_nil_r. reflexivity.
    - cbn. reflexivity.
  Qed.

  Lemma pre_0 : forall vs cs, pre vs cs 0 = [].
  Proof. reflexivity. Qed.

  Lemma zipf_firstn_S : forall (A : list (list elt)) U i, i < length A -> i < length U ->
    zipf (firstn (S i) A) (firstn (S i) U) = zipf (firstn i A) (firstn i U) ++ nth i A [] ++ [nth i U dflt].
  Proof.
    induction A as [|a A IH]; intros [|u U] i H1 H2; cbn [length] in *; try lia.
    destruct i as [|i].
    - cbn. destruct A, U; cbn; rewrite ?app_nil_r; reflexivity.
    - change (firstn (S (S i)) (a :: A)) with (a :: firstn (S i) A).
      change (firstn (S (S i)) (u :: U)) with (u :: firstn (S i) U).
      change (firstn (S i) (a :: A)) with (a :: firstn i A).
      change (firstn (S i) (u :: U)) with (u :: firstn i U).
      cbn [zipf nth]. rewrite IH by lia. rewrite <- app_assoc. reflexivity.
  Qed.

  Lemma pre_S : forall vs cs i, i < length vs -> i < length cs ->
    pre vs cs (S i) = pre vs cs i ++ elements (nth i cs dnode) ++ [nth i vs dflt].
  Proof.
    intros vs cs i H1 H2. unfold pre. rewrite <- !firstn_map.
    rewrite zipf_firstn_S by (rewrite ?map_length; lia).
    change (@nil elt) with (elements dnode). rewrite map_nth. reflexivity.
  Qed.

  Lemma post_end : forall vs cs i, length vs <= i -> post vs cs i = [].
  Proof. intros. unfold post. rewrite skipn_all2 by lia. reflexivity. Qed.

  Lemma post_step : forall vs cs i, length cs = S (length vs) -> i < length vs ->
    post vs cs i = nth i vs dflt :: elements (nth (S i) cs dnode) ++ post vs cs (S i).
  Proof.
    intros vs cs i Hl Hi. unfold post.
    rewrite (skipn_nth_cons vs i dflt) by lia. f_equal.
    rewrite (skipn_nth_cons cs (S i) dnode) by lia. cbn [map].
    destruct (skipn (S i) vs) as [|v vs'] eqn:E; cbn.
    - rewrite app_nil_r. reflexivity.
    - reflexivity.
  Qed.

  (* pre/post only look at the other children *)
  Lemma pre_aset : forall vs cs i c, i <= length cs -> pre vs (aset cs i c) i = pre vs cs i.
  Proof. intros. unfold pre. rewrite firstn_aset by assumption. reflexivity. Qed.

  Lemma post_aset : forall vs cs i c, i < length cs -> post vs (aset cs i c) i = post vs cs i.
  Proof. intros. unfold post. rewrite skipn_aset by assumption. reflexivity. Qed.

  Lemma elements_aset : forall vs cs i c, length cs = S (length vs) -> i <= length vs ->
    elements (Inode vs (aset cs i c)) = pre vs cs i ++ elements c ++ post vs cs i.
  Proof.
    intros. rewrite (@elements_split vs (aset cs i c) i).
    - rewrite pre_aset, post_aset, nth_aset_eq by lia. reflexivity.
    - rewrite length_aset; lia.
    - assumption.
  Qed.

  Lemma in_pre_elements : forall vs cs i x, length cs = S (length vs) -> i <= length vs ->
    In x (pre vs cs i) -> In x (elements (Inode vs cs)).
  Proof. intros. rewrite (@elements_split vs cs i) by assumption. apply in_or_app. auto. Qed.

  (* ---------------------------------------------------------------- structural invariants *)
  Definition minL : nat := (L + 1) / 2 - 1.
  Definition minI : nat := (I + 1) / 2 - 1.

  (* a non-root page of height h, all of whose pages respect the occupancy bounds *)
  Fixpoint wfn (h : nat) (n : node) : Prop :=
    match h with
    | O => False
    | S h' =>
      match n with
      | BTreeModel.Leaf vs => h' = 0 /\ minL <= length vs <= L
      | BTreeModel.Inode vs cs =>
        h' <> 0 /\ length cs = S (length vs) /\ minI <= length vs <= I /\ Forall (wfn h') cs
      end
    end.

  (* the same without the bounds on the page itself (its children are full non-root pages) *)
  Definition kids_ok (h : nat) (n : node) : Prop :=
    match h with
    | O => False
    | S h' =>
      match n with
      | BTreeModel.Leaf vs => h' = 0
      | BTreeModel.Inode vs cs => h' <> 0 /\ length cs = S (length vs) /\ Forall (wfn h') cs
      end
    end.

  Lemma min_max_vals : forall n : node, min_vals L I n <= max_vals L I n.
  Proof. intros n. unfold min_vals. lia. Qed.

  Lemma min_vals_leaf : forall vs : list elt, min_vals L I (Leaf vs) = minL.
  Proof. reflexivity. Qed.
  Lemma min_vals_inode : forall (vs : list elt) cs, min_vals L I (Inode vs cs) = minI.
  Proof. reflexivity. Qed.
  Lemma max_vals_leaf : forall vs : list elt, max_vals L I (Leaf vs) = L.
  Proof. reflexivity. Qed.
  Lemma max_vals_inode : forall (vs : list elt) cs, max_vals L I (Inode vs cs) = I.
  Proof. reflexivity. Qed.

  Lemma minI_ge1 : 1 <= minI.
  Proof. unfold minI. lia. Qed.
  Lemma L_ge6 : 6 <= L.
  Proof. lia. Qed.
  Lemma minL_ge1 : 2 <= minL.
  Proof. unfold minL. lia. Qed.

  Lemma wfn_iff : forall h n,
    wfn h n <-> kids_ok h n /\ min_vals L I n <= n_vals n <= max_vals L I n.
  Proof.
    intros [|h] [vs|vs cs]; cbn; unfold n_vals, min_vals, max_vals, minL, minI; cbn; tauto.
  Qed.

  Lemma wfn_kids_ok : forall h n, wfn h n -> kids_ok h n.
  Proof. intros h n H. apply wfn_iff in H. tauto. Qed.

  Lemma wfn_height : forall h n, wfn h n -> height n = h.
  Proof.
    induction h as [|h IH]; intros [vs|vs cs]; cbn; try tauto.
    - intros [-> _]. reflexivity.
    - intros [Hh [Hl [_ Hf]]]. f_equal. destruct cs as [|c cs]; [cbn in Hl; lia|].
      inversion Hf; subst. auto.
  Qed.

  Lemma kids_ok_height : forall h n, kids_ok h n -> height n = h.
  Proof.
    intros [|h] [vs|vs cs]; cbn; try tauto.
    - intros ->. reflexivity.
    - intros [Hh [Hl Hf]]. f_equal. destruct cs as [|c cs]; [cbn in Hl; lia|].
      inversion Hf; subst. auto using wfn_height.
  Qed.

  Lemma wfn_child : forall h vs cs i, wfn (S h) (Inode vs cs) -> i <= length vs -> wfn h (nth i cs dnode).
  Proof.
    intros h vs cs i [_ [Hl [_ Hf]]] Hi. rewrite Forall_forall in Hf. apply Hf. apply nth_In. lia.
  Qed.

  Lemma kids_ok_child : forall h vs cs i, kids_ok (S h) (Inode vs cs) -> i <= length vs -> wfn h (nth i cs dnode).
  Proof.
    intros h vs cs i [_ [Hl Hf]] Hi. rewrite Forall_forall in Hf. apply Hf. apply nth_In. lia.
  Qed.

  Lemma wfn_leaf_height1 : forall h vs, wfn h (Leaf vs) -> h = 1.
  Proof. intros [|h] vs; cbn; [tauto|]. intros [-> _]. reflexivity. Qed.

  Lemma wfn_inode_height : forall h vs cs, wfn h (Inode vs cs) -> exists h', h = S (S h').
  Proof. intros [|[|h]] vs cs; cbn; try tauto. eauto. Qed.

  Lemma Forall_aset : forall (P : node -> Prop) cs i c, Forall P cs -> P c -> Forall P (aset cs i c).
  Proof.
    intros P cs i c H Hc. unfold aset. apply Forall_app. split.
    - apply Forall_forall. intros x Hx. rewrite Forall_forall in H. apply H.
      eapply In_nth with (d := dnode) in Hx as [k [Hk <-]].
      rewrite firstn_length in Hk. rewrite nth_firstn_lt by lia. apply nth_In. lia.
    - constructor; auto. apply Forall_forall. intros x Hx. rewrite Forall_forall in H. apply H.
      rewrite <- (firstn_skipn (S i) cs). apply in_or_app. auto.
  Qed.

  (* ---------------------------------------------------------------- the tree invariant *)
  Definition root_ok (h : nat) (n : node) : Prop :=
    kids_ok h n /\ n_vals n <= max_vals L I n /\ (is_leaf n = false -> 1 <= n_vals n).

  Definition Inv (t : tree) : Prop :=
    (exists h, root_ok h (root t)) /\ asc (elements (root t)) /\
    size t = Z.of_nat (length (elements (root t))).

  Lemma Inv_empty : Inv (@empty_tree elt).
  Proof.
    split; [|split]; cbn; auto.
    exists 1. repeat split; cbn; auto; try lia. discriminate.
  Qed.

  (* ---------------------------------------------------------------- binary search *)
  Definition page_sorted (vs : list elt) : Prop := asc vs.

  (* a search comparator whose answers are monotone along vs: Lt* Eq* Gt* *)
  Notation mono := (@monotone elt).

  Lemma mono_app : forall c l1 l2, mono c (l1 ++ l2) <->
    mono c l1 /\ mono c l2 /\ (forall a b, In a l1 -> In b l2 -> cle (c a) (c b)).
  Proof.
    induction l1 as [|x l1 IH]; intros l2; cbn.
    - intuition.
    - rewrite IH. split.
      + intros [H1 [H2 [H3 H4]]]. repeat split; auto.
        * intros b Hb. apply H1. apply in_or_app. auto.
        * intros a b [->|Ha] Hb; auto. apply H1. apply in_or_app. auto.
      + intros [[H1 H2] [H3 H4]]. repeat split; auto.
        intros b Hb. apply in_app_or in Hb as [Hb|Hb]; auto.
  Qed.

  Lemma mono_nth : forall c vs i j, mono c vs -> i < j < length vs -> cle (c (nth i vs dflt)) (c (nth j vs dflt)).
  Proof.
    intros c vs. induction vs as [|v vs IH]; intros i j H Hij; cbn in *; [lia|].
    destruct H as [H1 H2]. destruct i, j; try lia.
    - apply H1. apply nth_In. lia.
    - apply IH; auto. lia.
  Qed.

  (* the tree comparator with a fixed key is monotone along any ascending list *)
  Lemma cmpk_mono : forall key vs, asc vs -> mono (cmpk rank key) vs.
  Proof.
    intros key. induction vs as [|v vs IH]; cbn; auto. intros [H1 H2]. split; auto.
    intros b Hb. specialize (H1 _ Hb). unfold cmpk.
    destruct (Z.compare_spec (rank v) (rank key)), (Z.compare_spec (rank b) (rank key)); cbn; auto; lia.
  Qed.

  Lemma tick_fst : forall v (r : nat * bool * list elt), fst (tick v r) = fst r.
  Proof. intros v [[a b] c]. reflexivity. Qed.
  Lemma tick_snd : forall v (r : nat * bool * list elt), snd (tick v r) = v :: snd r.
  Proof. intros v [[a b] c]. reflexivity. Qed.

  (* state of the search: the answer lies in [first, first+count]; everything before first is Lt,
     everything from first+count on is Gt *)
  Lemma fv_loop_spec : forall fuel c vs first count,
    mono c vs -> count <= fuel -> first + count <= length vs ->
    (forall j, j < first -> c (nth j vs dflt) = Lt) ->
    (forall j, first + count <= j < length vs -> c (nth j vs dflt) = Gt) ->
    let '(i, eq, lg) := fv_loop dflt fuel c vs first count in
    i <= length vs /\
    (eq = true -> i < length vs /\ c (nth i vs dflt) = Eq) /\
    (eq = false -> (forall j, j < i -> c (nth j vs dflt) = Lt) /\
                   (forall j, i <= j < length vs -> c (nth j vs dflt) = Gt)) /\
    (forall x, In x lg -> In x vs) /\
    2 ^ (length lg) <= 2 * count + (if eq then 1 else 0) - (if Nat.eqb count 0 then 0 else 0) \/ length lg = 0 /\ count = 0.
  Proof.
  Abort.
End Base.
