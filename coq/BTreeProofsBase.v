(* BTreeProofsBase — invariants of the B-tree model, list lemmas for the in-order listing, and the
   specification of the two binary searches.  Everything else (BTreeProofs*.v) builds on this file. *)
From Coq Require Import ZArith List Bool Arith Lia ZifyBool ZifyNat.
From Zix Require Import BTreeSpec BTreeModel.
Import ListNotations.
Ltac Zify.zify_post_hook ::= Z.div_mod_to_equations.
Set Default Proof Using "All".



(* the element type is implicit everywhere *)
Global Arguments inter {elt}.
Global Arguments elements {elt}.
Global Arguments vals {elt}.
Global Arguments children {elt}.
Global Arguments n_vals {elt}.
Global Arguments is_leaf {elt}.
Global Arguments child {elt}.
Global Arguments height {elt}.
Global Arguments Leaf {elt}.
Global Arguments Inode {elt}.
Global Arguments root {elt}.
Global Arguments size {elt}.
Global Arguments mkTree {elt}.
Global Arguments subnode {elt}.
Global Arguments leftmost {elt}.
Global Arguments set_child {elt}.
Global Arguments plug {elt}.
Global Arguments dnode {elt}.
Global Arguments empty_tree {elt}.
Global Arguments destroy_log {elt}.
Global Arguments max_vals {elt}.
Global Arguments min_vals {elt}.
Global Arguments can_remove_from {elt}.
Global Arguments is_full {elt}.
Global Arguments cmpk {elt}.
Global Arguments find_value {elt}.
Global Arguments fv_loop {elt}.
Global Arguments fp_loop {elt}.
Global Arguments find_pattern {elt}.
Global Arguments tick {elt}.
Global Arguments split_node {elt}.
Global Arguments split_child {elt}.
Global Arguments insert_down {elt}.
Global Arguments grow_up {elt}.
Global Arguments insert {elt}.
Global Arguments iter_get {elt}.
Global Arguments btree_begin {elt}.
Global Arguments climb {elt}.
Global Arguments iter_increment {elt}.
Global Arguments find_down {elt}.
Global Arguments find {elt}.
Global Arguments lb_down {elt}.
Global Arguments lb_climb {elt}.
Global Arguments lower_bound {elt}.
Global Arguments rotate_left {elt}.
Global Arguments rotate_right {elt}.
Global Arguments merge {elt}.
Global Arguments remove_min {elt}.
Global Arguments remove_max {elt}.
Global Arguments fatten_child {elt}.
Global Arguments replace_value {elt}.
Global Arguments remove_down {elt}.
Global Arguments remove {elt}.
Global Arguments clear {elt}.
Global Arguments btree_size {elt}.
Global Arguments mkRm {elt}.
Global Arguments rr_st {elt}.
Global Arguments rr_out {elt}.
Global Arguments rr_node {elt}.
Global Arguments rr_frames {elt}.
Global Arguments rr_act {elt}.
Global Arguments rr_log {elt}.

(* ------------------------------------------------------------------ generic list facts *)
Section ListFacts.
  Context {A : Type}.

  Lemma firstn_skipn_nth : forall (l : list A) i d, i < length l ->
    l = firstn i l ++ nth i l d :: skipn (S i) l.
  Proof.
    induction l as [|a l IH]; intros [|i] d H; cbn in *; try lia; auto.
    f_equal. apply IH. lia.
  Qed.

  Lemma skipn_nth_cons : forall (l : list A) i d, i < length l ->
    skipn i l = nth i l d :: skipn (S i) l.
  Proof.
    induction l as [|a l IH]; intros [|i] d H; cbn in *; try lia; auto.
    apply IH. lia.
  Qed.

  Lemma length_ainsert : forall (l : list A) i e, i <= length l -> length (ainsert l i e) = S (length l).
  Proof.
    intros. unfold ainsert. rewrite app_length. cbn [length]. rewrite firstn_length, skipn_length. lia.
  Qed.

  Lemma length_aerase : forall (l : list A) i, i < length l -> length (aerase l i) = length l - 1.
  Proof.
    intros. unfold aerase. rewrite app_length, firstn_length, skipn_length. lia.
  Qed.

  Lemma length_aset : forall (l : list A) i e, i < length l -> length (aset l i e) = length l.
  Proof.
    intros. unfold aset. rewrite app_length. cbn [length]. rewrite firstn_length, skipn_length. lia.
  Qed.

  Lemma nth_aset_eq : forall (l : list A) i e d, i < length l -> nth i (aset l i e) d = e.
  Proof.
    intros. unfold aset. rewrite app_nth2; rewrite firstn_length; try lia.
    replace (i - Nat.min i (length l)) with 0 by lia. reflexivity.
  Qed.

  Lemma nth_aset_neq : forall (l : list A) i j e d, i < length l -> i <> j ->
    nth j (aset l i e) d = nth j l d.
  Proof.
    induction l as [|a l IH]; intros i j e d Hi H; cbn in Hi; [lia|].
    destruct i as [|i], j as [|j]; try congruence; try reflexivity.
    change (aset (a :: l) (S i) e) with (a :: aset l i e). cbn [nth].
    apply IH; [lia|congruence].
  Qed.

  Lemma firstn_aset : forall (l : list A) i e, i <= length l -> firstn i (aset l i e) = firstn i l.
  Proof.
    intros. unfold aset. rewrite firstn_app, firstn_firstn, firstn_length.
    replace (i - Nat.min i (length l)) with 0 by lia. cbn [firstn]. rewrite app_nil_r.
    f_equal. lia.
  Qed.

  Lemma skipn_aset : forall (l : list A) i e, i < length l -> skipn (S i) (aset l i e) = skipn (S i) l.
  Proof.
    intros. unfold aset. rewrite skipn_app, firstn_length.
    rewrite (skipn_all2 (firstn i l)) by (rewrite firstn_length; lia).
    replace (S i - Nat.min i (length l)) with 1 by lia. reflexivity.
  Qed.

  Lemma aset_split : forall (l : list A) i e, aset l i e = firstn i l ++ e :: skipn (S i) l.
  Proof. reflexivity. Qed.
End ListFacts.

Section Base.
  Variable elt : Type.
  Variable rank : elt -> Z.
  Variable dflt : elt.

  Notation node := (node elt).
  Notation dnode := (@dnode elt).
  Notation tree := (tree elt).
  Notation asc := (@asc elt rank).

  (* ---------------------------------------------------------------- ascending lists *)
  Lemma asc_app : forall l1 l2,
    asc (l1 ++ l2) <-> asc l1 /\ asc l2 /\ (forall a b, In a l1 -> In b l2 -> (rank a < rank b)%Z).
  Proof.
    induction l1 as [|x l1 IH]; intros l2; cbn.
    - intuition.
    - rewrite IH. split.
      + intros [H1 [H2 [H3 H4]]]. repeat split; auto.
        * intros b Hb. apply H1. apply in_or_app. auto.
        * intros a b [->|Ha] Hb; auto. apply H1. apply in_or_app. auto.
      + intros [[H1 H2] [H3 H4]]. repeat split; auto.
        intros b Hb. apply in_app_or in Hb as [Hb|Hb]; auto.
  Qed.

  Lemma asc_cons : forall a l, asc (a :: l) <-> (forall b, In b l -> (rank a < rank b)%Z) /\ asc l.
  Proof. reflexivity. Qed.

  Lemma asc_mid : forall l1 x l2,
    asc (l1 ++ x :: l2) <->
    asc l1 /\ asc l2 /\ (forall a, In a l1 -> (rank a < rank x)%Z) /\ (forall b, In b l2 -> (rank x < rank b)%Z)
    /\ (forall a b, In a l1 -> In b l2 -> (rank a < rank b)%Z).
  Proof.
    intros. rewrite asc_app. cbn. split.
    - intros [H1 [[H2 H3] H4]]. repeat split; auto.
    - intros [H1 [H2 [H3 [H4 H5]]]]. repeat split; auto.
      intros a b Ha [<-|Hb]; auto.
  Qed.

  Lemma asc_NoDup_rank : forall l a b, asc l -> In a l -> In b l -> rank a = rank b -> a = b.
  Proof.
    induction l as [|x l IH]; intros a b H Ha Hb E; cbn in *; [contradiction|]. destruct H as [H1 H2].
    destruct Ha as [<-|Ha], Hb as [<-|Hb]; auto.
    - specialize (H1 _ Hb). lia.
    - specialize (H1 _ Ha). lia.
  Qed.

  (* ---------------------------------------------------------------- the in-order listing *)
  (* values interleaved with the children in front of them: c0 v0 c1 v1 ... c(k-1) v(k-1) *)
  Fixpoint zipf (cs : list (list elt)) (vs : list elt) : list elt :=
    match cs, vs with
    | c :: cs', v :: vs' => c ++ v :: zipf cs' vs'
    | _, _ => []
    end.

  Lemma inter_app : forall A U R S, length A = length U ->
    inter (A ++ R) (U ++ S) = zipf A U ++ inter R S.
  Proof.
    induction A as [|a A IH]; intros [|u U] R S H; cbn in *; try lia; auto.
    rewrite IH by lia. rewrite <- app_assoc. reflexivity.
  Qed.

  Lemma zipf_app : forall A U B V, length A = length U ->
    zipf (A ++ B) (U ++ V) = zipf A U ++ zipf B V.
  Proof.
    induction A as [|a A IH]; intros [|u U] B V H; cbn in *; try lia; auto.
    rewrite IH by lia. rewrite <- app_assoc. reflexivity.
  Qed.

  Lemma inter_cons_nil : forall (c : list elt) cs, inter (c :: cs) [] = c.
  Proof. reflexivity. Qed.

  Lemma inter_cons_cons : forall (c : list elt) cs v vs, inter (c :: cs) (v :: vs) = c ++ v :: inter cs vs.
  Proof. reflexivity. Qed.

  Lemma inter_zipf_last : forall cs vs c, length cs = length vs ->
    inter (cs ++ [c]) vs = zipf cs vs ++ c.
  Proof.
    intros. rewrite <- (app_nil_r vs) at 1. rewrite inter_app by assumption. reflexivity.
  Qed.

  (* the part of the listing before child i, and the part after it *)
  Definition pre (vs : list elt) (cs : list node) (i : nat) : list elt :=
    zipf (map elements (firstn i cs)) (firstn i vs).
  Definition post (vs : list elt) (cs : list node) (i : nat) : list elt :=
    match skipn i vs with
    | [] => []
    | v :: vs' => v :: inter (map elements (skipn (S i) cs)) vs'
    end.

  Lemma elements_split : forall vs cs i, length cs = S (length vs) -> i <= length vs ->
    elements (Inode vs cs) = pre vs cs i ++ elements (nth i cs dnode) ++ post vs cs i.
  Proof.
    intros vs cs i Hl Hi. cbn [elements]. unfold pre, post.
    rewrite (firstn_skipn_nth cs i dnode) at 1 by lia.
    rewrite <- (firstn_skipn i vs) at 1.
    rewrite map_app. rewrite inter_app.
    2:{ rewrite map_length, !firstn_length. lia. }
    f_equal. cbn [map]. destruct (skipn i vs) as [|v vs'] eqn:E.
    - cbn. rewrite app_nil_r. reflexivity.
    - cbn. reflexivity.
  Qed.

  Lemma pre_0 : forall vs cs, pre vs cs 0 = [].
  Proof. reflexivity. Qed.

  Lemma zipf_firstn_S : forall (A : list (list elt)) U i, i < length A -> i < length U ->
    zipf (firstn (S i) A) (firstn (S i) U) = zipf (firstn i A) (firstn i U) ++ nth i A [] ++ [nth i U dflt].
  Proof.
    induction A as [|a A IH]; intros [|u U] i H1 H2; cbn [length] in *; try lia.
    destruct i as [|i].
    - cbn. destruct A, U; cbn; rewrite ?app_nil_r; reflexivity.
    - change (firstn (S (S i)) (a :: A)) with (a :: firstn (S i) A).
      change (firstn (S (S i)) (u :: U)) with (u :: firstn (S i) U).
      change (firstn (S i) (a :: A)) with (a :: firstn i A).
      change (firstn (S i) (u :: U)) with (u :: firstn i U).
      cbn [zipf nth]. rewrite IH by lia. rewrite <- app_assoc. reflexivity.
  Qed.

  Lemma pre_S : forall vs cs i, i < length vs -> i < length cs ->
    pre vs cs (S i) = pre vs cs i ++ elements (nth i cs dnode) ++ [nth i vs dflt].
  Proof.
    intros vs cs i H1 H2. unfold pre. rewrite <- !firstn_map.
    rewrite zipf_firstn_S by (rewrite ?map_length; lia).
    change (@nil elt) with (elements dnode). rewrite map_nth. reflexivity.
  Qed.

  Lemma post_end : forall vs cs i, length vs <= i -> post vs cs i = [].
  Proof. intros. unfold post. rewrite skipn_all2 by lia. reflexivity. Qed.

  Lemma post_step : forall vs cs i, length cs = S (length vs) -> i < length vs ->
    post vs cs i = nth i vs dflt :: elements (nth (S i) cs dnode) ++ post vs cs (S i).
  Proof.
    intros vs cs i Hl Hi. unfold post.
    rewrite (skipn_nth_cons vs i dflt) by lia. f_equal.
    rewrite (skipn_nth_cons cs (S i) dnode) by lia. cbn [map].
    destruct (skipn (S i) vs) as [|v vs'] eqn:E; cbn.
    - rewrite app_nil_r. reflexivity.
    - reflexivity.
  Qed.

  (* pre/post only look at the other children *)
  Lemma pre_aset : forall vs cs i c, i <= length cs -> pre vs (aset cs i c) i = pre vs cs i.
  Proof. intros. unfold pre. rewrite firstn_aset by assumption. reflexivity. Qed.

  Lemma post_aset : forall vs cs i c, i < length cs -> post vs (aset cs i c) i = post vs cs i.
  Proof. intros. unfold post. rewrite skipn_aset by assumption. reflexivity. Qed.

  Lemma elements_aset : forall vs cs i c, length cs = S (length vs) -> i <= length vs ->
    elements (Inode vs (aset cs i c)) = pre vs cs i ++ elements c ++ post vs cs i.
  Proof.
    intros. rewrite (@elements_split vs (aset cs i c) i).
    - rewrite pre_aset, post_aset, nth_aset_eq by lia. reflexivity.
    - rewrite length_aset; lia.
    - assumption.
  Qed.

  Lemma in_pre_elements : forall (vs : list elt) cs i x, length cs = S (length vs) -> i <= length vs ->
    In x (pre vs cs i) -> In x (elements (Inode vs cs)).
  Proof. intros. rewrite (@elements_split vs cs i) by assumption. apply in_or_app. auto. Qed.

  (* ---------------------------------------------------------------- binary search *)

  (* a search comparator whose answers are monotone along vs: Lt* Eq* Gt* *)
  Notation mono := (@monotone elt).

  Lemma mono_app : forall c l1 l2, mono c (l1 ++ l2) <->
    mono c l1 /\ mono c l2 /\ (forall a b, In a l1 -> In b l2 -> cle (c a) (c b)).
  Proof.
    induction l1 as [|x l1 IH]; intros l2; cbn.
    - intuition.
    - rewrite IH. split.
      + intros [H1 [H2 [H3 H4]]]. repeat split; auto.
        * intros b Hb. apply H1. apply in_or_app. auto.
        * intros a b [->|Ha] Hb; auto. apply H1. apply in_or_app. auto.
      + intros [[H1 H2] [H3 H4]]. repeat split; auto.
        intros b Hb. apply in_app_or in Hb as [Hb|Hb]; auto.
  Qed.

  Lemma mono_nth : forall c vs i j, mono c vs -> i < j < length vs -> cle (c (nth i vs dflt)) (c (nth j vs dflt)).
  Proof.
    intros c vs. induction vs as [|v vs IH]; intros i j H Hij; cbn in *; [lia|].
    destruct H as [H1 H2]. destruct i, j; try lia.
    - apply H1. apply nth_In. lia.
    - apply IH; auto. lia.
  Qed.

  (* the tree comparator with a fixed key is monotone along any ascending list *)
  Lemma cmpk_mono : forall key vs, asc vs -> mono (cmpk rank key) vs.
  Proof.
    intros key. induction vs as [|v vs IH]; cbn; auto. intros [H1 H2]. split; auto.
    intros b Hb. specialize (H1 _ Hb). unfold cmpk.
    destruct (Z.compare_spec (rank v) (rank key)), (Z.compare_spec (rank b) (rank key)); cbn; auto; lia.
  Qed.

  Lemma tick_fst : forall v (r : nat * bool * list elt), fst (tick v r) = fst r.
  Proof. intros v [[a b] c]. reflexivity. Qed.
  Lemma tick_snd : forall v (r : nat * bool * list elt), snd (tick v r) = v :: snd r.
  Proof. intros v [[a b] c]. reflexivity. Qed.

  Lemma cle_Lt_r : forall a, cle a Lt -> a = Lt.
  Proof. destruct a; cbn; tauto. Qed.
  Lemma cle_Gt_l : forall b, cle Gt b -> b = Gt.
  Proof. destruct b; cbn; tauto. Qed.
  Lemma cle_Eq_l : forall b, cle Eq b -> b <> Lt.
  Proof. destruct b; cbn; try tauto; discriminate. Qed.
  Lemma cle_Eq_l_or_Gt : forall a b, a <> Lt -> cle a b -> b <> Lt.
  Proof. destruct a, b; cbn; try tauto; try discriminate. Qed.
  Lemma cle_Eq_r : forall a, cle a Eq -> a <> Gt.
  Proof. destruct a; cbn; try tauto; discriminate. Qed.

  (* probing position i: what a monotone comparator's answer says about the other positions *)
  Lemma mono_Lt_before : forall c vs i j, mono c vs -> i < length vs -> c (nth i vs dflt) = Lt ->
    j <= i -> c (nth j vs dflt) = Lt.
  Proof.
    intros c vs i j Hm Hi Hc Hj. destruct (Nat.eq_dec j i) as [->|Hne]; auto.
    apply cle_Lt_r. rewrite <- Hc. apply mono_nth; auto. lia.
  Qed.
  Lemma mono_Gt_after : forall c vs i j, mono c vs -> c (nth i vs dflt) = Gt ->
    i <= j < length vs -> c (nth j vs dflt) = Gt.
  Proof.
    intros c vs i j Hm Hc Hj. destruct (Nat.eq_dec j i) as [->|Hne]; auto.
    apply cle_Gt_l. rewrite <- Hc. apply mono_nth; auto. lia.
  Qed.
  Lemma mono_Eq_after : forall c vs i j, mono c vs -> c (nth i vs dflt) = Eq ->
    i <= j < length vs -> c (nth j vs dflt) <> Lt.
  Proof.
    intros c vs i j Hm Hc Hj. destruct (Nat.eq_dec j i) as [->|Hne]; [congruence|].
    apply cle_Eq_l. rewrite <- Hc. apply mono_nth; auto. lia.
  Qed.
  Lemma mono_Eq_before : forall c vs i j, mono c vs -> i < length vs -> c (nth i vs dflt) = Eq ->
    j <= i -> c (nth j vs dflt) <> Gt.
  Proof.
    intros c vs i j Hm Hi Hc Hj. destruct (Nat.eq_dec j i) as [->|Hne]; [congruence|].
    apply cle_Eq_r. rewrite <- Hc. apply mono_nth; auto. lia.
  Qed.

  (* ---- zix_btree_find_value ---- *)
  Definition fv_post (c : elt -> comparison) (vs : list elt) (count : nat) (r : nat * bool * list elt) : Prop :=
    let '(i, e, lg) := r in
    i <= length vs /\
    (e = true -> i < length vs /\ c (nth i vs dflt) = Eq) /\
    (e = false -> (forall j, j < i -> c (nth j vs dflt) = Lt) /\
                   (forall j, i <= j < length vs -> c (nth j vs dflt) = Gt)) /\
    (forall x, In x lg -> In x vs) /\
    (count = 0 -> lg = []) /\ (1 <= count -> 2 ^ length lg <= 2 * count).

  Lemma fv_post_tick : forall c vs count count' v r, In v vs ->
    fv_post c vs count' r ->
    (count' = 0 -> 1 <= count) -> (1 <= count' -> 2 * count' <= count) ->
    fv_post c vs count (tick v r).
  Proof.
    intros c vs count count' v [[i e] lg] Hv (H1 & H2 & H3 & H4 & H5 & H6) Ha Hb. cbn.
    repeat split; auto.
    - apply H2; auto.
    - apply H2; auto.
    - apply H3; auto.
    - apply H3; auto.
    - intros x [<-|Hx]; auto.
    - intros ->. lia.
    - intros _. destruct (Nat.eq_dec count' 0) as [E|E].
      + rewrite (H5 E). cbn. lia.
      + specialize (H6 ltac:(lia)). cbn [length]. rewrite ?Nat.pow_succ_r'. lia.
  Qed.

  Lemma fv_loop_spec : forall fuel c vs first count,
    mono c vs -> count <= fuel -> first + count <= length vs ->
    (forall j, j < first -> c (nth j vs dflt) = Lt) ->
    (forall j, first + count <= j < length vs -> c (nth j vs dflt) = Gt) ->
    fv_post c vs count (fv_loop dflt fuel c vs first count).
  Proof.
    induction fuel as [|f IH]; intros c vs first count Hm Hf Hb Hlo Hhi.
    - assert (count = 0) by lia. subst. cbn.
      repeat split; auto; try lia; try discriminate; try (intros j Hj; apply Hhi; lia); try (intros x []).
    - cbn [fv_loop]. destruct (count =? 0) eqn:E.
      + apply Nat.eqb_eq in E. subst. cbn.
        repeat split; auto; try lia; try discriminate; try (intros j Hj; apply Hhi; lia); try (intros x []).
      + apply Nat.eqb_neq in E.
        assert (Hi : first + count / 2 < length vs) by lia.
        assert (Hin : In (nth (first + count / 2) vs dflt) vs) by (apply nth_In; lia).
        destruct (c (nth (first + count / 2) vs dflt)) eqn:Ec.
        * unfold fv_post. repeat split; auto; try lia; try discriminate;
            try (intros x [<-|[]]; assumption); try (intros _; cbn [length Nat.pow]; lia).
        * eapply fv_post_tick with (count' := count - (count / 2 + 1)); auto; try lia.
          apply IH; auto; try lia.
          -- intros j Hj. apply (mono_Lt_before c vs (first + count / 2) j); auto; lia.
          -- intros j Hj. apply Hhi. lia.
        * eapply fv_post_tick with (count' := count / 2); auto; try lia.
          apply IH; auto; try lia.
          intros j Hj. apply (mono_Gt_after c vs (first + count / 2) j); auto; lia.
  Qed.

  Lemma find_value_spec : forall c vs, mono c vs ->
    fv_post c vs (length vs) (find_value dflt c vs).
  Proof.
    intros c vs Hm. unfold find_value. apply fv_loop_spec; auto; try lia.
  Qed.

  (* ---- zix_btree_find_pattern ---- *)
  Definition fp_post (c : elt -> comparison) (vs : list elt) (count : nat) (r : nat * bool * list elt) : Prop :=
    let '(i, e, lg) := r in
    i <= length vs /\
    (forall j, j < i -> c (nth j vs dflt) = Lt) /\
    (forall j, i <= j < length vs -> c (nth j vs dflt) <> Lt) /\
    (e = true -> i < length vs /\ c (nth i vs dflt) = Eq) /\
    (e = false -> forall j, i <= j < length vs -> c (nth j vs dflt) = Gt) /\
    (forall x, In x lg -> In x vs) /\
    (count = 0 -> lg = []) /\ (1 <= count -> 2 ^ length lg <= 2 * count).

  Lemma fp_post_tick : forall c vs count count' v r, In v vs ->
    fp_post c vs count' r ->
    (count' = 0 -> 1 <= count) -> (1 <= count' -> 2 * count' <= count) ->
    fp_post c vs count (tick v r).
  Proof.
    intros c vs count count' v [[i e] lg] Hv (H1 & H2 & H3 & H4 & H5 & H6 & H7 & H8) Ha Hb. cbn.
    repeat split; auto.
    - apply H4; auto.
    - apply H4; auto.
    - intros x [<-|Hx]; auto.
    - intros ->. lia.
    - intros _. destruct (Nat.eq_dec count' 0) as [E|E].
      + rewrite (H7 E). cbn. lia.
      + specialize (H8 ltac:(lia)). cbn [length]. rewrite ?Nat.pow_succ_r'. lia.
  Qed.

  Lemma fp_loop_spec : forall fuel c vs first count equal,
    mono c vs -> count <= fuel -> first + count <= length vs ->
    (forall j, j < first -> c (nth j vs dflt) = Lt) ->
    (forall j, first + count <= j < length vs -> c (nth j vs dflt) <> Lt) ->
    (equal = true -> first + count < length vs /\ c (nth (first + count) vs dflt) = Eq) ->
    (equal = false -> forall j, first + count <= j < length vs -> c (nth j vs dflt) = Gt) ->
    fp_post c vs count (fp_loop dflt fuel c vs first count equal).
  Proof.
    induction fuel as [|f IH]; intros c vs first count equal Hm Hf Hb Hlo Hhi Het Hef.
    - assert (count = 0) by lia. subst. rewrite Nat.add_0_r in *. cbn.
      repeat split; auto; try lia; try (apply Het; auto); try (intros x []).
    - cbn [fp_loop]. destruct (count =? 0) eqn:E.
      + apply Nat.eqb_eq in E. subst. rewrite Nat.add_0_r in *. cbn.
        repeat split; auto; try lia; try (apply Het; auto); try (intros x []).
      + apply Nat.eqb_neq in E.
        assert (Hi : first + count / 2 < length vs) by lia.
        assert (Hin : In (nth (first + count / 2) vs dflt) vs) by (apply nth_In; lia).
        destruct (c (nth (first + count / 2) vs dflt)) eqn:Ec.
        * eapply fp_post_tick with (count' := count / 2); auto; try lia.
          apply IH; auto; try lia; try discriminate;
            try (intros j Hj; apply (mono_Eq_after c vs (first + count / 2) j); auto; lia);
            try (intros _; split; auto).
        * eapply fp_post_tick with (count' := count - (count / 2 + 1)); auto; try lia.
          replace (first + count) with (first + count / 2 + 1 + (count - (count / 2 + 1))) in * by lia.
          apply IH; auto; try lia;
            try (intros j Hj; apply (mono_Lt_before c vs (first + count / 2) j); auto; lia).
        * assert (equal = false).
          { destruct equal; auto. destruct (Het eq_refl) as [Hlt Heq].
            exfalso. apply (mono_Eq_before c vs (first + count) (first + count / 2)) in Heq; auto. lia. }
          subst equal.
          eapply fp_post_tick with (count' := count / 2); auto; try lia.
          apply IH; auto; try lia; try discriminate;
            try (intros j Hj; rewrite (mono_Gt_after c vs (first + count / 2) j); auto; discriminate);
            try (intros _ j Hj; apply (mono_Gt_after c vs (first + count / 2) j); auto).
  Qed.

  Lemma find_pattern_spec : forall c vs, mono c vs ->
    fp_post c vs (length vs) (find_pattern dflt c vs).
  Proof.
    intros c vs Hm. unfold find_pattern. apply fp_loop_spec; auto; try lia; discriminate.
  Qed.

  (* ---------------------------------------------------------------- pairwise relations along the listing *)
  Fixpoint pairwise (R : elt -> elt -> Prop) (l : list elt) : Prop :=
    match l with
    | [] => True
    | a :: l' => (forall b, In b l' -> R a b) /\ pairwise R l'
    end.

  Definition Rasc (a b : elt) : Prop := (rank a < rank b)%Z.
  Definition Rmono (c : elt -> comparison) (a b : elt) : Prop := cle (c a) (c b).

  Lemma asc_pw : forall l, asc l <-> pairwise Rasc l.
  Proof. induction l as [|a l IH]; cbn; [tauto|]. rewrite IH. unfold Rasc. tauto. Qed.
  Lemma mono_pw : forall c l, mono c l <-> pairwise (Rmono c) l.
  Proof. intros c. induction l as [|a l IH]; cbn; [tauto|]. rewrite IH. unfold Rmono. tauto. Qed.

  Lemma pairwise_app : forall R l1 l2,
    pairwise R (l1 ++ l2) <-> pairwise R l1 /\ pairwise R l2 /\ (forall a b, In a l1 -> In b l2 -> R a b).
  Proof.
    intros R. induction l1 as [|x l1 IH]; intros l2; cbn.
    - intuition.
    - rewrite IH. split.
      + intros [H1 [H2 [H3 H4]]]. repeat split; auto.
        * intros b Hb. apply H1. apply in_or_app. auto.
        * intros a b [->|Ha] Hb; auto. apply H1. apply in_or_app. auto.
      + intros [[H1 H2] [H3 H4]]. repeat split; auto.
        intros b Hb. apply in_app_or in Hb as [Hb|Hb]; auto.
  Qed.

  Lemma in_inter_val : forall (ecs : list (list elt)) vs v, length ecs = S (length vs) ->
    In v vs -> In v (inter ecs vs).
  Proof.
    induction ecs as [|c ecs IH]; intros [|u vs] v Hl Hv; cbn in *; try lia; try contradiction.
    apply in_or_app. right. destruct Hv as [->|Hv]; [left; reflexivity|right].
    apply IH; auto.
  Qed.

  Lemma in_inter_child : forall (ecs : list (list elt)) vs c x, length ecs = S (length vs) ->
    In c ecs -> In x c -> In x (inter ecs vs).
  Proof.
    induction ecs as [|c0 ecs IH]; intros [|u vs] c x Hl Hc Hx; cbn in *; try lia; try contradiction.
    - destruct ecs; cbn in Hl; [|lia]. destruct Hc as [->|[]]. assumption.
    - apply in_or_app. destruct Hc as [->|Hc]; [left; assumption|right; right].
      apply (IH vs c x); auto.
  Qed.

  Lemma pairwise_inter_vals : forall R (ecs : list (list elt)) vs, length ecs = S (length vs) ->
    pairwise R (inter ecs vs) -> pairwise R vs.
  Proof.
    intros R. induction ecs as [|c ecs IH]; intros [|u vs] Hl H; cbn in *; try lia; auto.
    apply pairwise_app in H as (_ & H & _). cbn in H. destruct H as [H1 H2]. split.
    - intros b Hb. apply H1. apply in_inter_val; auto.
    - apply IH; auto.
  Qed.

  Lemma in_vals_elements : forall (vs : list elt) cs v, length cs = S (length vs) -> In v vs -> In v (elements (Inode vs cs)).
  Proof. intros. cbn [elements]. apply in_inter_val; auto. rewrite map_length. assumption. Qed.

  Lemma in_child_elements : forall (vs : list elt) cs i x, length cs = S (length vs) -> i <= length vs ->
    In x (elements (nth i cs dnode)) -> In x (elements (Inode vs cs)).
  Proof.
    intros. rewrite (elements_split vs cs i) by assumption. apply in_or_app. right. apply in_or_app. auto.
  Qed.

  Lemma in_post_elements : forall (vs : list elt) cs i x, length cs = S (length vs) -> i <= length vs ->
    In x (post vs cs i) -> In x (elements (Inode vs cs)).
  Proof.
    intros. rewrite (elements_split vs cs i) by assumption. apply in_or_app. right. apply in_or_app. auto.
  Qed.

  Lemma pairwise_vals : forall R vs cs, length cs = S (length vs) ->
    pairwise R (elements (Inode vs cs)) -> pairwise R vs.
  Proof. intros R vs cs Hl H. cbn [elements] in H. apply pairwise_inter_vals in H; auto. rewrite map_length. auto. Qed.

  Lemma pairwise_child : forall R vs cs i, length cs = S (length vs) -> i <= length vs ->
    pairwise R (elements (Inode vs cs)) -> pairwise R (elements (nth i cs dnode)).
  Proof.
    intros R vs cs i Hl Hi H. rewrite (elements_split vs cs i) in H by assumption.
    apply pairwise_app in H as (_ & H & _). apply pairwise_app in H as (H & _ & _). exact H.
  Qed.

  Lemma asc_vals : forall vs cs, length cs = S (length vs) -> asc (elements (Inode vs cs)) -> asc vs.
  Proof. intros vs cs Hl H. apply asc_pw. apply asc_pw in H. eapply pairwise_vals; eauto. Qed.
  Lemma asc_child : forall vs cs i, length cs = S (length vs) -> i <= length vs ->
    asc (elements (Inode vs cs)) -> asc (elements (nth i cs dnode)).
  Proof. intros vs cs i Hl Hi H. apply asc_pw. apply asc_pw in H. eapply pairwise_child; eauto. Qed.
  Lemma mono_vals : forall c vs cs, length cs = S (length vs) -> mono c (elements (Inode vs cs)) -> mono c vs.
  Proof. intros c vs cs Hl H. apply mono_pw. apply mono_pw in H. eapply pairwise_vals; eauto. Qed.
  Lemma mono_child : forall c vs cs i, length cs = S (length vs) -> i <= length vs ->
    mono c (elements (Inode vs cs)) -> mono c (elements (nth i cs dnode)).
  Proof. intros c vs cs i Hl Hi H. apply mono_pw. apply mono_pw in H. eapply pairwise_child; eauto. Qed.

  (* separation: what the answers at the neighbouring separators say about the rest of the listing *)
  Lemma sep_pre : forall c vs cs i, length cs = S (length vs) -> i <= length vs ->
    mono c (elements (Inode vs cs)) ->
    (forall j, j < i -> c (nth j vs dflt) = Lt) ->
    forall x, In x (pre vs cs i) -> c x = Lt.
  Proof.
    intros c vs cs i Hl Hi Hm Hlt x Hx. destruct i as [|k]; [contradiction|].
    rewrite pre_S in Hx by lia.
    rewrite (elements_split vs cs (S k)) in Hm by lia. apply mono_app in Hm as (Hm & _ & _).
    rewrite pre_S in Hm by lia. rewrite app_assoc in Hm, Hx.
    apply mono_app in Hm as (_ & _ & Hm).
    apply in_app_or in Hx as [Hx|[<-|[]]].
    - apply cle_Lt_r. rewrite <- (Hlt k) by lia. apply Hm; cbn; auto.
    - apply Hlt. lia.
  Qed.

  Lemma sep_post_nlt : forall c vs cs i, length cs = S (length vs) -> i <= length vs ->
    mono c (elements (Inode vs cs)) ->
    (forall j, i <= j < length vs -> c (nth j vs dflt) <> Lt) ->
    forall x, In x (post vs cs i) -> c x <> Lt.
  Proof.
    intros c vs cs i Hl Hi Hm Hn x Hx.
    destruct (Nat.eq_dec i (length vs)) as [->|Hne]; [rewrite post_end in Hx by lia; contradiction|].
    rewrite (elements_split vs cs i) in Hm by lia. apply mono_app in Hm as (_ & Hm & _).
    apply mono_app in Hm as (_ & Hm & _).
    rewrite post_step in Hm, Hx by lia. cbn in Hm. destruct Hm as [Hm _].
    destruct Hx as [<-|Hx]; [apply Hn; lia|].
    apply cle_Eq_l_or_Gt with (a := c (nth i vs dflt)); [apply Hn; lia|apply Hm; assumption].
  Qed.

  Lemma sep_post_gt : forall c vs cs i, length cs = S (length vs) -> i <= length vs ->
    mono c (elements (Inode vs cs)) ->
    (forall j, i <= j < length vs -> c (nth j vs dflt) = Gt) ->
    forall x, In x (post vs cs i) -> c x = Gt.
  Proof.
    intros c vs cs i Hl Hi Hm Hn x Hx.
    destruct (Nat.eq_dec i (length vs)) as [->|Hne]; [rewrite post_end in Hx by lia; contradiction|].
    rewrite (elements_split vs cs i) in Hm by lia. apply mono_app in Hm as (_ & Hm & _).
    apply mono_app in Hm as (_ & Hm & _).
    rewrite post_step in Hm, Hx by lia. cbn in Hm. destruct Hm as [Hm _].
    destruct Hx as [<-|Hx]; [apply Hn; lia|].
    apply cle_Gt_l. rewrite <- (Hn i) by lia. apply Hm. assumption.
  Qed.

  (* the tree comparator in terms of ranks *)
  Lemma cmpk_Lt : forall key x, cmpk rank key x = Lt <-> (rank x < rank key)%Z.
  Proof. intros. unfold cmpk. rewrite Z.compare_lt_iff. tauto. Qed.
  Lemma cmpk_Gt : forall key x, cmpk rank key x = Gt <-> (rank key < rank x)%Z.
  Proof. intros. unfold cmpk. rewrite Z.compare_gt_iff. tauto. Qed.
  Lemma cmpk_Eq : forall key x, cmpk rank key x = Eq <-> rank x = rank key.
  Proof. intros. unfold cmpk. rewrite Z.compare_eq_iff. tauto. Qed.

  (* ---------------------------------------------------------------- iterator paths and positions *)
  (* p is a well-formed iterator path into n: inner frames are child indexes, the last a value index *)
  Fixpoint valid (n : node) (p : list nat) : Prop :=
    match p with
    | [] => False
    | [i] => i < n_vals n
    | i :: q => is_leaf n = false /\ i <= n_vals n /\ valid (child n i) q
    end.

  (* position in [elements n] of the element the path designates *)
  Fixpoint pos (n : node) (p : list nat) : nat :=
    match p with
    | [] => 0
    | [i] =>
      match n with
      | BTreeModel.Leaf _ => i
      | BTreeModel.Inode vs cs => length (pre vs cs i) + length (elements (nth i cs dnode))
      end
    | i :: q =>
      match n with
      | BTreeModel.Leaf _ => i
      | BTreeModel.Inode vs cs => length (pre vs cs i) + pos (nth i cs dnode) q
      end
    end.

  (* the position an iterator stands at: Some k = k-th element of the listing, None = end *)
  Definition iter_pos (r : node) (it : iter) : option nat :=
    match it with IEnd => None | IAt p => Some (pos r p) end.
  Definition iter_valid (r : node) (it : iter) : Prop :=
    match it with IEnd => True | IAt p => valid r p end.

  (* collect the elements visited from [it] on (fuel bounds the number of steps) *)
  Fixpoint walk (fuel : nat) (r : node) (it : iter) : list elt :=
    match fuel with
    | O => []
    | S f =>
      match it with
      | IEnd => []
      | IAt _ => iter_get dflt r it :: walk f r (snd (iter_increment r it))
      end
    end.

  (* induction principle for the nested type *)
  Lemma node_ind' : forall P : node -> Prop,
    (forall vs, P (Leaf vs)) ->
    (forall vs cs, Forall P cs -> P (Inode vs cs)) ->
    forall n, P n.
  Proof.
    intros P HL HI0. fix IH 1. intros [vs|vs cs].
    - apply HL.
    - apply HI0. induction cs as [|c cs IHcs]; constructor; [apply IH|apply IHcs].
  Qed.
End Base.

Global Arguments zipf {elt}.
Global Arguments pre {elt}.
Global Arguments post {elt}.

Section Invariants.
  Variable elt : Type.
  Variable rank : elt -> Z.
  Variable dflt : elt.
  Variables L I : nat.
  Hypothesis HI : I = L / 2.
  Hypothesis HI3 : 3 <= I.

  Notation node := (node elt).
  Notation tree := (tree elt).
  Notation dnode := (@dnode elt).
  Notation asc := (@asc elt rank).

  (* ---------------------------------------------------------------- structural invariants *)
  Definition minL : nat := (L + 1) / 2 - 1.
  Definition minI : nat := (I + 1) / 2 - 1.

  (* a non-root page of height h, all of whose pages respect the occupancy bounds *)
  Fixpoint wfn (h : nat) (n : node) : Prop :=
    match h with
    | O => False
    | S h' =>
      match n with
      | BTreeModel.Leaf vs => h' = 0 /\ minL <= length vs <= L
      | BTreeModel.Inode vs cs =>
        h' <> 0 /\ length cs = S (length vs) /\ minI <= length vs <= I /\ Forall (wfn h') cs
      end
    end.

  (* the same without the bounds on the page itself (its children are full non-root pages) *)
  Definition kids_ok (h : nat) (n : node) : Prop :=
    match h with
    | O => False
    | S h' =>
      match n with
      | BTreeModel.Leaf vs => h' = 0
      | BTreeModel.Inode vs cs => h' <> 0 /\ length cs = S (length vs) /\ Forall (wfn h') cs
      end
    end.

  Lemma min_max_vals : forall n : node, min_vals L I n <= max_vals L I n.
  Proof. intros n. unfold min_vals. lia. Qed.

  Lemma min_vals_leaf : forall vs : list elt, min_vals L I (Leaf vs) = minL.
  Proof. reflexivity. Qed.
  Lemma min_vals_inode : forall (vs : list elt) cs, min_vals L I (Inode vs cs) = minI.
  Proof. reflexivity. Qed.
  Lemma max_vals_leaf : forall vs : list elt, max_vals L I (Leaf vs) = L.
  Proof. reflexivity. Qed.
  Lemma max_vals_inode : forall (vs : list elt) cs, max_vals L I (Inode vs cs) = I.
  Proof. reflexivity. Qed.

  Lemma minI_ge1 : 1 <= minI.
  Proof. unfold minI. lia. Qed.
  Lemma L_ge6 : 6 <= L.
  Proof. lia. Qed.
  Lemma minL_ge1 : 2 <= minL.
  Proof. unfold minL. lia. Qed.

  Lemma wfn_iff : forall h n,
    wfn h n <-> kids_ok h n /\ min_vals L I n <= n_vals n <= max_vals L I n.
  Proof.
    intros [|h] [vs|vs cs]; cbn; unfold n_vals, min_vals, max_vals, minL, minI; cbn; tauto.
  Qed.

  Lemma wfn_kids_ok : forall h n, wfn h n -> kids_ok h n.
  Proof. intros h n H. apply wfn_iff in H. tauto. Qed.

  Lemma wfn_height : forall h n, wfn h n -> height n = h.
  Proof.
    induction h as [|h IH]; intros [vs|vs cs]; cbn; try tauto.
    - intros [-> _]. reflexivity.
    - intros [Hh [Hl [_ Hf]]]. f_equal. destruct cs as [|c cs]; [cbn in Hl; lia|].
      inversion Hf; subst. auto.
  Qed.

  Lemma kids_ok_height : forall h n, kids_ok h n -> height n = h.
  Proof.
    intros [|h] [vs|vs cs]; cbn; try tauto.
    - intros ->. reflexivity.
    - intros [Hh [Hl Hf]]. f_equal. destruct cs as [|c cs]; [cbn in Hl; lia|].
      inversion Hf; subst. auto using wfn_height.
  Qed.

  Lemma wfn_child : forall h vs cs i, wfn (S h) (Inode vs cs) -> i <= length vs -> wfn h (nth i cs dnode).
  Proof.
    intros h vs cs i [_ [Hl [_ Hf]]] Hi. rewrite Forall_forall in Hf. apply Hf. apply nth_In. lia.
  Qed.

  Lemma kids_ok_child : forall h vs cs i, kids_ok (S h) (Inode vs cs) -> i <= length vs -> wfn h (nth i cs dnode).
  Proof.
    intros h vs cs i [_ [Hl Hf]] Hi. rewrite Forall_forall in Hf. apply Hf. apply nth_In. lia.
  Qed.

  Lemma wfn_leaf_height1 : forall h vs, wfn h (Leaf vs) -> h = 1.
  Proof. intros [|h] vs; cbn; [tauto|]. intros [-> _]. reflexivity. Qed.

  Lemma wfn_inode_height : forall h vs cs, wfn h (Inode vs cs) -> exists h', h = S (S h').
  Proof. intros [|[|h]] vs cs; cbn; try tauto. eauto. Qed.

  Lemma Forall_aset : forall (P : node -> Prop) cs i c, Forall P cs -> P c -> Forall P (aset cs i c).
  Proof.
    intros P cs i c H Hc. unfold aset. apply Forall_app. split.
    - apply Forall_forall. intros x Hx. rewrite Forall_forall in H. apply H.
      rewrite <- (firstn_skipn i cs). apply in_or_app. auto.
    - constructor; auto. apply Forall_forall. intros x Hx. rewrite Forall_forall in H. apply H.
      rewrite <- (firstn_skipn (S i) cs). apply in_or_app. auto.
  Qed.

  (* ---------------------------------------------------------------- the tree invariant *)
  Definition root_ok (h : nat) (n : node) : Prop :=
    kids_ok h n /\ n_vals n <= max_vals L I n /\ (is_leaf n = false -> 1 <= n_vals n).

  Definition Inv (t : tree) : Prop :=
    (exists h, root_ok h (root t)) /\ asc (elements (root t)) /\
    size t = Z.of_nat (length (elements (root t))).

  Lemma Inv_empty : Inv (@empty_tree elt).
  Proof.
    split; [|split]; cbn; auto.
    exists 1. unfold root_ok, n_vals. cbn. repeat split; try lia.
  Qed.

  Definition shape_ok (r : node) : Prop := exists h, root_ok h r.

  Lemma Inv_shape : forall t, Inv t -> shape_ok (root t).
  Proof. intros t [H _]. exact H. Qed.

End Invariants.


Global Arguments wfn {elt}.
Global Arguments kids_ok {elt}.
Global Arguments root_ok {elt}.
Global Arguments Inv {elt}.
Global Arguments shape_ok {elt}.
Global Arguments pairwise {elt}.
Global Arguments Rasc {elt}.
Global Arguments Rmono {elt}.
Global Arguments valid {elt}.
Global Arguments pos {elt}.
Global Arguments iter_pos {elt}.
Global Arguments iter_valid {elt}.
Global Arguments walk {elt}.
Global Arguments fv_post {elt}.
Global Arguments fp_post {elt}.
