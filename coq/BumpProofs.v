(* C09: lemmas about the bump allocator model. *)
From Coq Require Import ZArith List Bool Lia ZifyBool.
From Zix Require Import BumpModel BumpSpec.
Import ListNotations.
Local Open Scope Z_scope.
Ltac Zify.zify_post_hook ::= Z.div_mod_to_equations.

(* ---------------------------------------------------------------- initial offset *)
Lemma bump_init_spec A :
  top (bump_init A) = (- A) mod 8 /\ last (bump_init A) = (- A) mod 8.
Proof. unfold bump_init, min_alignment; cbn [top last]. split; lia. Qed.

Lemma bump_init_aligned A :
  0 <= top (bump_init A) < 8 /\ (A + top (bump_init A)) mod 8 = 0.
Proof. destruct (bump_init_spec A) as [-> _]. lia. Qed.
