(* C09: lemmas about the bump allocator model. *)
From Coq Require Import ZArith List Bool Lia ZifyBool.
From Zix Require Import BumpModel BumpSpec.
Import ListNotations.
Local Open Scope Z_scope.
Ltac Zify.zify_post_hook ::= Z.div_mod_to_equations.

(* ---------------------------------------------------------------- 64-bit arithmetic *)
Lemma W_pow : W = 2 ^ 64. Proof. reflexivity. Qed.

Lemma wrap_small x : 0 <= x < W -> wrap x = x.
Proof. intros. unfold wrap. apply Z.mod_small; lia. Qed.

(* x & ~(2^k - 1) in 64 bits = x - x mod 2^k *)
Lemma land_mask x k : 0 <= k < 64 -> 0 <= x < W ->
  Z.land x (wrap (Z.lnot (wrap (2 ^ k - 1)))) = x - x mod 2 ^ k.
Proof.
  intros Hk Hx.
  assert (Hp : 0 < 2 ^ k) by (apply Z.pow_pos_nonneg; lia).
  assert (Hlt : 2 ^ k < W) by (rewrite W_pow; apply Z.pow_lt_mono_r; lia).
  rewrite (wrap_small (2 ^ k - 1)) by lia.
  replace (2 ^ k - 1) with (Z.ones k) by (rewrite Z.ones_equiv; lia).
  unfold wrap. rewrite W_pow. rewrite <- (Z.land_ones _ 64) by lia.
  rewrite Z.land_assoc.
  rewrite (Z.land_comm x (Z.lnot (Z.ones k))), <- Z.land_assoc.
  rewrite (Z.land_ones x 64) by lia. rewrite <- W_pow, (Z.mod_small x W) by lia.
  rewrite Z.land_comm, <- Z.ldiff_land, Z.ldiff_ones_r by lia.
  rewrite Z.shiftr_div_pow2, Z.shiftl_mul_pow2 by lia.
  pose proof (Z.div_mod x (2 ^ k)). lia.
Qed.

Lemma W_multiple k : 0 <= k < 64 -> W = 2 ^ k * 2 ^ (64 - k).
Proof. intros. rewrite <- Z.pow_add_r by lia. rewrite W_pow. f_equal. lia. Qed.

(* rounding a up to a multiple of al adds (-a) mod al *)
Lemma round_up_exact a al : 0 < al ->
  (a + al - 1) - (a + al - 1) mod al = a + (- a) mod al.
Proof.
  intros Hal.
  pose proof (Z.mod_pos_bound (- a) al Hal) as Hr.
  pose proof (Z.div_mod (- a) al ltac:(lia)) as Hd.
  set (r := (- a) mod al) in *. set (q := (- a) / al) in *.
  assert (E : (a + al - 1) mod al = al - 1 - r).
  { symmetry. apply (Zmod_unique _ _ (- q)); lia. }
  lia.
Qed.

Lemma round_up_pow2 a k : 0 <= k < 64 -> 0 <= a < W ->
  round_up_multiple a (2 ^ k) = wrap (a + (- a) mod 2 ^ k).
Proof.
  intros Hk Ha.
  assert (Hp : 0 < 2 ^ k) by (apply Z.pow_pos_nonneg; lia).
  assert (Hw' : 0 < 2 ^ (64 - k)) by (apply Z.pow_pos_nonneg; lia).
  pose proof (W_multiple k Hk) as HW.
  unfold round_up_multiple.
  assert (Hx : 0 <= wrap (a + 2 ^ k - 1) < W) by (unfold wrap; apply Z.mod_pos_bound; reflexivity).
  rewrite land_mask by assumption.
  set (al := 2 ^ k) in *. set (w' := 2 ^ (64 - k)) in *.
  pose proof (round_up_exact a al Hp) as Hm.
  pose proof (Z.mod_pos_bound (- a) al Hp) as Hr.
  set (pad := (- a) mod al) in *.
  set (y := a + al - 1) in *.
  (* m = a + pad is a multiple of al *)
  assert (Hmul : exists q, a + pad = al * q).
  { exists (y / al). pose proof (Z.div_mod y al ltac:(lia)). lia. }
  destruct Hmul as [q Hq].
  assert (Hym : y mod al = y - (a + pad)) by lia.
  unfold wrap.
  destruct (Z_lt_ge_dec y W) as [Hlt | Hge].
  - rewrite (Z.mod_small y W) by lia. rewrite Hym.
    rewrite (Z.mod_small (a + pad) W) by lia. lia.
  - assert (Hy2 : y < 2 * W) by nia.
    assert (Eyw : y mod W = y - W).
    { symmetry. apply (Zmod_unique _ _ 1); lia. }
    rewrite Eyw.
    assert (E1 : (y - W) mod al = y - (a + pad)).
    { symmetry. apply (Zmod_unique _ _ (q - w')); [lia | nia]. }
    rewrite E1.
    assert (Hqw : w' <= q) by nia.
    assert (Emw : (a + pad) mod W = a + pad - W).
    { symmetry. apply (Zmod_unique _ _ 1); [nia | lia]. }
    rewrite Emw. lia.
Qed.

Lemma round_up_8 n : 0 <= n < W -> round_up_multiple n 8 = wrap (n + (- n) mod 8).
Proof. intros. change 8 with (2 ^ 3). apply round_up_pow2; lia. Qed.

(* the rounded size computed by malloc/realloc: either the exact rounded size, or the wrap is detected *)
Lemma real_size_spec n :
  0 <= n < W ->
  let real := round_up_multiple (if n =? 0 then 1 else n) 8 in
  (rounded n < W /\ real = rounded n /\ (real <? n) = false) \/
  (W <= rounded n /\ (real <? n) = true).
Proof.
  intros Hn real. subst real.
  assert (EX : (if n =? 0 then 1 else n) = Z.max n 1) by (destruct (n =? 0) eqn:E; lia).
  rewrite EX. rewrite round_up_8 by (unfold W in *; lia).
  unfold wrap, rounded, extent, W in *.
  set (X := Z.max n 1) in *. assert (HX : 1 <= X < 18446744073709551616 /\ (X = n \/ (n = 0 /\ X = 1))) by (subst X; lia). clearbody X.
  set (p := (- X) mod 8). assert (Hp : 0 <= p < 8 /\ (X + p) mod 8 = 0) by (subst p; lia).
  assert (8 * ((X + 7) / 8) = X + p) as -> by lia.
  clearbody p.
  destruct (Z_lt_ge_dec (X + p) 18446744073709551616).
  - left. rewrite Z.mod_small by lia. lia.
  - right. assert ((X + p) mod 18446744073709551616 = X + p - 18446744073709551616) as ->.
    { symmetry. apply (Zmod_unique _ _ 1); lia. } lia.
Qed.

Lemma rounded_facts n : 8 <= rounded n /\ Z.max n 1 <= rounded n < Z.max n 1 + 8 /\ rounded n mod 8 = 0.
Proof. unfold rounded, extent. lia. Qed.

Definition st_ok (A C : Z) (s : state) : Prop :=
  0 <= last s <= top s /\ (A + top s) mod 8 = 0 /\ (top s <= C \/ top s < 8).

Lemma bump_malloc_char A C s n :
  0 < A -> 0 <= C -> A + C < W -> st_ok A C s -> 0 <= n < W ->
  bump_malloc A C s n =
    if top s + rounded n <=? C
    then ({| top := top s + rounded n; last := top s |}, RPtr (A + top s))
    else (s, RNull).
Proof.
  intros HA HC HAC (Hl & Hal & Hcap) Hn.
  unfold bump_malloc, min_alignment.
  assert (Eas : (wrap (A + top s) mod 8 =? 0) = true) by (unfold wrap, W in *; lia).
  rewrite Eas. cbn [negb].
  pose proof (rounded_facts n) as Hr.
  destruct (real_size_spec n Hn) as [(Hlt & -> & ->) | (Hge & ->)]; cbn [orb].
  - destruct (top s >? C) eqn:E1; cbn [orb].
    + destruct (top s + rounded n <=? C) eqn:E2; [lia | reflexivity].
    + rewrite (wrap_small (C - top s)) by (unfold W in *; lia).
      destruct (rounded n >? C - top s) eqn:E3; destruct (top s + rounded n <=? C) eqn:E2; try lia; try reflexivity.
      rewrite (wrap_small (top s + rounded n)), (wrap_small (A + top s)) by (unfold W in *; lia). reflexivity.
  - destruct (top s + rounded n <=? C) eqn:E2; [unfold W in *; lia | reflexivity].
Qed.

Lemma bump_realloc_char A C s p n :
  0 <= C < W -> 0 <= last s -> 0 <= n < W ->
  bump_realloc A C s p n =
    if (p =? wrap (A + last s)) && (last s + rounded n <=? C)
    then ({| top := last s + rounded n; last := last s |}, RPtr p)
    else (s, RNull).
Proof.
  intros HC Hl Hn. unfold bump_realloc.
  destruct (p =? wrap (A + last s)) eqn:Ep; cbn [negb andb]; [|reflexivity]. cbv zeta. unfold min_alignment.
  pose proof (rounded_facts n) as Hr.
  destruct (real_size_spec n Hn) as [(Hlt & -> & ->) | (Hge & ->)]; cbn [orb].
  - destruct (last s >? C) eqn:E1; cbn [orb].
    + destruct (last s + rounded n <=? C) eqn:E2; [lia | reflexivity].
    + rewrite (wrap_small (C - last s)) by (unfold W in *; lia).
      destruct (rounded n >? C - last s) eqn:E3; destruct (last s + rounded n <=? C) eqn:E2; try lia; try reflexivity.
      rewrite (wrap_small (last s + rounded n)) by (unfold W in *; lia). reflexivity.
  - destruct (last s + rounded n <=? C) eqn:E2; [unfold W in *; lia | reflexivity].
Qed.

Lemma calloc_overflow_test a b : 0 <= a -> 0 <= b ->
  (negb (b =? 0) && (a >? SIZE_MAX / b)) = (W <=? a * b).
Proof.
  intros Ha Hb. unfold SIZE_MAX.
  destruct (b =? 0) eqn:Eb; cbn [negb andb].
  - assert (b = 0) by lia. subst. rewrite Z.mul_0_r. reflexivity.
  - assert (0 < b) by lia.
    destruct (W <=? a * b) eqn:E.
    + assert ((W - 1) / b < a) by (apply Z.div_lt_upper_bound; lia). lia.
    + assert (a <= (W - 1) / b) by (apply Z.div_le_lower_bound; lia). lia.
Qed.

Lemma bump_calloc_char A C s m a b :
  0 < A -> 0 <= C -> A + C < W -> st_ok A C s -> 0 <= a < W -> 0 <= b < W ->
  bump_calloc A C s m a b =
    if top s + rounded (a * b) <=? C
    then ({| top := top s + rounded (a * b); last := top s |}, memset0 m (A + top s) (a * b), RPtr (A + top s))
    else (s, m, RNull).
Proof.
  intros HA HC HAC Hst Ha Hb. unfold bump_calloc.
  rewrite calloc_overflow_test by lia.
  pose proof (rounded_facts (a * b)) as Hr.
  destruct (W <=? a * b) eqn:E.
  - destruct (top s + rounded (a * b) <=? C) eqn:E2; [|reflexivity].
    destruct Hst as (? & ? & ?). lia.
  - assert (0 <= a * b) by nia.
    rewrite (wrap_small (a * b)) by lia.
    rewrite bump_malloc_char by (auto; lia).
    destruct (top s + rounded (a * b) <=? C); reflexivity.
Qed.

Lemma is_pow2_pos_exists p : is_pow2_pos p = true -> exists k, 0 <= k /\ Zpos p = 2 ^ k.
Proof.
  induction p as [p IH | p IH |]; cbn [is_pow2_pos]; intros H; try discriminate.
  - destruct (IH H) as (k & Hk & E). exists (k + 1). split; [lia|].
    rewrite Z.pow_add_r, <- E by lia. lia.
  - exists 0. split; [lia | reflexivity].
Qed.

Lemma align_ok_pow2 al n : align_ok al n = true ->
  exists k, 3 <= k < 64 /\ al = 2 ^ k /\ n mod al = 0.
Proof.
  unfold align_ok. intros H.
  apply andb_true_iff in H as [H Hmod]. apply andb_true_iff in H as [H Hlt].
  apply andb_true_iff in H as [Hp Hge].
  destruct al as [|p|p]; cbn [is_pow2] in Hp; try discriminate.
  destruct (is_pow2_pos_exists p Hp) as (k & Hk & E).
  exists k. rewrite E in *. split; [|split; [reflexivity | lia]].
  split.
  - destruct (Z_lt_ge_dec k 3) as [Hk3|]; [|lia].
    assert (2 ^ k < 2 ^ 3) by (apply Z.pow_lt_mono_r; lia). lia.
  - destruct (Z_lt_ge_dec k 64) as [|Hk64]; [lia|].
    assert (2 ^ 64 <= 2 ^ k) by (apply Z.pow_le_mono_r; lia). unfold W in *. lia.
Qed.

Lemma round_asserts_pow2 k : 0 <= k < 64 -> round_asserts (2 ^ k) = true.
Proof.
  intros Hk. unfold round_asserts.
  assert (Hp : 0 < 2 ^ k) by (apply Z.pow_pos_nonneg; lia).
  assert (Hlt : 2 ^ k < W) by (rewrite W_pow; apply Z.pow_lt_mono_r; lia).
  rewrite (wrap_small (2 ^ k - 1)) by lia.
  replace (2 ^ k - 1) with (Z.ones k) by (rewrite Z.ones_equiv; lia).
  rewrite Z.land_ones by lia. rewrite Z.mod_same by lia.
  destruct (2 ^ k =? 0) eqn:E; [lia | reflexivity].
Qed.

Lemma state_eta s : {| top := top s; last := last s |} = s.
Proof. destruct s; reflexivity. Qed.

Lemma bump_aligned_alloc_char A C s al n :
  0 < A -> 0 <= C -> A + C < W -> st_ok A C s -> 0 <= n < W -> align_ok al n = true ->
  let pad := (- (A + top s)) mod al in
  bump_aligned_alloc A C s al n =
    if top s + pad + rounded n <=? C
    then ({| top := top s + pad + rounded n; last := top s + pad |}, RPtr (A + top s + pad))
    else (s, RNull).
Proof.
  intros HA HC HAC Hst Hn Hal pad.
  destruct (align_ok_pow2 al n Hal) as (k & Hk & -> & Hmod).
  assert (Hp : 0 < 2 ^ k) by (apply Z.pow_pos_nonneg; lia).
  assert (Hw' : 0 < 2 ^ (64 - k)) by (apply Z.pow_pos_nonneg; lia).
  assert (H8 : 2 ^ k = 8 * 2 ^ (k - 3)).
  { change 8 with (2 ^ 3). rewrite <- Z.pow_add_r by lia. f_equal. lia. }
  assert (Hk3 : 0 < 2 ^ (k - 3)) by (apply Z.pow_pos_nonneg; lia).
  assert (Hle63 : 2 ^ k <= 2 ^ 63) by (apply Z.pow_le_mono_r; lia).
  pose proof (W_multiple k ltac:(lia)) as HW.
  pose proof (rounded_facts n) as Hr.
  unfold bump_aligned_alloc, min_alignment.
  assert (E1 : (2 ^ k >=? 8) = true) by lia. rewrite E1.
  assert (E2 : (n mod 2 ^ k =? 0) = true) by lia. rewrite E2.
  rewrite round_asserts_pow2 by lia. cbn [negb]. cbv zeta.
  assert (Hta : 0 <= wrap (A + top s) < W) by (unfold wrap; apply Z.mod_pos_bound; reflexivity).
  rewrite round_up_pow2 by (assumption || lia).
  (* the padding computed from the (possibly wrapped) address is the padding of the true address *)
  assert (Epad : (- wrap (A + top s)) mod 2 ^ k = pad).
  { subst pad. unfold wrap.
    pose proof (Z.div_mod (A + top s) W ltac:(unfold W; lia)) as Hd.
    replace (- ((A + top s) mod W)) with (- (A + top s) + (2 ^ (64 - k) * ((A + top s) / W)) * 2 ^ k) by lia.
    apply Z_mod_plus_full. }
  rewrite Epad.
  pose proof (Z.mod_pos_bound (- (A + top s)) (2 ^ k) Hp) as Hpad. fold pad in Hpad.
  assert (Eoff : wrap (wrap (wrap (A + top s) + pad) - wrap (A + top s)) = pad).
  { unfold wrap at 1 2. rewrite Zminus_mod_idemp_l.
    replace (wrap (A + top s) + pad - wrap (A + top s)) with pad by lia.
    apply Z.mod_small. unfold W in *. lia. }
  rewrite Eoff.
  (* A + top + pad is a multiple of the alignment, at most 2^64 *)
  assert (Hmul : exists q, A + top s + pad = 2 ^ k * q).
  { exists (- ((- (A + top s)) / 2 ^ k)).
    pose proof (Z.div_mod (- (A + top s)) (2 ^ k) ltac:(lia)). subst pad. lia. }
  destruct Hmul as [q Hq].
  destruct Hst as (Hl & Ha8 & Hcap).
  assert (Hnw : top s + pad < W).
  { destruct Hcap as [Hc | Hc]; [|unfold W in *; lia].
    assert (Hq1 : 2 ^ k * q < 2 ^ k * (2 ^ (64 - k) + 1)) by lia.
    apply Z.mul_lt_mono_pos_l in Hq1; [|assumption].
    assert (Hq2 : 2 ^ k * q <= 2 ^ k * 2 ^ (64 - k)) by (apply Z.mul_le_mono_nonneg_l; lia).
    lia. }
  rewrite (wrap_small (top s + pad)) by lia.
  destruct (top s + pad >? C) eqn:E3.
  - destruct (top s + pad + rounded n <=? C) eqn:E4; [lia | reflexivity].
  - assert (Hst1 : st_ok A C {| top := top s + pad; last := last s |}).
    { unfold st_ok; cbn [top last]. split; [lia|]. split; [|lia].
      replace (A + (top s + pad)) with (A + top s + pad) by lia. rewrite Hq, H8.
      replace (8 * 2 ^ (k - 3) * q) with ((2 ^ (k - 3) * q) * 8) by lia. apply Z_mod_mult. }
    rewrite bump_malloc_char by assumption. cbn [top last].
    destruct (top s + pad + rounded n <=? C) eqn:E4.
    + replace (A + (top s + pad)) with (A + top s + pad) by lia. reflexivity.
    + rewrite state_eta. reflexivity.
Qed.

(* ---------------------------------------------------------------- initial offset *)
Lemma bump_init_spec A :
  top (bump_init A) = (- A) mod 8 /\ last (bump_init A) = (- A) mod 8.
Proof. unfold bump_init, min_alignment; cbn [top last]. split; lia. Qed.

Lemma bump_init_aligned A :
  0 <= top (bump_init A) < 8 /\ (A + top (bump_init A)) mod 8 = 0.
Proof. destruct (bump_init_spec A) as [-> _]. lia. Qed.
