(* C13: lemmas.  Part 3: the code-shaped model (DigestModel) computes the reference functions
   (DigestSpec) of the bytes in [buf, buf+len) -- for every memory, address and length. *)
From Coq Require Import ZArith List Lia Bool ZifyBool ZifyNat Arith.
From Zix Require Import DigestModel DigestSpec DigestProofs DigestProofsRef.
Import ListNotations.
Local Open Scope Z_scope.
Ltac Zify.zify_post_hook ::= Z.div_mod_to_equations.

Ltac norm_pow :=
  repeat match goal with
  | |- context [Z.pow 2 ?k] =>
    let v := eval vm_compute in (Z.pow 2 k) in progress change (Z.pow 2 k) with v
  end.

(* ------------------------------------------------------------------ or / xor of separated bit ranges *)

Lemma land_sep : forall K a b, 0 <= K -> a mod 2 ^ K = 0 -> 0 <= b < 2 ^ K -> Z.land a b = 0.
Proof.
  intros K a b HK Ha Hb. apply Z.bits_inj'. intros i Hi.
  rewrite Z.land_spec, Z.bits_0.
  destruct (Z_lt_le_dec i K).
  - rewrite <- (Z.mod_pow2_bits_low a K i), Ha, Z.bits_0 by lia. reflexivity.
  - rewrite (testbit_above K b i) by (auto; lia). apply andb_false_r.
Qed.

Lemma lor_add_sep : forall K a b, 0 <= K -> a mod 2 ^ K = 0 -> 0 <= b < 2 ^ K -> Z.lor a b = a + b.
Proof.
  intros K a b HK Ha Hb. pose proof (land_sep K a b HK Ha Hb) as L.
  rewrite <- (Z.lxor_lor _ _ L). symmetry. apply Z.add_nocarry_lxor. exact L.
Qed.

Lemma lxor_add_sep : forall K a b, 0 <= K -> a mod 2 ^ K = 0 -> 0 <= b < 2 ^ K -> Z.lxor a b = a + b.
Proof.
  intros K a b HK Ha Hb. symmetry. apply Z.add_nocarry_lxor. apply (land_sep K); auto.
Qed.

Lemma shl_byte_range : forall b k, 0 <= k -> byte b -> 0 <= b * 2 ^ k < 2 ^ (k + 8).
Proof.
  intros b k Hk [H0 H1]. rewrite Z.pow_add_r by lia. change (2 ^ 8) with 256.
  assert (0 < 2 ^ k) by (apply Z.pow_pos_nonneg; lia). nia.
Qed.

Lemma lor_byte : forall v b k, 0 <= k -> byte b -> v mod 2 ^ (k + 8) = 0 ->
  Z.lor v (Z.shiftl b k) = v + b * 2 ^ k.
Proof.
  intros. rewrite Z.shiftl_mul_pow2 by lia. apply (lor_add_sep (k + 8)); auto using shl_byte_range; lia.
Qed.

Lemma lxor_byte : forall v b k, 0 <= k -> byte b -> v mod 2 ^ (k + 8) = 0 ->
  Z.lxor v (Z.shiftl b k) = v + b * 2 ^ k.
Proof.
  intros. rewrite Z.shiftl_mul_pow2 by lia. apply (lxor_add_sep (k + 8)); auto using shl_byte_range; lia.
Qed.

Lemma lor_byte0 : forall v b, byte b -> v mod 256 = 0 -> Z.lor v b = v + b.
Proof. intros. apply (lor_add_sep 8); auto; lia. Qed.

Lemma lxor_byte0 : forall v b, byte b -> v mod 256 = 0 -> Z.lxor v b = v + b.
Proof. intros. apply (lxor_add_sep 8); auto; lia. Qed.

(* ------------------------------------------------------------------ the mixing functions *)

Lemma mix64_eq : forall h, mix64 h = fh_mix h.
Proof. intro. unfold mix64, fh_mix, xorshr. rewrite !Z.shiftr_div_pow2 by lia. reflexivity. Qed.

Lemma mix32_eq : forall h, mix32 h = fmix32 h.
Proof. intro. unfold mix32, fmix32, xorshr. rewrite !Z.shiftr_div_pow2 by lia. reflexivity. Qed.

Lemma rotl32_eq : forall v b, 0 < b < 32 -> R32 v -> rotl32 v b = rotl v b.
Proof.
  intros v b Hb [H0 H1]. unfold rotl32, rotl, W32, M32.
  rewrite Z.shiftl_mul_pow2, Z.shiftr_div_pow2 by lia.
  assert (P1 : 0 < 2 ^ b) by (apply Z.pow_pos_nonneg; lia).
  assert (P2 : 0 < 2 ^ (32 - b)) by (apply Z.pow_pos_nonneg; lia).
  assert (E : 2 ^ 32 = 2 ^ (32 - b) * 2 ^ b) by (rewrite <- Z.pow_add_r by lia; f_equal; lia).
  apply (lor_add_sep b); try lia.
  - rewrite E, Z.mul_mod_distr_r by lia. apply Z.mod_mul. lia.
  - split; [apply Z.div_pos; lia|]. apply Z.div_lt_upper_bound; lia.
Qed.

Lemma kmix32_eq : forall k, kmix32 k = mm_k k.
Proof.
  intro k. unfold kmix32, mm_k. rewrite rotl32_eq; [reflexivity|lia|apply R32_mod].
Qed.

Lemma step32_eq : forall h k, R32 h ->
  (rotl32 (Z.lxor h (kmix32 k)) 13 * 5 + 0xE6546B64) mod W32 = mm_step h k.
Proof.
  intros h k Hh. unfold mm_step. rewrite kmix32_eq, rotl32_eq; [reflexivity|lia|].
  apply (lxor_range 32); auto; [lia|apply mm_k_range].
Qed.

Lemma step64_eq : forall h k, (Z.lxor h (mix64 k) * m64) mod W64 = fh_step h k.
Proof. intros. unfold fh_step. rewrite mix64_eq. reflexivity. Qed.

(* ------------------------------------------------------------------ reading memory *)

Lemma read_length : forall mem buf n, length (read mem buf n) = n.
Proof. intros. unfold read. now rewrite map_length, seq_length. Qed.

Lemma read_S : forall mem buf n, read mem buf (S n) = mem buf :: read mem (buf + 1) n.
Proof.
  intros. unfold read. cbn [seq map]. rewrite Z.add_0_r. f_equal.
  rewrite <- seq_shift, map_map. apply map_ext. intro i. f_equal. lia.
Qed.

Lemma read_app : forall mem a b buf,
  read mem buf (a + b) = read mem buf a ++ read mem (buf + Z.of_nat a) b.
Proof.
  induction a as [|a IH]; intros b buf.
  - cbn [Nat.add]. rewrite Z.add_0_r. reflexivity.
  - cbn [Nat.add]. rewrite !read_S, IH. cbn [app]. do 3 f_equal. lia.
Qed.

Lemma read_ext : forall mem mem' buf n,
  (forall i, 0 <= i < Z.of_nat n -> mem (buf + i) = mem' (buf + i)) -> read mem buf n = read mem' buf n.
Proof.
  intros mem mem' buf n H. unfold read. apply map_ext_in. intros i Hi.
  apply in_seq in Hi. apply H. lia.
Qed.

Lemma read_bytes : forall mem buf n,
  (forall i, 0 <= i < Z.of_nat n -> byte (mem (buf + i))) -> Forall byte (read mem buf n).
Proof.
  intros mem buf n H. unfold read. apply Forall_forall. intros x Hx.
  apply in_map_iff in Hx as [i [<- Hi]]. apply in_seq in Hi. apply H. lia.
Qed.

Lemma read_mem_of : forall junk base bytes, read (mem_of junk base bytes) base (length bytes) = bytes.
Proof.
  intros junk base bytes. apply (nth_ext _ _ junk junk); [apply read_length|].
  intros i Hi. rewrite read_length in Hi. unfold read.
  rewrite (nth_indep _ junk (mem_of junk base bytes (base + Z.of_nat 0))) by (now rewrite map_length, seq_length).
  rewrite (map_nth (fun i => mem_of junk base bytes (base + Z.of_nat i))), seq_nth by assumption.
  unfold mem_of. cbn [Nat.add].
  destruct (andb (base <=? base + Z.of_nat i) (base + Z.of_nat i <? base + Z.of_nat (length bytes))) eqn:E; [|lia].
  f_equal. lia.
Qed.

Lemma le_word_read8 : forall mem p, le_word (read mem p 8) = load64 mem p.
Proof.
  intros. rewrite !read_S. cbn [read seq map le_word]. unfold load64.
  rewrite <- !Z.add_assoc. cbn [Z.add Pos.add Pos.succ]. norm_pow. ring.
Qed.

Lemma le_word_read4 : forall mem p, le_word (read mem p 4) = load32 mem p.
Proof.
  intros. rewrite !read_S. cbn [read seq map le_word]. unfold load32.
  rewrite <- !Z.add_assoc. cbn [Z.add Pos.add Pos.succ]. norm_pow. ring.
Qed.

(* ------------------------------------------------------------------ the block loops *)

Lemma blocks64_fold : forall n mem data h rest,
  blocks64 n mem data (data + 8 * Z.of_nat n) h =
  fold_left fh_step (words 8 n (read mem data (8 * n + rest))) h.
Proof.
  induction n as [|n IH]; intros mem data h rest; [reflexivity|].
  cbn [blocks64].
  destruct (Z.eqb_spec data (data + 8 * Z.of_nat (S n))) as [E|_]; [lia|].
  replace (data + 8 * Z.of_nat (S n)) with (data + 8 + 8 * Z.of_nat n) by lia.
  replace (8 * S n + rest)%nat with (8 + (8 * n + rest))%nat by lia.
  rewrite read_app, words_block by apply read_length.
  cbn [fold_left]. rewrite le_word_read8, step64_eq. apply IH.
Qed.

Lemma blocks32_fold : forall n mem data h rest, R32 h ->
  blocks32 n mem data (data + 4 * Z.of_nat n) h =
  (data + 4 * Z.of_nat n, fold_left mm_step (words 4 n (read mem data (4 * n + rest))) h).
Proof.
  induction n as [|n IH]; intros mem data h rest Hh.
  - cbn. f_equal. lia.
  - cbn [blocks32].
    destruct (Z.eqb_spec data (data + 4 * Z.of_nat (S n))) as [E|_]; [lia|].
    replace (data + 4 * Z.of_nat (S n)) with (data + 4 + 4 * Z.of_nat n) by lia.
    replace (4 * S n + rest)%nat with (4 + (4 * n + rest))%nat by lia.
    rewrite read_app, words_block by apply read_length.
    cbn [fold_left]. rewrite le_word_read4, step32_eq by assumption.
    apply IH. apply mm_step_range.
Qed.

(* ------------------------------------------------------------------ the tail switches *)

Ltac side := first [assumption | lia | (norm_pow; lia)].

Lemma tail64_eq : forall mem tail r h, 0 <= r < 8 ->
  (forall i, 0 <= i < r -> byte (mem (tail + i))) ->
  tail64 mem tail r h = fh_tail h (read mem tail (Z.to_nat r)).
Proof.
  intros mem tail r h Hr Hb.
  assert (B0 := Hb 0). assert (B1 := Hb 1). assert (B2 := Hb 2). assert (B3 := Hb 3).
  assert (B4 := Hb 4). assert (B5 := Hb 5). assert (B6 := Hb 6). rewrite Z.add_0_r in B0.
  assert (C : r = 0 \/ r = 1 \/ r = 2 \/ r = 3 \/ r = 4 \/ r = 5 \/ r = 6 \/ r = 7) by lia.
  unfold tail64.
  destruct C as [->|[->|[->|[->|[->|[->|[->| ->]]]]]]];
    match goal with |- context [Z.to_nat ?k] =>
      let n := eval vm_compute in (Z.to_nat k) in change (Z.to_nat k) with n end;
    cbn [Z.leb Z.compare Pos.compare Pos.compare_cont];
    rewrite ?read_S; cbn [read seq map fh_tail]; [reflexivity|..];
    rewrite <- ?Z.add_assoc; cbn [Z.add Pos.add Pos.succ];
    rewrite <- step64_eq; do 3 f_equal; cbn [le_word];
    repeat match goal with
    | |- context [Z.lor 0 (Z.shiftl ?b ?k)] => rewrite (lor_byte 0 b k) by (first [lia | apply B1; lia | apply B2; lia | apply B3; lia | apply B4; lia | apply B5; lia | apply B6; lia | reflexivity])
    end;
    repeat match goal with
    | |- context [Z.lor ?v (Z.shiftl ?b ?k)] =>
      lazymatch v with
      | context [Z.lor] => fail
      | _ => rewrite (lor_byte v b k) by
            (first [lia | apply B1; lia | apply B2; lia | apply B3; lia | apply B4; lia | apply B5; lia | apply B6; lia
                   | (norm_pow; lia)])
      end
    end;
    try (rewrite lor_byte0 by (first [apply B0; lia | (norm_pow; lia)]));
    norm_pow; f_equal; ring.
Qed.

Lemma tail32_eq : forall mem data r h, 0 <= r < 4 ->
  (forall i, 0 <= i < r -> byte (mem (data + i))) ->
  tail32 mem data r h = mm_tail h (read mem data (Z.to_nat r)).
Proof.
  intros mem data r h Hr Hb.
  assert (B0 := Hb 0). assert (B1 := Hb 1). assert (B2 := Hb 2). rewrite Z.add_0_r in B0.
  assert (C : r = 0 \/ r = 1 \/ r = 2 \/ r = 3) by lia.
  unfold tail32.
  destruct C as [->|[->|[->| ->]]];
    match goal with |- context [Z.to_nat ?k] =>
      let n := eval vm_compute in (Z.to_nat k) in change (Z.to_nat k) with n end;
    cbn [Z.leb Z.compare Pos.compare Pos.compare_cont];
    rewrite ?read_S; cbn [read seq map mm_tail]; [reflexivity|..];
    rewrite <- ?Z.add_assoc; cbn [Z.add Pos.add Pos.succ];
    rewrite kmix32_eq; do 2 f_equal; cbn [le_word];
    repeat match goal with
    | |- context [Z.lxor 0 (Z.shiftl ?b ?k)] => rewrite (lxor_byte 0 b k) by (first [lia | apply B1; lia | apply B2; lia | reflexivity])
    end;
    repeat match goal with
    | |- context [Z.lxor ?v (Z.shiftl ?b ?k)] =>
      lazymatch v with
      | context [Z.lxor] => fail
      | _ => rewrite (lxor_byte v b k) by
            (first [lia | apply B1; lia | apply B2; lia | (norm_pow; lia)])
      end
    end;
    try (rewrite lxor_byte0 by (first [apply B0; lia | (norm_pow; lia)]));
    norm_pow; ring.
Qed.

(* ------------------------------------------------------------------ whole functions *)

Lemma land7 : forall len, Z.land len 7 = len mod 8.
Proof. intro. change 7 with (Z.ones 3). rewrite Z.land_ones by lia. reflexivity. Qed.

Lemma land3 : forall len, Z.land len 3 = len mod 4.
Proof. intro. change 3 with (Z.ones 2). rewrite Z.land_ones by lia. reflexivity. Qed.

Theorem digest64_at_ref : forall mem seed buf len, 0 <= len ->
  (forall i, 0 <= i < len -> byte (mem (buf + i))) ->
  digest64_at mem seed buf len = fasthash64 seed (read mem buf (Z.to_nat len)).
Proof.
  intros mem seed buf len Hlen Hb.
  rewrite fasthash64_unfold, read_length. unfold digest64_at, finish64.
  set (n := Z.to_nat len). set (nb := (n / 8)%nat).
  assert (En : Z.of_nat n = len) by (subst n; lia).
  assert (Enb : Z.of_nat nb = len / 8) by (subst nb; lia).
  rewrite mix64_eq. f_equal.
  replace (Z.to_nat (len / 8)) with nb by lia.
  replace (buf + len / 8 * 8) with (buf + 8 * Z.of_nat nb) by lia.
  set (rest := (n - 8 * nb)%nat).
  assert (Er : (n = 8 * nb + rest)%nat) by (subst rest nb; lia).
  rewrite (blocks64_fold nb mem buf _ rest), <- Er.
  rewrite land7, tail64_eq.
  - unfold fh_h0. rewrite En. f_equal.
    replace (read mem buf n) with (read mem buf (8 * nb + rest)) by (f_equal; lia).
    rewrite read_app, skipn_app_exact0 by apply read_length.
    f_equal; lia.
  - lia.
  - intros i Hi. replace (buf + 8 * Z.of_nat nb + i) with (buf + (8 * Z.of_nat nb + i)) by lia.
    apply Hb. lia.
Qed.

Theorem digest32_at_ref : forall mem seed buf len, 0 <= len -> R32 seed ->
  (forall i, 0 <= i < len -> byte (mem (buf + i))) ->
  digest32_at mem seed buf len = murmur3_32 seed (read mem buf (Z.to_nat len)).
Proof.
  intros mem seed buf len Hlen Hs Hb.
  rewrite murmur3_32_unfold, read_length. unfold digest32_at, finish32.
  set (n := Z.to_nat len). set (nb := (n / 4)%nat).
  assert (En : Z.of_nat n = len) by (subst n; lia).
  assert (Enb : Z.of_nat nb = len / 4) by (subst nb; lia).
  replace (Z.to_nat (len / 4)) with nb by lia.
  replace (buf + len / 4 * 4) with (buf + 4 * Z.of_nat nb) by lia.
  set (rest := (n - 4 * nb)%nat).
  assert (Er : (n = 4 * nb + rest)%nat) by (subst rest nb; lia).
  rewrite (blocks32_fold nb mem buf _ rest Hs), <- Er.
  rewrite mix32_eq, land3, tail32_eq.
  - rewrite En. do 3 f_equal.
    replace (read mem buf n) with (read mem buf (4 * nb + rest)) by (f_equal; lia).
    rewrite read_app, skipn_app_exact0 by apply read_length.
    f_equal; lia.
  - lia.
  - intros i Hi. replace (buf + 4 * Z.of_nat nb + i) with (buf + (4 * Z.of_nat nb + i)) by lia.
    apply Hb. lia.
Qed.

(* the byte-list functions are the reference functions *)
Lemma mem_of_bytes : forall junk base bytes, Forall byte bytes ->
  forall i, 0 <= i < Z.of_nat (length bytes) -> byte (mem_of junk base bytes (base + i)).
Proof.
  intros junk base bytes F i Hi. unfold mem_of.
  destruct (andb (base <=? base + i) (base + i <? base + Z.of_nat (length bytes))) eqn:E; [|lia].
  rewrite Forall_forall in F. apply F. apply nth_In. lia.
Qed.

Theorem digest64_ref : forall seed bytes, Forall byte bytes -> digest64 seed bytes = fasthash64 seed bytes.
Proof.
  intros seed bytes F. unfold digest64.
  rewrite digest64_at_ref; [|lia|apply (mem_of_bytes 0 0 bytes F)].
  rewrite Nat2Z.id, read_mem_of. reflexivity.
Qed.

Theorem digest32_ref : forall seed bytes, R32 seed -> Forall byte bytes ->
  digest32 seed bytes = murmur3_32 seed bytes.
Proof.
  intros seed bytes Hs F. unfold digest32.
  rewrite digest32_at_ref; [|lia|assumption|apply (mem_of_bytes 0 0 bytes F)].
  rewrite Nat2Z.id, read_mem_of. reflexivity.
Qed.

(* ------------------------------------------------------------------ aligned variants *)

Lemma skipn_nth_cons : forall (i : nat) (l : list Z), (i < length l)%nat ->
  skipn i l = nth i l 0 :: skipn (S i) l.
Proof.
  induction i as [|i IH]; intros [|x l] H; cbn [length] in H; try lia; [reflexivity|].
  cbn [skipn nth]. rewrite IH by lia. reflexivity.
Qed.

Lemma ablocks64_fold : forall k ws i h, (i + k = length ws)%nat ->
  ablocks64 k ws (Z.of_nat i) (Z.of_nat (length ws)) h = fold_left fh_step (skipn i ws) h.
Proof.
  induction k as [|k IH]; intros ws i h H.
  - cbn [ablocks64]. rewrite skipn_all2 by lia. reflexivity.
  - cbn [ablocks64].
    destruct (Z.ltb_spec (Z.of_nat i) (Z.of_nat (length ws))) as [_|]; [|lia].
    rewrite Nat2Z.id, step64_eq, (skipn_nth_cons i) by lia. cbn [fold_left].
    replace (Z.of_nat i + 1) with (Z.of_nat (S i)) by lia. apply IH. lia.
Qed.

Lemma ablocks32_fold : forall k ws i h, (i + k = length ws)%nat -> R32 h ->
  ablocks32 k ws (Z.of_nat i) (Z.of_nat (length ws)) h = fold_left mm_step (skipn i ws) h.
Proof.
  induction k as [|k IH]; intros ws i h H Hh.
  - cbn [ablocks32]. rewrite skipn_all2 by lia. reflexivity.
  - cbn [ablocks32].
    destruct (Z.ltb_spec (Z.of_nat i) (Z.of_nat (length ws))) as [_|]; [|lia].
    rewrite Nat2Z.id, step32_eq, (skipn_nth_cons i) by (assumption || lia). cbn [fold_left].
    replace (Z.of_nat i + 1) with (Z.of_nat (S i)) by lia. apply IH; [lia|apply mm_step_range].
Qed.

Lemma digest64_aligned_unfold : forall seed ws,
  digest64_aligned seed ws = fh_mix (fold_left fh_step ws (fh_h0 seed (8 * length ws))).
Proof.
  intros. unfold digest64_aligned.
  replace (8 * Z.of_nat (length ws) / 8) with (Z.of_nat (length ws)) by lia.
  rewrite Nat2Z.id, (ablocks64_fold (length ws) ws 0) by lia.
  rewrite mix64_eq. cbn [skipn]. unfold fh_h0.
  replace (Z.of_nat (8 * length ws)) with (8 * Z.of_nat (length ws)) by lia. reflexivity.
Qed.

Lemma digest32_aligned_unfold : forall seed ws, R32 seed ->
  digest32_aligned seed ws =
  fmix32 (Z.lxor (fold_left mm_step ws seed) (Z.of_nat (4 * length ws) mod M32)).
Proof.
  intros seed ws Hs. unfold digest32_aligned.
  replace (4 * Z.of_nat (length ws) / 4) with (Z.of_nat (length ws)) by lia.
  rewrite Nat2Z.id, (ablocks32_fold (length ws) ws 0) by (assumption || lia).
  rewrite mix32_eq. cbn [skipn].
  replace (Z.of_nat (4 * length ws)) with (4 * Z.of_nat (length ws)) by lia. reflexivity.
Qed.

Lemma le_value_eq : forall bs, le_value bs = le_word bs.
Proof. induction bs as [|b r IH]; cbn; [reflexivity|now rewrite IH]. Qed.

Lemma words_of_bytes_eq : forall w n l, words_of_bytes w n l = words w n l.
Proof.
  induction n as [|n IH]; intro l; cbn [words_of_bytes words]; [reflexivity|].
  now rewrite le_value_eq, IH.
Qed.

Lemma le_word_bytes_of_word : forall w x, le_word (bytes_of_word w x) = x mod 256 ^ Z.of_nat w.
Proof.
  induction w as [|w IH]; intro x.
  - cbn. now rewrite Z.mod_1_r.
  - cbn [bytes_of_word le_word]. rewrite IH, Nat2Z.inj_succ, Z.pow_succ_r by lia.
    assert (0 < 256 ^ Z.of_nat w) by (apply Z.pow_pos_nonneg; lia).
    rewrite Z.rem_mul_r by lia. reflexivity.
Qed.

Lemma bytes_of_word_length : forall w x, length (bytes_of_word w x) = w.
Proof. induction w; intro x; cbn; auto. Qed.

Lemma bytes_of_word_bytes : forall w x, Forall byte (bytes_of_word w x).
Proof.
  induction w as [|w IH]; intro x; cbn [bytes_of_word]; constructor; auto.
  unfold byte. lia.
Qed.

Lemma bytes_le_length : forall w ws, length (bytes_le w ws) = (w * length ws)%nat.
Proof.
  induction ws as [|x ws IH]; cbn [bytes_le flat_map length]; [lia|].
  fold (bytes_le w ws). rewrite app_length, bytes_of_word_length, IH. lia.
Qed.

Lemma bytes_le_bytes : forall w ws, Forall byte (bytes_le w ws).
Proof.
  induction ws as [|x ws IH]; cbn [bytes_le flat_map]; [constructor|].
  apply Forall_app. split; [apply bytes_of_word_bytes|exact IH].
Qed.

Lemma words_bytes_le : forall (w : nat) ws, Forall (fun x => 0 <= x < 256 ^ Z.of_nat w) ws ->
  words w (length ws) (bytes_le w ws) = ws.
Proof.
  induction 1 as [|x ws Hx Hws IH]; [reflexivity|].
  cbn [length bytes_le flat_map]. fold (bytes_le w ws).
  rewrite words_block by apply bytes_of_word_length.
  rewrite le_word_bytes_of_word, Z.mod_small, IH by assumption. reflexivity.
Qed.

Theorem digest64_aligned_bytes_le : forall seed ws, Forall R64 ws ->
  digest64_aligned seed ws = fasthash64 seed (bytes_le 8 ws).
Proof.
  intros seed ws F. rewrite digest64_aligned_unfold, fasthash64_unfold, bytes_le_length.
  replace (8 * length ws / 8)%nat with (length ws) by lia.
  rewrite words_bytes_le by exact F.
  rewrite skipn_all2 by (rewrite bytes_le_length; lia). reflexivity.
Qed.

Theorem digest32_aligned_bytes_le : forall seed ws, R32 seed -> Forall R32 ws ->
  digest32_aligned seed ws = murmur3_32 seed (bytes_le 4 ws).
Proof.
  intros seed ws Hs F. rewrite digest32_aligned_unfold, murmur3_32_unfold, bytes_le_length by assumption.
  replace (4 * length ws / 4)%nat with (length ws) by lia.
  rewrite words_bytes_le by exact F.
  rewrite skipn_all2 by (rewrite bytes_le_length; lia). reflexivity.
Qed.

(* the form the drivers use: the words are read off an aligned buffer whose length is a multiple of the word *)
Theorem digest64_aligned_words : forall seed bytes nb, length bytes = (8 * nb)%nat ->
  digest64_aligned seed (words_of_bytes 8 nb bytes) = fasthash64 seed bytes.
Proof.
  intros seed bytes nb H. rewrite digest64_aligned_unfold, fasthash64_unfold, words_of_bytes_eq.
  assert (L : length (words 8 nb bytes) = nb).
  { clear H. revert bytes. induction nb; intro; cbn [words length]; auto. }
  rewrite L, H. replace (8 * nb / 8)%nat with nb by lia.
  rewrite skipn_all2 by lia. reflexivity.
Qed.

Theorem digest32_aligned_words : forall seed bytes nb, R32 seed -> length bytes = (4 * nb)%nat ->
  digest32_aligned seed (words_of_bytes 4 nb bytes) = murmur3_32 seed bytes.
Proof.
  intros seed bytes nb Hs H. rewrite digest32_aligned_unfold, murmur3_32_unfold, words_of_bytes_eq by assumption.
  assert (L : length (words 4 nb bytes) = nb).
  { clear H. revert bytes. induction nb; intro; cbn [words length]; auto. }
  rewrite L, H. replace (4 * nb / 4)%nat with nb by lia.
  rewrite skipn_all2 by lia. reflexivity.
Qed.
