(* C17: the specification — a counting semaphore is a natural number.  Nothing here mentions
   errno, retry loops or signals. *)
From Coq Require Import List Arith.
Import ListNotations.

Inductive sop := SPost | SWait | STry | STimed.
Inductive sres := RSuccess | RUnavailable | RTimeout | ROther.

(* what an operation may do on count c; None = it cannot complete yet (the caller waits).
   `expired` says whether the deadline of a timed wait has passed. *)
Definition spec_op (o : sop) (c : nat) (expired : bool) : option (nat * sres) :=
  match o, c with
  | SPost, _ => Some (S c, RSuccess)
  | SWait, O => None
  | STry, O => Some (O, RUnavailable)
  | STimed, O => if expired then Some (O, RTimeout) else None
  | _, S c' => Some (c', RSuccess)
  end.

Record sthread := { st_todo : list sop; st_done : list (sop * sres) }.
Record sstate := { sp_count : nat; sp_threads : list sthread }.

Inductive schoice := SRun (i : nat) (expired : bool) | SNothing.

Fixpoint supd {A} (i : nat) (x : A) (l : list A) : list A :=
  match l, i with
  | [], _ => []
  | _ :: l', O => x :: l'
  | y :: l', S i' => y :: supd i' x l'
  end.

Definition spec_step (ch : schoice) (st : sstate) : sstate :=
  match ch with
  | SNothing => st
  | SRun i expired =>
      match nth_error (sp_threads st) i with
      | None => st
      | Some t =>
          match st_todo t with
          | [] => st
          | o :: rest =>
              match spec_op o (sp_count st) expired with
              | None => st
              | Some (c', r) =>
                  {| sp_count := c';
                     sp_threads := supd i {| st_todo := rest; st_done := st_done t ++ [(o, r)] |}
                                        (sp_threads st) |}
              end
          end
      end
  end.

Fixpoint spec_run (sched : list schoice) (st : sstate) : sstate :=
  match sched with
  | [] => st
  | ch :: rest => spec_run rest (spec_step ch st)
  end.

Definition spec_init (initial : nat) (progs : list (list sop)) : sstate :=
  {| sp_count := initial;
     sp_threads := map (fun p => {| st_todo := p; st_done := [] |}) progs |}.
