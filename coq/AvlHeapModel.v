(* C06 — pointer-level ("heap") model of /repo/src/tree.c.  Definitions only, executable.

   A heap is a finite map  node id -> {data; balance; parent; left; right}  (pointers = option id,
   None = NULL); the container is the heap plus t->root, t->size and the serial number of the next
   insert call (the identity the next allocated node gets; this is what the functional model
   AvlModel.v calls the node's id).  Every function below transcribes the C function of the same
   name statement by statement: every pointer assignment of rotate(), of the linking in
   zix_tree_insert and of the relinking in zix_tree_remove is one [set_*] in the order of the C
   code; loops are fuelled recursions (fuel = t->size + 1) with the distinguished outcome [None] =
   out of fuel.

   NOT modelled as a failure: dereferencing NULL or an id outside the heap reads NULL / 0 and
   writes nothing (AvlHeapProofs: on heaps that represent a tree this never happens on the paths
   taken; memory safety of the C code itself is observed under ASan only).  The dead initial
   assignments to height_change in zix_tree_remove (always overwritten by zix_tree_rebalance before
   they are read) are left out, as in AvlModel.v. *)
From Coq Require Import ZArith List Bool.
From Zix Require Import AvlSpec AvlModel.
Import ListNotations.
Local Open Scope Z_scope.

Record node := mkNode {
  ndata : elt;
  nbal : Z;
  npar : option Z;
  nleft : option Z;
  nright : option Z }.

Definition heap := list (Z * node).

Fixpoint hget (h : heap) (i : Z) : option node :=
  match h with
  | [] => None
  | (j, n) :: h' => if j =? i then Some n else hget h' i
  end.

Fixpoint hset (h : heap) (i : Z) (n : node) : heap :=
  match h with
  | [] => [(i, n)]
  | (j, m) :: h' => if j =? i then (i, n) :: h' else (j, m) :: hset h' i n
  end.

Fixpoint hdel (h : heap) (i : Z) : heap :=
  match h with
  | [] => []
  | (j, m) :: h' => if j =? i then hdel h' i else (j, m) :: hdel h' i
  end.

(* write through a pointer: nothing happens if the node does not exist *)
Definition upd (h : heap) (i : Z) (f : node -> node) : heap :=
  match hget h i with Some n => hset h i (f n) | None => h end.

(* field reads:  i->left, i->right, i->parent, i->balance, i->data *)
Definition left (h : heap) (i : Z) : option Z := match hget h i with Some n => nleft n | None => None end.
Definition right (h : heap) (i : Z) : option Z := match hget h i with Some n => nright n | None => None end.
Definition parent (h : heap) (i : Z) : option Z := match hget h i with Some n => npar n | None => None end.
Definition bal (h : heap) (i : Z) : Z := match hget h i with Some n => nbal n | None => 0 end.

(* field writes *)
Definition set_left (h : heap) (i : Z) (v : option Z) : heap :=
  upd h i (fun n => mkNode (ndata n) (nbal n) (npar n) v (nright n)).
Definition set_right (h : heap) (i : Z) (v : option Z) : heap :=
  upd h i (fun n => mkNode (ndata n) (nbal n) (npar n) (nleft n) v).
Definition set_parent (h : heap) (i : Z) (v : option Z) : heap :=
  upd h i (fun n => mkNode (ndata n) (nbal n) v (nleft n) (nright n)).
Definition set_bal (h : heap) (i : Z) (v : Z) : heap :=
  upd h i (fun n => mkNode (ndata n) v (npar n) (nleft n) (nright n)).

(* pointer comparison  a == b  where b is a non-null node *)
Definition ptr_is (a : option Z) (b : Z) : bool := match a with Some x => x =? b | None => false end.

(* ------------------------------------------------------------------ rotate(p, q) *)
Definition rotate (h : heap) (p q : Z) : heap :=
  (* q->parent = p->parent; *)
  let h1 := set_parent h q (parent h p) in
  (* if (q->parent) { if (q->parent->left == p) q->parent->left = q; else q->parent->right = q; } *)
  let h2 := match parent h1 q with
            | Some g => if ptr_is (left h1 g) p then set_left h1 g (Some q) else set_right h1 g (Some q)
            | None => h1
            end in
  if ptr_is (right h2 p) q then
    (* p->right = q->left; q->left = p; if (p->right) p->right->parent = p; *)
    let h3 := set_right h2 p (left h2 q) in
    let h4 := set_left h3 q (Some p) in
    let h5 := match right h4 p with Some c => set_parent h4 c (Some p) | None => h4 end in
    (* p->parent = q; *)
    set_parent h5 p (Some q)
  else
    (* p->left = q->right; q->right = p; if (p->left) p->left->parent = p; *)
    let h3 := set_left h2 p (right h2 q) in
    let h4 := set_right h3 q (Some p) in
    let h5 := match left h4 p with Some c => set_parent h4 c (Some p) | None => h4 end in
    set_parent h5 p (Some q).

(* the four rotations: (heap, replacement node, *height_change, log code as in AvlModel).
   A NULL q or r (excluded by assert in C) leaves the heap unchanged. *)
Definition h_rotate_left (h : heap) (p : Z) : heap * Z * Z * list Z :=
  match right h p with
  | None => (h, p, 0, [])
  | Some q =>
      let bq := bal h q in
      let hc := if bq =? 0 then 0 else -1 in
      let h1 := rotate h p q in
      let h2 := set_bal h1 q (bal h1 q - 1) in          (* --q->balance; *)
      let h3 := set_bal h2 p (- bal h2 q) in            (* p->balance = -(q->balance); *)
      (h3, q, hc, [40 + (bq + 1)])
  end.

Definition h_rotate_right (h : heap) (p : Z) : heap * Z * Z * list Z :=
  match left h p with
  | None => (h, p, 0, [])
  | Some q =>
      let bq := bal h q in
      let hc := if bq =? 0 then 0 else -1 in
      let h1 := rotate h p q in
      let h2 := set_bal h1 q (bal h1 q + 1) in          (* ++q->balance; *)
      let h3 := set_bal h2 p (- bal h2 q) in
      (h3, q, hc, [20 + (bq + 1)])
  end.

Definition h_rotate_left_right (h : heap) (p : Z) : heap * Z * Z * list Z :=
  match left h p with
  | None => (h, p, 0, [])
  | Some q =>
      match right h q with
      | None => (h, p, 0, [])
      | Some r =>
          let br := bal h r in
          let h1 := rotate h q r in
          let h2 := rotate h1 p r in
          (* q->balance -= 1 + MAX(0, r->balance); *)
          let h3 := set_bal h2 q (bal h2 q - (1 + Z.max 0 (bal h2 r))) in
          (* p->balance += 1 - MIN(MIN(0, r->balance) - 1, r->balance + q->balance); *)
          let h4 := set_bal h3 p (bal h3 p + (1 - Z.min (Z.min 0 (bal h3 r) - 1) (bal h3 r + bal h3 q))) in
          let h5 := set_bal h4 r 0 in
          (h5, r, -1, [10 + (br + 1)])
      end
  end.

Definition h_rotate_right_left (h : heap) (p : Z) : heap * Z * Z * list Z :=
  match right h p with
  | None => (h, p, 0, [])
  | Some q =>
      match left h q with
      | None => (h, p, 0, [])
      | Some r =>
          let br := bal h r in
          let h1 := rotate h q r in
          let h2 := rotate h1 p r in
          (* q->balance += 1 - MIN(0, r->balance); *)
          let h3 := set_bal h2 q (bal h2 q + (1 - Z.min 0 (bal h2 r))) in
          (* p->balance -= 1 + MAX(MAX(0, r->balance) + 1, r->balance + q->balance); *)
          let h4 := set_bal h3 p (bal h3 p - (1 + Z.max (Z.max 0 (bal h3 r) + 1) (bal h3 r + bal h3 q))) in
          let h5 := set_bal h4 r 0 in
          (h5, r, -1, [30 + (br + 1)])
      end
  end.

(* ------------------------------------------------------------------ the container *)
Record hstate := mkH { hp : heap; hroot : option Z; hsize : Z; hnextid : Z }.

Definition hinit : hstate := mkH [] None 0 0.

Definition fuel_of (st : hstate) : nat := S (Z.to_nat (hsize st)).

(* zix_tree_rebalance(t, node, &height_change): new heap and root, replacement, *height_change, log *)
Definition h_rebalance (h : heap) (rt : option Z) (nd : Z) : heap * option Z * Z * Z * list Z :=
  let is_root := match parent h nd with None => true | Some _ => false end in
  let '(h', repl, hc, c) :=
    if bal h nd =? -2 then
      match left h nd with
      | Some l => if bal h l =? 1 then h_rotate_left_right h nd else h_rotate_right h nd
      | None => h_rotate_right h nd
      end
    else if bal h nd =? 2 then
      match right h nd with
      | Some r => if bal h r =? -1 then h_rotate_right_left h nd else h_rotate_left h nd
      | None => h_rotate_left h nd
      end
    else (h, nd, 0, []) in
  (h', (if is_root then Some repl else rt), repl, hc, c).

Section HeapOps.
Variable rank : elt -> Z.

Definition data_of (h : heap) (i : Z) : elt := match hget h i with Some n => ndata n | None => (0, 0) end.

(* ------------------------------------------------------------------ zix_tree_insert *)
Inductive dres := DExists (e : Z) | DParent (p : Z) (cmp : comparison).

(* "Find the parent p of e" from a non-null n; the list = the stored elements compared, in order *)
Fixpoint h_descend (fuel : nat) (h : heap) (dup : bool) (x : elt) (n : Z) : option (dres * list Z) :=
  match fuel with
  | O => None
  | S f =>
      let c := Z.compare (rank x) (rank (data_of h n)) in
      let go (nx : option Z) :=
        match nx with
        | None => Some (DParent n c, [n])
        | Some m => match h_descend f h dup x m with
                    | Some (res, lg) => Some (res, n :: lg)
                    | None => None
                    end
        end in
      match c with
      | Lt => go (left h n)
      | Gt => go (right h n)
      | Eq => if dup then go (right h n) else Some (DExists n, [n])
      end
  end.

(* for (i = p; i && i->parent; i = i->parent) {...}  of zix_tree_insert *)
Fixpoint h_ins_retrace (fuel : nat) (h : heap) (rt : option Z) (i : Z) (c : list Z)
  : option (heap * option Z * list Z) :=
  match fuel with
  | O => None
  | S f =>
      match parent h i with
      | None => Some (h, rt, c)
      | Some g =>
          (* i->parent->balance += (i == i->parent->left) ? -1 : 1; *)
          let h1 := set_bal h g (bal h g + (if ptr_is (left h g) i then -1 else 1)) in
          let b := bal h1 g in
          if (b =? -2) || (b =? 2) then
            let '(h2, rt2, _, _, c2) := h_rebalance h1 rt g in Some (h2, rt2, c ++ c2)
          else if b =? 0 then Some (h1, rt, c)
          else h_ins_retrace f h1 rt g c
      end
  end.

(* "Make p the parent of n" (n->parent = p is already set): new heap and p_height_increased *)
Definition h_link (h0 : heap) (p id : Z) (cmp : comparison) : heap * bool :=
  match cmp with
  | Lt => (* p->left = n; --p->balance; p_height_increased = !p->right; *)
      let h1 := set_left h0 p (Some id) in
      let h2 := set_bal h1 p (bal h1 p - 1) in
      (h2, match right h2 p with None => true | Some _ => false end)
  | _ =>  (* p->right = n; ++p->balance; p_height_increased = !p->left; *)
      let h1 := set_right h0 p (Some id) in
      let h2 := set_bal h1 p (bal h1 p + 1) in
      (h2, match left h2 p with None => true | Some _ => false end)
  end.

(* status, *ti, new state, rest of the oracle, rotation log, comparison log *)
Definition h_insert (dup : bool) (x : elt) (o : list bool) (st : hstate)
  : option (status * option Z * hstate * list bool * list Z * list Z) :=
  let h := hp st in
  let id := hnextid st in
  let found :=
    match hroot st with
    | None => Some (None, [])
    | Some n => match h_descend (fuel_of st) h dup x n with
                | Some (r, lg) => Some (Some r, lg)
                | None => None
                end
    end in
  match found with
  | None => None
  | Some (Some (DExists e), lg) =>
      Some (EXISTS, Some e, mkH h (hroot st) (hsize st) (id + 1), o, [], lg)
  | Some (pc, lg) =>
      let '(ok, o') := alloc o in
      if negb ok then Some (NO_MEM, None, mkH h (hroot st) (hsize st) (id + 1), o', [], lg)
      else
        (* n = calloc(...); n->data = e; n->parent = p; *)
        let p := match pc with Some (DParent p _) => Some p | _ => None end in
        let h0 := hset h id (mkNode x 0 p None None) in
        match pc with
        | Some (DParent p cmp) =>
            let '(h1, inc) := h_link h0 p id cmp in
            if inc then
              match h_ins_retrace (fuel_of st) h1 (hroot st) p [] with
              | Some (h2, rt2, c) => Some (SUCCESS, Some id, mkH h2 rt2 (hsize st + 1) (id + 1), o', c, lg)
              | None => None
              end
            else Some (SUCCESS, Some id, mkH h1 (hroot st) (hsize st + 1) (id + 1), o', [], lg)
        | _ => (* t->root = n; *)
            Some (SUCCESS, Some id, mkH h0 (Some id) (hsize st + 1) (id + 1), o', [], lg)
        end
  end.

(* ------------------------------------------------------------------ zix_tree_remove *)

(* while (replace->left) replace = replace->left; *)
Fixpoint h_leftmost (fuel : nat) (h : heap) (n : Z) : option Z :=
  match fuel with
  | O => None
  | S f => match left h n with None => Some n | Some l => h_leftmost f h l end
  end.

Fixpoint h_rightmost (fuel : nat) (h : heap) (n : Z) : option Z :=
  match fuel with
  | O => None
  | S f => match right h n with None => Some n | Some r => h_rightmost f h r end
  end.

(* for (i = to_balance; i; i = i->parent) {...}  of zix_tree_remove *)
Fixpoint h_rem_retrace (fuel : nat) (h : heap) (rt : option Z) (i : option Z) (dbal : Z) (c : list Z)
  : option (heap * option Z * list Z) :=
  match i with
  | None => Some (h, rt, c)
  | Some i =>
      match fuel with
      | O => None
      | S f =>
          let h1 := set_bal h i (bal h i + dbal) in                       (* i->balance += d_balance; *)
          if (dbal =? 0) || (bal h1 i =? -1) || (bal h1 i =? 1) then Some (h1, rt, c)
          else
            let '(h2, rt2, i2, hc, c2) := h_rebalance h1 rt i in          (* i = zix_tree_rebalance(...) *)
            let hc' := if bal h2 i2 =? 0 then -1 else hc in
            let dbal' := match parent h2 i2 with
                         | Some g => if ptr_is (left h2 g) i2 then - hc' else hc'
                         | None => dbal
                         end in
            h_rem_retrace f h2 rt2 (parent h2 i2) dbal' (c ++ c2)
      end
  end.

(* *pp = v  (pp = &parent->left or &parent->right), or t->root = v when pp is NULL *)
Definition set_pp (h : heap) (rt : option Z) (pp : option (Z * bool)) (v : option Z) : heap * option Z :=
  match pp with
  | Some (g, true) => (set_left h g v, rt)
  | Some (g, false) => (set_right h g v, rt)
  | None => (h, v)
  end.

(* "Replace n with in-order successor" of zix_tree_remove, first half: replace (with parent rp) is
   unlinked; returns the heap, to_balance and d_balance *)
Definition h_unlink (h : heap) (n rep rp : Z) : heap * Z * Z :=
  (* Remove replace from parent (replace_p) *)
  let isl := ptr_is (left h rp) rep in
  let dbal := if isl then 1 else -1 in
  let h1 := if isl then set_left h rp (right h rep) else set_right h rp (right h rep) in
  let tb := if rp =? n then rep else rp in            (* if (to_balance == n) to_balance = replace *)
  (* if (replace->right) replace->right->parent = replace->parent; *)
  let h2 := match right h1 rep with Some c => set_parent h1 c (parent h1 rep) | None => h1 end in
  (h2, tb, dbal).

(* second half: replace takes n's balance and n's place ("Swap node to delete with replace") *)
Definition h_place (h2 : heap) (rt : option Z) (pp : option (Z * bool)) (n rep : Z) : heap * option Z :=
  let h3 := set_bal h2 rep (bal h2 n) in              (* replace->balance = n->balance *)
  let '(h4, rt4) := set_pp h3 rt pp (Some rep) in     (* *pp = replace / t->root = replace *)
  let h5 := set_parent h4 rep (parent h4 n) in        (* replace->parent = n->parent *)
  let h6 := set_left h5 rep (left h5 n) in            (* replace->left = n->left *)
  let h7 := match left h6 n with Some c => set_parent h6 c (Some rep) | None => h6 end in
  let h8 := set_right h7 rep (right h7 n) in          (* replace->right = n->right *)
  let h9 := match right h8 n with Some c => set_parent h8 c (Some rep) | None => h8 end in
  (h9, rt4).

Definition h_replace (h : heap) (rt : option Z) (n rep rp : Z) : heap * option Z * Z * Z :=
  let pp := match parent h n with Some g => Some (g, ptr_is (left h g) n) | None => None end in
  let '(h2, tb, dbal) := h_unlink h n rep rp in
  let '(h9, rt4) := h_place h2 rt pp n rep in
  (h9, rt4, tb, dbal).

(* zix_tree_remove(t, n) for a node n of the heap: new state, destroy log, rotation log *)
Definition h_remove (n : Z) (st : hstate) : option (hstate * list item * list Z) :=
  let h := hp st in
  let fin (h' : heap) (rt' : option Z) (c : list Z) :=
    (* t->destroy(n->data); zix_free(n); --t->size; *)
    Some (mkH (hdel h' n) rt' (hsize st - 1) (hnextid st), [(n, data_of h n)], c) in
  match left h n, right h n with
  | None, None =>
      if ptr_is (hroot st) n then fin h None []
      else
        match parent h n with
        | Some g =>
            let isl := ptr_is (left h g) n in
            let h1 := if isl then set_left h g None else set_right h g None in       (* *pp = NULL *)
            match h_rem_retrace (fuel_of st) h1 (hroot st) (Some g) (if isl then 1 else -1) [] with
            | Some (h2, rt2, c) => fin h2 rt2 c
            | None => None
            end
        | None => (* pp == NULL and n is not the root: nothing is unlinked (not reachable) *)
            fin h (hroot st) []
        end
  | None, Some r =>
      let pp := match parent h n with Some g => Some (g, ptr_is (left h g) n) | None => None end in
      let dbal := match pp with Some (_, true) => 1 | Some (_, false) => -1 | None => 0 end in
      let '(h1, rt1) := set_pp h (hroot st) pp (Some r) in          (* *pp = n->right / t->root = n->right *)
      let h2 := set_parent h1 r (parent h1 n) in                    (* n->right->parent = n->parent *)
      match h_rem_retrace (fuel_of st) h2 rt1 (parent h n) dbal [] with
      | Some (h3, rt3, c) => fin h3 rt3 c
      | None => None
      end
  | Some l, None =>
      let pp := match parent h n with Some g => Some (g, ptr_is (left h g) n) | None => None end in
      let dbal := match pp with Some (_, true) => 1 | Some (_, false) => -1 | None => 0 end in
      let '(h1, rt1) := set_pp h (hroot st) pp (Some l) in
      let h2 := set_parent h1 l (parent h1 n) in
      match h_rem_retrace (fuel_of st) h2 rt1 (parent h n) dbal [] with
      | Some (h3, rt3, c) => fin h3 rt3 c
      | None => None
      end
  | Some l, Some r =>
      match h_leftmost (fuel_of st) h r with
      | None => None
      | Some rep =>
          match parent h rep with
          | None => None        (* replace->parent is never NULL: replace is below n *)
          | Some rp =>
              let '(h9, rt4, tb, dbal) := h_replace h (hroot st) n rep rp in
              match h_rem_retrace (fuel_of st) h9 rt4 (Some tb) dbal [] with
              | Some (h10, rt10, c) => fin h10 rt10 c
              | None => None
              end
          end
      end
  end.

(* ------------------------------------------------------------------ zix_tree_find *)
Fixpoint h_find (fuel : nat) (h : heap) (x : elt) (n : option Z) : option (option Z * list Z) :=
  match n with
  | None => Some (None, [])
  | Some i =>
      match fuel with
      | O => None
      | S f =>
          match Z.compare (rank x) (rank (data_of h i)) with
          | Eq => Some (Some i, [i])
          | Lt => match h_find f h x (left h i) with Some (r, lg) => Some (r, i :: lg) | None => None end
          | Gt => match h_find f h x (right h i) with Some (r, lg) => Some (r, i :: lg) | None => None end
          end
      end
  end.

Definition h_tfind (x : elt) (st : hstate) : option (status * option item * list Z) :=
  match h_find (fuel_of st) (hp st) x (hroot st) with
  | Some (Some i, lg) => Some (SUCCESS, Some (i, data_of (hp st) i), lg)
  | Some (None, lg) => Some (NOT_FOUND, None, lg)
  | None => None
  end.

End HeapOps.

(* ------------------------------------------------------------------ iteration *)
Inductive step_result := Fuel | At (i : option Z).

(* zix_tree_begin / zix_tree_rbegin *)
Definition h_begin (st : hstate) : step_result :=
  match hroot st with
  | None => At None
  | Some r => match h_leftmost (fuel_of st) (hp st) r with Some i => At (Some i) | None => Fuel end
  end.

Definition h_rbegin (st : hstate) : step_result :=
  match hroot st with
  | None => At None
  | Some r => match h_rightmost (fuel_of st) (hp st) r with Some i => At (Some i) | None => Fuel end
  end.

(* while (i->parent && i->parent->right == i) i = i->parent;   i = i->parent; *)
Fixpoint h_climb_right (fuel : nat) (h : heap) (i : Z) : step_result :=
  match fuel with
  | O => Fuel
  | S f =>
      match parent h i with
      | Some g => if ptr_is (right h g) i then h_climb_right f h g else At (Some g)
      | None => At None
      end
  end.

Fixpoint h_climb_left (fuel : nat) (h : heap) (i : Z) : step_result :=
  match fuel with
  | O => Fuel
  | S f =>
      match parent h i with
      | Some g => if ptr_is (left h g) i then h_climb_left f h g else At (Some g)
      | None => At None
      end
  end.

(* zix_tree_iter_next(i), i non-null *)
Definition h_iter_next (st : hstate) (i : Z) : step_result :=
  match right (hp st) i with
  | Some r => match h_leftmost (fuel_of st) (hp st) r with Some j => At (Some j) | None => Fuel end
  | None => h_climb_right (fuel_of st) (hp st) i
  end.

Definition h_iter_prev (st : hstate) (i : Z) : step_result :=
  match left (hp st) i with
  | Some l => match h_rightmost (fuel_of st) (hp st) l with Some j => At (Some j) | None => Fuel end
  | None => h_climb_left (fuel_of st) (hp st) i
  end.

(* follow [step] from [cur] for at most [fuel] steps; None = a step ran out of fuel *)
Fixpoint h_walk (step : Z -> step_result) (fuel : nat) (cur : step_result) : option (list Z) :=
  match cur with
  | Fuel => None
  | At None => Some []
  | At (Some i) =>
      match fuel with
      | O => Some []
      | S f => match h_walk step f (step i) with Some l => Some (i :: l) | None => None end
      end
  end.

Definition h_walk_fwd (st : hstate) : option (list Z) :=
  h_walk (h_iter_next st) (Z.to_nat (hsize st)) (h_begin st).
Definition h_walk_bwd (st : hstate) : option (list Z) :=
  h_walk (h_iter_prev st) (Z.to_nat (hsize st)) (h_rbegin st).

(* zix_tree_get through a held iterator *)
Definition h_lookup (st : hstate) (i : Z) : option item :=
  match hget (hp st) i with Some n => Some (i, ndata n) | None => None end.

(* root-to-node path obtained by climbing parent pointers from the node (None = out of fuel) *)
Fixpoint h_path_up (fuel : nat) (h : heap) (i : Z) (acc : list Z) : option (list Z) :=
  match fuel with
  | O => None
  | S f => match parent h i with Some g => h_path_up f h g (i :: acc) | None => Some (i :: acc) end
  end.

(* ------------------------------------------------------------------ histories *)
Section HeapRun.
Variable rank : elt -> Z.

Fixpoint h_run (dup : bool) (ops : list op) (o : list bool) (st : hstate) : option (hstate * list event) :=
  match ops with
  | [] => Some (st, [])
  | OIns x :: ops' =>
      match h_insert rank dup x o st with
      | Some (s, it, st', o', _, _) =>
          match h_run dup ops' o' st' with
          | Some (fin, evs) => Some (fin, EvIns s it :: evs)
          | None => None
          end
      | None => None
      end
  | ORem id :: ops' =>
      (* the caller must pass an iterator of a live node; anything else is answered BAD_ARG as in AvlModel *)
      match hget (hp st) id with
      | None =>
          match h_run dup ops' o st with
          | Some (fin, evs) => Some (fin, EvRem BAD_ARG [] :: evs)
          | None => None
          end
      | Some _ =>
          match h_remove id st with
          | Some (st', dl, _) =>
              match h_run dup ops' o st' with
              | Some (fin, evs) => Some (fin, EvRem SUCCESS dl :: evs)
              | None => None
              end
          | None => None
          end
      end
  | OFind x :: ops' =>
      match h_tfind rank x st with
      | Some (s, it, _) =>
          match h_run dup ops' o st with
          | Some (fin, evs) => Some (fin, EvFind s it :: evs)
          | None => None
          end
      | None => None
      end
  end.

End HeapRun.
