(* C06 — heap model of tree.c, lemmas part 3: zix_tree_insert on a heap that represents a tree
   (descent, linking of the new node, upward retrace loop over parent pointers) simulates the
   functional insertion. *)
From Coq Require Import ZArith List Bool Lia ZifyBool Permutation.
From Zix Require Import AvlSpec AvlModel AvlProofs AvlProofsIter AvlProofsState AvlHeapModel AvlHeapProofsBase AvlHeapProofsRot.
Import ListNotations.
Local Open Scope Z_scope.

Section Ins.
Variable rank : elt -> Z.

(* ------------------------------------------------------------------ the functional insertion in zipper form *)
Inductive zres :=
| ZExists (e : Z)
| ZAt (c : ctx) (i : Z) (d : elt) (b : Z) (l r : tree) (cmp : comparison).

(* descent to the node that becomes the parent of the new node, remembering the path *)
Fixpoint zdesc (dup : bool) (x : elt) (t : tree) (c : ctx) : zres :=
  match t with
  | E => ZExists (-1)
  | N i d b l r =>
      match Z.compare (rank x) (rank d) with
      | Lt => match l with E => ZAt c i d b l r Lt | _ => zdesc dup x l (CL i d b r c) end
      | Gt => match r with E => ZAt c i d b l r Gt | _ => zdesc dup x r (CR i d b l c) end
      | Eq => if dup then match r with E => ZAt c i d b l r Eq | _ => zdesc dup x r (CR i d b l c) end
              else ZExists i
      end
  end.

(* linking the new node under its parent *)
Definition zlink (id : Z) (x : elt) (i : Z) (d : elt) (b : Z) (l r : tree) (cmp : comparison) : tree * bool :=
  match cmp with
  | Lt => (N i d (b - 1) (N id x 0 E E) r, is_E r)
  | _ => (N i d (b + 1) l (N id x 0 E E), is_E l)
  end.

(* the retrace loop, from a subtree that has grown *)
Fixpoint up_ins (c : ctx) (t : tree) (lg : list Z) : tree * list Z :=
  match c with
  | Top => (t, lg)
  | CL i d b r c' =>
      match retrace_ins (N i d (b - 1) t r) lg with
      | IOk t' true lg' => up_ins c' t' lg'
      | IOk t' false lg' => (plug c' t', lg')
      | IExists _ => (plug c t, lg)
      end
  | CR i d b l c' =>
      match retrace_ins (N i d (b + 1) l t) lg with
      | IOk t' true lg' => up_ins c' t' lg'
      | IOk t' false lg' => (plug c' t', lg')
      | IExists _ => (plug c t, lg)
      end
  end.

Definition up_or_plug (g : bool) (c : ctx) (t : tree) (lg : list Z) : tree * list Z :=
  if g then up_ins c t lg else (plug c t, lg).

Lemma ins_zip : forall dup x id t c, t <> E ->
  match zdesc dup x t c with
  | ZExists e => ins rank dup x id t = IExists e
  | ZAt c' i d b l r cmp =>
      plug c' (N i d b l r) = plug c t /\
      (cmp = Lt -> l = E) /\ (cmp <> Lt -> r = E) /\
      (cmp = Z.compare (rank x) (rank d)) /\ (cmp = Eq -> dup = true) /\
      exists t' g lg, ins rank dup x id t = IOk t' g lg /\
        up_or_plug (snd (zlink id x i d b l r cmp)) c' (fst (zlink id x i d b l r cmp)) [] = up_or_plug g c t' lg
  end.
Proof.
  intros dup x id. induction t as [|i d b l IHl r IHr]; intros c NE; [congruence|].
  rewrite ins_N. cbv zeta. cbn [zdesc].
  assert (LEFT : Z.compare (rank x) (rank d) = Lt ->
    match (match l with E => ZAt c i d b l r Lt | _ => zdesc dup x l (CL i d b r c) end) with
    | ZExists e => match l with
                   | E => IOk (N i d (b - 1) (N id x 0 E E) r) (is_E r) []
                   | _ => match ins rank dup x id l with
                          | IExists e => IExists e
                          | IOk l' g c => if g then retrace_ins (N i d (b - 1) l' r) c else IOk (N i d b l' r) false c
                          end
                   end = IExists e
    | ZAt c' i0 d0 b0 l0 r0 cmp =>
        plug c' (N i0 d0 b0 l0 r0) = plug c (N i d b l r) /\
        (cmp = Lt -> l0 = E) /\ (cmp <> Lt -> r0 = E) /\
        (cmp = Z.compare (rank x) (rank d0)) /\ (cmp = Eq -> dup = true) /\
        exists t' g lg, match l with
                   | E => IOk (N i d (b - 1) (N id x 0 E E) r) (is_E r) []
                   | _ => match ins rank dup x id l with
                          | IExists e => IExists e
                          | IOk l' g c => if g then retrace_ins (N i d (b - 1) l' r) c else IOk (N i d b l' r) false c
                          end
                   end = IOk t' g lg /\
          up_or_plug (snd (zlink id x i0 d0 b0 l0 r0 cmp)) c' (fst (zlink id x i0 d0 b0 l0 r0 cmp)) [] = up_or_plug g c t' lg
    end).
  { intros C. destruct l as [|li ld lb ll lr].
    - repeat split; try congruence. do 3 eexists. split; [reflexivity|]. reflexivity.
    - specialize (IHl (CL i d b r c)). 
      destruct (zdesc dup x (N li ld lb ll lr) (CL i d b r c)) as [e|c' i0 d0 b0 l0 r0 cmp].
      + rewrite IHl by discriminate. reflexivity.
      + destruct IHl as (P & A1 & A2 & A3 & A4 & t' & g & lg & EI & EU); [discriminate|].
        repeat split; try assumption. rewrite EI. rewrite EU. destruct g.
        * destruct (retrace_ins_elems (N i d (b - 1) t' r) lg) as (t2 & g2 & lg2 & ER & _).
          exists t2, g2, lg2. split; [assumption|]. unfold up_or_plug at 1. cbn [up_ins]. rewrite ER.
          destruct g2; reflexivity.
        * exists (N i d b t' r), false, lg. split; reflexivity. }
  assert (RIGHT : Z.compare (rank x) (rank d) <> Lt -> (Z.compare (rank x) (rank d) = Eq -> dup = true) ->
    match (match r with E => ZAt c i d b l r (Z.compare (rank x) (rank d)) | _ => zdesc dup x r (CR i d b l c) end) with
    | ZExists e => match r with
                   | E => IOk (N i d (b + 1) l (N id x 0 E E)) (is_E l) []
                   | _ => match ins rank dup x id r with
                          | IExists e => IExists e
                          | IOk r' g c => if g then retrace_ins (N i d (b + 1) l r') c else IOk (N i d b l r') false c
                          end
                   end = IExists e
    | ZAt c' i0 d0 b0 l0 r0 cmp =>
        plug c' (N i0 d0 b0 l0 r0) = plug c (N i d b l r) /\
        (cmp = Lt -> l0 = E) /\ (cmp <> Lt -> r0 = E) /\
        (cmp = Z.compare (rank x) (rank d0)) /\ (cmp = Eq -> dup = true) /\
        exists t' g lg, match r with
                   | E => IOk (N i d (b + 1) l (N id x 0 E E)) (is_E l) []
                   | _ => match ins rank dup x id r with
                          | IExists e => IExists e
                          | IOk r' g c => if g then retrace_ins (N i d (b + 1) l r') c else IOk (N i d b l r') false c
                          end
                   end = IOk t' g lg /\
          up_or_plug (snd (zlink id x i0 d0 b0 l0 r0 cmp)) c' (fst (zlink id x i0 d0 b0 l0 r0 cmp)) [] = up_or_plug g c t' lg
    end).
  { intros C CE. destruct r as [|ri rd rb rl rr].
    - repeat split; try congruence; auto. do 3 eexists. split; [reflexivity|].
      unfold zlink. destruct (Z.compare (rank x) (rank d)); try congruence; reflexivity.
    - specialize (IHr (CR i d b l c)).
      destruct (zdesc dup x (N ri rd rb rl rr) (CR i d b l c)) as [e|c' i0 d0 b0 l0 r0 cmp].
      + rewrite IHr by discriminate. reflexivity.
      + destruct IHr as (P & A1 & A2 & A3 & A4 & t' & g & lg & EI & EU); [discriminate|].
        repeat split; try assumption. rewrite EI. rewrite EU. destruct g.
        * destruct (retrace_ins_elems (N i d (b + 1) l t') lg) as (t2 & g2 & lg2 & ER & _).
          exists t2, g2, lg2. split; [assumption|]. unfold up_or_plug at 1. cbn [up_ins]. rewrite ER.
          destruct g2; reflexivity.
        * exists (N i d b l t'), false, lg. split; reflexivity. }
  destruct (Z.compare (rank x) (rank d)) eqn:C.
  - destruct dup; [|reflexivity]. apply RIGHT; [discriminate|reflexivity].
  - apply LEFT. reflexivity.
  - apply RIGHT; discriminate.
Qed.

End Ins.

(* ------------------------------------------------------------------ the heap side *)
Section Ins2.
Variable rank : elt -> Z.

Definition dres_of (z : zres) : dres :=
  match z with ZExists e => DExists e | ZAt _ i _ _ _ _ cmp => DParent i cmp end.

Lemma h_descend_sim : forall dup x h t c par fuel i,
  root_id t = Some i -> rep h t par -> (heightn t <= fuel)%nat ->
  h_descend rank fuel h dup x i = Some (dres_of (zdesc rank dup x t c), ins_log rank dup x t).
Proof.
  intros dup x h. induction t as [|j d b l IHl r IHr]; intros c par fuel i Ri R F; [discriminate|].
  cbn in Ri. inversion Ri. subst j. cbn [rep] in R. destruct R as (Hi & Rl & Rr).
  cbn [heightn] in F. destruct fuel as [|f]; [lia|]. cbn [h_descend zdesc ins_log].
  unfold data_of, left, right. rewrite Hi. cbn [ndata nleft nright].
  assert (GL : match l with E => True | _ => exists li, root_id l = Some li /\
            h_descend rank f h dup x li = Some (dres_of (zdesc rank dup x l (CL i d b r c)), ins_log rank dup x l) end).
  { destruct l as [|li ld lb ll lr]; [exact I|]. exists li. split; [reflexivity|].
    eapply IHl; [reflexivity|eassumption|lia]. }
  assert (GR : match r with E => True | _ => exists ri, root_id r = Some ri /\
            h_descend rank f h dup x ri = Some (dres_of (zdesc rank dup x r (CR i d b l c)), ins_log rank dup x r) end).
  { destruct r as [|ri rd rb rl rr]; [exact I|]. exists ri. split; [reflexivity|].
    eapply IHr; [reflexivity|eassumption|lia]. }
  destruct (Z.compare (rank x) (rank d)) eqn:C.
  - destruct dup; [|reflexivity].
    destruct r as [|ri rd rb rl rr]; [reflexivity|]. destruct GR as (ri' & E1 & E2). cbn [root_id] in *.
    inversion E1. subst ri'. rewrite E2. reflexivity.
  - destruct l as [|li ld lb ll lr]; [reflexivity|]. destruct GL as (li' & E1 & E2). cbn [root_id] in *.
    inversion E1. subst li'. rewrite E2. reflexivity.
  - destruct r as [|ri rd rb rl rr]; [reflexivity|]. destruct GR as (ri' & E1 & E2). cbn [root_id] in *.
    inversion E1. subst ri'. rewrite E2. reflexivity.
Qed.


Lemma root_id_plug' : forall c t, root_id (plug c t) = ctx_root c (root_id t).
Proof. exact root_id_plug. Qed.

Lemma h_ins_retrace_sim : forall c t lg h rt fuel i,
  root_id t = Some i ->
  NoDup (ids t ++ cids c) -> rep h t (ctx_id c) -> repc h c (Some i) ->
  avl t -> avlc c (height t - 1) -> bal_of t <> 0 ->
  rt = ctx_root c (Some i) -> (clen c < fuel)%nat ->
  exists h', h_ins_retrace fuel h rt i lg = Some (h', root_id (fst (up_ins c t lg)), snd (up_ins c t lg)) /\
             rep h' (fst (up_ins c t lg)) None /\
             (forall j, ~ In j (ids t ++ cids c) -> hget h' j = hget h j).
Proof.
  induction c as [|g d b r c IH|g d b l c IH]; intros t lg h rt fuel i Ri ND R RC A AC NZ Hrt F.
  - destruct fuel as [|f]; [cbn in F; lia|]. cbn [h_ins_retrace up_ins fst snd].
    destruct t as [|i' d' b' l' r']; [discriminate|]. cbn in Ri. inversion Ri. subst i'.
    pose proof R as R0. cbn [rep ctx_id] in R. destruct R as (Hi & _). unfold parent. rewrite Hi. cbn [npar].
    exists h. cbn in Hrt. subst rt. split; [reflexivity|]. split; [exact R0|auto].
  - destruct fuel as [|f]; [cbn in F; lia|]. cbn [clen] in F.
    assert (Hi : parent h i = Some g).
    { destruct t as [|i' d' b' l' r']; [discriminate|]. cbn in Ri. inversion Ri. subst i'.
      cbn [rep ctx_id] in R. destruct R as (Hi & _). unfold parent. rewrite Hi. reflexivity. }
    cbn [repc] in RC. destruct RC as (Hg & Rr & RC).
    cbn [avlc] in AC. destruct AC as (Ar & Hb & Rb & AC).
    cbn [h_ins_retrace]. rewrite Hi.
    assert (PL : ptr_is (left h g) i = true) by (unfold left; rewrite Hg; cbn [nleft]; apply ptr_is_refl).
    rewrite !PL. rewrite !(bal_get _ _ _ Hg). cbn [nbal].
    set (h1 := set_bal h g (b + -1)).
    cbn [cids] in ND. cbn [cids].
    assert (Ig : In i (ids t)) by (apply root_id_in; assumption).
    assert (Hg1 : hget h1 g = Some (mkNode d (b - 1) (ctx_id c) (Some i) (root_id r))).
    { subst h1. rewrite hget_set_bal. eqb_simp. rewrite Hg. cbn. replace (b + -1) with (b - 1) by lia. reflexivity. }
    assert (F1 : forall j, j <> g -> hget h1 j = hget h j) by (intros; subst h1; apply hget_set_bal_other; assumption).
    rewrite !(bal_get _ _ _ Hg1). cbn [nbal].
    set (t1 := N g d (b - 1) t r).
    assert (ND1 : NoDup (ids t1 ++ cids c)) by (subst t1; rewrite ids_N; nd_perm ND).
    assert (R1 : rep h1 t1 (ctx_id c)).
    { subst t1. cbn [rep]. rewrite Ri. repeat split; [assumption| |].
      - eapply rep_ext; [|exact R]. intros j Hj. apply F1. nd_neq ND.
      - eapply rep_ext; [|exact Rr]. intros j Hj. apply F1. nd_neq ND. }
    assert (RC1 : repc h1 c (Some g)).
    { eapply repc_ext; [|exact RC]. intros j Hj. apply F1. nd_neq ND. }
    assert (Frame1 : forall j, ~ In j (ids t ++ g :: ids r ++ cids c) -> ~ In j (ids t1 ++ cids c)).
    { intros j Hj X. apply Hj. subst t1. rewrite ids_N in X. revert X. in_tauto. }
    cbn [up_ins]. unfold retrace_ins. cbn [bal_of].
    destruct ((b - 1 =? -2) || (b - 1 =? 2)) eqn:B2.
    + assert (Hb1 : b - 1 = height r - height t) by lia.
      destruct (h_rebalance_sim h1 c g d (b - 1) t r rt ND1 R1 RC1 A Ar Hb1) as (h' & repl & Erepl & Ereb & OK).
      { rewrite Hrt. reflexivity. }
      fold t1 in Erepl, Ereb, OK. rewrite Ereb. fold t1.
      destruct (rebalance t1) as [[t' hc] lg2]. cbn [fst snd] in *.
      destruct OK as (R' & RC' & Eids & Fr).
      exists h'. rewrite root_id_plug. rewrite Erepl. split; [reflexivity|]. split.
      * apply rep_plug. split; assumption.
      * intros j Hj. rewrite Fr by (apply Frame1; assumption). apply F1. intros ->. apply Hj. in_tauto.
    + destruct (b - 1 =? 0) eqn:B0.
      * exists h1. cbn [fst snd]. rewrite root_id_plug. cbn [root_id]. split; [rewrite Hrt; reflexivity|]. split.
        -- apply rep_plug. split; assumption.
        -- intros j Hj. apply F1. intros ->. apply Hj. in_tauto.
      * assert (b - 1 = -1) by lia.
        destruct (IH t1 lg h1 rt f g eq_refl ND1 R1 RC1) as (h' & E1 & R' & Fr).
        -- subst t1. cbn [avl]. repeat split; try assumption; lia.
        -- subst t1. cbn [height]. replace (1 + Z.max (height t) (height r) - 1) with (1 + Z.max (height t - 1) (height r)) by lia. assumption.
        -- subst t1. cbn [bal_of]. lia.
        -- rewrite Hrt. reflexivity.
        -- lia.
        -- exists h'. split; [exact E1|]. split; [exact R'|].
           intros j Hj. rewrite Fr by (apply Frame1; assumption). apply F1. intros ->. apply Hj. in_tauto.
  - destruct fuel as [|f]; [cbn in F; lia|]. cbn [clen] in F.
    assert (Hi : parent h i = Some g).
    { destruct t as [|i' d' b' l' r']; [discriminate|]. cbn in Ri. inversion Ri. subst i'.
      cbn [rep ctx_id] in R. destruct R as (Hi & _). unfold parent. rewrite Hi. reflexivity. }
    cbn [repc] in RC. destruct RC as (Hg & Rl & RC).
    cbn [avlc] in AC. destruct AC as (Al & Hb & Rb & AC).
    cbn [cids] in ND. cbn [cids].
    assert (Ig : In i (ids t)) by (apply root_id_in; assumption).
    cbn [h_ins_retrace]. rewrite Hi.
    assert (PL : ptr_is (left h g) i = false).
    { unfold left. rewrite Hg. cbn [nleft]. apply ptr_is_false. intros X. apply root_id_in in X. nd_absurd ND i. }
    rewrite !PL. rewrite !(bal_get _ _ _ Hg). cbn [nbal].
    set (h1 := set_bal h g (b + 1)).
    assert (Hg1 : hget h1 g = Some (mkNode d (b + 1) (ctx_id c) (root_id l) (Some i))).
    { subst h1. rewrite hget_set_bal. eqb_simp. rewrite Hg. reflexivity. }
    assert (F1 : forall j, j <> g -> hget h1 j = hget h j) by (intros; subst h1; apply hget_set_bal_other; assumption).
    rewrite !(bal_get _ _ _ Hg1). cbn [nbal].
    set (t1 := N g d (b + 1) l t).
    assert (ND1 : NoDup (ids t1 ++ cids c)) by (subst t1; rewrite ids_N; nd_perm ND).
    assert (R1 : rep h1 t1 (ctx_id c)).
    { subst t1. cbn [rep]. rewrite Ri. repeat split; [assumption| |].
      - eapply rep_ext; [|exact Rl]. intros j Hj. apply F1. nd_neq ND.
      - eapply rep_ext; [|exact R]. intros j Hj. apply F1. nd_neq ND. }
    assert (RC1 : repc h1 c (Some g)).
    { eapply repc_ext; [|exact RC]. intros j Hj. apply F1. nd_neq ND. }
    assert (Frame1 : forall j, ~ In j (ids t ++ g :: ids l ++ cids c) -> ~ In j (ids t1 ++ cids c)).
    { intros j Hj X. apply Hj. subst t1. rewrite ids_N in X. revert X. in_tauto. }
    cbn [up_ins]. unfold retrace_ins. cbn [bal_of].
    destruct ((b + 1 =? -2) || (b + 1 =? 2)) eqn:B2.
    + assert (Hb1 : b + 1 = height t - height l) by lia.
      destruct (h_rebalance_sim h1 c g d (b + 1) l t rt ND1 R1 RC1 Al A Hb1) as (h' & repl & Erepl & Ereb & OK).
      { rewrite Hrt. reflexivity. }
      fold t1 in Erepl, Ereb, OK. rewrite Ereb. fold t1.
      destruct (rebalance t1) as [[t' hc] lg2]. cbn [fst snd] in *.
      destruct OK as (R' & RC' & Eids & Fr).
      exists h'. rewrite root_id_plug. rewrite Erepl. split; [reflexivity|]. split.
      * apply rep_plug. split; assumption.
      * intros j Hj. rewrite Fr by (apply Frame1; assumption). apply F1. intros ->. apply Hj. in_tauto.
    + destruct (b + 1 =? 0) eqn:B0.
      * exists h1. cbn [fst snd]. rewrite root_id_plug. cbn [root_id]. split; [rewrite Hrt; reflexivity|]. split.
        -- apply rep_plug. split; assumption.
        -- intros j Hj. apply F1. intros ->. apply Hj. in_tauto.
      * assert (b + 1 = 1) by lia.
        destruct (IH t1 lg h1 rt f g eq_refl ND1 R1 RC1) as (h' & E1 & R' & Fr).
        -- subst t1. cbn [avl]. repeat split; try assumption; lia.
        -- subst t1. cbn [height]. replace (1 + Z.max (height l) (height t) - 1) with (1 + Z.max (height l) (height t - 1)) by lia. assumption.
        -- subst t1. cbn [bal_of]. lia.
        -- rewrite Hrt. reflexivity.
        -- lia.
        -- exists h'. split; [exact E1|]. split; [exact R'|].
           intros j Hj. rewrite Fr by (apply Frame1; assumption). apply F1. intros ->. apply Hj. in_tauto.
Qed.


Lemma ids_elems_eq : forall t t', elems t' = elems t -> ids t' = ids t.
Proof. intros t t' H. unfold ids. rewrite H. reflexivity. Qed.

Lemma up_ins_perm : forall c t lg, Permutation (ids (fst (up_ins c t lg))) (ids t ++ cids c).
Proof.
  induction c as [|i d b r c IH|i d b l c IH]; intros t lg; cbn [up_ins cids].
  - cbn [fst]. rewrite app_nil_r. apply Permutation_refl.
  - destruct (retrace_ins_elems (N i d (b - 1) t r) lg) as (t' & g & lg' & E1 & E2). rewrite E1.
    apply ids_elems_eq in E2. rewrite ids_N in E2.
    assert (X : Permutation (ids t' ++ cids c) (ids t ++ i :: ids r ++ cids c)).
    { rewrite E2. rewrite <- app_assoc. reflexivity. }
    destruct g.
    + eapply Permutation_trans; [apply IH|exact X].
    + cbn [fst]. eapply Permutation_trans; [apply ids_plug_perm|exact X].
  - destruct (retrace_ins_elems (N i d (b + 1) l t) lg) as (t' & g & lg' & E1 & E2). rewrite E1.
    apply ids_elems_eq in E2. rewrite ids_N in E2.
    assert (X : Permutation (ids t' ++ cids c) (ids t ++ i :: ids l ++ cids c)).
    { rewrite E2. rewrite <- app_assoc.
      change (ids l ++ (i :: ids t) ++ cids c) with (ids l ++ ((i :: ids t) ++ cids c)).
      eapply Permutation_trans; [apply Permutation_app_swap_app|]. cbn [app].
      apply (Permutation_middle (ids t) (ids l ++ cids c) i). }
    destruct g.
    + eapply Permutation_trans; [apply IH|exact X].
    + cbn [fst]. eapply Permutation_trans; [apply ids_plug_perm|exact X].
Qed.

Lemma h_link_sim : forall h c p d b l r id x cmp,
  rep h (N p d b l r) (ctx_id c) -> repc h c (Some p) ->
  NoDup (ids (N p d b l r) ++ cids c) -> ~ In id (ids (N p d b l r) ++ cids c) ->
  (cmp = Lt -> l = E) -> (cmp <> Lt -> r = E) ->
  let h0 := hset h id (mkNode x 0 (Some p) None None) in
  let tl := fst (zlink id x p d b l r cmp) in
  snd (h_link h0 p id cmp) = snd (zlink id x p d b l r cmp) /\
  rep (fst (h_link h0 p id cmp)) tl (ctx_id c) /\ repc (fst (h_link h0 p id cmp)) c (Some p) /\
  (forall j, j <> id -> j <> p -> hget (fst (h_link h0 p id cmp)) j = hget h j).
Proof.
  intros h c p d b l r id x cmp R RC ND Nid HL HR h0 tl.
  cbn [rep] in R. destruct R as (Hp & Rl & Rr). rewrite ids_N in ND, Nid.
  assert (Npid : p <> id) by (intros ->; apply Nid; in_tauto).
  assert (G0 : forall j, hget h0 j = if j =? id then Some (mkNode x 0 (Some p) None None) else hget h j).
  { intros j. subst h0. apply hget_hset. }
  assert (LT : cmp = Lt \/ cmp <> Lt) by (destruct cmp; [right|left|right]; congruence).
  destruct LT as [->|NLt].
  - specialize (HL eq_refl). subst l. subst tl. cbn [zlink fst snd h_link].
    set (h1 := set_left h0 p (Some id)).
    assert (Hp1 : hget h1 p = Some (mkNode d b (ctx_id c) (Some id) (root_id r))).
    { subst h1. rewrite hget_set_left. eqb_simp. rewrite G0. eqb_simp. rewrite Hp. reflexivity. }
    rewrite (bal_get _ _ _ Hp1). cbn [nbal].
    set (h2 := set_bal h1 p (b - 1)).
    assert (Hp2 : hget h2 p = Some (mkNode d (b - 1) (ctx_id c) (Some id) (root_id r))).
    { subst h2. rewrite hget_set_bal. eqb_simp. rewrite Hp1. reflexivity. }
    assert (F2 : forall j, j <> p -> hget h2 j = hget h0 j).
    { intros j A. subst h2 h1. rewrite hget_set_bal. eqb_simp. rewrite hget_set_left. eqb_simp. reflexivity. }
    split; [|split; [|split]].
    + unfold right. rewrite Hp2. cbn [nright]. destruct r; reflexivity.
    + cbn [rep root_id]. repeat split; [assumption| |].
      * rewrite F2 by congruence. rewrite G0. eqb_simp. reflexivity.
      * eapply rep_ext; [|exact Rr]. intros j Hj. rewrite F2 by nd_neq ND. rewrite G0.
        assert (j <> id) by (intros ->; apply Nid; in_tauto). eqb_simp. reflexivity.
    + eapply repc_ext; [|exact RC]. intros j Hj. rewrite F2 by nd_neq ND. rewrite G0.
      assert (j <> id) by (intros ->; apply Nid; in_tauto). eqb_simp. reflexivity.
    + intros j A B. rewrite F2 by assumption. rewrite G0. eqb_simp. reflexivity.
  - specialize (HR NLt). subst r. subst tl.
    assert (EL : h_link h0 p id cmp =
       (set_bal (set_right h0 p (Some id)) p (bal (set_right h0 p (Some id)) p + 1),
        match left (set_bal (set_right h0 p (Some id)) p (bal (set_right h0 p (Some id)) p + 1)) p with None => true | Some _ => false end)).
    { destruct cmp; [reflexivity|congruence|reflexivity]. }
    assert (EZ : zlink id x p d b l E cmp = (N p d (b + 1) l (N id x 0 E E), is_E l)).
    { destruct cmp; [reflexivity|congruence|reflexivity]. }
    rewrite EL, EZ. cbn [fst snd].
    set (h1 := set_right h0 p (Some id)).
    assert (Hp1 : hget h1 p = Some (mkNode d b (ctx_id c) (root_id l) (Some id))).
    { subst h1. rewrite hget_set_right. eqb_simp. rewrite G0. eqb_simp. rewrite Hp. reflexivity. }
    rewrite (bal_get _ _ _ Hp1). cbn [nbal].
    set (h2 := set_bal h1 p (b + 1)).
    assert (Hp2 : hget h2 p = Some (mkNode d (b + 1) (ctx_id c) (root_id l) (Some id))).
    { subst h2. rewrite hget_set_bal. eqb_simp. rewrite Hp1. reflexivity. }
    assert (F2 : forall j, j <> p -> hget h2 j = hget h0 j).
    { intros j A. subst h2 h1. rewrite hget_set_bal. eqb_simp. rewrite hget_set_right. eqb_simp. reflexivity. }
    split; [|split; [|split]].
    + unfold left. rewrite Hp2. cbn [nleft]. destruct l; reflexivity.
    + cbn [rep root_id]. repeat split; [assumption| |].
      * eapply rep_ext; [|exact Rl]. intros j Hj. rewrite F2 by nd_neq ND. rewrite G0.
        assert (j <> id) by (intros ->; apply Nid; in_tauto). eqb_simp. reflexivity.
      * rewrite F2 by congruence. rewrite G0. eqb_simp. reflexivity.
    + eapply repc_ext; [|exact RC]. intros j Hj. rewrite F2 by nd_neq ND. rewrite G0.
      assert (j <> id) by (intros ->; apply Nid; in_tauto). eqb_simp. reflexivity.
    + intros j A B. rewrite F2 by assumption. rewrite G0. eqb_simp. reflexivity.
Qed.


Lemma h_insert_sim : forall dup x o st fs s it fs' o' rc,
  Rep st fs -> inv rank dup fs ->
  insert rank dup x o fs = (s, it, fs', o', rc) ->
  exists st', h_insert rank dup x o st = Some (s, it, st', o', rc, ins_log rank dup x (root fs)) /\ Rep st' fs'.
Proof.
  intros dup x o st fs s it fs' o' rc (R & Hroot & Hsize & Hnext & Dom) (_ & A & Sz & ND & Lt & _ & _) EI.
  unfold insert in EI. unfold h_insert. rewrite Hroot, Hnext, Hsize.
  remember (root fs) as T eqn:HT. set (id := nextid fs) in *.
  assert (Nid : ~ In id (ids T)) by (intros X; apply Lt in X; lia).
  assert (Hid : hget (hp st) id = None).
  { destruct (hget (hp st) id) eqn:G; [|reflexivity]. exfalso. apply Nid. apply Dom. rewrite G. discriminate. }
  destruct T as [|i0 d0 b0 l0 r0].
  - (* empty tree *)
    cbn [root_id ins ins_log] in *. destruct (alloc o) as [ok o1]. destruct ok; cbn [negb].
    + inversion EI. subst. eexists. split; [reflexivity|]. unfold Rep. cbn [hp hroot hsize hnextid root size nextid].
      repeat split.
      * rewrite hget_hset. eqb_simp. reflexivity.
      * intros j Hj. rewrite hget_hset in Hj. destruct (j =? id) eqn:C; [cbn; left; lia|]. exfalso. apply (Dom j Hj).
    + inversion EI. subst. eexists. split; [reflexivity|]. unfold Rep. cbn [hp hroot hsize hnextid root size nextid].
      repeat split; try assumption; try reflexivity; try apply R.
  - remember (N i0 d0 b0 l0 r0) as T eqn:ET. assert (NE : T <> E) by (rewrite ET; discriminate).
    assert (Ri0 : root_id T = Some i0) by (rewrite ET; reflexivity). rewrite Ri0.
    assert (FU : (heightn T <= fuel_of st)%nat).
    { unfold fuel_of. rewrite Hsize, Sz. pose proof (heightn_le_count T). lia. }
    rewrite (h_descend_sim dup x (hp st) T Top None (fuel_of st) i0 Ri0 R FU).
    pose proof (ins_zip rank dup x id T Top NE) as ZZ.
    destruct (zdesc rank dup x T Top) as [e|c p d b l r cmp]; cbn [dres_of].
    + rewrite ZZ in EI. inversion EI. subst. eexists. split; [reflexivity|].
      unfold Rep. cbn [hp hroot hsize hnextid root size nextid]. repeat split; try assumption; try reflexivity; try apply R.
    + destruct ZZ as (P & HL & HR & _ & _ & t' & g & lg & EI2 & EU). cbn [plug] in P.
      rewrite EI2 in EI. destruct (alloc o) as [ok o1]. destruct ok; cbn [negb].
      2:{ inversion EI. subst. eexists. split; [reflexivity|].
          unfold Rep. cbn [hp hroot hsize hnextid root size nextid]. repeat split; try assumption; try reflexivity; try apply R. }
      inversion EI. subst s it fs' o' rc. clear EI.
      assert (EU' : up_or_plug g Top t' lg = (t', lg)) by (destruct g; reflexivity). rewrite EU' in EU. clear EU'.
      rewrite <- P in R, ND, Nid, A. apply rep_plug in R. destruct R as (Rp & RCp).
      apply nodup_plug in ND.
      assert (Nid2 : ~ In id (ids (N p d b l r) ++ cids c)).
      { intros X. apply Nid. apply in_ids_plug. apply in_app_or in X. assumption. }
      destruct (h_link_sim (hp st) c p d b l r id x cmp Rp RCp ND Nid2 HL HR) as (EInc & Rl & RCl & Fl).
      set (h0 := hset (hp st) id (mkNode x 0 (Some p) None None)) in *.
      destruct (h_link h0 p id cmp) as [h1 inc]. cbn [fst snd] in *.
      set (tl := fst (zlink id x p d b l r cmp)) in *.
      assert (Itl : forall j, In j (ids tl ++ cids c) <-> j = id \/ In j (ids (N p d b l r) ++ cids c)).
      { intros j. subst tl. unfold zlink.
        destruct cmp; cbn [fst]; [rewrite (HR ltac:(discriminate))|rewrite (HL eq_refl)|rewrite (HR ltac:(discriminate))];
          rewrite !ids_N; cbn [ids elems map app];
          repeat first [rewrite in_app_iff | progress cbn [In]]; intuition congruence. }
      assert (NDtl : NoDup (ids tl ++ cids c)).
      { apply (Permutation_NoDup (l := id :: ids (N p d b l r) ++ cids c)); [|constructor; assumption].
        apply NoDup_Permutation_bis.
        - constructor; assumption.
        - subst tl. unfold zlink.
          destruct cmp; cbn [fst]; [rewrite (HR ltac:(discriminate))|rewrite (HL eq_refl)|rewrite (HR ltac:(discriminate))];
            rewrite !ids_N; cbn [ids elems map app length];
            repeat (rewrite ?app_length; cbn [length]); lia.
        - intros j Hj. apply Itl. cbn [In] in Hj. destruct Hj; [left; congruence|right; assumption]. }
      assert (DomNew : forall h', (forall j, ~ In j (ids tl ++ cids c) -> hget h' j = hget h1 j) ->
                forall T', (forall j, In j (ids T') <-> In j (ids tl ++ cids c)) ->
                forall j, hget h' j <> None -> In j (ids T')).
      { intros h' Fr T' IT j Hj. apply IT. destruct (in_dec Z.eq_dec j (ids tl ++ cids c)) as [Y|N]; [assumption|].
        exfalso. rewrite (Fr j N) in Hj. rewrite Fl in Hj.
        - apply N. apply Itl. right. apply in_app_iff. apply in_ids_plug. rewrite P. apply Dom. assumption.
        - intros ->. apply N. apply Itl. left. reflexivity.
        - intros ->. apply N. apply Itl. right. rewrite ids_N. in_tauto. }
      rewrite EInc. destruct (snd (zlink id x p d b l r cmp)) eqn:EG; unfold up_or_plug in EU.
      * (* the parent's height increased: retrace *)
        assert (Rtl : root_id tl = Some p) by (subst tl; unfold zlink; destruct cmp; reflexivity).
        apply avl_plug in A. destruct A as (Ap & ACp).
        assert (AVL : avl tl /\ avlc c (height tl - 1) /\ bal_of tl <> 0).
        { subst tl. unfold zlink in *. cbn [avl] in Ap. destruct Ap as (Al & Ar & Hb & Rb).
          destruct cmp; cbn [fst snd] in *.
          - apply is_E_true in EG. subst l. rewrite HR in * by discriminate. cbn [height avl bal_of] in *.
            replace (1 + Z.max 0 (1 + Z.max 0 0) - 1) with (1 + Z.max 0 0) by lia. repeat split; try assumption; lia.
          - apply is_E_true in EG. subst r. rewrite HL in * by reflexivity. cbn [height avl bal_of] in *.
            replace (1 + Z.max (1 + Z.max 0 0) 0 - 1) with (1 + Z.max 0 0) by lia. repeat split; try assumption; lia.
          - apply is_E_true in EG. subst l. rewrite HR in * by discriminate. cbn [height avl bal_of] in *.
            replace (1 + Z.max 0 (1 + Z.max 0 0) - 1) with (1 + Z.max 0 0) by lia. repeat split; try assumption; lia. }
        destruct AVL as (Atl & ACtl & NZtl).
        destruct (h_ins_retrace_sim c tl [] h1 (Some i0) (fuel_of st) p Rtl NDtl Rl RCl Atl ACtl NZtl) as (h' & E1 & R' & Fr).
        { rewrite <- Ri0. rewrite <- P. rewrite root_id_plug. reflexivity. }
        { pose proof (height_plug_bound c (N p d b l r)) as HB. rewrite P in HB. cbn [heightn] in HB. lia. }
        pose proof (up_ins_perm c tl []) as PM.
        rewrite EU in E1, R', PM. cbn [fst snd] in E1, R', PM. rewrite E1. eexists. split; [reflexivity|].
        unfold Rep. cbn [hp hroot hsize hnextid root size nextid].
        split; [exact R'|]. split; [reflexivity|]. split; [lia|]. split; [lia|].
        apply (DomNew h' Fr). intros j. split; intros X.
        -- eapply Permutation_in; [exact PM|exact X].
        -- eapply Permutation_in; [apply Permutation_sym; exact PM|exact X].
      * assert (Et' : t' = plug c tl) by (inversion EU; reflexivity).
        assert (Elg : lg = []) by (inversion EU; reflexivity). rewrite Elg.
        eexists. split; [reflexivity|].
        unfold Rep. cbn [hp hroot hsize hnextid root size nextid].
        repeat split; try assumption; try lia.
        -- rewrite Et'. apply rep_plug. split; [assumption|].
           replace (root_id tl) with (Some p) by (subst tl; unfold zlink; destruct cmp; reflexivity). assumption.
        -- rewrite Et'. rewrite root_id_plug.
           replace (root_id tl) with (Some p) by (subst tl; unfold zlink; destruct cmp; reflexivity).
           rewrite <- Ri0, <- P, root_id_plug. reflexivity.
        -- apply (DomNew h1 (fun j _ => eq_refl)). intros j. rewrite Et'. rewrite in_ids_plug. rewrite in_app_iff. tauto.
Qed.

End Ins2.
