(* C06 — heap model of tree.c, lemmas part 3: zix_tree_insert on a heap that represents a tree
   (descent, linking of the new node, upward retrace loop over parent pointers) simulates the
   functional insertion. *)
From Coq Require Import ZArith List Bool Lia ZifyBool Permutation.
From Zix Require Import AvlSpec AvlModel AvlProofs AvlProofsIter AvlProofsState AvlHeapModel AvlHeapProofsBase AvlHeapProofsRot.
Import ListNotations.
Local Open Scope Z_scope.

Section Ins.
Variable rank : elt -> Z.

(* ------------------------------------------------------------------ the functional insertion in zipper form *)
Inductive zres :=
| ZExists (e : Z)
| ZAt (c : ctx) (i : Z) (d : elt) (b : Z) (l r : tree) (cmp : comparison).

(* descent to the node that becomes the parent of the new node, remembering the path *)
Fixpoint zdesc (dup : bool) (x : elt) (t : tree) (c : ctx) : zres :=
  match t with
  | E => ZExists (-1)
  | N i d b l r =>
      match Z.compare (rank x) (rank d) with
      | Lt => match l with E => ZAt c i d b l r Lt | _ => zdesc dup x l (CL i d b r c) end
      | Gt => match r with E => ZAt c i d b l r Gt | _ => zdesc dup x r (CR i d b l c) end
      | Eq => if dup then match r with E => ZAt c i d b l r Eq | _ => zdesc dup x r (CR i d b l c) end
              else ZExists i
      end
  end.

(* linking the new node under its parent *)
Definition zlink (id : Z) (x : elt) (i : Z) (d : elt) (b : Z) (l r : tree) (cmp : comparison) : tree * bool :=
  match cmp with
  | Lt => (N i d (b - 1) (N id x 0 E E) r, is_E r)
  | _ => (N i d (b + 1) l (N id x 0 E E), is_E l)
  end.

(* the retrace loop, from a subtree that has grown *)
Fixpoint up_ins (c : ctx) (t : tree) (lg : list Z) : tree * list Z :=
  match c with
  | Top => (t, lg)
  | CL i d b r c' =>
      match retrace_ins (N i d (b - 1) t r) lg with
      | IOk t' true lg' => up_ins c' t' lg'
      | IOk t' false lg' => (plug c' t', lg')
      | IExists _ => (plug c t, lg)
      end
  | CR i d b l c' =>
      match retrace_ins (N i d (b + 1) l t) lg with
      | IOk t' true lg' => up_ins c' t' lg'
      | IOk t' false lg' => (plug c' t', lg')
      | IExists _ => (plug c t, lg)
      end
  end.

Definition up_or_plug (g : bool) (c : ctx) (t : tree) (lg : list Z) : tree * list Z :=
  if g then up_ins c t lg else (plug c t, lg).

Lemma ins_zip : forall dup x id t c, t <> E ->
  match zdesc dup x t c with
  | ZExists e => ins rank dup x id t = IExists e
  | ZAt c' i d b l r cmp =>
      plug c' (N i d b l r) = plug c t /\
      (cmp = Lt -> l = E) /\ (cmp <> Lt -> r = E) /\
      (cmp = Z.compare (rank x) (rank d)) /\ (cmp = Eq -> dup = true) /\
      exists t' g lg, ins rank dup x id t = IOk t' g lg /\
        up_or_plug (snd (zlink id x i d b l r cmp)) c' (fst (zlink id x i d b l r cmp)) [] = up_or_plug g c t' lg
  end.
Proof.
  intros dup x id. induction t as [|i d b l IHl r IHr]; intros c NE; [congruence|].
  rewrite ins_N. cbv zeta. cbn [zdesc].
  assert (LEFT : Z.compare (rank x) (rank d) = Lt ->
    match (match l with E => ZAt c i d b l r Lt | _ => zdesc dup x l (CL i d b r c) end) with
    | ZExists e => match l with
                   | E => IOk (N i d (b - 1) (N id x 0 E E) r) (is_E r) []
                   | _ => match ins rank dup x id l with
                          | IExists e => IExists e
                          | IOk l' g c => if g then retrace_ins (N i d (b - 1) l' r) c else IOk (N i d b l' r) false c
                          end
                   end = IExists e
    | ZAt c' i0 d0 b0 l0 r0 cmp =>
        plug c' (N i0 d0 b0 l0 r0) = plug c (N i d b l r) /\
        (cmp = Lt -> l0 = E) /\ (cmp <> Lt -> r0 = E) /\
        (cmp = Z.compare (rank x) (rank d0)) /\ (cmp = Eq -> dup = true) /\
        exists t' g lg, match l with
                   | E => IOk (N i d (b - 1) (N id x 0 E E) r) (is_E r) []
                   | _ => match ins rank dup x id l with
                          | IExists e => IExists e
                          | IOk l' g c => if g then retrace_ins (N i d (b - 1) l' r) c else IOk (N i d b l' r) false c
                          end
                   end = IOk t' g lg /\
          up_or_plug (snd (zlink id x i0 d0 b0 l0 r0 cmp)) c' (fst (zlink id x i0 d0 b0 l0 r0 cmp)) [] = up_or_plug g c t' lg
    end).
  { intros C. destruct l as [|li ld lb ll lr].
    - repeat split; try congruence. do 3 eexists. split; [reflexivity|]. reflexivity.
    - specialize (IHl (CL i d b r c)). 
      destruct (zdesc dup x (N li ld lb ll lr) (CL i d b r c)) as [e|c' i0 d0 b0 l0 r0 cmp].
      + rewrite IHl by discriminate. reflexivity.
      + destruct IHl as (P & A1 & A2 & A3 & A4 & t' & g & lg & EI & EU); [discriminate|].
        repeat split; try assumption. rewrite EI. rewrite EU. destruct g.
        * destruct (retrace_ins_elems (N i d (b - 1) t' r) lg) as (t2 & g2 & lg2 & ER & _).
          exists t2, g2, lg2. split; [assumption|]. unfold up_or_plug at 1. cbn [up_ins]. rewrite ER.
          destruct g2; reflexivity.
        * exists (N i d b t' r), false, lg. split; reflexivity. }
  assert (RIGHT : Z.compare (rank x) (rank d) <> Lt -> (Z.compare (rank x) (rank d) = Eq -> dup = true) ->
    match (match r with E => ZAt c i d b l r (Z.compare (rank x) (rank d)) | _ => zdesc dup x r (CR i d b l c) end) with
    | ZExists e => match r with
                   | E => IOk (N i d (b + 1) l (N id x 0 E E)) (is_E l) []
                   | _ => match ins rank dup x id r with
                          | IExists e => IExists e
                          | IOk r' g c => if g then retrace_ins (N i d (b + 1) l r') c else IOk (N i d b l r') false c
                          end
                   end = IExists e
    | ZAt c' i0 d0 b0 l0 r0 cmp =>
        plug c' (N i0 d0 b0 l0 r0) = plug c (N i d b l r) /\
        (cmp = Lt -> l0 = E) /\ (cmp <> Lt -> r0 = E) /\
        (cmp = Z.compare (rank x) (rank d0)) /\ (cmp = Eq -> dup = true) /\
        exists t' g lg, match r with
                   | E => IOk (N i d (b + 1) l (N id x 0 E E)) (is_E l) []
                   | _ => match ins rank dup x id r with
                          | IExists e => IExists e
                          | IOk r' g c => if g then retrace_ins (N i d (b + 1) l r') c else IOk (N i d b l r') false c
                          end
                   end = IOk t' g lg /\
          up_or_plug (snd (zlink id x i0 d0 b0 l0 r0 cmp)) c' (fst (zlink id x i0 d0 b0 l0 r0 cmp)) [] = up_or_plug g c t' lg
    end).
  { intros C CE. destruct r as [|ri rd rb rl rr].
    - repeat split; try congruence; auto. do 3 eexists. split; [reflexivity|].
      unfold zlink. destruct (Z.compare (rank x) (rank d)); try congruence; reflexivity.
    - specialize (IHr (CR i d b l c)).
      destruct (zdesc dup x (N ri rd rb rl rr) (CR i d b l c)) as [e|c' i0 d0 b0 l0 r0 cmp].
      + rewrite IHr by discriminate. reflexivity.
      + destruct IHr as (P & A1 & A2 & A3 & A4 & t' & g & lg & EI & EU); [discriminate|].
        repeat split; try assumption. rewrite EI. rewrite EU. destruct g.
        * destruct (retrace_ins_elems (N i d (b + 1) l t') lg) as (t2 & g2 & lg2 & ER & _).
          exists t2, g2, lg2. split; [assumption|]. unfold up_or_plug at 1. cbn [up_ins]. rewrite ER.
          destruct g2; reflexivity.
        * exists (N i d b l t'), false, lg. split; reflexivity. }
  destruct (Z.compare (rank x) (rank d)) eqn:C.
  - destruct dup; [|reflexivity]. apply RIGHT; [discriminate|reflexivity].
  - apply LEFT. reflexivity.
  - apply RIGHT; discriminate.
Qed.

End Ins.
