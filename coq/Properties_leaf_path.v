(* is_dir_sep, is_any_sep (POSIX branch), zix_is_empty_range and ZIX_DIR_SEP of /repo/src/path.c, REGENERATED from
   the C source on every run (gen/Leaf.v, gen/Constants.v, module Path, by tools/translate_leaf.py), are what the
   hand-written models of C10 (PathDecModel), C11 (PathNormModel) and C12 (PathJoinModel) use.  The C parameter is a
   (signed) `char`, the models work on byte values 0..255; c_char b is the value the C function sees for the byte b.
   range.begin / range.end of the ZixIndexRange parameter (passed by value) are the parameters range_begin, range_end. *)
From Coq Require Import ZArith Bool Lia ZifyBool.
From Zix Require PathDecModel PathNormSpec PathNormModel PathJoinSpec PathJoinModel.
From Zix.gen Require Import Leaf Constants.
Local Open Scope Z_scope.

Definition c_char (b : Z) : Z := if b <? 128 then b else b - 256.

Theorem leaf_is_dir_sep_is_model :
  forall b, 0 <= b < 256 -> Path.leaf_is_dir_sep_dom (c_char b) /\
    Path.leaf_is_dir_sep (c_char b) = PathDecModel.is_dir_sep b /\
    Path.leaf_is_dir_sep (c_char b) = PathNormModel.is_sep b /\
    Path.leaf_is_dir_sep (c_char b) = PathJoinSpec.is_sep b.
Proof.
  intros b Hb. unfold Path.leaf_is_dir_sep_dom, Path.leaf_is_dir_sep, PathDecModel.is_dir_sep, PathNormModel.is_sep,
    PathNormSpec.SEP, PathJoinSpec.is_sep, PathJoinSpec.sepc, c_char.
  destruct (b <? 128) eqn:E; lia.
Qed.
Print Assumptions leaf_is_dir_sep_is_model.

(* on POSIX is_any_sep is the same predicate (the models use one predicate for both) *)
Theorem leaf_is_any_sep_is_dir_sep : forall c, Path.leaf_is_any_sep c = Path.leaf_is_dir_sep c.
Proof. intros. unfold Path.leaf_is_any_sep, Path.leaf_is_dir_sep. lia.
Qed.
Print Assumptions leaf_is_any_sep_is_dir_sep.

Theorem leaf_is_empty_range_is_model :
  forall r : Z * Z, Path.leaf_zix_is_empty_range_dom (fst r) (snd r) ->
    Path.leaf_zix_is_empty_range (fst r) (snd r) = PathDecModel.is_empty_range r /\
    Path.leaf_zix_is_empty_range (fst r) (snd r) = PathJoinModel.is_empty_range r.
Proof.
  intros r _. unfold Path.leaf_zix_is_empty_range, PathDecModel.is_empty_range, PathDecModel.rbegin, PathDecModel.rend,
    PathJoinModel.is_empty_range. split; lia.
Qed.
Print Assumptions leaf_is_empty_range_is_model.

Theorem path_dir_sep_is_model :
  Path.dir_sep = PathNormSpec.SEP /\ Path.dir_sep = PathJoinSpec.sepc /\ PathDecModel.is_dir_sep Path.dir_sep = true.
Proof. repeat split; reflexivity.
Qed.
Print Assumptions path_dir_sep_is_model.
