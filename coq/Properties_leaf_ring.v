(* Leaf functions of /repo/src/ring.c, REGENERATED from the C source on every run (gen/Leaf.v, module Ring, by
   tools/translate_leaf.py), are the functions the hand-written models of C05 (RingModel) and C04 (RingConcModel) use.
   Stated on the whole domain the C parameter types give (leaf_*_dom, generated too).  If the source changes, the
   regenerated definition changes and these proofs stop checking.  Struct fields read through the `ring` pointer
   are parameters of the generated definitions (ring_size_mask = ring->size_mask, ring_size = ring->size). *)
From Coq Require Import ZArith Bool Lia ZifyBool.
From Zix Require RingModel RingConcModel.
From Zix.gen Require Import Leaf.
Local Open Scope Z_scope.
Ltac Zify.zify_post_hook ::= Z.div_mod_to_equations.

(* arithmetic cores are closed by lia over the mod/div equations, so that rewrites of the C expression that keep the
   value (r - (w + 1U) for r - w - 1U, ...) keep the proofs checking *)
Ltac arith := unfold RingModel.u32, RingConcModel.u32 in *; cbv zeta; repeat (f_equal; try lia); lia.

Theorem leaf_next_power_of_two_is_model :
  forall size, Ring.leaf_next_power_of_two_dom size ->
    Ring.leaf_next_power_of_two size = RingModel.next_power_of_two size.
Proof.
  intros size _. unfold Ring.leaf_next_power_of_two, RingModel.next_power_of_two, RingModel.u32. reflexivity.
Qed.
Print Assumptions leaf_next_power_of_two_is_model.

Theorem leaf_read_space_internal_is_model :
  forall rg r w, Ring.leaf_read_space_internal_dom (RingModel.size_mask rg) r w ->
    Ring.leaf_read_space_internal (RingModel.size_mask rg) r w = RingModel.read_space_internal rg r w.
Proof. intros rg r w _. unfold Ring.leaf_read_space_internal, RingModel.read_space_internal. arith.
Qed.
Print Assumptions leaf_read_space_internal_is_model.

Theorem leaf_write_space_internal_is_model :
  forall rg r w, Ring.leaf_write_space_internal_dom (RingModel.size_mask rg) r w ->
    Ring.leaf_write_space_internal (RingModel.size_mask rg) r w = RingModel.write_space_internal rg r w.
Proof. intros rg r w _. unfold Ring.leaf_write_space_internal, RingModel.write_space_internal. arith.
Qed.
Print Assumptions leaf_write_space_internal_is_model.

Theorem leaf_ring_capacity_is_model :
  forall rg, Ring.leaf_zix_ring_capacity_dom (RingModel.size rg) ->
    Ring.leaf_zix_ring_capacity (RingModel.size rg) = RingModel.ring_capacity rg.
Proof. intros rg _. unfold Ring.leaf_zix_ring_capacity, RingModel.ring_capacity. arith.
Qed.
Print Assumptions leaf_ring_capacity_is_model.

(* ring->size_mask = ring->size - 1U in zix_ring_new: the mask RingModel.ring_new stores *)
Theorem leaf_ring_new_size_mask_is_model :
  forall sz junk, RingModel.size_mask (RingModel.ring_new sz junk) =
                  Ring.leaf_ring_new_size_mask (RingModel.size (RingModel.ring_new sz junk)).
Proof. intros. unfold Ring.leaf_ring_new_size_mask. cbn [RingModel.ring_new RingModel.size RingModel.size_mask]. arith.
Qed.
Print Assumptions leaf_ring_new_size_mask_is_model.

(* the two-thread model of C04 uses the same two expressions with the mask taken from its configuration *)
Theorem leaf_read_space_is_conc_model :
  forall c r w, Ring.leaf_read_space_internal_dom (RingConcModel.rmask c) r w ->
    Ring.leaf_read_space_internal (RingConcModel.rmask c) r w = RingConcModel.read_space c r w.
Proof. intros c r w _. unfold Ring.leaf_read_space_internal, RingConcModel.read_space, RingConcModel.band. arith.
Qed.
Print Assumptions leaf_read_space_is_conc_model.

Theorem leaf_write_space_is_conc_model :
  forall c r w, Ring.leaf_write_space_internal_dom (RingConcModel.rmask c) r w ->
    Ring.leaf_write_space_internal (RingConcModel.rmask c) r w = RingConcModel.write_space c r w.
Proof. intros c r w _. unfold Ring.leaf_write_space_internal, RingConcModel.write_space, RingConcModel.band. arith.
Qed.
Print Assumptions leaf_write_space_is_conc_model.
