Require Extraction.
Require Import ExtrOcamlBasic.
From Zix Require Import FaultSpec AllocModel.
Separate Extraction FaultSpec.tol_run FaultSpec.exact_step FaultSpec.log_ok FaultSpec.log_run
  AllocModel.ring_new AllocModel.ring_free AllocModel.one_block AllocModel.caller_free
  AllocModel.create_directories AllocModel.realloc_chain AllocModel.copy_file_block
  AllocModel.file_equals_blocks AllocModel.tree_life AllocModel.ast0 AllocModel.log AllocModel.default_trace.
