(* C17: lemmas about SemModel. *)
From Coq Require Import ZArith List Bool Arith Lia ZifyBool.
From Zix Require Import SemErrnoModel SemErrnoProofs SemModel SemSpec.
Import ListNotations.

(* ================================================================== 1. deadline *)
Section Deadline.
Local Open Scope Z_scope.
Ltac Zify.zify_post_hook ::= Z.div_mod_to_equations.

Lemma wrap_s64_id x : - 2^63 <= x < 2^63 -> wrap_s64 x = x.
Proof.
  intros H. unfold wrap_s64. rewrite Z.mod_small; lia.
Qed.

Definition now_ok (now_sec now_nsec : Z) : Prop :=
  - 2^62 <= now_sec < 2^62 /\ 0 <= now_nsec < NS_PER_SECOND.
Definition arg_ok (s ns : Z) : Prop := 0 <= s < 2^32 /\ 0 <= ns < 2^32.

Lemma deadline_value now_sec now_nsec s ns :
  now_ok now_sec now_nsec -> arg_ok s ns ->
  timed_wait_deadline now_sec now_nsec s ns =
  (now_sec + s + (now_nsec + ns) / NS_PER_SECOND, (now_nsec + ns) mod NS_PER_SECOND).
Proof.
  intros [Hs Hn] [Ha Hb]. unfold timed_wait_deadline, NS_PER_SECOND in *.
  assert (E1 : wrap_s64 (now_sec + s) = now_sec + s) by (apply wrap_s64_id; lia).
  assert (E2 : wrap_s64 (now_nsec + ns) = now_nsec + ns) by (apply wrap_s64_id; lia).
  rewrite E1, E2.
  rewrite Z.quot_div_nonneg by lia. rewrite Z.rem_mod_nonneg by lia.
  rewrite wrap_s64_id; [reflexivity|].
  assert (0 <= (now_nsec + ns) / 1000000000 <= 5) by lia.
  lia.
Qed.

Lemma deadline_normalised_lemma now_sec now_nsec s ns :
  now_ok now_sec now_nsec -> arg_ok s ns ->
  0 <= snd (timed_wait_deadline now_sec now_nsec s ns) < NS_PER_SECOND.
Proof.
  intros H1 H2. rewrite (deadline_value _ _ _ _ H1 H2). cbn [snd].
  apply Z.mod_pos_bound. reflexivity.
Qed.

Lemma deadline_exact_lemma now_sec now_nsec s ns :
  now_ok now_sec now_nsec -> arg_ok s ns ->
  let d := timed_wait_deadline now_sec now_nsec s ns in
  fst d * NS_PER_SECOND + snd d = (now_sec * NS_PER_SECOND + now_nsec) + (s * NS_PER_SECOND + ns).
Proof.
  intros H1 H2. cbv zeta. rewrite (deadline_value _ _ _ _ H1 H2). cbn [fst snd].
  pose proof (Z.div_mod (now_nsec + ns) NS_PER_SECOND ltac:(discriminate)).
  lia.
Qed.
End Deadline.

(* ================================================================== 2. retry loops *)
Definition is_eintr (r : kres) : Prop := r = KErr EINTR.

Lemma retry_iter_again r : retry_iter r = Again <-> is_eintr r.
Proof.
  unfold is_eintr. destruct r as [|e]; cbn [retry_iter].
  - split; discriminate.
  - destruct (Z.eqb_spec e EINTR).
    + subst. split; reflexivity.
    + split; [discriminate|]. intros H. inversion H. contradiction.
Qed.

Lemma retry_iter_ret r s : retry_iter r = Ret s -> ~ is_eintr r /\ s = errno_status_if r.
Proof.
  unfold is_eintr. destruct r as [|e]; cbn [retry_iter].
  - intros H. inversion H. split; [discriminate|reflexivity].
  - destruct (Z.eqb_spec e EINTR); [discriminate|].
    intros H. inversion H. split; [|reflexivity]. intros H'. inversion H'. contradiction.
Qed.

(* the loop returns exactly at the first result that is not EINTR, with that result's status,
   having made one call per EINTR before it plus one; it keeps waiting while all results are EINTR *)
Lemma retry_loop_spec script : forall n,
  match retry_loop script n with
  | Returned s k =>
      exists pre r post, script = pre ++ r :: post /\ Forall is_eintr pre /\ ~ is_eintr r /\
                         k = (n + length pre + 1)%nat /\ s = errno_status_if r
  | StillWaiting k => Forall is_eintr script /\ k = (n + length script)%nat
  end.
Proof.
  induction script as [|r rest IH]; intros n; cbn [retry_loop].
  - split; [constructor|]. cbn. lia.
  - destruct (retry_iter r) eqn:E.
    + apply retry_iter_again in E. specialize (IH (S n)).
      destruct (retry_loop rest (S n)) as [s k|k].
      * destruct IH as (pre & r' & post & -> & Hp & Hr & Hk & Hs).
        exists (r :: pre), r', post. repeat split; auto. cbn [length]. lia.
      * destruct IH as [Hf Hk]. split; [constructor; auto|]. cbn [length]. lia.
    + apply retry_iter_ret in E as [E1 E2].
      exists [], r, rest. repeat split; auto. cbn. lia.
Qed.

(* ================================================================== 3. interleavings *)
Lemma nth_error_upd_same {A} (l : list A) : forall i x t, nth_error l i = Some t -> nth_error (upd i x l) i = Some x.
Proof.
  induction l as [|y l IH]; intros [|i] x t H; cbn in *; try discriminate; eauto.
Qed.

Lemma nth_error_upd_other {A} (l : list A) : forall i j x, i <> j -> nth_error (upd i x l) j = nth_error l j.
Proof.
  induction l as [|y l IH]; intros [|i] [|j] x H; cbn; try reflexivity; try contradiction.
  apply IH. congruence.
Qed.

Lemma In_upd {A} (l : list A) : forall i x y, In y (upd i x l) -> y = x \/ In y l.
Proof.
  induction l as [|z l IH]; intros [|i] x y H; cbn in *; try tauto.
  - destruct H; auto.
  - destruct H as [H|H]; auto. apply IH in H. tauto.
Qed.

Lemma list_sum_cons a l : list_sum (a :: l) = a + list_sum l.
Proof. reflexivity. Qed.

Lemma sum_upd {A} (f : A -> nat) (l : list A) : forall i t x,
  nth_error l i = Some t ->
  list_sum (map f (upd i x l)) + f t = list_sum (map f l) + f x.
Proof.
  induction l as [|y l IH]; intros [|i] t x H; cbn [upd map nth_error] in *; try discriminate;
    rewrite !list_sum_cons.
  - inversion H. subst. lia.
  - specialize (IH i t x H). lia.
Qed.

Lemma map_upd_same {A B} (f : A -> B) (l : list A) : forall i t x,
  nth_error l i = Some t -> f x = f t -> map f (upd i x l) = map f l.
Proof.
  induction l as [|y l IH]; intros [|i] t x H E; cbn in *; try discriminate; try reflexivity.
  - inversion H. subst. rewrite E. reflexivity.
  - f_equal. eapply IH; eauto.
Qed.

Lemma map_upd {A B} (f : A -> B) (l : list A) : forall i x, map f (upd i x l) = supd i (f x) (map f l).
Proof.
  induction l as [|y l IH]; intros [|i] x; cbn; try reflexivity. f_equal. apply IH.
Qed.

Lemma nth_error_In' {A} (l : list A) i t : nth_error l i = Some t -> In t l.
Proof. apply nth_error_In. Qed.

(* ---- well-formedness: only a thread whose current operation can sleep is in the kernel *)
Definition wf (st : sys) : Prop :=
  forall t, In t (s_threads st) -> t_inkernel t = true -> blocked_waiter t = true.

Lemma kernel_call_none o c e : kernel_call o c e = None ->
  (o = OWait \/ o = OTimed) /\ c = O.
Proof.
  destruct o, c; cbn; try discriminate; auto.
Qed.

Lemma wrapper_eintr_waiter o : (o = OWait \/ o = OTimed) -> wrapper o (KErr EINTR) = Again.
Proof. intros [-> | ->]; reflexivity. Qed.

Lemma blocked_waiter_head t : blocked_waiter t = true ->
  exists o rest, t_todo t = o :: rest /\ (o = OWait \/ o = OTimed).
Proof.
  unfold blocked_waiter. destruct (t_todo t) as [|o rest]; [discriminate|].
  destruct o; try discriminate; eauto.
Qed.

Lemma wf_step ch st : wf st -> wf (step ch st).
Proof.
  intros W. destruct ch as [i|i|i]; cbn [step].
  1,2: unfold attempt; destruct (nth_error (s_threads st) i) as [t|] eqn:N; [|exact W];
       destruct (t_todo t) as [|o rest] eqn:T; [exact W|];
       match goal with |- context [kernel_call _ _ ?e] =>
         destruct (kernel_call o (s_count st) e) as [[c' r]|] eqn:K end;
       [ destruct (wrapper o r) |];
       intros t' Hin Hk; cbn [s_threads] in Hin; apply In_upd in Hin as [->|Hin];
       try (cbn in Hk; discriminate); try (apply W; assumption);
       apply kernel_call_none in K as [[-> | ->] _]; unfold blocked_waiter; cbn [t_todo]; try rewrite T; reflexivity.
  unfold signal. destruct (nth_error (s_threads st) i) as [t|] eqn:N; [|exact W].
  destruct (t_inkernel t) eqn:IK; [|exact W].
  destruct (t_todo t) as [|o rest] eqn:T; [exact W|].
  destruct (wrapper o (KErr EINTR));
    intros t' Hin Hk; cbn [s_threads] in Hin; apply In_upd in Hin as [->|Hin];
    try (cbn in Hk; discriminate); try (apply W; assumption).
  unfold blocked_waiter. cbn [t_todo].
  pose proof (W t (nth_error_In' _ _ _ N) IK) as B. unfold blocked_waiter in B. rewrite T in B. exact B.
Qed.

Lemma wf_init n progs : wf (init_sys n progs).
Proof.
  intros t Hin Hk. cbn in Hin. apply in_map_iff in Hin as (p & <- & _). discriminate.
Qed.

Lemma wf_run sched : forall st, wf st -> wf (run sched st).
Proof.
  induction sched as [|ch rest IH]; intros st W; cbn [run]; auto using wf_step.
Qed.

(* ---- conservation of tokens *)
Lemma takes_of_app t e :
  length (filter is_take (t_log t ++ [e])) = (takes_of t + (if is_take e then 1 else 0))%nat.
Proof.
  unfold takes_of. rewrite filter_app, app_length. cbn [filter]. destruct (is_take e); reflexivity.
Qed.

Lemma takes_upd_log ths i t x e :
  nth_error ths i = Some t -> t_log x = t_log t ++ [e] ->
  list_sum (map takes_of (upd i x ths)) = (list_sum (map takes_of ths) + (if is_take e then 1 else 0))%nat.
Proof.
  intros N E. pose proof (sum_upd takes_of ths i t x N) as S.
  assert (takes_of x = takes_of t + (if is_take e then 1 else 0))%nat.
  { unfold takes_of at 1. rewrite E. apply takes_of_app. }
  lia.
Qed.

Lemma takes_upd_same ths i t x :
  nth_error ths i = Some t -> t_log x = t_log t ->
  list_sum (map takes_of (upd i x ths)) = list_sum (map takes_of ths).
Proof.
  intros N E. pose proof (sum_upd takes_of ths i t x N) as S.
  assert (takes_of x = takes_of t) by (unfold takes_of; rewrite E; reflexivity).
  lia.
Qed.

Lemma step_conservation ch st :
  (takes (step ch st) + s_count (step ch st) + s_posts st =
   takes st + s_count st + s_posts (step ch st))%nat.
Proof.
  destruct ch as [i|i|i]; cbn [step].
  1,2: unfold attempt; destruct (nth_error (s_threads st) i) as [t|] eqn:N; [|reflexivity];
       destruct (t_todo t) as [|o rest] eqn:T; [reflexivity|];
       match goal with |- context [kernel_call _ _ ?e] =>
         destruct (kernel_call o (s_count st) e) as [[c' r]|] eqn:K end.
  1,3: destruct (wrapper o r) as [|s] eqn:Wr; unfold takes; cbn [s_threads s_count s_posts];
       [ erewrite (takes_upd_same _ _ _ _ N) by reflexivity | erewrite (takes_upd_log _ _ _ _ _ N) by reflexivity ];
       destruct o, (s_count st); cbn in K; try discriminate;
       try (match type of K with context [if ?e then _ else _] => destruct e end; try discriminate);
       inversion K; subst; cbn in Wr; try discriminate; inversion Wr; subst; cbn; lia.
  1,2: unfold takes; cbn [s_threads s_count s_posts];
       erewrite (takes_upd_same _ _ _ _ N) by reflexivity; lia.
  unfold signal. destruct (nth_error (s_threads st) i) as [t|] eqn:N; [|reflexivity].
  destruct (t_inkernel t); [|reflexivity].
  destruct (t_todo t) as [|o rest] eqn:T; [reflexivity|].
  destruct (wrapper o (KErr EINTR)) as [|s] eqn:Wr; unfold takes; cbn [s_threads s_count s_posts].
  - erewrite (takes_upd_same _ _ _ _ N) by reflexivity. lia.
  - erewrite (takes_upd_log _ _ _ _ _ N) by reflexivity.
    destruct o; cbn in Wr; try discriminate. cbn. lia.
Qed.

Lemma run_conservation sched : forall st,
  (takes (run sched st) + s_count (run sched st) + s_posts st =
   takes st + s_count st + s_posts (run sched st))%nat.
Proof.
  induction sched as [|ch rest IH]; intros st; cbn [run]; [lia|].
  pose proof (IH (step ch st)). pose proof (step_conservation ch st). lia.
Qed.

Lemma takes_init n progs : takes (init_sys n progs) = O.
Proof.
  unfold takes, init_sys. cbn [s_threads]. induction progs as [|p ps IH]; cbn; auto.
Qed.

Lemma conservation_lemma initial progs sched :
  let st := run sched (init_sys initial progs) in
  (takes st + s_count st = initial + s_posts st)%nat.
Proof.
  cbv zeta. pose proof (run_conservation sched (init_sys initial progs)) as H.
  rewrite takes_init in H. cbn [init_sys s_count s_posts] in H. lia.
Qed.

(* posts begun never decrease and are exactly the completed post entries *)
Definition is_post_entry (e : op * status * nat) : bool := match e with (o, _, _) => op_is_post o end.
Definition posts_of (t : thread) : nat := length (filter is_post_entry (t_log t)).
Definition posts_logged (st : sys) : nat := list_sum (map posts_of (s_threads st)).

(* ---- results of completed operations *)
Definition entry_ok (e : op * status * nat) : bool :=
  match e with
  | (OPost, s, _) => status_eqb s SUCCESS
  | (OWait, s, _) => status_eqb s SUCCESS
  | (OTry, s, _) => status_eqb s SUCCESS || status_eqb s UNAVAILABLE
  | (OTimed, s, _) => status_eqb s SUCCESS || status_eqb s TIMEOUT
  end.

Definition logs_ok (st : sys) : Prop :=
  forall t, In t (s_threads st) -> forallb entry_ok (t_log t) = true.

Lemma forallb_snoc {A} (f : A -> bool) l x : forallb f (l ++ [x]) = forallb f l && f x.
Proof. rewrite forallb_app. cbn. rewrite andb_true_r. reflexivity. Qed.

Lemma logs_ok_step ch st : wf st -> logs_ok st -> logs_ok (step ch st).
Proof.
  intros W L. destruct ch as [i|i|i]; cbn [step].
  1,2: unfold attempt; destruct (nth_error (s_threads st) i) as [t|] eqn:N; [|exact L];
       destruct (t_todo t) as [|o rest] eqn:T; [exact L|];
       match goal with |- context [kernel_call _ _ ?e] =>
         destruct (kernel_call o (s_count st) e) as [[c' r]|] eqn:K end;
       [ destruct (wrapper o r) as [|s] eqn:Wr |];
       intros t' Hin; cbn [s_threads] in Hin; apply In_upd in Hin as [->|Hin];
       try (apply L; assumption); cbn [t_log];
       try (apply L; eapply nth_error_In'; eassumption);
       rewrite forallb_snoc, (L t (nth_error_In' _ _ _ N)); cbn [andb];
       destruct o, (s_count st); cbn in K; try discriminate;
       try (match type of K with context [if ?e then _ else _] => destruct e end; try discriminate);
       inversion K; subst; cbn in Wr; inversion Wr; subst; reflexivity.
  unfold signal. destruct (nth_error (s_threads st) i) as [t|] eqn:N; [|exact L].
  destruct (t_inkernel t) eqn:IK; [|exact L].
  destruct (t_todo t) as [|o rest] eqn:T; [exact L|].
  pose proof (W t (nth_error_In' _ _ _ N) IK) as B.
  apply blocked_waiter_head in B as (o' & rest' & T' & Ho). rewrite T in T'. inversion T'; subst o' rest'.
  rewrite (wrapper_eintr_waiter o Ho).
  intros t' Hin; cbn [s_threads] in Hin; apply In_upd in Hin as [->|Hin]; [|apply L; assumption].
  cbn [t_log]. apply L. eapply nth_error_In'; eassumption.
Qed.

Lemma logs_ok_init n progs : logs_ok (init_sys n progs).
Proof.
  intros t Hin. cbn in Hin. apply in_map_iff in Hin as (p & <- & _). reflexivity.
Qed.

Lemma logs_ok_run sched : forall st, wf st -> logs_ok st -> logs_ok (run sched st).
Proof.
  induction sched as [|ch rest IH]; intros st W L; cbn [run]; auto using wf_step, logs_ok_step.
Qed.

(* a signal changes nothing but the retry counter of a sleeping waiter *)
Lemma signal_only_retries i st : wf st ->
  s_count (signal i st) = s_count st /\ s_posts (signal i st) = s_posts st /\
  map t_todo (s_threads (signal i st)) = map t_todo (s_threads st) /\
  map t_log (s_threads (signal i st)) = map t_log (s_threads st).
Proof.
  intros W. unfold signal. destruct (nth_error (s_threads st) i) as [t|] eqn:N; [|auto].
  destruct (t_inkernel t) eqn:IK; [|auto].
  destruct (t_todo t) as [|o rest] eqn:T; [auto|].
  pose proof (W t (nth_error_In' _ _ _ N) IK) as B.
  apply blocked_waiter_head in B as (o' & rest' & T' & Ho). rewrite T in T'. inversion T'; subst o' rest'.
  rewrite (wrapper_eintr_waiter o Ho). cbn [s_count s_posts s_threads].
  repeat split; eapply map_upd_same; eauto.
Qed.

(* ---- try_wait: one step, UNAVAILABLE exactly when the count was zero *)
Lemma try_wait_lemma st i t rest :
  nth_error (s_threads st) i = Some t -> t_todo t = OTry :: rest ->
  let st' := step (Run i) st in
  nth_error (s_threads st') i =
    Some {| t_todo := rest;
            t_log := t_log t ++ [(OTry, if Nat.eqb (s_count st) 0 then UNAVAILABLE else SUCCESS, t_retries t)];
            t_inkernel := false; t_retries := O |} /\
  s_count st' = Nat.pred (s_count st).
Proof.
  intros N T. cbv zeta. cbn [step]. unfold attempt. rewrite N, T.
  destruct (s_count st) as [|c]; cbn; (split; [eapply nth_error_upd_same; eauto | reflexivity]).
Qed.

(* ---- quiescence: nobody runnable => every unfinished thread is a waiter and the count is zero *)
Lemma quiescent_lemma st :
  (forall t, In t (s_threads st) -> runnable st t = false) ->
  forall t, In t (s_threads st) -> t_todo t <> [] -> blocked_waiter t = true /\ s_count st = O.
Proof.
  intros Q t Hin Hne. specialize (Q t Hin). unfold runnable in Q. unfold blocked_waiter.
  destruct (t_todo t) as [|o rest]; [contradiction|].
  destruct (kernel_call o (s_count st) false) eqn:K; [discriminate|].
  apply kernel_call_none in K as [[-> | ->] C]; auto.
Qed.

(* ---- a post makes every waiter runnable; a runnable waiter completes with SUCCESS *)
Lemma post_enables_lemma st j tj rest :
  nth_error (s_threads st) j = Some tj -> t_todo tj = OPost :: rest ->
  let st' := step (Run j) st in
  s_count st' = S (s_count st) /\
  forall t, In t (s_threads st') -> blocked_waiter t = true -> runnable st' t = true.
Proof.
  intros N T. cbv zeta. cbn [step]. unfold attempt. rewrite N, T. cbn.
  split; [reflexivity|]. intros t _ B. apply blocked_waiter_head in B as (o & r & E & Ho).
  unfold runnable. rewrite E. cbn [s_count]. destruct Ho as [-> | ->]; reflexivity.
Qed.

Lemma waiter_completes_lemma st i t o rest e :
  nth_error (s_threads st) i = Some t -> t_todo t = o :: rest -> (o = OWait \/ o = OTimed) ->
  s_count st <> O ->
  let st' := attempt i e st in
  nth_error (s_threads st') i =
    Some {| t_todo := rest; t_log := t_log t ++ [(o, SUCCESS, t_retries t)];
            t_inkernel := false; t_retries := O |} /\
  s_count st' = Nat.pred (s_count st).
Proof.
  intros N T Ho C. cbv zeta. unfold attempt. rewrite N, T.
  destruct (s_count st) as [|c]; [contradiction|].
  destruct Ho as [-> | ->]; cbn; (split; [eapply nth_error_upd_same; eauto | reflexivity]).
Qed.

Definition timed_result (t : thread) (rest : list op) (c : nat) (e : bool) : thread :=
  match c with
  | O => if e then {| t_todo := rest; t_log := t_log t ++ [(OTimed, TIMEOUT, t_retries t)];
                      t_inkernel := false; t_retries := O |}
         else {| t_todo := t_todo t; t_log := t_log t; t_inkernel := true; t_retries := t_retries t |}
  | S _ => {| t_todo := rest; t_log := t_log t ++ [(OTimed, SUCCESS, t_retries t)];
              t_inkernel := false; t_retries := O |}
  end.

(* a timed wait: SUCCESS when a unit is available, TIMEOUT only once expired on a zero count,
   otherwise it keeps sleeping *)
Lemma timed_wait_lemma st i e t rest :
  nth_error (s_threads st) i = Some t -> t_todo t = OTimed :: rest ->
  let st' := attempt i e st in
  nth_error (s_threads st') i =
    Some (timed_result t rest (s_count st) e) /\
  s_count st' = Nat.pred (s_count st).
Proof.
  intros N T. cbv zeta. unfold attempt. rewrite N, T.
  destruct (s_count st) as [|c], e; cbn; rewrite ?T; (split; [eapply nth_error_upd_same; eauto | reflexivity]).
Qed.

(* ---- refinement of the specification *)
Definition abs_op (o : op) : sop :=
  match o with OPost => SPost | OWait => SWait | OTry => STry | OTimed => STimed end.
Definition abs_status (s : status) : sres :=
  match s with SUCCESS => RSuccess | UNAVAILABLE => RUnavailable | TIMEOUT => RTimeout | _ => ROther end.
Definition abs_entry (e : op * status * nat) : sop * sres :=
  match e with (o, s, _) => (abs_op o, abs_status s) end.
Definition abs_thread (t : thread) : sthread :=
  {| st_todo := map abs_op (t_todo t); st_done := map abs_entry (t_log t) |}.
Definition abs_sys (st : sys) : sstate :=
  {| sp_count := s_count st; sp_threads := map abs_thread (s_threads st) |}.
Definition abs_choice (ch : choice) : schoice :=
  match ch with Run i => SRun i false | Expire i => SRun i true | Sig _ => SNothing end.

Lemma abs_sys_eq c ths c' ths' : c = c' -> ths = ths' ->
  {| sp_count := c; sp_threads := ths |} = {| sp_count := c'; sp_threads := ths' |}.
Proof. intros -> ->. reflexivity. Qed.

Lemma attempt_refines i e st : abs_sys (attempt i e st) = spec_step (SRun i e) (abs_sys st).
Proof.
  unfold attempt, spec_step, abs_sys at 2. cbn [sp_threads sp_count].
  rewrite nth_error_map. destruct (nth_error (s_threads st) i) as [t|] eqn:N; cbn [option_map]; [|reflexivity].
  cbn [abs_thread st_todo st_done].
  destruct (t_todo t) as [|o rest] eqn:T; cbn [map]; [reflexivity|].
  destruct o, (s_count st) as [|c] eqn:C, e; cbn [kernel_call spec_op abs_op wrapper retry_iter post_model errno_status_if];
    try (change (Z.eqb EAGAIN EINTR) with false); try (change (Z.eqb ETIMEDOUT EINTR) with false); cbv iota;
    unfold abs_sys; cbn [s_count s_threads sp_count sp_threads]; rewrite ?C;
    try (apply abs_sys_eq; [try reflexivity; auto|];
         first [ rewrite map_upd; unfold abs_thread; cbn [t_todo t_log]; rewrite map_app; reflexivity
               | eapply map_upd_same; [eassumption|]; unfold abs_thread; cbn [t_todo t_log]; rewrite ?T; reflexivity ]).
Qed.

Lemma step_refines ch st : wf st -> abs_sys (step ch st) = spec_step (abs_choice ch) (abs_sys st).
Proof.
  intros W. destruct ch as [i|i|i]; cbn [step abs_choice]; try apply attempt_refines.
  cbn [spec_step]. destruct (signal_only_retries i st W) as (E1 & _ & E2 & E3).
  unfold abs_sys. apply abs_sys_eq; [exact E1|].
  (* threads agree on todo and log component-wise *)
  revert E2 E3. generalize (s_threads (signal i st)) (s_threads st).
  induction l as [|a l IH]; intros [|b l'] E2 E3; cbn in *; try discriminate; [reflexivity|].
  inversion E2. inversion E3. f_equal; [|apply IH; assumption].
  unfold abs_thread. congruence.
Qed.

Lemma run_refines sched : forall st, wf st ->
  abs_sys (run sched st) = spec_run (map abs_choice sched) (abs_sys st).
Proof.
  induction sched as [|ch rest IH]; intros st W; cbn [run map spec_run]; [reflexivity|].
  rewrite IH by (apply wf_step; assumption). rewrite step_refines by assumption. reflexivity.
Qed.

Lemma abs_init n progs : abs_sys (init_sys n progs) = spec_init n (map (map abs_op) progs).
Proof.
  unfold abs_sys, init_sys, spec_init. cbn [s_count s_threads]. f_equal.
  rewrite !map_map. reflexivity.
Qed.
