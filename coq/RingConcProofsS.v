(* C04: the ghost "committed" stream is exactly what the writer's call/result logs say was committed *)
From Coq Require Import ZArith List Bool Arith Lia.
From Zix Require Import RingConcModel RingConcProofsA RingConcProofsB RingConcProofsW RingConcProofsR RingConcProofsC RingConcProofsF.
Import ListNotations.
Local Open Scope Z_scope.

Definition pend_ok (s : state) (pend : option (list Z)) : Prop :=
  match pend with
  | Some p => wlog (sg s) = committed s ++ p
  | None => wtx (sw s) = None
  end.

Definition J (s : state) : Prop :=
  let st := wfold (completed_calls (sw s)) (wresl (sw s)) in
  snd st = committed s /\
  match wpcs (sw s) with
  | WIdle => pend_ok s (fst st)
  | WOwn call _ _ => (exists cs, wcalls (sw s) = call :: cs) /\ pend_ok s (fst st)
  | WCopy fin w size i todo => exists bs done cs,
      wcalls (sw s) = (if fin then WWrite bs else WAmend bs) :: cs /\ bs = done ++ todo /\ size = wsize bs /\
      (if fin then wlog (sg s) = committed s ++ done
       else exists p, fst st = Some p /\ wlog (sg s) = committed s ++ p ++ done)
  | WRel res v => exists bs cs,
      wcalls (sw s) = WWrite bs :: cs /\ res = WrWrote (wsize bs) /\ wlog (sg s) = committed s ++ bs
  end.

Ltac projS := cbn [sm sw sr sg trace WH RH buf wep rep race wpcs wtx wresl vw wcalls wsteps
                   rpcs rresl vr rcalls rsteps gT gtxr wlog rlast fst snd tl] in *.


Section S.
  Variable c : cfg.
  Hypothesis Hk : 0 <= ck c <= 31.

  (* facts of the main invariant used here *)
  Lemma inv_wlog : forall s, Inv c s ->
    Z.of_nat (length (wlog (sg s))) = gT (sg s) /\ 0 <= Wc s <= gT (sg s).
  Proof.
    intros s H. pose proof (inv_counts c s H). pose proof (i_wlog c s H). lia.
  Qed.

  Lemma wfold_cons : forall call res cs rs, wfold (call :: cs) (res :: rs) = wapply call res (wfold cs rs).
  Proof. reflexivity. Qed.

  Theorem wstep_J : forall p s k, Inv c s -> J s -> J (wstep c p s k).
  Proof.
    intros p s k H HJ. pose proof (inv_wlog s H) as (Hlen & Hwc). unfold Wc in Hwc.
    pose proof (i_wpc c s H) as Hpc. pose proof (i_wtx c s H) as Htx.
    unfold wpc_ok in Hpc. unfold wtx_ok in Htx.
    unfold J, completed_calls, wstep in *.
    destruct (wpcs (sw s)) as [|call r rc|fin w size i todo|res v] eqn:Epc.
    - (* idle *)
      destruct HJ as (Hacc & Hpend).
      destruct (p (wresl (sw s))) as [call|]; [|rewrite Epc; split; assumption].
      destruct call as [bs| |bs| |]; projS.
      + split; [exact Hacc|]. split; [eexists; reflexivity | exact Hpend].
      + split; [exact Hacc|]. split; [eexists; reflexivity | exact Hpend].
      + destruct (wtx (sw s)) as [[r w]|] eqn:Etx.
        * destruct (fst (wfold (wcalls (sw s)) (wresl (sw s)))) as [pd|] eqn:Epd;
            [|unfold pend_ok in Hpend; congruence].
          destruct (write_space c r w <? wsize bs).
          -- unfold w_finish; projS. unfold pend_ok, committed, Wc in *; projS.
             rewrite wfold_cons. cbn [wapply]. rewrite Epd. split; assumption.
          -- unfold wcopy_next, set_wpc, w_finish. destruct bs as [|b bs']; projS.
             ++ unfold pend_ok, committed, Wc in *; projS. rewrite wfold_cons. cbn [wapply]. rewrite Epd. projS.
                split; [exact Hacc|]. rewrite app_nil_r. exact Hpend.
             ++ unfold pend_ok, committed, Wc in *; projS. split; [exact Hacc|].
                exists (b :: bs'), [], (wcalls (sw s)).
                split; [reflexivity|]. split; [reflexivity|]. split; [reflexivity|].
                exists pd. split; [exact Epd|]. rewrite app_nil_r. exact Hpend.
        * unfold w_finish; projS. unfold pend_ok, committed, Wc in *; projS.
          rewrite wfold_cons. cbn [wapply]. split; [exact Hacc|].
          destruct (fst (wfold (wcalls (sw s)) (wresl (sw s)))); [exact Hpend | reflexivity].
      + destruct (wtx (sw s)) as [[r w]|] eqn:Etx.
        * destruct (fst (wfold (wcalls (sw s)) (wresl (sw s)))) as [pd|] eqn:Epd;
            [|unfold pend_ok in Hpend; congruence].
          unfold w_finish; projS. unfold pend_ok, committed, Wc in *; projS.
          rewrite wfold_cons. cbn [wapply]. rewrite Epd. projS. rewrite lastc_snoc.
          rewrite firstn_all2 by lia. split; [rewrite Hacc; symmetry; exact Hpend | reflexivity].
        * unfold w_finish; projS. unfold pend_ok, committed, Wc in *; projS.
          rewrite wfold_cons. cbn [wapply]. split; [exact Hacc|].
          destruct (fst (wfold (wcalls (sw s)) (wresl (sw s)))); [exact Hpend | reflexivity].
      + split; [exact Hacc|]. split; [eexists; reflexivity | exact Hpend].
    - (* plain load of the own head *)
      destruct HJ as (Hacc & (cs & Ecs) & Hpend). rewrite Ecs in *. projS.
      assert (Hcom : firstn (Z.to_nat (lastc (WH (sm s))))
                       (firstn (Z.to_nat (lastc (WH (sm s)))) (wlog (sg s))) =
                     firstn (Z.to_nat (lastc (WH (sm s)))) (wlog (sg s))).
      { rewrite firstn_firstn. rewrite Nat.min_id. reflexivity. }
      destruct call as [bs| |bs| |]; projS.
      + destruct (write_space c r (lastv (WH (sm s))) <? wsize bs).
        * unfold w_finish; projS. unfold pend_ok, committed, Wc in *; projS. rewrite ?Ecs, ?Hcom.
          rewrite wfold_cons. cbn [wapply]. rewrite Z.eqb_refl. projS. split; [exact Hacc | reflexivity].
        * unfold wcopy_next, set_wpc, w_finish. destruct bs as [|b bs']; projS;
            unfold pend_ok, committed, Wc in *; projS; rewrite ?Ecs, ?Hcom; projS.
          -- split; [exact Hacc|]. exists [], cs. rewrite app_nil_r. repeat split; reflexivity.
          -- split; [exact Hacc|]. exists (b :: bs'), [], cs. rewrite app_nil_r. repeat split; reflexivity.
      + unfold w_finish; projS. unfold pend_ok, committed, Wc in *; projS. rewrite ?Ecs, ?Hcom.
        rewrite wfold_cons. cbn [wapply]. projS. split; [exact Hacc|]. rewrite app_nil_r. reflexivity.
      + unfold w_finish; projS. unfold pend_ok, committed, Wc in *; projS. rewrite ?Ecs.
        rewrite wfold_cons. cbn [wapply]. split; assumption.
      + unfold w_finish; projS. unfold pend_ok, committed, Wc in *; projS. rewrite ?Ecs.
        rewrite wfold_cons. cbn [wapply]. split; assumption.
      + unfold w_finish; projS. unfold pend_ok, committed, Wc in *; projS. rewrite ?Ecs.
        rewrite wfold_cons. cbn [wapply]. split; assumption.
    - (* one byte of the copy *)
      destruct HJ as (Hacc & bs0 & done & cs & Ecs & Ebs & Esz & Hw).
      destruct Hpc as (r & w0 & Etx & _ & _ & Hne & _).
      destruct todo as [|b rest]; [congruence|]. rewrite Etx. rewrite Ecs in *. projS.
      assert (Hcom : firstn (Z.to_nat (lastc (WH (sm s)))) (wlog (sg s) ++ [b]) =
                     firstn (Z.to_nat (lastc (WH (sm s)))) (wlog (sg s))).
      { apply firstn_app_le. lia. }
      unfold wcopy_next, set_wpc, w_finish. destruct rest as [|z rest']; [destruct fin|]; projS;
        unfold pend_ok, committed, Wc in *; projS; rewrite ?Ecs, ?Hcom; projS.
      + split; [exact Hacc|]. exists bs0, cs. split; [reflexivity|]. split; [congruence|].
        rewrite Hw at 1. rewrite Ebs. rewrite app_assoc. reflexivity.
      + destruct Hw as (pd & Epd & Hw). rewrite wfold_cons. cbn [wapply]. rewrite Epd. projS.
        split; [exact Hacc|]. rewrite Hw at 1. rewrite Ebs. rewrite !app_assoc. reflexivity.
      + split; [exact Hacc|]. exists bs0, (done ++ [b]), cs. split; [reflexivity|].
        split; [rewrite Ebs, <- app_assoc; reflexivity|]. split; [exact Esz|].
        destruct fin.
        * rewrite Hw at 1. rewrite app_assoc. reflexivity.
        * destruct Hw as (pd & Epd & Hw). exists pd. split; [exact Epd|]. rewrite Hw at 1. rewrite !app_assoc. reflexivity.
    - (* the store that ends zix_ring_write *)
      destruct HJ as (Hacc & bs0 & cs & Ecs & Eres & Hw). subst res.
      unfold w_finish; projS. unfold pend_ok, committed, Wc in *; projS. rewrite Ecs in *. projS.
      rewrite wfold_cons. cbn [wapply]. projS. rewrite lastc_snoc. rewrite firstn_all2 by lia.
      split; [|reflexivity].
      destruct (wsize bs0 =? 0) eqn:E0.
      + apply Z.eqb_eq in E0. unfold wsize in E0. destruct bs0; [|cbn [length] in E0; lia].
        rewrite app_nil_r in Hw. rewrite Hw at 1. exact Hacc.
      + rewrite Hw at 1. rewrite Hacc. reflexivity.
  Qed.

  Lemma rstep_frame : forall p s k,
    sw (rstep c p s k) = sw s /\ wlog (sg (rstep c p s k)) = wlog (sg s) /\ WH (sm (rstep c p s k)) = WH (sm s).
  Proof.
    intros p s k. unfold rstep.
    destruct (rpcs (sr s)) as [|call w wc|adv r size i acc|res v n].
    - destruct (p (rresl (sr s))); repeat split; reflexivity.
    - destruct call; try (repeat split; reflexivity);
        destruct (read_space c (lastv (RH (sm s))) w <? u32 n); repeat split; reflexivity.
    - repeat split; reflexivity.
    - repeat split; reflexivity.
  Qed.

  Lemma rstep_J : forall p s k, J s -> J (rstep c p s k).
  Proof.
    intros p s k HJ. destruct (rstep_frame p s k) as (A & B & C).
    unfold J, pend_ok, committed, Wc in *. rewrite A, B, C. exact HJ.
  Qed.

  Lemma init_J : J (init c).
  Proof. unfold J, init, pend_ok, committed, Wc, completed_calls. cbn. auto. Qed.
End S.

Theorem run_J : forall c wp rp sched, good_cfg c -> J (run c wp rp sched).
Proof.
  intros c wp rp sched G. unfold run.
  assert (H0 : Inv c (init c) /\ J (init c)).
  { split; [apply init_inv; apply G | apply init_J]. }
  revert H0. generalize (init c) as s0.
  induction sched as [|ch sched IH]; intros s0 (HI & HJ); [exact HJ|].
  unfold run_from in *. cbn [fold_left]. apply IH.
  destruct G as (Hk & Hw & Hr). unfold step. destruct (fst ch).
  - split; [apply wstep_inv; assumption | apply wstep_J; assumption].
  - split; [apply rstep_inv; assumption | apply rstep_J; assumption].
Qed.

(* the committed stream is what the writer's call/result logs say was committed *)
Theorem committed_is_writes : forall c wp rp sched, good_cfg c ->
  let s := run c wp rp sched in committed s = writes_committed s.
Proof.
  intros c wp rp sched G s. pose proof (run_J c wp rp sched G) as HJ. fold s in HJ.
  unfold J in HJ. unfold writes_committed. symmetry. apply HJ.
Qed.
