Require Extraction.
Require Import ExtrOcamlBasic.
From Zix Require Import BTreeSpec BTreeModel FaultSpec AllocModel BTreeAllocModel.
Separate Extraction
  BTreeSpec.set_find BTreeSpec.set_insert BTreeSpec.set_remove BTreeSpec.set_succ
  BTreeSpec.set_lower_bound
  BTreeModel.empty_tree BTreeModel.insert BTreeModel.remove BTreeModel.find BTreeModel.lower_bound
  BTreeModel.clear BTreeModel.btree_size BTreeModel.btree_begin BTreeModel.iter_increment
  BTreeModel.iter_get BTreeModel.iter_equals BTreeModel.iter_is_end BTreeModel.height
  BTreeModel.elements BTreeModel.destroy_log
  BTreeAllocModel.anew_op BTreeAllocModel.ainsert_op BTreeAllocModel.aremove_op BTreeAllocModel.aclear_op
  BTreeAllocModel.afree_op BTreeAllocModel.erase_tree BTreeAllocModel.pages AllocModel.ast0.
