(* BTreeAllocInv — the ALLOCATION INVARIANT of the instrumented B-tree model (BTreeAllocModel.v), property C08:
   at every moment the blocks outstanding at the caller's allocator are exactly {tree struct} U {pages of the
   tree}, every one an aligned block, nothing is released twice or through the wrong entry, and after
   zix_btree_free nothing is outstanding -- for every (L, I) with I = L / 2, 3 <= I, every history of calls and
   every allocation oracle (including every NO_MEM path).

   Method: [owns s P] says that the allocator state s has exactly the blocks P outstanding.  Every function of
   the model that works on a subtree n is given a FRAME statement
       owns s (pages n ++ R)  ->  owns s' (pages n' ++ R)
   (R = the blocks outside the subtree).  Page sets are compared as multisets ([cnt], tactic [perm]).  The shape
   preconditions of the recursive calls are those of the plain model's specifications, transported through the
   erasure lemmas of BTreeAllocProofs.v. *)
From Coq Require Import ZArith List Bool Arith Lia ZifyBool ZifyNat Permutation.
From Zix Require Import BTreeSpec BTreeModel FaultSpec AllocModel AllocProofs BTreeProofsBase.
From Zix Require Import BTreeProofsInsert BTreeProofsRemovePrim BTreeProofsRemove BTreeProofsHist.
From Zix Require Import BTreeAllocModel BTreeAllocProofs.
Import ListNotations.
Ltac Zify.zify_post_hook ::= Z.div_mod_to_equations.
Set Default Proof Using "All".

(* ------------------------------------------------------------------ the definitions of the property *)
Definition all_aligned (live : list (nat * akind)) : Prop := forall b, In b live -> snd b = Aligned.

(* the allocator state s has exactly the blocks `owned` outstanding, all of them aligned blocks *)
Definition owns (s : ast) (owned : list nat) : Prop :=
  exists live, wf s live /\ all_aligned live /\ Permutation (ids live) owned.

Definition with_oracle (o : list bool) (s : ast) : ast := {| oracle := o; next := next s; log := log s |}.

(* ------------------------------------------------------------------ multisets of block ids *)
Definition one (a x : nat) : nat := if Nat.eq_dec a x then 1 else 0.
Definition cnt (l : list nat) (x : nat) : nat := count_occ Nat.eq_dec l x.

Lemma cnt_nil : forall x, cnt [] x = 0.
Proof. reflexivity. Qed.
Lemma cnt_cons : forall a l x, cnt (a :: l) x = one a x + cnt l x.
Proof. intros. unfold cnt, one. cbn [count_occ]. destruct (Nat.eq_dec a x); lia. Qed.
Lemma cnt_app : forall l1 l2 x, cnt (l1 ++ l2) x = cnt l1 x + cnt l2 x.
Proof. intros. apply count_occ_app. Qed.
Lemma perm_cnt : forall l1 l2, Permutation l1 l2 <-> forall x, cnt l1 x = cnt l2 x.
Proof. intros. apply Permutation_count_occ. Qed.
Lemma one_refl : forall a, one a a = 1.
Proof. intros. unfold one. destruct (Nat.eq_dec a a); congruence. Qed.
Lemma one_neq : forall a x, a <> x -> one a x = 0.
Proof. intros. unfold one. destruct (Nat.eq_dec a x); congruence. Qed.
Lemma cnt_In : forall l x, In x l <-> 1 <= cnt l x.
Proof. intros. unfold cnt. rewrite (count_occ_In Nat.eq_dec). lia. Qed.
Lemma cnt_NoDup : forall l, NoDup l <-> forall x, cnt l x <= 1.
Proof. intros. apply NoDup_count_occ. Qed.
Global Opaque cnt one.
Global Hint Rewrite cnt_nil cnt_cons cnt_app : cnt.

(* Permutation goals (and hypotheses) as linear arithmetic over occurrence counts *)
Ltac perm_hyps x :=
  repeat match goal with
         | H : Permutation ?a ?b |- _ =>
           let H' := fresh "Hc" in pose proof (proj1 (perm_cnt a b) H x) as H'; clear H
         end.
Ltac perm :=
  apply perm_cnt; let x := fresh "x" in intro x; perm_hyps x; autorewrite with cnt in *; try lia.

(* ------------------------------------------------------------------ owns: the allocator interface *)
Lemma In_ids : forall id live, In id (ids live) -> exists k, In (id, k) live.
Proof.
  intros id live H. unfold ids in H. apply in_map_iff in H as [[i k] [E Hb]]. cbn in E. subst i. eauto.
Qed.

Lemma ids_drop_perm : forall id live, NoDup (ids live) -> In id (ids live) ->
  Permutation (ids live) (id :: ids (drop id live)).
Proof.
  intros id. induction live as [|b live IH]; intros Hnd Hin; [destruct Hin|].
  unfold ids in *. cbn [map] in *. inversion Hnd as [|? ? Hni Hnd']; subst.
  unfold drop. cbn [filter]. destruct (Nat.eqb_spec (fst b) id) as [E|NE]; cbn [negb].
  - fold (drop id live). rewrite drop_notin by (unfold ids; rewrite <- E; exact Hni). rewrite E. apply Permutation_refl.
  - destruct Hin as [E|Hin]; [contradiction|]. specialize (IH Hnd' Hin). fold (drop id live).
    cbn [map]. perm.
Qed.

Lemma all_aligned_drop : forall id live, all_aligned live -> all_aligned (drop id live).
Proof. intros id live H b Hb. apply filter_In in Hb as [Hb _]. apply H, Hb. Qed.

Lemma owns_perm : forall s P Q, owns s P -> Permutation P Q -> owns s Q.
Proof. intros s P Q (live & W & A & Hp) H. exists live. split; [exact W|split; [exact A|]]. eapply Permutation_trans; eauto. Qed.

Lemma owns_NoDup : forall s P, owns s P -> NoDup P.
Proof. intros s P (live & (_ & _ & Hnd) & _ & Hp). eapply Permutation_NoDup; eauto. Qed.

Lemma owns0 : forall o, owns (ast0 o) [].
Proof. intros o. exists []. split; [apply wf0|split; [intros b []|apply Permutation_refl]]. Qed.

Lemma owns_release : forall s id P, owns s (id :: P) -> owns (release Aligned id s) P.
Proof.
  intros s id P (live & W & A & Hp).
  assert (Hin : In id (ids live)).
  { apply Permutation_in with (l := id :: P); [apply Permutation_sym; exact Hp|left; reflexivity]. }
  destruct (In_ids _ _ Hin) as [k Hk]. pose proof (A _ Hk) as Ek. cbn in Ek. subst k.
  exists (drop id live). split; [apply release_ok; assumption|]. split; [apply all_aligned_drop; assumption|].
  destruct W as (_ & _ & Hnd). pose proof (ids_drop_perm id live Hnd Hin) as H2. perm.
Qed.

Lemma alloc_next : forall k s r s', AllocModel.alloc k s = (r, s') -> next s' = S (next s).
Proof. intros k s r s' E. unfold AllocModel.alloc in E. inversion E. reflexivity. Qed.

Lemma owns_alloc : forall s P,
  owns s P ->
  match AllocModel.alloc Aligned s with
  | (Some id, s') => owns s' (id :: P) /\ id = next s /\ next s' = S (next s)
  | (None, s') => owns s' P /\ next s' = S (next s)
  end.
Proof.
  intros s P (live & W & A & Hp). destruct (AllocModel.alloc Aligned s) as [[id|] s'] eqn:E.
  - destruct (alloc_ok _ _ _ _ _ W E) as [-> W']. split; [|split; [reflexivity|eapply alloc_next; eauto]].
    exists ((next s, Aligned) :: live). split; [exact W'|]. split.
    + intros b [<-|Hb]; [reflexivity|apply A, Hb].
    + unfold ids in *. cbn [map fst]. perm.
  - destruct (alloc_fail _ _ _ _ W E) as [W' _]. split; [|eapply alloc_next; eauto].
    exists live. auto.
Qed.

Lemma owns_with_oracle : forall o s P, owns (with_oracle o s) P <-> owns s P.
Proof. intros. unfold owns, wf, with_oracle. cbn [log next]. tauto. Qed.

Lemma owns_log_ok : forall s owned, owns s owned -> log_ok (log s) owned = true.
Proof.
  intros s owned (live & (Hl & _ & _) & _ & Hp). unfold log_ok. rewrite Hl.
  apply andb_true_iff. split.
  - apply Nat.eqb_eq. rewrite <- (Permutation_length Hp). unfold ids. now rewrite map_length.
  - apply forallb_forall. intros id Hid. apply existsb_exists.
    apply (Permutation_in _ (Permutation_sym Hp)) in Hid. destruct (In_ids _ _ Hid) as [k Hk].
    exists (id, k). split; [exact Hk|]. cbn. apply Nat.eqb_refl.
Qed.

(* ------------------------------------------------------------------ generic list facts for the array helpers *)
Section ArrayFacts.
  Context {A : Type}.

  Lemma aset_aset_adj : forall (cs : list A) i l r, S i < length cs ->
    aset (aset cs i l) (S i) r = firstn i cs ++ l :: r :: skipn (S (S i)) cs.
  Proof.
    intros cs i. revert cs. induction i as [|i IH]; intros [|a [|b cs]] l r H; cbn [length] in H; try lia.
    - reflexivity.
    - change (aset (a :: b :: cs) (S i) l) with (a :: aset (b :: cs) i l).
      change (aset (a :: aset (b :: cs) i l) (S (S i)) r) with (a :: aset (aset (b :: cs) i l) (S i) r).
      rewrite IH by (cbn [length]; lia). reflexivity.
  Qed.

  Lemma aerase_aset_adj : forall (cs : list A) i m, S i < length cs ->
    aerase (aset cs i m) (S i) = firstn i cs ++ m :: skipn (S (S i)) cs.
  Proof.
    intros cs i. revert cs. induction i as [|i IH]; intros [|a [|b cs]] m H; cbn [length] in H; try lia.
    - reflexivity.
    - change (aset (a :: b :: cs) (S i) m) with (a :: aset (b :: cs) i m).
      change (aerase (a :: aset (b :: cs) i m) (S (S i))) with (a :: aerase (aset (b :: cs) i m) (S i)).
      rewrite IH by (cbn [length]; lia). reflexivity.
  Qed.

  Lemma split_two : forall (cs : list A) i d, S i < length cs ->
    cs = firstn i cs ++ nth i cs d :: nth (S i) cs d :: skipn (S (S i)) cs.
  Proof.
    intros cs i d H. rewrite (firstn_skipn_nth cs i d) at 1 by lia. f_equal. f_equal.
    apply skipn_nth_cons. lia.
  Qed.
End ArrayFacts.

Section AllocInv.
  Variable elt : Type.
  Variable rank : elt -> Z.
  Variable dflt : elt.
  Variables L I : nat.
  Hypothesis HI : I = L / 2.
  Hypothesis HI3 : 3 <= I.
  Variable MH : nat.                  (* ZIX_BTREE_MAX_HEIGHT *)

  Notation anode := (anode elt).
  Notation atree := (atree elt).
  Notation node := (node elt).
  Notation dnode := (@dnode elt).
  Notation adnode := (@adnode elt).
  Notation asc := (@asc elt rank).
  Notation B3 f := (f elt rank dflt) (only parsing).
  Notation B7 f := (f elt rank dflt L I HI HI3) (only parsing).
  Notation E5 f := (f elt rank dflt L I) (only parsing).

  Definition AInv (t : atree) (s : ast) : Prop :=
    Inv rank L I (erase_tree t) /\ owns s (a_self t :: pages (a_root t)).

  (* one public call on the instrumented model; OInsert carries the allocation script in force during the call *)
  Definition astep (ts : atree * ast) (x : BTreeProofsHist.op elt) : atree * ast :=
    let '(t, s) := ts in
    match x with
    | OInsert o e => let '(_, t', s', _) := ainsert_op rank dflt L I MH (with_oracle o s) t e in (t', s')
    | ORemove e => let '(_, _, t', s', _) := aremove_op rank dflt L I s t e in (t', s')
    | OFind _ => (t, s)
    | OClear _ => aclear_op s t
    end.

  (* ---------------------------------------------------------------- pages of lists of subtrees *)
  Definition cpages (cs : list anode) : list nat := concat (map pages cs).

  Lemma pages_inode : forall id vs cs, pages (AInode id vs cs) = id :: cpages cs.
  Proof. reflexivity. Qed.
  Lemma pages_leaf : forall id (vs : list elt), pages (ALeaf id vs) = [id].
  Proof. reflexivity. Qed.
  Lemma cpages_nil : cpages [] = [].
  Proof. reflexivity. Qed.
  Lemma cpages_cons : forall c cs, cpages (c :: cs) = pages c ++ cpages cs.
  Proof. reflexivity. Qed.
  Lemma cpages_app : forall a b, cpages (a ++ b) = cpages a ++ cpages b.
  Proof. intros. unfold cpages. rewrite map_app, concat_app. reflexivity. Qed.

  Lemma cnt_pages_inode : forall id vs cs x, cnt (pages (AInode id vs cs)) x = one id x + cnt (cpages cs) x.
  Proof. intros. rewrite pages_inode, cnt_cons. reflexivity. Qed.
  Lemma cnt_pages_leaf : forall id (vs : list elt) x, cnt (pages (ALeaf id vs)) x = one id x.
  Proof. intros. rewrite pages_leaf, cnt_cons, cnt_nil. lia. Qed.
  Lemma cnt_cpages_nil : forall x, cnt (cpages []) x = 0.
  Proof. reflexivity. Qed.
  Lemma cnt_cpages_cons : forall c cs x, cnt (cpages (c :: cs)) x = cnt (pages c) x + cnt (cpages cs) x.
  Proof. intros. rewrite cpages_cons, cnt_app. reflexivity. Qed.
  Lemma cnt_cpages_app : forall a b x, cnt (cpages (a ++ b)) x = cnt (cpages a) x + cnt (cpages b) x.
  Proof. intros. rewrite cpages_app, cnt_app. reflexivity. Qed.

  Lemma cnt_cpages_split : forall cs i x, i < length cs ->
    cnt (cpages cs) x =
    cnt (cpages (firstn i cs)) x + cnt (pages (nth i cs adnode)) x + cnt (cpages (skipn (S i) cs)) x.
  Proof.
    intros cs i x H. rewrite (firstn_skipn_nth cs i adnode H) at 1.
    rewrite cnt_cpages_app, cnt_cpages_cons. lia.
  Qed.

  Lemma cnt_cpages_split2 : forall cs i x, S i < length cs ->
    cnt (cpages cs) x =
    cnt (cpages (firstn i cs)) x + cnt (pages (nth i cs adnode)) x + cnt (pages (nth (S i) cs adnode)) x +
    cnt (cpages (skipn (S (S i)) cs)) x.
  Proof.
    intros cs i x H. rewrite (split_two cs i adnode H) at 1.
    rewrite cnt_cpages_app, !cnt_cpages_cons. lia.
  Qed.

  Lemma cnt_cpages_aset : forall cs i c x, i < length cs ->
    cnt (cpages (aset cs i c)) x =
    cnt (cpages (firstn i cs)) x + cnt (pages c) x + cnt (cpages (skipn (S i) cs)) x.
  Proof. intros. unfold aset. rewrite cnt_cpages_app, cnt_cpages_cons. lia. Qed.

  Lemma cnt_cpages_aerase : forall cs i x,
    cnt (cpages (aerase cs i)) x = cnt (cpages (firstn i cs)) x + cnt (cpages (skipn (S i) cs)) x.
  Proof. intros. unfold aerase. rewrite cnt_cpages_app. lia. Qed.

  Lemma cnt_cpages_firstn_skipn : forall cs i x,
    cnt (cpages cs) x = cnt (cpages (firstn i cs)) x + cnt (cpages (skipn i cs)) x.
  Proof. intros. rewrite <- (firstn_skipn i cs) at 1. apply cnt_cpages_app. Qed.

  (* induction principle for the nested type *)
  Lemma anode_ind' : forall P : anode -> Prop,
    (forall id vs, P (ALeaf id vs)) ->
    (forall id vs cs, Forall P cs -> P (AInode id vs cs)) ->
    forall n, P n.
  Proof.
    intros P HL HN. fix IH 1. intros [id vs|id vs cs].
    - apply HL.
    - apply HN. induction cs as [|c cs IHcs]; constructor; [apply IH|apply IHcs].
  Qed.

  (* ---------------------------------------------------------------- zix_btree_new *)
  Lemma Inv_erase_empty : forall tid rid, Inv rank L I (erase_tree (mkATree tid (ALeaf rid (@nil elt)) 0%Z)).
  Proof. intros. exact (B7 Inv_empty). Qed.

  Lemma anew_spec : forall o,
    match anew_op (elt := elt) (ast0 o) with
    | (Some t, s) => AInv t s /\ a_self t = 0 /\ aid (a_root t) = 1
    | (None, s) => owns s []
    end.
  Proof.
    intros o. unfold anew_op.
    pose proof (owns_alloc _ _ (owns0 o)) as H1.
    destruct (AllocModel.alloc Aligned (ast0 o)) as [[tid|] s1].
    - destruct H1 as (O1 & -> & N1).
      pose proof (owns_alloc _ _ O1) as H2.
      destruct (AllocModel.alloc Aligned s1) as [[rid|] s2].
      + destruct H2 as (O2 & -> & N2). cbn [ast0 next] in *. rewrite N1 in O2 |- *.
        split; [|split; reflexivity]. split; [apply Inv_erase_empty|].
        cbn [a_self a_root pages]. eapply owns_perm; [exact O2|]. perm.
      + destruct H2 as (O2 & _). apply owns_release. exact O2.
    - destruct H1 as (O1 & _). exact O1.
  Qed.

  (* ---------------------------------------------------------------- zix_btree_free_children / clear / free *)
  Lemma afree_children_frame : forall (n : anode) s R,
    owns s (pages n ++ R) -> owns (afree_children n s) (aid n :: R).
  Proof.
    induction n as [id vs|id vs cs IH] using anode_ind'; intros s R H.
    - exact H.
    - cbn [afree_children aid].
      assert (G : forall cs0, Forall (fun c => forall s R, owns s (pages c ++ R) -> owns (afree_children c s) (aid c :: R)) cs0 ->
                  forall s0 R0, owns s0 (cpages cs0 ++ R0) ->
                  owns (fold_left (fun s' c => release Aligned (aid c) (afree_children c s')) cs0 s0) R0).
      { induction cs0 as [|c cs0 IHc]; intros Hf s0 R0 H0; cbn [fold_left]; [exact H0|].
        pose proof (Forall_inv Hf) as Hc. pose proof (Forall_inv_tail Hf) as Hf'. apply IHc; [exact Hf'|].
        apply owns_release. apply Hc. eapply owns_perm; [exact H0|]. rewrite cpages_cons. perm. }
      apply (G cs IH). eapply owns_perm; [exact H|]. rewrite pages_inode. perm.
  Qed.

  Lemma aclear_inv : forall t s, AInv t s -> let '(t', s') := aclear_op s t in AInv t' s'.
  Proof.
    intros t s [_ O]. unfold aclear_op. split; [apply Inv_erase_empty|].
    cbn [a_self a_root pages].
    eapply owns_perm; [apply (afree_children_frame (a_root t) s [a_self t])|perm].
    eapply owns_perm; [exact O|perm].
  Qed.

  Lemma afree_spec : forall t s, AInv t s -> owns (afree_op s t) [].
  Proof.
    intros t s H. pose proof (aclear_inv t s H) as H1. unfold afree_op.
    destruct (aclear_op s t) as [t1 s1] eqn:E. unfold aclear_op in E.
    apply pair_equal_spec in E as [<- <-]. destruct H1 as [_ O]. cbn [a_self a_root pages aid] in *.
    apply owns_release, owns_release. eapply owns_perm; [exact O|perm].
  Qed.

  (* ---------------------------------------------------------------- shape facts read off the erased page *)
  Lemma awfn_leaf : forall h id (vs : list elt), wfn L I h (erase (ALeaf id vs)) -> h = 1.
  Proof. intros h id vs H. cbn [erase] in H. apply (B7 wfn_leaf_inv) in H. tauto. Qed.

  Lemma awfn_inode : forall h id (vs : list elt) cs, wfn L I h (erase (AInode id vs cs)) ->
    exists h', h = S h' /\ h' <> 0 /\ length cs = S (length vs) /\ (I + 1) / 2 - 1 <= length vs <= I /\
               Forall (fun c => wfn L I h' (erase c)) cs.
  Proof.
    intros h id vs cs H. cbn [erase] in H. apply (B7 wfn_inode_inv) in H as (h' & E & Hn & Hl & Hb & Hf).
    exists h'. rewrite map_length in Hl. apply (proj1 (Forall_map _ _ _)) in Hf. auto.
  Qed.

  Lemma achildren_length_erase : forall n : anode, length (achildren n) = length (children (erase n)).
  Proof. intros. rewrite (E5 achildren_erase), map_length. reflexivity. Qed.

  (* ---------------------------------------------------------------- going down into child j and coming back *)
  Definition rest (n : anode) (j : nat) : list nat := aid n :: cpages (aerase (achildren n) j).

  Lemma focus_get : forall (n : anode) j, ais_leaf n = false -> j < length (achildren n) ->
    Permutation (pages n) (pages (achild n j) ++ rest n j).
  Proof.
    intros [id vs|id vs cs] j Hl Hj; [discriminate|]. unfold rest, achild. cbn [achildren aid] in *.
    apply perm_cnt. intro x. autorewrite with cnt. rewrite cnt_pages_inode, cnt_cpages_aerase.
    rewrite (cnt_cpages_split cs j x Hj). lia.
  Qed.

  Lemma focus_set : forall (n : anode) j c', ais_leaf n = false -> j < length (achildren n) ->
    Permutation (pages (aset_child n j c')) (pages c' ++ rest n j).
  Proof.
    intros [id vs|id vs cs] j c' Hl Hj; [discriminate|]. unfold rest. cbn [achildren aid aset_child] in *.
    apply perm_cnt. intro x. autorewrite with cnt. rewrite cnt_pages_inode, cnt_cpages_aerase.
    rewrite (cnt_cpages_aset cs j c' x Hj). lia.
  Qed.

  (* the same through [aplug]: the parent page may have been released by the merge (no value left) *)
  Definition mpages (n1 : anode) : list nat :=
    match n1 with AInode _ [] cs => cpages cs | _ => pages n1 end.
  Definition prest (n1 : anode) (j : nat) : list nat :=
    match n1 with AInode _ [] cs => cpages (aerase cs j) | _ => rest n1 j end.

  Lemma plug_get : forall (n1 : anode) j, ais_leaf n1 = false -> j < length (achildren n1) ->
    Permutation (mpages n1) (pages (achild n1 j) ++ prest n1 j).
  Proof.
    intros n1 j Hl Hj. destruct n1 as [id vs|id [|v vs] cs]; [discriminate| |apply focus_get; assumption].
    unfold mpages, prest, achild. cbn [achildren] in *.
    apply perm_cnt. intro x. autorewrite with cnt. rewrite cnt_cpages_aerase.
    rewrite (cnt_cpages_split cs j x Hj). lia.
  Qed.

  Lemma plug_set : forall (n1 : anode) j c', ais_leaf n1 = false -> j < length (achildren n1) ->
    (avals n1 = [] -> length (achildren n1) = 1) ->
    Permutation (pages (aplug n1 j c')) (pages c' ++ prest n1 j).
  Proof.
    intros n1 j c' Hl Hj H1. destruct n1 as [id vs|id [|v vs] cs]; [discriminate| |].
    - cbn [aplug prest achildren avals] in *. specialize (H1 eq_refl).
      destruct cs as [|c [|c2 cs]]; cbn [length] in *; try lia. assert (j = 0) by lia. subst j.
      unfold aerase. cbn [firstn skipn app]. rewrite cpages_nil, app_nil_r. apply Permutation_refl.
    - change (aplug (AInode id (v :: vs) cs) j c') with (aset_child (AInode id (v :: vs) cs) j c').
      apply focus_set; assumption.
  Qed.

  (* ---------------------------------------------------------------- zix_btree_split_child *)
  Lemma pages_split_node : forall h rid (c : anode) l m r,
    wfn L I h (erase c) -> asplit_node dflt L I rid c = (l, m, r) ->
    Permutation (pages l ++ pages r) (rid :: pages c).
  Proof.
    intros h rid [id vs|id vs cs] l m r W E; unfold asplit_node in E; cbv beta iota zeta in E;
      apply pair_equal_spec in E as [E <-]; apply pair_equal_spec in E as [<- _].
    - apply perm_cnt. intro x. autorewrite with cnt. rewrite !cnt_pages_leaf. lia.
    - apply awfn_inode in W as (h' & _ & _ & Hl & Hb & _).
      unfold an_vals, amax_vals. cbn [avals ais_leaf].
      rewrite (firstn_all2 (n := I - length vs / 2 - 1 + 1) (skipn (length vs / 2 + 1) cs))
        by (rewrite skipn_length; lia).
      apply perm_cnt. intro x. autorewrite with cnt. rewrite !cnt_pages_inode.
      rewrite (cnt_cpages_firstn_skipn cs (length vs / 2 + 1) x). lia.
  Qed.

  Lemma pages_split_child : forall h rid id vs cs i,
    i < length cs -> wfn L I h (erase (nth i cs adnode)) ->
    Permutation (pages (asplit_child dflt L I rid (AInode id vs cs) i)) (rid :: pages (AInode id vs cs)).
  Proof.
    intros h rid id vs cs i Hi W. unfold asplit_child.
    destruct (asplit_node dflt L I rid (nth i cs adnode)) as [[l m] r] eqn:E.
    pose proof (pages_split_node h rid _ l m r W E) as Hp.
    rewrite (B7 ainsert_aset) by exact Hi.
    apply perm_cnt. intro x. perm_hyps x. autorewrite with cnt in *. rewrite !cnt_pages_inode.
    rewrite cnt_cpages_app, !cnt_cpages_cons. rewrite (cnt_cpages_split cs i x Hi). lia.
  Qed.

  (* ---------------------------------------------------------------- rotations: the pages only change owner *)
  Lemma pages_rotate_left : forall h id vs cs i, S i < length cs ->
    wfn L I h (erase (nth i cs adnode)) -> wfn L I h (erase (nth (S i) cs adnode)) ->
    Permutation (pages (arotate_left dflt (AInode id vs cs) i)) (pages (AInode id vs cs)).
  Proof.
    intros h id vs cs i Hi Wl Wr. unfold arotate_left.
    destruct (nth i cs adnode) as [lid lv|lid lv lc] eqn:El; destruct (nth (S i) cs adnode) as [rid rv|rid rv rc] eqn:Er;
      try apply Permutation_refl.
    - rewrite aset_aset_adj by exact Hi. apply perm_cnt. intro x. rewrite !cnt_pages_inode.
      rewrite (cnt_cpages_split2 cs i x Hi), El, Er. rewrite cnt_cpages_app, !cnt_cpages_cons, !cnt_pages_leaf. lia.
    - apply awfn_inode in Wr as (h' & _ & _ & Hlr & _ & _).
      destruct rc as [|c0 rc]; [cbn [length] in Hlr; lia|].
      rewrite aset_aset_adj by exact Hi. change (aerase (c0 :: rc) 0) with rc. cbn [nth].
      apply perm_cnt. intro x. rewrite !cnt_pages_inode.
      rewrite (cnt_cpages_split2 cs i x Hi), El, Er.
      rewrite cnt_cpages_app, !cnt_cpages_cons, !cnt_pages_inode, cnt_cpages_app, !cnt_cpages_cons, cnt_cpages_nil. lia.
  Qed.

  Lemma pages_rotate_right : forall h id vs cs j, S j < length cs ->
    wfn L I h (erase (nth j cs adnode)) -> wfn L I h (erase (nth (S j) cs adnode)) ->
    Permutation (pages (arotate_right dflt (AInode id vs cs) (S j))) (pages (AInode id vs cs)).
  Proof.
    intros h id vs cs j Hj Wl Wr. unfold arotate_right. replace (S j - 1) with j by lia.
    destruct (nth j cs adnode) as [lid lv|lid lv lc] eqn:El; destruct (nth (S j) cs adnode) as [rid rv|rid rv rc] eqn:Er;
      try apply Permutation_refl.
    - rewrite aset_aset_adj by exact Hj. apply perm_cnt. intro x. rewrite !cnt_pages_inode.
      rewrite (cnt_cpages_split2 cs j x Hj), El, Er. rewrite cnt_cpages_app, !cnt_cpages_cons, !cnt_pages_leaf. lia.
    - apply awfn_inode in Wl as (h' & _ & _ & Hll & Hbl & _).
      assert (H1 : 1 <= length lv) by lia.
      rewrite aset_aset_adj by exact Hj.
      apply perm_cnt. intro x. rewrite !cnt_pages_inode.
      rewrite (cnt_cpages_split2 cs j x Hj), El, Er.
      rewrite cnt_cpages_app, !cnt_cpages_cons, !cnt_pages_inode, !cnt_cpages_cons.
      replace (length lv - 1 + 1) with (length lv) by lia.
      rewrite (cnt_cpages_split lc (length lv) x) by lia.
      rewrite (skipn_all2 (n := S (length lv)) lc) by lia. rewrite cnt_cpages_nil. lia.
  Qed.

  (* ---------------------------------------------------------------- zix_btree_merge *)
  Lemma merge_owns : forall s id (vs : list elt) cs i m rid R,
    S i < length cs -> length cs = S (length vs) ->
    Permutation (rid :: pages m) (pages (nth i cs adnode) ++ pages (nth (S i) cs adnode)) ->
    owns s (pages (AInode id vs cs) ++ R) ->
    owns (release Aligned rid (match aerase vs i with [] => release Aligned id s | _ :: _ => s end))
         (mpages (AInode id (aerase vs i) (aerase (aset cs i m) (S i))) ++ R) /\
    length (aerase (aset cs i m) (S i)) = S (length (aerase vs i)).
  Proof.
    intros s id vs cs i m rid R Hi Hl Hm O.
    assert (Hlen : length (aerase (aset cs i m) (S i)) = S (length (aerase vs i))).
    { rewrite !length_aerase; rewrite ?length_aset; lia. }
    assert (Hp : Permutation (pages (AInode id vs cs)) (rid :: id :: cpages (aerase (aset cs i m) (S i)))).
    { rewrite aerase_aset_adj by exact Hi. apply perm_cnt. intro x. perm_hyps x. autorewrite with cnt in *.
      rewrite cnt_pages_inode, cnt_cpages_app, cnt_cpages_cons. rewrite (cnt_cpages_split2 cs i x Hi). lia. }
    clear Hm. split; [|exact Hlen].
    destruct (aerase vs i) as [|v vs'] eqn:Ev.
    - cbn [mpages]. apply owns_release, owns_release. eapply owns_perm; [exact O|]. perm.
    - cbn [mpages]. rewrite pages_inode. apply owns_release. eapply owns_perm; [exact O|]. perm.
  Qed.

  Lemma amerge_frame : forall h s id vs cs i n1 s1 R,
    S i < length cs -> length cs = S (length vs) ->
    wfn L I h (erase (nth i cs adnode)) -> wfn L I h (erase (nth (S i) cs adnode)) ->
    amerge dflt s (AInode id vs cs) i = (n1, s1) ->
    owns s (pages (AInode id vs cs) ++ R) ->
    owns s1 (mpages n1 ++ R) /\ ais_leaf n1 = false /\ length (achildren n1) = S (length (avals n1)).
  Proof.
    intros h s id vs cs i n1 s1 R Hi Hl Wl Wr E O. unfold amerge in E. cbv zeta in E.
    destruct (nth i cs adnode) as [lid lv|lid lv lc] eqn:El; destruct (nth (S i) cs adnode) as [rid rv|rid rv rc] eqn:Er.
    2:{ exfalso. apply awfn_leaf in Wl. apply awfn_inode in Wr as (h' & E' & Hn & _). lia. }
    2:{ exfalso. apply awfn_leaf in Wr. apply awfn_inode in Wl as (h' & E' & Hn & _). lia. }
    - apply pair_equal_spec in E as [<- <-]. cbn [aid ais_leaf achildren avals].
      destruct (merge_owns s id vs cs i (ALeaf lid (lv ++ nth i vs dflt :: rv)) rid R Hi Hl) as [O1 Hlen]; auto.
      rewrite El, Er. apply perm_cnt. intro x. autorewrite with cnt. rewrite !cnt_pages_leaf. lia.
    - apply pair_equal_spec in E as [<- <-]. cbn [aid ais_leaf achildren avals].
      destruct (merge_owns s id vs cs i (AInode lid (lv ++ nth i vs dflt :: rv) (lc ++ rc)) rid R Hi Hl) as [O1 Hlen]; auto.
      rewrite El, Er. apply perm_cnt. intro x. autorewrite with cnt. rewrite !cnt_pages_inode, cnt_cpages_app. lia.
  Qed.

  (* ---------------------------------------------------------------- frames around a child *)
  Lemma descend_frame : forall s (n1 : anode) j R, ais_leaf n1 = false -> j < length (achildren n1) ->
    owns s (pages n1 ++ R) -> owns s (pages (achild n1 j) ++ (rest n1 j ++ R)).
  Proof. intros s n1 j R Hl Hj O. pose proof (focus_get n1 j Hl Hj). eapply owns_perm; [exact O|perm]. Qed.

  Lemma ascend_frame : forall s (n1 : anode) j c' R, ais_leaf n1 = false -> j < length (achildren n1) ->
    owns s (pages c' ++ (rest n1 j ++ R)) -> owns s (pages (aset_child n1 j c') ++ R).
  Proof. intros s n1 j c' R Hl Hj O. pose proof (focus_set n1 j c' Hl Hj). eapply owns_perm; [exact O|perm]. Qed.

  Lemma descend_plug : forall s (n1 : anode) j R, ais_leaf n1 = false -> j < length (achildren n1) ->
    owns s (mpages n1 ++ R) -> owns s (pages (achild n1 j) ++ (prest n1 j ++ R)).
  Proof. intros s n1 j R Hl Hj O. pose proof (plug_get n1 j Hl Hj). eapply owns_perm; [exact O|perm]. Qed.

  Lemma ascend_plug : forall s (n1 : anode) j c' R, ais_leaf n1 = false -> j < length (achildren n1) ->
    (avals n1 = [] -> length (achildren n1) = 1) ->
    owns s (pages c' ++ (prest n1 j ++ R)) -> owns s (pages (aplug n1 j c') ++ R).
  Proof. intros s n1 j c' R Hl Hj H1 O. pose proof (plug_set n1 j c' Hl Hj H1). eapply owns_perm; [exact O|perm]. Qed.

  (* the erased child of a page whose erasure is known *)
  Lemma erase_child_of : forall (n1 : anode) vs1 cs1 j, erase n1 = Inode vs1 cs1 ->
    erase (achild n1 j) = nth j cs1 dnode /\ ais_leaf n1 = false /\ length (achildren n1) = length cs1.
  Proof.
    intros n1 vs1 cs1 j E. rewrite <- (E5 achild_erase), achildren_length_erase, <- (E5 ais_leaf_erase), E.
    repeat split.
  Qed.

  (* ---------------------------------------------------------------- zix_btree_insert: the descent *)
  Lemma ainsert_down_frame : forall f s (n : anode) e R,
    kids_ok L I f (erase n) -> n_vals (erase n) < max_vals L I (erase n) -> asc (elements (erase n)) ->
    owns s (pages n ++ R) ->
    let '(st, n', s', lg) := ainsert_down rank dflt L I f s n e in owns s' (pages n' ++ R).
  Proof.
    induction f as [|f IH]; intros s n e R Hk Hnf Ha O; [destruct n; destruct Hk|].
    destruct n as [id vs|id vs cs]; cbn [ainsert_down].
    - destruct (find_value dflt (cmpk rank e) vs) as [[i eq] lg]. destruct eq; exact O.
    - cbn [erase] in Hk, Hnf, Ha.
      pose proof Hk as (Hf0 & Hl & Hfa).
      assert (Hav : asc vs) by (apply (B3 asc_vals vs (map erase cs)); assumption).
      pose proof (B3 find_value_spec (cmpk rank e) vs (B3 cmpk_mono e vs Hav)) as Hfv.
      destruct (find_value dflt (cmpk rank e) vs) as [[i eq] lg] eqn:Efv.
      destruct Hfv as (Hi & _). rewrite map_length in Hl.
      destruct eq; [exact O|].
      pose proof (B7 kids_ok_child f vs (map erase cs) i Hk Hi) as Hc.
      destruct (ais_full L I (nth i cs adnode)) eqn:Efull.
      + pose proof (owns_alloc _ _ O) as HA. destruct (AllocModel.alloc Aligned s) as [[rid|] s1].
        2:{ exact (proj1 HA). }
        destruct HA as (O1 & _ & _).
        rewrite <- (E5 ais_full_erase), <- (E5 nth_erase) in Efull.
        assert (Hfull : n_vals (nth i (map erase cs) dnode) = max_vals L I (nth i (map erase cs) dnode))
          by (unfold is_full in Efull; apply Nat.eqb_eq in Efull; exact Efull).
        destruct (split_node dflt L I (nth i (map erase cs) dnode)) as [[l m] r] eqn:Esp.
        pose proof (B7 split_child_spec f vs (map erase cs) i l m r Hk Hi Hfull Esp) as Hs. cbv zeta in Hs.
        destruct Hs as (Hsc & Hel & Hk1 & Hni & Hni1 & Hlnf & Hrnf & Hm).
        set (cs1 := firstn i (map erase cs) ++ l :: r :: skipn (S i) (map erase cs)) in *.
        set (vs1 := ainsert vs i m) in *.
        assert (Hlv1 : length vs1 = S (length vs)) by (unfold vs1; apply length_ainsert; lia).
        set (n1 := asplit_child dflt L I rid (AInode id vs cs) i).
        assert (En1 : erase n1 = Inode vs1 cs1) by (unfold n1; rewrite (E5 erase_split_child); exact Hsc).
        assert (Hp1 : Permutation (pages n1) (rid :: pages (AInode id vs cs))).
        { apply pages_split_child with (h := f); [lia|]. rewrite <- (E5 nth_erase). exact Hc. }
        assert (Ha1 : asc (elements (Inode vs1 cs1))) by (rewrite Hel; exact Ha).
        pose proof Hk1 as (_ & Hl1 & _).
        assert (O1' : owns s1 (pages n1 ++ R)) by (eapply owns_perm; [exact O1|perm]).
        assert (Rec : forall j, j <= length vs1 -> n_vals (nth j cs1 dnode) < max_vals L I (nth j cs1 dnode) ->
                  let '(st, c', s2, lg2) := ainsert_down rank dflt L I f s1 (achild n1 j) e in
                  owns s2 (pages (aset_child n1 j c') ++ R)).
        { intros j Hj Hnfj. destruct (erase_child_of n1 vs1 cs1 j En1) as (Ec & Hlf & Hlen).
          pose proof (B7 kids_ok_child f vs1 cs1 j Hk1 Hj) as Wj.
          assert (Hjl : j < length (achildren n1)) by lia.
          pose proof (IH s1 (achild n1 j) e (rest n1 j ++ R)) as H. rewrite Ec in H.
          specialize (H (B7 wfn_kids_ok _ _ Wj) Hnfj (B3 asc_child vs1 cs1 j Hl1 Hj Ha1)
                        (descend_frame s1 n1 j R Hlf Hjl O1')).
          destruct (ainsert_down rank dflt L I f s1 (achild n1 j) e) as [[[st c'] s2] lg2].
          apply ascend_frame; assumption. }
        destruct (cmpk rank e (nth i (avals n1) dflt)).
        * exact O1'.
        * pose proof (Rec (i + 1) ltac:(lia) ltac:(rewrite Hni1; exact Hrnf)) as H.
          destruct (ainsert_down rank dflt L I f s1 (achild n1 (i + 1)) e) as [[[st c'] s2] lg2]. exact H.
        * pose proof (Rec i ltac:(lia) ltac:(rewrite Hni; exact Hlnf)) as H.
          destruct (ainsert_down rank dflt L I f s1 (achild n1 i) e) as [[[st c'] s2] lg2]. exact H.
      + rewrite <- (E5 ais_full_erase), <- (E5 nth_erase) in Efull.
        pose proof (IH s (nth i cs adnode) e (rest (AInode id vs cs) i ++ R)) as H.
        rewrite <- (E5 nth_erase) in H.
        specialize (H (B7 wfn_kids_ok _ _ Hc) (B7 not_full_lt _ _ Hc Efull)
                      (B3 asc_child vs (map erase cs) i ltac:(rewrite map_length; exact Hl) Hi Ha)
                      (descend_frame s (AInode id vs cs) i R eq_refl ltac:(cbn [achildren]; lia) O)).
        destruct (ainsert_down rank dflt L I f s (nth i cs adnode) e) as [[[st c'] s2] lg2].
        apply (ascend_frame s2 (AInode id vs cs) i c' R eq_refl); [cbn [achildren]; lia|exact H].
  Qed.

  (* ---------------------------------------------------------------- zix_btree_grow_up / zix_btree_insert *)
  Lemma agrow_up_frame : forall h s (r : anode) R,
    wfn L I h (erase r) -> owns s (pages r ++ R) ->
    let '(st, r', s') := agrow_up dflt L I MH s r in
    owns s' (pages r' ++ R) /\ (st <> SUCCESS -> r' = r).
  Proof.
    intros h s r R W O. unfold agrow_up.
    destruct (MH <=? aheight r); [split; [exact O|reflexivity]|].
    pose proof (owns_alloc _ _ O) as H1. destruct (AllocModel.alloc Aligned s) as [[nid|] s1].
    2:{ split; [exact (proj1 H1)|reflexivity]. }
    destruct H1 as (O1 & _ & _).
    pose proof (owns_alloc _ _ O1) as H2. destruct (AllocModel.alloc Aligned s1) as [[rid|] s2].
    - destruct H2 as (O2 & _ & _). split; [|intros H; contradiction].
      pose proof (pages_split_child h rid nid [] [r] 0 ltac:(cbn [length]; lia) W) as Hp.
      rewrite pages_inode, cpages_cons, cpages_nil in Hp.
      eapply owns_perm; [exact O2|perm].
    - split; [|reflexivity]. apply owns_release. exact (proj1 H2).
  Qed.

  Lemma ainsert_owns : forall t s e, AInv t s ->
    let '(st, t', s', lg) := ainsert_op rank dflt L I MH s t e in owns s' (a_self t' :: pages (a_root t')).
  Proof.
    intros t s e [HInv O]. destruct HInv as ([h Hr] & Ha & Hsz). cbn [erase_tree root] in *.
    pose proof Hr as (Hk & Hn & Hge).
    assert (O' : owns s (pages (a_root t) ++ [a_self t])) by (eapply owns_perm; [exact O|perm]).
    assert (Fin : forall h0 s0 (r0 : anode), kids_ok L I h0 (erase r0) -> n_vals (erase r0) < max_vals L I (erase r0) ->
              elements (erase r0) = elements (erase (a_root t)) -> owns s0 (pages r0 ++ [a_self t]) ->
              let '(st, t', s', lg) :=
                (let '(st, r1, s1, lg) := ainsert_down rank dflt L I (aheight r0) s0 r0 e in
                 (st, mkATree (a_self t) r1 (match st with SUCCESS => Z.succ (a_size t) | _ => a_size t end), s1, lg)) in
              owns s' (a_self t' :: pages (a_root t'))).
    { intros h0 s0 r0 Hk0 Hnf0 Hel0 O0.
      rewrite <- (E5 aheight_erase), (B7 kids_ok_height h0 _ Hk0).
      pose proof (ainsert_down_frame h0 s0 r0 e [a_self t] Hk0 Hnf0 ltac:(rewrite Hel0; exact Ha) O0) as H.
      destruct (ainsert_down rank dflt L I h0 s0 r0 e) as [[[st r1] s1] lg]. cbn [a_self a_root].
      eapply owns_perm; [exact H|perm]. }
    unfold ainsert_op. destruct (ais_full L I (a_root t)) eqn:Efull.
    - rewrite <- (E5 ais_full_erase) in Efull.
      assert (Hfull : n_vals (erase (a_root t)) = max_vals L I (erase (a_root t)))
        by (unfold is_full in Efull; apply Nat.eqb_eq in Efull; exact Efull).
      assert (Hw : wfn L I h (erase (a_root t))).
      { apply (B7 wfn_iff). split; [assumption|]. pose proof (B7 min_max_vals (erase (a_root t))). lia. }
      pose proof (agrow_up_frame h s (a_root t) [a_self t] Hw O') as HG.
      pose proof (E5 erase_grow_up MH s (a_root t)) as EG.
      destruct (agrow_up dflt L I MH s (a_root t)) as [[st0 r0] s0]. destruct HG as [O0 Hsame].
      destruct (B7 grow_up_spec MH h (oracle s) (erase (a_root t)) st0 (erase r0) (oracle s0) Hr Efull EG)
        as (_ & _ & [[-> _]|[(-> & _)|(-> & _ & Hk0 & Hn0 & Hl0 & _ & Hel0)]]).
      + rewrite (Hsame ltac:(discriminate)) in O0. eapply owns_perm; [exact O0|perm].
      + rewrite (Hsame ltac:(discriminate)) in O0. eapply owns_perm; [exact O0|perm].
      + apply (Fin (S h)); auto. rewrite Hn0. unfold max_vals. rewrite Hl0. lia.
    - apply (Fin h); auto.
      rewrite <- (E5 ais_full_erase) in Efull. unfold is_full in Efull. apply Nat.eqb_neq in Efull. lia.
  Qed.

  Lemma ainsert_inv : forall t s e, AInv t s ->
    let '(st, t', s', lg) := ainsert_op rank dflt L I MH s t e in AInv t' s'.
  Proof.
    intros t s e H. pose proof (ainsert_owns t s e H) as HO.
    pose proof (E5 erase_insert MH s t e) as HE.
    pose proof (B7 insert_refines MH (oracle s) (erase_tree t) e (proj1 H)) as HR.
    destruct (ainsert_op rank dflt L I MH s t e) as [[[st t'] s'] lg].
    rewrite HE in HR. split; [exact (proj1 HR)|exact HO].
  Qed.

  (* ---------------------------------------------------------------- removal: one restructuring step *)
  (* the parent n1 (possibly already released by the merge: [mpages]) is ready for the descent into child j *)
  Definition step_ok (h : nat) (s : ast) (n1 : anode) (j : nat) (R : list nat) : Prop :=
    ais_leaf n1 = false /\ j < length (achildren n1) /\ (avals n1 = [] -> length (achildren n1) = 1) /\
    wfn L I h (erase (achild n1 j)) /\ min_vals L I (erase (achild n1 j)) < n_vals (erase (achild n1 j)) /\
    owns s (mpages n1 ++ R).

  Lemma mpages_eq : forall n1 : anode, 1 <= length (avals n1) -> mpages n1 = pages n1.
  Proof. intros [id vs|id [|v vs] cs] H; cbn [avals length] in H; try lia; reflexivity. Qed.

  Lemma aplug_eq : forall (n1 : anode) j c, 1 <= length (avals n1) -> aplug n1 j c = aset_child n1 j c.
  Proof. intros [id vs|id [|v vs] cs] j c H; cbn [avals length] in H; try lia; reflexivity. Qed.

  Lemma PK_achild : forall h vs (cs : list anode) i, PK L I h vs (map erase cs) -> i <= length vs ->
    wfn L I h (erase (nth i cs adnode)).
  Proof. intros h vs cs i HP Hi. rewrite <- (E5 nth_erase). apply (B7 PK_child h vs); assumption. Qed.

  Lemma acan_true : forall n : anode, acan_remove_from L I n = true -> min_vals L I (erase n) < n_vals (erase n).
  Proof. intros n H. rewrite <- (E5 acan_remove_from_erase) in H. apply (B7 can_remove_true). exact H. Qed.

  Lemma acan_false : forall h (n : anode), wfn L I h (erase n) -> acan_remove_from L I n = false ->
    n_vals (erase n) = min_vals L I (erase n).
  Proof. intros h n W H. rewrite <- (E5 acan_remove_from_erase) in H. apply (B7 can_remove_false h); assumption. Qed.

  Lemma step_direct : forall h s id vs cs i R,
    PK L I h vs (map erase cs) -> i <= length vs -> 1 <= length vs ->
    acan_remove_from L I (nth i cs adnode) = true ->
    owns s (pages (AInode id vs cs) ++ R) -> step_ok h s (AInode id vs cs) i R.
  Proof.
    intros h s id vs cs i R HP Hi H1 Hc O. pose proof HP as [Hl _]. rewrite map_length in Hl.
    unfold step_ok, achild. cbn [ais_leaf achildren avals].
    split; [reflexivity|]. split; [lia|]. split; [intros E; rewrite E in H1; cbn in H1; lia|].
    split; [apply (PK_achild h vs); assumption|]. split; [apply acan_true; assumption|].
    rewrite mpages_eq by exact H1. exact O.
  Qed.

  Lemma step_rotl : forall h s id vs cs i R,
    PK L I h vs (map erase cs) -> i < length vs ->
    acan_remove_from L I (nth (S i) cs adnode) = true -> acan_remove_from L I (nth i cs adnode) = false ->
    owns s (pages (AInode id vs cs) ++ R) ->
    step_ok h s (arotate_left dflt (AInode id vs cs) i) i R /\
    1 <= length (avals (arotate_left dflt (AInode id vs cs) i)).
  Proof.
    intros h s id vs cs i R HP Hi Hr Hl0 O. pose proof HP as [Hl _].
    pose proof (PK_achild h vs cs i HP ltac:(lia)) as Wl. pose proof (PK_achild h vs cs (S i) HP ltac:(lia)) as Wr.
    pose proof (acan_true _ Hr) as Hr'. pose proof (acan_false h _ Wl Hl0) as Hl'.
    pose proof (B7 min_lt_max (erase (nth i cs adnode))) as Hmm.
    rewrite <- (E5 nth_erase) in Hr', Hl', Hmm.
    destruct (B7 rotate_left_spec h vs (map erase cs) i HP Hi Hr' ltac:(lia))
      as (x & l' & r' & Er & Wl' & Wr' & Nl & Nr & _).
    set (n1 := arotate_left dflt (AInode id vs cs) i).
    assert (En1 : erase n1 = Inode (aset vs i x) (aset (aset (map erase cs) i l') (S i) r'))
      by (unfold n1; rewrite (E5 erase_rotate_left); exact Er).
    destruct (erase_child_of n1 _ _ i En1) as (Ec & Hlf & Hlen).
    rewrite nth_aset_neq in Ec by (rewrite ?length_aset; lia). rewrite nth_aset_eq in Ec by lia.
    rewrite !length_aset in Hlen by (rewrite ?length_aset; lia).
    assert (Hv : length (avals n1) = length vs).
    { rewrite <- (E5 avals_erase), En1. cbn [vals]. apply length_aset. lia. }
    rewrite map_length in Hl.
    split; [|lia]. unfold step_ok. rewrite Ec.
    split; [exact Hlf|]. split; [rewrite map_length in Hlen; lia|].
    split; [intros E; rewrite E in Hv; cbn in Hv; lia|]. split; [exact Wl'|].
    split.
    - rewrite <- (E5 nth_erase) in Wl. destruct (B7 wfn_same_kind h l' _ Wl' Wl) as [Em _]. lia.
    - rewrite mpages_eq by lia. pose proof (pages_rotate_left h id vs cs i ltac:(lia) Wl Wr) as Hp.
      fold n1 in Hp. eapply owns_perm; [exact O|perm].
  Qed.

  Lemma step_rotr : forall h s id vs cs j R,
    PK L I h vs (map erase cs) -> j < length vs ->
    acan_remove_from L I (nth j cs adnode) = true -> acan_remove_from L I (nth (S j) cs adnode) = false ->
    owns s (pages (AInode id vs cs) ++ R) ->
    step_ok h s (arotate_right dflt (AInode id vs cs) (S j)) (S j) R /\
    1 <= length (avals (arotate_right dflt (AInode id vs cs) (S j))).
  Proof.
    intros h s id vs cs j R HP Hj Hl0 Hr0 O. pose proof HP as [Hl _].
    pose proof (PK_achild h vs cs j HP ltac:(lia)) as Wl. pose proof (PK_achild h vs cs (S j) HP ltac:(lia)) as Wr.
    pose proof (acan_true _ Hl0) as Hl'. pose proof (acan_false h _ Wr Hr0) as Hr'.
    pose proof (B7 min_lt_max (erase (nth (S j) cs adnode))) as Hmm.
    rewrite <- (E5 nth_erase) in Hr', Hl', Hmm.
    destruct (B7 rotate_right_spec h vs (map erase cs) j HP Hj Hl' ltac:(lia))
      as (x & l' & r' & Er & Wl' & Wr' & Nr & Nl & _).
    set (n1 := arotate_right dflt (AInode id vs cs) (S j)).
    assert (En1 : erase n1 = Inode (aset vs j x) (aset (aset (map erase cs) j l') (S j) r'))
      by (unfold n1; rewrite (E5 erase_rotate_right); exact Er).
    destruct (erase_child_of n1 _ _ (S j) En1) as (Ec & Hlf & Hlen).
    rewrite nth_aset_eq in Ec by (rewrite ?length_aset; lia).
    rewrite !length_aset in Hlen by (rewrite ?length_aset; lia).
    assert (Hv : length (avals n1) = length vs).
    { rewrite <- (E5 avals_erase), En1. cbn [vals]. apply length_aset. lia. }
    rewrite map_length in Hl.
    split; [|lia]. unfold step_ok. rewrite Ec.
    split; [exact Hlf|]. split; [rewrite map_length in Hlen; lia|].
    split; [intros E; rewrite E in Hv; cbn in Hv; lia|]. split; [exact Wr'|].
    split.
    - rewrite <- (E5 nth_erase) in Wr. destruct (B7 wfn_same_kind h r' _ Wr' Wr) as [Em _]. lia.
    - rewrite mpages_eq by lia. pose proof (pages_rotate_right h id vs cs j ltac:(lia) Wl Wr) as Hp.
      fold n1 in Hp. eapply owns_perm; [exact O|perm].
  Qed.

  Lemma step_merge : forall h s id vs cs i n1 s1 R,
    PK L I h vs (map erase cs) -> i < length vs ->
    acan_remove_from L I (nth i cs adnode) = false -> acan_remove_from L I (nth (S i) cs adnode) = false ->
    amerge dflt s (AInode id vs cs) i = (n1, s1) ->
    owns s (pages (AInode id vs cs) ++ R) ->
    step_ok h s1 n1 i R /\ length (avals n1) = length vs - 1 /\
    (asc (elements (Inode vs (map erase cs))) -> asc (elements (erase (achild n1 i)))).
  Proof.
    intros h s id vs cs i n1 s1 R HP Hi Hl0 Hr0 E O. pose proof HP as [Hl _].
    pose proof (PK_achild h vs cs i HP ltac:(lia)) as Wl. pose proof (PK_achild h vs cs (S i) HP ltac:(lia)) as Wr.
    pose proof (acan_false h _ Wl Hl0) as Hl'. pose proof (acan_false h _ Wr Hr0) as Hr'.
    rewrite <- (E5 nth_erase) in Hr', Hl'.
    destruct (B7 merge_spec h vs (map erase cs) i HP Hi Hl' Hr') as (m & Em & Wm & Nm & Eem).
    destruct (E5 erase_merge_pair s _ i n1 s1 E) as [En1 _]. cbn [erase] in En1. rewrite Em in En1.
    destruct (erase_child_of n1 _ _ i En1) as (Ec & Hlf & Hlen).
    rewrite (B7 nth_aerase_lt) in Ec by lia. rewrite nth_aset_eq in Ec by lia.
    rewrite length_aerase, length_aset in Hlen by (rewrite ?length_aset; lia).
    rewrite map_length in Hl.
    destruct (amerge_frame h s id vs cs i n1 s1 R ltac:(lia) Hl Wl Wr E O) as (O1 & _ & Hla).
    assert (Hv : length (avals n1) = length vs - 1).
    { rewrite <- (E5 avals_erase), En1. cbn [vals]. apply length_aerase. lia. }
    split; [|split; [exact Hv|]].
    - unfold step_ok. rewrite Ec.
      split; [exact Hlf|]. split; [lia|]. split; [intros E0; rewrite Hla, E0; reflexivity|].
      split; [exact Wm|]. split; [exact Nm|exact O1].
    - intros Ha. rewrite Ec, Eem.
      rewrite (B7 elements_split2 vs (map erase cs) i) in Ha by (rewrite ?map_length; lia).
      apply (B3 asc_app) in Ha as (_ & Ha & _). rewrite (B7 app_mid_assoc) in Ha.
      apply (B3 asc_app) in Ha as (Ha & _). exact Ha.
  Qed.

  (* consuming a step: the recursive call on child j, then [aplug] *)
  Lemma step_use : forall h s (n1 : anode) j R s' (c' : anode),
    step_ok h s n1 j R -> owns s' (pages c' ++ (prest n1 j ++ R)) -> owns s' (pages (aplug n1 j c') ++ R).
  Proof. intros h s n1 j R s' c' (Hlf & Hj & H1 & _) O. apply ascend_plug; assumption. Qed.

  Lemma step_down : forall h s (n1 : anode) j R,
    step_ok h s n1 j R -> owns s (pages (achild n1 j) ++ (prest n1 j ++ R)).
  Proof. intros h s n1 j R (Hlf & Hj & _ & _ & _ & O). apply descend_plug; assumption. Qed.

  (* ---------------------------------------------------------------- zix_btree_remove_min / remove_max *)
  Lemma aremove_min_frame : forall h s (n : anode) R,
    wfn L I h (erase n) -> min_vals L I (erase n) < n_vals (erase n) -> owns s (pages n ++ R) ->
    let '(m, n', s') := aremove_min dflt L I h s n in owns s' (pages n' ++ R).
  Proof.
    induction h as [|h IH]; intros s n R W Hc O; [exact (False_ind _ W)|].
    destruct n as [id vs|id vs cs]; [exact O|].
    cbn [erase] in W, Hc. apply (B7 wfn_inode_inv) in W as (h' & Eh & Hn & Hl & Bd & Hf). injection Eh as <-.
    assert (HP : PK L I h vs (map erase cs)) by (split; assumption).
    assert (H2 : 2 <= length vs) by (unfold min_vals, max_vals, n_vals in Hc; cbn [is_leaf vals] in Hc; lia).
    assert (Use : forall j s1 (n1 : anode), step_ok h s1 n1 j R ->
              let '(m, c', s2) := aremove_min dflt L I h s1 (achild n1 j) in owns s2 (pages (aplug n1 j c') ++ R)).
    { intros j s1 n1 St. pose proof (IH s1 (achild n1 j) (prest n1 j ++ R)) as H.
      pose proof (step_down _ _ _ _ _ St) as Od. pose proof St as (_ & _ & _ & Wc & Nc & _).
      specialize (H Wc Nc Od). destruct (aremove_min dflt L I h s1 (achild n1 j)) as [[m c'] s2].
      eapply step_use; eauto. }
    cbn [aremove_min].
    destruct (acan_remove_from L I (nth 0 cs adnode)) eqn:E0.
    - pose proof (Use 0 s _ (step_direct h s id vs cs 0 R HP ltac:(lia) ltac:(lia) E0 O)) as H.
      unfold achild in H. cbn [achildren] in H.
      destruct (aremove_min dflt L I h s (nth 0 cs adnode)) as [[m c'] s1].
      rewrite aplug_eq in H by (cbn [avals]; lia). exact H.
    - destruct (acan_remove_from L I (nth 1 cs adnode)) eqn:E1.
      + destruct (step_rotl h s id vs cs 0 R HP ltac:(lia) E1 E0 O) as [St Hv]. pose proof (Use 0 s _ St) as H.
        destruct (aremove_min dflt L I h s (achild (arotate_left dflt (AInode id vs cs) 0) 0)) as [[m c'] s1].
        rewrite aplug_eq in H by exact Hv. exact H.
      + destruct (amerge dflt s (AInode id vs cs) 0) as [n1 s0] eqn:Em.
        destruct (step_merge h s id vs cs 0 n1 s0 R HP ltac:(lia) E0 E1 Em O) as (St & _ & _).
        pose proof (Use 0 s0 n1 St) as H.
        destruct (aremove_min dflt L I h s0 (achild n1 0)) as [[m c'] s1]. exact H.
  Qed.

  Lemma aremove_max_frame : forall h s (n : anode) R,
    wfn L I h (erase n) -> min_vals L I (erase n) < n_vals (erase n) -> owns s (pages n ++ R) ->
    let '(m, n', s') := aremove_max dflt L I h s n in owns s' (pages n' ++ R).
  Proof.
    induction h as [|h IH]; intros s n R W Hc O; [exact (False_ind _ W)|].
    destruct n as [id vs|id vs cs]; [exact O|].
    cbn [erase] in W, Hc. apply (B7 wfn_inode_inv) in W as (h' & Eh & Hn & Hl & Bd & Hf). injection Eh as <-.
    assert (HP : PK L I h vs (map erase cs)) by (split; assumption).
    assert (H2 : 2 <= length vs) by (unfold min_vals, max_vals, n_vals in Hc; cbn [is_leaf vals] in Hc; lia).
    assert (Use : forall j s1 (n1 : anode), step_ok h s1 n1 j R ->
              let '(m, c', s2) := aremove_max dflt L I h s1 (achild n1 j) in owns s2 (pages (aplug n1 j c') ++ R)).
    { intros j s1 n1 St. pose proof (IH s1 (achild n1 j) (prest n1 j ++ R)) as H.
      pose proof (step_down _ _ _ _ _ St) as Od. pose proof St as (_ & _ & _ & Wc & Nc & _).
      specialize (H Wc Nc Od). destruct (aremove_max dflt L I h s1 (achild n1 j)) as [[m c'] s2].
      eapply step_use; eauto. }
    cbn [aremove_max]. cbv zeta.
    assert (Ez : length vs = S (length vs - 1)) by lia.
    set (y := length vs - 1) in *. rewrite Ez.
    destruct (acan_remove_from L I (nth (S y) cs adnode)) eqn:E0.
    - pose proof (Use (S y) s _ (step_direct h s id vs cs (S y) R HP ltac:(lia) ltac:(lia) E0 O)) as H.
      unfold achild in H. cbn [achildren] in H.
      destruct (aremove_max dflt L I h s (nth (S y) cs adnode)) as [[m c'] s1].
      rewrite aplug_eq in H by (cbn [avals]; lia). exact H.
    - destruct (acan_remove_from L I (nth y cs adnode)) eqn:E1.
      + destruct (step_rotr h s id vs cs y R HP ltac:(lia) E1 E0 O) as [St Hv]. pose proof (Use (S y) s _ St) as H.
        destruct (aremove_max dflt L I h s (achild (arotate_right dflt (AInode id vs cs) (S y)) (S y))) as [[m c'] s1].
        rewrite aplug_eq in H by exact Hv. exact H.
      + destruct (amerge dflt s (AInode id vs cs) y) as [n1 s0] eqn:Em.
        destruct (step_merge h s id vs cs y n1 s0 R HP ltac:(lia) E1 E0 Em O) as (St & _ & _).
        pose proof (Use y s0 n1 St) as H.
        destruct (aremove_max dflt L I h s0 (achild n1 y)) as [[m c'] s1]. exact H.
  Qed.

  (* ---------------------------------------------------------------- zix_btree_fatten_child *)
  Lemma step_fatten : forall h s id vs cs i n1 i' s1 R,
    PK L I h vs (map erase cs) -> i <= length vs -> 1 <= length vs ->
    acan_remove_from L I (nth i cs adnode) = false ->
    afatten_child dflt L I s (AInode id vs cs) i = (n1, i', s1) ->
    owns s (pages (AInode id vs cs) ++ R) -> step_ok h s1 n1 i' R.
  Proof.
    intros h s id vs cs i n1 i' s1 R HP Hi H1 Hc E O.
    unfold afatten_child, achild, an_vals in E. cbn [achildren avals] in E. rewrite Nat.add_1_r in E.
    destruct ((0 <? i) && acan_remove_from L I (nth (i - 1) cs adnode)) eqn:EA.
    { apply andb_true_iff in EA as [E0 EA]. apply Nat.ltb_lt in E0. destruct i as [|j]; [lia|].
      replace (S j - 1) with j in EA by lia.
      apply pair_equal_spec in E as [E <-]. apply pair_equal_spec in E as [<- <-].
      apply (step_rotr h s id vs cs j R HP ltac:(lia) EA Hc O). }
    destruct ((i <? length vs) && acan_remove_from L I (nth (S i) cs adnode)) eqn:EB.
    { apply andb_true_iff in EB as [E0 EB]. apply Nat.ltb_lt in E0.
      apply pair_equal_spec in E as [E <-]. apply pair_equal_spec in E as [<- <-].
      apply (step_rotl h s id vs cs i R HP E0 EB Hc O). }
    destruct (i =? length vs) eqn:EC.
    { apply Nat.eqb_eq in EC. destruct i as [|j]; [lia|]. replace (S j - 1) with j in * by lia.
      apply andb_false_iff in EA as [EA|EA]; [apply Nat.ltb_ge in EA; lia|].
      destruct (amerge dflt s (AInode id vs cs) j) as [n2 s2] eqn:Em.
      apply pair_equal_spec in E as [E <-]. apply pair_equal_spec in E as [<- <-].
      apply (step_merge h s id vs cs j n2 s2 R HP ltac:(lia) EA Hc Em O). }
    { apply Nat.eqb_neq in EC. assert (Hi' : i < length vs) by lia.
      apply andb_false_iff in EB as [EB|EB]; [apply Nat.ltb_ge in EB; lia|].
      destruct (amerge dflt s (AInode id vs cs) i) as [n2 s2] eqn:Em.
      apply pair_equal_spec in E as [E <-]. apply pair_equal_spec in E as [<- <-].
      apply (step_merge h s id vs cs i n2 s2 R HP Hi' Hc EB Em O). }
  Qed.

  (* ---------------------------------------------------------------- zix_btree_replace_value *)
  Lemma areplace_value_frame : forall h s id vs cs i R,
    PK L I h vs (map erase cs) -> i < length vs -> owns s (pages (AInode id vs cs) ++ R) ->
    match areplace_value dflt L I h s (AInode id vs cs) i with
    | (Some (out, n'), s') => owns s' (pages n' ++ R)
    | (None, s') => s' = s /\ acan_remove_from L I (nth i cs adnode) = false /\
                    acan_remove_from L I (nth (S i) cs adnode) = false
    end.
  Proof.
    intros h s id vs cs i R HP Hi O. pose proof HP as [Hl _]. rewrite map_length in Hl.
    pose proof (PK_achild h vs cs i HP ltac:(lia)) as Wl. pose proof (PK_achild h vs cs (S i) HP ltac:(lia)) as Wr.
    unfold areplace_value, achild. cbn [achildren avals]. rewrite Nat.add_1_r.
    destruct (negb (acan_remove_from L I (nth i cs adnode)) && negb (acan_remove_from L I (nth (S i) cs adnode))) eqn:En.
    { apply andb_true_iff in En as [E1 E2]. apply negb_true_iff in E1, E2. auto. }
    assert (Hcan : min_vals L I (erase (nth i cs adnode)) < n_vals (erase (nth i cs adnode)) \/
                   min_vals L I (erase (nth (S i) cs adnode)) < n_vals (erase (nth (S i) cs adnode))).
    { apply andb_false_iff in En as [E|E]; apply negb_false_iff in E; apply acan_true in E; auto. }
    destruct (B7 wfn_same_kind h _ _ Wl Wr) as [Hk _].
    pose proof (B7 wfn_bounds h _ Wl) as Bl. pose proof (B7 wfn_bounds h _ Wr) as Br.
    rewrite <- !(E5 an_vals_erase).
    destruct (if n_vals (erase (nth (S i) cs adnode)) <? n_vals (erase (nth i cs adnode)) then true
              else if n_vals (erase (nth i cs adnode)) <? n_vals (erase (nth (S i) cs adnode)) then false
                   else Nat.odd i) eqn:Eum.
    - assert (Hcl : min_vals L I (erase (nth i cs adnode)) < n_vals (erase (nth i cs adnode))).
      { destruct (n_vals (erase (nth (S i) cs adnode)) <? n_vals (erase (nth i cs adnode))) eqn:E1;
          [apply Nat.ltb_lt in E1; lia|].
        destruct (n_vals (erase (nth i cs adnode)) <? n_vals (erase (nth (S i) cs adnode))) eqn:E2; [discriminate|].
        apply Nat.ltb_ge in E1, E2. lia. }
      pose proof (aremove_max_frame h s (nth i cs adnode) (rest (AInode id vs cs) i ++ R) Wl Hcl
                    (descend_frame s (AInode id vs cs) i R eq_refl ltac:(cbn [achildren]; lia) O)) as H.
      destruct (aremove_max dflt L I h s (nth i cs adnode)) as [[m c'] s1].
      change (pages (AInode id (aset vs i m) (aset cs i c'))) with (pages (aset_child (AInode id vs cs) i c')).
      apply ascend_frame; [reflexivity|cbn [achildren]; lia|exact H].
    - assert (Hcr : min_vals L I (erase (nth (S i) cs adnode)) < n_vals (erase (nth (S i) cs adnode))).
      { destruct (n_vals (erase (nth (S i) cs adnode)) <? n_vals (erase (nth i cs adnode))) eqn:E1; [discriminate|].
        destruct (n_vals (erase (nth i cs adnode)) <? n_vals (erase (nth (S i) cs adnode))) eqn:E2;
          [apply Nat.ltb_lt in E2; lia|].
        apply Nat.ltb_ge in E1, E2. lia. }
      pose proof (aremove_min_frame h s (nth (S i) cs adnode) (rest (AInode id vs cs) (S i) ++ R) Wr Hcr
                    (descend_frame s (AInode id vs cs) (S i) R eq_refl ltac:(cbn [achildren]; lia) O)) as H.
      destruct (aremove_min dflt L I h s (nth (S i) cs adnode)) as [[m c'] s1].
      change (pages (AInode id (aset vs i m) (aset cs (S i) c'))) with (pages (aset_child (AInode id vs cs) (S i) c')).
      apply ascend_frame; [reflexivity|cbn [achildren]; lia|exact H].
  Qed.

  (* ---------------------------------------------------------------- zix_btree_remove: the descent *)
  Lemma aremove_down_frame : forall h s (n : anode) e R,
    kids_ok L I h (erase n) -> asc (elements (erase n)) -> strong elt L I (erase n) ->
    owns s (pages n ++ R) ->
    let r := aremove_down rank dflt L I h s n e in owns (ar_ast r) (pages (ar_node r) ++ R).
  Proof.
    induction h as [|h IH]; intros s n e R Hk Hasc Hs O; [exact (False_ind _ Hk)|].
    destruct n as [id vs|id vs cs]; cbv zeta.
    - cbn [aremove_down]. destruct (find_value dflt (cmpk rank e) vs) as [[i eq] lg].
      destruct eq; cbn [negb]; [|exact O].
      destruct (length (aerase vs i) =? 0); [exact O|]. destruct (i =? length (aerase vs i)); exact O.
    - cbn [erase] in Hk, Hasc, Hs. cbn [kids_ok] in Hk. destruct Hk as (Hh & Hl & Hf).
      assert (HP : PK L I h vs (map erase cs)) by (split; assumption).
      assert (Hvs : 1 <= length vs) by (cbn [strong] in Hs; lia).
      assert (Hlc : length cs = S (length vs)) by (rewrite map_length in Hl; exact Hl).
      pose proof (B3 cmpk_mono e _ Hasc) as Hmono.
      pose proof (B3 find_value_spec (cmpk rank e) vs (B3 mono_vals _ vs (map erase cs) Hl Hmono)) as Hfv.
      assert (Rec : forall j s1 (n1 : anode), step_ok h s1 n1 j R -> asc (elements (erase (achild n1 j))) ->
                let r := aremove_down rank dflt L I h s1 (achild n1 j) e in
                owns (ar_ast r) (pages (aplug n1 j (ar_node r)) ++ R)).
      { intros j s1 n1 St Ha1. cbv zeta. pose proof St as (_ & _ & _ & Wc & Nc & _).
        pose proof (IH s1 (achild n1 j) e (prest n1 j ++ R) (B7 wfn_kids_ok _ _ Wc) Ha1
                      (B7 strong_of_min h _ Wc Nc) (step_down _ _ _ _ _ St)) as H. cbv zeta in H.
        eapply step_use; eauto. }
      cbn [aremove_down].
      destruct (find_value dflt (cmpk rank e) vs) as [[i eq] lg].
      destruct Hfv as (Hi & Ht & _).
      destruct eq.
      + destruct (Ht eq_refl) as [Hi' _].
        pose proof (areplace_value_frame h s id vs cs i R HP Hi' O) as Hrv.
        destruct (areplace_value dflt L I h s (AInode id vs cs) i) as [[[out n']|] s1].
        * cbn [ar_ast ar_node]. exact Hrv.
        * destruct Hrv as (-> & Ec0 & Ec1).
          destruct (amerge dflt s (AInode id vs cs) i) as [n1 s2] eqn:Em.
          destruct (step_merge h s id vs cs i n1 s2 R HP Hi' Ec0 Ec1 Em O) as (St & _ & Ha1).
          cbn [ar_ast ar_node]. apply (Rec i s2 n1 St (Ha1 Hasc)).
      + destruct (acan_remove_from L I (nth i cs adnode)) eqn:Ec.
        * cbn [ar_ast ar_node].
          pose proof (step_direct h s id vs cs i R HP Hi Hvs Ec O) as St.
          pose proof (Rec i s _ St) as H. unfold achild in H. cbn [achildren] in H.
          rewrite <- (E5 nth_erase) in H.
          specialize (H (B3 asc_child vs (map erase cs) i Hl Hi Hasc)).
          cbv zeta in H. rewrite aplug_eq in H by (cbn [avals]; lia). exact H.
        * destruct (afatten_child dflt L I s (AInode id vs cs) i) as [[n1 i'] s1] eqn:Ef.
          pose proof (step_fatten h s id vs cs i n1 i' s1 R HP Hi Hvs Ec Ef O) as St.
          pose proof (E5 erase_fatten_child s (AInode id vs cs) i) as HE. rewrite Ef in HE. destruct HE as [HE _].
          cbn [erase] in HE.
          rewrite <- (E5 acan_remove_from_erase), <- (E5 nth_erase) in Ec.
          destruct (B7 fatten_child_spec h vs (map erase cs) i HP Hi Hs Ec)
            as (vs1 & cs1 & i'' & Ef' & HP1 & Hi'' & H1 & Hlen & Hmin & Eel & _).
          rewrite HE in Ef'. apply pair_equal_spec in Ef' as [En1 <-].
          destruct (erase_child_of n1 vs1 cs1 i' En1) as (Ec1 & _ & _).
          cbn [ar_ast ar_node]. apply (Rec i' s1 n1 St). rewrite Ec1.
          apply (B3 asc_child vs1 cs1 i'); [destruct HP1; assumption|exact Hi''|rewrite Eel; exact Hasc].
  Qed.

  (* ---------------------------------------------------------------- zix_btree_remove *)
  Lemma pre_root_erase : forall n : anode,
    pre_root elt dflt L I (erase n) =
    if negb (ais_leaf n) && (an_vals n =? 1) && negb (acan_remove_from L I (achild n 0))
       && negb (acan_remove_from L I (achild n 1))
    then child (merge dflt (erase n) 0) 0 else erase n.
  Proof.
    intros. unfold pre_root.
    rewrite (E5 ais_leaf_erase), (E5 an_vals_erase), !(E5 achild_erase), !(E5 acan_remove_from_erase). reflexivity.
  Qed.

  Lemma aremove_owns : forall t s e, AInv t s ->
    let '(st, out, t', s', lg) := aremove_op rank dflt L I s t e in owns s' (a_self t' :: pages (a_root t')).
  Proof.
    intros t s e [HInv O]. destruct HInv as ([h Hr] & Hasc & Hsz). cbn [erase_tree root] in *.
    destruct (B7 pre_root_spec h (erase (a_root t)) Hr Hasc) as (h0 & Hk0 & Hmax0 & Hs0 & Eel0 & _).
    assert (O' : owns s (pages (a_root t) ++ [a_self t])) by (eapply owns_perm; [exact O|perm]).
    unfold aremove_op. cbv zeta.
    assert (Pre : exists n0 s0,
              (if negb (ais_leaf (a_root t)) && (an_vals (a_root t) =? 1)
                  && negb (acan_remove_from L I (achild (a_root t) 0))
                  && negb (acan_remove_from L I (achild (a_root t) 1))
               then let '(n1, s1) := amerge dflt s (a_root t) 0 in (achild n1 0, s1)
               else (a_root t, s)) = (n0, s0) /\
              erase n0 = pre_root elt dflt L I (erase (a_root t)) /\ owns s0 (pages n0 ++ [a_self t])).
    { rewrite pre_root_erase.
      destruct (negb (ais_leaf (a_root t)) && (an_vals (a_root t) =? 1)
                && negb (acan_remove_from L I (achild (a_root t) 0))
                && negb (acan_remove_from L I (achild (a_root t) 1))) eqn:E.
      2:{ exists (a_root t), s. auto. }
      apply andb_true_iff in E as [E E3]. apply andb_true_iff in E as [E E2]. apply andb_true_iff in E as [E0 E1].
      destruct (a_root t) as [id vs|id vs cs]; [discriminate|].
      apply Nat.eqb_eq in E1. apply negb_true_iff in E2, E3.
      unfold achild in E2, E3. unfold an_vals in E1. cbn [achildren avals] in *.
      destruct Hr as (Hk & _). cbn [erase] in Hk. destruct h as [|h]; [exact (False_ind _ Hk)|].
      cbn [kids_ok] in Hk. destruct Hk as (Hh & Hl & Hf).
      assert (HP : PK L I h vs (map erase cs)) by (split; assumption).
      destruct (amerge dflt s (AInode id vs cs) 0) as [n1 s1] eqn:Em.
      destruct (step_merge h s id vs cs 0 n1 s1 [a_self t] HP ltac:(lia) E2 E3 Em O') as (St & Hv & _).
      destruct (E5 erase_merge_pair s _ 0 n1 s1 Em) as [En1 _].
      exists (achild n1 0), s1. split; [reflexivity|]. split.
      - rewrite <- (E5 achild_erase), En1. reflexivity.
      - pose proof (step_down _ _ _ _ _ St) as Od. destruct St as (Hlf & _ & H1 & _).
        destruct n1 as [id1 vs1|id1 [|v1 vs1] cs1]; [discriminate| |cbn [avals length] in Hv; lia].
        cbn [avals achildren] in H1. specialize (H1 eq_refl).
        destruct cs1 as [|c1 [|c2 cs1]]; cbn [length] in H1; try lia.
        exact Od. }
    destruct Pre as (n0 & s0 & -> & En0 & O0).
    rewrite <- En0 in Hk0, Hs0, Eel0.
    pose proof (aremove_down_frame h0 s0 n0 e [a_self t] Hk0 ltac:(rewrite Eel0; exact Hasc) Hs0 O0) as H.
    cbv zeta in H. rewrite <- (E5 aheight_erase), (B7 kids_ok_height h0 _ Hk0).
    cbn [a_self a_root]. eapply owns_perm; [exact H|perm].
  Qed.

  Lemma aremove_inv : forall t s e, AInv t s ->
    let '(st, out, t', s', lg) := aremove_op rank dflt L I s t e in AInv t' s'.
  Proof.
    intros t s e H. pose proof (aremove_owns t s e H) as HO.
    pose proof (E5 erase_remove s t e) as HE.
    pose proof (B7 remove_refines (erase_tree t) e (proj1 H)) as HR.
    destruct (aremove_op rank dflt L I s t e) as [[[[st out] t'] s'] lg].
    destruct HE as (it & HE & _). rewrite HE in HR. split; [exact (proj1 HR)|exact HO].
  Qed.

  (* ---------------------------------------------------------------- histories *)
  Lemma astep_inv : forall ts x, AInv (fst ts) (snd ts) -> AInv (fst (astep ts x)) (snd (astep ts x)).
  Proof.
    intros [t s] x H. cbn [fst snd] in H. destruct x as [o e|e|e|d]; cbn [astep].
    - assert (H' : AInv t (with_oracle o s)).
      { destruct H as [H1 H2]. split; [exact H1|]. apply owns_with_oracle. exact H2. }
      pose proof (ainsert_inv t (with_oracle o s) e H') as HI0.
      destruct (ainsert_op rank dflt L I MH (with_oracle o s) t e) as [[[st t'] s'] lg]. exact HI0.
    - pose proof (aremove_inv t s e H) as HR.
      destruct (aremove_op rank dflt L I s t e) as [[[[st out] t'] s'] lg]. exact HR.
    - exact H.
    - pose proof (aclear_inv t s H) as HC. destruct (aclear_op s t) as [t' s']. exact HC.
  Qed.

  Lemma arun_inv : forall ops ts, AInv (fst ts) (snd ts) ->
    AInv (fst (fold_left astep ops ts)) (snd (fold_left astep ops ts)).
  Proof.
    induction ops as [|x ops IH]; intros ts H; cbn [fold_left]; [exact H|].
    apply IH. apply astep_inv. exact H.
  Qed.

  Theorem btree_alloc_history : forall o0 ops,
    match anew_op (elt := elt) (ast0 o0) with
    | (None, s) => log_ok (log s) [] = true
    | (Some t, s) =>
        let '(t', s') := fold_left astep ops (t, s) in
        AInv t' s' /\
        log_ok (log s') (a_self t' :: pages (a_root t')) = true /\
        NoDup (a_self t' :: pages (a_root t')) /\
        log_ok (log (afree_op s' t')) [] = true
    end.
  Proof.
    intros o0 ops. pose proof (anew_spec o0) as HN.
    destruct (anew_op (elt := elt) (ast0 o0)) as [[t|] s].
    - destruct HN as (HA & _ & _).
      pose proof (arun_inv ops (t, s) HA) as HR.
      destruct (fold_left astep ops (t, s)) as [t' s']. cbn [fst snd] in HR.
      split; [exact HR|]. split; [apply owns_log_ok; exact (proj2 HR)|].
      split; [exact (owns_NoDup _ _ (proj2 HR))|].
      apply owns_log_ok. apply afree_spec. exact HR.
    - apply owns_log_ok. exact HN.
  Qed.

End AllocInv.
