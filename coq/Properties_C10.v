(* C10 — property theorems only (see PathDecSpec.v for the C++17 model, PathDecModel.v for the
   model of /repo/src/path.c). *)
From Coq Require Import ZArith List Bool.
From Zix Require Import PathDecSpec PathDecModel.
Import ListNotations.
Local Open Scope Z_scope.

Theorem root_name_eq : forall s v, zix_path_root_name s = Ok v -> view_text s v = std_root_name s.
Proof. intros s v [= <-]. reflexivity. Qed.
Print Assumptions root_name_eq.
