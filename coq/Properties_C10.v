(* C10 — Path decomposition and queries follow the C++17 std::filesystem::path model.
   Property theorems only.  PathDecSpec.v is the C++17 model (written from the standard, validated
   against libstdc++ by the check); PathDecModel.v follows /repo/src/path.c (POSIX branch) as index
   scans over a bounds-checked accessor, so a call returns `Ok` only if it read nothing outside the
   NUL-terminated input and every loop stopped.  All theorems are for ALL strings s : list Z. *)
From Coq Require Import ZArith List Bool.
From Zix Require Import PathDecSpec PathDecModel PathDecProofs.
Import ListNotations.
Local Open Scope Z_scope.

(* -- no byte outside the NUL-terminated input is read (no Oob), every loop terminates (no NoFuel):
      each of the 8 decomposition calls and of the 10 queries (on a string and on NULL) returns Ok *)
Theorem path_reads_in_bounds : forall s,
  (forall x, In x (zix_views s) -> exists v, x = Ok v) /\
  (forall x, In x (zix_query_calls (Some s)) -> exists b, x = Ok b) /\
  (forall x, In x (zix_query_calls None) -> exists b, x = Ok b).
Proof. exact L_reads_in_bounds. Qed.
Print Assumptions path_reads_in_bounds.

(* -- identical text for names and relative path *)
Theorem root_name_eq : forall s v, zix_path_root_name s = Ok v -> view_text s v = std_root_name s.
Proof. exact L_root_name_eq. Qed.
Print Assumptions root_name_eq.

Theorem relative_path_eq : forall s v,
  zix_path_relative_path s = Ok v -> view_text s v = std_relative_path s.
Proof. exact L_relative_path_eq. Qed.
Print Assumptions relative_path_eq.

Theorem filename_eq : forall s v, zix_path_filename s = Ok v -> view_text s v = std_filename s.
Proof. exact L_filename_eq. Qed.
Print Assumptions filename_eq.

Theorem stem_eq : forall s v, zix_path_stem s = Ok v -> view_text s v = std_stem s.
Proof. exact L_stem_eq. Qed.
Print Assumptions stem_eq.

Theorem extension_eq : forall s v, zix_path_extension s = Ok v -> view_text s v = std_extension s.
Proof. exact L_extension_eq. Qed.
Print Assumptions extension_eq.

(* -- the same path (std operator==: same root-directory flag, same elements) for root and parent *)
Theorem root_directory_equiv : forall s v,
  zix_path_root_directory s = Ok v -> path_equiv (view_text s v) (std_root_directory s).
Proof. exact L_root_directory_equiv. Qed.
Print Assumptions root_directory_equiv.

Theorem root_path_equiv : forall s v,
  zix_path_root_path s = Ok v -> path_equiv (view_text s v) (std_root_path s).
Proof. exact L_root_path_equiv. Qed.
Print Assumptions root_path_equiv.

Theorem parent_path_equiv : forall s v,
  zix_path_parent_path s = Ok v -> as_path (view_text s v) = std_parent_path s.
Proof. exact L_parent_path_equiv. Qed.
Print Assumptions parent_path_equiv.

(* -- the ten queries give the C++17 answers (no_nul: a C string has no NUL byte inside; it is
      needed only by has_relative_path, which tests `path[root.end] != 0`), NULL = the empty path *)
Theorem queries_eq : forall s, no_nul s -> zix_queries (Some s) = Ok (std_queries s).
Proof. exact L_queries_eq. Qed.
Print Assumptions queries_eq.

Theorem queries_null_eq : zix_queries None = Ok (std_queries []).
Proof. exact zix_queries_null. Qed.
Print Assumptions queries_null_eq.

(* -- has_X is true exactly when the view X returns is non-empty *)
Theorem has_x_iff_nonempty : forall s,
  (forall b v, zix_path_has_root_name (Some s) = Ok b -> zix_path_root_name s = Ok v ->
               (b = true <-> view_text s v <> [])) /\
  (forall b v, zix_path_has_root_directory (Some s) = Ok b -> zix_path_root_directory s = Ok v ->
               (b = true <-> view_text s v <> [])) /\
  (forall b v, zix_path_has_root_path (Some s) = Ok b -> zix_path_root_path s = Ok v ->
               (b = true <-> view_text s v <> [])) /\
  (forall b v, no_nul s -> zix_path_has_relative_path (Some s) = Ok b -> zix_path_relative_path s = Ok v ->
               (b = true <-> view_text s v <> [])) /\
  (forall b v, zix_path_has_parent_path (Some s) = Ok b -> zix_path_parent_path s = Ok v ->
               (b = true <-> view_text s v <> [])) /\
  (forall b v, zix_path_has_filename (Some s) = Ok b -> zix_path_filename s = Ok v ->
               (b = true <-> view_text s v <> [])) /\
  (forall b v, zix_path_has_stem (Some s) = Ok b -> zix_path_stem s = Ok v ->
               (b = true <-> view_text s v <> [])) /\
  (forall b v, zix_path_has_extension (Some s) = Ok b -> zix_path_extension s = Ok v ->
               (b = true <-> view_text s v <> [])).
Proof. exact L_has_iff. Qed.
Print Assumptions has_x_iff_nonempty.

(* -- filename is stem followed by extension *)
Theorem filename_is_stem_extension : forall s f st ex,
  zix_path_filename s = Ok f -> zix_path_stem s = Ok st -> zix_path_extension s = Ok ex ->
  view_text s f = view_text s st ++ view_text s ex.
Proof. exact L_filename_is_stem_extension. Qed.
Print Assumptions filename_is_stem_extension.

(* -- every returned view is a slice of the input (root_name is the empty view zix_empty_string()),
      and every index range computed inside satisfies 0 <= begin <= end <= len *)
Theorem views_are_slices : forall s v, In (Ok v) (zix_views s) -> view_in_input s v.
Proof. exact L_views_are_slices. Qed.
Print Assumptions views_are_slices.

Theorem ranges_in_bounds : forall s r,
  In (Ok r) [root_path_range (Some s); parent_path_range s; filename_range s; stem_range s;
             extension_range s] \/
  (exists n, root_slices (Some s) = Ok (n, r)) ->
  0 <= rbegin r <= rend r /\ rend r <= slen s.
Proof. exact L_ranges_in_bounds. Qed.
Print Assumptions ranges_in_bounds.

(* -- the hypotheses are satisfiable and the statements are not vacuous: a worked string
      "//a//.b.c" (leading and repeated separators, a leading-dot name with an extension) *)
Example witness_string :
  let s := [47; 47; 97; 47; 47; 46; 98; 46; 99] in
  no_nul s /\
  zix_path_parent_path s = Ok (InInput 1 2) /\ zix_path_filename s = Ok (InInput 5 4) /\
  zix_path_stem s = Ok (InInput 5 2) /\ zix_path_extension s = Ok (InInput 7 2) /\
  std_parent_path s = (true, [[97]]) /\ std_stem s = [46; 98] /\ std_extension s = [46; 99] /\
  zix_queries (Some s) = Ok [true; false; true; true; true; true; true; true; true; false].
Proof.
  cbv zeta. repeat split; try reflexivity. intros [H|[H|[H|[H|[H|[H|[H|[H|[H|[]]]]]]]]]]; discriminate.
Qed.

(* reading just past the NUL is what the accessor refuses: the bounds theorem is not vacuous *)
Example accessor_refuses_past_nul : rdr [97; 46] 3 = Oob /\ rdr [97; 46] (-1) = Oob /\ rdr [97; 46] 2 = Ok 0.
Proof. repeat split. Qed.
