(* C03: abstract specification of the hash table = a finite map from keys to records,
   kept as an association list without duplicate keys.  Nothing here mentions slots,
   probing, tombstones or table sizes.  Definitions only. *)
From Coq Require Import ZArith List Bool Permutation.
Import ListNotations.
Local Open Scope Z_scope.

(* a record as the user sees it: the key it yields and its identity (the pointer) *)
Definition rec := (Z * Z)%type.
Definition rkey (r : rec) : Z := fst r.
Definition rid (r : rec) : Z := snd r.

Definition rec_eqb (a b : rec) : bool := (rkey a =? rkey b) && (rid a =? rid b).

Inductive hstatus := SUCCESS | EXISTS | NO_MEM | NOT_FOUND.

(* ---- the map *)
Definition smap := list rec.

Definition spec_find (k : Z) (m : smap) : option rec :=
  find (fun r => rkey r =? k) m.

Definition spec_insert (r : rec) (m : smap) : hstatus * smap :=
  match spec_find (rkey r) m with
  | Some _ => (EXISTS, m)
  | None => (SUCCESS, r :: m)
  end.

Definition spec_remove (k : Z) (m : smap) : option rec * smap :=
  match spec_find k m with
  | Some r => (Some r, filter (fun r' => negb (rkey r' =? k)) m)
  | None => (None, m)
  end.

Definition spec_size (m : smap) : Z := Z.of_nat (length m).

Definition smap_ok (m : smap) : Prop := NoDup (map rkey m).

(* ---- the API vocabulary: calls and what they return (iterators are opaque: `Some i` / `None` = end) *)
Inductive op :=
| OInsert (r : rec)        (* zix_hash_insert *)
| OPlan (k : Z)            (* zix_hash_plan_insert, then zix_hash_record_at *)
| OPlanPre (k : Z)         (* zix_hash_plan_insert_prehashed with the key's code and "equals k", then record_at *)
| OInsertAt (r : rec)      (* zix_hash_insert_at with the plan of the latest OPlan/OPlanPre *)
| OFind (k : Z)            (* zix_hash_find, then zix_hash_get unless end *)
| OFindRec (k : Z)         (* zix_hash_find_record *)
| ORemove (k : Z)          (* zix_hash_remove *)
| OErase (k : Z)           (* i = zix_hash_find k; zix_hash_erase i unless i is end *)
| OSize                    (* zix_hash_size *)
| OIter.                   (* begin, then get/next until end *)

Inductive oresult :=
| RStatus (s : hstatus)
| RPlan (code idx : Z) (at_ : option rec)
| RFind (it : option Z) (r : option rec)
| RRec (r : option rec)
| RRemoved (s : hstatus) (r : option rec)
| RSize (z : Z)
| RIter (l : list (Z * option rec))
| RSkipped.                (* OInsertAt without a valid plan: outside the documented contract, not executed *)

(* What the property allows a call to return in map state [m], and the map afterwards.
   [pk] is the key of the currently valid insertion plan (None: no valid plan).
   States are compared as sets (Permutation): iteration order is free.  NO_MEM is allowed only as
   "nothing stored" on insertion; on removal the record is gone whatever the status of the
   shrink that follows (SUCCESS or NO_MEM). *)
Definition spec_ok (m : smap) (pk : option Z) (o : op) (res : oresult) (m' : smap) : Prop :=
  match o with
  | OInsert r =>
      match spec_find (rkey r) m with
      | Some _ => res = RStatus EXISTS /\ m' = m
      | None => (res = RStatus SUCCESS /\ Permutation m' (r :: m)) \/ (res = RStatus NO_MEM /\ m' = m)
      end
  | OPlan k | OPlanPre k =>
      m' = m /\ exists c i, res = RPlan c i (spec_find k m)
  | OInsertAt r =>
      match pk with
      | Some k =>
          if rkey r =? k then
            match spec_find (rkey r) m with
            | Some _ => res = RStatus EXISTS /\ m' = m
            | None => (res = RStatus SUCCESS /\ Permutation m' (r :: m)) \/ (res = RStatus NO_MEM /\ m' = m)
            end
          else res = RSkipped /\ m' = m
      | None => res = RSkipped /\ m' = m
      end
  | OFind k =>
      m' = m /\ exists it, res = RFind it (spec_find k m) /\ (it = None <-> spec_find k m = None)
  | OFindRec k => m' = m /\ res = RRec (spec_find k m)
  | ORemove k | OErase k =>
      match spec_find k m with
      | Some r => (res = RRemoved SUCCESS (Some r) \/ res = RRemoved NO_MEM (Some r)) /\ Permutation m (r :: m')
      | None => res = RRemoved NOT_FOUND None /\ m' = m
      end
  | OSize => m' = m /\ res = RSize (spec_size m)
  | OIter =>
      m' = m /\ exists l, res = RIter l /\ NoDup (map fst l) /\ Permutation (map snd l) (map Some m)
  end.

(* which plan is valid after a call: a plan stays valid "until the hash table is modified" *)
Definition next_pk (pk : option Z) (o : op) (res : oresult) : option Z :=
  match o, res with
  | OPlan k, _ | OPlanPre k, _ => Some k
  | OInsert _, RStatus SUCCESS | OInsertAt _, RStatus SUCCESS => None
  | ORemove _, RRemoved NOT_FOUND _ | OErase _, RRemoved NOT_FOUND _ => pk
  | ORemove _, _ | OErase _, _ => None
  | _, _ => pk
  end.

(* a whole history of calls and results is one the map allows *)
Fixpoint spec_run (m : smap) (pk : option Z) (cs : list op) (rs : list oresult) : Prop :=
  match cs, rs with
  | [], [] => True
  | c :: cs', r :: rs' => exists m', spec_ok m pk c r m' /\ spec_run m' (next_pk pk c r) cs' rs'
  | _, _ => False
  end.
