(* C06 — property theorems only (ZixTree: balanced sorted (multi)set with stable bidirectional
   iterators).  Model: AvlModel.v (functional model of /repo/src/tree.c); spec: AvlSpec.v (a list of
   (id, data) sorted non-strictly by rank; stable insertion; removal by id).

   Every theorem quantifies over
     rank : elt -> Z      the comparator (any total preorder induced by an integer rank),
     dup                  the duplicate policy given to zix_tree_new,
     ops, o               an arbitrary history of insert/remove/find calls and an arbitrary
                          allocation oracle (which node allocations fail),
   [reach rank dup ops o] being the container state after that history.

   [avl t] (AvlProofs.v):  at every node  stored balance = height right - height left  and
   -1 <= balance <= 1.     [abs st] = (in-order listing of (id, data), serial number of next insert).

   Pointer level: zix_tree_iter_next/prev walk parent pointers in C; this file's model steps on the
   functional tree (tnext/tprev: right/left subtree's extreme, else nearest ancestor entered from
   the other side).  The parent-pointer structure itself (rotate(), relinking in zix_tree_remove,
   the while loops of iter_next/prev) is modelled in AvlHeapModel.v and proved to refine this
   model in Properties_C06_heap.v.  See props/C06.json. *)
From Coq Require Import ZArith List Bool Permutation.
From Zix Require Import AvlSpec AvlModel AvlProofs AvlProofsHeight AvlProofsRemove AvlProofsState
  AvlProofsIter AvlProofsTop.
Import ListNotations.
Local Open Scope Z_scope.

(* every reachable state: BST order (the in-order listing is sorted), every stored balance factor is
   the height difference and within {-1,0,1}, the size field counts the nodes, identities are
   unique; when duplicates are refused no two stored elements compare equal *)
Theorem avl_inv_reachable : forall rank dup ops o,
  let st := reach rank dup ops o in
  sorted rank (elems (root st)) /\ avl (root st) /\ size st = count (root st) /\
  NoDup (ids (root st)) /\ (dup = false -> rank_inj rank (elems (root st))).
Proof. exact reach_inv_explicit. Qed.
Print Assumptions avl_inv_reachable.

(* zix_tree_insert after any history, with any allocation outcome: status, *ti, new listing and
   oracle rest are those of the abstract sorted multiset — EXISTS + the existing element when
   duplicates are refused, NO_MEM + unchanged listing when the allocation fails, otherwise SUCCESS,
   iterator at the new element, listing = stable sorted insertion (new element after its equals) *)
Theorem avl_insert_refines : forall rank dup ops o x o1,
  let st := reach rank dup ops o in
  let '(s, it, st', o2, _) := insert rank dup x o1 st in
  (s, it, abs st', o2) = sp_insert rank dup x o1 (abs st).
Proof. exact reach_insert. Qed.
Print Assumptions avl_insert_refines.

(* zix_tree_remove after any history: the listing afterwards is the listing before minus the node
   with that identity (sremove = filter: relative order and data of every other element unchanged);
   the destroy log is exactly that element *)
Theorem avl_remove_refines : forall rank dup ops o id,
  let st := reach rank dup ops o in
  let '(s, st', dl, _) := remove id st in
  (s, abs st', dl) = sp_remove id (abs st).
Proof. exact reach_remove. Qed.
Print Assumptions avl_remove_refines.

(* iterator stability: the node with identity j still exists and carries the same data after any
   insertion and after the removal of any other node *)
Theorem avl_iter_stable_insert : forall rank dup ops o x o1 j,
  let st := reach rank dup ops o in
  let '(_, _, st', _, _) := insert rank dup x o1 st in
  In j (ids (root st)) -> lookup j (root st') = lookup j (root st).
Proof. exact reach_stable_insert. Qed.
Print Assumptions avl_iter_stable_insert.

Theorem avl_iter_stable_remove : forall rank dup ops o id j,
  let st := reach rank dup ops o in
  let '(_, st', _, _) := remove id st in
  j <> id -> lookup j (root st') = lookup j (root st).
Proof. exact reach_stable_remove. Qed.
Print Assumptions avl_iter_stable_remove.

(* zix_tree_find: NOT_FOUND / null iterator iff no stored element compares equal; otherwise
   SUCCESS and a stored element comparing equal (THE one of the spec when duplicates are refused) *)
Theorem avl_find_refines : forall rank dup ops o x,
  let st := reach rank dup ops o in
  let '(s, it, lg) := tfind rank x st in
  (it = None <-> sfind rank x (elems (root st)) = None) /\
  (s = NOT_FOUND <-> it = None) /\ (s = SUCCESS <-> it <> None) /\
  (forall y, it = Some y -> In y (elems (root st)) /\ irank rank y = rank x) /\
  (dup = false -> it = sfind rank x (elems (root st))) /\
  Z.of_nat (length lg) <= height (root st).
Proof. exact reach_find. Qed.
Print Assumptions avl_find_refines.

(* forward iteration from begin visits exactly the listing, backward iteration from rbegin its
   reverse; begin/rbegin/next/prev are first/last/neighbours in the listing *)
Theorem avl_iter_fwd_bwd : forall rank dup ops o,
  let st := reach rank dup ops o in
  let l := elems (root st) in
  walk_fwd (root st) = map fst l /\ walk_bwd (root st) = rev (map fst l) /\
  leftmost (root st) = sbegin l /\ rightmost (root st) = srbegin l /\
  (forall id, In id (map fst l) -> tnext id (root st) = snext id l /\ tprev id (root st) = sprev id l).
Proof. exact reach_iter. Qed.
Print Assumptions avl_iter_fwd_bwd.

(* destroy runs exactly once for each stored element: the destroy calls of all removals of a
   history plus those of zix_tree_free are a permutation of the successfully inserted elements,
   whose identities are pairwise distinct *)
Theorem avl_destroy_once : forall rank dup ops o,
  let '(fin, evs) := run rank dup ops o init in
  Permutation (destroyed_of evs ++ free_log (root fin)) (inserted_of ops evs) /\
  NoDup (map fst (inserted_of ops evs)).
Proof. exact reach_destroy. Qed.
Print Assumptions avl_destroy_once.

(* balance: fib (h+2) <= n+1 for the height h and size n of every reachable tree
   (h <= log_phi(n+2) - 0.32.. < 1.4405 log2 (n+2)) — and for every AVL-shaped tree *)
Theorem avl_height_fib : forall rank dup ops o,
  let st := reach rank dup ops o in
  Z.of_nat (fib (heightn (root st) + 2)) <= size st + 1.
Proof. exact reach_height_fib. Qed.
Print Assumptions avl_height_fib.

Theorem avl_height_fib_any : forall t, avl t -> Z.of_nat (fib (heightn t + 2)) <= count t + 1.
Proof. exact avl_fib. Qed.
Print Assumptions avl_height_fib_any.

(* a find makes at most height-many comparisons, hence fib (comparisons + 2) <= size + 1 *)
Theorem avl_find_cost : forall rank dup ops o x,
  let st := reach rank dup ops o in
  let n := length (snd (tfind rank x st)) in
  Z.of_nat n <= height (root st) /\ Z.of_nat (fib (n + 2)) <= size st + 1.
Proof. exact reach_find_cost. Qed.
Print Assumptions avl_find_cost.

(* whole histories: the listing after any history is the one the abstract sorted multiset has *)
Theorem avl_history_refines : forall rank dup ops o,
  abs (reach rank dup ops o) = srun rank dup ops o ([], 0).
Proof. exact reach_history. Qed.
Print Assumptions avl_history_refines.

(* non-vacuity: a concrete history (keys with duplicates, a failed allocation, removals of a
   two-child root, of a leaf and of an absent id) and what the theorems say about it *)
Example avl_example :
  let rank := (fun e : elt => fst e) in
  let ops := [OIns (5, 0); OIns (3, 1); OIns (8, 2); OIns (5, 3); OIns (9, 4); OIns (5, 5);
              ORem 0; OFind (5, 0); ORem 2; ORem 77] in
  abs (reach rank true ops [true; true; true; true; false]) =
    ([(1, (3, 1)); (3, (5, 3)); (5, (5, 5))], 6) /\
  height (root (reach rank true ops [true; true; true; true; false])) = 2.
Proof. vm_compute. split; reflexivity. Qed.
