(* C06 — property theorems only (ZixTree: balanced sorted (multi)set with stable iterators). *)
From Coq Require Import ZArith List Bool.
From Zix Require Import AvlSpec AvlModel AvlProofs.
Import ListNotations.
Local Open Scope Z_scope.

Theorem avl_find_cost : forall rank x t, Z.of_nat (length (snd (find rank x t))) <= height t.
Proof. exact find_cost. Qed.
Print Assumptions avl_find_cost.
