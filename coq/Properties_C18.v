(* C18 — property theorems only.  PARTIAL by design: zix_thread_create / zix_thread_join are glue.
   Proved: the glue (call sequence, which attribute object reaches pthread_create, status mapping)
   against an explicit model of the pthread primitives (ThreadModel.env_*, istep).  Trusted and only
   smoke-tested: that the real pthread_create starts exactly one thread on a stack of the size the
   attribute object carries, and that the real pthread_join waits and synchronises memory. *)
From Coq Require Import ZArith List Bool Arith Lia.
From Zix Require Import SemErrnoModel SemErrnoProofs ThreadModel ThreadProofs.
Import ListNotations.
Local Open Scope Z_scope.

(* the attribute object handed to pthread_create is the one that was initialised and given the
   requested stack size, for every environment and every combination of results *)
Theorem create_passes_attr :
  forall sc size fn arg e,
    e_calls (snd (thread_create_model sc size fn arg e)) =
    e_calls e ++ [CAttrInit O; CSetStack O size; CCreate (Some O) fn arg; CAttrDestroy O].
Proof. exact create_calls_lemma. Qed.
Print Assumptions create_passes_attr.

(* any non-zero result of pthread_create (every errno in the mapping, and the fallback) is reported
   as a status other than SUCCESS; zero is SUCCESS *)
Theorem create_error_reported :
  forall sc size fn arg e,
    (r_create sc <> 0 -> fst (thread_create_model sc size fn arg e) <> SUCCESS) /\
    (r_create sc = 0 -> fst (thread_create_model sc size fn arg e) = SUCCESS) /\
    (r_create sc = EAGAIN -> fst (thread_create_model sc size fn arg e) = UNAVAILABLE) /\
    (~ In (r_create sc) mapped_codes -> fst (thread_create_model sc size fn arg e) = ERROR).
Proof.
  intros. rewrite create_status_lemma. repeat split.
  - intros H E. apply errno_status_success_iff in E. contradiction.
  - intros ->. reflexivity.
  - intros ->. reflexivity.
  - apply errno_status_fallback.
Qed.
Print Assumptions create_error_reported.

(* the thread function is invoked exactly once with the given argument iff create reports SUCCESS,
   and not at all otherwise; its stack is the size the attribute object carries *)
Theorem create_runs_once :
  forall sc size fn arg e,
    let r := thread_create_model sc size fn arg e in
    (fst r = SUCCESS ->
       e_started (snd r) = e_started e ++ [{| th_fn := fn; th_arg := arg; th_stack := attr_stack sc size e |}]) /\
    (fst r <> SUCCESS -> e_started (snd r) = e_started e).
Proof.
  intros sc size fn arg e r. subst r. rewrite create_status_lemma.
  pose proof (create_started_lemma sc size fn arg e) as H. unfold create_env in H. rewrite H.
  split; intros E.
  - apply errno_status_success_iff in E. rewrite E. reflexivity.
  - destruct (Z.eqb_spec (r_create sc) 0) as [Z|_]; [|apply app_nil_r].
    exfalso. apply E. rewrite Z. reflexivity.
Qed.
Print Assumptions create_runs_once.

(* with glibc's pthread_attr_setstacksize (fails exactly below PTHREAD_STACK_MIN, which the default
   stack size is never below) the new thread's stack is at least the requested size — although the
   code ignores the results of attr_init and attr_setstacksize *)
Theorem created_stack_at_least_requested :
  forall sc size e,
    r_init sc = 0 -> r_set sc = glibc_setstack_result size -> STACK_MIN <= e_default e ->
    size <= attr_stack sc size e /\ (STACK_MIN <= size -> attr_stack sc size e = size).
Proof.
  intros sc size e Hi Hs Hd. split; [apply stack_at_least_lemma; assumption|].
  intros Hm. unfold attr_stack. rewrite Hs. unfold glibc_setstack_result.
  destruct (Z.ltb_spec size STACK_MIN); [lia | reflexivity].
Qed.
Print Assumptions created_stack_at_least_requested.

Theorem join_status :
  forall t r e,
    fst (thread_join_model t r e) = (if r =? 0 then SUCCESS else ERROR) /\
    (fst (thread_join_model t r e) = SUCCESS <-> r = 0) /\
    e_calls (snd (thread_join_model t r e)) = e_calls e ++ [CJoin t true].
Proof.
  intros t r e. cbn. repeat split.
  - destruct (Z.eqb_spec r 0); [auto | discriminate].
  - intros ->. reflexivity.
Qed.
Print Assumptions join_status.

(* over the ideal life cycle and ALL interleavings of any number of threads with any bodies and
   any join attempts: a join that returned did so with SUCCESS, after the function had returned, and
   the memory it saw contains every write of that thread, in order *)
Theorem join_after_return_sees_writes :
  forall bodies sched j,
    In j (i_joins (irun sched (iinit bodies))) ->
    j_status j = SUCCESS /\
    exists b, nth_error bodies (j_thread j) = Some b /\ writes_of (j_thread j) (j_mem j) = b.
Proof.
  intros bodies sched j H.
  destruct (linv_run bodies sched (iinit bodies) (linv_init bodies)) as (_ & _ & HJ). exact (HJ j H).
Qed.
Print Assumptions join_after_return_sees_writes.

(* ---------------------------------------------------------------- non-vacuity / documentation *)
Example create_example :
  let r := thread_create_model {| r_init := 0; r_set := 0; r_create := 0 |} 33554432 7 9 (new_env 8388608) in
  fst r = SUCCESS /\ e_started (snd r) = [{| th_fn := 7; th_arg := 9; th_stack := 33554432 |}].
Proof. split; reflexivity. Qed.

Example create_failure_example :
  let r := thread_create_model {| r_init := 0; r_set := 0; r_create := EAGAIN |} 65536 7 9 (new_env 8388608) in
  fst r = UNAVAILABLE /\ e_started (snd r) = [].
Proof. split; reflexivity. Qed.

(* why the hypothesis of created_stack_at_least_requested is needed: an environment whose
   setstacksize rejects a large size (POSIX allows it) would silently give a smaller stack *)
Example ignored_setstacksize_failure :
  let sc := {| r_init := 0; r_set := EINVAL; r_create := 0 |} in
  fst (thread_create_model sc 33554432 7 9 (new_env 8388608)) = SUCCESS /\
  attr_stack sc 33554432 (new_env 8388608) = 8388608.
Proof. split; reflexivity. Qed.

Example lifecycle_example :
  let s := irun [IJoin 0; IStep 0; IStep 1; IJoin 0; IStep 0; IStep 0; IJoin 0]
                (iinit [[(1, 10); (2, 20)]; [(3, 30)]]) in
  map j_thread (i_joins s) = [0%nat] /\ map j_mem (i_joins s) = [[(0%nat, (1, 10)); (1%nat, (3, 30)); (0%nat, (2, 20))]].
Proof. split; reflexivity. Qed.
