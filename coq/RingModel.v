(* C05: sequential model of /repo/src/ring.c (single-threaded use).  Definitions only.

   uint32_t values are Z with the wrap written out (u32 = mod 2^32) at every +, - that can
   wrap in C; `|`, `>>` and `&` cannot wrap and are Z.lor / Z.shiftr / Z.land.
   The byte buffer is a `list Z`; memcpy out of / into it is mem_read / mem_write.
   The atomics are plain loads/stores here (one thread); C04 treats the two-thread case. *)
From Coq Require Import ZArith List Bool.
From Zix Require Import RingSpec.
Import ListNotations.
Local Open Scope Z_scope.

Definition u32 (x : Z) : Z := x mod 2 ^ 32.

(* static inline uint32_t next_power_of_two(uint32_t size) *)
Definition next_power_of_two (size : Z) : Z :=
  let s := u32 (size - 1) in            (* size--;            *)
  let s := Z.lor s (Z.shiftr s 1) in    (* size |= size >> 1  *)
  let s := Z.lor s (Z.shiftr s 2) in    (* size |= size >> 2  *)
  let s := Z.lor s (Z.shiftr s 4) in    (* size |= size >> 4  *)
  let s := Z.lor s (Z.shiftr s 8) in    (* size |= size >> 8  *)
  let s := Z.lor s (Z.shiftr s 16) in   (* size |= size >> 16 *)
  u32 (s + 1).                          (* size++;            *)

(* struct ZixRingImpl without the allocator pointer *)
Record ring := mkRing {
  write_head : Z;
  read_head : Z;
  size : Z;
  size_mask : Z;
  buf : list Z
}.

(* ZixRingTransaction (held by the caller) *)
Record tx := mkTx { tx_read_head : Z; tx_write_head : Z }.

Definition set_read_head (rg : ring) (r : Z) : ring :=
  mkRing (write_head rg) r (size rg) (size_mask rg) (buf rg).
Definition set_write_head (rg : ring) (w : Z) : ring :=
  mkRing w (read_head rg) (size rg) (size_mask rg) (buf rg).
Definition set_buf (rg : ring) (b : list Z) : ring :=
  mkRing (write_head rg) (read_head rg) (size rg) (size_mask rg) b.

(* 0, 1, ..., n-1 *)
Fixpoint zrange_from (start : Z) (n : nat) : list Z :=
  match n with
  | O => []
  | S n' => start :: zrange_from (start + 1) n'
  end.
Definition zrange (n : Z) : list Z := zrange_from 0 (Z.to_nat n).

(* memcpy(dst, &b[off], len): the bytes delivered *)
Definition mem_read (b : list Z) (off len : Z) : list Z :=
  firstn (Z.to_nat len) (skipn (Z.to_nat off) b).

(* memcpy(&b[off], src, length src): the buffer afterwards *)
Definition mem_write (b : list Z) (off : Z) (src : list Z) : list Z :=
  firstn (Z.to_nat off) b ++ src ++ skipn (Z.to_nat off + length src) b.

(* zix_ring_new with both allocations succeeding; `junk` is the (arbitrary) content of the
   block malloc returned *)
Definition ring_new (sz : Z) (junk : Z -> Z) : ring :=
  let n := next_power_of_two sz in
  {| write_head := 0; read_head := 0; size := n; size_mask := u32 (n - 1);
     buf := map junk (zrange n) |}.

Definition ring_reset (rg : ring) : ring :=
  mkRing 0 0 (size rg) (size_mask rg) (buf rg).

(* (w - r) & ring->size_mask *)
Definition read_space_internal (rg : ring) (r w : Z) : Z :=
  Z.land (u32 (w - r)) (size_mask rg).

(* (r - w - 1U) & ring->size_mask *)
Definition write_space_internal (rg : ring) (r w : Z) : Z :=
  Z.land (u32 (u32 (r - w) - 1)) (size_mask rg).

Definition ring_read_space (rg : ring) : Z :=
  read_space_internal rg (read_head rg) (write_head rg).

Definition ring_write_space (rg : ring) : Z :=
  write_space_internal rg (read_head rg) (write_head rg).

Definition ring_capacity (rg : ring) : Z := u32 (size rg - 1).

(* peek_internal: (return value, bytes stored to dst) *)
Definition peek_internal (rg : ring) (r w sz : Z) : Z * list Z :=
  if read_space_internal rg r w <? sz then (0, [])
  else if u32 (r + sz) <? size rg then (sz, mem_read (buf rg) r sz)
  else
    let first_size := u32 (size rg - r) in
    (sz, mem_read (buf rg) r first_size ++ mem_read (buf rg) 0 (u32 (sz - first_size))).

Definition ring_peek (rg : ring) (sz : Z) : Z * list Z :=
  peek_internal rg (read_head rg) (write_head rg) sz.

Definition ring_read (rg : ring) (sz : Z) : ring * (Z * list Z) :=
  let w := write_head rg in
  let r := read_head rg in
  let '(n, d) := peek_internal rg r w sz in
  if n =? 0 then (rg, (0, []))
  else (set_read_head rg (Z.land (u32 (r + sz)) (size_mask rg)), (sz, d)).

Definition ring_skip (rg : ring) (sz : Z) : ring * Z :=
  let w := write_head rg in
  let r := read_head rg in
  if read_space_internal rg r w <? sz then (rg, 0)
  else (set_read_head rg (Z.land (u32 (r + sz)) (size_mask rg)), sz).

Definition ring_begin_write (rg : ring) : tx :=
  mkTx (read_head rg) (write_head rg).

(* zix_ring_amend_write; size = length src *)
Definition ring_amend_write (rg : ring) (t : tx) (src : list Z) : ring * tx * Z :=
  let sz := Z.of_nat (length src) in
  let r := tx_read_head t in
  let w := tx_write_head t in
  if write_space_internal rg r w <? sz then (rg, t, ST_NO_MEM)
  else
    let e := u32 (w + sz) in
    if e <=? size rg then
      (set_buf rg (mem_write (buf rg) w src), mkTx r (Z.land e (size_mask rg)), ST_SUCCESS)
    else
      let size1 := u32 (size rg - w) in
      let size2 := u32 (sz - size1) in
      (set_buf rg (mem_write (mem_write (buf rg) w (mem_read src 0 size1)) 0
                             (mem_read src size1 size2)),
       mkTx r size2, ST_SUCCESS).

Definition ring_commit_write (rg : ring) (t : tx) : ring * Z :=
  (set_write_head rg (tx_write_head t), ST_SUCCESS).

Definition ring_write (rg : ring) (src : list Z) : ring * Z :=
  let t := ring_begin_write rg in
  let '(rg1, t1, st) := ring_amend_write rg t src in
  if negb (st =? 0) then (rg1, 0)
  else (fst (ring_commit_write rg1 t1), Z.of_nat (length src)).

(* ---- histories: the caller holds one ZixRingTransaction variable ---- *)
Definition mstate : Type := ring * tx.

(* every operation yields (return value or status, bytes delivered to dst) *)
Definition ring_step (st : mstate) (o : op) : mstate * (Z * list Z) :=
  let '(rg, t) := st in
  match o with
  | OWrite src => let '(rg', n) := ring_write rg src in ((rg', t), (n, []))
  | ORead n => let '(rg', out) := ring_read rg n in ((rg', t), out)
  | OPeek n => ((rg, t), ring_peek rg n)
  | OSkip n => let '(rg', k) := ring_skip rg n in ((rg', t), (k, []))
  | OReset => ((ring_reset rg, t), (0, []))
  | OBegin => ((rg, ring_begin_write rg), (0, []))
  | OAmend src => let '(rg', t', s) := ring_amend_write rg t src in ((rg', t'), (s, []))
  | OCommit => let '(rg', s) := ring_commit_write rg t in ((rg', t), (s, []))
  end.

Fixpoint ring_run (st : mstate) (h : list op) : mstate * list (Z * list Z) :=
  match h with
  | [] => (st, [])
  | o :: h' =>
      let '(st1, out) := ring_step st o in
      let '(st2, outs) := ring_run st1 h' in
      (st2, out :: outs)
  end.

Definition tx0 : tx := mkTx 0 0.
Definition ring_init (sz : Z) (junk : Z -> Z) : mstate := (ring_new sz junk, tx0).
