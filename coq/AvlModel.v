(* C06 — executable model of /repo/src/tree.c (ZixTree, an AVL tree with parent pointers).
   Definitions only.  The model is functional: upward walks through parent pointers in the C code
   (retrace loops of zix_tree_insert / zix_tree_remove) become the return path of a recursive
   descent; the arithmetic on balance factors, the choice of rotation, the conditions that stop a
   retrace and the relinking (not copying) of the in-order successor are those of the C code.

   t := E | N id data bal l r     id = identity of the node (serial number of the insert call)
                                  bal = the stored balance field (NOT recomputed)                *)
From Coq Require Import ZArith List Bool.
From Zix Require Import AvlSpec.
Import ListNotations.
Local Open Scope Z_scope.

Inductive tree :=
| E
| N (id : Z) (d : elt) (bal : Z) (l r : tree).

Fixpoint elems (t : tree) : list item :=
  match t with E => [] | N i d _ l r => elems l ++ (i, d) :: elems r end.

Definition ids (t : tree) : list Z := map fst (elems t).

Fixpoint height (t : tree) : Z :=
  match t with E => 0 | N _ _ _ l r => 1 + Z.max (height l) (height r) end.

Fixpoint heightn (t : tree) : nat :=
  match t with E => O | N _ _ _ l r => S (Nat.max (heightn l) (heightn r)) end.

Fixpoint count (t : tree) : Z :=
  match t with E => 0 | N _ _ _ l r => count l + 1 + count r end.

Definition bal_of (t : tree) : Z := match t with E => 0 | N _ _ b _ _ => b end.
Definition is_E (t : tree) : bool := match t with E => true | _ => false end.

(* ------------------------------------------------------------------ rotations
   Each returns (replacement, *height_change, log).  The log names the rotation and its
   sub-case (for the statistics of the correspondence run only):
     10+(br+1) left_right, 20+(bq+1) right, 30+(br+1) right_left, 40+(bq+1) left.
   Shapes that the C code excludes by assert (a missing child) return the node unchanged. *)

(* rotate_left:   --q->balance; p->balance = -(q->balance);   *height_change = (q->balance == 0) ? 0 : -1 (old value) *)
Definition rotate_left (t : tree) : tree * Z * list Z :=
  match t with
  | N p dp bp lp (N q dq bq lq rq) =>
      let hc := if bq =? 0 then 0 else -1 in
      let bq' := bq - 1 in
      (N q dq bq' (N p dp (- bq') lp lq) rq, hc, [40 + (bq + 1)])
  | _ => (t, 0, [])
  end.

(* rotate_right:  ++q->balance; p->balance = -(q->balance) *)
Definition rotate_right (t : tree) : tree * Z * list Z :=
  match t with
  | N p dp bp (N q dq bq lq rq) rp =>
      let hc := if bq =? 0 then 0 else -1 in
      let bq' := bq + 1 in
      (N q dq bq' lq (N p dp (- bq') rq rp), hc, [20 + (bq + 1)])
  | _ => (t, 0, [])
  end.

(* rotate_left_right:
     q->balance -= 1 + MAX(0, r->balance);
     p->balance += 1 - MIN(MIN(0, r->balance) - 1, r->balance + q->balance);   (q->balance already updated)
     r->balance = 0;  *height_change = -1 *)
Definition rotate_left_right (t : tree) : tree * Z * list Z :=
  match t with
  | N p dp bp (N q dq bq lq (N r dr br lr rr)) rp =>
      let bq' := bq - (1 + Z.max 0 br) in
      let bp' := bp + (1 - Z.min (Z.min 0 br - 1) (br + bq')) in
      (N r dr 0 (N q dq bq' lq lr) (N p dp bp' rr rp), -1, [10 + (br + 1)])
  | _ => (t, 0, [])
  end.

(* rotate_right_left:
     q->balance += 1 - MIN(0, r->balance);
     p->balance -= 1 + MAX(MAX(0, r->balance) + 1, r->balance + q->balance);
     r->balance = 0;  *height_change = -1 *)
Definition rotate_right_left (t : tree) : tree * Z * list Z :=
  match t with
  | N p dp bp lp (N q dq bq (N r dr br lr rr) rq) =>
      let bq' := bq + (1 - Z.min 0 br) in
      let bp' := bp - (1 + Z.max (Z.max 0 br + 1) (br + bq')) in
      (N r dr 0 (N p dp bp' lp lr) (N q dq bq' rr rq), -1, [30 + (br + 1)])
  | _ => (t, 0, [])
  end.

(* zix_tree_rebalance: *height_change = 0; dispatch on node->balance == -2 / == 2 *)
Definition rebalance (t : tree) : tree * Z * list Z :=
  match t with
  | E => (t, 0, [])
  | N _ _ b l r =>
      if b =? -2 then
        (if bal_of l =? 1 then rotate_left_right t else rotate_right t)
      else if b =? 2 then
        (if bal_of r =? -1 then rotate_right_left t else rotate_left t)
      else (t, 0, [])
  end.

Section Model.
Variable rank : elt -> Z.

(* ------------------------------------------------------------------ insert *)
Inductive ins_result :=
| IExists (e : Z)                           (* iterator at the existing node *)
| IOk (t : tree) (grew : bool) (rot : list Z).

(* one step of the retrace loop of zix_tree_insert at an ancestor whose balance has just been
   adjusted: +-2 -> rebalance and stop; 0 -> stop; otherwise continue upwards *)
Definition retrace_ins (t : tree) (c : list Z) : ins_result :=
  let b := bal_of t in
  if (b =? -2) || (b =? 2) then
    let '(t', _, c') := rebalance t in IOk t' false (c ++ c')
  else if b =? 0 then IOk t false c
  else IOk t true c.

(* descent + attach + retrace.  [grew] is p_height_increased at the parent of the new node and
   "the loop has not stopped yet" above it. *)
Fixpoint ins (dup : bool) (x : elt) (id : Z) (t : tree) : ins_result :=
  match t with
  | E => IOk (N id x 0 E E) true []       (* empty tree: t->root = n *)
  | N i d b l r =>
      match Z.compare (rank x) (rank d) with
      | Lt =>
          match l with
          | E => IOk (N i d (b - 1) (N id x 0 E E) r) (is_E r) []   (* --p->balance; p_height_increased = !p->right *)
          | _ =>
              match ins dup x id l with
              | IExists e => IExists e
              | IOk l' g c =>
                  if g then retrace_ins (N i d (b - 1) l' r) c else IOk (N i d b l' r) false c
              end
          end
      | Eq =>
          if dup then
            match r with
            | E => IOk (N i d (b + 1) l (N id x 0 E E)) (is_E l) []
            | _ =>
                match ins dup x id r with
                | IExists e => IExists e
                | IOk r' g c =>
                    if g then retrace_ins (N i d (b + 1) l r') c else IOk (N i d b l r') false c
                end
            end
          else IExists i
      | Gt =>
          match r with
          | E => IOk (N i d (b + 1) l (N id x 0 E E)) (is_E l) []   (* ++p->balance; p_height_increased = !p->left *)
          | _ =>
              match ins dup x id r with
              | IExists e => IExists e
              | IOk r' g c =>
                  if g then retrace_ins (N i d (b + 1) l r') c else IOk (N i d b l r') false c
              end
          end
      end
  end.

(* the comparator calls of zix_tree_insert: ids of the stored elements compared, in order *)
Fixpoint ins_log (dup : bool) (x : elt) (t : tree) : list Z :=
  match t with
  | E => []
  | N i d _ l r =>
      i :: match Z.compare (rank x) (rank d) with
           | Lt => ins_log dup x l
           | Gt => ins_log dup x r
           | Eq => if dup then ins_log dup x r else []
           end
  end.

(* ------------------------------------------------------------------ remove *)

(* one iteration of the "rebalance starting at to_balance upwards" loop at node t, entered with
   d_balance = dbal; returns the node that now stands at this place, the height change of this
   subtree (which determines d_balance for the parent: -hc for a left child, hc for a right child)
   and the rotations done.  "break" = nothing propagates = height change 0. *)
Definition retrace_del (t : tree) (dbal : Z) : tree * Z * list Z :=
  match t with
  | E => (E, 0, [])
  | N i d b l r =>
      let b' := b + dbal in
      if (dbal =? 0) || (b' =? -1) || (b' =? 1) then (N i d b' l r, 0, [])
      else
        let '(t', hc, c) := rebalance (N i d b' l r) in
        (t', (if bal_of t' =? 0 then -1 else hc), c)
  end.

(* unlink the leftmost node of (N j dj bj lj rj) (the in-order successor "replace"): returns the
   remaining subtree, the unlinked node's identity and data, the height change, rotations *)
Fixpoint remove_min (j : Z) (dj : elt) (bj : Z) (lj rj : tree) : tree * item * Z * list Z :=
  match lj with
  | E => (rj, (j, dj), -1, [])
  | N k dk bk lk rk =>
      let '(lj', m, hc, c) := remove_min k dk bk lk rk in
      let '(t', hc', c') := retrace_del (N j dj bj lj' rj) (- hc) in
      (t', m, hc', c ++ c')
  end.

(* remove the node (i d b l r) itself *)
Definition delete_here (b : Z) (l r : tree) : tree * Z * list Z :=
  match l, r with
  | E, E => (E, -1, [])
  | E, _ => (r, -1, [])                     (* replace n with right (only) child *)
  | _, E => (l, -1, [])                     (* replace n with left (only) child *)
  | _, N j dj bj lj rj =>
      (* the successor node takes n's place, n's balance and n's children *)
      let '(r', m, hc, c) := remove_min j dj bj lj rj in
      let '(t', hc', c') := retrace_del (N (fst m) (snd m) b l r') hc in
      (t', hc', c ++ c')
  end.

(* locate the node with identity [id] (the C code is handed the pointer) and retrace upwards *)
Fixpoint rem (id : Z) (t : tree) : option (tree * Z * list Z * elt) :=
  match t with
  | E => None
  | N i d b l r =>
      if i =? id then
        let '(t', hc, c) := delete_here b l r in Some (t', hc, c, d)
      else
        match rem id l with
        | Some (l', hc, c, x) =>
            let '(t', hc', c') := retrace_del (N i d b l' r) (- hc) in Some (t', hc', c ++ c', x)
        | None =>
            match rem id r with
            | Some (r', hc, c, x) =>
                let '(t', hc', c') := retrace_del (N i d b l r') hc in Some (t', hc', c ++ c', x)
            | None => None
            end
        end
  end.

(* ------------------------------------------------------------------ find *)
(* result and the comparison log (ids of the stored elements compared, in order) *)
Fixpoint find (x : elt) (t : tree) : option item * list Z :=
  match t with
  | E => (None, [])
  | N i d _ l r =>
      match Z.compare (rank x) (rank d) with
      | Eq => (Some (i, d), [i])
      | Lt => let '(res, lg) := find x l in (res, i :: lg)
      | Gt => let '(res, lg) := find x r in (res, i :: lg)
      end
  end.

End Model.

(* ------------------------------------------------------------------ iteration (tree level) *)
Fixpoint leftmost (t : tree) : option Z :=
  match t with
  | E => None
  | N i _ _ l _ => match l with E => Some i | _ => leftmost l end
  end.

Fixpoint rightmost (t : tree) : option Z :=
  match t with
  | E => None
  | N i _ _ _ r => match r with E => Some i | _ => rightmost r end
  end.

(* zix_tree_iter_next: right child's leftmost, else the nearest ancestor reached from its left
   subtree ([anc]); None = the id is not in t *)
Fixpoint next_in (id : Z) (t : tree) (anc : option Z) : option (option Z) :=
  match t with
  | E => None
  | N i _ _ l r =>
      if i =? id then Some (match r with E => anc | _ => leftmost r end)
      else match next_in id l (Some i) with
           | Some res => Some res
           | None => next_in id r anc
           end
  end.

Fixpoint prev_in (id : Z) (t : tree) (anc : option Z) : option (option Z) :=
  match t with
  | E => None
  | N i _ _ l r =>
      if i =? id then Some (match l with E => anc | _ => rightmost l end)
      else match prev_in id r (Some i) with
           | Some res => Some res
           | None => prev_in id l anc
           end
  end.

Definition tnext (id : Z) (t : tree) : option Z :=
  match next_in id t None with Some r => r | None => None end.
Definition tprev (id : Z) (t : tree) : option Z :=
  match prev_in id t None with Some r => r | None => None end.

(* follow [step] from [cur] for at most [fuel] steps *)
Fixpoint walk (step : Z -> option Z) (fuel : nat) (cur : option Z) : list Z :=
  match fuel, cur with
  | S f, Some i => i :: walk step f (step i)
  | _, _ => []
  end.

Definition walk_fwd (t : tree) : list Z := walk (fun i => tnext i t) (Z.to_nat (count t)) (leftmost t).
Definition walk_bwd (t : tree) : list Z := walk (fun i => tprev i t) (Z.to_nat (count t)) (rightmost t).

(* root-to-node path (ids), the shape observable of the correspondence *)
Fixpoint path_to (id : Z) (t : tree) : option (list Z) :=
  match t with
  | E => None
  | N i _ _ l r =>
      if i =? id then Some [i]
      else match path_to id l with
           | Some p => Some (i :: p)
           | None => match path_to id r with Some p => Some (i :: p) | None => None end
           end
  end.

(* number of children of the node id (0 leaf, 1 one child, 2 two children), None if absent *)
Fixpoint node_class (id : Z) (t : tree) : option Z :=
  match t with
  | E => None
  | N i _ _ l r =>
      if i =? id then Some ((if is_E l then 0 else 1) + (if is_E r then 0 else 1))
      else match node_class id l with Some c => Some c | None => node_class id r end
  end.

Definition lookup (id : Z) (t : tree) : option item := slookup id (elems t).

(* zix_tree_free_rec: left, right, then destroy(n->data) *)
Fixpoint free_log (t : tree) : list item :=
  match t with E => [] | N i d _ l r => free_log l ++ free_log r ++ [(i, d)] end.

(* ------------------------------------------------------------------ the container *)
Record state := mkState { root : tree; size : Z; nextid : Z }.

Definition init : state := mkState E 0 0.

Section Ops.
Variable rank : elt -> Z.

(* zix_tree_insert; the element inserted by this call has identity nextid.
   Returns status, *ti (None = untouched), new state, rest of the oracle, rotation log *)
Definition insert (dup : bool) (x : elt) (o : list bool) (st : state)
  : status * option Z * state * list bool * list Z :=
  let id := nextid st in
  match ins rank dup x id (root st) with
  | IExists e => (EXISTS, Some e, mkState (root st) (size st) (id + 1), o, [])
  | IOk t' _ c =>
      let '(ok, o') := alloc o in
      if ok then (SUCCESS, Some id, mkState t' (size st + 1) (id + 1), o', c)
      else (NO_MEM, None, mkState (root st) (size st) (id + 1), o', [])
  end.

(* zix_tree_remove(t, iterator at id): status, new state, destroy log, rotation log *)
Definition remove (id : Z) (st : state) : status * state * list item * list Z :=
  match rem id (root st) with
  | Some (t', _, c, x) => (SUCCESS, mkState t' (size st - 1) (nextid st), [(id, x)], c)
  | None => (BAD_ARG, st, [], [])
  end.

(* zix_tree_find: status, *ti, comparison log *)
Definition tfind (x : elt) (st : state) : status * option item * list Z :=
  let '(res, lg) := find rank x (root st) in
  ((match res with Some _ => SUCCESS | None => NOT_FOUND end), res, lg).

(* histories *)
Inductive event :=
| EvIns (s : status) (it : option Z)
| EvRem (s : status) (destroyed : list item)
| EvFind (s : status) (it : option item).

Fixpoint run (dup : bool) (ops : list op) (o : list bool) (st : state) : state * list event :=
  match ops with
  | [] => (st, [])
  | OIns x :: ops' =>
      let '(s, it, st', o', _) := insert dup x o st in
      let '(fin, evs) := run dup ops' o' st' in (fin, EvIns s it :: evs)
  | ORem id :: ops' =>
      let '(s, st', dl, _) := remove id st in
      let '(fin, evs) := run dup ops' o st' in (fin, EvRem s dl :: evs)
  | OFind x :: ops' =>
      let '(s, it, _) := tfind x st in
      let '(fin, evs) := run dup ops' o st in (fin, EvFind s it :: evs)
  end.

End Ops.

(* every destroy call made by the removals of a history *)
Fixpoint destroyed_of (evs : list event) : list item :=
  match evs with
  | [] => []
  | EvRem _ dl :: evs' => dl ++ destroyed_of evs'
  | _ :: evs' => destroyed_of evs'
  end.

(* the elements stored by the successful inserts of a history, with their identities *)
Fixpoint inserted_of (ops : list op) (evs : list event) : list item :=
  match ops, evs with
  | OIns x :: ops', EvIns SUCCESS (Some id) :: evs' => (id, x) :: inserted_of ops' evs'
  | _ :: ops', _ :: evs' => inserted_of ops' evs'
  | _, _ => []
  end.
