(* C19: model of zix_file_lock / zix_file_unlock (src/posix/filesystem_posix.c, the
   USE_FLOCK && USE_FILENO branch).  Definitions only.
   The library code chooses the flock flags from the mode and maps the result.  flock itself is an
   explicit small environment model (trusted, smoke-tested): one lock per file, held by at most one
   open file description; every handle here is its own open file description ("independently opened"),
   identified by its index. *)
From Coq Require Import ZArith List Bool Arith.
From Zix Require Import SemErrnoModel.
Import ListNotations.
Local Open Scope Z_scope.

Inductive lmode := BLOCK | TRY.     (* ZIX_FILE_LOCK_BLOCK, ZIX_FILE_LOCK_TRY *)

Definition LOCK_SH := 1.
Definition LOCK_EX := 2.
Definition LOCK_NB := 4.
Definition LOCK_UN := 8.

(* (mode == ZIX_FILE_LOCK_BLOCK) ? LOCK_EX : (LOCK_EX | LOCK_NB) *)
Definition lock_flags (m : lmode) : Z :=
  match m with BLOCK => LOCK_EX | TRY => Z.lor LOCK_EX LOCK_NB end.

(* (mode == ZIX_FILE_LOCK_BLOCK) ? LOCK_UN : (LOCK_UN | LOCK_NB) *)
Definition unlock_flags (m : lmode) : Z :=
  match m with BLOCK => LOCK_UN | TRY => Z.lor LOCK_UN LOCK_NB end.

(* return zix_posix_status(flock(fileno(file), flags)); *)
Definition file_lock_status (r : kres) : status := errno_status_if r.

(* ------------------------------------------------------------------ flock(2), ideal *)
Definition k_free (holder : option nat) (d : nat) : bool :=
  match holder with None => true | Some j => Nat.eqb j d end.

Definition k_release (holder : option nat) (d : nat) : option nat :=
  match holder with
  | Some j => if Nat.eqb j d then None else holder
  | None => None
  end.

(* description d calls flock(fd, flags) while `holder` holds the lock; None = the caller sleeps *)
Definition kernel_flock (holder : option nat) (d : nat) (flags : Z) : option (option nat * kres) :=
  let nb := negb (Z.land flags LOCK_NB =? 0) in
  let opn := Z.land flags (Z.lor (Z.lor LOCK_SH LOCK_EX) LOCK_UN) in    (* flags & ~LOCK_NB *)
  if opn =? LOCK_UN then Some (k_release holder d, KOk)
  else if opn =? LOCK_EX then
    if k_free holder d then Some (Some d, KOk)
    else if nb then Some (holder, KErr EWOULDBLOCK)
    else None
  else Some (holder, KErr EINVAL).     (* zix never asks for LOCK_SH; anything else is invalid *)

(* ------------------------------------------------------------------ handles and interleavings *)
Inductive lop := LLock (m : lmode) | LUnlock (m : lmode) | LClose | LOpen.

Record handle := {
  h_open : bool;
  h_todo : list lop;
  h_log : list (lop * status);
  h_waiting : bool;       (* sleeping inside flock *)
  h_believes : bool       (* the caller was told it holds the lock and has not released it since *)
}.

Record lsys := { l_holder : option nat; l_handles : list handle }.

Inductive lchoice :=
| LRun (i : nat)     (* handle i performs / completes its current call if it can *)
| LSig (i : nat).    (* a signal handler runs in the process of handle i *)

Fixpoint lupd {A} (i : nat) (x : A) (l : list A) : list A :=
  match l, i with
  | [], _ => []
  | _ :: l', O => x :: l'
  | y :: l', S i' => y :: lupd i' x l'
  end.

(* what the zix call of operation o does for handle i: new holder, status returned, the caller's
   belief afterwards, descriptor open afterwards; None = sleeping in flock *)
Definition perform (holder : option nat) (i : nat) (h : handle) (o : lop)
  : option (option nat * status * bool * bool) :=
  match o with
  | LLock m =>
      if h_open h then
        match kernel_flock holder i (lock_flags m) with
        | None => None
        | Some (holder', r) =>
            let s := file_lock_status r in
            Some (holder', s, if status_eqb s SUCCESS then true else h_believes h, true)
        end
      else Some (holder, file_lock_status (KErr EBADF), h_believes h, false)
  | LUnlock m =>
      if h_open h then
        match kernel_flock holder i (unlock_flags m) with
        | None => None
        | Some (holder', r) =>
            let s := file_lock_status r in
            Some (holder', s, if status_eqb s SUCCESS then false else h_believes h, true)
        end
      else Some (holder, file_lock_status (KErr EBADF), h_believes h, false)
  | LClose => Some (k_release holder i, SUCCESS, false, false)     (* close(2) drops the description *)
  | LOpen => Some (holder, SUCCESS, h_believes h, true)
  end.

Definition lstep (ch : lchoice) (st : lsys) : lsys :=
  match ch with
  | LRun i =>
      match nth_error (l_handles st) i with
      | None => st
      | Some h =>
          match h_todo h with
          | [] => st
          | o :: rest =>
              match perform (l_holder st) i h o with
              | None =>
                  {| l_holder := l_holder st;
                     l_handles := lupd i {| h_open := h_open h; h_todo := h_todo h; h_log := h_log h;
                                            h_waiting := true; h_believes := h_believes h |} (l_handles st) |}
              | Some (holder', s, bel, opn) =>
                  {| l_holder := holder';
                     l_handles := lupd i {| h_open := opn; h_todo := rest; h_log := h_log h ++ [(o, s)];
                                            h_waiting := false; h_believes := bel |} (l_handles st) |}
              end
          end
      end
  | LSig i =>
      match nth_error (l_handles st) i with
      | None => st
      | Some h =>
          if h_waiting h then
            match h_todo h with
            | [] => st
            | o :: rest =>   (* flock returns -1/EINTR; zix does not retry: the error is reported *)
                {| l_holder := l_holder st;
                   l_handles := lupd i {| h_open := h_open h; h_todo := rest;
                                          h_log := h_log h ++ [(o, file_lock_status (KErr EINTR))];
                                          h_waiting := false; h_believes := h_believes h |} (l_handles st) |}
            end
          else st
      end
  end.

Fixpoint lrun (sched : list lchoice) (st : lsys) : lsys :=
  match sched with
  | [] => st
  | ch :: rest => lrun rest (lstep ch st)
  end.

Definition new_handle (prog : list lop) : handle :=
  {| h_open := true; h_todo := prog; h_log := []; h_waiting := false; h_believes := false |}.

Definition linit (progs : list (list lop)) : lsys :=
  {| l_holder := None; l_handles := map new_handle progs |}.

(* handle i could complete its current call now *)
Definition lrunnable (st : lsys) (i : nat) (h : handle) : bool :=
  match h_todo h with
  | [] => false
  | o :: _ => match perform (l_holder st) i h o with None => false | Some _ => true end
  end.
