(* Leaf functions, straight-line fragments and constants of /repo/src/digest.c, REGENERATED from the C source on every
   run (gen/Leaf.v and gen/Constants.v, module Digest, by tools/translate_leaf.py), are the ones the hand-written model
   of C13 (DigestModel) uses.  Whole functions: mix64, rotl32, mix32.  Fragments of zix_digest64 / zix_digest64_aligned
   / zix_digest32 / zix_digest32_aligned (the initial value of h, the per-block update of h, the mixing of k, the
   argument of the final mix): DigestModel inlines these expressions, so each is compared with a small definition
   below (named model_...), and the ..._unfolds lemmas show, by conversion, that the model's functions are built from exactly those
   definitions.  Constants: multipliers, rotation amounts, and every integer literal of the six functions in source
   order (case labels, byte indices, shift amounts). *)
From Coq Require Import ZArith Bool List Lia.
From Zix Require DigestModel DigestSpec.
From Zix.gen Require Import Leaf Constants.
Import ListNotations.
Local Open Scope Z_scope.

(* ---- whole functions *)
Theorem leaf_mix64_is_model : forall h, Digest.leaf_mix64_dom h -> Digest.leaf_mix64 h = DigestModel.mix64 h.
Proof. intros h _. unfold Digest.leaf_mix64, DigestModel.mix64, DigestModel.W64. reflexivity.
Qed.
Print Assumptions leaf_mix64_is_model.

Theorem leaf_mix32_is_model : forall h, Digest.leaf_mix32_dom h -> Digest.leaf_mix32 h = DigestModel.mix32 h.
Proof. intros h _. unfold Digest.leaf_mix32, DigestModel.mix32, DigestModel.W32. reflexivity.
Qed.
Print Assumptions leaf_mix32_is_model.

(* rotl32(val, bits) = (val << bits) | (val >> (32U - bits)): both shifts are defined in C only for 0 < bits < 32; the
   regenerated term (32U - bits reduced mod 2^32) and the model (32 - bits) agree for 0 <= bits <= 32 *)
Theorem leaf_rotl32_is_model :
  forall val bits, Digest.leaf_rotl32_dom val bits -> bits <= 32 ->
    Digest.leaf_rotl32 val bits = DigestModel.rotl32 val bits.
Proof.
  intros val bits [_ Hb] Hle. unfold Digest.leaf_rotl32, DigestModel.rotl32, DigestModel.W32.
  rewrite (Z.mod_small (32 - bits)) by lia. reflexivity.
Qed.
Print Assumptions leaf_rotl32_is_model.

(* ---- 64-bit fragments *)
Definition model_init64 (seed len : Z) : Z := Z.lxor seed ((len * DigestModel.m64) mod DigestModel.W64).
Definition model_step64 (h k : Z) : Z := (Z.lxor h (DigestModel.mix64 k) * DigestModel.m64) mod DigestModel.W64.

Theorem leaf_digest64_init_is_model :
  forall seed len, Digest.leaf_digest64_init seed len = model_init64 seed len /\
                   Digest.leaf_digest64_aligned_init seed len = model_init64 seed len.
Proof. intros. split; reflexivity.
Qed.
Print Assumptions leaf_digest64_init_is_model.

Theorem leaf_digest64_step_is_model :
  forall h k, Digest.leaf_digest64_step h k = model_step64 h k /\
              Digest.leaf_digest64_tail_step h k = model_step64 h k /\
              Digest.leaf_digest64_aligned_step h k = model_step64 h k.
Proof.
  intros. unfold Digest.leaf_digest64_step, Digest.leaf_digest64_tail_step, Digest.leaf_digest64_aligned_step,
    model_step64, Digest.leaf_mix64, DigestModel.mix64, DigestModel.W64, DigestModel.m64.
  repeat split; reflexivity.
Qed.
Print Assumptions leaf_digest64_step_is_model.

Theorem digest64_model_unfolds :
  (forall mem seed buf len,
      DigestModel.digest64_at mem seed buf len =
      let e := buf + len / 8 * 8 in
      DigestModel.mix64 (DigestModel.tail64 mem e (Z.land len 7)
                           (DigestModel.blocks64 (Z.to_nat (len / 8)) mem buf e (model_init64 seed len)))) /\
  (forall f mem data e h,
      DigestModel.blocks64 (S f) mem data e h =
      if data =? e then h else DigestModel.blocks64 f mem (data + 8) e (model_step64 h (DigestModel.load64 mem data))) /\
  (forall f blocks i n h,
      DigestModel.ablocks64 (S f) blocks i n h =
      if i <? n then DigestModel.ablocks64 f blocks (i + 1) n (model_step64 h (nth (Z.to_nat i) blocks 0)) else h) /\
  (forall seed blocks,
      DigestModel.digest64_aligned seed blocks =
      let len := 8 * Z.of_nat (length blocks) in
      DigestModel.mix64 (DigestModel.ablocks64 (Z.to_nat (len / 8)) blocks 0 (len / 8) (model_init64 seed len))).
Proof. repeat split; reflexivity.
Qed.
Print Assumptions digest64_model_unfolds.

(* ---- 32-bit fragments *)
Definition model_hstep32 (h k : Z) : Z :=
  let h := Z.lxor h k in
  let h := DigestModel.rotl32 h 13 in
  (h * 5 + 0xE6546B64) mod DigestModel.W32.
Definition model_final32 (h len : Z) : Z := Z.lxor h (len mod DigestModel.W32).

Theorem leaf_digest32_kmix_is_model :
  forall k, Digest.leaf_digest32_kmix k = DigestModel.kmix32 k /\
            Digest.leaf_digest32_tail_kmix k = DigestModel.kmix32 k /\
            Digest.leaf_digest32_aligned_kmix k = DigestModel.kmix32 k.
Proof.
  intros. unfold Digest.leaf_digest32_kmix, Digest.leaf_digest32_tail_kmix, Digest.leaf_digest32_aligned_kmix,
    DigestModel.kmix32, Digest.leaf_rotl32, DigestModel.rotl32, DigestModel.W32, DigestModel.c1_32, DigestModel.c2_32.
  repeat split; reflexivity.
Qed.
Print Assumptions leaf_digest32_kmix_is_model.

Theorem leaf_digest32_hstep_is_model :
  forall h k, Digest.leaf_digest32_hstep h k = model_hstep32 h k /\
              Digest.leaf_digest32_aligned_hstep h k = model_hstep32 h k.
Proof.
  intros. unfold Digest.leaf_digest32_hstep, Digest.leaf_digest32_aligned_hstep, model_hstep32,
    Digest.leaf_rotl32, DigestModel.rotl32, DigestModel.W32. cbv zeta.
  rewrite Z.add_mod_idemp_l by (vm_compute; discriminate). split; reflexivity.
Qed.
Print Assumptions leaf_digest32_hstep_is_model.

Theorem leaf_digest32_final_is_model :
  forall h k len, Digest.leaf_digest32_final h len = model_final32 h len /\
                  Digest.leaf_digest32_aligned_final h len = model_final32 h len /\
                  Digest.leaf_digest32_tail_h h k = Z.lxor h k.
Proof. intros. repeat split; reflexivity.
Qed.
Print Assumptions leaf_digest32_final_is_model.

Theorem digest32_model_unfolds :
  (forall f mem data e h,
      DigestModel.blocks32 (S f) mem data e h =
      if data =? e then (data, h)
      else DigestModel.blocks32 f mem (data + 4) e (model_hstep32 h (DigestModel.kmix32 (DigestModel.load32 mem data)))) /\
  (forall f blocks i n h,
      DigestModel.ablocks32 (S f) blocks i n h =
      if i <? n then DigestModel.ablocks32 f blocks (i + 1) n (model_hstep32 h (DigestModel.kmix32 (nth (Z.to_nat i) blocks 0)))
      else h) /\
  (forall mem seed buf len,
      DigestModel.digest32_at mem seed buf len =
      let '(data, h) := DigestModel.blocks32 (Z.to_nat (len / 4)) mem buf (buf + len / 4 * 4) seed in
      DigestModel.mix32 (model_final32 (DigestModel.tail32 mem data (Z.land len 3) h) len)) /\
  (forall seed blocks,
      DigestModel.digest32_aligned seed blocks =
      let len := 4 * Z.of_nat (length blocks) in
      DigestModel.mix32 (model_final32 (DigestModel.ablocks32 (Z.to_nat (len / 4)) blocks 0 (len / 4) seed) len)).
Proof. repeat split; reflexivity.
Qed.
Print Assumptions digest32_model_unfolds.

(* ---- constants *)
Theorem digest_multipliers_are_model :
  Digest.digest64_m = DigestModel.m64 /\ Digest.digest64_aligned_m = DigestModel.m64 /\
  Digest.digest64_m = DigestSpec.fh_m /\
  Digest.digest32_c1 = DigestModel.c1_32 /\ Digest.digest32_aligned_c1 = DigestModel.c1_32 /\
  Digest.digest32_c2 = DigestModel.c2_32 /\ Digest.digest32_aligned_c2 = DigestModel.c2_32 /\
  Digest.digest32_c1 = DigestSpec.mm_c1 /\ Digest.digest32_c2 = DigestSpec.mm_c2 /\
  Digest.digest32_rotl_amounts = [15; 13; 15] /\ Digest.digest32_aligned_rotl_amounts = [15; 13].
Proof. repeat split; reflexivity.
Qed.
Print Assumptions digest_multipliers_are_model.

(* every integer literal of each function, in source order, is the one the model has at that place: for
   zix_digest64: m; k = 0; v = 0; len & 7; then per case c = 7..2: label c, index c-1, shift 8(c-1); case 1, index 0.
   for zix_digest32: c1; c2; k = 0; rotl 15; rotl 13; * 5; + 0xE6546B64; k = 0; len & 3; case 3: index 2, << 16;
   case 2: index 1, << 8; case 1: index 0; rotl 15 *)
Theorem digest_literals_are_model :
  Digest.mix64_literals = [23; 0x2127599BF4325C37; 47] /\
  Digest.mix32_literals = [16; 0x85EBCA6B; 13; 0xC2B2AE35; 16] /\
  Digest.zix_digest64_literals =
    [DigestModel.m64; 0; 0; 7;  7; 6; 48;  6; 5; 40;  5; 4; 32;  4; 3; 24;  3; 2; 16;  2; 1; 8;  1; 0] /\
  Digest.zix_digest64_aligned_literals = [DigestModel.m64; 0; 0; 0] /\
  Digest.zix_digest32_literals =
    [DigestModel.c1_32; DigestModel.c2_32; 0; 15; 13; 5; 0xE6546B64; 0; 3;  3; 2; 16;  2; 1; 8;  1; 0;  15] /\
  Digest.zix_digest32_aligned_literals = [DigestModel.c1_32; DigestModel.c2_32; 0; 0; 0; 15; 13; 5; 0xE6546B64].
Proof. repeat split; reflexivity.
Qed.
Print Assumptions digest_literals_are_model.
